(* C06 — every signature is over the consensus-spec signing root for that duty and key.
   Property theorems only; the proofs are in Proofs/C06.v, Proofs/C06_Spec.v and Proofs/C06_Flaky.v.

   Reading guide.  [H] is the two-to-one hash of SSZ merkleisation (any function; SHA-256 in the
   correspondence check), [sign k m] the BLS signature of the 32-byte message m under the key named
   k, [zero_sig] the all-zero signature that vouch uses for "no signature".
   [run H sig zero_sig P E Sv q] is the model of services/signer/standard handling request [q] with
   service fields [Sv], domain provider [P] and account behaviour [E].  The theorems take
     Sv = spec_service c       the service as New builds it from a chain spec with the spec constants,
     P  = spec_provider H c    a node of chain c: Domain = get_domain, GenesisDomain = genesis fork,
     E  = honest H sig sign    accounts behaving as their interfaces document (a wallet account signs
                               the 32 bytes it is given, a protecting remote signer signs
                               hash_tree_root(SigningData(root, domain)), a multi-signer does so per
                               account and reports an account that cannot sign by a nil entry).
   [expected a r] = [sign (a_key a) r], or [zero_sig] when account a cannot sign.
   The specification side ([spec_signing_root], [get_domain], [compute_domain], [htr_*]) is Lib/Ssz.v
   and Section Spec of Model/C06_Signer.v, written from the consensus and builder specifications. *)
From Verif Require Import Lib.Base Lib.Ssz Model.C06_Signer Proofs.C06 Proofs.C06_Spec Proofs.C06_Flaky Proofs.C06_Overlap.

(* ------------------------------------------------------------------------------------------ *)
(* The property, for every request of every kind, every chain, every batch.                     *)

(* Whenever the service returns signatures, there is exactly one per (account, message) of the
   request, in request order, and the i-th is the i-th account's signature over the specification's
   signing root of the i-th message: compute_signing_root(object, domain) with the domain type of
   that duty and the fork version in force at the duty's epoch -- for all message contents, slots,
   epochs, fork schedules, and all batches in any order and mixture of account kinds.
   (Hypothesis [req_wf]: attestation data is for its slot's epoch, which C01 establishes; the
   specification takes the fork of target.epoch, the code that of slot / SLOTS_PER_EPOCH.) *)
Theorem C06_request_spec :
  forall (H : N -> N -> N) (sig : Type) (zero_sig : sig) (sign : N -> N -> sig) (c : chain)
         (q : request) (sigs : list sig),
    req_wf c q ->
    run H sig zero_sig (spec_provider H c) (honest H sig sign) (spec_service c) q = Ok sigs ->
    sigs = map (fun it => expected sig zero_sig sign (fst it) (spec_signing_root H c (snd it))) (request_items q).
Proof. exact run_spec. Qed.
Print Assumptions C06_request_spec.

(* The same, position by position: the i-th signature belongs to the i-th account and message. *)
Theorem C06_batch_order :
  forall (H : N -> N -> N) (sig : Type) (zero_sig : sig) (sign : N -> N -> sig) (c : chain)
         (q : request) (sigs : list sig) (i : nat) (a : account) (m : message),
    req_wf c q ->
    run H sig zero_sig (spec_provider H c) (honest H sig sign) (spec_service c) q = Ok sigs ->
    nth_error (request_items q) i = Some (a, m) ->
    nth_error sigs i = Some (expected sig zero_sig sign a (spec_signing_root H c m)).
Proof. exact run_spec_nth. Qed.
Print Assumptions C06_batch_order.

(* All or nothing: a result has one signature per requested (account, message). *)
Theorem C06_one_signature_per_item :
  forall (H : N -> N -> N) (sig : Type) (zero_sig : sig) (sign : N -> N -> sig) (c : chain)
         (q : request) (sigs : list sig),
    req_wf c q ->
    run H sig zero_sig (spec_provider H c) (honest H sig sign) (spec_service c) q = Ok sigs ->
    length sigs = length (request_items q).
Proof. exact run_spec_length. Qed.
Print Assumptions C06_one_signature_per_item.

(* For ANY chain spec values and ANY domain provider (nothing assumed about the constants): every
   returned signature is the i-th account's over compute_signing_root(object root of the i-th
   message, D) where D is what the provider answered for the service's domain type OF THAT DUTY
   ([duty_domain]: s_attester for attestations, s_proposer for blocks, ... s_builder with
   GenesisDomain for registrations) and THE DUTY'S EPOCH (slot / SLOTS_PER_EPOCH; the caller's epoch
   for sync committee messages; each contribution's own slot). *)
Theorem C06_request_triple :
  forall (H : N -> N -> N) (sig : Type) (zero_sig : sig) (sign : N -> N -> sig) (P : provider) (Sv : service)
         (q : request) (sigs : list sig),
    run H sig zero_sig P (honest H sig sign) Sv q = Ok sigs ->
    length sigs = length (request_items q) /\
    forall i a m, nth_error (request_items q) i = Some (a, m) ->
      exists s, nth_error sigs i = Some s /\
        exists domain, duty_domain P Sv m = Some domain /\
          s = expected sig zero_sig sign a (compute_signing_root H (duty_object_root H (s_spe Sv) m) domain).
Proof. exact run_general. Qed.
Print Assumptions C06_request_triple.

(* ------------------------------------------------------------------------------------------ *)
(* The split by account kind and the index maps (helpers.go:signRootsByAccountType,             *)
(* signbeaconattestations.go), for ANY domain provider and service configuration.               *)

(* For any accounts (ordinary and distributed in any mixture and order, repeated or not), any
   roots and any domain: the i-th returned signature is the i-th account's over the i-th root. *)
Theorem C06_roots_batch_order :
  forall (H : N -> N -> N) (sig : Type) (zero_sig : sig) (sign : N -> N -> sig)
         (accs : list account) (roots : list N) (domain : N) (l : list sig) (i : nat) (a : account) (r : N),
    sign_roots_by_account_type H sig zero_sig (honest H sig sign) accs roots domain = Ok l ->
    nth_error accs i = Some a -> nth_error roots i = Some r ->
    nth_error l i = Some (expected sig zero_sig sign a (compute_signing_root H r domain)).
Proof. exact sign_roots_by_account_type_nth. Qed.
Print Assumptions C06_roots_batch_order.

Theorem C06_attestations_batch_order :
  forall (H : N -> N -> N) (sig : Type) (zero_sig : sig) (sign : N -> N -> sig) (P : provider) (Sv : service)
         (accs : list account) (idxs : list N) (shared : att_data) (l : list sig) (i : nat) (a : account) (idx : N),
    sign_attestations H sig zero_sig P (honest H sig sign) Sv accs idxs shared = Ok l ->
    nth_error accs i = Some a -> nth_error idxs i = Some idx ->
    exists domain,
      p_domain P (s_attester Sv) (ad_slot shared / s_spe Sv) = Some domain /\
      nth_error l i = Some (expected sig zero_sig sign a
                              (compute_signing_root H (htr_att_data H (att_with_index shared idx)) domain)).
Proof. exact sign_attestations_nth. Qed.
Print Assumptions C06_attestations_batch_order.

(* The re-assembly itself: whatever the two sub-batch signers compute item by item ([f]),
   scattering their result vectors through the two index maps writes [map f items] at the items'
   positions of the result slice and nothing else. *)
Theorem C06_index_maps_reassemble :
  forall (sig : Type) (A : Type) (f : account * A -> sig) (items : list (account * A))
         (i0 : nat) (o : list (account * A)) (om : list nat) (d : list (account * A)) (dm : list nat) (s : list sig),
    split_from i0 items = ((o, om), (d, dm)) ->
    (i0 + length items <= length s)%nat ->
    scatter sig dm (map f d) (scatter sig om (map f o) s)
    = firstn i0 s ++ map f items ++ skipn (i0 + length items) s.
Proof. exact reassemble. Qed.
Print Assumptions C06_index_maps_reassemble.

(* ------------------------------------------------------------------------------------------ *)
(* The two signer paths sign the same message.                                                  *)

(* helpers.go:sign -- the protected remote call with (root, domain) and the local
   hash_tree_root(SigningData(root, domain)) followed by a plain Sign give the same signature,
   namely the key's over compute_signing_root(root, domain). *)
Theorem C06_paths_agree :
  forall (H : N -> N -> N) (sig : Type) (sign : N -> N -> sig) (a a' : account) (root domain : N),
    a_key a = a_key a' -> a_fail a = false -> a_fail a' = false ->
    a_prot a = true ->                          (* a : protecting (remote) signer *)
    a_prot a' = false -> a_signer a' = true ->  (* a' : plain local signer with the same key *)
    sign_one H sig (honest H sig sign) a root domain = Ok (sign (a_key a) (compute_signing_root H root domain)) /\
    sign_one H sig (honest H sig sign) a' root domain = sign_one H sig (honest H sig sign) a root domain.
Proof.
  intros H sig sign a a' root domain Hk Hf Hf' Hp Hp' Hs'.
  rewrite (sign_one_able H sig sign a root domain Hf) by (rewrite Hp; reflexivity).
  rewrite (sign_one_able H sig sign a' root domain Hf') by (rewrite Hs'; apply orb_true_r).
  rewrite Hk. split; reflexivity.
Qed.
Print Assumptions C06_paths_agree.

(* the same for the two typed paths: SignBeaconAttestation(fields.., domain) on a protecting signer
   against hash_tree_root(AttestationData) + sign on a local one; likewise block proposals *)
Theorem C06_attestation_paths_agree :
  forall (H : N -> N -> N) (sig : Type) (sign : N -> N -> sig) (P : provider) (Sv : service)
         (a : account) (d : att_data) (domain : N),
    a_fail a = false -> (a_prot a || a_signer a = true) ->
    p_domain P (s_attester Sv) (ad_slot d / s_spe Sv) = Some domain ->
    sign_attestation H sig P (honest H sig sign) Sv a d
    = Ok (sign (a_key a) (compute_signing_root H (htr_att_data H d) domain)).
Proof. exact sign_attestation_able. Qed.
Print Assumptions C06_attestation_paths_agree.

Theorem C06_proposal_paths_agree :
  forall (H : N -> N -> N) (sig : Type) (sign : N -> N -> sig) (P : provider) (Sv : service)
         (a : account) (h : block_header) (domain : N),
    a_fail a = false -> (a_prot a || a_signer a = true) ->
    p_domain P (s_proposer Sv) (bh_slot h / s_spe Sv) = Some domain ->
    sign_proposal H sig P (honest H sig sign) Sv a h
    = Ok (sign (a_key a) (compute_signing_root H (htr_block_header H h) domain)).
Proof. exact sign_proposal_able. Qed.
Print Assumptions C06_proposal_paths_agree.

(* ------------------------------------------------------------------------------------------ *)
(* Kind by kind: the domain type of the duty, the epoch of the duty, the object root.           *)

(* attestation (validator.md get_attestation_signature): DOMAIN_BEACON_ATTESTER at data.target.epoch *)
Theorem C06_attestation_is_spec_root :
  forall (H : N -> N -> N) (sig : Type) (zero_sig : sig) (sign : N -> N -> sig) (c : chain)
         (a : account) (d : att_data) (sigs : list sig),
    ad_target_epoch d = ad_slot d / ch_spe c ->
    run H sig zero_sig (spec_provider H c) (honest H sig sign) (spec_service c) (ReqAttestation a d) = Ok sigs ->
    sigs = [sign (a_key a) (compute_signing_root H (htr_att_data H d)
                              (get_domain H c DOMAIN_BEACON_ATTESTER (ad_target_epoch d)))]
    /\ a_fail a = false.
Proof. exact attestation_spec. Qed.
Print Assumptions C06_attestation_is_spec_root.

(* batched attestations: the i-th account signs the data with the i-th committee index *)
Theorem C06_attestations_is_spec_root :
  forall (H : N -> N -> N) (sig : Type) (zero_sig : sig) (sign : N -> N -> sig) (c : chain)
         (accs : list account) (slot : N) (idxs : list N) (bbr se sr te tr : N) (sigs : list sig),
    te = slot / ch_spe c ->
    run H sig zero_sig (spec_provider H c) (honest H sig sign) (spec_service c)
        (ReqAttestations accs slot idxs bbr se sr te tr) = Ok sigs ->
    sigs = map (fun it => expected sig zero_sig sign (fst it)
                            (compute_signing_root H (htr_att_data H (AttData slot (snd it) bbr se sr te tr))
                               (get_domain H c DOMAIN_BEACON_ATTESTER te)))
               (combine accs idxs).
Proof. exact attestations_spec. Qed.
Print Assumptions C06_attestations_is_spec_root.

(* block proposal (get_block_signature): DOMAIN_BEACON_PROPOSER at epoch(block.slot), root of the header *)
Theorem C06_proposal_is_spec_root :
  forall (H : N -> N -> N) (sig : Type) (zero_sig : sig) (sign : N -> N -> sig) (c : chain)
         (a : account) (h : block_header) (sigs : list sig),
    run H sig zero_sig (spec_provider H c) (honest H sig sign) (spec_service c) (ReqProposal a h) = Ok sigs ->
    sigs = [sign (a_key a) (compute_signing_root H (htr_block_header H h)
                              (get_domain H c DOMAIN_BEACON_PROPOSER (bh_slot h / ch_spe c)))]
    /\ a_fail a = false.
Proof. exact proposal_spec. Qed.
Print Assumptions C06_proposal_is_spec_root.

(* RANDAO reveal (get_epoch_signature): DOMAIN_RANDAO at epoch(slot), object = the epoch as uint64 *)
Theorem C06_randao_is_spec_root :
  forall (H : N -> N -> N) (sig : Type) (zero_sig : sig) (sign : N -> N -> sig) (c : chain)
         (a : account) (slot : N) (sigs : list sig),
    run H sig zero_sig (spec_provider H c) (honest H sig sign) (spec_service c) (ReqRandao a slot) = Ok sigs ->
    sigs = [sign (a_key a) (compute_signing_root H (u64_chunk (slot / ch_spe c))
                              (get_domain H c DOMAIN_RANDAO (slot / ch_spe c)))]
    /\ a_fail a = false.
Proof. exact randao_spec. Qed.
Print Assumptions C06_randao_is_spec_root.

(* slot selection proofs (get_slot_signature): DOMAIN_SELECTION_PROOF at epoch(slot), object = the slot *)
Theorem C06_slot_selection_is_spec_root :
  forall (H : N -> N -> N) (sig : Type) (zero_sig : sig) (sign : N -> N -> sig) (c : chain)
         (accs : list account) (slot : N) (sigs : list sig),
    run H sig zero_sig (spec_provider H c) (honest H sig sign) (spec_service c) (ReqSlotSelections accs slot) = Ok sigs ->
    sigs = map (fun a => expected sig zero_sig sign a
                           (compute_signing_root H (u64_chunk slot) (get_domain H c DOMAIN_SELECTION_PROOF (slot / ch_spe c))))
               accs.
Proof. exact slot_selections_spec. Qed.
Print Assumptions C06_slot_selection_is_spec_root.

(* sync committee selection proofs (altair get_sync_committee_selection_proof) *)
Theorem C06_sync_selection_is_spec_root :
  forall (H : N -> N -> N) (sig : Type) (zero_sig : sig) (sign : N -> N -> sig) (c : chain)
         (accs : list account) (slot : N) (subs : list N) (sigs : list sig),
    run H sig zero_sig (spec_provider H c) (honest H sig sign) (spec_service c) (ReqSyncSelections accs slot subs) = Ok sigs ->
    sigs = map (fun it => expected sig zero_sig sign (fst it)
                            (compute_signing_root H (htr_sync_selection_data H slot (snd it))
                               (get_domain H c DOMAIN_SYNC_COMMITTEE_SELECTION_PROOF (slot / ch_spe c))))
               (combine accs subs).
Proof. exact sync_selections_spec. Qed.
Print Assumptions C06_sync_selection_is_spec_root.

(* aggregate and proof (get_aggregate_and_proof_signature): the given root, DOMAIN_AGGREGATE_AND_PROOF at epoch(slot) *)
Theorem C06_aggregate_and_proof_is_spec_root :
  forall (H : N -> N -> N) (sig : Type) (zero_sig : sig) (sign : N -> N -> sig) (c : chain)
         (a : account) (slot root : N) (sigs : list sig),
    run H sig zero_sig (spec_provider H c) (honest H sig sign) (spec_service c) (ReqAggregateAndProof a slot root) = Ok sigs ->
    sigs = [sign (a_key a) (compute_signing_root H root (get_domain H c DOMAIN_AGGREGATE_AND_PROOF (slot / ch_spe c)))]
    /\ a_fail a = false.
Proof. exact aggregate_and_proof_spec. Qed.
Print Assumptions C06_aggregate_and_proof_is_spec_root.

(* sync committee messages (altair get_sync_committee_message): the block root, DOMAIN_SYNC_COMMITTEE at the caller's epoch *)
Theorem C06_sync_message_is_spec_root :
  forall (H : N -> N -> N) (sig : Type) (zero_sig : sig) (sign : N -> N -> sig) (c : chain)
         (accs : list account) (epoch root : N) (sigs : list sig),
    run H sig zero_sig (spec_provider H c) (honest H sig sign) (spec_service c) (ReqSyncRoots accs epoch root) = Ok sigs ->
    sigs = map (fun a => expected sig zero_sig sign a
                           (compute_signing_root H root (get_domain H c DOMAIN_SYNC_COMMITTEE epoch)))
               accs.
Proof. exact sync_messages_spec. Qed.
Print Assumptions C06_sync_message_is_spec_root.

(* contribution and proofs (altair get_contribution_and_proof_signature): each item with the fork of
   ITS OWN contribution's epoch -- true since fix b69e3bf refuses batches spanning epochs *)
Theorem C06_contribution_is_spec_root :
  forall (H : N -> N -> N) (sig : Type) (zero_sig : sig) (sign : N -> N -> sig) (c : chain)
         (accs : list account) (cps : list contribution_and_proof) (sigs : list sig),
    run H sig zero_sig (spec_provider H c) (honest H sig sign) (spec_service c) (ReqContributions accs cps) = Ok sigs ->
    sigs = map (fun it => expected sig zero_sig sign (fst it)
                            (compute_signing_root H (htr_contribution_and_proof H (snd it))
                               (get_domain H c DOMAIN_CONTRIBUTION_AND_PROOF
                                           (co_slot (cp_contribution (snd it)) / ch_spe c))))
               (combine accs cps).
Proof. exact contributions_spec. Qed.
Print Assumptions C06_contribution_is_spec_root.

(* validator registration (builder-specs): DOMAIN_APPLICATION_BUILDER, genesis fork version, zero root *)
Theorem C06_registration_is_spec_root :
  forall (H : N -> N -> N) (sig : Type) (zero_sig : sig) (sign : N -> N -> sig) (c : chain)
         (a : account) (reg : option go_registration) (sigs : list sig),
    run H sig zero_sig (spec_provider H c) (honest H sig sign) (spec_service c) (ReqRegistration a reg) = Ok sigs ->
    exists r, reg = Some r /\
      sigs = [sign (a_key a) (compute_signing_root H (htr_registration H (wire_registration r))
                                (compute_domain H DOMAIN_APPLICATION_BUILDER (ch_genesis_version c) 0))]
      /\ a_fail a = false.
Proof. exact registration_spec. Qed.
Print Assumptions C06_registration_is_spec_root.

(* ... and the message signed is the registration that goes on the wire: its timestamp is the
   whole seconds of the time.Time the caller supplied, whatever the sub-second part (ns = 0, 1,
   499999999, 500000000, 999999999: the same message, the same signature) *)
Theorem C06_registration_timestamp_is_whole_seconds :
  forall (H : N -> N -> N) (sig : Type) (zero_sig : sig) (sign : N -> N -> sig) (c : chain)
         (a : account) (fee gas pk : N) (s ns : Z) (sigs : list sig),
    (0 <= ns < 1000000000)%Z -> (0 <= s < 18446744073709551616)%Z ->
    run H sig zero_sig (spec_provider H c) (honest H sig sign) (spec_service c)
        (ReqRegistration a (Some (GoRegistration fee gas (s * 1000000000 + ns) pk))) = Ok sigs ->
    sigs = [sign (a_key a) (compute_signing_root H (htr_registration H (Registration fee gas (Z.to_N s) pk))
                              (compute_domain H DOMAIN_APPLICATION_BUILDER (ch_genesis_version c) 0))].
Proof. exact registration_seconds_spec. Qed.
Print Assumptions C06_registration_timestamp_is_whole_seconds.

(* ------------------------------------------------------------------------------------------ *)
(* Supporting facts.                                                                            *)

(* contribution and proofs of several epochs are refused (any provider, any service): they are
   never signed with the domain of the first one (the defect repaired by fix b69e3bf) *)
Theorem C06_contributions_of_several_epochs_refused :
  forall (H : N -> N -> N) (sig : Type) (zero_sig : sig) (sign : N -> N -> sig) (P : provider) (Sv : service)
         (accs : list account) (cps : list contribution_and_proof) (cp0 cp : contribution_and_proof),
    hd_error cps = Some cp0 -> In cp cps ->
    co_slot (cp_contribution cp) / s_spe Sv <> co_slot (cp_contribution cp0) / s_spe Sv ->
    sign_contributions H sig zero_sig P (honest H sig sign) Sv accs cps = Err.
Proof. exact sign_contributions_mixed_epochs. Qed.
Print Assumptions C06_contributions_of_several_epochs_refused.

(* binary.LittleEndian.PutUint64 into a zeroed root (RANDAO epoch, selection slot) is ssz's
   hash_tree_root of the uint64 *)
Theorem C06_uint64_root :
  forall x : N, put_uint64_le x = u64_chunk x.
Proof. exact put_uint64_le_is_u64_chunk. Qed.
Print Assumptions C06_uint64_root.

(* The specification's fork lookup (Lib/Ssz.v version_at, used by get_domain) is "the version of the
   last fork activated at or before the epoch, else the genesis version", for ascending schedules. *)
Theorem C06_version_at_is_last_activated_fork :
  forall (forks : list (N * N)) (genesis_version epoch : N),
    ascending forks ->
    version_from genesis_version forks epoch
    = last (map snd (filter (fun f => fst f <=? epoch) forks)) genesis_version.
Proof. intros forks v e Hasc. exact (version_from_last forks v e Hasc). Qed.
Print Assumptions C06_version_at_is_last_activated_fork.

(* Completeness of a sub-batch: accounts of one family -- all local signers that can sign, or all
   remote protecting multi-signers (able or not) -- always get a result, item by item. *)
Theorem C06_uniform_group_signs :
  forall (H : N -> N -> N) (sig : Type) (zero_sig : sig) (sign : N -> N -> sig)
         (items : list (account * N)) (domain : N),
    items <> [] ->
    Forall (fun it => local_account (fst it) = true) items \/ Forall (fun it => remote_account (fst it) = true) items ->
    sign_roots_multi H sig zero_sig (honest H sig sign) items domain
    = Ok (map (fun it => expected sig zero_sig sign (fst it) (compute_signing_root H (snd it) domain)) items).
Proof. exact sign_roots_multi_uniform. Qed.
Print Assumptions C06_uniform_group_signs.

(* Completeness of a whole batch of generic roots: if the individual accounts of the request are of
   one family and the distributed ones are of one family (what a wallet or a dirk account manager
   provides), in any order and mixture, the request succeeds and returns every item's signature. *)
Theorem C06_batch_complete :
  forall (H : N -> N -> N) (sig : Type) (zero_sig : sig) (sign : N -> N -> sig)
         (accs : list account) (roots : list N) (domain : N),
    length accs = length roots ->
    uniform (filter not_dist (combine accs roots)) ->
    uniform (filter is_dist (combine accs roots)) ->
    sign_roots_by_account_type H sig zero_sig (honest H sig sign) accs roots domain
    = Ok (map (fun it => expected sig zero_sig sign (fst it) (compute_signing_root H (snd it) domain)) (combine accs roots)).
Proof. exact sign_roots_by_account_type_complete. Qed.
Print Assumptions C06_batch_complete.

(* ------------------------------------------------------------------------------------------ *)
(* Sessions: any number of requests made to ONE service instance, in any order.                 *)
(* [run_session H sig zero_sig E Sv qs] handles the requests [qs] one after another on the      *)
(* service [Sv], each with the domain provider as it answers during that request.               *)

(* What a request returns does not depend on what the same service instance was asked before
   it: the k-th outcome of a session is the outcome of the k-th request made alone to a service
   fresh from New -- for any requests before it (of the same or other kinds, for later or earlier
   epochs, on either side of any fork, answered or failed), any accounts, any provider. *)
Theorem C06_session_request_alone :
  forall (H : N -> N -> N) (sig : Type) (zero_sig : sig) (E : env sig) (Sv : service)
         (qs : list (provider * request)) (k : nat) (P : provider) (q : request),
    nth_error qs k = Some (P, q) ->
    nth_error (run_session H sig zero_sig E Sv qs) k = Some (run H sig zero_sig P E Sv q).
Proof. exact run_session_nth. Qed.
Print Assumptions C06_session_request_alone.

(* The property for every request of every session: whenever the k-th request of a session is
   answered with signatures (the node being a node of chain c while that request is handled;
   the other requests of the session may be anything, made while the node answers anything),
   there is one signature per (account, message) of THAT request, in its order, the i-th being
   the i-th account's over the specification's signing root of the i-th message: the domain type of
   that duty and the fork in force at THAT duty's epoch, whichever epochs the same service signed
   for before. *)
Theorem C06_session_spec :
  forall (H : N -> N -> N) (sig : Type) (zero_sig : sig) (sign : N -> N -> sig) (c : chain)
         (qs : list (provider * request)) (k : nat) (q : request) (sigs : list sig),
    nth_error qs k = Some (spec_provider H c, q) ->
    req_wf c q ->
    nth_error (run_session H sig zero_sig (honest H sig sign) (spec_service c) qs) k = Some (Ok sigs) ->
    sigs = map (fun it => expected sig zero_sig sign (fst it) (spec_signing_root H c (snd it))) (request_items q).
Proof.
  intros H sig zero_sig sign c qs k q sigs Hk Hwf Hout.
  rewrite (run_session_nth H sig zero_sig (honest H sig sign) (spec_service c) qs k _ q Hk) in Hout.
  injection Hout as Hrun. exact (run_spec H sig zero_sig sign c q sigs Hwf Hrun).
Qed.
Print Assumptions C06_session_spec.

(* The same, position by position: i-th signature of the k-th request of the session. *)
Theorem C06_session_batch_order :
  forall (H : N -> N -> N) (sig : Type) (zero_sig : sig) (sign : N -> N -> sig) (c : chain)
         (qs : list (provider * request)) (k : nat) (q : request) (sigs : list sig) (i : nat) (a : account) (m : message),
    nth_error qs k = Some (spec_provider H c, q) ->
    req_wf c q ->
    nth_error (run_session H sig zero_sig (honest H sig sign) (spec_service c) qs) k = Some (Ok sigs) ->
    nth_error (request_items q) i = Some (a, m) ->
    nth_error sigs i = Some (expected sig zero_sig sign a (spec_signing_root H c m)).
Proof.
  intros H sig zero_sig sign c qs k q sigs i a m Hk Hwf Hout Hi.
  rewrite (run_session_nth H sig zero_sig (honest H sig sign) (spec_service c) qs k _ q Hk) in Hout.
  injection Hout as Hrun. exact (run_spec_nth H sig zero_sig sign c q sigs i a m Hwf Hrun Hi).
Qed.
Print Assumptions C06_session_batch_order.

(* A session gives one outcome per request, and a session continued is the session so far
   followed by the continuation made alone. *)
Theorem C06_session_outcomes :
  forall (H : N -> N -> N) (sig : Type) (zero_sig : sig) (E : env sig) (Sv : service)
         (qs1 qs2 : list (provider * request)),
    length (run_session H sig zero_sig E Sv (qs1 ++ qs2)) = (length qs1 + length qs2)%nat /\
    run_session H sig zero_sig E Sv (qs1 ++ qs2)
    = run_session H sig zero_sig E Sv qs1 ++ run_session H sig zero_sig E Sv qs2.
Proof.
  intros. split; [rewrite run_session_length; apply app_length | apply run_session_app].
Qed.
Print Assumptions C06_session_outcomes.

(* ------------------------------------------------------------------------------------------ *)
(* Partial failures of the signer behind the accounts.                                          *)
(* [honest_flaky H sig sign bf be sf]: the accounts sign what their interfaces document, but     *)
(* the (remote, threshold) signer fails here and there, call by call: a multi-signature call has *)
(* no signature (nil entry) for a member [bf a] that could sign alone, a multi-signature call    *)
(* made on account [be a] fails as a whole, a single-signature call fails for [sf a].  The three *)
(* predicates are arbitrary and may differ from one request of a session to the next.            *)

(* The property under partial failures, for every request of every kind, every chain, every
   batch and every pattern of failures: whenever signatures are returned there is exactly one per
   (account, message) of the request, in request order, and the i-th is EITHER the zero signature
   ("no signature") OR the i-th account's signature over the specification's signing root of the
   i-th message.  No failure of the signer, and nothing the service does about one, puts a
   signature over another message (another committee index, subcommittee, contribution, epoch's
   domain) or of another account at position i. *)
Theorem C06_partial_failure_spec :
  forall (H : N -> N -> N) (sig : Type) (zero_sig : sig) (sign : N -> N -> sig) (bf be sf : account -> bool)
         (c : chain) (q : request) (sigs : list sig),
    req_wf c q ->
    run H sig zero_sig (spec_provider H c) (honest_flaky H sig sign bf be sf) (spec_service c) q = Ok sigs ->
    length sigs = length (request_items q) /\
    forall i a m s, nth_error (request_items q) i = Some (a, m) -> nth_error sigs i = Some s ->
      s = zero_sig \/ s = sign (a_key a) (spec_signing_root H c m).
Proof. exact run_flaky_spec. Qed.
Print Assumptions C06_partial_failure_spec.

(* The reason, for ANY two behaviours of the accounts' signers, any provider and any service
   values: if [E'] fails more often than [E] ([env_le]: every single-signature call that E' answers
   E answers with the same signature; every multi-signature call that E' answers E answers with
   the same entries except where E' has none), every request answered with E' is answered with E,
   and the two results differ only by zero signatures in the former, position by position. *)
Theorem C06_failing_more_only_adds_zero_signatures :
  forall (H : N -> N -> N) (sig : Type) (zero_sig : sig) (E E' : env sig),
    env_le sig E E' ->
    forall (P : provider) (Sv : service) (q : request) (sigs' : list sig),
      run H sig zero_sig P E' Sv q = Ok sigs' ->
      exists sigs, run H sig zero_sig P E Sv q = Ok sigs /\
                   Forall2 (fun s s' => s' = s \/ s' = zero_sig) sigs sigs'.
Proof. exact run_le. Qed.
Print Assumptions C06_failing_more_only_adds_zero_signatures.

(* Sessions with failures that come and go: [run_session_env] handles every request with the
   node AND the accounts' signers as they answer during that request.  The k-th outcome is the
   outcome of the k-th request made alone to a fresh service with the signers as they were during
   it: a failure during one request leaves nothing behind for the next. *)
Theorem C06_session_env_request_alone :
  forall (H : N -> N -> N) (sig : Type) (zero_sig : sig) (Sv : service)
         (qs : list (provider * env sig * request)) (k : nat) (P : provider) (E : env sig) (q : request),
    nth_error qs k = Some (P, E, q) ->
    nth_error (run_session_env H sig zero_sig Sv qs) k = Some (run H sig zero_sig P E Sv q).
Proof. exact run_session_env_nth. Qed.
Print Assumptions C06_session_env_request_alone.

(* ... and every answered request of such a session -- the other requests arbitrary, made while
   the node and the signers behave in any way -- carries, position by position, zero signatures or
   the signatures over the specification's signing roots of ITS messages. *)
Theorem C06_session_partial_failure_spec :
  forall (H : N -> N -> N) (sig : Type) (zero_sig : sig) (sign : N -> N -> sig) (bf be sf : account -> bool) (c : chain)
         (qs : list (provider * env sig * request)) (k : nat) (q : request) (sigs : list sig),
    nth_error qs k = Some (spec_provider H c, honest_flaky H sig sign bf be sf, q) ->
    req_wf c q ->
    nth_error (run_session_env H sig zero_sig (spec_service c) qs) k = Some (Ok sigs) ->
    length sigs = length (request_items q) /\
    forall i a m s, nth_error (request_items q) i = Some (a, m) -> nth_error sigs i = Some s ->
      s = zero_sig \/ s = sign (a_key a) (spec_signing_root H c m).
Proof.
  intros H sig zero_sig sign bf be sf c qs k q sigs Hk Hwf Hout.
  rewrite (run_session_env_nth H sig zero_sig (spec_service c) qs k _ _ q Hk) in Hout.
  injection Hout as Hrun. exact (run_flaky_spec H sig zero_sig sign bf be sf c q sigs Hwf Hrun).
Qed.
Print Assumptions C06_session_partial_failure_spec.

(* ------------------------------------------------------------------------------------------ *)
(* Overlapping requests: requests enter and leave the ONE service instance in any interleaving    *)
(* ([run_overlapped], events [EStart k] / [EFinish k]; an account call of one request may wait    *)
(* while any number of other requests are made and answered).                                     *)

(* Whatever the interleaving -- nested, first-in-first-out, requests repeated, events of requests
   that do not exist --: an outcome reported for the k-th request is the outcome of that request
   made alone to a service fresh from New, with the node and the signers as they answered for it. *)
Theorem C06_overlapped_request_alone :
  forall (H : N -> N -> N) (sig : Type) (zero_sig : sig) (Sv : service)
         (qs : list (provider * env sig * request)) (evs : list event) (k : nat) (out : res (list sig)),
    In (k, out) (run_overlapped H sig zero_sig Sv qs [] evs) ->
    exists P E q, nth_error qs k = Some (P, E, q) /\ out = run H sig zero_sig P E Sv q.
Proof.
  intros H sig zero_sig Sv qs evs k out Hin.
  exact (run_overlapped_alone H sig zero_sig Sv qs evs [] (Forall_nil _) k out Hin).
Qed.
Print Assumptions C06_overlapped_request_alone.

(* ... and a request that is started and later finished is answered, whatever happens in between
   and around it. *)
Theorem C06_overlapped_request_answered :
  forall (H : N -> N -> N) (sig : Type) (zero_sig : sig) (Sv : service)
         (qs : list (provider * env sig * request)) (k : nat) (P : provider) (E : env sig) (q : request)
         (before between after : list event),
    nth_error qs k = Some (P, E, q) ->
    ~ In (EFinish k) between ->
    exists outs1 outs2,
      run_overlapped H sig zero_sig Sv qs [] (before ++ EStart k :: between ++ EFinish k :: after)
      = outs1 ++ outs2 /\ In (k, run H sig zero_sig P E Sv q) outs2.
Proof. exact run_overlapped_answered. Qed.
Print Assumptions C06_overlapped_request_answered.

(* The property for overlapping requests: every answered request of every interleaving -- the other
   requests arbitrary, the node and the signers answering them in any way -- carries, position by
   position, zero signatures (for accounts the signer had no signature for) or the signatures of ITS
   accounts over the specification's signing roots of ITS messages. *)
Theorem C06_overlapped_spec :
  forall (H : N -> N -> N) (sig : Type) (zero_sig : sig) (sign : N -> N -> sig) (bf be sf : account -> bool) (c : chain)
         (qs : list (provider * env sig * request)) (evs : list event) (k : nat) (q : request) (sigs : list sig),
    nth_error qs k = Some (spec_provider H c, honest_flaky H sig sign bf be sf, q) ->
    req_wf c q ->
    In (k, Ok sigs) (run_overlapped H sig zero_sig (spec_service c) qs [] evs) ->
    length sigs = length (request_items q) /\
    forall i a m s, nth_error (request_items q) i = Some (a, m) -> nth_error sigs i = Some s ->
      s = zero_sig \/ s = sign (a_key a) (spec_signing_root H c m).
Proof.
  intros H sig zero_sig sign bf be sf c qs evs k q sigs Hk Hwf Hin.
  destruct (run_overlapped_alone H sig zero_sig (spec_service c) qs evs [] (Forall_nil _) k (Ok sigs) Hin)
    as (P & E & q' & Hk' & Hrun).
  rewrite Hk in Hk'. injection Hk' as <- <- <-.
  exact (run_flaky_spec H sig zero_sig sign bf be sf c q sigs Hwf (eq_sym Hrun)).
Qed.
Print Assumptions C06_overlapped_spec.

(* ------------------------------------------------------------------------------------------ *)
(* Non-vacuity: a concrete chain with a fork, a toy hash, and requests that succeed.            *)

Definition toy_H (a b : N) : N := (a * 31 + b * 17 + 7) mod 2 ^ 256.
Definition toy_sign (k m : N) : N * N := (k, m).
Definition toy_chain : chain := Chain 1 [(10, 2); (11, 3)] 99 8.
Definition wallet_acc (k : N) : account := Account k true false false false false.
Definition dirk_acc (k : N) : account := Account k false true true false false.
Definition dirk_dist_acc (k : N) : account := Account k false true true true false.
Definition dirk_down_acc (k : N) : account := Account k false true true true true.

(* a mixed batch (distributed, remote, distributed-that-cannot-sign, remote, remote again) of sync committee
   selections at the last slot before a fork: Ok, five signatures, in request order *)
Example C06_mixed_batch_example :
  let accs := [dirk_dist_acc 1; dirk_acc 2; dirk_down_acc 3; dirk_acc 4; dirk_acc 2] in
  let q := ReqSyncSelections accs 87 [0; 1; 2; 3; 0] in
  req_wf toy_chain q /\
  match run toy_H (N * N) (0, 0) (spec_provider toy_H toy_chain) (honest toy_H (N * N) toy_sign) (spec_service toy_chain) q with
  | Ok sigs => map fst sigs = [1; 2; 0; 4; 2] /\
               nth_error sigs 1 = Some (2, spec_signing_root toy_H toy_chain (MSyncSelection 87 1))
  | _ => False
  end.
Proof. vm_compute. repeat split; reflexivity. Qed.

(* the fork matters: the same message one slot later (next epoch, next fork) has another signing root *)
Example C06_fork_changes_root_example :
  (spec_signing_root toy_H toy_chain (MSlotSelection 87) =? spec_signing_root toy_H toy_chain (MSlotSelection 88)) = false
  /\ version_at toy_chain 10 = 2 /\ version_at toy_chain 11 = 3 /\ version_at toy_chain 9 = 1.
Proof. vm_compute. repeat split; reflexivity. Qed.

(* every kind succeeds on this chain with accounts that can sign *)
Example C06_every_kind_example :
  let P := spec_provider toy_H toy_chain in
  let E := honest toy_H (N * N) toy_sign in
  let ok q := match run toy_H (N * N) (0, 0) P E (spec_service toy_chain) q with Ok (_ :: _) => true | _ => false end in
  forallb ok
    [ReqAttestation (wallet_acc 1) (AttData 87 3 5 9 6 10 7);
     ReqAttestations [dirk_dist_acc 1; wallet_acc 2; dirk_acc 3] 87 [4; 5; 6] 5 9 6 10 7;
     ReqProposal (dirk_acc 1) (BlockHeader 87 2 3 4 5);
     ReqRandao (wallet_acc 1) 87;
     ReqSlotSelections [wallet_acc 1; dirk_dist_acc 2] 87;
     ReqSyncSelections [dirk_acc 1] 87 [2];
     ReqAggregateAndProof (dirk_dist_acc 1) 87 1234;
     ReqSyncRoots [wallet_acc 1; wallet_acc 2] 10 55;
     ReqContributions [dirk_acc 1; dirk_dist_acc 2]
       [ContributionAndProof 7 (Contribution 87 5 1 255 77) 88; ContributionAndProof 8 (Contribution 86 5 2 255 77) 99];
     ReqRegistration (wallet_acc 1) (Some (GoRegistration 1 2 3999999999 4))] = true.
Proof. vm_compute. reflexivity. Qed.

(* a session on one service: a slot selection proof for the first slot after the second fork, one
   for the last slot before it, an aggregate in between made while the node is down, and one for
   the epoch before the first fork: each answered request is signed with the fork domain of ITS
   epoch (three different fork versions), the unanswered one is an error *)
Example C06_session_example :
  let P := spec_provider toy_H toy_chain in
  let down := {| p_domain := fun _ _ => None; p_genesis := fun _ => None |} in
  let E := honest toy_H (N * N) toy_sign in
  let qs := [(P, ReqSlotSelections [wallet_acc 1] 88);
             (P, ReqSlotSelections [wallet_acc 1] 87);
             (down, ReqAggregateAndProof (wallet_acc 1) 87 1234);
             (P, ReqSlotSelections [wallet_acc 1] 79)] in
  run_session toy_H (N * N) (0, 0) E (spec_service toy_chain) qs
  = [Ok [(1, spec_signing_root toy_H toy_chain (MSlotSelection 88))];
     Ok [(1, spec_signing_root toy_H toy_chain (MSlotSelection 87))];
     Err;
     Ok [(1, spec_signing_root toy_H toy_chain (MSlotSelection 79))]]
  /\ version_at toy_chain (88 / 8) = 3 /\ version_at toy_chain (87 / 8) = 2 /\ version_at toy_chain (79 / 8) = 1.
Proof. vm_compute. repeat split; reflexivity. Qed.

(* partial failure: the batch call has no signature for the distributed account 4 (second of the
   distributed sub-batch, fourth of the request): its position carries the zero signature, every
   other position the signature of ITS account over ITS committee index; asked again when the
   failure has gone, the same request gets all five *)
Example C06_partial_failure_example :
  let accs := [dirk_acc 1; dirk_dist_acc 2; dirk_acc 3; dirk_dist_acc 4; dirk_dist_acc 5] in
  let q := ReqAttestations accs 87 [7; 8; 9; 10; 11] 5 9 6 10 7 in
  let P := spec_provider toy_H toy_chain in
  let no := fun _ : account => false in
  let flaky := honest_flaky toy_H (N * N) toy_sign (fun a => a_key a =? 4) no no in
  let root i := spec_signing_root toy_H toy_chain (MAttestation (AttData 87 i 5 9 6 10 7)) in
  req_wf toy_chain q /\
  run_session_env toy_H (N * N) (0, 0) (spec_service toy_chain) [(P, flaky, q); (P, honest toy_H (N * N) toy_sign, q)]
  = [Ok [(1, root 7); (2, root 8); (3, root 9); (0, 0); (5, root 11)];
     Ok [(1, root 7); (2, root 8); (3, root 9); (4, root 10); (5, root 11)]].
Proof. vm_compute. repeat split; reflexivity. Qed.

(* overlapping requests: two aggregate-and-proof signatures for the same slot by two wallet
   accounts, the second requested and answered while the first account is still signing, and a
   RANDAO reveal nested in between: each is over its own root *)
Example C06_overlapped_example :
  let P := spec_provider toy_H toy_chain in
  let E := honest toy_H (N * N) toy_sign in
  let q0 := ReqAggregateAndProof (wallet_acc 1) 85 170 in
  let q1 := ReqAggregateAndProof (wallet_acc 2) 85 187 in
  let q2 := ReqRandao (wallet_acc 3) 88 in
  let root m := spec_signing_root toy_H toy_chain m in
  run_overlapped toy_H (N * N) (0, 0) (spec_service toy_chain) [(P, E, q0); (P, E, q1); (P, E, q2)] []
    [EStart 0; EStart 1; EStart 2; EFinish 2; EFinish 1; EFinish 0]
  = [(2%nat, Ok [(3, root (MRandao 88))]);
     (1%nat, Ok [(2, root (MAggregateAndProof 85 187))]);
     (0%nat, Ok [(1, root (MAggregateAndProof 85 170))])].
Proof. vm_compute. reflexivity. Qed.
