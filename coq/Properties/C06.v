(* C06 — placeholder while the pipeline is brought up; replaced by the real theorems. *)
From Verif Require Import Lib.Base Lib.Ssz Model.C06_Signer.
