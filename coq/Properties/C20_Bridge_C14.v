(* C20 <-> C14 — the two models of the controller's [subscriptionInfos] map
   (services/controller/standard/events.go: subscribeToBeaconCommittees stores the epoch's entry;
   HandleHeadEvent, for a head of the current slot, deletes every key with
   `subscriptionEpoch+1 < epoch`, uint64 arithmetic) agree wherever the successor of a key is a
   uint64, and differ at the key 2^64 - 1, where C14 follows the code and C20 does not.

   C14 (Model/C14_Subscriptions.v): the map [st_infos], operations OSub / OAtt / OHead.
   C20 (Model/C20_Bookkeeping.v): the key set [subs], operations OSubscribe / OHead (and ORefresh).
   [infos_keys st] = the keys of C14's map, newest first; [tr o] = the C20 operations a C14 operation
   stands for (OSub ep cur .. = OSubscribe cur ep stored?, OHead hslot cur = OHead cur hslot, OAtt
   = nothing: it only reads the map). *)
From Verif Require Import Lib.Base Proofs.Bridge_C20C14.
From Verif Require Properties.C20.

(* the two write operations, on every map: storing an epoch's entry is C20's [subscribe _ true] ... *)
Theorem C20_bridge_set_info_is_subscribe :
  forall (ep : N) (v : list S.sub) (m : list (N * list S.sub)),
    rev (map fst (S.set_info ep v m)) = B.subscribe ep true (rev (map fst m)).
Proof. exact set_info_is_ins. Qed.
Print Assumptions C20_bridge_set_info_is_subscribe.

(* ... and the head event's pruning is C20's [head_clean true], provided k + 1 < 2^64 for every key *)
Theorem C20_bridge_prune_is_head_clean_partial :
  forall (h : N) (m : list (N * list S.sub)),
    small_keys (map fst m) ->
    rev (map fst (S.prune_infos h m)) = B.head_clean true h (rev (map fst m)).
Proof. exact prune_is_head_clean. Qed.
Print Assumptions C20_bridge_prune_is_head_clean_partial.

(* FULL STATEMENT (false): the same without [small_keys].  The key 2^64 - 1 (FAR_FUTURE_EPOCH) is
   dropped by every head event of an epoch > 0 in the code and in C14 (the sum wraps to 0), and kept
   by C20, whose test is over unbounded numbers.  C20's own tie theorem C20_tie_head_clean carries
   the same restriction (`nu64 (k + 1)` for every key). *)
Theorem C20_bridge_prune_wrap_refuted :
  exists (pr : S.params) (ops : list S.op),
    infos_keys (fst (S.run pr S.init ops)) = [] /\
    B.subs (B.run (S.spe pr) true (flat_map tr ops) B.init) = [two64 - 1].
Proof. exists wrap_pr, wrap_witness. vm_compute. auto. Qed.
Print Assumptions C20_bridge_prune_wrap_refuted.

(* one operation, in every pair of states related by the abstraction *)
Theorem C20_bridge_subscriptions_step_partial :
  forall (pr : S.params) (st : S.state) (o : S.op) (y : B.sys),
    B.subs y = infos_keys st -> small_keys (infos_keys st) ->
    B.subs (B.run (S.spe pr) true (tr o) y) = infos_keys (fst (S.step pr st o)).
Proof. exact step_abs. Qed.
Print Assumptions C20_bridge_subscriptions_step_partial.

(* every history of the C14 controller model whose subscriptions are for epochs below 2^64 - 1:
   C20's machine, run on the translated history, holds exactly C14's keys *)
Theorem C20_bridge_subscriptions_history_partial :
  forall (pr : S.params) (ops : list S.op),
    Forall small_epoch ops ->
    B.subs (B.run (S.spe pr) true (flat_map tr ops) B.init) = infos_keys (fst (S.run pr S.init ops)).
Proof. exact run_abs_init. Qed.
Print Assumptions C20_bridge_subscriptions_history_partial.

(* C20's bound (C20_subscriptions_bounded) on C14's map: under C20's conditions said of the translated
   history (chain time does not go backwards; subscriptions are for the current or the next epoch),
   C14's map holds no epoch twice, only epochs from (epoch of the last timely head event) - 1 to
   current + 1, hence at most  current - last_timely_head + 3  of them.  [y] supplies C20's two
   ghost clocks. *)
Theorem C20_bridge_subscriptions_bounded_on_C14_partial :
  forall (pr : S.params) (ops : list S.op),
    0 < S.spe pr -> Forall small_epoch ops ->
    B.guarded (S.spe pr) true (BP.gand B.time_ok (B.subs_ok (S.spe pr))) (flat_map tr ops) B.init = true ->
    let st := fst (S.run pr S.init ops) in
    let y := B.run (S.spe pr) true (flat_map tr ops) B.init in
    NoDup (map fst (S.st_infos st)) /\
    (forall k, In k (map fst (S.st_infos st)) -> B.g_head y <= k + 1 /\ k <= B.epoch_of (S.spe pr) (B.g_now y) + 1) /\
    N.of_nat (length (S.st_infos st)) <= B.epoch_of (S.spe pr) (B.g_now y) - B.g_head y + 3.
Proof. exact infos_bounded. Qed.
Print Assumptions C20_bridge_subscriptions_bounded_on_C14_partial.

(* Non-vacuity: subscriptions for epochs 1, 2, 3 (one of them failing, one without accounts), a read
   by an attestation, an untimely and a timely head event; C20's conditions hold and the timely head
   of epoch 3 drops epoch 1. *)
Example C20_bridge_subscriptions_example :
  let ops := [S.OSub 1 0 false false [] []; S.OSub 2 4 true false [] []; S.OHead 7 8;
              S.OSub 3 8 false true [] []; S.OAtt 8 8 true [] []; S.OSub 3 9 false false [] []; S.OHead 12 12] in
  Forall small_epoch ops /\
  B.guarded 4 true (BP.gand B.time_ok (B.subs_ok 4)) (flat_map tr ops) B.init = true /\
  infos_keys (fst (S.run wrap_pr S.init ops)) = [3; 2] /\
  B.subs (B.run 4 true (flat_map tr ops) B.init) = [3; 2].
Proof.
  split; [repeat constructor; unfold two64; cbn; lia|].
  vm_compute. repeat split; reflexivity.
Qed.
