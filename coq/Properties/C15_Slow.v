(* C15 -- a slow selection signer (remote signing of the selection proofs still under way when the
   slot's message time comes, a block event fast-tracks the message job, or the job's time is
   already past when it is scheduled: start-up, fork epoch, duties refresh).

   Model/C15_Slow.v cuts the chain of one slot at the scheduler: the prepare job up to the signer's
   request, the prepare job from the signer's answer on, and "the slot's message time has come"
   (whatever message job the table holds runs once, then whatever aggregation job that left).
   [chain_prompt] = begin; end; time.  [chain_slow] = begin; time; end; time.  [chain] takes the one
   the case's [f_sel_slow] says, which is what the harness runs against the real controller, messenger
   and aggregator (the signer mock parks the request, the harness tries the message job, then lets
   the signer answer).  [PrepareFirst] is the order of prepareMessageSyncCommittee as it stands. *)
From Verif Require Import Lib.Base Model.C15_Sync Model.C15_Slow Proofs.C15_Slow.
Local Open Scope N_scope.

(* C15_slow_signer_same_chain.  For every chain parameters, members, accounts and scripted
   environment, the slot's chain is [fire] -- the chain every other theorem of Properties/C15.v is
   about -- whether the selection signer answers at once or only after the slot's message time:
   while Prepare waits, no message job exists, so nothing runs early, and the job scheduled
   afterwards runs with the duty's aggregator data in place.  So "a message in every slot",
   independence and the selection / contribution theorems hold for every signer latency, and the
   check may compare a parked-signer run with [fire_scheduled]. *)
Theorem C15_slow_signer_same_chain :
  forall p mem acct f,
    chain_prompt PrepareFirst p mem acct f = fire p mem acct f
    /\ chain_slow PrepareFirst p mem acct f = fire p mem acct f
    /\ chain PrepareFirst p mem acct f = fire p mem acct f.
Proof.
  intros p mem acct f. split; [|split].
  - exact (chain_prompt_is_fire p mem acct f).
  - rewrite chain_slow_is_prompt. exact (chain_prompt_is_fire p mem acct f).
  - exact (chain_is_fire p mem acct f).
Qed.
Print Assumptions C15_slow_signer_same_chain.

(* C15_schedule_before_prepare_refuted.  What the order is needed for.  Were the message job
   scheduled before Prepare is called: with a signer that answers at once (and does not fail) the
   chain is still [fire] -- no run with a prompt signer tells the orders apart -- but with a slow
   signer, for EVERY input, the messages of [fire] go out and no aggregation job is scheduled and
   no contribution is made, whoever the selection rule selects. *)
Theorem C15_schedule_before_prepare_refuted :
  forall p mem acct f,
    (sel_fault p mem acct f = false -> chain_prompt ScheduleFirst p mem acct f = fire p mem acct f)
    /\ (sel_fault p mem acct f = false ->
        o_submitted (chain_slow ScheduleFirst p mem acct f) = o_submitted (fire p mem acct f))
    /\ o_agg_job (chain_slow ScheduleFirst p mem acct f) = None
    /\ o_contribs (chain_slow ScheduleFirst p mem acct f) = None.
Proof.
  intros p mem acct f. split; [|split].
  - exact (schedule_first_prompt_is_fire p mem acct f).
  - exact (schedule_first_slow_messages p mem acct f).
  - exact (schedule_first_slow_no_aggregation p mem acct f).
Qed.
Print Assumptions C15_schedule_before_prepare_refuted.

(* non-vacuity: three members, 6 without account, 5 aggregates subcommittee 1 in slot 6; with the
   slow signer the code's order contributes, the other order messages and does not *)
Definition exs_p : params :=
  {| spe := 4; epp := 2; fork := 0; slot_ns := 12000000000; msg_delay := 4000000000; agg_delay := 8000000000;
     csize := 32; subnets := 4; target := 2 |}.
Definition exs_mem : list duty := [(5, [9]); (6, [17; 3]); (7, [30])].
Definition exs_acct (v : N) : bool := (v =? 5) || (v =? 7).
Definition exs_f : fire_in :=
  {| f_slot := 6; f_root := Some 12; f_slot_root := None; f_sel_slow := true; f_sel_err := false; f_sel_zero := [];
     f_hash8 := [(5, 1, 0); (7, 3, 5)]; f_root_err := false; f_root_zero := [];
     f_submit_err := false; f_contrib_err := []; f_cp_err := false |}.

Example C15_slow_signer_example :
  aggregators exs_p exs_mem exs_acct exs_f = [(5, 1)]
  /\ option_map (map (fun c => (cp_agg c, cp_subc c))) (o_contribs (chain PrepareFirst exs_p exs_mem exs_acct exs_f)) = Some [(5, 1)]
  /\ o_submitted (chain ScheduleFirst exs_p exs_mem exs_acct exs_f) = Some [(6, 12, 5, SgRoot 5 1 12); (6, 12, 7, SgRoot 7 1 12)]
  /\ o_agg_job (chain ScheduleFirst exs_p exs_mem exs_acct exs_f) = None.
Proof. repeat split; vm_compute; reflexivity. Qed.
