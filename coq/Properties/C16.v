(* C16 — no data from a beacon node, relay or configuration can crash Vouch.  Property theorems only.

   PARTIAL BY CONSTRUCTION.  The statement quantifies over every input path of Vouch; what is
   proved here covers the eight paths modelled in Model/C16_Paths.v (at the granularity of
   nil-ness, lengths, indices, slice-to-array conversion and allocation sizes), not all Go code.
   Runtime-fatal errors that are not panics (out of memory, concurrent map access) are not
   expressible in the model.  For each path: [.._no_panic] over the whole modelled domain with
   exactly the guard the (repaired) code has; [.._falls_back]-style theorems saying which error or
   fallback the unexpected input produces; and [.._guard_necessary] / [.._refuted] theorems
   exhibiting the input on which the same code without the guard panics (the defects repaired on
   the tree, kept as witnesses in corpus/C16). *)
From Verif Require Import Lib.Base Model.C16_Paths Model.C16_Sessions Proofs.C16 Proofs.C16_Bytes Proofs.C16_Config Proofs.C16_Duties Proofs.C16_Sessions.
From Verif Require Import Model.C16_Bids Proofs.C16_Bids.
From Verif Require Import Model.C16_Aggsel Proofs.C16_Aggsel.

(* =========================================================================================== *)
(* Path 1 — proposeBlock: from the proposal response to the unblinding providers.               *)

(* Whatever the graffiti provider, the auction (absent, failed, any result), the proposal (failed,
   any version, blinded or not, data present or not, right slot or not), the signer, the relays
   and the submitter do, Propose does not panic -- for every proposal the decoders can deliver.
   [delivered] excludes exactly one shape they never produce: an unblinded Deneb proposal whose
   contents pointer is nil, on which go-eth2-client's own accessor (VersionedProposal.Slot ->
   proposalPresent: v.Deneb.Block) panics before Vouch sees anything. *)
Theorem C16_propose_no_panic : forall i, delivered i -> is_panic (snd (propose_now i)) = false.
Proof. exact propose_no_panic. Qed.
Print Assumptions C16_propose_no_panic.

(* That excluded shape does panic, with or without Vouch's guards: the hypothesis above is needed,
   and the panic is the library's (found by the check's search; corpus/C16/nil-deneb-contents.json). *)
Theorem C16_propose_library_nil_deneb : forall g i p,
  p1_proposal i = Some p -> lib_nil_deneb p = true -> snd (propose g i) = Panic.
Proof. exact lib_nil_deneb_panics. Qed.
Print Assumptions C16_propose_library_nil_deneb.

(* A blinded proposal although Vouch holds no auction result (no auctioneer, or the auction
   failed): the duty ends with an error after signing; no relay is asked and nothing is submitted. *)
Theorem C16_propose_blinded_without_auction_falls_back : forall i p,
  reaches i p -> pr_blinded p = true -> no_auction_result i ->
  propose_now i = ({| t_graffiti := graffiti_of (p1_graffiti i) (p1_node_client i); t_signed := true; t_unblind := []; t_submitted := false |},
                   Err ENoAuction).
Proof. exact propose_blinded_without_auction. Qed.
Print Assumptions C16_propose_blinded_without_auction_falls_back.

(* The nil check is exactly what was missing: without it the same code panics on precisely those
   inputs (the defect repaired on the tree: corpus/C16/blinded-without-auction-result.json). *)
Theorem C16_propose_guard_necessary : forall i, delivered i ->
  (snd (propose false i) = Panic <-> exists p, reaches i p /\ pr_blinded p = true /\ no_auction_result i).
Proof. exact propose_unguarded_panics_iff. Qed.
Print Assumptions C16_propose_guard_necessary.

(* A local (unblinded) payload is proposed whatever the auction did. *)
Theorem C16_propose_local_ignores_auction : forall i a,
  (forall p, p1_proposal i = Some p -> pr_blinded p = false) ->
  propose_now (with_auction i a) = propose_now i.
Proof. exact propose_local_ignores_auction. Qed.
Print Assumptions C16_propose_local_ignores_auction.

Theorem C16_propose_local_is_submitted : forall i p,
  reaches i p -> pr_blinded p = false ->
  t_submitted (fst (propose_now i)) = true /\ t_unblind (fst (propose_now i)) = [].
Proof. exact propose_local_submitted. Qed.
Print Assumptions C16_propose_local_is_submitted.

(* Only relays of the auction result that can unblind are ever asked to unblind. *)
Theorem C16_propose_unblinders_from_auction : forall i r,
  In r (t_unblind (fst (propose_now i))) ->
  exists a pv, p1_auction i = ARes a /\ In pv (au_providers a ++ au_all a) /\ pv_id pv = r /\ pv_unblinds pv = true.
Proof. exact propose_unblinders_from_auction. Qed.
Print Assumptions C16_propose_unblinders_from_auction.

(* Nothing is submitted or unblinded unsigned; a blinded proposal is submitted only after a relay
   was asked to unblind it. *)
Theorem C16_propose_order : forall i,
  let tr := fst (propose_now i) in
  (t_submitted tr = true -> t_signed tr = true) /\
  (t_unblind tr <> [] -> t_signed tr = true) /\
  (forall p, p1_proposal i = Some p -> pr_blinded p = true -> t_submitted tr = true -> t_unblind tr <> []).
Proof. exact propose_order. Qed.
Print Assumptions C16_propose_order.

(* The graffiti handed to the beacon node is always 32 bytes: graffiti of any length -- after the
   {{CLIENT}} replacement when the proposal provider can name its client, for a name of any length --
   is truncated or zero-padded, and a failing graffiti provider means an ungraffitied block. *)
Theorem C16_propose_graffiti_falls_back : forall i,
  length (t_graffiti (fst (propose_now i))) = 32%nat /\
  (p1_graffiti i = GErr -> t_graffiti (fst (propose_now i)) = repeat 0 32) /\
  (forall l, p1_graffiti i = GBytes l ->
     let l' := client_replaced l (p1_node_client i) in
     ((length l' <= 32)%nat -> firstn (length l') (t_graffiti (fst (propose_now i))) = l') /\
     ((32 <= length l')%nat -> t_graffiti (fst (propose_now i)) = firstn 32 l')) /\
  (forall l, (can_name (p1_node_client i) = false \/ contains tmpl_client l = false) ->
     client_replaced l (p1_node_client i) = l).
Proof.
  intro i. rewrite propose_graffiti. split; [apply graffiti_of_length|]. split; [intros ->; reflexivity|].
  split.
  - intros l -> l'. cbn [graffiti_of]. fold l'. split; intro H; [apply pad32_prefix | apply pad32_long]; exact H.
  - intros l [H|H]; unfold client_replaced; [|rewrite H; reflexivity].
    destruct (contains tmpl_client l); [|reflexivity]. destruct (p1_node_client i); try reflexivity. discriminate.
Qed.
Print Assumptions C16_propose_graffiti_falls_back.

Example C16_propose_example :
  let i := {| p1_graffiti := GBytes [118; 111; 117; 99; 104]; p1_node_client := NCNot; p1_auction := AErr;
              p1_proposal := Some {| pr_version := 5; pr_blinded := true; pr_present := true; pr_slot_ok := true |};
              p1_sign_ok := true; p1_unblind_all := false; p1_unblind_ok := true; p1_submit_ok := true |} in
  delivered i /\ reaches i {| pr_version := 5; pr_blinded := true; pr_present := true; pr_slot_ok := true |} /\ no_auction_result i /\
  snd (propose_now i) = Err ENoAuction /\ snd (propose false i) = Panic /\
  snd (propose_now (with_auction i (ARes {| au_providers := []; au_all := [{| pv_id := 7; pv_unblinds := true |}] |}))) = Ok tt.
Proof. cbn. repeat split; try reflexivity. intros p H. injection H as <-. reflexivity. Qed.

(* =========================================================================================== *)
(* Path 2 — issueBuilderBidRequests over relay address strings.                                 *)

(* Whatever the relay addresses are (empty, unparsable, rejected by the client constructor, a client
   without bids or without unblinding), no panic: the unusable relays are skipped and exactly the
   usable ones are asked, in order. *)
Theorem C16_relays_no_panic_and_skip : forall rs, issue_now rs = Ok (good_relays rs).
Proof. exact issue_now_spec. Qed.
Print Assumptions C16_relays_no_panic_and_skip.

Theorem C16_relays_asked_iff_usable : forall rs id, In id (good_relays rs) <-> In (FClient id true true) rs.
Proof. exact good_relays_in. Qed.
Print Assumptions C16_relays_asked_iff_usable.

(* Logging the address through the (nil) client, as the code did before 78c4015, panics as soon as
   one relay address cannot be turned into a client. *)
Theorem C16_relays_guard_necessary : forall rs, issue true rs = Panic <-> existsb is_fetch_error rs = true.
Proof. exact issue_unguarded_panics_iff. Qed.
Print Assumptions C16_relays_guard_necessary.

Example C16_relays_example :
  issue_now [FParseErr; FClient 1 true true; FEmpty; FClient 2 true false; FNewErr; FClient 3 true true] = Ok [1; 3] /\
  issue true [FClient 1 true true; FParseErr] = Panic.
Proof. split; reflexivity. Qed.

(* =========================================================================================== *)
(* Path 3 — the {{CLIENT}} graffiti substitution of the best proposal strategy.                 *)

(* For every 32-byte (indeed any) graffiti, every set of beacon nodes in every iteration order and
   every client name of any length (empty, shorter or longer than the template, containing the
   template), no panic; every node is sent a graffiti, and it is 32 bytes long. *)
Theorem C16_graffiti_no_panic : forall ps g,
  exists l, graffiti_now g ps = Ok l /\ length l = length ps /\
            (length g = 32%nat -> Forall (fun x => length x = 32%nat) l).
Proof. exact graffiti_now_ok. Qed.
Print Assumptions C16_graffiti_no_panic.

(* No node can name its client (not a NodeClientProvider, or NodeClient fails): the graffiti is
   passed on untouched to every node. *)
Theorem C16_graffiti_falls_back : forall ps g,
  length g = 32%nat -> forallb (fun p => negb (can_name p)) ps = true ->
  graffiti_now g ps = Ok (map (fun _ => g) ps).
Proof. exact graffiti_now_unchanged. Qed.
Print Assumptions C16_graffiti_falls_back.

(* The conversion [32]byte(slice) that the code used (after truncating to 32) panics exactly when
   the template occurs and the client name is shorter than the template's 10 bytes — i.e. for
   teku, prysm, nimbus, lodestar, grandine (the defect repaired on the tree:
   corpus/C16/client-graffiti-short-name.json). *)
Theorem C16_graffiti_slice_conversion_refuted : forall g n,
  length g = 32%nat ->
  (graffiti_loop ConvSlice g [NCName n] = Panic <-> (contains tmpl_client g = true /\ (length n < 10)%nat)).
Proof. exact slice_conversion_panics_iff. Qed.
Print Assumptions C16_graffiti_slice_conversion_refuted.

(* bytes.ReplaceAll: what the substitution does to the length *)
Theorem C16_replace_all_length : forall pat rep s, pat <> [] ->
  (length (replace_all pat rep s) + count_go pat O s * length pat = length s + count_go pat O s * length rep)%nat.
Proof.
  intros pat rep s H. pose proof (replace_go_length pat rep H s O ltac:(apply Nat.le_0_l)) as E.
  rewrite Nat.sub_0_r in E. destruct pat; [congruence | exact E].
Qed.
Print Assumptions C16_replace_all_length.

Example C16_graffiti_example :
  let g := pad32 ([104; 101; 108; 108; 111; 32] ++ tmpl_client) in       (* "hello {{CLIENT}}" *)
  let teku := [116; 101; 107; 117] in
  length g = 32%nat /\ contains tmpl_client g = true /\
  graffiti_loop ConvSlice g [NCName teku] = Panic /\
  graffiti_now g [NCName teku; NCErr] = Ok [pad32 [104; 101; 108; 108; 111; 32; 116; 101; 107; 117]; pad32 [104; 101; 108; 108; 111; 32; 116; 101; 107; 117]].
Proof. vm_compute. repeat split; reflexivity. Qed.

(* =========================================================================================== *)
(* Path 4 — execution configuration documents: decode, keep the previous one, look up.          *)

Theorem C16_config_decode_no_panic : forall d, decode true d <> Panic.
Proof. exact (decode_no_panic true). Qed.
Print Assumptions C16_config_decode_no_panic.

(* Over every history of fetched documents (malformed, unknown version, v1, v2, with null entries
   anywhere), starting without a configuration, no proposer lookup ever panics. *)
Theorem C16_config_no_panic : forall ds account pubkey,
  lookup true (refresh_all true None ds) account pubkey <> Panic.
Proof. intros ds a k. exact (refresh_all_safe ds None safe_none a k). Qed.
Print Assumptions C16_config_no_panic.

(* A rejected document leaves the previous configuration in place; a document with a null relay,
   proposer or proposer-relay entry is rejected; with no configuration at all the lookup falls back
   to "no relays" (the local payload is proposed). *)
Theorem C16_config_falls_back : forall cur d,
  (forall e, decode true d = Err e -> refresh true cur d = cur) /\
  (doc_has_null d = true -> decode true d = Err CEDecode) /\
  (forall a k, lookup true None a k = Ok []).
Proof.
  intros cur d. split; [intros e H; eapply refresh_rejected; exact H|]. split; [apply decode_rejects_null | reflexivity].
Qed.
Print Assumptions C16_config_falls_back.

(* An accepted document is what the lookups then use. *)
Theorem C16_config_accepted_is_used : forall cur d c, decode true d = Ok c -> refresh true cur d = Some c.
Proof. intros cur d c H. eapply refresh_accepted; exact H. Qed.
Print Assumptions C16_config_accepted_is_used.

(* Without the null checks (the code before 776ef9a) each of the three kinds of null entry is
   accepted and then dereferenced by a lookup; for the proposer-relay entry only the lookups of the
   matching validator panic. *)
Theorem C16_config_null_guard_necessary :
  (exists c, decode false null_relay_doc = Ok c /\ lookup true (Some c) 1 2 = Panic) /\
  (exists c, decode false null_proposer_doc = Ok c /\ lookup true (Some c) 1 2 = Panic) /\
  (exists c, decode false null_prelay_doc = Ok c /\ lookup true (Some c) 1 2 = Panic /\ lookup true (Some c) 1 3 <> Panic).
Proof. exact null_guard_necessary. Qed.
Print Assumptions C16_config_null_guard_necessary.

(* v1: a null proposer entry is accepted and resolves to the default entry (repaired lookup:
   "present but null is no entry"), with or without the later nil check ... *)
Theorem C16_config_v1_null_entry_uses_default :
  let d := {| d1_fields_ok := true; d1_proposers := [(1, None)];
              d1_default := Some {| p1_builder := Some {| b1_enabled := true; b1_relays := [7] |} |} |} in
  decode true (DV1 d) = Ok (CV1 d) /\ lookup false (Some (CV1 d)) 0 1 = Ok [7] /\ lookup true (Some (CV1 d)) 0 1 = Ok [7].
Proof. exact v1_null_entry_uses_default. Qed.
Print Assumptions C16_config_v1_null_entry_uses_default.

(* ... and that nil check is what protects a configuration without a default entry (refused by the
   unmarshaller, so only reachable for a configuration built in code). *)
Theorem C16_config_v1_nil_guard_necessary :
  let d := {| d1_fields_ok := true; d1_proposers := [(1, None)]; d1_default := None |} in
  lookup false (Some (CV1 d)) 0 1 = Panic /\ lookup true (Some (CV1 d)) 0 1 = Ok [].
Proof. exact v1_nil_guard_necessary. Qed.
Print Assumptions C16_config_v1_nil_guard_necessary.

(* A document that is a bare JSON value — null, true, 0, "", [] — (legal JSON, so "well-formed but
   unexpected") is rejected: the configuration in force stays, and every lookup answers as before it. *)
Theorem C16_config_bare_document_rejected : forall b cur account pubkey,
  decode true (DBare b) = Err CEDecode /\
  refresh true cur (DBare b) = cur /\
  lookup true (refresh true cur (DBare b)) account pubkey = lookup true cur account pubkey.
Proof.
  intros b cur a k. split; [apply bare_rejected|]. apply bare_keeps_previous.
Qed.
Print Assumptions C16_config_bare_document_rejected.

(* What the decoder accepts is never a nil pointer inside the configurator interface (the one value
   the `== nil` tests of fetchExecutionConfig and ProposerConfig cannot see). *)
Theorem C16_config_accepted_never_nil : forall d, decode true d <> Ok CNilV1.
Proof. exact (decode_never_nil true). Qed.
Print Assumptions C16_config_accepted_never_nil.

(* Decoding into a struct value is what makes that so.  A decoder that lets encoding/json allocate
   the configuration behaves identically on every document but one: `null` is accepted as the nil
   pointer, installed over whatever configuration there was, and then every lookup of every
   validator panics; the decoder as it is leaves the answers unchanged. *)
Theorem C16_config_by_value_necessary :
  (forall g d c, decode_gen g false d = Ok c -> c = CNilV1 \/ decode_gen g true d = Ok c) /\
  (forall g d, decode_gen g false d = Ok CNilV1 <-> d = DBare BNull) /\
  (forall g cur a k, lookup true (refresh_gen g false cur (DBare BNull)) a k = Panic) /\
  (forall g cur a k, lookup true (refresh_gen g true cur (DBare BNull)) a k = lookup true cur a k).
Proof. exact by_value_necessary. Qed.
Print Assumptions C16_config_by_value_necessary.

(* The validator registration round that follows a refresh (the other user of the configuration in
   force; it runs in a goroutine of its own, where a panic ends the process) completes after every
   history of documents; with the allocating decoder it is the round after `null` that panics. *)
Theorem C16_config_registration_no_panic : forall ds,
  is_ok (registration_round (refresh_all true None ds)) = true.
Proof. exact registration_no_panic. Qed.
Print Assumptions C16_config_registration_no_panic.

Theorem C16_config_registration_by_value_necessary : forall g cur,
  registration_round (refresh_gen g false cur (DBare BNull)) = Panic /\
  registration_round (refresh_gen g true cur (DBare BNull)) = registration_round cur.
Proof. exact registration_by_value_necessary. Qed.
Print Assumptions C16_config_registration_by_value_necessary.

Example C16_config_example :
  let good := DV2 {| d2_fields_ok := true; d2_relays := [(1, false)];
                     d2_proposers := [Some {| pp_key := PKValidator 2; pp_reset := false; pp_relays := [{| prl_addr := 3; prl_entry := Some false |}] |}] |} in
  let c := refresh_all true None [good; null_relay_doc; DMalformed; DBare BNull; null_prelay_doc; DBare BValue] in
  c = refresh_all true None [good] /\ lookup true c 1 2 = Ok [1; 3] /\ lookup true c 1 9 = Ok [1].
Proof. vm_compute. repeat split; reflexivity. Qed.

(* =========================================================================================== *)
(* Path 5 — MergeDuties / NewDuty / createAttestations over arbitrary duty lists.               *)

(* For every list of attester duties (any uint64 in any field: duplicates, several committees for
   one validator, zero and hostile committee lengths, positions outside the committee) and every
   set of held validators, no slot's attestation run panics. *)
Theorem C16_duties_no_panic : forall ds held s o, In (s, o) (attest_all_now ds held) -> o <> Panic.
Proof. exact attest_all_no_panic. Qed.
Print Assumptions C16_duties_no_panic.

(* The merged duties are well formed: parallel arrays of equal, non-zero length, and a committee
   length for every committee index. *)
Theorem C16_merge_well_formed : forall ds m, In m (merge ds) ->
  length (md_vidx m) = length (md_cidx m) /\ length (md_cidx m) = length (md_vcidx m) /\ md_vidx m <> [] /\
  (forall c, In c (md_cidx m) -> map_get c (md_clens m) <> None).
Proof. intros ds m H. destruct (merge_wf ds m H) as [(H1 & H2 & H3) H4]. repeat split; assumption. Qed.
Print Assumptions C16_merge_well_formed.

(* NewDuty's error ("committee without a size") never fires on what MergeDuties builds: no slot
   is silently dropped, and no validator entry is lost or invented. *)
Theorem C16_merge_loses_nothing : forall ds,
  (ds <> [] -> merge ds = rev (group (sort_duties ds) [])) /\ entries (merge ds) = length ds.
Proof. intro ds. split; [apply merge_unfiltered | apply merge_entries]. Qed.
Print Assumptions C16_merge_loses_nothing.

(* Exactly one merged duty per slot that has a duty, in increasing slot order: duplicated or
   shuffled entries never produce a second duty for a slot. *)
Theorem C16_merge_one_duty_per_slot : forall ds,
  Sorted.StronglySorted N.lt (map md_slot (merge ds)) /\
  (forall s, In s (map md_slot (merge ds)) <-> In s (map ad_slot ds)).
Proof. intro ds. split; [apply merge_slots_increasing | apply merge_slots]. Qed.
Print Assumptions C16_merge_one_duty_per_slot.

(* The fallback for a hostile committee length: that validator alone is skipped; every other
   validator of the duty gets its attestation over its own committee, with its bit set iff its
   position lies inside the committee. *)
Theorem C16_duties_falls_back : forall m v, wf m -> In v (md_vidx m) ->
  exists i c pos,
    last_index v (md_vidx m) O None = Some i /\ nth_error (md_vidx m) i <> None /\
    nth_error (md_cidx m) i = Some c /\ nth_error (md_vcidx m) i = Some pos /\
    create_one true m v =
      Ok (if max_committee <? size_of m c then None else Some (v, c, size_of m c, pos <? size_of m c)).
Proof. exact create_one_spec. Qed.
Print Assumptions C16_duties_falls_back.

(* Without the size check a committee length of 2^52 is a panic in NewBitlist (the defect repaired
   on the tree: corpus/C16/hostile-committee-length.json). *)
Theorem C16_duties_size_guard_necessary :
  let ds := [{| ad_slot := 64; ad_cidx := 1; ad_vidx := 2; ad_vcidx := 0; ad_clen := 4503599627370496; ad_cas := 1 |}] in
  attest_all false ds [2] = [(64, Panic)] /\ attest_all true ds [2] = [(64, Err AENone)].
Proof. exact size_guard_necessary. Qed.
Print Assumptions C16_duties_size_guard_necessary.

Example C16_duties_example :
  let d s c v p l := {| ad_slot := s; ad_cidx := c; ad_vidx := v; ad_vcidx := p; ad_clen := l; ad_cas := 2 |} in
  attest_all_now [d 65 0 7 3 128; d 64 1 2 0 4503599627370496; d 64 0 3 200 128; d 64 0 3 200 128; d 64 0 5 1 128] [2; 3; 5; 7]
  = [(64, Ok [(3, 0, 128, false); (5, 0, 128, true)]); (65, Ok [(7, 0, 128, true)])].
Proof. vm_compute. reflexivity. Qed.

(* =========================================================================================== *)
(* Path 6 — cache head events over block versions.                                              *)

(* For every head event (no data, failing block fetch, a block of any version, with or without
   payload, zero or non-zero state root) no panic, PROVIDED the block has the container, message
   and body of its version — which go-eth2-client's decoders guarantee. *)
Theorem C16_head_no_panic : forall h,
  (forall b, h = HBlock b -> decoder_wf b = true) -> handle_head_now h <> Panic.
Proof. exact handle_head_no_panic. Qed.
Print Assumptions C16_head_no_panic.

(* The proviso is needed for Capella and Deneb only (the Bellatrix branch checks every level
   itself): the handler panics exactly on a Capella/Deneb block lacking container, message or body. *)
Theorem C16_head_needs_decoder_guarantee : forall b,
  update_head false b = Panic <->
  ((bk_version b = 4 \/ bk_version b = 5) /\ (bk_container b && bk_message b && bk_body b) = false).
Proof. exact update_head_panics_iff. Qed.
Print Assumptions C16_head_needs_decoder_guarantee.

(* The execution head moves exactly for a Bellatrix/Capella/Deneb block with a payload whose state
   root is not zero; every other event leaves it alone (phase0/altair, unknown versions, missing
   payloads, failed fetches). *)
Theorem C16_head_falls_back : forall b x,
  decoder_wf b = true ->
  (update_head false b = Ok (Some x) <->
   (3 <= bk_version b <= 5 /\ bk_payload b = true /\ bk_state_zero b = false /\ x = bk_exec b)).
Proof. exact update_head_result. Qed.
Print Assumptions C16_head_falls_back.

Example C16_head_example :
  let b v c := {| bk_version := v; bk_container := c; bk_message := true; bk_body := true; bk_payload := true; bk_state_zero := false; bk_exec := 9 |} in
  handle_head_now (HBlock (b 4 true)) = Ok (Some 9) /\ handle_head_now (HBlock (b 99 true)) = Ok None /\
  handle_head_now (HBlock (b 3 false)) = Ok None /\ handle_head_now (HBlock (b 4 false)) = Panic /\ decoder_wf (b 4 false) = false.
Proof. repeat split; reflexivity. Qed.

(* =========================================================================================== *)
(* Path 7 — classification of a node's error body.                                              *)

Theorem C16_errbody_no_panic : forall s b, classify_now s b <> Panic.
Proof. exact classify_no_panic. Qed.
Print Assumptions C16_errbody_no_panic.

(* A rejection is tolerated only when a known server lists at least one failure and every listed
   failure is the tolerated duplicate; in particular a null entry, an empty or absent list,
   malformed JSON and an unknown server are real errors. *)
Theorem C16_errbody_falls_back : forall s b,
  classify_now s b = Ok tt <->
  (s <> SOther /\ exists l, b = BFailures l /\ l <> [] /\ all_tolerated l = true).
Proof. exact classify_accepts_iff. Qed.
Print Assumptions C16_errbody_falls_back.

(* Without the nil check (the code before ecf6a58) a body panics exactly when a known server's
   failures list contains null. *)
Theorem C16_errbody_nil_guard_necessary : forall s b,
  classify false s b = Panic <-> (s <> SOther /\ exists l, b = BFailures l /\ has_null_failure l = true).
Proof. exact classify_unguarded_panics_iff. Qed.
Print Assumptions C16_errbody_nil_guard_necessary.

Example C16_errbody_example :
  classify_now SLighthouse (BFailures [FTolerated; FNull]) = Err tt /\ classify false SLighthouse (BFailures [FTolerated; FNull]) = Panic /\
  classify_now STeku (BFailures [FTolerated; FTolerated]) = Ok tt /\ classify_now STeku (BFailures []) = Err tt.
Proof. repeat split; reflexivity. Qed.

(* =========================================================================================== *)
(* Path 8 — the dynamic graffiti provider over file contents.                                   *)

(* For every file content (empty, blank, CRLF, blank lines, any bytes) and every fetch outcome of
   the primary and the fallback location, no panic: the random choice is always over a non-empty
   list of lines. *)
Theorem C16_dynamic_no_panic : forall p f, dynamic_graffiti p f <> Panic.
Proof. exact dynamic_no_panic. Qed.
Print Assumptions C16_dynamic_no_panic.

Theorem C16_dynamic_lines : forall d,
  dynamic_graffiti (FData d) None = Ok (graffiti_lines d) /\ graffiti_lines d <> [] /\
  (forall l, In l (graffiti_lines d) -> ~ In LF l).
Proof. intro d. split; [apply dynamic_data|]. split; [apply graffiti_lines_nonempty | apply graffiti_lines_no_lf]. Qed.
Print Assumptions C16_dynamic_lines.

(* Fallbacks: a primary location that cannot be read is replaced by the fallback location when one
   is configured; a missing file is "no graffiti"; any other failure is an error (which Propose
   turns into an ungraffitied block, C16_propose_graffiti_falls_back). *)
Theorem C16_dynamic_falls_back : forall p f,
  ((forall d, p <> FData d) -> dynamic_graffiti p (Some f) = dynamic_graffiti f None) /\
  dynamic_graffiti FNotFound None = Ok [[]] /\ dynamic_graffiti FOther None = Err GEFetch.
Proof. intros p f. split; [apply dynamic_fallback|]. split; reflexivity. Qed.
Print Assumptions C16_dynamic_falls_back.

(* The whole graffiti chain, from the bytes of the graffiti file to what each beacon node is sent:
   whichever line is chosen, whatever the nodes call themselves, no panic, 32 bytes each. *)
Theorem C16_graffiti_chain_no_panic : forall d line nc ps,
  In line (graffiti_lines d) ->
  exists l, graffiti_now (graffiti_of (GBytes line) nc) ps = Ok l /\ length l = length ps /\
            Forall (fun x => length x = 32%nat) l.
Proof.
  intros d line nc ps _. destruct (graffiti_now_ok ps (graffiti_of (GBytes line) nc)) as (l & H1 & H2 & H3).
  exists l. repeat split; try assumption. apply H3. apply graffiti_of_length.
Qed.
Print Assumptions C16_graffiti_chain_no_panic.

Example C16_dynamic_example :
  graffiti_lines [97; 13; 10; 13; 10; 98; 10; 10; 10; 99; 10] = [[97]; [98]; []; [99]] /\
  graffiti_lines [] = [[]] /\ graffiti_lines [10; 10; 32; 13; 10] = [[]].
Proof. vm_compute. repeat split; reflexivity. Qed.

(* =========================================================================================== *)
(* Sessions — one service instance over several operations, its providers answering call by call
   from a script (Model/C16_Sessions.v): fail then succeed, succeed then fail, alternating, an
   error-free answer that carries nothing.                                                      *)

(* Path 6.  One cache service: the constructor's fetch, then any sequence of head events (with or
   without data), the block provider answering each call from any script of failures and blocks
   the client library can deliver ([answer_wf]: no error-free answer without a response or
   without data, and the container/message/body guarantee of C16_head_no_panic).  The service
   gets through the constructor and every event (one observation each, none a panic), and the
   execution head after each step is the one the statement names ([head_trace]: moved by a
   Bellatrix/Capella/Deneb block with a payload and a non-zero state root, left alone by a failed
   fetch, an event without data and every other block). *)
Theorem C16_head_session_no_panic : forall script evs,
  forallb answer_wf script = true ->
  head_session_now script evs = map Ok (head_trace None script (EvHead :: evs)) /\
  length (head_session_now script evs) = S (length evs) /\
  forall o, In o (head_session_now script evs) -> exists r, o = Ok r.
Proof.
  intros script evs Hwf. split; [apply head_session_wf; exact Hwf | apply head_session_no_panic; exact Hwf].
Qed.
Print Assumptions C16_head_session_no_panic.

(* Fallbacks over a session: the head is only ever empty or the payload of a block the node
   served, and a node that fails every fetch leaves it empty. *)
Theorem C16_head_session_falls_back : forall script evs,
  Forall (served (script_heads script)) (head_trace None script (EvHead :: evs)) /\
  (forallb (fun a => match a with BAErr => true | _ => false end) script = true ->
   Forall (eq None) (head_trace None script (EvHead :: evs))).
Proof.
  intros script evs. split; [apply head_session_served | apply head_trace_all_fail].
Qed.
Print Assumptions C16_head_session_falls_back.

(* The hypothesis is needed: an error-free answer without a response or without data takes the
   process down at the constructor or at whichever event meets it (the handler dereferences the
   response it was given once the error is nil; the client library never gives such an answer). *)
Theorem C16_head_session_needs_library_guarantee : forall a s cur evs g,
  a = BANilResponse \/ a = BANilData ->
  head_session g (a :: s) evs = [Panic] /\ head_events g cur (a :: s) (EvHead :: evs) = [Panic].
Proof. exact head_nil_answer_panics. Qed.
Print Assumptions C16_head_session_needs_library_guarantee.

(* Path 8.  One dynamic graffiti provider, any number of calls, each location answering call by
   call from any script (data, nothing, missing, failing): every call returns, none panics. *)
Theorem C16_dynamic_session_no_panic : forall calls ps fs,
  length (dynamic_session calls ps fs) = calls /\
  forall o, In o (dynamic_session calls ps fs) -> o <> Panic.
Proof. exact dynamic_session_no_panic. Qed.
Print Assumptions C16_dynamic_session_no_panic.

(* Path 1.  One proposer service, any number of proposals one after the other, the collaborators
   (graffiti provider, auctioneer, beacon node, signer, relays, submitter) behaving differently from
   proposal to proposal in any way the decoders can deliver: every proposal is carried out (one
   observation each), none panics, and each does exactly what it would do on a fresh service. *)
Theorem C16_propose_session_no_panic : forall ops, Forall delivered ops ->
  propose_seq_now ops = map (fun i => (false, fst (propose_now i))) ops.
Proof. exact propose_seq_no_panic. Qed.
Print Assumptions C16_propose_session_no_panic.

Example C16_session_example :
  let b x := BABlock {| bk_version := 5; bk_container := true; bk_message := true; bk_body := true; bk_payload := true; bk_state_zero := false; bk_exec := x |} in
  (* the node serves block 7, fails once, then serves block 9: the head stays at 7 over the failure *)
  head_session_now [b 7; BAErr; b 9] [EvHead; EvNoData; EvHead; EvHead] = [Ok (Some 7); Ok (Some 7); Ok (Some 7); Ok (Some 9); Ok (Some 9)] /\
  head_session_now [BAErr; BANilData] [EvHead; EvHead] = [Ok None; Panic] /\
  dynamic_session 3 [FOther; FData [97]] (Some [FNotFound]) = [Ok [[]]; Ok [[97]]; Ok [[97]]].
Proof. vm_compute. repeat split; reflexivity. Qed.

(* =========================================================================================== *)
(* Path 2 as a session — one builder-bid strategy (strategies/builderbid/best), any number of
   auctions one after the other; every relay of every auction with any client, any 48 bytes as its
   public key (in the configuration or in its URL: the key it signs with, somebody else's, a key
   nobody signs with, or no key at all), any minimum value and any answer (failure, no answer, no
   bid, an empty bid, a complete bid with any value, fee recipient, timestamp and any 96 bytes as
   signature).  The strategy remembers the keys it has deserialized from auction to auction.      *)

(* Every auction is carried out (one result each), none panics, and each does exactly what it would
   do on a fresh strategy: what is remembered never changes an outcome. *)
Theorem C16_bids_session_no_panic : forall s,
  bid_session_now s = map auction_alone s /\
  length (bid_session_now s) = length s /\
  forall o, In o (bid_session_now s) -> exists r, o = Ok r.
Proof. exact bid_session_now_spec. Qed.
Print Assumptions C16_bids_session_no_panic.

(* The fallback, auction by auction: every usable relay is asked; the relays with a participation
   are exactly those whose offer counts by the auction's own data ([offer]: a complete bid, not
   below the relay's minimum, fee recipient and timestamp in order and, if the relay has a key, a
   signature that verifies under it); the winning score is the best offer; every winner made an
   offer and there is a winner whenever there is an offer.  A relay whose key is no key makes no
   offer: it is ignored, and nothing else about the auction changes. *)
Theorem C16_bids_falls_back : forall rs,
  exists r, auction_alone rs = Ok r /\
  ar_all r = good_relays (map br_client rs) /\
  ar_participants r = map of_id (offers rs) /\
  ar_score r = best_value (offers rs) /\
  (forall w, In w (ar_winners r) -> In w (map of_id (offers rs))) /\
  (offers rs <> [] -> ar_winners r <> []).
Proof. intros rs. exists (result_of rs). split; [apply auction_alone_spec | apply auction_falls_back]. Qed.
Print Assumptions C16_bids_falls_back.

Theorem C16_bids_invalid_key_is_ignored : forall r n,
  effective_key r = Some (KInvalid n) -> offer r = None.
Proof. exact invalid_key_no_offer. Qed.
Print Assumptions C16_bids_invalid_key_is_ignored.

(* The guard that matters: the error of BLSPublicKeyFromBytes is looked at BEFORE the result is
   remembered.  With the two statements the other way round a relay whose key is no key is turned
   down once as before -- a single auction with a single relay never panics, which is all a test of
   one bid can see -- and its second bid, in a later auction, finds the nil key
   with a nil error and panics in the relay's goroutine; the code as it is ignores the relay every
   time. *)
Theorem C16_bids_error_before_remembering_necessary :
  (forall g r, ~ In Panic (bid_session g [] [[r]])) /\
  forall n id v h, v <> 0 ->
    let bad := {| br_client := FClient id true true; br_cfg_key := Some (KInvalid n); br_prov_key := None; br_min := 0;
                  br_answer := BdBid v h false true (SigBy (id + 1)) |} in
    let ignored := {| ar_all := [id]; ar_winners := []; ar_score := 0; ar_participants := [] |} in
    bid_session false [] [[bad]; [bad]] = [Ok ignored; Panic] /\
    bid_session_now [[bad]; [bad]] = [Ok ignored; Ok ignored].
Proof. split; [exact single_relay_never_panics | exact unguarded_second_bid_panics]. Qed.
Print Assumptions C16_bids_error_before_remembering_necessary.

Example C16_bids_example :
  let relay id key v sg := {| br_client := FClient id true true; br_cfg_key := key; br_prov_key := None; br_min := 0;
                              br_answer := BdBid v v false true sg |} in
  (* relay 0 has a key that is no key, relay 1 signs with its own key, relay 2 with somebody else's:
     relay 1 wins both auctions although relay 0 offers more; without the guard the second auction panics *)
  let a := [relay 0 (Some (KInvalid 0)) 90 (SigBy 1); relay 1 (Some (KValid 2)) 40 (SigBy 2); relay 2 (Some (KValid 3)) 50 (SigBy 9)] in
  let won := {| ar_all := [0; 1; 2]; ar_winners := [1]; ar_score := 40; ar_participants := [1] |} in
  bid_session_now [a; a] = [Ok won; Ok won] /\ bid_session false [] [a; a] = [Ok won; Panic].
Proof. vm_compute. split; reflexivity. Qed.


(* =========================================================================================== *)
(* Path 9 — aggregator selection (AggregatorsAndSignatures) over the duties' committee lengths. *)

(* Whatever committee lengths the beacon node reports in its attester duties (0, 1, anything below
   TARGET_AGGREGATORS_PER_COMMITTEE, 2^64-1), whatever the hashed slot signatures are and whether
   or not the signer answers, the selection does not panic.  TARGET_AGGREGATORS_PER_COMMITTEE <> 0
   is the domain: it is a constant of the chain's specification, read once at start-up. *)
Theorem C16_aggsel_no_panic : forall target sign_ok rows, target <> 0%N ->
  is_panic (aggsel_now target sign_ok rows) = false.
Proof. exact aggsel_no_panic. Qed.
Print Assumptions C16_aggsel_no_panic.

(* What happens instead: a failing signer is an error; otherwise every validator gets the consensus
   specification's verdict, hash mod max(1, length / TARGET) = 0 -- a committee shorter than the
   target makes every one of its validators an aggregator. *)
Theorem C16_aggsel_falls_back : forall target sign_ok rows, target <> 0%N ->
  aggsel_now target sign_ok rows = if sign_ok then Ok (map (spec_is_aggregator target) rows) else Err tt.
Proof. exact aggsel_spec. Qed.
Print Assumptions C16_aggsel_falls_back.

(* The guard that matters: "modulo must be at least 1".  The same code without it panics (integer
   divide by zero) exactly when the signer answers and some committee is shorter than the target;
   and taking the maximum of 1 and the committee length BEFORE dividing is no guard at all. *)
Theorem C16_aggsel_guard_necessary : forall target rows, target <> 0%N ->
  (aggsel false target true rows = Panic <-> exists row, In row rows /\ (fst row < target)%N).
Proof. intros target rows Ht. unfold aggsel. apply agg_select_unguarded. exact Ht. Qed.
Print Assumptions C16_aggsel_guard_necessary.

Theorem C16_aggsel_misplaced_max_is_no_guard : forall target size,
  (size < target)%N -> (1 < target)%N -> (N.max 1 size / target = 0)%N.
Proof. exact misplaced_max_is_zero. Qed.
Print Assumptions C16_aggsel_misplaced_max_is_no_guard.

Example C16_aggsel_example :
  (* target 16: a committee of 15 (every validator aggregates), of 128 (hash mod 8), of 2^64-1 *)
  aggsel_now 16 true [(15, 7); (128, 16); (128, 7); (18446744073709551615, 0)]%N = Ok [true; true; false; true]
  /\ aggsel false 16 true [(128, 16); (15, 7)]%N = Panic.
Proof. vm_compute. split; reflexivity. Qed.
