(* C16 — placeholder while the pipeline is brought up; theorems follow. *)
From Verif Require Import Lib.Base Model.C16_Paths.
