(* C18 — a block root always maps to that block's slot.  Property theorems only. *)
From Coq Require Import Permutation.
From Verif Require Import Lib.Base Model.C18_Cache Proofs.C18.

(* Every lookup answered with a slot, anywhere in any history (events, hits, misses, failed
   fetches, cleans, any roots/slots/epochs) whose events and successful fetches report the
   chain's slot for the root, is answered with the chain's slot for that root. *)
Theorem C18_lookup_correct :
  forall (slot_of : root -> slot) (ops : list op),
    Forall (op_consistent slot_of) ops ->
    forall i r f sl,
      nth_error ops i = Some (Lookup r f) ->
      nth_error (snd (run init ops)) i = Some (OSlot sl) ->
      sl = slot_of r.
Proof. intros slot_of ops H. exact (run_lookup_correct slot_of ops init (inv_init slot_of) H). Qed.
Print Assumptions C18_lookup_correct.

(* The same for overlapping lookups: in any such history every answer carrying a slot that a
   group of overlapping lookups (with block events and cleaning runs in between) gives for root r
   carries the chain's slot of r -- whatever the other goroutines' fetches did. *)
Theorem C18_overlapping_lookups_correct :
  forall (slot_of : root -> slot) (ops : list op),
    Forall (op_consistent slot_of) ops ->
    forall k evs ans i r sl,
      nth_error ops k = Some (Par evs) ->
      nth_error (snd (run init ops)) k = Some (OMany ans) ->
      In (i, r, Some sl) ans ->
      sl = slot_of r.
Proof. intros slot_of ops H. exact (run_par_correct slot_of ops init (inv_init slot_of) H). Qed.
Print Assumptions C18_overlapping_lookups_correct.

(* The cache agrees with the chain in every reachable state: block events, lookups, cleaning runs,
   head events and groups of overlapping lookups all preserve it. *)
Theorem C18_cache_agrees_with_chain :
  forall (slot_of : root -> slot) (ops : list op),
    Forall (op_consistent slot_of) ops ->
    forall r sl, get (fst (run init ops)) r = Some sl -> sl = slot_of r.
Proof. intros slot_of ops H. exact (proj2 (run_inv slot_of ops init (inv_init slot_of) H)). Qed.
Print Assumptions C18_cache_agrees_with_chain.

(* A head event (whatever block the node answers for it, or none) leaves the root -> slot map alone. *)
Theorem C18_head_event_keeps_cache :
  forall s r sl blk, step s (Head r sl blk) = (s, ONone).
Proof. reflexivity. Qed.
Print Assumptions C18_head_event_keeps_cache.

(* Inside a group: the fetch of a goroutine that missed fails => that goroutine gets an error and
   nothing is stored; and no error answer arises in any other way (in particular a goroutine is
   never given an answer because ANOTHER goroutine's fetch failed or succeeded). *)
Theorem C18_overlapping_failed_fetch_is_error :
  forall s pend i r, memb N.eqb i pend = true ->
    pstep s pend (PEnd i r None) = (s, remove_id i pend, Some (i, r, None)).
Proof. exact pstep_failed_fetch. Qed.
Print Assumptions C18_overlapping_failed_fetch_is_error.

Theorem C18_overlapping_error_only_on_failed_fetch :
  forall s pend e i r,
    snd (pstep s pend e) = Some (i, r, None) <-> (e = PEnd i r None /\ memb N.eqb i pend = true).
Proof. exact pstep_err_iff. Qed.
Print Assumptions C18_overlapping_error_only_on_failed_fetch.

(* A lone lookup is the group of its two micro-events: the sequential theorems are the special case. *)
Theorem C18_lone_lookup_is_a_group :
  forall s r f,
    par_run s [] [PBegin 0 r; PEnd 0 r f] =
      (fst (step s (Lookup r f)),
       match snd (step s (Lookup r f)) with
       | OSlot sl => [(0, r, Some sl)]
       | OErr => [(0, r, None)]
       | _ => []
       end).
Proof. exact par_sequential. Qed.
Print Assumptions C18_lone_lookup_is_a_group.

(* A miss whose fetch fails is an error, never a slot, and changes nothing; and an error is
   reported only in that situation. *)
Theorem C18_failed_fetch_is_error :
  forall s r, get s r = None -> step s (Lookup r None) = (s, OErr).
Proof. exact failed_fetch. Qed.
Print Assumptions C18_failed_fetch_is_error.

Theorem C18_error_only_on_failed_fetch :
  forall s r f, snd (step s (Lookup r f)) = OErr <-> (get s r = None /\ f = None).
Proof. exact lookup_err_iff. Qed.
Print Assumptions C18_error_only_on_failed_fetch.

(* A successful miss returns the fetched slot and turns the same lookup into a hit whatever the
   node would answer next. *)
Theorem C18_miss_then_hit :
  forall s r sl f', get s r = None ->
    let s' := fst (step s (Lookup r (Some sl))) in
    snd (step s (Lookup r (Some sl))) = OSlot sl /\ step s' (Lookup r f') = (s', OSlot sl).
Proof. exact miss_then_hit. Qed.
Print Assumptions C18_miss_then_hit.

(* Cleaning removes exactly the entries whose slot is below the first slot of (epoch - 64), and
   nothing at all while epoch <= 64; every other entry is untouched. *)
Theorem C18_clean_only_old :
  forall s e spe r, wf s ->
    get (fst (step s (Clean e spe))) r =
      if e <=? retention then get s r
      else match get s r with
           | Some sl => if sl <? min_slot e spe then None else Some sl
           | None => None
           end.
Proof. intros s e spe r H. exact (get_clean s e spe r H). Qed.
Print Assumptions C18_clean_only_old.

(* The cache is a functional map: a write is visible at its key and nowhere else. *)
Theorem C18_refines_map :
  forall s r sl r', get (fst (step s (Event r sl))) r' = if r =? r' then Some sl else get s r'.
Proof. intros; cbn [step fst]; apply get_set. Qed.
Print Assumptions C18_refines_map.

(* Retention -- "periodic cleaning only removes entries older than the retention window", and
   nothing else removes entries at all: the map has no size bound.  Once a root has been stored
   (block event / SetBlockRootToSlot, or a successful miss), then after ANY further consistent
   history -- however long, however many other roots it stores -- none of whose cleaning runs
   (sequential or inside a group) finds the root's slot below the first slot of (epoch - 64), a
   lookup of that root is a hit with the chain's slot, whatever the node would answer. *)
Theorem C18_stored_root_stays_until_cleaned :
  forall (slot_of : root -> slot) (ops1 : list op) (o : op) (ops2 : list op) (r : root) (f : option slot),
    Forall (op_consistent slot_of) (ops1 ++ o :: ops2) ->
    (o = Event r (slot_of r) \/ o = Lookup r (Some (slot_of r))) ->
    Forall (op_keeps slot_of r) ops2 ->
    let s := fst (run init (ops1 ++ o :: ops2)) in
    step s (Lookup r f) = (s, OSlot (slot_of r)).
Proof. exact stored_then_hit. Qed.
Print Assumptions C18_stored_root_stays_until_cleaned.

(* ... in every state: an entry survives any consistent op that is not a cleaning run entitled to
   remove it. *)
Theorem C18_entry_survives_step :
  forall (slot_of : root -> slot) s o r,
    Inv slot_of s -> op_consistent slot_of o -> op_keeps slot_of r o ->
    get s r = Some (slot_of r) -> get (fst (step s o)) r = Some (slot_of r).
Proof. exact step_keeps. Qed.
Print Assumptions C18_entry_survives_step.

(* Writes that overlap the cleaning job.  A group is ANY list of micro-events -- the theorems below
   quantify over all of them, hence over every interleaving of the goroutines that handle block
   events, call SetBlockRootToSlot or look roots up with the runs of the cleaning job.
   A completed write (block event / SetBlockRootToSlot) of a root that none of the cleaning runs
   AFTER it in the group is entitled to remove is in the map when the group ends, wherever in the
   group it falls and whatever the other goroutines do ... *)
Theorem C18_write_during_cleaning_is_kept :
  forall (slot_of : root -> slot) s pend evs1 r evs2,
    Inv slot_of s ->
    Forall (pev_consistent slot_of) (evs1 ++ PEvent r (slot_of r) :: evs2) ->
    Forall (pev_keeps slot_of r) evs2 ->
    forall f, let s' := fst (par_run s pend (evs1 ++ PEvent r (slot_of r) :: evs2)) in
      step s' (Lookup r f) = (s', OSlot (slot_of r)).
Proof.
  intros slot_of s pend evs1 r evs2 Hi Hc Hk f. cbn zeta.
  pose proof (par_run_set_kept slot_of evs1 s pend evs2 r Hi Hc Hk) as H.
  unfold cached in H. cbn [step]. rewrite H. reflexivity.
Qed.
Print Assumptions C18_write_during_cleaning_is_kept.

(* ... so is every root that a lookup of the group was answered a slot for (a hit, or a miss whose
   fetch succeeded: the miss path stores) ... *)
Theorem C18_answered_during_cleaning_is_kept :
  forall (slot_of : root -> slot) s pend evs r i sl,
    Inv slot_of s -> Forall (pev_consistent slot_of) evs -> Forall (pev_keeps slot_of r) evs ->
    In (i, r, Some sl) (snd (par_run s pend evs)) ->
    get (fst (par_run s pend evs)) r = Some (slot_of r).
Proof. intros slot_of s pend evs r i sl Hi Hc Hk Hin. exact (par_run_answered_kept slot_of evs r s pend Hi Hc Hk i sl Hin). Qed.
Print Assumptions C18_answered_during_cleaning_is_kept.

(* ... and a root cached before the group is a hit at any moment of it (the node is not asked),
   as long as the cleaning runs before that moment are not entitled to remove it. *)
Theorem C18_cached_root_hits_during_cleaning :
  forall (slot_of : root -> slot) s pend evs1 i r evs2,
    Inv slot_of s -> get s r = Some (slot_of r) ->
    Forall (pev_consistent slot_of) evs1 -> Forall (pev_keeps slot_of r) evs1 ->
    In (i, r, Some (slot_of r)) (snd (par_run s pend (evs1 ++ PBegin i r :: evs2))).
Proof. intros slot_of s pend evs1 i r evs2 Hi H Hc Hk. exact (par_run_cached_hits slot_of evs1 s pend i r evs2 Hi H Hc Hk). Qed.
Print Assumptions C18_cached_root_hits_during_cleaning.

(* The order in which the writes and the cleaning runs of a group take effect does not matter: two
   interleavings of the same micro-events leave the same entry (or none) at every root written by a
   block event of the group that none of its cleaning runs may remove, and at every root the group
   does not write (there: what the cleaning runs leave of the entry the group found).  This is why
   the harness may print the micro-events of a storm -- real goroutines, order unknown -- in one
   fixed order. *)
Theorem C18_writes_and_cleaning_runs_commute :
  forall (slot_of : root -> slot) s pend evs evs' r,
    Inv slot_of s -> Permutation evs evs' -> Forall (pev_consistent slot_of) evs ->
    (In (PEvent r (slot_of r)) evs /\ Forall (pev_keeps slot_of r) evs) \/ Forall (fun e => ~ pev_touches r e) evs ->
    get (fst (par_run s pend evs)) r = get (fst (par_run s pend evs')) r.
Proof. exact par_run_order_irrelevant. Qed.
Print Assumptions C18_writes_and_cleaning_runs_commute.

(* Non-vacuity: the cleaning job runs twice at epoch 70 (8 slots per epoch: the window starts at slot
   48) while roots 5 and 6 are announced, root 7 is fetched on a miss, and root 1 (cached before, slot
   50) is asked for with the node failing; root 2 (slot 40) is old.  In two different orders. *)
Example C18_storm_example :
  let slot_of := fun r => match r with 1 => 50 | 2 => 40 | _ => 100 + r end in
  let s := fst (run init [Event 1 50; Event 2 40]) in
  let evs := [PClean 70 8; PEvent 5 105; PBegin 1 7; PEnd 1 7 (Some 107); PClean 70 8; PEvent 6 106; PBegin 2 1; PEnd 2 1 None] in
  let evs' := [PEvent 6 106; PBegin 2 1; PEvent 5 105; PBegin 1 7; PClean 70 8; PEnd 2 1 None; PEnd 1 7 (Some 107); PClean 70 8] in
  Forall (pev_consistent slot_of) evs /\
  par_run s [] evs = ([(6, 106); (7, 107); (5, 105); (1, 50)], [(1, 7, Some 107); (2, 1, Some 50)]) /\
  par_run s [] evs' = ([(7, 107); (5, 105); (6, 106); (1, 50)], [(2, 1, Some 50); (1, 7, Some 107)]).
Proof. cbn zeta. split; [repeat constructor | split; vm_compute; reflexivity]. Qed.

(* Non-vacuity: 64 epochs of 2 slots and three slots more, a block in every slot, the cleaning job
   running at the current epoch: the root of the window's first slot is still a hit, the one of the
   slot before is gone. *)
Example C18_retention_example :
  let slot_of := fun r => r in
  let ops := map (fun r => Event r r) (map N.of_nat (seq 8 132)) ++ [Clean 69 2] in
  Forall (op_consistent slot_of) ops /\
  Forall (op_keeps slot_of 10) ops /\
  length (fst (run init ops)) = 130%nat /\
  snd (step (fst (run init ops)) (Lookup 10 None)) = OSlot 10 /\
  snd (step (fst (run init ops)) (Lookup 9 None)) = OErr.
Proof.
  cbn zeta. split; [|split; [|vm_compute; repeat split]].
  - apply Forall_app. split; [|repeat constructor].
    apply Forall_forall. intros o Ho. apply in_map_iff in Ho. destruct Ho as [r [<- _]]. reflexivity.
  - apply Forall_app. split.
    + apply Forall_forall. intros o Ho. apply in_map_iff in Ho. destruct Ho as [r [<- _]]. exact I.
    + constructor; [right; reflexivity | constructor].
Qed.

(* Non-vacuity of the group theorems: two goroutines miss on the same root, the first one's fetch
   fails, the second one's succeeds or fails: error for the first, its own outcome for the second. *)
Example C18_shared_failure_example :
  forall s r f2, get s r = None ->
    snd (par_run s [] [PBegin 1 r; PBegin 2 r; PEnd 1 r None; PEnd 2 r f2]) = [(1, r, None); (2, r, f2)].
Proof. exact par_shared_failure. Qed.

Example C18_group_history_example :
  let slot_of := fun r => r * 10 in
  let ops := [Event 1 10; Head 3 30 (Some (1, 30)); Lookup 3 None;
              Par [PBegin 1 2; PBegin 2 2; PBegin 3 1; PEnd 1 2 None; PEvent 3 30; PEnd 2 2 (Some 20); PBegin 4 2; PEnd 3 1 None];
              Lookup 3 None] in
  Forall (op_consistent slot_of) ops /\
  snd (run init ops) = [ONone; ONone; OErr; OMany [(3, 1, Some 10); (1, 2, None); (2, 2, Some 20); (4, 2, Some 20)]; OSlot 30].
Proof. cbn. split; [repeat constructor | reflexivity]. Qed.

(* Non-vacuity: a concrete consistent history with a miss, a hit, a failed fetch and a clean. *)
Example C18_history_example :
  let slot_of := fun r => r * 10 in
  let ops := [Event 1 10; Lookup 2 (Some 20); Lookup 2 None; Lookup 3 None; Clean 70 8; Lookup 1 (Some 10)] in
  Forall (op_consistent slot_of) ops /\
  snd (run init ops) = [ONone; OSlot 20; OSlot 20; OErr; ONone; OSlot 10].
Proof. cbn. split; [repeat constructor | reflexivity]. Qed.
