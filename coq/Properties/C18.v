(* C18 — a block root always maps to that block's slot.  Property theorems only. *)
From Verif Require Import Lib.Base Model.C18_Cache Proofs.C18.

(* Every lookup answered with a slot, anywhere in any history (events, hits, misses, failed
   fetches, cleans, any roots/slots/epochs) whose events and successful fetches report the
   chain's slot for the root, is answered with the chain's slot for that root. *)
Theorem C18_lookup_correct :
  forall (slot_of : root -> slot) (ops : list op),
    Forall (op_consistent slot_of) ops ->
    forall i r f sl,
      nth_error ops i = Some (Lookup r f) ->
      nth_error (snd (run init ops)) i = Some (OSlot sl) ->
      sl = slot_of r.
Proof. intros slot_of ops H. exact (run_lookup_correct slot_of ops init (inv_init slot_of) H). Qed.
Print Assumptions C18_lookup_correct.

(* A miss whose fetch fails is an error, never a slot, and changes nothing; and an error is
   reported only in that situation. *)
Theorem C18_failed_fetch_is_error :
  forall s r, get s r = None -> step s (Lookup r None) = (s, OErr).
Proof. exact failed_fetch. Qed.
Print Assumptions C18_failed_fetch_is_error.

Theorem C18_error_only_on_failed_fetch :
  forall s r f, snd (step s (Lookup r f)) = OErr <-> (get s r = None /\ f = None).
Proof. exact lookup_err_iff. Qed.
Print Assumptions C18_error_only_on_failed_fetch.

(* A successful miss returns the fetched slot and turns the same lookup into a hit whatever the
   node would answer next. *)
Theorem C18_miss_then_hit :
  forall s r sl f', get s r = None ->
    let s' := fst (step s (Lookup r (Some sl))) in
    snd (step s (Lookup r (Some sl))) = OSlot sl /\ step s' (Lookup r f') = (s', OSlot sl).
Proof. exact miss_then_hit. Qed.
Print Assumptions C18_miss_then_hit.

(* Cleaning removes exactly the entries whose slot is below the first slot of (epoch - 64), and
   nothing at all while epoch <= 64; every other entry is untouched. *)
Theorem C18_clean_only_old :
  forall s e spe r, wf s ->
    get (fst (step s (Clean e spe))) r =
      if e <=? retention then get s r
      else match get s r with
           | Some sl => if sl <? min_slot e spe then None else Some sl
           | None => None
           end.
Proof. intros s e spe r H. exact (get_clean s e spe r H). Qed.
Print Assumptions C18_clean_only_old.

(* The cache is a functional map: a write is visible at its key and nowhere else. *)
Theorem C18_refines_map :
  forall s r sl r', get (fst (step s (Event r sl))) r' = if r =? r' then Some sl else get s r'.
Proof. intros; cbn [step fst]; apply get_set. Qed.
Print Assumptions C18_refines_map.

(* Non-vacuity: a concrete consistent history with a miss, a hit, a failed fetch and a clean. *)
Example C18_history_example :
  let slot_of := fun r => r * 10 in
  let ops := [Event 1 10; Lookup 2 (Some 20); Lookup 2 None; Lookup 3 None; Clean 70 8; Lookup 1 (Some 10)] in
  Forall (op_consistent slot_of) ops /\
  snd (run init ops) = [ONone; OSlot 20; OSlot 20; OErr; ONone; OSlot 10].
Proof. cbn. split; [repeat constructor | reflexivity]. Qed.
