(* C20 — Vouch's memory and goroutines stay bounded, and shutdown accounting is exact.
   Property theorems only.  [step spe true] is the model of the code as it is now, [step spe false]
   the tree before the C20 repairs (see Model/C20_Bookkeeping.v); the fan-out model is
   Model/C20_Fanout.v.  "History" = any list of operations (any length, any order, any arguments);
   the conditions [guarded .. g h init] restrict histories only by what the chain clock and the
   scheduler guarantee (stated with each theorem). *)
From Verif Require Import Lib.Base Lib.Sched Model.C20_Bookkeeping Model.C20_Fanout Proofs.C20_Bookkeeping Proofs.C20_Fanout Proofs.C20_Unbounded Model.C20_Jobs Proofs.C20_Jobs Model.C20_Setup Proofs.C20_Setup Model.C20_Requests Proofs.C20_Requests Model.C20_BidApi Proofs.C20_BidApi.

(* ---------------------------------------------------------------------------------------------- *)
(* attested (services/attester/standard): in every history whose attestation jobs start in slot
   order, after any number of epochs, with any pattern of failed attestations, skipped epochs,
   reorg refreshes, the map holds only epochs between (last epoch with a successful attestation)-1
   and the newest epoch attested in: at most  newest - last_successful + 2  entries.  In particular
   2 entries whenever the newest epoch has a success, whatever was skipped before. *)
Theorem C20_attested_bounded :
  forall spe, 0 < spe -> forall h,
    guarded spe true starts_ok h init = true ->
    let st := run spe true h init in
    NoDup (attested st) /\
    (forall k, In k (attested st) -> g_succ st <= k + 1 /\ k <= epoch_of spe (g_start st)) /\
    size (attested st) <= epoch_of spe (g_start st) - g_succ st + 2.
Proof. exact attested_window. Qed.
Print Assumptions C20_attested_bounded.

(* The tree before the repair (delete(epoch-2) only): a history with a successful attestation in
   every epoch it attests in, where every skipped epoch leaves an entry for ever: 40 entries with
   newest = last_successful (the bound above would be 2). *)
Theorem C20_attested_tree_refuted :
  exists h, guarded 4 false starts_ok h init = true /\
    let st := run 4 false h init in
    g_succ st = epoch_of 4 (g_start st) /\ size (attested st) = 40.
Proof. exists (skipping 40 0). vm_compute. auto. Qed.
Print Assumptions C20_attested_tree_refuted.

(* ... and without any bound: for EVERY n a history with a success in the newest epoch and n entries *)
Theorem C20_attested_tree_unbounded :
  forall n, n <> O ->
    guarded 4 false starts_ok (skipping n 0) init = true /\
    g_succ (run 4 false (skipping n 0) init) = epoch_of 4 (g_start (run 4 false (skipping n 0) init)) /\
    size (attested (run 4 false (skipping n 0) init)) = N.of_nat n.
Proof. exact attested_unbounded. Qed.
Print Assumptions C20_attested_tree_unbounded.

(* ---------------------------------------------------------------------------------------------- *)
(* pendingAttestations (services/controller/standard): in every history (scheduling, rescheduling,
   job starts and ends in any order, reorg refreshes that cancel and re-create jobs, with or without
   new duties) HasPendingAttestations(s) is true exactly when the attestation job of slot s has been
   set up and has neither finished nor been withdrawn; and the map has exactly one entry per such
   job.  Condition: duties are not set up again for a slot whose job is executing. *)
Theorem C20_pending_exact :
  forall spe, 0 < spe -> forall h,
    guarded spe true (resched_ok spe) h init = true ->
    let st := run spe true h init in
    (forall s, has_pending st s = in_flight st s) /\
    size (marks st) = size (jobs st) + size (running st).
Proof. exact pending_exact. Qed.
Print Assumptions C20_pending_exact.

(* The tree before the repair: a reorg refresh that withdraws the job of slot 9 (no duty there any
   more) leaves the slot marked: a shutdown requested in slot 9 waits for ever. *)
Theorem C20_pending_tree_refuted :
  exists h s, guarded 4 false (resched_ok 4) h init = true /\
    let st := run 4 false h init in has_pending st s = true /\ in_flight st s = false.
Proof. exists [OSched 8 false [9; 10]; ORefresh 8 2 (Some [10]) true], 9. vm_compute. auto. Qed.
Print Assumptions C20_pending_tree_refuted.

(* Without the condition the statement fails even now: a second set-up of slot 5 while its job is
   executing is un-marked when the first job ends (not reachable through the controller, which
   never reschedules the slot of a job it could not cancel). *)
Theorem C20_pending_overlap_refuted :
  exists h s, let st := run 4 true h init in has_pending st s = false /\ in_flight st s = true.
Proof. exists [OSched 5 false [5]; OStart 5; OSched 5 false [5]; OFinish 5 true], 5. vm_compute. auto. Qed.
Print Assumptions C20_pending_overlap_refuted.

(* ---------------------------------------------------------------------------------------------- *)
(* The set-up of one slot's attestation job at the granularity of the goroutines (Model/C20_Setup.v):
   the loop of scheduleAttestations marks the slot (SBegin), the goroutine it starts calls
   ScheduleJob (SCall) and later executes whatever follows the call (SResume); the scheduler starts
   the job (SStart: at once for a job whose time has come), the job function ends (SFinish), a reorg
   refresh cancels the job (SCancel).  A "schedule" is any list of these actions: in particular the
   job may be started, finish or be cancelled while its set-up goroutine is still parked behind
   ScheduleJob.  [sstep false] = the code as it is (mark in the loop, before the goroutine exists);
   [sstep true] = the mark set by the goroutine after ScheduleJob returned nil. *)

(* In EVERY schedule, with no condition at all: a marked slot has its job in the table or executing,
   or a set-up goroutine of it has not reached the scheduler yet.  Once the set-up goroutines have
   come to rest, HasPendingAttestations = true implies an attestation in flight: a requested
   shutdown waits for nothing else. *)
Theorem C20_setup_no_stale_mark :
  forall l, let st := srun false l sinit in
    s_mark st = true -> s_job st = true \/ s_run st <> O \/ s_spawned st <> O.
Proof. exact setup_no_stale_mark. Qed.
Print Assumptions C20_setup_no_stale_mark.

(* Exactness at every instant, including while set-up goroutines are parked behind ScheduleJob and
   the job runs or is cancelled meanwhile.  Condition [sguard]: between the loop's mark and the
   goroutine's ScheduleJob call the slot's job is neither started nor cancelled, and the slot is
   not set up again while its job is executing. *)
Theorem C20_setup_pending_exact :
  forall l, sguarded false l sinit = true ->
    let st := srun false l sinit in
    (s_mark st = true <-> (s_job st = true \/ s_run st <> O \/ s_spawned st <> O)) /\
    (s_in_flight st = true -> s_mark st = true).
Proof. exact setup_pending_exact. Qed.
Print Assumptions C20_setup_pending_exact.

(* The mark set after ScheduleJob has returned: (a) the job is in the table and the slot is not
   reported as pending; (b) an overdue job that runs to its end - or a job that a refresh cancels -
   before its set-up goroutine continues leaves the mark set with nothing in flight and no set-up
   goroutine left, and no later action other than a new set-up of that very slot ever clears it:
   a shutdown requested in that slot waits for ever.  Both schedules satisfy [sguard]. *)
Theorem C20_setup_late_mark_refuted :
  (let st := srun true [SBegin; SCall] sinit in
     sguarded true [SBegin; SCall] sinit = true /\ s_in_flight st = true /\ s_mark st = false) /\
  (forall gap, gap = [SStart; SFinish] \/ gap = [SCancel] ->
     let l := [SBegin; SCall] ++ gap ++ [SResume] in
     sguarded true l sinit = true /\
     srun true l sinit = stale /\
     s_mark stale = true /\ s_in_flight stale = false /\ s_setting_up stale = false /\ s_sched stale = O /\
     forall l', has_begin l' = false -> srun true l' stale = stale).
Proof.
  split; [vm_compute; auto|].
  intros gap [E|E]; subst gap; (repeat split; try reflexivity); exact stale_for_ever.
Qed.
Print Assumptions C20_setup_late_mark_refuted.

(* Without the condition the "in flight => marked" direction fails even for the code as it is: a
   second set-up of the slot whose goroutine has not reached the scheduler when a refresh cancels
   the first job registers a job for an unmarked slot (needs a refresh running concurrently with a
   set-up of the same epoch; window: from the loop's mark to the goroutine's ScheduleJob call). *)
Theorem C20_setup_unguarded_refuted :
  exists l, let st := srun false l sinit in s_in_flight st = true /\ s_mark st = false.
Proof. exists [SBegin; SCall; SBegin; SCancel; SCall]. vm_compute. auto. Qed.
Print Assumptions C20_setup_unguarded_refuted.

(* ---------------------------------------------------------------------------------------------- *)
(* subscriptionInfos: with a chain clock that does not go backwards and subscriptions made for the
   current or the next epoch, the map holds only epochs from (epoch of the last timely head event)-1
   to current+1. *)
Theorem C20_subscriptions_bounded :
  forall spe, 0 < spe -> forall h,
    guarded spe true (gand time_ok (subs_ok spe)) h init = true ->
    let st := run spe true h init in
    NoDup (subs st) /\
    (forall k, In k (subs st) -> g_head st <= k + 1 /\ k <= epoch_of spe (g_now st) + 1) /\
    size (subs st) <= epoch_of spe (g_now st) - g_head st + 3.
Proof. exact subs_window. Qed.
Print Assumptions C20_subscriptions_bounded.

(* The tree before the repair (delete(epoch-2) on a head event): an epoch without a timely head
   event (epoch 3 here) leaves epoch 1's entry behind although head events resumed. *)
Theorem C20_subscriptions_tree_refuted :
  exists h, guarded 4 false (gand time_ok (subs_ok 4)) h init = true /\
    let st := run 4 false h init in
    mem 1 (subs st) = true /\ g_head st = 5 /\ epoch_of 4 (g_now st) = 5.
Proof.
  exists [OSubscribe 0 1 true; OSubscribe 4 2 true; OHead 8 8; OSubscribe 8 3 true; OSubscribe 12 4 true;
          OSubscribe 16 5 true; OHead 16 16; OSubscribe 20 6 true; OHead 20 20].
  vm_compute. auto.
Qed.
Print Assumptions C20_subscriptions_tree_refuted.

(* ---------------------------------------------------------------------------------------------- *)
(* beaconBlockRoots (sync committee aggregator) and slotDataRecords (messenger): with messages made
   in slot order, whatever is or is not aggregated, whether or not inclusion verification runs. *)
Theorem C20_block_roots_bounded :
  forall spe, 0 < spe -> forall h,
    guarded spe true msgs_ok h init = true ->
    let st := run spe true h init in
    NoDup (roots st) /\ (forall k, In k (roots st) -> k <= g_msg st /\ g_msg st <= k + spe) /\
    size (roots st) <= spe + 1.
Proof. exact roots_window. Qed.
Print Assumptions C20_block_roots_bounded.

Theorem C20_slot_data_bounded :
  forall spe, 0 < spe -> forall h,
    guarded spe true msgs_ok h init = true ->
    let st := run spe true h init in
    NoDup (sdata st) /\ size (sdata st) <= max_slot_data.
Proof. exact sdata_bounded. Qed.
Print Assumptions C20_slot_data_bounded.

(* The tree before the repairs: one root and one slot record per slot for ever (200 slots, none of
   them aggregated; inclusion verification off). *)
Theorem C20_sync_maps_tree_refuted :
  exists h, guarded 32 false msgs_ok h init = true /\
    let st := run 32 false h init in size (roots st) = 200 /\ size (sdata st) = 200.
Proof. exists (messages 200 1000). vm_compute. auto. Qed.
Print Assumptions C20_sync_maps_tree_refuted.

(* for EVERY n and every SLOTS_PER_EPOCH: n message slots leave n roots and n records *)
Theorem C20_sync_maps_tree_unbounded :
  forall spe n,
    guarded spe false msgs_ok (messages n 0) init = true /\
    size (roots (run spe false (messages n 0) init)) = N.of_nat n /\
    size (sdata (run spe false (messages n 0) init)) = N.of_nat n.
Proof. exact sync_maps_unbounded. Qed.
Print Assumptions C20_sync_maps_tree_unbounded.

(* ---------------------------------------------------------------------------------------------- *)
(* builderBidsCache (block relay) *)
Theorem C20_bids_bounded :
  forall spe, 0 < spe -> forall h,
    guarded spe true aucs_ok h init = true ->
    let st := run spe true h init in
    NoDup (bids st) /\ (forall k, In k (bids st) -> k <= g_auc st /\ g_auc st <= k + bid_window) /\
    size (bids st) <= bid_window + 1.
Proof. exact bids_window. Qed.
Print Assumptions C20_bids_bounded.

Theorem C20_bids_tree_refuted :
  exists h, guarded 32 false aucs_ok h init = true /\ size (bids (run 32 false h init)) = 150.
Proof. exists (auctions 150 7). vm_compute. auto. Qed.
Print Assumptions C20_bids_tree_refuted.

Theorem C20_bids_tree_unbounded :
  forall spe n,
    guarded spe false aucs_ok (auctions n 0) init = true /\
    size (bids (run spe false (auctions n 0) init)) = N.of_nat n.
Proof. exact bids_unbounded. Qed.
Print Assumptions C20_bids_tree_unbounded.

(* ---------------------------------------------------------------------------------------------- *)
(* builderBidsCache under requests for slots in ANY order.  The slot of a bid request is not only the
   slot of one of our proposals (AuctionBlock): the builder API that Vouch serves (BuilderBid) holds
   an auction and caches the result for whatever slot it is asked for, far-future and far-past slots
   included.  With NO condition on the history: after every operation the cache holds no slot twice,
   nothing older than 32 slots before the slot of the latest cacheBid, hence at most 33 slots up to
   that slot; and every slot held (in particular every slot beyond it) has been asked for. *)
Theorem C20_bids_any_order :
  forall spe h,
    let st := run spe true h init in
    NoDup (bids st) /\
    (forall k, In k (bids st) -> g_auc st <= k + bid_window /\ In (OAuction k) h) /\
    size (filter (fun k => k <=? g_auc st) (bids st)) <= bid_window + 1.
Proof. exact bids_any_order. Qed.
Print Assumptions C20_bids_any_order.

(* ... and with the requests of the builder API among the operations (answered from the cache when the
   slot is cached, otherwise an auction whose result is cached): what the check runs. *)
Theorem C20_bids_api_any_order :
  forall spe (h : list xop),
    let st := xrun spe true h init in
    NoDup (bids st) /\
    (forall k, In k (bids st) -> g_auc st <= k + bid_window /\ In k (requested h)) /\
    size (filter (fun k => k <=? g_auc st) (bids st)) <= bid_window + 1.
Proof. exact bids_api_any_order. Qed.
Print Assumptions C20_bids_api_any_order.

(* a request that is answered from the cache writes nothing *)
Theorem C20_bid_request_hit_writes_nothing :
  forall spe (fx : bool) st s, mem s (bids st) = true -> xstep spe fx st (XBid s) = st.
Proof. exact xbid_hit. Qed.
Print Assumptions C20_bid_request_hit_writes_nothing.

(* cacheBid that walks the cache only when the slot is later than the latest slot it has tidied for
   (a high-water mark kept in the service): ONE request for a far-future slot and the cache is never
   tidied again; for every n, n ordinary slots later it holds n + 1 slots. *)
Theorem C20_bids_high_water_refuted :
  forall n far, N.of_nat n <= far -> 0 < far ->
    size (snd (hw_run (far :: upto n 0))) = N.of_nat n + 1.
Proof. exact hw_unbounded. Qed.
Print Assumptions C20_bids_high_water_refuted.

(* non-vacuity: a far-future request (1000000), a far-past one (3), then slots 100..139: the code as
   it is keeps 33 slots of the window and the far-future one; slot 3 went with the first later cacheBid *)
Example C20_bids_any_order_example :
  let h := [XBid 50; XBid 1000000; XBid 3; XBid 3; XBase (OAuction 60)] ++ map XBid (upto 40 100) in
  let st := xrun 32 true h init in
  size (bids st) = 34 /\ mem 1000000 (bids st) = true /\ mem 3 (bids st) = false /\ g_auc st = 139 /\
  size (snd (hw_run (requested h))) = 43.
Proof. vm_compute. repeat split. Qed.

(* ---------------------------------------------------------------------------------------------- *)
(* scheduler job table: in every history (either variant) a job in the table was set up by a
   scheduling call whose chain time was not after the job's slot: the table holds only jobs that
   were set up, have not started and were not withdrawn. *)
Theorem C20_jobs_only_outstanding :
  forall spe, 0 < spe -> forall (fx : bool) h,
    let st := run spe fx h init in
    forall s, In s (jobs st) ->
      exists cur notcur ds,
        (In (OSched cur notcur ds) h \/ exists e b, In (ORefresh cur e (Some ds) b) h) /\ In s ds /\ cur <= s.
Proof. exact jobs_only_scheduled. Qed.
Print Assumptions C20_jobs_only_outstanding.

(* The real scheduler's table (services/scheduler/advanced, model C20_Jobs): after every history of
   ScheduleJob / CancelJob / RunJob calls and passing time, of any length, names are unique and every
   entry is a job whose time has NOT come yet: nothing that has run, been cancelled or fallen due
   stays behind; and the table never holds more entries than ScheduleJob was called. *)
Theorem C20_scheduler_table_future_only :
  forall h, let s := jrun h jinit in
    NoDup (map fst (j_tab s)) /\ (forall id t, In (id, t) (j_tab s) -> j_now s < t).
Proof. intros h s. destruct (jinv_run h jinit jinv_init) as [H1 H2]. split; assumption. Qed.
Print Assumptions C20_scheduler_table_future_only.

Theorem C20_scheduler_table_bounded :
  forall h,
    (length (j_tab (jrun h jinit)) <=
     length (filter (fun o => match o with JSchedule _ _ => true | _ => false end) h))%nat.
Proof. intro h. exact (table_bounded_by_schedules h jinit). Qed.
Print Assumptions C20_scheduler_table_bounded.

(* ---------------------------------------------------------------------------------------------- *)
(* goroutines of the `first` strategies and of unblinding: n providers, channel capacity cap, a
   collector that takes at most k answers (with or without a deadline [t], with or without the
   "everybody has failed" notice [d]); every schedule of provider returns (success or error), sends,
   receives, the collector's timeout and notice, of any length.  When nothing can move any more, the
   number of goroutines blocked for ever on the send is exactly max 0 (successful - cap - received). *)
Theorem C20_senders_terminate :
  forall n cap k t d sch,
    let s := frun sch (finit n cap k t d) in
    final s = true -> blocked s = leak_formula (f_succ s) cap (f_recvd s).
Proof. exact senders_terminate. Qed.
Print Assumptions C20_senders_terminate.

(* capacity >= number of providers (the code as it is now): in no state of any schedule is a
   goroutine that holds an answer unable to send it, and nothing is left blocked at the end. *)
Theorem C20_senders_never_block :
  forall n cap k t d sch i,
    N.of_nat n <= cap ->
    let s := frun sch (finit n cap k t d) in
    (nth_error (f_snd s) i = Some SReady -> fstep s (Send i) <> None) /\
    (final s = true -> blocked s = 0).
Proof.
  intros n cap k t d sch i Hn s. split; [apply never_blocked, Hn | apply no_leak_when_cap_ge_n, Hn].
Qed.
Print Assumptions C20_senders_never_block.

(* every schedule, however long, makes at most 2n + k + 1 effective steps: the goroutines end *)
Theorem C20_fanout_bounded_steps :
  forall n cap k t d sch, (taken fstep sch (finit n cap k t d) <= 2 * n + N.to_nat k + 1)%nat.
Proof. exact bounded_steps. Qed.
Print Assumptions C20_fanout_bounded_steps.

(* The tree before the repair (capacity 1): three providers answering at once leave one goroutine
   blocked for ever per call; the collector returned an answer. *)
Theorem C20_senders_tree_refuted :
  exists sch, let s := frun sch (finit 3 1 1 true false) in
    final s = true /\ f_recvd s = 1 /\ blocked s = 1.
Proof. exists [Return 0 true; Return 1 true; Return 2 true; Send 0; Recv; Send 1; Send 2]. vm_compute. auto. Qed.
Print Assumptions C20_senders_tree_refuted.

(* the collector: under a deadline (the `first` strategies) it always returns; without one
   (unblindProposal runs under the job's context) it always returns too, now that it is told when
   every relay has given up *)
Theorem C20_collector_returns :
  forall n cap k d sch, let s := frun sch (finit n cap k true d) in final s = true -> f_coll_done s = true.
Proof. exact collector_returns_with_timeout. Qed.
Print Assumptions C20_collector_returns.

Theorem C20_unblind_collector_returns :
  forall n cap sch, 0 < cap ->
    let s := frun sch (finit n cap 1 false true) in final s = true -> f_coll_done s = true.
Proof. intros n cap sch H. exact (collector_returns_with_detection n cap sch H). Qed.
Print Assumptions C20_unblind_collector_returns.

(* The tree before that repair (no notice): the collector returns if and only if some relay
   delivered the block; with every relay failing it waits for ever. *)
Theorem C20_unblind_tree_collector :
  forall n cap sch, 0 < cap ->
    let s := frun sch (finit n cap 1 false false) in
    final s = true -> (f_coll_done s = false <-> f_succ s = 0).
Proof. intros n cap sch H. exact (collector_without_timeout n cap sch H). Qed.
Print Assumptions C20_unblind_tree_collector.

Theorem C20_unblind_tree_refuted :
  exists sch, let s := frun sch (finit 2 2 1 false false) in final s = true /\ collector_stuck s = true.
Proof. exists [Return 0 false; Return 1 false]. vm_compute. auto. Qed.
Print Assumptions C20_unblind_tree_refuted.

(* ---------------------------------------------------------------------------------------------- *)
(* The provider REQUESTS and the context they carry (Model/C20_Requests.v): n providers, any of which
   may honour its request context (its call comes back once that context has ended) and may never
   answer by itself; every schedule of returns, sends, receives, the call's deadline, the end of
   the caller's context and aborted requests, of any length.
   The `first` strategies hand every request a context of the call itself.  Whenever the call has
   come back and nothing moves by itself any more: no request is outstanding at a provider that
   honours its context, no goroutine holds an answer it cannot send, and every goroutine of the
   call that still exists is a call to a provider that ignores its context (the node's doing, not
   the strategy's) -- whatever the caller's context does, in particular if it lives for ever. *)
Theorem C20_requests_end_with_call :
  forall n cap k t d hon sch, N.of_nat n <= cap ->
    let s := rrun sch (rinit n cap k t d hon RqCall) in
    f_coll_done (r_f s) = true -> rquiet s = true ->
    inflight_hon s = 0 /\ blocked (r_f s) = 0 /\
    (forall i st, stat_at s i = Some st -> st = C20_Fanout.SDone \/ (st = C20_Fanout.SCall /\ honours s i = false)).
Proof.
  intros n cap k t d hon sch Hn s Hc Hq.
  apply (requests_end_with_context n cap k t d hon RqCall sch Hn Hq).
  apply call_ctx_ends_with_collector; [|exact Hc].
  destruct (rinv_run n cap k t d hon RqCall sch) as [_ _ H _]. exact H.
Qed.
Print Assumptions C20_requests_end_with_call.

(* ... so with nodes that all honour their context a call leaves no goroutine at all behind: any
   number of calls under one long-lived context leave none *)
Theorem C20_requests_none_left :
  forall n cap k t d hon sch, N.of_nat n <= cap ->
    (forall i, (i < n)%nat -> nth i hon false = true) ->
    let s := rrun sch (rinit n cap k t d hon RqCall) in
    f_coll_done (r_f s) = true -> rquiet s = true -> alive s = 0.
Proof.
  intros n cap k t d hon sch Hn Hall s Hc Hq.
  apply (all_honour_alive_zero n cap k t d hon RqCall sch Hn Hall Hq).
  apply call_ctx_ends_with_collector; [|exact Hc].
  destruct (rinv_run n cap k t d hon RqCall sch) as [_ _ H _]. exact H.
Qed.
Print Assumptions C20_requests_none_left.

(* unblindProposal hands the relays the context it was given (deliberately: a relay that is a little
   slow is not to be cancelled): a relay that never answers keeps its goroutine while that context
   lives; once it has ended, the same holds as above. *)
Theorem C20_unblind_requests_end_with_caller :
  forall n cap k t d hon sch, N.of_nat n <= cap ->
    let s := rrun sch (rinit n cap k t d hon RqCaller) in
    r_caller_done s = true -> rquiet s = true ->
    inflight_hon s = 0 /\ blocked (r_f s) = 0 /\
    (forall i st, stat_at s i = Some st -> st = C20_Fanout.SDone \/ (st = C20_Fanout.SCall /\ honours s i = false)).
Proof.
  intros n cap k t d hon sch Hn s Hc Hq.
  apply (requests_end_with_context n cap k t d hon RqCaller sch Hn Hq).
  subst s. unfold req_done. destruct (rinv_run n cap k t d hon RqCaller sch) as [_ _ H _]. rewrite H. exact Hc.
Qed.
Print Assumptions C20_unblind_requests_end_with_caller.

(* A `first` strategy that hands its requests the CALLER's context instead (the requests are no
   longer cancelled when the first answer arrives or the deadline passes): one node answers, the
   other never does but would return at once if told to; the call has come back, nothing moves, the
   caller's context lives -- and the request (with its goroutine) is still there, and stays there
   under every further schedule in which the caller's context does not end and the node does not
   answer: one goroutine per call and silent node for as long as the process runs.  The same with
   the deadline instead of an answer. *)
Theorem C20_requests_caller_context_refuted :
  let s1 := rrun [RBase (Return 1 true); RBase (Send 1); RBase Recv] (rinit 2 2 1 true false [true; false] RqCaller) in
  let s2 := rrun [RBase Timeout] (rinit 2 2 1 true false [true; true] RqCaller) in
  (rquiet s1 = true /\ f_coll_done (r_f s1) = true /\ f_recvd (r_f s1) = 1 /\ r_caller_done s1 = false /\ inflight_hon s1 = 1 /\ alive s1 = 1) /\
  (rquiet s2 = true /\ f_coll_done (r_f s2) = true /\ r_caller_done s2 = false /\ inflight_hon s2 = 2 /\ alive s2 = 2) /\
  (forall sch, Forall (fun a => a <> RCallerEnd /\ forall ok, a <> RBase (Return 0 ok)) sch ->
     stat_at (rrun sch s1) 0 = Some C20_Fanout.SCall /\ r_caller_done (rrun sch s1) = false).
Proof.
  split; [|split].
  - vm_compute. repeat split; reflexivity.
  - vm_compute. repeat split; reflexivity.
  - intros sch H. apply caller_ctx_request_stays; try reflexivity. exact H.
Qed.
Print Assumptions C20_requests_caller_context_refuted.

(* ---------------------------------------------------------------------------------------------- *)
(* Non-vacuity: a history satisfying every condition at once, with a skipped epoch, a failed
   attestation, a reorg refresh that withdraws a job, a silent epoch without head events, messages,
   an aggregation and auctions; the bounds hold and are met with equality for attested. *)
Example C20_history_example :
  let h := [OSubscribe 0 1 true; OSched 0 false [1; 2; 3]; OStart 1; OFinish 1 true; OHead 1 1;
            OMessage 1 true; OAggregate 1; OAuction 2;
            OStart 2; OFinish 2 false; ORefresh 3 0 (Some []) true;
            OSched 12 false [13]; OStart 13; OFinish 13 true; OHead 13 13; OMessage 13 true; OAuction 13] in
  guarded 4 true starts_ok h init = true /\ guarded 4 true (resched_ok 4) h init = true /\
  guarded 4 true (gand time_ok (subs_ok 4)) h init = true /\ guarded 4 true msgs_ok h init = true /\
  guarded 4 true aucs_ok h init = true /\
  sizes (run 4 true h init) = [1; 0; 0; 0; 0; 1; 2; 2].
Proof. vm_compute. repeat split; reflexivity. Qed.

Example C20_scheduler_example :
  let s := jrun [JSchedule 1 10; JSchedule 2 20; JSchedule 1 5; JAdvance 10; JRun 2; JSchedule 3 0; JSchedule 4 7; JCancel 4; JSchedule 5 9] jinit in
  j_tab s = [(5, 19)] /\ j_runs s = [3; 2; 1] /\ j_now s = 10.
Proof. vm_compute. auto. Qed.

Example C20_fanout_example :
  let s := scenario 3 3 1 true false [FRelease 1 true; FRelease 0 true; FRelease 2 false] in
  final s = true /\ blocked s = 0 /\ f_recvd s = 1 /\ f_succ s = 2.
Proof. vm_compute. auto. Qed.

Example C20_unblind_all_fail_example :
  let s := scenario 2 2 1 false true [FRelease 0 false; FRelease 1 false] in
  final s = true /\ f_coll_done s = true /\ f_recvd s = 0.
Proof. vm_compute. auto. Qed.

(* non-vacuity of the set-up family: the condition admits the schedules in which the job runs to its
   end, or is cancelled and set up again, while its set-up goroutine is parked behind ScheduleJob *)
Example C20_setup_example :
  let l1 := [SBegin; SCall; SStart; SFinish; SResume] in
  let l2 := [SBegin; SCall; SCancel; SBegin; SCall; SResume; SStart; SResume; SFinish] in
  sguarded false l1 sinit = true /\ srun false l1 sinit = sinit /\
  sguarded false l2 sinit = true /\ srun false l2 sinit = sinit /\
  s_mark (srun false [SBegin; SCall; SStart] sinit) = true.
Proof. vm_compute. auto. Qed.

(* non-vacuity of the request family: the scenario the harness runs (one node answers, one never
   does and honours its context, one ignores it and answers late) is a quiet state with the call
   back after every event, for the strategies (nothing left in flight) and, with the caller's
   context, for unblinding (the silent relay stays until the caller's context ends) *)
Example C20_requests_example :
  let evs := [RvRelease 1 true; RvRelease 2 false] in
  let s := rscenario (rinit 3 3 1 true false [true; false; false] RqCall) evs in
  let u := rscenario (rinit 3 3 1 false true [true; false; false] RqCaller) evs in
  rquiet s = true /\ f_coll_done (r_f s) = true /\ inflight_hon s = 0 /\ alive s = 0 /\
  rquiet u = true /\ f_coll_done (r_f u) = true /\ inflight_hon u = 1 /\
  inflight_hon (rev_apply u RvCallerEnd) = 0 /\ alive (rev_apply u RvCallerEnd) = 0.
Proof. vm_compute. repeat split; reflexivity. Qed.
