(* C18 — tie of the cleaning threshold to the source by translation: the statements
   "safetyMargin := ..." to "minSlot := ..." of cleanBlockRootToSlot
   (services/cache/standard/blockroottoslot.go), with chaintime's FirstSlotOfEpoch, are transcribed
   by gotrans on every run (None = the early return while currentEpoch <= 64); the model's guard and
   [min_slot], about which C18_clean_only_old is proved, are the same. *)
From Coq Require Import ZArith NArith.
From Verif Require Import Lib.Base Lib.GoInt Gen.Pure_C03 Gen.Pure_C18 Model.C18_Cache Proofs.TieLib Proofs.Tie_C18.

Theorem C18_tie_clean_threshold : forall (cur_epoch spe : N),
  nu64 cur_epoch ->
  cache_cleanThreshold (Z.of_N cur_epoch) (Z.of_N spe) =
  if (cur_epoch <=? retention)%N then None else Some (Z.of_N (min_slot cur_epoch spe)).
Proof. exact tie_clean_threshold. Qed.
Print Assumptions C18_tie_clean_threshold.

Example C18_tie_example :
  cache_cleanThreshold 64 32 = None /\ cache_cleanThreshold 65 32 = Some 32%Z /\ cache_cleanThreshold 1000 32 = Some 29952%Z.
Proof. vm_compute. repeat split. Qed.
