(* C10: the check's boolean predicates imply the property's relations on the observed values. *)
From Verif Require Import Lib.Base Model.C10_ExecConfig Model.C10_Service Proofs.C10 Proofs.C10_Service Check.C10.
From Coq Require Import Permutation.
Local Open Scope list_scope.

Definition outcome_equiv (a b : outcome) : Prop :=
  match a, b with
  | OOk p, OOk q => prop_cfg_equiv p q
  | OErr, OErr => True
  | OPanic, OPanic => True
  | _, _ => False
  end.

Lemma dec_eqb_eq : forall a b, dec_eqb a b = true -> a = b.
Proof.
  intros [m e] [m' e'] H. unfold dec_eqb in H. cbn [fst snd] in H.
  apply andb_true_iff in H as [H1 H2]. apply N.eqb_eq in H1. apply Z.eqb_eq in H2. congruence.
Qed.

Lemma relay_cfg_eqb_eq : forall a b, relay_cfg_eqb a b = true -> a = b.
Proof.
  intros [a1 a2 a3 a4 a5 a6] [b1 b2 b3 b4 b5 b6] H. unfold relay_cfg_eqb in H.
  cbn [rc_addr rc_pk rc_fee rc_gas rc_grace rc_min] in H.
  repeat (apply andb_true_iff in H as [H ?]).
  repeat match goal with
         | E : (_ =? _) = true |- _ => apply N.eqb_eq in E
         | E : dec_eqb _ _ = true |- _ => apply dec_eqb_eq in E
         | E : optN_eqb _ _ = true |- _ => apply (option_eqb_spec N.eqb N.eqb_eq) in E
         end.
  congruence.
Qed.

Lemma insert_by_perm {A} (key : A -> N) : forall x l, Permutation (insert_by key x l) (x :: l).
Proof.
  intros x l. induction l as [|y l IH]; cbn; [reflexivity|].
  destruct (key x <=? key y); [reflexivity|].
  eapply perm_trans; [apply perm_skip, IH | apply perm_swap].
Qed.

Lemma sort_by_perm {A} (key : A -> N) : forall l, Permutation (sort_by key l) l.
Proof.
  induction l as [|x l IH]; cbn; [reflexivity|].
  eapply perm_trans; [apply insert_by_perm | apply perm_skip, IH].
Qed.

Lemma list_eqb_eq {A} (eqb : A -> A -> bool) :
  (forall x y, eqb x y = true -> x = y) -> forall l1 l2, list_eqb eqb l1 l2 = true -> l1 = l2.
Proof.
  intros He. induction l1 as [|x l1 IH]; destruct l2 as [|y l2]; cbn; intro H; try discriminate; [reflexivity|].
  apply andb_true_iff in H as [H1 H2]. rewrite (He _ _ H1), (IH _ H2). reflexivity.
Qed.

Lemma prop_cfg_eqb_sound : forall a b, prop_cfg_eqb a b = true -> prop_cfg_equiv a b.
Proof.
  intros a b H. unfold prop_cfg_eqb in H. apply andb_true_iff in H as [H1 H2].
  apply N.eqb_eq in H1. apply (list_eqb_eq _ relay_cfg_eqb_eq) in H2. split; [exact H1|].
  eapply perm_trans; [apply Permutation_sym, (sort_by_perm rc_addr)|]. rewrite H2. apply sort_by_perm.
Qed.

Lemma outcome_eqb_sound : forall a b, outcome_eqb a b = true -> outcome_equiv a b.
Proof.
  intros [p| |] [q| |] H; cbn in *; try discriminate; try exact I. apply prop_cfg_eqb_sound, H.
Qed.

Lemma outcomes_eqb_sound : forall l1 l2, list_eqb outcome_eqb l1 l2 = true -> Forall2 outcome_equiv l1 l2.
Proof.
  induction l1 as [|x l1 IH]; destruct l2 as [|y l2]; cbn; intro H; try discriminate; [constructor|].
  apply andb_true_iff in H as [H1 H2]. constructor; [apply outcome_eqb_sound, H1 | apply IH, H2].
Qed.

(* What P_b = true says about a case, in terms of the documented precedence only. *)
Definition case_ok_with (spec : config -> validator -> N -> N -> outcome) (c : case) : Prop :=
  match unmarshal (c_doc c) with
  | None => c_ok1 c = false                               (* a document without meaning is refused *)
  | Some cfg =>
      c_ok1 c = true /\
      Forall2 outcome_equiv (map (fun v => spec cfg v (c_fbfee c) (c_fbgas c)) (c_vals c)) (c_out1 c) /\
      Forall2 outcome_equiv (c_out1 c) (c_shown c) /\
      c_ok2 c = true /\
      Forall2 outcome_equiv (c_out1 c) (c_out2 c) /\
      (exists j cfg', c_marshalled c = Some j /\ unmarshal j = Some cfg' /\ config_eqb cfg cfg' = true)
  end.

(* ... and about its history on one service instance: every lookup got what the precedence gives
   for its own arguments under the last accepted document *)
Definition hist_ok_with (spec : config -> validator -> N -> N -> outcome) (c : case) : Prop :=
  Forall2 outcome_equiv (svc_spec_run spec [] None (c_ops c) (c_fbfee c) (c_fbgas c)) (c_hist c).

Definition case_ok (c : case) : Prop :=
  if c_v1_per_value c then case_ok_with resolve_doc c /\ hist_ok_with resolve_doc c
  else case_ok_with resolve c /\ hist_ok_with resolve c.

Lemma P_with_sound : forall spec c, P_with spec c = true -> case_ok_with spec c.
Proof.
  intros spec c H. unfold P_with in H. unfold case_ok_with. destruct (unmarshal (c_doc c)) as [cfg|].
  - repeat (apply andb_true_iff in H as [H ?]).
    match goal with E : same_meaning _ _ = true |- _ => rename E into Hm end.
    unfold same_meaning in Hm.
    destruct (c_marshalled c) as [j|]; [|discriminate].
    destruct (unmarshal j) as [cfg'|] eqn:Ej; [|discriminate].
    repeat split; try assumption; try (apply outcomes_eqb_sound; assumption).
    exists j, cfg'. repeat split; assumption.
  - apply negb_true_iff, H.
Qed.

Lemma P_b_sound : forall c, P_b c = true -> case_ok c.
Proof.
  intros c H. unfold P_b in H. unfold case_ok.
  destruct (c_v1_per_value c); apply andb_true_iff in H as [H1 H2];
    (split; [apply P_with_sound, H1 | apply outcomes_eqb_sound, H2]).
Qed.

(* the well-formedness test of [agree] is the hypothesis of the theorems *)
Lemma wf_config_b_sound : forall c, wf_config_b c = true -> wf_config c.
Proof.
  intros [c1|c2] H; cbn in *.
  - apply nodupb_sound, H.
  - apply andb_true_iff in H as [H1 H2]. split; [apply nodupb_sound, H1|].
    apply Forall_forall. intros p Hp. rewrite forallb_forall in H2. apply nodupb_sound, H2, Hp.
Qed.

(* on a case where the model agrees with the implementation, the theorems apply to the parsed
   configuration: what the model computes for it is the documented precedence *)
Lemma agree_wf : forall c cfg, agree c = true -> unmarshal (c_doc c) = Some cfg ->
  wf_config cfg /\ forall v, lookup cfg v (c_fbfee c) (c_fbgas c) = resolve cfg v (c_fbfee c) (c_fbgas c).
Proof.
  intros c cfg H E. unfold agree in H. apply andb_true_iff in H as [H _]. unfold agree_doc in H. rewrite E in H.
  apply andb_true_iff in H as [H _]. apply andb_true_iff in H as [H _].
  apply andb_true_iff in H as [_ H]. apply wf_config_b_sound in H.
  split; [exact H|]. intro v. apply lookup_is_resolve, H.
Qed.

(* the same for the history: where [agree] holds, every document a refresh accepted has key-unique
   relay maps, so C10_service_history applies to the history of the case *)
Lemma op_wf_b_sound : forall o, op_wf_b o = true -> op_wf o.
Proof.
  intros [a v|[j|]] H; cbn in *; try exact I.
  intros cfg E. rewrite E in H. apply wf_config_b_sound, H.
Qed.

Lemma agree_hist_wf : forall c, agree c = true ->
  Forall op_wf (c_ops c) /\
  Forall2 outcome_equiv
    (svc_spec_run resolve [] None (c_ops c) (c_fbfee c) (c_fbgas c)) (c_hist c).
Proof.
  intros c H. unfold agree in H. apply andb_true_iff in H as [_ H]. unfold hist_agree in H.
  apply andb_true_iff in H as [H1 H2].
  assert (Hwf : Forall op_wf (c_ops c)).
  { apply Forall_forall. intros o Ho. rewrite forallb_forall in H2. apply op_wf_b_sound, H2, Ho. }
  split; [exact Hwf|].
  rewrite <- (svc_run_is_spec (c_ops c) [] None (c_fbfee c) (c_fbgas c) I Hwf).
  apply outcomes_eqb_sound, H1.
Qed.
