(* C03: the decisions of the controller model (Model/C03_Controller.v) equal the gotrans transcription
   of the corresponding conditions, statement fragments and the whole of checkEventForReorg
   (coq/Gen/Pure_C03c.v, regenerated from services/controller/standard/{attester,proposer,service,events}.go
   and util/epoch.go on every run). *)
From Coq Require Import ZArith NArith Lia Bool List.
From Coq Require Import ZifyBool ZifyN.
From Verif Require Import Lib.Base Lib.GoInt Proofs.TieLib Gen.Pure_C03 Gen.Pure_C03c.
From Verif Require Import Model.C03_ChainTime Model.C03_Controller Proofs.Tie_C03.
Local Open Scope Z_scope.

Lemma nu64_1 : nu64 1%N.
Proof. unfold nu64, Base.two64. lia. Qed.

Lemma nu64_5 : nu64 5%N.
Proof. unfold nu64, Base.two64. lia. Qed.

Lemma tie_epoch_bounds (c : config) (epoch : N) :
  controller_attEpochBounds (Z.of_N epoch) (Z.of_N (ct_spe (c_ct c))) =
  (Z.of_N (first_slot_of_epoch (c_ct c) epoch),
   Z.of_N (sub64 (first_slot_of_epoch (c_ct c) (add64 epoch 1)) 1)).
Proof.
  unfold controller_attEpochBounds.
  assert (Hn : nu64 (first_slot_of_epoch (c_ct c) (add64 epoch 1)))
    by (unfold first_slot_of_epoch; apply nu64_mul64).
  rewrite (of_N_sub64 (first_slot_of_epoch (c_ct c) (add64 epoch 1)) 1%N Hn nu64_1).
  rewrite !tie_first_slot_of_epoch. rewrite of_N_add64. reflexivity.
Qed.

Lemma tie_in_epoch_att (c : config) (epoch slot : N) :
  in_epoch c epoch slot =
  (let '(f, l) := controller_attEpochBounds (Z.of_N epoch) (Z.of_N (ct_spe (c_ct c))) in
   negb (controller_attOutsideEpoch f l (Z.of_N slot))).
Proof.
  rewrite tie_epoch_bounds. unfold in_epoch, controller_attOutsideEpoch.
  rewrite of_N_ltb, of_N_gtb. reflexivity.
Qed.

Lemma prop_bounds_are_att_bounds e s : controller_propEpochBounds e s = controller_attEpochBounds e s.
Proof. reflexivity. Qed.

Lemma tie_in_epoch_prop (c : config) (epoch slot : N) :
  in_epoch c epoch slot =
  (let '(f, l) := controller_propEpochBounds (Z.of_N epoch) (Z.of_N (ct_spe (c_ct c))) in
   negb (controller_propOutsideEpoch f l (Z.of_N slot))).
Proof.
  rewrite prop_bounds_are_att_bounds, tie_epoch_bounds. unfold in_epoch, controller_propOutsideEpoch.
  rewrite of_N_ltb, of_N_gtb. reflexivity.
Qed.

Lemma tie_due_att (cur : N) (notcur : bool) (slot : N) :
  due cur notcur slot =
  negb (controller_attPastSlot (Z.of_N cur) (Z.of_N slot)) &&
  negb (controller_attCurrentSlotExcluded (Z.of_N cur) notcur (Z.of_N slot)).
Proof.
  unfold due, controller_attPastSlot, controller_attCurrentSlotExcluded.
  rewrite of_N_ltb, of_N_eqb. reflexivity.
Qed.

Lemma tie_due_prop (cur : N) (notcur : bool) (slot : N) :
  due cur notcur slot =
  negb (controller_propPastSlot (Z.of_N cur) (Z.of_N slot)) &&
  negb (controller_propCurrentSlotExcluded (Z.of_N cur) notcur (Z.of_N slot)).
Proof.
  unfold due, controller_propPastSlot, controller_propCurrentSlotExcluded.
  rewrite of_N_ltb, of_N_eqb. reflexivity.
Qed.

(* the once-per-epoch guard of epochTicker; util.EpochToInt64 panics from 2^63 on *)
Lemma tie_tick_guard (ce : N) (tick : Z) :
  Z.of_N ce < two63 ->
  (Z.of_N ce <=? tick) = controller_tickAlreadyRan (Z.of_N ce) tick.
Proof.
  intro H. unfold controller_tickAlreadyRan, util_EpochToInt64.
  rewrite i64_id by (unfold in_i64, two63 in *; lia). lia.
Qed.

Lemma tie_tick_at_altair (ce ae : N) :
  (ce =? ae)%N = controller_tickAtAltairFork (Z.of_N ae) (Z.of_N ce).
Proof. unfold controller_tickAtAltairFork. rewrite of_N_eqb. reflexivity. Qed.

Lemma tie_tick_sync_prep (ce period : N) :
  nu64 period -> period <> 0%N ->
  (ce mod period =? sub64 period 5)%N = controller_tickSyncPrepDue (Z.of_N period) (Z.of_N ce).
Proof.
  intros Hp H0. unfold controller_tickSyncPrepDue.
  change 5 with (Z.of_N 5%N). rewrite <- (of_N_sub64 period 5%N Hp nu64_5).
  rewrite <- N2Z.inj_mod. apply eq_sym, of_N_eqb.
Qed.

Lemma tie_next_period_near_start (next ce : N) :
  nu64 next -> nu64 ce ->
  (sub64 next ce <=? 5)%N = controller_startNextPeriodNear (Z.of_N next) (Z.of_N ce).
Proof.
  intros Hn Hc. unfold controller_startNextPeriodNear.
  rewrite <- (of_N_sub64 next ce Hn Hc). change 5 with (Z.of_N 5%N). apply eq_sym, of_N_leb.
Qed.

Lemma tie_altair_next_period (ae period : N) :
  Z.of_N (mul64 (add64 (ae / period) 1) period) = controller_altairNextPeriodEpoch (Z.of_N period) (Z.of_N ae).
Proof.
  unfold controller_altairNextPeriodEpoch.
  rewrite of_N_mul64, of_N_add64, N2Z.inj_div. reflexivity.
Qed.

Lemma tie_altair_next_period_near (next ae : N) :
  nu64 next -> nu64 ae ->
  (sub64 next ae <=? 5)%N = controller_altairNextPeriodNear (Z.of_N ae) (Z.of_N next).
Proof.
  intros Hn Ha. unfold controller_altairNextPeriodNear.
  rewrite <- (of_N_sub64 next ae Hn Ha). change 5 with (Z.of_N 5%N). apply eq_sym, of_N_leb.
Qed.

Lemma tie_head_not_current (slot cur : N) :
  negb (slot =? cur)%N = controller_headNotCurrentSlot (Z.of_N cur) (Z.of_N slot).
Proof. unfold controller_headNotCurrentSlot. rewrite of_N_eqb. reflexivity. Qed.

(* checkEventForReorg, whole body: which of the two handlers the event starts, and the epoch stored *)
Lemma tie_reorg_decide (last ps cs epoch prev cur_root : N) :
  controller_checkEventForReorg (Z.of_N last) (Z.of_N epoch) false false
    (cs =? cur_root)%N (cs =? prev)%N (cs =? 0)%N (ps =? prev)%N (ps =? 0)%N =
  (fst (reorg_decide last ps cs epoch prev cur_root), snd (reorg_decide last ps cs epoch prev cur_root), Z.of_N epoch).
Proof.
  unfold controller_checkEventForReorg, reorg_decide.
  rewrite of_N_eqb0, of_N_gtb.
  destruct (last =? 0)%N; cbn [negb]; [reflexivity|].
  destruct (last <? epoch)%N;
  destruct (ps =? 0)%N, (cs =? prev)%N, (ps =? prev)%N, (cs =? 0)%N, (cs =? cur_root)%N; reflexivity.
Qed.
