(* C07 lemmas, part 3: the timed layer.  Sorting, groups of simultaneous events, every order the
   fake clock allows; the instant of return. *)
From Verif Require Import Lib.Base Model.C07_Strategies Model.C07_Spec Proofs.C07 Proofs.C07_Acc.
From Coq Require Import ZifyBool ZifyN ZifyNat Permutation Sorting.Sorted QArith.
Open Scope N_scope.

(* ------------------------------------------------------------------------------------------- *)
(* sort_by *)

Section SortBy.
  Context {A : Type} (key : A -> N).
  Definition ksorted (l : list A) : Prop := StronglySorted (fun a b => key a <= key b) l.

  Lemma insert_by_perm : forall x l, Permutation (insert_by key x l) (x :: l).
  Proof.
    induction l as [|y l IH]; cbn; [reflexivity|].
    destruct (key x <=? key y); [reflexivity|].
    rewrite IH. apply perm_swap.
  Qed.

  Lemma sort_by_perm : forall l, Permutation (sort_by key l) l.
  Proof.
    induction l as [|x l IH]; cbn; [reflexivity|].
    rewrite insert_by_perm. constructor. exact IH.
  Qed.

  Lemma insert_by_sorted : forall x l, ksorted l -> ksorted (insert_by key x l).
  Proof.
    induction l as [|y l IH]; intro H; cbn.
    - constructor; constructor.
    - inversion H as [|? ? Hs Hf]; subst. destruct (N.leb_spec (key x) (key y)) as [Q|Q].
      + constructor; [exact H|]. constructor; [exact Q|].
        eapply Forall_impl; [|exact Hf]. cbn. intros a Ha. lia.
      + constructor; [apply IH; exact Hs|].
        apply (Permutation_Forall (Permutation_sym (insert_by_perm x l))).
        constructor; [lia | exact Hf].
  Qed.

  Lemma sort_by_sorted : forall l, ksorted (sort_by key l).
  Proof. induction l as [|x l IH]; cbn; [constructor | apply insert_by_sorted; exact IH]. Qed.

  Lemma ksorted_map : forall l, ksorted l <-> StronglySorted N.le (map key l).
  Proof.
    induction l as [|x l IH]; cbn; split; intro H; try constructor; inversion H; subst.
    - apply IH; assumption.
    - apply Forall_map. assumption.
    - apply IH; assumption.
    - apply Forall_map. assumption.
  Qed.

  Lemma ksorted_same_keys : forall l l', map key l' = map key l -> ksorted l -> ksorted l'.
  Proof. intros l l' H. rewrite !ksorted_map, H. tauto. Qed.

  Lemma ksorted_split : forall pre x post, ksorted (pre ++ x :: post) ->
    Forall (fun y => key y <= key x) pre /\ Forall (fun y => key x <= key y) post.
  Proof.
    induction pre as [|y pre IH]; intros x post H; cbn in H; inversion H as [|? ? Hs Hf]; subst.
    - split; [constructor | exact Hf].
    - destruct (IH x post Hs) as [H1 H2]. split; [|exact H2]. constructor; [|exact H1].
      rewrite Forall_forall in Hf. apply Hf. apply in_or_app. right; left; reflexivity.
  Qed.
End SortBy.

(* ------------------------------------------------------------------------------------------- *)
(* all orders of the simultaneous events *)

Lemma insert_all_perm : forall {A} (x : A) l l', In l' (insert_all x l) -> Permutation l' (x :: l).
Proof.
  intros A x. induction l as [|y l IH]; intros l' H; cbn in H.
  - destruct H as [<-|[]]. reflexivity.
  - destruct H as [<-|H]; [reflexivity|]. apply in_map_iff in H as [m [<- Hm]].
    rewrite (IH m Hm). apply perm_swap.
Qed.

Lemma perms_perm : forall {A} (l p : list A), In p (perms l) -> Permutation p l.
Proof.
  intros A. induction l as [|x l IH]; intros p H; cbn in H.
  - destruct H as [<-|[]]. reflexivity.
  - apply in_flat_map in H as [q [Hq Hp]]. rewrite (insert_all_perm _ _ _ Hp). constructor. apply IH. exact Hq.
Qed.

Definition same_time (g : list tevent) : Prop := forall x y, In x g -> In y g -> fst x = fst y.

Lemma groups_concat : forall l, concat (groups l) = l.
Proof.
  induction l as [|x l IH]; [reflexivity|]. cbn [groups].
  destruct (groups l) as [|[|y g] gs]; cbn in *.
  - subst l. reflexivity.
  - rewrite IH. reflexivity.
  - destruct (fst x =? fst y); cbn; rewrite IH; reflexivity.
Qed.

Lemma groups_same_time : forall l, Forall same_time (groups l).
Proof.
  induction l as [|x l IH]; [constructor|]. cbn [groups].
  assert (S1 : same_time [x]) by (intros a b [<-|[]] [<-|[]]; reflexivity).
  destruct (groups l) as [|[|y g] gs].
  - constructor; [exact S1 | constructor].
  - constructor; [exact S1 | exact IH].
  - inversion IH as [|? ? Hg Hgs]; subst. destruct (N.eqb_spec (fst x) (fst y)) as [E|E].
    + constructor; [|exact Hgs]. intros a b [<-|Ha] [<-|Hb]; try reflexivity.
      * rewrite E. apply Hg; [left; reflexivity | exact Hb].
      * rewrite E. apply Hg; [exact Ha | left; reflexivity].
      * apply Hg; assumption.
    + constructor; [exact S1 | exact IH].
Qed.

Lemma same_time_perm_keys : forall g p, same_time g -> Permutation p g -> map fst p = map fst g.
Proof.
  intros g p Hs Hp.
  assert (G : forall c (l : list tevent), (forall x, In x l -> fst x = c) -> map fst l = repeat c (length l)).
  { intros c. induction l as [|x l IH]; intro H; [reflexivity|]. cbn. rewrite (H x) by (left; reflexivity).
    f_equal. apply IH. intros y Hy. apply H. right; exact Hy. }
  destruct g as [|x0 g].
  - apply Permutation_sym, Permutation_nil in Hp. subst p. reflexivity.
  - rewrite (G (fst x0) (x0 :: g)) by (intros x Hx; apply Hs; [exact Hx | left; reflexivity]).
    rewrite (G (fst x0) p).
    + rewrite (Permutation_length Hp). reflexivity.
    + intros x Hx. apply Hs; [apply (Permutation_in _ Hp); exact Hx | left; reflexivity].
Qed.

Lemma schedules_of_spec : forall gs sch, Forall same_time gs -> In sch (schedules_of gs) ->
  Permutation sch (concat gs) /\ map fst sch = map fst (concat gs).
Proof.
  induction gs as [|g gs IH]; intros sch Hs H; cbn in H.
  - destruct H as [<-|[]]. split; reflexivity.
  - inversion Hs as [|? ? Hg Hgs]; subst.
    apply in_flat_map in H as [p [Hp H]]. apply in_map_iff in H as [s' [<- Hs']].
    destruct (IH s' Hgs Hs') as [P1 P2]. apply perms_perm in Hp. cbn [concat]. split.
    + apply Permutation_app; assumption.
    + rewrite !map_app. f_equal; [apply same_time_perm_keys; assumption | exact P2].
Qed.

Lemma schedules_spec : forall l sch, In sch (schedules l) -> Permutation sch l /\ map fst sch = map fst l.
Proof.
  intros l sch H. unfold schedules in H.
  destruct (schedules_of_spec _ _ (groups_same_time l) H) as [P1 P2]. rewrite groups_concat in *. auto.
Qed.

(* every schedule of a timeline is time-ordered and has exactly the timeline's events *)
Lemma timeline_schedule : forall st pr ps sch, In sch (schedules (timeline st pr ps)) ->
  ksorted (@fst N (event value)) sch
  /\ forall x, In x sch <-> In x (match template_of st with
                                  | TFirst => [(p_timeout pr, EHard)]
                                  | _ => [(p_timeout pr / 2, ESoft); (p_timeout pr, EHard)]
                                  end ++ flat_map (deliver st pr) ps).
Proof.
  intros st pr ps sch H. apply schedules_spec in H as [P1 P2]. split.
  - apply (ksorted_same_keys _ _ _ P2). apply sort_by_sorted.
  - intro x. unfold timeline in P1. rewrite sort_by_perm in P1. split; intro Hx.
    + apply (Permutation_in _ P1). exact Hx.
    + apply (Permutation_in _ (Permutation_sym P1)). exact Hx.
Qed.

(* ------------------------------------------------------------------------------------------- *)
(* trun: the state is the untimed fold; the instant is that of the event that finished it *)

Section TimedLemmas.
  Context {S : Type}.
  Variable step : S -> event value -> S.
  Variable finished : S -> bool.
  Hypothesis absorbing : forall s e, finished s = true -> step s e = s.

  Notation tstep := (tstep step finished).

  Lemma fold_finished : forall es s, finished s = true -> fold_left step es s = s.
  Proof. induction es as [|e es IH]; intros s H; cbn; [reflexivity | rewrite absorbing by exact H; apply IH; exact H]. Qed.

  Lemma trun_finished : forall tes s t, finished s = true -> fold_left tstep tes (s, t) = (s, t).
  Proof.
    induction tes as [|te tes IH]; intros s t H; cbn [fold_left]; [reflexivity|].
    assert (E : tstep (s, t) te = (s, t)).
    { unfold C07_Strategies.tstep. cbn [fst]. rewrite H. reflexivity. }
    rewrite E. apply IH. exact H.
  Qed.

  Lemma trun_cases : forall tes s t, finished s = false ->
    let r := fold_left tstep tes (s, t) in
    (finished (fst r) = false /\ fst r = fold_left step (map snd tes) s)
    \/ (exists pre te post, tes = pre ++ te :: post
          /\ finished (fold_left step (map snd pre) s) = false
          /\ fst r = fold_left step (map snd (pre ++ [te])) s
          /\ finished (fst r) = true /\ snd r = fst te).
  Proof.
    induction tes as [|te tes IH]; intros s t Hf; cbn [fold_left map].
    - left. cbn. auto.
    - assert (E : tstep (s, t) te = (step s (snd te), fst te)).
      { unfold C07_Strategies.tstep. cbn [fst snd]. rewrite Hf. reflexivity. }
      rewrite E. clear E.
      destruct (finished (step s (snd te))) eqn:Hf'.
      + right. exists [], te, tes. rewrite trun_finished by exact Hf'. cbn. auto.
      + destruct (IH (step s (snd te)) (fst te) Hf') as [[H1 H2] | [pre [te' [post (H1 & H2 & H3 & H4 & H5)]]]].
        * left. auto.
        * right. exists (te :: pre), te', post. subst tes. cbn. auto.
  Qed.

  (* whoever finishes at the hard-timeout event at the latest returns within the timeout *)
  Lemma trun_within : forall T tes s0,
    (forall es, In EHard es -> finished (fold_left step es s0) = true) ->
    ksorted (@fst N (event value)) tes -> In (T, EHard) tes ->
    finished (fst (trun step finished s0 tes)) = true /\ snd (trun step finished s0 tes) <= T.
  Proof.
    intros T tes s0 Hhard Hsorted Hin. unfold trun.
    destruct (finished s0) eqn:Hf0.
    - rewrite trun_finished by exact Hf0. cbn. split; [exact Hf0 | lia].
    - destruct (trun_cases tes s0 0 Hf0) as [[H1 H2] | [pre [te [post (H1 & H2 & H3 & H4 & H5)]]]].
      + exfalso. rewrite H2 in H1. rewrite Hhard in H1; [discriminate|].
        apply in_map_iff. exists (T, EHard). auto.
      + split; [exact H4|]. rewrite H5. subst tes.
        apply in_app_or in Hin as [Hin|[->|Hin]].
        * exfalso. rewrite Hhard in H2; [discriminate|]. apply in_map_iff. exists (T, EHard). auto.
        * cbn. lia.
        * apply ksorted_split in Hsorted as [_ Hpost]. rewrite Forall_forall in Hpost.
          apply Hpost in Hin. cbn in Hin. exact Hin.
  Qed.
End TimedLemmas.

Section TimedFst.
  Context {S : Type}.
  Variable step : S -> event value -> S.
  Variable finished : S -> bool.
  Hypothesis absorbing : forall s e, finished s = true -> step s e = s.

  Lemma trun_fst_from : forall tes s t,
    fst (fold_left (tstep step finished) tes (s, t)) = fold_left step (map snd tes) s.
  Proof.
    induction tes as [|te tes IH]; intros s t; [reflexivity|]. cbn [fold_left map].
    unfold tstep at 2. cbn [fst snd]. destruct (finished s) eqn:Hf.
    - rewrite IH. rewrite (absorbing s (snd te) Hf). reflexivity.
    - apply IH.
  Qed.

  Lemma trun_fst : forall tes s0, fst (trun step finished s0 tes) = fold_left step (map snd tes) s0.
  Proof. intros. apply trun_fst_from. Qed.
End TimedFst.

(* ------------------------------------------------------------------------------------------- *)
(* what the events of a schedule are *)

Lemma deliver_resp : forall st pr p0 t p v, In (t, EResp p v) (deliver st pr p0) ->
  pv_beh p0 = BRespond v /\ accepts st pr (v_raw v) = true /\ t = pv_time p0 /\ p = pv_id p0
  /\ ((pv_time p0 <=? p_timeout pr) || pv_deaf p0 = true).
Proof.
  intros st pr p0 t p v H. unfold deliver in H. destruct (pv_beh p0) as [w| |].
  - destruct ((pv_time p0 <=? p_timeout pr) || pv_deaf p0) eqn:E.
    + destruct (accepts st pr (v_raw w)) eqn:Ea; destruct H as [H|[]]; inversion H; subst. auto.
    + destruct H as [H|[]]; inversion H.
  - destruct ((pv_time p0 <=? p_timeout pr) || pv_deaf p0); destruct H as [H|[]]; inversion H.
  - destruct H as [H|[]]; inversion H.
Qed.

Lemma resp_deliver : forall st pr p0 v,
  pv_beh p0 = BRespond v -> accepts st pr (v_raw v) = true ->
  (pv_time p0 <=? p_timeout pr) || pv_deaf p0 = true ->
  In (pv_time p0, EResp (pv_id p0) v) (deliver st pr p0).
Proof. intros st pr p0 v Hb Ha Hg. unfold deliver. rewrite Hb, Hg, Ha. left. reflexivity. Qed.

Lemma sch_hard : forall st pr ps sch, In sch (schedules (timeline st pr ps)) -> In (p_timeout pr, EHard) sch.
Proof.
  intros st pr ps sch H. apply (timeline_schedule st pr ps sch H). apply in_or_app. left.
  destruct (template_of st); cbn; auto.
Qed.

Lemma sch_resp : forall st pr ps sch t p v,
  In sch (schedules (timeline st pr ps)) -> In (t, EResp p v) sch ->
  exists p0, In p0 ps /\ pv_beh p0 = BRespond v /\ accepts st pr (v_raw v) = true /\ t = pv_time p0
             /\ ((pv_time p0 <=? p_timeout pr) || pv_deaf p0 = true).
Proof.
  intros st pr ps sch t p v Hs Hin. apply (timeline_schedule st pr ps sch Hs) in Hin.
  apply in_app_or in Hin as [Hin|Hin].
  - exfalso. destruct (template_of st); cbn in Hin; intuition discriminate.
  - apply in_flat_map in Hin as [p0 [Hp0 Hin]]. apply deliver_resp in Hin. exists p0. tauto.
Qed.

Lemma resp_sch : forall st pr ps sch p0 v,
  In sch (schedules (timeline st pr ps)) -> In p0 ps ->
  pv_beh p0 = BRespond v -> accepts st pr (v_raw v) = true ->
  (pv_time p0 <=? p_timeout pr) || pv_deaf p0 = true ->
  In (pv_time p0, EResp (pv_id p0) v) sch.
Proof.
  intros st pr ps sch p0 v Hs Hp0 Hb Ha Hg. apply (timeline_schedule st pr ps sch Hs).
  apply in_or_app. right. apply in_flat_map. exists p0. split; [exact Hp0 | apply resp_deliver; assumption].
Qed.

Lemma in_resps_map : forall (tes : list tevent) v, In v (resps (map snd tes)) -> exists t p, In (t, EResp p v) tes.
Proof.
  intros tes v H. apply in_resps in H as [p H]. apply in_map_iff in H as [[t e] [He Hin]]. cbn in He. subst e.
  exists t, p. exact Hin.
Qed.

Lemma result_of_not_hang : forall o, result_of o <> RHang.
Proof. intros [v|]; cbn; [destruct (is_nil (v_raw v))|]; discriminate. Qed.

Lemma result_of_val : forall o id, result_of o = RVal id -> exists v, o = Some v /\ v_id v = id /\ is_nil (v_raw v) = false.
Proof.
  intros [v|] id H; cbn in H; [|discriminate]. destruct (is_nil (v_raw v)) eqn:E; [discriminate|].
  injection H as <-. exists v. auto.
Qed.

Lemma phase_eqb_done : forall ph, phase_eqb ph Done = true <-> ph = Done.
Proof. intros [| |]; cbn; split; congruence. Qed.

Lemma in_hard_b : forall {V A} (acc : A -> V -> A) early requests a0 es, (0 <= requests)%Z -> In EHard es ->
  b_phase (brun acc early requests a0 es) = Done.
Proof.
  intros V A acc early requests a0 es Hr Hin. apply in_split in Hin as [es1 [es2 ->]].
  apply b_hard_done. exact Hr.
Qed.

Lemma in_hard_m : forall {V A} (acc : A -> V -> A) early requests a0 es, (0 <= requests)%Z -> In EHard es ->
  m_phase (mrun acc early requests a0 es) = Done.
Proof.
  intros V A acc early requests a0 es Hr Hin. apply in_split in Hin as [es1 [es2 ->]].
  apply m_hard_done. exact Hr.
Qed.

Lemma in_hard_f : forall {V} (es : list (event V)), In EHard es -> exists r, frun es = FDone r.
Proof.
  intros V es Hin. destruct (frun es) as [|r] eqn:E; [|exists r; reflexivity].
  apply frun_wait_iff in E as [_ E]. exfalso.
  assert (G : existsb is_hard es = true) by (apply existsb_exists; exists EHard; auto). congruence.
Qed.

(* ------------------------------------------------------------------------------------------- *)
(* every outcome of every strategy: returned within the timeout, never hanging *)

Lemma outcomes_within : forall st pr ps o, In o (outcomes st pr ps) ->
  snd o <= p_timeout pr /\ fst o <> RHang.
Proof.
  intros st pr ps o H. unfold outcomes in H.
  assert (Hreq : (0 <= Z.of_nat (length ps))%Z) by lia.
  destruct (template_of st) eqn:Et.
  - (* best *)
    apply in_map_iff in H as [sch [<- Hs]].
    pose proof (sch_hard _ _ _ _ Hs) as Hh. pose proof (proj1 (timeline_schedule _ _ _ _ Hs)) as Hso.
    match goal with |- context [trun ?st ?f ?s0 sch] =>
      destruct (trun_within st f (fun s e H => bstep_done _ _ _ s e (proj1 (phase_eqb_done _) H)) (p_timeout pr) sch s0) as [H1 H2]; auto;
      [| destruct (trun st f s0 sch) as [s t] ] end.
    + intros es He. apply phase_eqb_done. apply in_hard_b; assumption.
    + cbn in *. apply phase_eqb_done in H1. rewrite H1. split; [exact H2 | apply result_of_not_hang].
  - (* attestation data majority *)
    apply in_flat_map in H as [sch [Hs H]].
    pose proof (sch_hard _ _ _ _ Hs) as Hh. pose proof (proj1 (timeline_schedule _ _ _ _ Hs)) as Hso.
    match type of H with context [trun ?st ?f ?s0 sch] =>
      destruct (trun_within st f (fun s e H => mstep_done _ _ _ s e (proj1 (phase_eqb_done _) H)) (p_timeout pr) sch s0) as [H1 H2]; auto;
      [| destruct (trun st f s0 sch) as [s t] ] end.
    + intros es He. apply phase_eqb_done. apply in_hard_m; assumption.
    + cbn in *. apply phase_eqb_done in H1. rewrite H1 in H. apply in_map_iff in H as [order [<- _]].
      split; [exact H2 | apply result_of_not_hang].
  - (* block root majority *)
    apply in_flat_map in H as [sch [Hs H]].
    pose proof (sch_hard _ _ _ _ Hs) as Hh. pose proof (proj1 (timeline_schedule _ _ _ _ Hs)) as Hso.
    match type of H with context [trun ?st ?f ?s0 sch] =>
      destruct (trun_within st f (fun s e H => bstep_done _ _ _ s e (proj1 (phase_eqb_done _) H)) (p_timeout pr) sch s0) as [H1 H2]; auto;
      [| destruct (trun st f s0 sch) as [s t] ] end.
    + intros es He. apply phase_eqb_done. apply in_hard_b; assumption.
    + cbn in *. apply phase_eqb_done in H1. rewrite H1 in H. apply in_map_iff in H as [order [<- _]].
      split; [exact H2 | apply result_of_not_hang].
  - (* first *)
    apply in_map_iff in H as [sch [<- Hs]].
    pose proof (sch_hard _ _ _ _ Hs) as Hh. pose proof (proj1 (timeline_schedule _ _ _ _ Hs)) as Hso.
    match goal with |- context [trun ?st ?f ?s0 sch] =>
      destruct (trun_within st f (fun s e H => ltac:(destruct s; [discriminate H | reflexivity])) (p_timeout pr) sch s0) as [H1 H2]; auto;
      [| destruct (trun st f s0 sch) as [s t] ] end.
    + intros es He. destruct (in_hard_f es He) as [r Hr]. unfold frun in Hr. rewrite Hr. reflexivity.
    + cbn in *. destruct s as [|r]; [discriminate|]. split; [exact H2 | apply result_of_not_hang].
Qed.
