From Coq Require Import Lia.
From Verif Require Import Lib.Base Model.C20_Setup.

(* --- no stale mark: any schedule, no condition ------------------------------------------------ *)
Definition no_stale (st : sst) : Prop :=
  s_mark st = true -> s_job st = true \/ s_run st <> O \/ s_spawned st <> O.

Lemma no_stale_step : forall st a, no_stale st -> no_stale (sstep false st a).
Proof.
  intros st a H. unfold no_stale in *. destruct st as [m j r sp sc]. cbn in *.
  destruct a; cbn.
  - intros _. right. right. discriminate.
  - destruct sp as [|k]; cbn; [exact H|]. destruct j; cbn; intros _; left; reflexivity.
  - destruct sc as [|k]; cbn; exact H.
  - destruct j; cbn; [|exact H]. intros _. right. left. discriminate.
  - destruct r as [|k]; cbn; [exact H|]. intros E; discriminate E.
  - destruct j; cbn; [|exact H]. intros E; discriminate E.
Qed.

Lemma no_stale_run : forall l st, no_stale st -> no_stale (srun false l st).
Proof.
  induction l as [|a l IH]; intros st H; [exact H|]. cbn. apply IH. apply no_stale_step. exact H.
Qed.

Lemma setup_no_stale_mark : forall l,
  let st := srun false l sinit in
  s_mark st = true -> s_job st = true \/ s_run st <> O \/ s_spawned st <> O.
Proof.
  intros l. apply (no_stale_run l sinit). unfold no_stale. cbn. intros E; discriminate E.
Qed.

(* --- exactness under the condition ------------------------------------------------------------ *)
Definition exact_inv (st : sst) : Prop :=
  (s_mark st = true <-> (s_job st = true \/ s_run st <> O \/ s_spawned st <> O)) /\
  (s_run st <> O -> s_job st = false /\ s_spawned st = O /\ s_run st = 1%nat).

Lemma exact_step : forall st a, exact_inv st -> sguard st a = true -> exact_inv (sstep false st a).
Proof.
  intros st a [Ha Hb] G. destruct st as [m j r sp sc]. cbn in *.
  destruct a; cbn in *.
  - (* SBegin *) apply Nat.eqb_eq in G. subst r. split.
    + split; intros _; [right; right; discriminate|reflexivity].
    + intros C; exfalso; apply C; reflexivity.
  - (* SCall *) destruct sp as [|k]; cbn; [split; assumption|].
    assert (Hm : m = true) by (apply Ha; right; right; discriminate).
    assert (Hr : r = O) by (destruct r; [reflexivity|]; destruct Hb as [_ [C _]]; [discriminate|discriminate C]).
    subst. destruct j; cbn; (split; [split; intros _; [left; reflexivity|reflexivity]|intros C; exfalso; apply C; reflexivity]).
  - (* SResume *) destruct sc as [|k]; cbn; split; assumption.
  - (* SStart *) apply Nat.eqb_eq in G. subst sp. destruct j; cbn; [|split; assumption].
    assert (Hm : m = true) by (apply Ha; left; reflexivity).
    assert (Hr : r = O) by (destruct r; [reflexivity|]; destruct Hb as [C _]; [discriminate|discriminate C]).
    subst. split.
    + split; intros _; [right; left; discriminate|reflexivity].
    + intros _. auto.
  - (* SFinish *) destruct r as [|k]; cbn; [split; assumption|].
    destruct Hb as [Hj [Hs Hr]]; [discriminate|]. injection Hr as Hk. subst. split.
    + split; [intros E; discriminate E|]. intros [E|[E|E]]; [discriminate E|exfalso; apply E; reflexivity|exfalso; apply E; reflexivity].
    + intros C; exfalso; apply C; reflexivity.
  - (* SCancel *) apply Nat.eqb_eq in G. subst sp. destruct j; cbn; [|split; assumption].
    assert (Hr : r = O) by (destruct r; [reflexivity|]; destruct Hb as [C _]; [discriminate|discriminate C]).
    subst. split.
    + split; [intros E; discriminate E|]. intros [E|[E|E]]; [discriminate E|exfalso; apply E; reflexivity|exfalso; apply E; reflexivity].
    + intros C; exfalso; apply C; reflexivity.
Qed.

Lemma exact_run : forall l st, exact_inv st -> sguarded false l st = true -> exact_inv (srun false l st).
Proof.
  induction l as [|a l IH]; intros st H G; [exact H|]. cbn in *.
  apply andb_true_iff in G. destruct G as [G1 G2]. apply IH; [apply exact_step; assumption|exact G2].
Qed.

Lemma exact_init : exact_inv sinit.
Proof.
  split; cbn.
  - split; [intros E; discriminate E|]. intros [E|[E|E]]; [discriminate E|exfalso; apply E; reflexivity|exfalso; apply E; reflexivity].
  - intros C; exfalso; apply C; reflexivity.
Qed.

Lemma setup_pending_exact : forall l,
  sguarded false l sinit = true ->
  let st := srun false l sinit in
  (s_mark st = true <-> (s_job st = true \/ s_run st <> O \/ s_spawned st <> O)) /\
  (s_in_flight st = true -> s_mark st = true).
Proof.
  intros l G. cbn zeta. destruct (exact_run l sinit exact_init G) as [Ha _]. split; [exact Ha|].
  intros F. apply Ha. unfold s_in_flight in F. apply orb_true_iff in F. destruct F as [F|F]; [left; exact F|].
  right; left. intros E. rewrite E in F. discriminate F.
Qed.

(* --- the late mark: stale for ever ------------------------------------------------------------ *)
Definition stale : sst := {| s_mark := true; s_job := false; s_run := 0; s_spawned := 0; s_sched := 0 |}.

Lemma stale_for_ever : forall l, has_begin l = false -> srun true l stale = stale.
Proof.
  induction l as [|a l IH]; intros H; [reflexivity|]. cbn in H. apply orb_false_iff in H. destruct H as [H1 H2].
  destruct a; try discriminate H1; cbn; apply IH; exact H2.
Qed.
