(* C09 — lemmas about the relay-auction model. *)
From Coq Require Import Permutation.
From Verif Require Import Lib.Base Model.C09_Auction.
From Coq Require Import ZifyBool ZifyN ZifyNat.
Open Scope N_scope.

(* ------------------------------------------------------------------------------------------ *)
(* The collector fold. *)

Lemma collect_snoc cfgs l x : collect cfgs (l ++ [x]) = set_bid cfgs (collect cfgs l) x.
Proof. unfold collect. rewrite fold_left_app. reflexivity. Qed.

(* What holds of the collector's state after any sequence [fw] of forwarded (relay, bid) pairs. *)
Record inv (cfgs : bconfs) (fw : list (N * bid)) (st : state) : Prop := {
  inv_none : st_win st = None ->
             st_providers st = [] /\ forall rb, In rb fw -> score cfgs (snd rb) = 0%Z;
  inv_some : forall w, st_win st = Some w ->
             p_score w = score cfgs (p_bid w) /\ p_cat w = cat_of cfgs (p_bid w) /\ p_score w <> 0%Z /\
             (forall rb, In rb fw -> score cfgs (snd rb) <> 0%Z -> (score cfgs (snd rb) <= p_score w)%Z) /\
             (exists r0 rest l1 l2,
                 st_providers st = r0 :: rest /\ fw = l1 ++ (r0, p_bid w) :: l2 /\
                 (forall rb, In rb l1 -> score cfgs (snd rb) = 0%Z \/ (score cfgs (snd rb) < p_score w)%Z)) /\
             (forall i, In i (st_providers st) -> exists b, In (i, b) fw /\ b_header b = b_header (p_bid w))
}.

Lemma inv_init cfgs : inv cfgs [] init.
Proof.
  split.
  - intros _. split; [reflexivity | intros rb []].
  - intros w H. discriminate H.
Qed.

Lemma inv_step cfgs fw st rb : inv cfgs fw st -> inv cfgs (fw ++ [rb]) (set_bid cfgs st rb).
Proof.
  intros [Hn Hs]. destruct rb as [r b]. unfold set_bid.
  destruct (score cfgs b =? 0)%Z eqn:Ez.
  - (* zero score: winner and providers untouched *)
    apply Z.eqb_eq in Ez. split; cbn [st_win st_providers].
    + intros Hw. destruct (Hn Hw) as [Hp Hall]. split; [exact Hp|].
      intros rb Hin. apply in_app_or in Hin as [Hin | [<- | []]]; [apply Hall; exact Hin | exact Ez].
    + intros w Hw. destruct (Hs w Hw) as (H1 & H2 & H3 & H4 & (r0 & rest & l1 & l2 & Hp & Hfw & Hl1) & H6).
      repeat split; try assumption.
      * intros rb Hin Hnz. apply in_app_or in Hin as [Hin | [<- | []]]; [apply H4; assumption | cbn in Hnz; congruence].
      * exists r0, rest, l1, (l2 ++ [(r, b)]). repeat split; try assumption.
        rewrite Hfw, <- app_assoc. reflexivity.
      * intros i Hi. destruct (H6 i Hi) as (b' & Hin & Hh). exists b'. split; [apply in_or_app; left; exact Hin | exact Hh].
  - apply Z.eqb_neq in Ez.
    destruct (st_win st) as [w|] eqn:Ew.
    + destruct (Hs w eq_refl) as (H1 & H2 & H3 & H4 & (r0 & rest & l1 & l2 & Hp & Hfw & Hl1) & H6).
      destruct (p_score w <? score cfgs b)%Z eqn:Elt.
      * (* strictly greater: new winner *)
        apply Z.ltb_lt in Elt. split; cbn [st_win st_providers].
        -- intros Hw; discriminate Hw.
        -- intros w' Hw'. injection Hw' as <-. cbn [p_score p_cat p_bid].
           repeat split; try reflexivity; try assumption.
           ++ intros rb Hin Hnz. apply in_app_or in Hin as [Hin | [<- | []]]; [| cbn; lia].
              specialize (H4 rb Hin Hnz). lia.
           ++ exists r, [], fw, []. repeat split; try reflexivity.
              intros rb Hin. destruct (Z.eq_dec (score cfgs (snd rb)) 0) as [E0 | N0]; [left; exact E0 | right].
              specialize (H4 rb Hin N0). lia.
           ++ intros i [<- | []]. exists b. split; [apply in_or_app; right; left; reflexivity | reflexivity].
      * apply Z.ltb_ge in Elt.
        destruct (b_header b =? b_header (p_bid w)) eqn:Eh.
        -- (* same header: additional provider *)
           apply N.eqb_eq in Eh. split; cbn [st_win st_providers].
           ++ intros Hw; congruence.
           ++ intros w' Hw'. injection Hw' as <-.
              repeat split; try assumption.
              ** intros rb Hin Hnz. apply in_app_or in Hin as [Hin | [<- | []]]; [apply H4; assumption | cbn; lia].
              ** exists r0, (rest ++ [r]), l1, (l2 ++ [(r, b)]). repeat split; try assumption.
                 --- rewrite Hp. reflexivity.
                 --- rewrite Hfw, <- app_assoc. reflexivity.
              ** intros i Hi. apply in_app_or in Hi as [Hi | [<- | []]].
                 --- destruct (H6 i Hi) as (b' & Hin & Hh). exists b'. split; [apply in_or_app; left; exact Hin | exact Hh].
                 --- exists b. split; [apply in_or_app; right; left; reflexivity | exact Eh].
        -- (* low or slow bid *)
           split; cbn [st_win st_providers].
           ++ intros Hw; congruence.
           ++ intros w' Hw'. injection Hw' as <-.
              repeat split; try assumption.
              ** intros rb Hin Hnz. apply in_app_or in Hin as [Hin | [<- | []]]; [apply H4; assumption | cbn; lia].
              ** exists r0, rest, l1, (l2 ++ [(r, b)]). repeat split; try assumption.
                 rewrite Hfw, <- app_assoc. reflexivity.
              ** intros i Hi. destruct (H6 i Hi) as (b' & Hin & Hh). exists b'. split; [apply in_or_app; left; exact Hin | exact Hh].
    + (* first non-zero score wins, whatever its sign *)
      destruct (Hn eq_refl) as [Hp Hall]. split; cbn [st_win st_providers].
      * intros Hw; discriminate Hw.
      * intros w' Hw'. injection Hw' as <-. cbn [p_score p_cat p_bid].
        repeat split; try reflexivity; try assumption.
        -- intros rb Hin Hnz. apply in_app_or in Hin as [Hin | [<- | []]]; [| cbn; lia].
           specialize (Hall rb Hin). congruence.
        -- exists r, [], fw, []. repeat split; try reflexivity.
           intros rb Hin. left. apply Hall; exact Hin.
        -- intros i [<- | []]. exists b. split; [apply in_or_app; right; left; reflexivity | reflexivity].
Qed.

Lemma collect_inv cfgs fw : inv cfgs fw (collect cfgs fw).
Proof.
  induction fw as [|x l IH] using rev_ind.
  - apply inv_init.
  - rewrite collect_snoc. apply inv_step. exact IH.
Qed.
