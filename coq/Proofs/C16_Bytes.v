(* C16 — lemmas about the byte-level paths: {{CLIENT}} substitution (path 3) and the dynamic
   graffiti provider (path 8). *)
From Verif Require Import Lib.Base Model.C16_Paths Proofs.C16.
From Coq Require Import ZifyBool ZifyN ZifyNat.

Local Open Scope N_scope.

(* ------------------------------------------------------------------------------------------- *)
(* replace_all / contains / count                                                                *)

Lemma prefix_b_length : forall p s, prefix_b p s = true -> (length p <= length s)%nat.
Proof.
  induction p as [|x p IH]; intros [|y s] H; cbn in *; try lia; try discriminate.
  apply andb_true_iff in H as [_ H]. apply IH in H. lia.
Qed.

Lemma replace_go_length : forall pat rep, pat <> [] -> forall s skip, (skip <= length s)%nat ->
  (length (replace_go pat rep skip s) + count_go pat skip s * length pat =
   (length s - skip) + count_go pat skip s * length rep)%nat.
Proof.
  intros pat rep Hne. induction s as [|c s IH]; intros skip Hs.
  - cbn in *. assert (skip = O) by lia. subst. reflexivity.
  - cbn [replace_go count_go]. destruct skip as [|k].
    + destruct (prefix_b pat (c :: s)) eqn:Hp.
      * apply prefix_b_length in Hp. cbn [length] in Hp.
        assert (Hk : (pred (length pat) <= length s)%nat) by lia.
        specialize (IH _ Hk). rewrite app_length.
        assert (Hl : (1 <= length pat)%nat) by (destruct pat; [congruence | cbn; lia]).
        cbn [length]. nia.
      * specialize (IH O ltac:(lia)). cbn [length]. nia.
    + cbn [length] in Hs. specialize (IH k ltac:(lia)). cbn [length]. lia.
Qed.

Lemma contains_count : forall p s, p <> [] -> contains p s = true -> (1 <= count_go p O s)%nat.
Proof.
  intros p s Hne. induction s as [|c s IH]; intro H.
  - destruct p; [congruence|]. cbn in H. discriminate.
  - cbn [contains] in H. cbn [count_go]. destruct (prefix_b p (c :: s)) eqn:Hp; [lia|].
    cbn [orb] in H. apply IH. exact H.
Qed.

Lemma count_contains : forall p s skip, (1 <= count_go p skip s)%nat -> contains p s = true.
Proof.
  intros p. induction s as [|c s IH]; intros skip H.
  - cbn in H. lia.
  - cbn [count_go] in H. cbn [contains]. destruct skip as [|k].
    + destruct (prefix_b p (c :: s)); [reflexivity|]. cbn [orb]. eapply IH; eassumption.
    + rewrite (IH k H). apply orb_true_r.
Qed.

(* ------------------------------------------------------------------------------------------- *)
(* Path 3                                                                                        *)

Lemma tmpl_nonempty : tmpl_client <> [].
Proof. discriminate. Qed.

Lemma pad32_id : forall g, length g = 32%nat -> pad32 g = g.
Proof. intros g H. rewrite pad32_long by lia. rewrite <- H. apply firstn_all. Qed.

Lemma graffiti_step_now : forall g p,
  exists g', graffiti_step ConvCopy g p = Ok g' /\ (length g = 32%nat -> length g' = 32%nat) /\
             (can_name p = false -> length g = 32%nat -> g' = g).
Proof.
  intros g p. unfold graffiti_step. destruct (contains tmpl_client g).
  - destruct p as [| |n]; cbn [convert can_name].
    + exists g. repeat split; auto.
    + exists (pad32 g). split; [reflexivity|]. split; [intros _; apply pad32_length | intros _ H; apply pad32_id; exact H].
    + exists (pad32 (replace_all tmpl_client n g)). split; [reflexivity|]. split; [intros _; apply pad32_length | discriminate].
  - exists g. repeat split; auto.
Qed.

Lemma graffiti_now_ok : forall ps g,
  exists l, graffiti_now g ps = Ok l /\ length l = length ps /\
            (length g = 32%nat -> Forall (fun x => length x = 32%nat) l).
Proof.
  unfold graffiti_now. induction ps as [|p ps IH]; intro g.
  - exists []. cbn. repeat split; auto.
  - cbn [graffiti_loop]. destruct (graffiti_step_now g p) as (g' & Hs & Hl & _). rewrite Hs. cbn [bind].
    destruct (IH g') as (l & Hr & Hlen & Hall). rewrite Hr. cbn [bind].
    exists (g' :: l). split; [reflexivity|]. split; [cbn; lia|]. intro H. constructor; auto.
Qed.

Lemma graffiti_now_unchanged : forall ps g,
  length g = 32%nat -> forallb (fun p => negb (can_name p)) ps = true ->
  graffiti_now g ps = Ok (map (fun _ => g) ps).
Proof.
  unfold graffiti_now. induction ps as [|p ps IH]; intros g Hg Hall; [reflexivity|].
  cbn [forallb] in Hall. apply andb_true_iff in Hall as [Hp Hall]. apply negb_true_iff in Hp.
  cbn [graffiti_loop map]. destruct (graffiti_step_now g p) as (g' & Hs & _ & Hsame). rewrite Hs. cbn [bind].
  rewrite (Hsame Hp Hg). rewrite (IH g Hg Hall). reflexivity.
Qed.

(* the conversion the code used before: [32]byte(slice) *)
Lemma convert_slice_panics_iff : forall l, convert ConvSlice l = Panic <-> (length l < 32)%nat.
Proof.
  intro l. unfold convert, lenN. destruct (32 <? N.of_nat (length l)) eqn:E.
  - rewrite firstn_length.
    destruct (N.of_nat (Init.Nat.min 32 (length l)) <? 32) eqn:E2; split; intro H; try discriminate; try reflexivity; lia.
  - destruct (N.of_nat (length l) <? 32) eqn:E2; split; intro H; try discriminate; try reflexivity; lia.
Qed.

Lemma slice_conversion_panics_iff : forall g n,
  length g = 32%nat ->
  (graffiti_loop ConvSlice g [NCName n] = Panic <-> (contains tmpl_client g = true /\ (length n < 10)%nat)).
Proof.
  intros g n Hg. cbn [graffiti_loop]. unfold graffiti_step.
  destruct (contains tmpl_client g) eqn:Hc.
  - assert (Hrep : replace_all tmpl_client n g = replace_go tmpl_client n O g) by reflexivity.
    pose proof (replace_go_length tmpl_client n tmpl_nonempty g O ltac:(lia)) as Hlen.
    pose proof (contains_count tmpl_client g tmpl_nonempty Hc) as Hcnt.
    change (length tmpl_client) with 10%nat in Hlen. rewrite Hg in Hlen. rewrite <- Hrep in Hlen.
    destruct (convert ConvSlice (replace_all tmpl_client n g)) as [v|e|] eqn:E; cbn [bind].
    + split; [discriminate|]. intros [_ Hn]. exfalso.
      assert (Hp : convert ConvSlice (replace_all tmpl_client n g) = Panic) by (apply convert_slice_panics_iff; nia).
      congruence.
    + destruct e. unfold convert in E. destruct (lenN _ <? 32) in E; discriminate.
    + split; [|reflexivity]. intros _. split; [reflexivity|]. apply convert_slice_panics_iff in E. nia.
  - cbn [bind]. split; [discriminate | intros [H _]; discriminate].
Qed.

(* ------------------------------------------------------------------------------------------- *)
(* Path 8                                                                                        *)

Lemma split_lf_nonempty : forall s cur, split_lf s cur <> [].
Proof. induction s as [|c s IH]; intro cur; cbn; [discriminate|]. destruct (c =? LF); [discriminate | apply IH]. Qed.

Lemma split_lf_no_lf : forall s cur l, ~ In LF cur -> In l (split_lf s cur) -> ~ In LF l.
Proof.
  induction s as [|c s IH]; intros cur l Hcur Hin.
  - cbn in Hin. destruct Hin as [<-|[]]. intro H. apply in_rev in H. auto.
  - cbn [split_lf] in Hin. destruct (c =? LF) eqn:E.
    + destruct Hin as [<-|Hin]; [intro H; apply in_rev in H; auto|]. eapply IH; [|eassumption]. intros [].
    + eapply IH; [|eassumption]. intros [H|H]; [|auto]. subst c. rewrite N.eqb_refl in E. discriminate.
Qed.

Lemma graffiti_lines_nonempty : forall d, graffiti_lines d <> [].
Proof. intro d. apply split_lf_nonempty. Qed.

Lemma graffiti_lines_no_lf : forall d l, In l (graffiti_lines d) -> ~ In LF l.
Proof. intros d l H. eapply split_lf_no_lf; [|exact H]. intros []. Qed.

Lemma dynamic_data : forall d f, dynamic_graffiti (FData d) f = Ok (graffiti_lines d).
Proof.
  intros d f. unfold dynamic_graffiti. unfold pick_domain.
  destruct (lenN (graffiti_lines d) =? 0) eqn:E; [|reflexivity].
  apply lenN_nil_iff in E. exfalso. eapply graffiti_lines_nonempty; eassumption.
Qed.

Lemma dynamic_no_panic : forall p f, dynamic_graffiti p f <> Panic.
Proof.
  intros p f. destruct p as [d| |].
  - rewrite dynamic_data. discriminate.
  - destruct f as [[d| |]|]; try (cbn; discriminate). change (dynamic_graffiti FNotFound (Some (FData d))) with (dynamic_graffiti (FData d) None).
    rewrite dynamic_data. discriminate.
  - destruct f as [[d| |]|]; try (cbn; discriminate). change (dynamic_graffiti FOther (Some (FData d))) with (dynamic_graffiti (FData d) None).
    rewrite dynamic_data. discriminate.
Qed.

Lemma dynamic_fallback : forall p f, (forall d, p <> FData d) -> dynamic_graffiti p (Some f) = dynamic_graffiti f None.
Proof.
  intros p f H. destruct p as [d| |]; [exfalso; eapply H; reflexivity| |]; destruct f; reflexivity.
Qed.
