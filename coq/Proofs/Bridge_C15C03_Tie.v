(* C15's tie to the source, carried to C03.  C15 ties its window to the Go statements by translation
   (Proofs/Tie_C15.v: [window_of] and [first_epoch_of_period] equal the gotrans transcriptions
   [controller_syncWindow] and [controller_firstEpochOfSyncPeriod], regenerated from the repository
   on every run).  C03's [sync_window] and [feosp] are written by hand and not tied by translation.
   Since the two hand-written models are equal (Proofs/Bridge_C15C03.v), C03's are equal to the
   transcriptions as well.  Kept apart from the bridge proper: when the Go source changes its meaning,
   only this file (and C15's tie) stops compiling. *)
From Coq Require Import ZArith NArith Lia.
From Verif Require Import Lib.Base Lib.GoInt Gen.Pure_C03 Gen.Pure_C15 Model.C15_Sync Proofs.TieLib Proofs.Tie_C15.
From Verif Require Import Proofs.Bridge_C15C03.
Local Open Scope Z_scope.

Lemma feosp_tied : forall (c : C3.config) (ae period : N),
  nu64 ae ->
  Z.of_N (C3.feosp c ae period) =
  controller_firstEpochOfSyncPeriod (Z.of_N (C3.c_period c)) (Z.of_N ae) (Z.of_N period).
Proof.
  intros c ae period Hae.
  pose (p := params_of_config c ae 0 0 0%N 0%N 0%N).
  rewrite <- (first_epoch_agrees p c ae period (params_of_config_match c ae 0 0 0%N 0%N 0%N)).
  exact (tie_first_epoch_of_period p period Hae).
Qed.

Lemma sync_window_tied : forall (c : C3.config) (ae epoch cur : N),
  nu64 ae -> nu64 epoch -> nu64 cur ->
  controller_syncWindow (Z.of_N (C3.c_period c)) (Z.of_N ae) (Z.of_N epoch)
                        (Z.of_N (C3.cur_epoch c cur)) (Z.of_N cur) (Z.of_N (CT.ct_spe (C3.c_ct c)))
  = (let '(fe, fs, ls) := C3.sync_window c ae cur epoch in (Z.of_N fe, Z.of_N fs, Z.of_N ls)).
Proof.
  intros c ae epoch cur Hae He Hc.
  pose (p := params_of_config c ae 0 0 0%N 0%N 0%N).
  rewrite (window_agrees p c ae epoch cur (params_of_config_match c ae 0 0 0%N 0%N 0%N)).
  exact (tie_sync_window p epoch cur Hae He Hc).
Qed.
