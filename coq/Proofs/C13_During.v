(* C13: queries and refreshes that overlap.  The accessors are observations: what a query is
   answered is a function of the two stores at the moment of the call, and no query -- made before,
   during or after a refresh -- has any influence on a later answer.  A service that remembers its
   answers per (epoch, kind) and forgets them at the START of Refresh is refuted by a witness. *)
From Verif Require Import Lib.Base Lib.RegexM Model.C13_Accounts Model.C13_During.
From Verif Require Import Proofs.C13 Proofs.C13_Store Check.C13 Proofs.C13_Check.
From Coq Require Import String ZifyBool ZifyN ZifyNat.
Open Scope N_scope.

Definition is_refresh (o : op) : bool := match o with Refresh _ _ => true | Query _ _ _ => false end.

Section During.
  Variable parse : string -> option (list re).
  Variable cfg : config.
  Notation run_state := (run_state parse cfg).
  Notation run_from := (run_from parse cfg).
  Notation refresh := (refresh parse cfg).

  Lemma state_after_run_state : forall ops s, state_after parse cfg s ops = run_state s ops.
  Proof. induction ops as [|o ops IH]; intro s; cbn; [reflexivity | apply IH]. Qed.

  (* queries do not move the state: the state after a history is that after its refreshes *)
  Lemma queries_are_observations : forall ops s,
    run_state s ops = run_state s (filter is_refresh ops).
  Proof.
    induction ops as [|[offered vo | sync e idx] ops IH]; intro s; cbn [filter is_refresh]; [reflexivity | |].
    - cbn [C13_Store.run_state]. apply IH.
    - cbn [C13_Store.run_state step fst]. apply IH.
  Qed.

  (* the answer to the query at position k of ANY history is the query on the state produced by
     the refreshes that came before it -- whatever was asked before it, and how often *)
  Lemma answer_depends_on_refreshes_only : forall ops k s sync e idx,
    nth_error ops k = Some (Query sync e idx) ->
    nth_error (run_from s ops) k =
    Some (OQuery (query cfg (run_state s (filter is_refresh (firstn k ops))) sync e idx)).
  Proof.
    induction ops as [|o ops IH]; intros k s sync e idx H; [destruct k; discriminate|].
    destruct k as [|k].
    - cbn in H. injection H as ->. reflexivity.
    - cbn [nth_error] in H. cbn [C13_Accounts.run_from].
      destruct (step parse cfg s o) as [s' x] eqn:Es. cbn [nth_error firstn].
      rewrite (IH k s' sync e idx H). f_equal. f_equal. f_equal.
      destruct o as [offered vo | sy e' idx']; cbn [filter is_refresh C13_Store.run_state].
      + rewrite Es. reflexivity.
      + cbn in Es. injection Es as <- _. reflexivity.
  Qed.

  (* in particular a query right after a refresh sees the refreshed stores *)
  Lemma after_refresh_sees_refreshed : forall ops1 offered vo sync e idx ops2,
    nth_error (run_from init (ops1 ++ Refresh offered vo :: Query sync e idx :: ops2)) (S (List.length ops1)) =
    Some (OQuery (query cfg (refresh (run_state init ops1) offered vo) sync e idx)).
  Proof.
    intros ops1 offered vo sync e idx ops2.
    rewrite (answer_depends_on_refreshes_only _ (S (List.length ops1)) init sync e idx).
    - f_equal. f_equal. f_equal.
      replace (S (List.length ops1)) with (List.length (ops1 ++ [Refresh offered vo])) by (rewrite app_length; cbn; lia).
      replace (ops1 ++ Refresh offered vo :: Query sync e idx :: ops2)
        with ((ops1 ++ [Refresh offered vo]) ++ Query sync e idx :: ops2) by (rewrite <- app_assoc; reflexivity).
      rewrite firstn_app, firstn_all, Nat.sub_diag. cbn [firstn]. rewrite app_nil_r.
      rewrite <- queries_are_observations. rewrite run_state_app. reflexivity.
    - replace (S (List.length ops1)) with (List.length ops1 + 1)%nat by lia.
      rewrite nth_error_app2 by lia. replace (List.length ops1 + 1 - List.length ops1)%nat with 1%nat by lia.
      reflexivity.
  Qed.

  (* what a query landing inside a refresh may be answered: the query on a state each of whose two
     stores is that of before or that of after the refresh; when the call was held back until the
     refresh had returned, on the refreshed state *)
  Lemma firstn_S_nth : forall (A : Type) (l : list A) k x,
    nth_error l k = Some x -> firstn (S k) l = firstn k l ++ [x].
  Proof.
    induction l as [|y l IH]; intros k x H; [destruct k; discriminate|].
    destruct k as [|k]; cbn in H.
    - injection H as ->. reflexivity.
    - cbn [firstn app]. f_equal. apply IH. exact H.
  Qed.

  Lemma during_old_or_new : forall ops d b l,
    In l (during_answers parse cfg ops d b) ->
    exists offered vo st,
      nth_error ops (dq_at d) = Some (Refresh offered vo) /\
      let s := run_state init (firstn (dq_at d) ops) in
      let s' := run_state init (firstn (S (dq_at d)) ops) in
      s' = refresh s offered vo /\
      l = query cfg st (dq_sync d) (dq_epoch d) (dq_idx d) /\
      (st_accounts st = st_accounts s \/ st_accounts st = st_accounts s') /\
      (st_vals st = st_vals s \/ st_vals st = st_vals s') /\
      (b = true -> st = s').
  Proof.
    intros ops d b l H. unfold during_answers in H.
    destruct (ctor_fails parse cfg ops); [contradiction|].
    destruct (dq_at d) as [|k] eqn:Ek; [contradiction|]. rewrite <- Ek in *.
    destruct (nth_error ops (dq_at d)) as [[offered vo | sy e' ix]|] eqn:En; try contradiction.
    rewrite state_after_run_state in H.
    set (s := run_state init (firstn (dq_at d) ops)) in *.
    assert (Hs' : run_state init (firstn (S (dq_at d)) ops) = refresh s offered vo).
    { rewrite (firstn_S_nth _ _ _ _ En), run_state_app. reflexivity. }
    assert (Hgo : forall pt, In l (map (fun st => answer cfg st d) (states_at parse cfg s offered vo pt b)) ->
              exists st, l = query cfg st (dq_sync d) (dq_epoch d) (dq_idx d) /\
                (st_accounts st = st_accounts s \/ st_accounts st = st_accounts (refresh s offered vo)) /\
                (st_vals st = st_vals s \/ st_vals st = st_vals (refresh s offered vo)) /\
                (b = true -> st = refresh s offered vo)).
    { intros pt Hin. apply in_map_iff in Hin as (st & <- & Hst). exists st. split; [reflexivity|].
      unfold states_at in Hst. destruct b.
      - destruct Hst as [<- | []]. repeat split; auto.
      - destruct pt.
        + destruct Hst as [<- | []]. repeat split; auto; discriminate.
        + destruct Hst as [<- | [<- | []]]; (repeat split; auto; try discriminate). }
    exists offered, vo.
    destruct (dq_point d).
    - destruct (Hgo AtAccounts H) as (st & Hst). exists st. split; [reflexivity|]. cbv zeta. rewrite Hs'. split; [reflexivity | exact Hst].
    - destruct (validators_asked parse cfg s offered); [|contradiction].
      destruct (Hgo AtValidators H) as (st & Hst). exists st. split; [reflexivity|]. cbv zeta. rewrite Hs'. split; [reflexivity | exact Hst].
  Qed.
End During.

(* ---------------------------------------------------------------------------------------------
   What `agree` and `P_b` establish about the queries that landed inside a refresh. *)
Lemma pairs_eqb_spec : forall a b, pairs_eqb a b = true <-> a = b.
Proof. apply list_eqb_spec. apply prod_eqb_spec; apply N.eqb_eq. Qed.

Lemma during_agree_sound : forall c d o,
  agree c = true -> In (d, o) (c_during c) ->
  match o with
  | DNone => during_answers (lookup_parse (c_parse c)) (c_cfg c) (c_ops c) d false = []
  | DAnswer b l => In l (during_answers (lookup_parse (c_parse c)) (c_cfg c) (c_ops c) d b)
  end.
Proof.
  intros c d o H Hin. unfold agree in H. apply andb_true_iff in H as [_ H].
  rewrite forallb_forall in H. specialize (H _ Hin). unfold during_agree in H. cbn [fst snd] in H.
  destruct o as [|b l].
  - apply isnil_true. exact H.
  - apply (memb_spec pairs_eqb pairs_eqb_spec). exact H.
Qed.

Lemma during_ok_sound : forall cfg ops sts d b obs,
  during_ok cfg ops sts (d, DAnswer b obs) = true ->
  exists offered vo k0 v0 k1 v1,
    nth_error ops (dq_at d) = Some (Refresh offered vo) /\
    nth_error sts (dq_at d) = Some (k0, v0) /\ nth_error sts (S (dq_at d)) = Some (k1, v1) /\
    exists k v, (k = k0 \/ k = k1) /\ (v = v0 \/ v = v1) /\ (b = true -> k = k1 /\ v = v1) /\
                query_spec cfg k v (dq_sync d) (dq_epoch d) (dq_idx d) obs.
Proof.
  intros cfg ops sts d b obs H. unfold during_ok in H. cbn [fst snd] in H.
  destruct (nth_error ops (dq_at d)) as [[offered vo|]|]; try discriminate.
  destruct (nth_error sts (dq_at d)) as [[k0 v0]|]; try discriminate.
  destruct (nth_error sts (S (dq_at d))) as [[k1 v1]|]; try discriminate.
  exists offered, vo, k0, v0, k1, v1. repeat (split; [reflexivity|]).
  apply orb_true_iff in H as [H | H].
  - exists k1, v1. split; [auto | split; [auto | split; [auto|]]]. apply query_ok_sound. exact H.
  - apply andb_true_iff in H as [Hb H]. apply negb_true_iff in Hb. subst b.
    apply orb_true_iff in H as [H | H]; [apply orb_true_iff in H as [H | H]|].
    + exists k0, v0. split; [auto | split; [auto | split; [discriminate|]]]. apply query_ok_sound. exact H.
    + exists k1, v0. split; [auto | split; [auto | split; [discriminate|]]]. apply query_ok_sound. exact H.
    + exists k0, v1. split; [auto | split; [auto | split; [discriminate|]]]. apply query_ok_sound. exact H.
Qed.

Lemma P_b_during_sound : forall c d b obs,
  P_b c = true -> In (d, DAnswer b obs) (c_during c) ->
  let sts := spec_states (c_cfg c) [] [] (c_ops c) (c_outs c) in
  exists offered vo k0 v0 k1 v1,
    nth_error (c_ops c) (dq_at d) = Some (Refresh offered vo) /\
    nth_error sts (dq_at d) = Some (k0, v0) /\ nth_error sts (S (dq_at d)) = Some (k1, v1) /\
    exists k v, (k = k0 \/ k = k1) /\ (v = v0 \/ v = v1) /\ (b = true -> k = k1 /\ v = v1) /\
                query_spec (c_cfg c) k v (dq_sync d) (dq_epoch d) (dq_idx d) obs.
Proof.
  intros c d b obs H Hin sts. unfold P_b in H. apply andb_true_iff in H as [_ H].
  unfold during_run in H.
  assert (Hall : forallb (during_ok (c_cfg c) (c_ops c) sts) (c_during c) = true
                 \/ forallb (fun p : dquery * dobs => match snd p with DNone => true | _ => false end) (c_during c) = true).
  { destruct (c_outs c) as [|[| | |] rest] eqn:Eo; subst sts; rewrite ?Eo; auto. }
  destruct Hall as [Hall | Hall]; rewrite forallb_forall in Hall; specialize (Hall _ Hin).
  - apply during_ok_sound. exact Hall.
  - discriminate.
Qed.

(* the pairs [spec_states] lists are those along which [holds] (P_b's reading of the history)
   judges the operations: the first is the pair it starts from *)
Lemma spec_states_head : forall cfg known vals ops outs,
  nth_error (spec_states cfg known vals ops outs) 0 = Some (known, vals).
Proof. intros. destruct ops; reflexivity. Qed.

(* ---------------------------------------------------------------------------------------------
   The seeded class: a service that remembers what it answered per (epoch, kind of account), and
   forgets at the START of Refresh. *)
Definition ckey := (N * bool)%type.
Definition ckey_eqb (a b : ckey) : bool := (fst a =? fst b) && Bool.eqb (snd a) (snd b).

Record cstate := { cs_st : state; cs_cache : list (ckey * list (N * N)) }.

Definition cquery (cfg : config) (c : cstate) (sync : bool) (e : N) : cstate * list (N * N) :=
  match find (fun p => ckey_eqb (fst p) (e, sync)) (cs_cache c) with
  | Some (_, l) => (c, l)
  | None => let l := query cfg (cs_st c) sync e None in
            ({| cs_st := cs_st c; cs_cache := ((e, sync), l) :: cs_cache c |}, l)
  end.

(* Refresh: forget the answers, refresh the accounts, [mid] = the queries that land while the
   node is asked, refresh the validators *)
Definition crefresh (parse : string -> option (list re)) (cfg : config) (c : cstate)
           (offered : list N) (vo : vout) (mid : list (bool * N)) : cstate :=
  let c1 := {| cs_st := mid_state parse cfg (cs_st c) offered; cs_cache := [] |} in
  let c2 := fold_left (fun c q => fst (cquery cfg c (fst q) (snd q))) mid c1 in
  {| cs_st := refresh parse cfg (cs_st c) offered vo; cs_cache := cs_cache c2 |}.

(* every remembered answer is the answer of the present state *)
Definition coherent (cfg : config) (c : cstate) : Prop :=
  forall e sync l, In ((e, sync), l) (cs_cache c) -> l = query cfg (cs_st c) sync e None.

Lemma ckey_eqb_eq : forall a b, ckey_eqb a b = true <-> a = b.
Proof.
  intros [a1 a2] [b1 b2]. unfold ckey_eqb. cbn. rewrite andb_true_iff, N.eqb_eq. split.
  - intros [-> H]. apply Bool.eqb_prop in H. subst. reflexivity.
  - intro H. injection H as -> ->. split; [reflexivity | apply Bool.eqb_reflx].
Qed.

(* while no query lands inside a refresh the memory cannot be told from its absence ... *)
Lemma cquery_coherent : forall cfg c sync e,
  coherent cfg c ->
  snd (cquery cfg c sync e) = query cfg (cs_st c) sync e None /\
  coherent cfg (fst (cquery cfg c sync e)) /\ cs_st (fst (cquery cfg c sync e)) = cs_st c.
Proof.
  intros cfg c sync e Hc. unfold cquery.
  destruct (find _ (cs_cache c)) as [[k l]|] eqn:Ef.
  - apply find_some in Ef as [Hin Hk]. cbn [fst] in Hk. apply ckey_eqb_eq in Hk. subst k.
    cbn [fst snd]. split; [apply Hc; exact Hin | split; [exact Hc | reflexivity]].
  - cbn [fst snd cs_st cs_cache]. split; [reflexivity | split; [|reflexivity]].
    intros e' sy l [H | H]; [injection H as <- <- <-; reflexivity | apply Hc; exact H].
Qed.

Lemma crefresh_quiet_coherent : forall parse cfg c offered vo,
  coherent cfg (crefresh parse cfg c offered vo []) /\
  cs_st (crefresh parse cfg c offered vo []) = refresh parse cfg (cs_st c) offered vo.
Proof. intros. split; [intros e sy l []|reflexivity]. Qed.

(* ... and one query landing inside a refresh makes the answers after it those of before it *)
Open Scope string_scope.
Definition cw_oracle (t : string) : option (list re) :=
  if String.eqb t "W" then Some [lit "W"]
  else if String.eqb t ".*" then Some [Star (Cls [(0, 9); (11, 1114111)])]
  else None.
Definition cw_cfg (m : mgr) : config :=
  {| c_mgr := m; c_paths := ["W"];
     c_universe := [ {| a_id := 1; a_wallet := "W"; a_name := "a"; a_locked := false |};
                     {| a_id := 2; a_wallet := "W"; a_name := "b"; a_locked := false |} ];
     c_far := 1000 |}.
Close Scope string_scope.
Definition cw_val (pk exit : N) : val :=
  {| v_pk := pk; v_index := 70 + pk; v_elig := 0; v_act := 5; v_exit := exit; v_wd := exit + 4;
     v_slashed := false; v_bal := 32 |}.

Lemma cached_answers_are_stale : forall m,
  let cfg := cw_cfg m in
  let s0 := refresh cw_oracle cfg init [1; 2] (VOk [cw_val 1 1000; cw_val 2 1000]) in
  let news := VOk [cw_val 1 8; cw_val 2 1000] in          (* validator 1 has exited at epoch 8 *)
  let c0 := {| cs_st := s0; cs_cache := [] |} in
  let quiet := crefresh cw_oracle cfg c0 [1; 2] news [] in
  let hit := crefresh cw_oracle cfg c0 [1; 2] news [(false, 10)] in
  query cfg (refresh cw_oracle cfg s0 [1; 2] news) false 10 None = [(72, 2)]
  /\ snd (cquery cfg quiet false 10) = [(72, 2)]
  /\ snd (cquery cfg hit false 10) = [(71, 1); (72, 2)]
  /\ cs_st hit = refresh cw_oracle cfg s0 [1; 2] news.
Proof. intros [|]; repeat split; vm_compute; reflexivity. Qed.
