(* C05: the bytes of the graffiti ({{CLIENT}} placeholder, any node client string, any length). *)
From Verif Require Import Lib.Base Model.C05_Proposer Proofs.C05.
From Coq Require Import ZifyBool ZifyN ZifyNat Lia.

(* a text without the placeholder is left alone by the replacement (so the [bytes.Contains] test of the
   code decides nothing but whether the node is asked) *)
Lemma replace_absent : forall p new s,
  contains_b p s = false -> replace_all p new s = s.
Proof.
  intros p new s. unfold replace_all. induction s as [|x s IH]; intro H.
  - reflexivity.
  - cbn [contains_b] in H. apply Bool.orb_false_iff in H. destruct H as [Hp Hc].
    cbn [replace_from]. rewrite Hp. f_equal. apply IH. exact Hc.
Qed.

Lemma client_text_absent : forall text nc,
  contains_b placeholder text = false -> client_text text nc = text.
Proof. intros text nc H. unfold client_text. rewrite H. reflexivity. Qed.

(* whatever the node says its client is, the lookup has a value: never an error, never "no provider" *)
Lemma resolve_bytes_value : forall text nc,
  resolve_graffiti (GSBytes text nc) = GOk (graffiti_n (client_text text nc)).
Proof. reflexivity. Qed.

Lemma resolve_err_only_provider : forall s, resolve_graffiti s = GErr -> s = GSErr.
Proof. intros [| |text nc] H; cbn in H; try discriminate; reflexivity. Qed.

(* a node that cannot say what it is, or a proposal provider that is no NodeClientProvider: the text as it is *)
Lemma client_text_unavailable : forall text nc,
  (nc = NCNone \/ nc = NCErr) -> client_text text nc = text.
Proof. intros text nc [->| ->]; unfold client_text; destruct (contains_b placeholder text); reflexivity. Qed.

(* the 32 bytes *)
Lemma pad32_length : forall bs, length (pad32 bs) = 32%nat.
Proof.
  intro bs. unfold pad32. rewrite firstn_length, app_length, repeat_length. lia.
Qed.

Lemma be_value_bound_acc : forall bs acc,
  Forall (fun b => b < 256) bs ->
  fold_left (fun a b => a * 256 + b) bs acc < (acc + 1) * 256 ^ N.of_nat (length bs).
Proof.
  induction bs as [|b bs IH]; intros acc HF.
  - cbn. lia.
  - inversion HF as [|? ? Hb HF']; subst. cbn [fold_left length].
    specialize (IH (acc * 256 + b) HF').
    rewrite Nat2N.inj_succ, N.pow_succ_r'.
    assert ((acc * 256 + b + 1) * 256 ^ N.of_nat (length bs) <= (acc + 1) * (256 * 256 ^ N.of_nat (length bs))).
    { replace ((acc + 1) * (256 * 256 ^ N.of_nat (length bs))) with ((acc * 256 + 256) * 256 ^ N.of_nat (length bs)) by lia.
      apply N.mul_le_mono_r. lia. }
    lia.
Qed.

Lemma Forall_firstn_ : forall {A} (P : A -> Prop) n l, Forall P l -> Forall P (firstn n l).
Proof.
  intros A P n. induction n as [|n IH]; intros l H; [constructor|].
  destruct l as [|x l]; [constructor|]. inversion H; subst. cbn. constructor; auto.
Qed.

Lemma pad32_bytes : forall bs, Forall (fun b => b < 256) bs -> Forall (fun b => b < 256) (pad32 bs).
Proof.
  intros bs H. unfold pad32. apply Forall_firstn_. apply Forall_app. split; [exact H|].
  apply Forall_forall. intros x Hx. apply repeat_spec in Hx. subst. lia.
Qed.

(* the graffiti handed to the beacon node always is 32 bytes' worth, however long the text or the
   client string *)
Lemma graffiti_n_fits : forall bs, Forall (fun b => b < 256) bs -> graffiti_n bs < 256 ^ 32.
Proof.
  intros bs H. unfold graffiti_n, be_value.
  pose proof (be_value_bound_acc (pad32 bs) 0 (pad32_bytes bs H)) as B.
  rewrite pad32_length in B. cbn [N.of_nat] in B. change (N.of_nat 32) with 32 in B. lia.
Qed.

(* the scenario of the property: the graffiti comes from any source -- any text, with or without the
   placeholder, any node client string (none, empty, no '/', longer than the graffiti) -- and the duty
   is complete: the beacon node is asked, with the graffiti the source resolves to; only the graffiti
   provider's own failure gives zero graffiti; a good local block is signed and submitted *)
Definition with_source (e : env) (s : gsrc) : env := with_graffiti_auction e (resolve_graffiti s) (e_auction e).

Lemma any_client_string_proposes : forall c e s d acct,
  d_randao d <> 0 -> d_account d = Some acct ->
  In (EProposal (d_slot d) (d_randao d) (graffiti_value (with_source e s)) (c_boost c))
     (o_events (propose c (with_source e s) d))
  /\ (forall text nc, s = GSBytes text nc ->
        graffiti_value (with_source e s) = graffiti_n (client_text text nc))
  /\ (forall pr, e_proposal e = POk pr -> p_blinded pr = false ->
        o_submit (propose c (with_source e s) d) = o_submit (propose c e d)).
Proof.
  intros c e s d acct Hr Ha.
  destruct (degrades_not_skips c (with_source e s) d acct Hr Ha) as (H1 & _ & _ & _).
  destruct (degrades_not_skips c e d acct Hr Ha) as (_ & _ & _ & H4).
  split; [exact H1|]. split.
  - intros text nc ->. reflexivity.
  - intros pr Hp Hb. unfold with_source. apply H4 with (pr := pr); assumption.
Qed.
