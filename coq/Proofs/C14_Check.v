(* C14 -- the boolean property predicate of the correspondence check (Check/C14.v, P_sub) against the
   Prop-level statements: P_sub is sound (true on an observed payload implies the property of that
   payload, without any reference to the model) and the model always satisfies it (so the predicate
   cannot fire on an implementation that agrees with the model). *)
From Verif Require Import Lib.Base Model.C14_Subscriptions Model.C14_Spec Proofs.C14 Check.C14.
From Coq Require Import ZifyBool ZifyN ZifyNat.

Lemma pair_eqb_iff : forall p q : N * N, pair_eqb p q = true <-> p = q.
Proof. apply prod_eqb_spec; apply N.eqb_eq. Qed.

Lemma nodupb_iff : forall l : list (N * N), nodupb pair_eqb l = true <-> NoDup l.
Proof.
  induction l as [|x l IH]; cbn [nodupb].
  - split; [constructor|reflexivity].
  - rewrite andb_true_iff, negb_true_iff, IH. split.
    + intros [H1 H2]. constructor; [|exact H2]. intro Hi.
      apply (memb_spec pair_eqb pair_eqb_iff) in Hi. congruence.
    + intro ND. inversion ND as [|? ? Hn ND']; subst. split; [|exact ND'].
      destruct (memb pair_eqb x l) eqn:E; [|reflexivity].
      apply (memb_spec pair_eqb pair_eqb_iff) in E. contradiction.
Qed.

Lemma memb_pair_iff : forall (k : N * N) l, memb pair_eqb k l = true <-> In k l.
Proof. intros. apply (memb_spec pair_eqb pair_eqb_iff). Qed.

Lemma consistent_iff : forall ds, consistent ds = true <-> consistent_duties ds.
Proof.
  intro ds. unfold consistent, consistent_duties. rewrite forallb_forall. split.
  - intros H a b Ha Hb E. specialize (H a Ha). rewrite forallb_forall in H. specialize (H b Hb).
    rewrite (proj2 (N.eqb_eq _ _) E) in H. apply andb_true_iff in H as [H1 H2].
    apply N.eqb_eq in H1. split; [exact H1|]. intro Ec. rewrite (proj2 (N.eqb_eq _ _) Ec) in H2.
    apply N.eqb_eq in H2. exact H2.
  - intros H a Ha. rewrite forallb_forall. intros b Hb.
    destruct (N.eqb_spec (d_slot a) (d_slot b)) as [E|E]; [|reflexivity].
    destruct (H a b Ha Hb E) as [H1 H2]. rewrite (proj2 (N.eqb_eq _ _) H1). cbn [andb].
    destruct (N.eqb_spec (d_comm a) (d_comm b)) as [Ec|Ec]; [|reflexivity].
    apply N.eqb_eq. apply H2. exact Ec.
Qed.

(* the duties expected to be subscribed, as P_sub computes them *)
Definition exp_of (cur : N) (sign_fail : list N) (ds : list duty) : list duty :=
  filter (fun d => (cur <? d_slot d) && sign_ok_of sign_fail (d_slot d)) ds.

Lemma in_exp_of : forall cur sf ds d,
  In d (exp_of cur sf ds) <-> cur < d_slot d /\ duty_for (sign_ok_of sf) ds (d_slot d) (d_comm d) d.
Proof.
  intros cur sf ds d. unfold exp_of, duty_for. rewrite filter_In, andb_true_iff, N.ltb_lt. tauto.
Qed.

Lemma in_map_dkey_exp : forall cur sf ds s c,
  In (s, c) (map dkey (exp_of cur sf ds)) <-> cur < s /\ exists d, duty_for (sign_ok_of sf) ds s c d.
Proof.
  intros cur sf ds s c. rewrite in_map_iff. split.
  - intros (d & K & Hd). apply in_exp_of in Hd as [Hc Hd]. unfold dkey in K. injection K as <- <-.
    split; [exact Hc|]. exists d. exact Hd.
  - intros (Hc & d & Hd). exists d. destruct Hd as (H1 & H2 & H3 & H4). subst s c.
    split; [reflexivity|]. apply in_exp_of. unfold duty_for. auto.
Qed.

(* P_sub, unfolded into its five conjuncts for a successful subscribe *)
Lemma P_sub_unfold : forall tgt cur sf ds calls,
  P_sub tgt cur false false sf ds calls =
  (let entries := concat calls in
   let keys := map (fun p => (p_slot p, p_comm p)) entries in
   let exp := exp_of cur sf ds in
   let cons := consistent ds in
   nodupb pair_eqb keys &&
   forallb (fun k => memb pair_eqb k (map dkey exp)) keys &&
   forallb (fun d => memb pair_eqb (dkey d) keys) exp &&
   forallb (fun p => existsb (fun d =>
             (d_val d =? p_val p) && pair_eqb (dkey d) (p_slot p, p_comm p) &&
             (negb cons || ((p_cas p =? d_cas d) && Bool.eqb (p_agg p) (selected tgt d)))) exp) entries &&
   (negb cons ||
    forallb (fun p => implb (existsb (fun d => pair_eqb (dkey d) (p_slot p, p_comm p) && selected tgt d) exp)
                            (p_agg p)) entries)).
Proof. reflexivity. Qed.

(* Soundness: the predicate evaluated on an observed submission implies the property of that
   submission -- exactly the pairs with a future duty, once each, each naming a validator with the
   duty, its committees_at_slot and the specification's flag, aggregator if any validator is. *)
Lemma P_sub_sound : forall tgt cur sf ds calls,
  P_sub tgt cur false false sf ds calls = true ->
  let entries := concat calls in
  NoDup (map pkey entries) /\
  (forall s c, In (s, c) (map pkey entries) <-> cur < s /\ exists d, duty_for (sign_ok_of sf) ds s c d) /\
  (forall p, In p entries ->
     exists d, duty_for (sign_ok_of sf) ds (p_slot p) (p_comm p) d /\ cur < p_slot p /\ p_val p = d_val d /\
       (consistent_duties ds -> p_cas p = d_cas d /\ p_agg p = selected tgt d)) /\
  (consistent_duties ds ->
     forall p d, In p entries -> duty_for (sign_ok_of sf) ds (p_slot p) (p_comm p) d -> cur < p_slot p ->
                 selected tgt d = true -> p_agg p = true).
Proof.
  intros tgt cur sf ds calls H entries. rewrite P_sub_unfold in H. cbv zeta in H. fold entries in H.
  change (map (fun p => (p_slot p, p_comm p)) entries) with (map pkey entries) in H.
  apply andb_true_iff in H as [H H5]. apply andb_true_iff in H as [H H4].
  apply andb_true_iff in H as [H H3]. apply andb_true_iff in H as [H1 H2].
  apply nodupb_iff in H1. rewrite forallb_forall in H2, H3, H4.
  split; [exact H1|]. split; [|split].
  - intros s c. rewrite <- in_map_dkey_exp. split.
    + intro Hi. apply memb_pair_iff. apply H2. exact Hi.
    + intro Hi. apply in_map_iff in Hi as (d & K & Hd). rewrite <- K. apply memb_pair_iff. apply H3. exact Hd.
  - intros p Hp. specialize (H4 p Hp). apply existsb_exists in H4 as (d & Hd & Hb).
    apply andb_true_iff in Hb as [Hb Hc]. apply andb_true_iff in Hb as [Hv Hk].
    apply N.eqb_eq in Hv. apply pair_eqb_iff in Hk. unfold dkey in Hk. injection Hk as K1 K2.
    apply in_exp_of in Hd as [Hcur Hd]. rewrite K1, K2 in Hd. rewrite K1 in Hcur.
    exists d. split; [exact Hd|]. split; [exact Hcur|]. split; [symmetry; exact Hv|].
    intro C. apply consistent_iff in C. rewrite C in Hc. cbn [negb orb] in Hc.
    apply andb_true_iff in Hc as [Hc1 Hc2]. apply N.eqb_eq in Hc1. apply eqb_prop in Hc2. auto.
  - intros C p d Hp Hd Hcur Hs. pose proof C as C'. apply consistent_iff in C'. rewrite C' in H5.
    cbn [negb orb] in H5. rewrite forallb_forall in H5. specialize (H5 p Hp).
    destruct (p_agg p); [reflexivity|]. exfalso.
    assert (E : existsb (fun d => pair_eqb (dkey d) (p_slot p, p_comm p) && selected tgt d) (exp_of cur sf ds) = true).
    { apply existsb_exists. exists d. destruct Hd as (G1 & G2 & G3 & G4). split.
      - apply in_exp_of. rewrite G2. split; [exact Hcur|]. unfold duty_for. rewrite G2, G3. auto.
      - rewrite Hs, andb_true_r. apply pair_eqb_iff. unfold dkey. rewrite G2, G3. reflexivity. }
    rewrite E in H5. discriminate.
Qed.

(* Completeness on the model: for every duty list with proper digests the model's own submission
   satisfies P_sub, so P_sub cannot fire while the implementation agrees with the model. *)
Lemma model_satisfies_P_sub : forall tgt cur sf ds,
  digests_ok ds ->
  P_sub tgt cur false false sf ds [to_submit cur (subscription_info tgt (sign_ok_of sf) ds)] = true.
Proof.
  intros tgt cur sf ds G. rewrite P_sub_unfold. cbv zeta.
  cbn [concat]. rewrite app_nil_r.
  set (payload := to_submit cur (subscription_info tgt (sign_ok_of sf) ds)).
  change (map (fun p => (p_slot p, p_comm p)) payload) with (map pkey payload).
  pose proof (submitted_nodup tgt (sign_ok_of sf) ds cur) as ND. fold payload in ND.
  pose proof (submitted_pairs tgt (sign_ok_of sf) ds cur) as HP. fold payload in HP.
  repeat (apply andb_true_iff; split).
  - apply nodupb_iff. exact ND.
  - apply forallb_forall. intros [s c] Hk. apply memb_pair_iff. apply in_map_dkey_exp. apply HP. exact Hk.
  - apply forallb_forall. intros d Hd. apply memb_pair_iff. unfold dkey. apply HP.
    apply in_exp_of in Hd as [Hc Hd]. split; [exact Hc|]. exists d. exact Hd.
  - apply forallb_forall. intros p Hp. apply existsb_exists.
    destruct (consistent ds) eqn:C.
    + apply consistent_iff in C.
      destruct (submitted_entry_consistent tgt _ ds cur p C G Hp) as (d & Hd & Hv & Hc & Ha).
      pose proof (submitted_entry tgt _ ds cur p Hp) as [Hcur _].
      exists d. destruct Hd as (G1 & G2 & G3 & G4). split.
      * apply in_exp_of. rewrite G2. split; [exact Hcur|]. unfold duty_for. rewrite G2, G3. auto.
      * cbn [negb orb]. rewrite Hv, N.eqb_refl, Hc, N.eqb_refl, Ha, eqb_reflx, !andb_true_r.
        apply pair_eqb_iff. unfold dkey. rewrite G2, G3. reflexivity.
    + destruct (submitted_entry tgt _ ds cur p Hp) as (Hcur & d & Hd & Hv & _).
      exists d. destruct Hd as (G1 & G2 & G3 & G4). split.
      * apply in_exp_of. rewrite G2. split; [exact Hcur|]. unfold duty_for. rewrite G2, G3. auto.
      * cbn [negb orb]. rewrite Hv, N.eqb_refl, !andb_true_r.
        apply pair_eqb_iff. unfold dkey. rewrite G2, G3. reflexivity.
  - destruct (consistent ds) eqn:C; [|reflexivity]. cbn [negb orb]. apply consistent_iff in C.
    apply forallb_forall. intros p Hp.
    destruct (existsb (fun d => pair_eqb (dkey d) (p_slot p, p_comm p) && selected tgt d) (exp_of cur sf ds)) eqn:E;
      [|reflexivity].
    cbn [implb]. apply existsb_exists in E as (d & Hd & Hb). apply andb_true_iff in Hb as [Hk Hs].
    apply pair_eqb_iff in Hk. unfold dkey in Hk. injection Hk as K1 K2.
    apply in_exp_of in Hd as [Hcur Hd]. rewrite K1, K2 in Hd.
    destruct (recorded_aggregator_spec tgt _ ds _ _ d cur C G Hd Hs) as (e & d' & F & A & _ & _ & _ & _ & Hin).
    rewrite K1 in Hcur. specialize (Hin Hcur). fold payload in Hin.
    apply find_sub_some in F as (_ & F1 & F2).
    assert (p = to_subscription e).
    { apply (nodup_key_unique pkey payload); try assumption. unfold pkey. cbn [to_subscription p_slot p_comm].
      rewrite F1, F2. reflexivity. }
    subst p. cbn [to_subscription p_agg]. exact A.
Qed.

(* ------------------------------------------------------------------------------------------- *)
(* P_att *)

Lemma job_eqb_iff : forall a b, job_eqb a b = true <-> a = b.
Proof.
  intros [a1 a2 a3 a4 a5 a6 a7] [b1 b2 b3 b4 b5 b6 b7]. unfold job_eqb. cbn.
  rewrite !andb_true_iff, !N.eqb_eq. split.
  - intros [[[[[[-> ->] ->] ->] ->] ->] ->]. reflexivity.
  - intro H. injection H as -> -> -> -> -> -> ->. repeat split.
Qed.

Lemma quad_eqb_iff : forall a b, quad_eqb a b = true <-> a = b.
Proof.
  intros [[[a1 a2] a3] a4] [[[b1 b2] b3] b4]. unfold quad_eqb.
  rewrite !andb_true_iff, !N.eqb_eq. split.
  - intros [[[-> ->] ->] ->]. reflexivity.
  - intro H. injection H as -> -> -> ->. repeat split.
Qed.

Lemma P_att_unfold : forall pr kn_all kn prev dslot cur no_acct atts jobs,
  P_att pr kn_all kn prev dslot cur false no_acct atts jobs =
  (let js := map fst jobs in
   let sub_may := known_get (dslot / spe pr) kn_all in
   let sub := known_get (dslot / spe pr) kn in
   forallb (fun j => memb job_eqb j js) prev &&
   nodupb pair_eqb (map jkey js) &&
   forallb (fun jo => option_eqb quad_eqb (snd jo)
                        (Some (j_dslot (fst jo), j_root (fst jo), j_val (fst jo), j_sig (fst jo)))) jobs &&
   forallb (fun j =>
     memb pair_eqb (jkey j) (map jkey prev) ||
     match sub_may with
     | None => false
     | Some (sign_fail, ds) =>
         existsb (fun a => pair_eqb (a_slot a, a_comm a) (jkey j) && (a_root a =? j_root j)) atts &&
         (cur <=? j_slot j) &&
         (j_time j =? j_slot j * slot_ms pr + delay_ms pr) &&
         (j_dslot j =? j_slot j) &&
         sign_ok_of sign_fail (j_slot j) &&
         acct_ok_of no_acct (j_val j) &&
         existsb (fun d => (d_val d =? j_val j) && pair_eqb (dkey d) (jkey j) && (d_sig d =? j_sig j) &&
                           (negb (consistent ds) || selected (agg_target pr) d)) ds
     end) js &&
   match sub with
   | None => true
   | Some (sign_fail, ds) =>
       negb (consistent ds) ||
       forallb (fun a =>
         let sel := filter (fun d => pair_eqb (dkey d) (a_slot a, a_comm a) && selected (agg_target pr) d) ds in
         implb ((cur <=? a_slot a) && sign_ok_of sign_fail (a_slot a) &&
                negb (match sel with [] => true | _ => false end) &&
                forallb (fun d => acct_ok_of no_acct (d_val d)) sel)
               (memb pair_eqb (a_slot a, a_comm a) (map jkey js))) atts
   end).
Proof. reflexivity. Qed.

(* Soundness of the predicate on an observed attest step: nothing scheduled before is lost; job
   names are distinct; the real Aggregate ran with the duty the job carries; every new job is for
   an attested committee, not in the past, at StartOfSlot + delay, for one of our validators that
   has that duty with its own slot signature (selected, when the answer was self-consistent); and
   every attested committee with a selected validator (accounts obtainable) has a job. *)
Lemma P_att_sound : forall pr kn_all kn prev dslot cur no_acct atts jobs,
  P_att pr kn_all kn prev dslot cur false no_acct atts jobs = true ->
  let js := map fst jobs in
  (forall j, In j prev -> In j js) /\
  NoDup (map jkey js) /\
  (forall j o, In (j, o) jobs -> o = Some (j_dslot j, j_root j, j_val j, j_sig j)) /\
  (forall j, In j js -> ~ In (jkey j) (map jkey prev) ->
     exists sf ds, known_get (dslot / spe pr) kn_all = Some (sf, ds) /\
       (exists a, In a atts /\ akey a = jkey j /\ a_root a = j_root j) /\
       cur <= j_slot j /\ j_time j = j_slot j * slot_ms pr + delay_ms pr /\ j_dslot j = j_slot j /\
       acct_ok_of no_acct (j_val j) = true /\
       exists d, duty_for (sign_ok_of sf) ds (j_slot j) (j_comm j) d /\ d_val d = j_val j /\ d_sig d = j_sig j /\
                 (consistent_duties ds -> selected (agg_target pr) d = true)) /\
  (forall sf ds, known_get (dslot / spe pr) kn = Some (sf, ds) -> consistent_duties ds ->
     forall a d, In a atts -> cur <= a_slot a ->
       duty_for (sign_ok_of sf) ds (a_slot a) (a_comm a) d -> selected (agg_target pr) d = true ->
       (forall d', In d' ds -> dkey d' = akey a -> selected (agg_target pr) d' = true ->
                   acct_ok_of no_acct (d_val d') = true) ->
       In (akey a) (map jkey js)).
Proof.
  intros pr kn_all kn prev dslot cur no_acct atts jobs H js. rewrite P_att_unfold in H. cbv zeta in H. fold js in H.
  apply andb_true_iff in H as [H H5]. apply andb_true_iff in H as [H H4].
  apply andb_true_iff in H as [H H3]. apply andb_true_iff in H as [H1 H2].
  rewrite forallb_forall in H1, H3, H4. apply nodupb_iff in H2.
  split; [|split; [exact H2|split; [|split]]].
  - intros j Hj. apply (memb_spec job_eqb job_eqb_iff). apply H1. exact Hj.
  - intros j o Hjo. specialize (H3 (j, o) Hjo). cbn [fst snd] in H3.
    apply (option_eqb_spec quad_eqb quad_eqb_iff) in H3. exact H3.
  - intros j Hj Hn. specialize (H4 j Hj). apply orb_true_iff in H4 as [H4|H4].
    + apply memb_pair_iff in H4. contradiction.
    + destruct (known_get (dslot / spe pr) kn_all) as [[sf ds]|]; [|discriminate].
      exists sf, ds. split; [reflexivity|].
      repeat (apply andb_true_iff in H4 as [H4 ?]).
      match goal with X : existsb _ ds = true |- _ => apply existsb_exists in X as (d & Hd & Hb) end.
      apply existsb_exists in H4 as (a & Ha & Hab). apply andb_true_iff in Hab as [Hk Hr].
      apply pair_eqb_iff in Hk. apply N.eqb_eq in Hr.
      repeat (apply andb_true_iff in Hb as [Hb ?]).
      apply N.eqb_eq in Hb.
      match goal with X : pair_eqb (dkey d) (jkey j) = true |- _ => apply pair_eqb_iff in X; rename X into Kd end.
      unfold dkey, jkey in Kd. injection Kd as K1 K2.
      split; [exists a; auto|]. split; [apply N.leb_le; assumption|].
      split; [apply N.eqb_eq; assumption|]. split; [apply N.eqb_eq; assumption|]. split; [assumption|].
      exists d. split; [unfold duty_for; auto|]. split; [exact Hb|]. split; [apply N.eqb_eq; assumption|].
      intro C. apply consistent_iff in C.
      match goal with X : negb (consistent ds) || _ = true |- _ => rewrite C in X; exact X end.
  - intros sf ds K C a d Ha Hc Hd Hs Hacct. rewrite K in H5. pose proof C as C'. apply consistent_iff in C'.
    rewrite C' in H5. cbn [negb orb] in H5. rewrite forallb_forall in H5. specialize (H5 a Ha). cbv zeta in H5.
    set (sel := filter (fun d => pair_eqb (dkey d) (a_slot a, a_comm a) && selected (agg_target pr) d) ds) in *.
    destruct Hd as (G1 & G2 & G3 & G4).
    assert (Hin : In d sel).
    { apply filter_In. split; [exact G1|]. rewrite Hs, andb_true_r. apply pair_eqb_iff. unfold dkey. congruence. }
    assert (Hall : forallb (fun d => acct_ok_of no_acct (d_val d)) sel = true).
    { apply forallb_forall. intros d' Hd'. apply filter_In in Hd' as [I1 I2]. apply andb_true_iff in I2 as [I2 I3].
      apply pair_eqb_iff in I2. apply Hacct; assumption. }
    rewrite Hall, G4, (proj2 (N.leb_le _ _) Hc) in H5.
    destruct sel as [|x sel']; [destruct Hin|]. cbn [negb andb implb] in H5.
    apply memb_pair_iff in H5. exact H5.
Qed.

(* ------------------------------------------------------------------------------------------- *)
(* agree implies P_b: the predicate can only fire where the implementation differs from the model *)
From Coq Require Import Sorting.Permutation.

Lemma insert_by_perm : forall {A} (key : A -> N) x l, Permutation (insert_by key x l) (x :: l).
Proof.
  intros A key x l. induction l as [|y l IH]; cbn [insert_by]; [apply Permutation_refl|].
  destruct (key x <=? key y); [apply Permutation_refl|].
  eapply Permutation_trans; [apply perm_skip; exact IH|apply perm_swap].
Qed.

Lemma sort_by_perm : forall {A} (key : A -> N) l, Permutation (sort_by key l) l.
Proof.
  intros A key l. unfold sort_by. induction l as [|x l IH]; cbn [fold_right]; [apply Permutation_refl|].
  eapply Permutation_trans; [apply insert_by_perm|apply perm_skip; exact IH].
Qed.

Lemma subscription_eqb_iff : forall a b, subscription_eqb a b = true <-> a = b.
Proof.
  intros [a1 a2 a3 a4 a5] [b1 b2 b3 b4 b5]. unfold subscription_eqb. cbn.
  rewrite !andb_true_iff, !N.eqb_eq, eqb_true_iff. split.
  - intros [[[[-> ->] ->] ->] ->]. reflexivity.
  - intro H. injection H as -> -> -> -> ->. repeat split.
Qed.

(* P_sub on any rearrangement of the model's payload *)
Lemma model_satisfies_P_sub_perm : forall tgt cur sf ds payload',
  digests_ok ds ->
  Permutation payload' (to_submit cur (subscription_info tgt (sign_ok_of sf) ds)) ->
  P_sub tgt cur false false sf ds [payload'] = true.
Proof.
  intros tgt cur sf ds payload' G Perm. rewrite P_sub_unfold. cbv zeta.
  cbn [concat]. rewrite app_nil_r.
  set (payload := to_submit cur (subscription_info tgt (sign_ok_of sf) ds)) in *.
  change (map (fun p => (p_slot p, p_comm p)) payload') with (map pkey payload').
  assert (ND : NoDup (map pkey payload')).
  { eapply Permutation_NoDup; [apply Permutation_sym, Permutation_map, Perm|]. apply submitted_nodup. }
  assert (HP : forall s c, In (s, c) (map pkey payload') <-> cur < s /\ exists d, duty_for (sign_ok_of sf) ds s c d).
  { intros s c. rewrite <- (submitted_pairs tgt (sign_ok_of sf) ds cur s c). fold payload. split; intro Hi.
    - eapply Permutation_in; [apply Permutation_map, Perm|exact Hi].
    - eapply Permutation_in; [apply Permutation_sym, Permutation_map, Perm|exact Hi]. }
  assert (IN : forall p, In p payload' -> In p payload) by (intros p Hp; eapply Permutation_in; eassumption).
  assert (IN' : forall p, In p payload -> In p payload')
    by (intros p Hp; eapply Permutation_in; [apply Permutation_sym|]; eassumption).
  repeat (apply andb_true_iff; split).
  - apply nodupb_iff. exact ND.
  - apply forallb_forall. intros [s c] Hk. apply memb_pair_iff. apply in_map_dkey_exp. apply HP. exact Hk.
  - apply forallb_forall. intros d Hd. apply memb_pair_iff. unfold dkey. apply HP.
    apply in_exp_of in Hd as [Hc Hd]. split; [exact Hc|]. exists d. exact Hd.
  - apply forallb_forall. intros p Hp. apply IN in Hp. apply existsb_exists.
    destruct (consistent ds) eqn:C.
    + apply consistent_iff in C.
      destruct (submitted_entry_consistent tgt _ ds cur p C G Hp) as (d & Hd & Hv & Hc & Ha).
      pose proof (submitted_entry tgt _ ds cur p Hp) as [Hcur _].
      exists d. destruct Hd as (G1 & G2 & G3 & G4). split.
      * apply in_exp_of. rewrite G2. split; [exact Hcur|]. unfold duty_for. rewrite G2, G3. auto.
      * cbn [negb orb]. rewrite Hv, N.eqb_refl, Hc, N.eqb_refl, Ha, eqb_reflx, !andb_true_r.
        apply pair_eqb_iff. unfold dkey. rewrite G2, G3. reflexivity.
    + destruct (submitted_entry tgt _ ds cur p Hp) as (Hcur & d & Hd & Hv & _).
      exists d. destruct Hd as (G1 & G2 & G3 & G4). split.
      * apply in_exp_of. rewrite G2. split; [exact Hcur|]. unfold duty_for. rewrite G2, G3. auto.
      * cbn [negb orb]. rewrite Hv, N.eqb_refl, !andb_true_r.
        apply pair_eqb_iff. unfold dkey. rewrite G2, G3. reflexivity.
  - destruct (consistent ds) eqn:C; [|reflexivity]. cbn [negb orb]. apply consistent_iff in C.
    apply forallb_forall. intros p Hp.
    destruct (existsb (fun d => pair_eqb (dkey d) (p_slot p, p_comm p) && selected tgt d) (exp_of cur sf ds)) eqn:E;
      [|reflexivity].
    cbn [implb]. apply existsb_exists in E as (d & Hd & Hb). apply andb_true_iff in Hb as [Hk Hs].
    apply pair_eqb_iff in Hk. unfold dkey in Hk. injection Hk as K1 K2.
    apply in_exp_of in Hd as [Hcur Hd]. rewrite K1, K2 in Hd.
    destruct (recorded_aggregator_spec tgt _ ds _ _ d cur C G Hd Hs) as (e & d' & F & A & _ & _ & _ & _ & Hin).
    rewrite K1 in Hcur. specialize (Hin Hcur). fold payload in Hin. apply IN' in Hin.
    apply find_sub_some in F as (_ & F1 & F2).
    assert (p = to_subscription e).
    { apply (nodup_key_unique pkey payload'); try assumption. unfold pkey. cbn [to_subscription p_slot p_comm].
      rewrite F1, F2. reflexivity. }
    subst p. cbn [to_subscription p_agg]. exact A.
Qed.

Lemma P_sub_nothing : forall tgt cur na df sf ds, na || df = true -> P_sub tgt cur na df sf ds [] = true.
Proof.
  intros tgt cur na df sf ds H. unfold P_sub. rewrite H. cbn [concat map nodupb forallb andb].
  destruct (consistent ds); reflexivity.
Qed.

(* P_att on any rearrangement of the model's job table *)
Section ModelPAtt.
  Variables (pr : params) (kn_all kn : known) (prev base : list job) (dslot cur : N) (af : bool)
            (no_acct : list N) (atts : list att) (jobs' : list (job * option (N * N * N * N))).
  Hypothesis Hsubset : forall ep v, known_get ep kn = Some v -> known_get ep kn_all = Some v.
  Hypothesis Hprev : Permutation prev base.
  Hypothesis Hinv : jobs_inv pr base.
  Hypothesis Hsnd : forall jo, In jo jobs' -> snd jo = Some (aggregate_out (fst jo)).

  Lemma P_att_snd :
    forallb (fun jo => option_eqb quad_eqb (snd jo)
                         (Some (j_dslot (fst jo), j_root (fst jo), j_val (fst jo), j_sig (fst jo)))) jobs' = true.
  Proof.
    apply forallb_forall. intros jo Hjo. rewrite (Hsnd jo Hjo).
    apply (option_eqb_spec quad_eqb quad_eqb_iff). reflexivity.
  Qed.

  Lemma P_att_model_none :
    (if af then None else known_get (dslot / spe pr) kn) = None ->
    Permutation (map fst jobs') base ->
    P_att pr kn_all kn prev dslot cur af no_acct atts jobs' = true.
  Proof.
    intros Hsub Hperm. unfold P_att. cbv zeta. rewrite Hsub.
    repeat (apply andb_true_iff; split); [| | | |reflexivity].
    - apply forallb_forall. intros j Hj. apply (memb_spec job_eqb job_eqb_iff).
      eapply Permutation_in; [apply Permutation_sym, Hperm|]. eapply Permutation_in; [exact Hprev|exact Hj].
    - apply nodupb_iff. eapply Permutation_NoDup; [apply Permutation_sym, Permutation_map, Hperm|]. apply Hinv.
    - apply P_att_snd.
    - apply forallb_forall. intros j Hj. apply orb_true_iff. left. apply memb_pair_iff.
      apply in_map. eapply Permutation_in; [apply Permutation_sym, Hprev|].
      eapply Permutation_in; [exact Hperm|exact Hj].
  Qed.

  Lemma P_att_model_some : forall sf ds,
    (if af then None else known_get (dslot / spe pr) kn) = Some (sf, ds) ->
    digests_ok ds ->
    Permutation (map fst jobs')
      (attest_run pr (subscription_info (agg_target pr) (sign_ok_of sf) ds) cur (acct_ok_of no_acct) base atts) ->
    P_att pr kn_all kn prev dslot cur af no_acct atts jobs' = true.
  Proof.
    intros sf ds Hsub G Hperm.
    assert (Hmay : (if af then None else known_get (dslot / spe pr) kn_all) = Some (sf, ds)).
    { destruct af; [discriminate|]. apply Hsubset. exact Hsub. }
    unfold P_att. cbv zeta. rewrite Hsub, Hmay.
    set (info := subscription_info (agg_target pr) (sign_ok_of sf) ds) in *.
    set (jobs := attest_run pr info cur (acct_ok_of no_acct) base atts) in *.
    destruct Hinv as [ND W].
    destruct (attest_run_main pr info cur (acct_ok_of no_acct) base atts ND) as ([new Enew] & ND' & Hcomp & _).
    fold jobs in Enew, ND', Hcomp.
    assert (JS : forall j, In j (map fst jobs') <-> In j jobs).
    { intro j. split; intro Hj; [eapply Permutation_in; [exact Hperm|exact Hj]|
                                 eapply Permutation_in; [apply Permutation_sym, Hperm|exact Hj]]. }
    repeat (apply andb_true_iff; split).
    - apply forallb_forall. intros j Hj. apply (memb_spec job_eqb job_eqb_iff). apply JS.
      rewrite Enew. apply in_or_app. left. eapply Permutation_in; [exact Hprev|exact Hj].
    - apply nodupb_iff. eapply Permutation_NoDup; [apply Permutation_sym, Permutation_map, Hperm|]. exact ND'.
    - apply P_att_snd.
    - apply forallb_forall. intros j Hj. apply JS in Hj. apply orb_true_iff.
      apply attest_run_sound in Hj as [Hj|(a & e & Ha & He & -> & _)].
      + left. apply memb_pair_iff. apply in_map. eapply Permutation_in; [apply Permutation_sym, Hprev|exact Hj].
      + right. apply elig_some_iff in He as (F & Hc & A & B).
        pose proof F as F'. apply find_sub_some in F' as (Hi & Fs & Fc).
        destruct (info_entry_in _ _ _ _ Hi) as (d & Hd & He & _). rewrite Fs, Fc in Hd.
        destruct Hd as (D1 & D2 & D3 & D4).
        cbn [mk_job jkey j_slot j_comm j_time j_dslot j_root j_val j_sig].
        repeat (apply andb_true_iff; split).
        * apply existsb_exists. exists a. split; [exact Ha|]. rewrite N.eqb_refl, andb_true_r.
          apply pair_eqb_iff. reflexivity.
        * apply N.leb_le. exact Hc.
        * apply N.eqb_eq. reflexivity.
        * apply N.eqb_eq. exact Fs.
        * exact D4.
        * exact B.
        * apply existsb_exists. exists d. split; [exact D1|].
          rewrite He. cbn [mk_sub s_val s_sig]. rewrite !N.eqb_refl, andb_true_r. cbn [andb].
          apply andb_true_iff. split; [apply pair_eqb_iff; rewrite jkey_mk_job; unfold dkey, akey; congruence|].
          destruct (consistent ds) eqn:C; [|reflexivity]. cbn [negb orb]. apply consistent_iff in C.
          rewrite <- (agg_of_selected (agg_target pr) ds d C G D1). rewrite He in A. exact A.
    - destruct (consistent ds) eqn:C; [|reflexivity]. cbn [negb orb]. apply consistent_iff in C.
      apply forallb_forall. intros a Ha.
      set (sel := filter (fun d => pair_eqb (dkey d) (a_slot a, a_comm a) && selected (agg_target pr) d) ds).
      destruct ((cur <=? a_slot a) && sign_ok_of sf (a_slot a) &&
                negb (match sel with [] => true | _ => false end) &&
                forallb (fun d => acct_ok_of no_acct (d_val d)) sel) eqn:E; [|reflexivity].
      cbn [implb]. repeat (apply andb_true_iff in E as [E ?]).
      apply N.leb_le in E.
      destruct sel as [|d sel'] eqn:Esel; [discriminate|].
      assert (Hd : In d sel) by (rewrite Esel; left; reflexivity).
      apply filter_In in Hd as [D1 D2]. apply andb_true_iff in D2 as [D2 D3].
      apply pair_eqb_iff in D2. unfold dkey in D2. injection D2 as K1 K2.
      assert (DF : duty_for (sign_ok_of sf) ds (a_slot a) (a_comm a) d) by (unfold duty_for; auto).
      destruct (selected_committee_gets_job pr (sign_ok_of sf) ds cur (acct_ok_of no_acct) base atts a d
                  C G ND Ha E DF D3) as (j & Hj & Kj & _).
      { intros d' (I1 & I2 & I3 & I4) Hs'.
        match goal with X : forallb _ (d :: sel') = true |- _ => rewrite forallb_forall in X; apply X end.
        rewrite <- Esel. apply filter_In. split; [exact I1|]. rewrite Hs', andb_true_r.
        apply pair_eqb_iff. unfold dkey. congruence. }
      apply memb_pair_iff. change (a_slot a, a_comm a) with (akey a). rewrite <- Kj.
      apply in_map. apply JS. exact Hj.
  Qed.
End ModelPAtt.

(* --- the history --- *)
Definition info_of (pr : params) (v : list N * list duty) : list sub :=
  subscription_info (agg_target pr) (sign_ok_of (fst v)) (snd v).

Definition inv_infos (pr : params) (st : state) (kn : known) : Prop :=
  forall ep, get_info ep (st_infos st) = option_map (info_of pr) (known_get ep kn).

Definition kn_digests (kn : known) : Prop :=
  forall ep sf ds, known_get ep kn = Some (sf, ds) -> digests_ok ds /\ ep + 1 < two64.

(* proper inputs: byte-valued digests, and no subscription for the epoch 2^64-1 (FAR_FUTURE_EPOCH),
   the only one for which the code's uint64 "subscriptionEpoch+1 < epoch" differs from the plain
   comparison *)
Definition op_digests (o : op) : Prop :=
  match o with
  | OSub ep _ _ _ _ ds => digests_ok ds /\ ep + 1 < two64
  | OAtt _ _ _ _ _ => True
  | OHead _ _ => True
  end.

Lemma known_get_filter : forall ep ep' kn, ep <> ep' ->
  known_get ep' (filter (fun x => negb (fst x =? ep)) kn) = known_get ep' kn.
Proof.
  intros ep ep' kn Hne. induction kn as [|[e v] kn IH]; [reflexivity|]. cbn [filter fst known_get].
  destruct (N.eqb_spec e ep) as [E|E]; cbn [negb].
  - subst e. destruct (N.eqb_spec ep ep'); [contradiction|exact IH].
  - cbn [known_get]. rewrite IH. reflexivity.
Qed.

Lemma known_get_set : forall ep ep' v kn,
  known_get ep' (known_set ep v kn) = if ep =? ep' then Some v else known_get ep' kn.
Proof.
  intros ep ep' v kn. unfold known_set. cbn [known_get].
  destruct (N.eqb_spec ep ep') as [E|E]; [reflexivity|]. apply known_get_filter. exact E.
Qed.

Lemma inv_infos_set : forall pr st kn ep v jobs,
  inv_infos pr st kn ->
  inv_infos pr {| st_infos := set_info ep (info_of pr v) (st_infos st); st_jobs := jobs |} (known_set ep v kn).
Proof.
  intros pr st kn ep v jobs I ep'. cbn [st_infos]. rewrite get_set_info, known_get_set.
  destruct (ep =? ep'); [reflexivity|apply I].
Qed.

Lemma kn_digests_set : forall kn ep sf ds, kn_digests kn -> digests_ok ds -> ep + 1 < two64 ->
  kn_digests (known_set ep (sf, ds) kn).
Proof.
  intros kn ep sf ds K G B ep' sf' ds' H. rewrite known_get_set in H.
  destruct (N.eqb_spec ep ep') as [E|E]; [injection H as <- <-; subst ep'; split; assumption|eapply K; exact H].
Qed.

(* --- head events --- *)
Lemma known_get_prune : forall ep hepoch kn,
  known_get ep (known_prune hepoch kn) = if old_epoch ep hepoch then None else known_get ep kn.
Proof.
  intros ep hepoch kn. unfold known_prune. induction kn as [|[k w] kn IH]; cbn [filter fst known_get].
  - destruct (old_epoch ep hepoch); reflexivity.
  - destruct (old_epoch k hepoch) eqn:S; cbn [negb known_get].
    + rewrite IH. destruct (N.eqb_spec k ep) as [E|E]; [subst k; rewrite S|]; reflexivity.
    + destruct (N.eqb_spec k ep) as [E|E]; [subst k; rewrite S; reflexivity|exact IH].
Qed.

Lemma inv_infos_prune : forall pr st kn hepoch jobs,
  inv_infos pr st kn -> kn_digests kn ->
  inv_infos pr {| st_infos := prune_infos hepoch (st_infos st); st_jobs := jobs |} (known_prune hepoch kn).
Proof.
  intros pr st kn hepoch jobs I K ep. cbn [st_infos]. rewrite get_info_prune, known_get_prune.
  specialize (I ep). destruct (known_get ep kn) as [[sf ds]|] eqn:E.
  - destruct (K ep sf ds E) as [_ B]. rewrite (stale64_spec ep hepoch B). unfold old_epoch.
    destruct (ep + 1 <? hepoch); [reflexivity|exact I].
  - rewrite I. destruct (stale64 ep hepoch), (old_epoch ep hepoch); reflexivity.
Qed.

Lemma kn_digests_prune : forall kn hepoch, kn_digests kn -> kn_digests (known_prune hepoch kn).
Proof.
  intros kn hepoch K ep sf ds H. rewrite known_get_prune in H.
  destruct (old_epoch ep hepoch); [discriminate|eapply K; exact H].
Qed.

Lemma get_info_in_keys : forall ep m v, get_info ep m = Some v -> In ep (map fst m).
Proof.
  intros ep m v. induction m as [|[k w] m IH]; cbn [get_info map fst]; [discriminate|].
  destruct (N.eqb_spec k ep) as [E|E]; [left; exact E|right; apply IH; assumption].
Qed.

Lemma known_get_in : forall kn x, In x kn -> exists v, known_get (fst x) kn = Some v.
Proof.
  intros kn x. induction kn as [|[k w] kn IH]; [intros []|]. intros [E|H]; cbn [known_get].
  - subst x. cbn [fst]. rewrite N.eqb_refl. eauto.
  - destruct (k =? fst x); [eauto|apply IH; exact H].
Qed.

Lemma P_head_sound : forall pr kn hslot cur infos,
  P_head pr kn hslot cur infos = true ->
  forall ep v, In (ep, v) kn -> (hslot <> cur \/ hslot / spe pr <= ep + 1) -> In ep (map fst infos).
Proof.
  intros pr kn hslot cur infos H ep v Hin Hk. unfold P_head in H. rewrite forallb_forall in H.
  specialize (H (ep, v) Hin). cbn [fst] in H.
  assert (E : head_effective hslot cur && old_epoch ep (hslot / spe pr) = false).
  { unfold head_effective, old_epoch. destruct Hk as [Hk|Hk].
    - destruct (N.eqb_spec hslot cur); [contradiction|reflexivity].
    - destruct (N.ltb_spec (ep + 1) (hslot / spe pr)); [lia|apply andb_false_r]. }
  rewrite E in H. cbn [negb implb] in H. apply (memb_spec N.eqb N.eqb_eq). exact H.
Qed.

(* the model's head step satisfies P_head on any listing of its information whose epochs are the
   model's *)
Lemma model_satisfies_P_head : forall pr st kn hslot cur infos',
  inv_infos pr st kn -> kn_digests kn ->
  (forall ep, In ep (map fst (st_infos (fst (step pr st (OHead hslot cur))))) -> In ep (map fst infos')) ->
  P_head pr kn hslot cur infos' = true.
Proof.
  intros pr st kn hslot cur infos' I K Hk. unfold P_head. apply forallb_forall. intros x Hx.
  destruct (head_effective hslot cur && old_epoch (fst x) (hslot / spe pr)) eqn:E; [reflexivity|].
  cbn [negb implb]. apply (memb_spec N.eqb N.eqb_eq). apply Hk.
  destruct (known_get_in kn x Hx) as [[sf ds] Hv]. destruct (K _ _ _ Hv) as [_ B].
  pose proof (I (fst x)) as Ix. rewrite Hv in Ix. cbn [option_map] in Ix.
  cbn [step]. unfold head_effective in E. destruct (hslot =? cur); cbn [fst st_infos].
  - cbn [andb] in E. eapply get_info_in_keys. rewrite get_info_prune, (stale64_spec _ _ B).
    unfold old_epoch in E. rewrite E. exact Ix.
  - eapply get_info_in_keys. exact Ix.
Qed.

Lemma step_att_jobs : forall pr st kn dslot cur af na atts,
  inv_infos pr st kn ->
  let r := step pr st (OAtt dslot cur af na atts) in
  snd r = OutAtt (st_jobs (fst r)) /\ st_infos (fst r) = st_infos st /\
  st_jobs (fst r) =
    match (if af then None else known_get (dslot / spe pr) kn) with
    | None => st_jobs st
    | Some (sf, ds) => attest_run pr (subscription_info (agg_target pr) (sign_ok_of sf) ds) cur
                                  (acct_ok_of na) (st_jobs st) atts
    end.
Proof.
  intros pr st kn dslot cur af na atts I. cbn [step]. destruct af; [cbn; auto|].
  specialize (I (dslot / spe pr)).
  destruct atts as [|a atts].
  - cbn [fst snd]. split; [reflexivity|]. split; [reflexivity|].
    destruct (known_get (dslot / spe pr) kn) as [[sf ds]|]; reflexivity.
  - rewrite I. destruct (known_get (dslot / spe pr) kn) as [[sf ds]|]; cbn [option_map fst snd st_jobs st_infos]; auto.
Qed.

Lemma list_eqb_subscription : forall l1 l2 : list (list subscription),
  list_eqb (list_eqb subscription_eqb) l1 l2 = true -> l1 = l2.
Proof.
  intros l1 l2 H. apply (list_eqb_spec (list_eqb subscription_eqb)); [|exact H].
  intros x y. apply list_eqb_spec. apply subscription_eqb_iff.
Qed.

Definition kn_subset (kn kn_all : known) : Prop :=
  forall ep v, known_get ep kn = Some v -> known_get ep kn_all = Some v.

Lemma kn_subset_set : forall kn kn_all ep v,
  kn_subset kn kn_all -> kn_subset (known_set ep v kn) (known_set ep v kn_all).
Proof.
  intros kn kn_all ep v S ep' v'. rewrite !known_get_set. destruct (ep =? ep'); [auto|apply S].
Qed.

Lemma kn_subset_prune : forall kn kn_all hepoch,
  kn_subset kn kn_all -> kn_subset (known_prune hepoch kn) kn_all.
Proof.
  intros kn kn_all hepoch S ep v. rewrite known_get_prune. destruct (old_epoch ep hepoch); [discriminate|apply S].
Qed.

Lemma agree_implies_spec_ok : forall pr ops st kn_all kn prev obs,
  kn_subset kn kn_all ->
  inv_infos pr st kn -> kn_digests kn -> Permutation prev (st_jobs st) -> jobs_inv pr (st_jobs st) ->
  Forall op_digests ops ->
  outs_agree (snd (run pr st ops)) obs = true ->
  spec_ok pr kn_all kn prev ops obs = true.
Proof.
  intros pr ops. induction ops as [|o ops IH]; intros st kn_all kn prev obs S I K P J D A.
  - cbn [run snd outs_agree] in A. destruct obs; [reflexivity|discriminate].
  - inversion D as [|? ? Do D']; subst.
    cbn [run] in A. destruct (step pr st o) as [st1 x] eqn:Es.
    destruct (run pr st1 ops) as [st2 xs] eqn:Er. cbn [snd outs_agree] in A.
    destruct obs as [|ob obs]; [discriminate|]. apply andb_true_iff in A as [A1 A2].
    assert (A2' : outs_agree (snd (run pr st1 ops)) obs = true) by (rewrite Er; exact A2).
    destruct o as [ep cur0 na df sf ds|dslot cur0 af na atts|hslot cur0].
    3: { (* head event *)
      assert (Ex : x = OutHead (st_infos st1) /\ st_jobs st1 = st_jobs st /\
                   st1 = fst (step pr st (OHead hslot cur0))).
      { rewrite Es. cbn [step] in Es. destruct (hslot =? cur0); injection Es as <- <-; cbn [fst st_infos st_jobs]; auto. }
      destruct Ex as (-> & Ej & E1).
      destruct ob as [| |infos' len'|]; try discriminate. cbn [out_agrees] in A1.
      apply andb_true_iff in A1 as [A1 _]. apply andb_true_iff in A1 as [A1 _].
      apply (list_eqb_spec N.eqb N.eqb_eq) in A1.
      cbn [spec_ok]. apply andb_true_iff. split.
      - apply (model_satisfies_P_head pr st kn hslot cur0 infos' I K). rewrite <- E1, <- A1.
        intros ep Hep. eapply Permutation_in; [apply Permutation_sym, Permutation_map, sort_by_perm|exact Hep].
      - rewrite <- Ej in P, J. cbn [step] in E1. unfold head_effective.
        destruct (hslot =? cur0); cbn [fst] in E1; subst st1.
        + refine (IH _ _ _ _ _ _ _ _ P J D' A2');
            [apply kn_subset_prune; exact S|apply inv_infos_prune; assumption|apply kn_digests_prune; exact K].
        + exact (IH _ _ _ _ _ S I K P J D' A2'). }
    + (* subscribe *)
      cbn [step] in Es. cbn [spec_ok].
      destruct na.
      * injection Es as <- <-. destruct ob as [calls' stored'| | |]; try discriminate.
        cbn [out_agrees] in A1. apply andb_true_iff in A1 as [A1 _]. apply list_eqb_subscription in A1. subst calls'.
        cbn [map]. rewrite P_sub_nothing by reflexivity. cbn [andb].
        refine (IH _ _ _ _ _ _ _ _ _ _ D' A2'); [apply kn_subset_set; exact S| | |exact P|exact J].
        -- apply (inv_infos_set pr st kn ep ([], []) (st_jobs st)). exact I.
        -- apply kn_digests_set; [exact K| |apply Do]. intros d [].
      * destruct df.
        -- injection Es as <- <-. destruct ob as [calls' stored'| | |]; try discriminate.
           cbn [out_agrees] in A1. apply andb_true_iff in A1 as [A1 _]. apply list_eqb_subscription in A1. subst calls'.
           cbn [map]. rewrite P_sub_nothing by reflexivity. cbn [andb].
           exact (IH _ _ _ _ _ S I K P J D' A2').
        -- injection Es as <- <-. destruct ob as [calls' stored'| | |]; try discriminate.
           cbn [out_agrees] in A1. apply andb_true_iff in A1 as [A1 _]. apply list_eqb_subscription in A1. subst calls'.
           cbn [map]. cbn [op_digests] in Do.
           destruct Do as [Do Db].
           rewrite model_satisfies_P_sub_perm; [|exact Do|apply sort_by_perm]. cbn [andb].
           refine (IH _ _ _ _ _ _ _ _ _ _ D' A2'); [apply kn_subset_set; exact S| | |exact P|exact J].
           ++ apply (inv_infos_set pr st kn ep (sf, ds) (st_jobs st)). exact I.
           ++ apply kn_digests_set; assumption.
    + (* attest *)
      destruct (step_att_jobs pr st kn dslot cur0 af na atts I) as (R1 & R2 & R3).
      rewrite Es in R1, R2, R3. cbn [fst snd] in R1, R2, R3. subst x.
      destruct ob as [|jobs'| |]; try discriminate. cbn [out_agrees] in A1.
      apply andb_true_iff in A1 as [A1 A1'].
      apply (list_eqb_spec job_eqb job_eqb_iff) in A1.
      assert (Hperm : Permutation (map fst jobs') (st_jobs st1)) by (rewrite <- A1; apply sort_by_perm).
      assert (Hsnd : forall jo, In jo jobs' -> snd jo = Some (aggregate_out (fst jo))).
      { intros jo Hjo. rewrite forallb_forall in A1'. specialize (A1' jo Hjo).
        apply (option_eqb_spec quad_eqb quad_eqb_iff) in A1'. exact A1'. }
      cbn [spec_ok]. apply andb_true_iff. split.
      * destruct (if af then None else known_get (dslot / spe pr) kn) as [[sf ds]|] eqn:Esub.
        -- eapply P_att_model_some; try eassumption.
           ++ destruct af; [discriminate|]. eapply K. exact Esub.
           ++ rewrite <- R3. exact Hperm.
        -- eapply P_att_model_none; try eassumption. rewrite <- R3. exact Hperm.
      * refine (IH _ _ _ _ _ S _ K _ _ D' A2'); [|exact Hperm|].
        -- intro ep. rewrite R2. apply I.
        -- pose proof (proj2 (step_jobs pr st (OAtt dslot cur0 af na atts)) J) as J1. rewrite Es in J1. exact J1.
Qed.

Definition case_digests_ok (c : case) : Prop := Forall op_digests (c_ops c).

(* violations are a subset of mismatches *)
Lemma agree_implies_P_b : forall c, case_digests_ok c -> agree c = true -> P_b c = true.
Proof.
  intros c D A. unfold P_b, agree in *. eapply agree_implies_spec_ok; try eassumption.
  - intros ep v H. exact H.
  - intro ep. reflexivity.
  - intros ep sf ds H. discriminate.
  - apply Permutation_refl.
  - apply init_inv.
Qed.
