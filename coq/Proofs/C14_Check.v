(* C14 -- the boolean property predicate of the correspondence check (Check/C14.v, P_sub) against the
   Prop-level statements: P_sub is sound (true on an observed payload implies the property of that
   payload, without any reference to the model) and the model always satisfies it (so the predicate
   cannot fire on an implementation that agrees with the model). *)
From Verif Require Import Lib.Base Model.C14_Subscriptions Model.C14_Spec Proofs.C14 Check.C14.
From Coq Require Import ZifyBool ZifyN ZifyNat.

Lemma pair_eqb_iff : forall p q : N * N, pair_eqb p q = true <-> p = q.
Proof. apply prod_eqb_spec; apply N.eqb_eq. Qed.

Lemma nodupb_iff : forall l : list (N * N), nodupb pair_eqb l = true <-> NoDup l.
Proof.
  induction l as [|x l IH]; cbn [nodupb].
  - split; [constructor|reflexivity].
  - rewrite andb_true_iff, negb_true_iff, IH. split.
    + intros [H1 H2]. constructor; [|exact H2]. intro Hi.
      apply (memb_spec pair_eqb pair_eqb_iff) in Hi. congruence.
    + intro ND. inversion ND as [|? ? Hn ND']; subst. split; [|exact ND'].
      destruct (memb pair_eqb x l) eqn:E; [|reflexivity].
      apply (memb_spec pair_eqb pair_eqb_iff) in E. contradiction.
Qed.

Lemma memb_pair_iff : forall (k : N * N) l, memb pair_eqb k l = true <-> In k l.
Proof. intros. apply (memb_spec pair_eqb pair_eqb_iff). Qed.

Lemma consistent_iff : forall ds, consistent ds = true <-> consistent_duties ds.
Proof.
  intro ds. unfold consistent, consistent_duties. rewrite forallb_forall. split.
  - intros H a b Ha Hb E. specialize (H a Ha). rewrite forallb_forall in H. specialize (H b Hb).
    rewrite (proj2 (N.eqb_eq _ _) E) in H. apply andb_true_iff in H as [H1 H2].
    apply N.eqb_eq in H1. split; [exact H1|]. intro Ec. rewrite (proj2 (N.eqb_eq _ _) Ec) in H2.
    apply N.eqb_eq in H2. exact H2.
  - intros H a Ha. rewrite forallb_forall. intros b Hb.
    destruct (N.eqb_spec (d_slot a) (d_slot b)) as [E|E]; [|reflexivity].
    destruct (H a b Ha Hb E) as [H1 H2]. rewrite (proj2 (N.eqb_eq _ _) H1). cbn [andb].
    destruct (N.eqb_spec (d_comm a) (d_comm b)) as [Ec|Ec]; [|reflexivity].
    apply N.eqb_eq. apply H2. exact Ec.
Qed.

(* the duties expected to be subscribed, as P_sub computes them *)
Definition exp_of (cur : N) (sign_fail : list N) (ds : list duty) : list duty :=
  filter (fun d => (cur <? d_slot d) && sign_ok_of sign_fail (d_slot d)) ds.

Lemma in_exp_of : forall cur sf ds d,
  In d (exp_of cur sf ds) <-> cur < d_slot d /\ duty_for (sign_ok_of sf) ds (d_slot d) (d_comm d) d.
Proof.
  intros cur sf ds d. unfold exp_of, duty_for. rewrite filter_In, andb_true_iff, N.ltb_lt. tauto.
Qed.

Lemma in_map_dkey_exp : forall cur sf ds s c,
  In (s, c) (map dkey (exp_of cur sf ds)) <-> cur < s /\ exists d, duty_for (sign_ok_of sf) ds s c d.
Proof.
  intros cur sf ds s c. rewrite in_map_iff. split.
  - intros (d & K & Hd). apply in_exp_of in Hd as [Hc Hd]. unfold dkey in K. injection K as <- <-.
    split; [exact Hc|]. exists d. exact Hd.
  - intros (Hc & d & Hd). exists d. destruct Hd as (H1 & H2 & H3 & H4). subst s c.
    split; [reflexivity|]. apply in_exp_of. unfold duty_for. auto.
Qed.

(* P_sub, unfolded into its five conjuncts for a successful subscribe *)
Lemma P_sub_unfold : forall tgt cur sf ds calls,
  P_sub tgt cur false false sf ds calls =
  (let entries := concat calls in
   let keys := map (fun p => (p_slot p, p_comm p)) entries in
   let exp := exp_of cur sf ds in
   let cons := consistent ds in
   nodupb pair_eqb keys &&
   forallb (fun k => memb pair_eqb k (map dkey exp)) keys &&
   forallb (fun d => memb pair_eqb (dkey d) keys) exp &&
   forallb (fun p => existsb (fun d =>
             (d_val d =? p_val p) && pair_eqb (dkey d) (p_slot p, p_comm p) &&
             (negb cons || ((p_cas p =? d_cas d) && Bool.eqb (p_agg p) (selected tgt d)))) exp) entries &&
   (negb cons ||
    forallb (fun p => implb (existsb (fun d => pair_eqb (dkey d) (p_slot p, p_comm p) && selected tgt d) exp)
                            (p_agg p)) entries)).
Proof. reflexivity. Qed.

(* Soundness: the predicate evaluated on an observed submission implies the property of that
   submission -- exactly the pairs with a future duty, once each, each naming a validator with the
   duty, its committees_at_slot and the specification's flag, aggregator if any validator is. *)
Lemma P_sub_sound : forall tgt cur sf ds calls,
  P_sub tgt cur false false sf ds calls = true ->
  let entries := concat calls in
  NoDup (map pkey entries) /\
  (forall s c, In (s, c) (map pkey entries) <-> cur < s /\ exists d, duty_for (sign_ok_of sf) ds s c d) /\
  (forall p, In p entries ->
     exists d, duty_for (sign_ok_of sf) ds (p_slot p) (p_comm p) d /\ cur < p_slot p /\ p_val p = d_val d /\
       (consistent_duties ds -> p_cas p = d_cas d /\ p_agg p = selected tgt d)) /\
  (consistent_duties ds ->
     forall p d, In p entries -> duty_for (sign_ok_of sf) ds (p_slot p) (p_comm p) d -> cur < p_slot p ->
                 selected tgt d = true -> p_agg p = true).
Proof.
  intros tgt cur sf ds calls H entries. rewrite P_sub_unfold in H. cbv zeta in H. fold entries in H.
  change (map (fun p => (p_slot p, p_comm p)) entries) with (map pkey entries) in H.
  apply andb_true_iff in H as [H H5]. apply andb_true_iff in H as [H H4].
  apply andb_true_iff in H as [H H3]. apply andb_true_iff in H as [H1 H2].
  apply nodupb_iff in H1. rewrite forallb_forall in H2, H3, H4.
  split; [exact H1|]. split; [|split].
  - intros s c. rewrite <- in_map_dkey_exp. split.
    + intro Hi. apply memb_pair_iff. apply H2. exact Hi.
    + intro Hi. apply in_map_iff in Hi as (d & K & Hd). rewrite <- K. apply memb_pair_iff. apply H3. exact Hd.
  - intros p Hp. specialize (H4 p Hp). apply existsb_exists in H4 as (d & Hd & Hb).
    apply andb_true_iff in Hb as [Hb Hc]. apply andb_true_iff in Hb as [Hv Hk].
    apply N.eqb_eq in Hv. apply pair_eqb_iff in Hk. unfold dkey in Hk. injection Hk as K1 K2.
    apply in_exp_of in Hd as [Hcur Hd]. rewrite K1, K2 in Hd. rewrite K1 in Hcur.
    exists d. split; [exact Hd|]. split; [exact Hcur|]. split; [symmetry; exact Hv|].
    intro C. apply consistent_iff in C. rewrite C in Hc. cbn [negb orb] in Hc.
    apply andb_true_iff in Hc as [Hc1 Hc2]. apply N.eqb_eq in Hc1. apply eqb_prop in Hc2. auto.
  - intros C p d Hp Hd Hcur Hs. pose proof C as C'. apply consistent_iff in C'. rewrite C' in H5.
    cbn [negb orb] in H5. rewrite forallb_forall in H5. specialize (H5 p Hp).
    destruct (p_agg p); [reflexivity|]. exfalso.
    assert (E : existsb (fun d => pair_eqb (dkey d) (p_slot p, p_comm p) && selected tgt d) (exp_of cur sf ds) = true).
    { apply existsb_exists. exists d. destruct Hd as (G1 & G2 & G3 & G4). split.
      - apply in_exp_of. rewrite G2. split; [exact Hcur|]. unfold duty_for. rewrite G2, G3. auto.
      - rewrite Hs, andb_true_r. apply pair_eqb_iff. unfold dkey. rewrite G2, G3. reflexivity. }
    rewrite E in H5. discriminate.
Qed.

(* Completeness on the model: for every duty list with proper digests the model's own submission
   satisfies P_sub, so P_sub cannot fire while the implementation agrees with the model. *)
Lemma model_satisfies_P_sub : forall tgt cur sf ds,
  digests_ok ds ->
  P_sub tgt cur false false sf ds [to_submit cur (subscription_info tgt (sign_ok_of sf) ds)] = true.
Proof.
  intros tgt cur sf ds G. rewrite P_sub_unfold. cbv zeta.
  cbn [concat]. rewrite app_nil_r.
  set (payload := to_submit cur (subscription_info tgt (sign_ok_of sf) ds)).
  change (map (fun p => (p_slot p, p_comm p)) payload) with (map pkey payload).
  pose proof (submitted_nodup tgt (sign_ok_of sf) ds cur) as ND. fold payload in ND.
  pose proof (submitted_pairs tgt (sign_ok_of sf) ds cur) as HP. fold payload in HP.
  repeat (apply andb_true_iff; split).
  - apply nodupb_iff. exact ND.
  - apply forallb_forall. intros [s c] Hk. apply memb_pair_iff. apply in_map_dkey_exp. apply HP. exact Hk.
  - apply forallb_forall. intros d Hd. apply memb_pair_iff. unfold dkey. apply HP.
    apply in_exp_of in Hd as [Hc Hd]. split; [exact Hc|]. exists d. exact Hd.
  - apply forallb_forall. intros p Hp. apply existsb_exists.
    destruct (consistent ds) eqn:C.
    + apply consistent_iff in C.
      destruct (submitted_entry_consistent tgt _ ds cur p C G Hp) as (d & Hd & Hv & Hc & Ha).
      pose proof (submitted_entry tgt _ ds cur p Hp) as [Hcur _].
      exists d. destruct Hd as (G1 & G2 & G3 & G4). split.
      * apply in_exp_of. rewrite G2. split; [exact Hcur|]. unfold duty_for. rewrite G2, G3. auto.
      * cbn [negb orb]. rewrite Hv, N.eqb_refl, Hc, N.eqb_refl, Ha, eqb_reflx, !andb_true_r.
        apply pair_eqb_iff. unfold dkey. rewrite G2, G3. reflexivity.
    + destruct (submitted_entry tgt _ ds cur p Hp) as (Hcur & d & Hd & Hv & _).
      exists d. destruct Hd as (G1 & G2 & G3 & G4). split.
      * apply in_exp_of. rewrite G2. split; [exact Hcur|]. unfold duty_for. rewrite G2, G3. auto.
      * cbn [negb orb]. rewrite Hv, N.eqb_refl, !andb_true_r.
        apply pair_eqb_iff. unfold dkey. rewrite G2, G3. reflexivity.
  - destruct (consistent ds) eqn:C; [|reflexivity]. cbn [negb orb]. apply consistent_iff in C.
    apply forallb_forall. intros p Hp.
    destruct (existsb (fun d => pair_eqb (dkey d) (p_slot p, p_comm p) && selected tgt d) (exp_of cur sf ds)) eqn:E;
      [|reflexivity].
    cbn [implb]. apply existsb_exists in E as (d & Hd & Hb). apply andb_true_iff in Hb as [Hk Hs].
    apply pair_eqb_iff in Hk. unfold dkey in Hk. injection Hk as K1 K2.
    apply in_exp_of in Hd as [Hcur Hd]. rewrite K1, K2 in Hd.
    destruct (recorded_aggregator_spec tgt _ ds _ _ d cur C G Hd Hs) as (e & d' & F & A & _ & _ & _ & _ & Hin).
    rewrite K1 in Hcur. specialize (Hin Hcur). fold payload in Hin.
    apply find_sub_some in F as (_ & F1 & F2).
    assert (p = to_subscription e).
    { apply (nodup_key_unique pkey payload); try assumption. unfold pkey. cbn [to_subscription p_slot p_comm].
      rewrite F1, F2. reflexivity. }
    subst p. cbn [to_subscription p_agg]. exact A.
Qed.

(* ------------------------------------------------------------------------------------------- *)
(* P_att *)

Lemma job_eqb_iff : forall a b, job_eqb a b = true <-> a = b.
Proof.
  intros [a1 a2 a3 a4 a5 a6 a7] [b1 b2 b3 b4 b5 b6 b7]. unfold job_eqb. cbn.
  rewrite !andb_true_iff, !N.eqb_eq. split.
  - intros [[[[[[-> ->] ->] ->] ->] ->] ->]. reflexivity.
  - intro H. injection H as -> -> -> -> -> -> ->. repeat split.
Qed.

Lemma quad_eqb_iff : forall a b, quad_eqb a b = true <-> a = b.
Proof.
  intros [[[a1 a2] a3] a4] [[[b1 b2] b3] b4]. unfold quad_eqb.
  rewrite !andb_true_iff, !N.eqb_eq. split.
  - intros [[[-> ->] ->] ->]. reflexivity.
  - intro H. injection H as -> -> -> ->. repeat split.
Qed.

Lemma P_att_unfold : forall pr kn prev dslot cur no_acct atts jobs,
  P_att pr kn prev dslot cur false no_acct atts jobs =
  (let js := map fst jobs in
   let sub := known_get (dslot / spe pr) kn in
   forallb (fun j => memb job_eqb j js) prev &&
   nodupb pair_eqb (map jkey js) &&
   forallb (fun jo => option_eqb quad_eqb (snd jo)
                        (Some (j_dslot (fst jo), j_root (fst jo), j_val (fst jo), j_sig (fst jo)))) jobs &&
   forallb (fun j =>
     memb pair_eqb (jkey j) (map jkey prev) ||
     match sub with
     | None => false
     | Some (sign_fail, ds) =>
         existsb (fun a => pair_eqb (a_slot a, a_comm a) (jkey j) && (a_root a =? j_root j)) atts &&
         (cur <=? j_slot j) &&
         (j_time j =? j_slot j * slot_ms pr + delay_ms pr) &&
         (j_dslot j =? j_slot j) &&
         sign_ok_of sign_fail (j_slot j) &&
         acct_ok_of no_acct (j_val j) &&
         existsb (fun d => (d_val d =? j_val j) && pair_eqb (dkey d) (jkey j) && (d_sig d =? j_sig j) &&
                           (negb (consistent ds) || selected (agg_target pr) d)) ds
     end) js &&
   match sub with
   | None => true
   | Some (sign_fail, ds) =>
       negb (consistent ds) ||
       forallb (fun a =>
         let sel := filter (fun d => pair_eqb (dkey d) (a_slot a, a_comm a) && selected (agg_target pr) d) ds in
         implb ((cur <=? a_slot a) && sign_ok_of sign_fail (a_slot a) &&
                negb (match sel with [] => true | _ => false end) &&
                forallb (fun d => acct_ok_of no_acct (d_val d)) sel)
               (memb pair_eqb (a_slot a, a_comm a) (map jkey js))) atts
   end).
Proof. reflexivity. Qed.

(* Soundness of the predicate on an observed attest step: nothing scheduled before is lost; job
   names are distinct; the real Aggregate ran with the duty the job carries; every new job is for
   an attested committee, not in the past, at StartOfSlot + delay, for one of our validators that
   has that duty with its own slot signature (selected, when the answer was self-consistent); and
   every attested committee with a selected validator (accounts obtainable) has a job. *)
Lemma P_att_sound : forall pr kn prev dslot cur no_acct atts jobs,
  P_att pr kn prev dslot cur false no_acct atts jobs = true ->
  let js := map fst jobs in
  (forall j, In j prev -> In j js) /\
  NoDup (map jkey js) /\
  (forall j o, In (j, o) jobs -> o = Some (j_dslot j, j_root j, j_val j, j_sig j)) /\
  (forall j, In j js -> ~ In (jkey j) (map jkey prev) ->
     exists sf ds, known_get (dslot / spe pr) kn = Some (sf, ds) /\
       (exists a, In a atts /\ akey a = jkey j /\ a_root a = j_root j) /\
       cur <= j_slot j /\ j_time j = j_slot j * slot_ms pr + delay_ms pr /\ j_dslot j = j_slot j /\
       acct_ok_of no_acct (j_val j) = true /\
       exists d, duty_for (sign_ok_of sf) ds (j_slot j) (j_comm j) d /\ d_val d = j_val j /\ d_sig d = j_sig j /\
                 (consistent_duties ds -> selected (agg_target pr) d = true)) /\
  (forall sf ds, known_get (dslot / spe pr) kn = Some (sf, ds) -> consistent_duties ds ->
     forall a d, In a atts -> cur <= a_slot a ->
       duty_for (sign_ok_of sf) ds (a_slot a) (a_comm a) d -> selected (agg_target pr) d = true ->
       (forall d', In d' ds -> dkey d' = akey a -> selected (agg_target pr) d' = true ->
                   acct_ok_of no_acct (d_val d') = true) ->
       In (akey a) (map jkey js)).
Proof.
  intros pr kn prev dslot cur no_acct atts jobs H js. rewrite P_att_unfold in H. cbv zeta in H. fold js in H.
  apply andb_true_iff in H as [H H5]. apply andb_true_iff in H as [H H4].
  apply andb_true_iff in H as [H H3]. apply andb_true_iff in H as [H1 H2].
  rewrite forallb_forall in H1, H3, H4. apply nodupb_iff in H2.
  split; [|split; [exact H2|split; [|split]]].
  - intros j Hj. apply (memb_spec job_eqb job_eqb_iff). apply H1. exact Hj.
  - intros j o Hjo. specialize (H3 (j, o) Hjo). cbn [fst snd] in H3.
    apply (option_eqb_spec quad_eqb quad_eqb_iff) in H3. exact H3.
  - intros j Hj Hn. specialize (H4 j Hj). apply orb_true_iff in H4 as [H4|H4].
    + apply memb_pair_iff in H4. contradiction.
    + destruct (known_get (dslot / spe pr) kn) as [[sf ds]|]; [|discriminate].
      exists sf, ds. split; [reflexivity|].
      repeat (apply andb_true_iff in H4 as [H4 ?]).
      match goal with X : existsb _ ds = true |- _ => apply existsb_exists in X as (d & Hd & Hb) end.
      apply existsb_exists in H4 as (a & Ha & Hab). apply andb_true_iff in Hab as [Hk Hr].
      apply pair_eqb_iff in Hk. apply N.eqb_eq in Hr.
      repeat (apply andb_true_iff in Hb as [Hb ?]).
      apply N.eqb_eq in Hb.
      match goal with X : pair_eqb (dkey d) (jkey j) = true |- _ => apply pair_eqb_iff in X; rename X into Kd end.
      unfold dkey, jkey in Kd. injection Kd as K1 K2.
      split; [exists a; auto|]. split; [apply N.leb_le; assumption|].
      split; [apply N.eqb_eq; assumption|]. split; [apply N.eqb_eq; assumption|]. split; [assumption|].
      exists d. split; [unfold duty_for; auto|]. split; [exact Hb|]. split; [apply N.eqb_eq; assumption|].
      intro C. apply consistent_iff in C.
      match goal with X : negb (consistent ds) || _ = true |- _ => rewrite C in X; exact X end.
  - intros sf ds K C a d Ha Hc Hd Hs Hacct. rewrite K in H5. pose proof C as C'. apply consistent_iff in C'.
    rewrite C' in H5. cbn [negb orb] in H5. rewrite forallb_forall in H5. specialize (H5 a Ha). cbv zeta in H5.
    set (sel := filter (fun d => pair_eqb (dkey d) (a_slot a, a_comm a) && selected (agg_target pr) d) ds) in *.
    destruct Hd as (G1 & G2 & G3 & G4).
    assert (Hin : In d sel).
    { apply filter_In. split; [exact G1|]. rewrite Hs, andb_true_r. apply pair_eqb_iff. unfold dkey. congruence. }
    assert (Hall : forallb (fun d => acct_ok_of no_acct (d_val d)) sel = true).
    { apply forallb_forall. intros d' Hd'. apply filter_In in Hd' as [I1 I2]. apply andb_true_iff in I2 as [I2 I3].
      apply pair_eqb_iff in I2. apply Hacct; assumption. }
    rewrite Hall, G4, (proj2 (N.leb_le _ _) Hc) in H5.
    destruct sel as [|x sel']; [destruct Hin|]. cbn [negb andb implb] in H5.
    apply memb_pair_iff in H5. exact H5.
Qed.
