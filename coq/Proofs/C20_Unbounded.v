(* The tree before the C20 repairs (fx = false): growth without bound, for EVERY n.
   (The witnesses of Properties/C20.v are instances; here the families are proved for all n.) *)
From Verif Require Import Lib.Base Model.C20_Bookkeeping Proofs.C20_Bookkeeping.
From Coq Require Import ZifyBool ZifyN ZifyNat.

Lemma mem_false_lt x l : (forall k, In k l -> k < x) -> mem x l = false.
Proof. intro H. apply mem_false. intro Hi. specialize (H x Hi). lia. Qed.

Lemma rem_absent x l : ~ In x l -> rem x l = l.
Proof.
  intro H. unfold rem. induction l as [|y l IH]; cbn; [reflexivity|].
  destruct (y =? x) eqn:E.
  - apply N.eqb_eq in E. subst. exfalso. apply H. left. reflexivity.
  - cbn. f_equal. apply IH. intro Hi. apply H. right. exact Hi.
Qed.

Lemma run_cons spe fx o h st : run spe fx (o :: h) st = run spe fx h (step spe fx st o).
Proof. reflexivity. Qed.
Lemma run_app spe fx h1 h2 st : run spe fx (h1 ++ h2) st = run spe fx h2 (run spe fx h1 st).
Proof. unfold run. apply fold_left_app. Qed.
Lemma guarded_cons spe fx g o h st : guarded spe fx g (o :: h) st = g st o && guarded spe fx g h (step spe fx st o).
Proof. reflexivity. Qed.
Lemma guarded_app spe fx g h1 h2 st :
  guarded spe fx g (h1 ++ h2) st = guarded spe fx g h1 st && guarded spe fx g h2 (run spe fx h1 st).
Proof.
  revert st. induction h1 as [|o h1 IH]; intro st; cbn [app guarded]; [reflexivity|].
  rewrite IH, run_cons, andb_assoc. reflexivity.
Qed.

(* --- sync committee maps: n messages in slot order, nothing aggregated ----------------------- *)
Lemma messages_grow spe : forall n s st,
    (forall k, In k (roots st) -> k < s) -> (forall k, In k (sdata st) -> k < s) -> g_msg st <= s ->
    let st' := run spe false (messages n s) st in
    guarded spe false msgs_ok (messages n s) st = true /\
    size (roots st') = size (roots st) + N.of_nat n /\
    size (sdata st') = size (sdata st) + N.of_nat n.
Proof.
  induction n as [|n IH]; intros s st Hr Hd Hg; cbv zeta; cbn [messages].
  - cbn. repeat split; lia.
  - rewrite run_cons, guarded_cons. cbn [msgs_ok].
    set (st1 := step spe false st (OMessage s true)).
    assert (Hroots : roots st1 = s :: roots st).
    { unfold st1; cbn [step roots root_set]. unfold ins. rewrite (mem_false_lt s (roots st) Hr). reflexivity. }
    assert (Hsdata : sdata st1 = s :: sdata st).
    { unfold st1; cbn [step sdata sdata_set]. unfold ins. rewrite (mem_false_lt s (sdata st) Hd). reflexivity. }
    assert (Hmsg : g_msg st1 = s) by reflexivity.
    assert (P1 : forall k, In k (roots st1) -> k < s + 1).
    { intros k Hk. rewrite Hroots in Hk. destruct Hk as [<-|Hk]; [lia | specialize (Hr k Hk); lia]. }
    assert (P2 : forall k, In k (sdata st1) -> k < s + 1).
    { intros k Hk. rewrite Hsdata in Hk. destruct Hk as [<-|Hk]; [lia | specialize (Hd k Hk); lia]. }
    assert (P3 : g_msg st1 <= s + 1) by lia.
    pose proof (IH (s + 1) st1 P1 P2 P3) as H. cbv zeta in H. destruct H as (G & R & D).
    + split; [|split].
      * apply andb_true_intro. split; [lia | exact G].
      * rewrite R, Hroots. unfold size. cbn [length]. lia.
      * rewrite D, Hsdata. unfold size. cbn [length]. lia.
Qed.

Lemma sync_maps_unbounded spe n :
  guarded spe false msgs_ok (messages n 0) init = true /\
  size (roots (run spe false (messages n 0) init)) = N.of_nat n /\
  size (sdata (run spe false (messages n 0) init)) = N.of_nat n.
Proof.
  assert (H1 : forall k, In k (roots init) -> k < 0) by (cbn; tauto).
  assert (H2 : forall k, In k (sdata init) -> k < 0) by (cbn; tauto).
  assert (H3 : g_msg init <= 0) by (cbn; lia).
  pose proof (messages_grow spe n 0 init H1 H2 H3) as H. cbv zeta in H. destruct H as (G & R & D).
  rewrite R, D. cbn. repeat split; try exact G; lia.
Qed.

(* --- builder bids: n auctions in slot order -------------------------------------------------- *)
Lemma auctions_grow spe : forall n s st,
    (forall k, In k (bids st) -> k < s) -> g_auc st <= s ->
    let st' := run spe false (auctions n s) st in
    guarded spe false aucs_ok (auctions n s) st = true /\
    size (bids st') = size (bids st) + N.of_nat n.
Proof.
  induction n as [|n IH]; intros s st Hb Hg; cbv zeta; cbn [auctions].
  - cbn. split; [reflexivity | lia].
  - rewrite run_cons, guarded_cons. cbn [aucs_ok].
    set (st1 := step spe false st (OAuction s)).
    assert (Hbids : bids st1 = s :: bids st).
    { unfold st1; cbn [step bids bid_set]. unfold ins. rewrite (mem_false_lt s (bids st) Hb). reflexivity. }
    assert (P1 : forall k, In k (bids st1) -> k < s + 1).
    { intros k Hk. rewrite Hbids in Hk. destruct Hk as [<-|Hk]; [lia | specialize (Hb k Hk); lia]. }
    assert (P2 : g_auc st1 <= s + 1) by (cbn; lia).
    pose proof (IH (s + 1) st1 P1 P2) as H. cbv zeta in H. destruct H as (G & B).
    + split.
      * apply andb_true_intro. split; [lia | exact G].
      * rewrite B, Hbids. unfold size. cbn [length]. lia.
Qed.

Lemma bids_unbounded spe n :
  guarded spe false aucs_ok (auctions n 0) init = true /\
  size (bids (run spe false (auctions n 0) init)) = N.of_nat n.
Proof.
  assert (H1 : forall k, In k (bids init) -> k < 0) by (cbn; tauto).
  assert (H2 : g_auc init <= 0) by (cbn; lia).
  pose proof (auctions_grow spe n 0 init H1 H2) as H. cbv zeta in H. destruct H as (G & B).
  rewrite B. cbn. split; [exact G | lia].
Qed.

(* --- attested: n epochs e, e+3, e+6, .. each with one SUCCESSFUL attestation ------------------ *)
Lemma skipping_grow : forall n e st,
    jobs st = [] -> running st = [] -> marks st = [] ->
    (forall k, In k (attested st) -> k + 3 <= e) -> g_start st <= e * 4 -> g_succ st <= e ->
    let st' := run 4 false (skipping n e) st in
    guarded 4 false starts_ok (skipping n e) st = true /\
    size (attested st') = size (attested st) + N.of_nat n /\
    jobs st' = [] /\ running st' = [] /\ marks st' = [] /\
    (n <> O -> g_succ st' = epoch_of 4 (g_start st')).
Proof.
  induction n as [|n IH]; intros e st Hj Hr Hm Ha Hs Hsu; cbv zeta; cbn [skipping].
  - cbn. repeat split; try assumption; try lia; try (intro H; congruence).
  - rewrite run_app, guarded_app. rewrite !run_cons. change (run 4 false [] ?x) with x.
    set (s := e * 4).
    set (st1 := step 4 false st (OSched s false [s])).
    set (st2 := step 4 false st1 (OStart s)).
    set (st3 := step 4 false st2 (OFinish s true)).
    assert (E1 : jobs st1 = [s] /\ marks st1 = [s] /\ running st1 = [] /\ attested st1 = attested st /\ g_start st1 = g_start st /\ g_succ st1 = g_succ st).
    { unfold st1. cbn [step]. unfold sched_filter. cbn [filter]. rewrite N.ltb_irrefl, N.eqb_refl. cbn [negb andb filter fold_left sched_apply marks jobs running attested g_start g_succ].
      rewrite Hj, Hm, Hr. cbn. repeat split. }
    destruct E1 as (J1 & M1 & R1 & A1 & S1 & U1).
    assert (Hep : epoch_of 4 s = e).
    { unfold epoch_of, s. rewrite N.div_mul; lia. }
    assert (Hmem1 : mem s (jobs st1) = true) by (rewrite J1; cbn; rewrite N.eqb_refl; reflexivity).
    assert (E2 : jobs st2 = [] /\ marks st2 = [s] /\ running st2 = [s] /\ attested st2 = e :: attested st /\ g_start st2 = s /\ g_succ st2 = g_succ st).
    { unfold st2, step. rewrite Hmem1. cbn [jobs marks running attested g_start g_succ].
      rewrite J1, M1, R1, A1, S1, U1, Hep.
      assert (Hne : mem e (attested st) = false) by (apply mem_false_lt; intros k Hk; specialize (Ha k Hk); lia).
      unfold ins. rewrite Hne. cbn [mem existsb rem filter]. rewrite N.eqb_refl. cbn [negb].
      repeat split. unfold s. lia. }
    destruct E2 as (J2 & M2 & R2 & A2 & S2 & U2).
    assert (Hmem2 : mem s (running st2) = true) by (rewrite R2; cbn; rewrite N.eqb_refl; reflexivity).
    assert (E3 : jobs st3 = [] /\ marks st3 = [] /\ running st3 = [] /\ attested st3 = e :: attested st /\ g_start st3 = s /\ g_succ st3 = N.max (g_succ st) e).
    { unfold st3, step. rewrite Hmem2. cbn [jobs marks running attested g_start g_succ].
      rewrite J2, M2, R2, A2, S2, U2, Hep.
      cbn [rem filter]. rewrite N.eqb_refl. cbn [negb].
      unfold housekeep. destruct (1 <? e) eqn:E1e.
      - rewrite rem_absent; [repeat split|].
        intros [Hi|Hi]; [lia | specialize (Ha _ Hi); lia].
      - repeat split. }
    destruct E3 as (J3 & M3 & R3 & A3 & S3 & U3).
    assert (Hg1 : g_succ st <= e \/ True) by (right; exact I).
    assert (P1 : forall k, In k (attested st3) -> k + 3 <= e + 3).
    { intros k Hk. rewrite A3 in Hk. destruct Hk as [<-|Hk]; [lia | specialize (Ha k Hk); lia]. }
    assert (P2 : g_start st3 <= (e + 3) * 4) by (rewrite S3; unfold s; lia).
    assert (P3 : g_succ st3 <= e + 3) by (rewrite U3; lia).
    pose proof (IH (e + 3) st3 J3 R3 M3 P1 P2 P3) as H. cbv zeta in H. destruct H as (G & SZ & J' & R' & M' & SU).
    + assert (Hguard3 : guarded 4 false starts_ok [OSched s false [s]; OStart s; OFinish s true] st = true).
      { rewrite !guarded_cons. cbn [guarded starts_ok]. fold st1. rewrite S1.
        apply andb_true_intro. split; [reflexivity|].
        apply andb_true_intro. split; [unfold s; lia | reflexivity]. }
      split; [|split; [|split; [|split; [|split]]]]; try assumption.
      * rewrite Hguard3. exact G.
      * rewrite SZ, A3. unfold size. cbn [length]. lia.
      * intros _. destruct n as [|n'].
        -- cbn [skipping]. change (run 4 false [] st3) with st3. rewrite U3, S3, Hep. lia.
        -- apply SU. congruence.
Qed.

Lemma attested_unbounded n :
  n <> O ->
  guarded 4 false starts_ok (skipping n 0) init = true /\
  g_succ (run 4 false (skipping n 0) init) = epoch_of 4 (g_start (run 4 false (skipping n 0) init)) /\
  size (attested (run 4 false (skipping n 0) init)) = N.of_nat n.
Proof.
  intro Hn.
  assert (H1 : forall k, In k (attested init) -> k + 3 <= 0) by (cbn; tauto).
  assert (H2 : g_start init <= 0 * 4) by (cbn; lia).
  assert (H3 : g_succ init <= 0) by (cbn; lia).
  pose proof (skipping_grow n 0 init eq_refl eq_refl eq_refl H1 H2 H3) as H. cbv zeta in H.
  destruct H as (G & SZ & _ & _ & _ & SU).
  repeat split; [exact G | exact (SU Hn) | rewrite SZ; cbn; lia].
Qed.
