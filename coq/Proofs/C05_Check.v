(* C05: soundness of the boolean tests of Check/C05.v.
   [agree] true (on a tie-free case) means the observed behaviour IS the model's; [P_core] true means the
   observed behaviour satisfies the property's clauses as propositions. *)
From Verif Require Import Lib.Base Model.C05_Proposer Proofs.C05 Check.C05.
From Coq Require Import ZifyBool ZifyN ZifyNat.

Local Open Scope N_scope.

(* ------------------------------------------------------------------------------------------- *)
(* the decidable equalities decide equality *)

Lemma bool_eqb_spec : forall a b, bool_eqb a b = true <-> a = b.
Proof. intros [] []; cbn; split; congruence. Qed.

Lemma N_eqb_spec : forall a b : N, (a =? b) = true <-> a = b.
Proof. intros; apply N.eqb_eq. Qed.

Lemma hdr_eqb_spec : forall a b, hdr_eqb a b = true <-> a = b.
Proof.
  intros [a1 a2 a3 a4 a5] [b1 b2 b3 b4 b5]; unfold hdr_eqb; cbn.
  rewrite !andb_true_iff, !N.eqb_eq. split.
  - intros ((((-> & ->) & ->) & ->) & ->); reflexivity.
  - intro H; injection H as -> -> -> -> ->; auto.
Qed.

Lemma sblock_eqb_spec : forall a b, sblock_eqb a b = true <-> a = b.
Proof.
  intros [a1 a2 a3] [b1 b2 b3]; unfold sblock_eqb; cbn.
  rewrite !andb_true_iff, !N.eqb_eq, (option_eqb_spec hdr_eqb hdr_eqb_spec). split.
  - intros ((-> & ->) & ->); reflexivity.
  - intro H; injection H as -> -> ->; auto.
Qed.

Lemma conts_eqb_spec : forall a b, conts_eqb a b = true <-> a = b.
Proof. apply list_eqb_spec. apply prod_eqb_spec; [apply N_eqb_spec | apply sblock_eqb_spec]. Qed.

Lemma sproposal_eqb_spec : forall a b, sproposal_eqb a b = true <-> a = b.
Proof.
  intros [a1 a2 a3] [b1 b2 b3]; unfold sproposal_eqb; cbn.
  rewrite !andb_true_iff, N.eqb_eq, bool_eqb_spec, conts_eqb_spec. split.
  - intros ((-> & ->) & ->); reflexivity.
  - intro H; injection H as -> -> ->; auto.
Qed.

Lemma ureq_eqb_spec : forall a b, ureq_eqb a b = true <-> a = b.
Proof.
  intros [a1 a2] [b1 b2]; unfold ureq_eqb; cbn.
  rewrite !andb_true_iff, N.eqb_eq, conts_eqb_spec. split.
  - intros (-> & ->); reflexivity.
  - intro H; injection H as -> ->; auto.
Qed.

Lemma npair_eqb_spec : forall a b, npair_eqb a b = true <-> a = b.
Proof. apply prod_eqb_spec; apply N_eqb_spec. Qed.

Lemma event_eqb_spec : forall a b, event_eqb a b = true <-> a = b.
Proof.
  intros a b; destruct a, b; cbn; try (split; intro H; discriminate);
    rewrite ?andb_true_iff, ?N.eqb_eq, ?npair_eqb_spec, ?(list_eqb_spec N.eqb N_eqb_spec);
    (split; [intuition (subst; reflexivity) | intro H; injection H; intros; subst; auto 10]).
Qed.

Lemma events_eqb_spec : forall a b, events_eqb a b = true <-> a = b.
Proof. apply list_eqb_spec, event_eqb_spec. Qed.

Lemma result_eqb_spec : forall a b, result_eqb a b = true <-> a = b.
Proof.
  intros [a1 a2 a3 a4 a5] [b1 b2 b3 b4 b5]; unfold result_eqb; cbn.
  rewrite !andb_true_iff, bool_eqb_spec, events_eqb_spec, N.eqb_eq.
  rewrite (list_eqb_spec _ (list_eqb_spec _ (prod_eqb_spec _ _ N_eqb_spec ureq_eqb_spec))).
  rewrite (option_eqb_spec _ (prod_eqb_spec _ _ N_eqb_spec sproposal_eqb_spec)).
  split.
  - intros ((((-> & ->) & ->) & ->) & ->); reflexivity.
  - intro H; injection H as -> -> -> -> ->; auto.
Qed.

(* ------------------------------------------------------------------------------------------- *)
(* agree *)

(* On a case where nothing is left to Go's scheduler (no answer due at the instant the context ends, no
   two relay goroutines acting at one instant), [agree] holds exactly when what the implementation was
   seen to do -- every request of Prepare, its result, the duty handed to Propose, every request of
   Propose with its instant and whether its context was alive, every relay call with its time and
   content, the submission and its time, whether it was cut short, the instant Propose returns -- is
   what the model does on the case's input. *)
Lemma timed_eqb_spec : forall m c, timed_eqb m c = true <->
  t_res m = c_obs c /\ t_times m = c_times c /\ t_live m = c_live c /\ t_t0 m = c_t0 c
  /\ t_ret m = c_ret c /\ t_sub_cut m = c_sub_cut c.
Proof.
  intros m c. unfold timed_eqb.
  rewrite !andb_true_iff, result_eqb_spec, !N.eqb_eq, bool_eqb_spec,
    (list_eqb_spec N.eqb N_eqb_spec), (list_eqb_spec bool_eqb bool_eqb_spec).
  tauto.
Qed.

Lemma agree_sound : forall c,
  case_tie_free c = true ->
  (agree c = true <->
   fst (run (c_cfg c) (c_env c) (c_duty c) (c_prepare c)) = (c_prep_events c, c_prep_ok c)
   /\ d_account (duty_after (c_cfg c) (c_env c) (c_duty c) (c_prepare c)) = c_post_account c
   /\ d_randao (duty_after (c_cfg c) (c_env c) (c_duty c) (c_prepare c)) = c_post_randao c
   /\ t_res (case_model c) = c_obs c /\ t_times (case_model c) = c_times c /\ t_live (case_model c) = c_live c
   /\ t_t0 (case_model c) = c_t0 c /\ t_ret (case_model c) = c_ret c /\ t_sub_cut (case_model c) = c_sub_cut c).
Proof.
  intros c Htie. unfold agree. destruct (run (c_cfg c) (c_env c) (c_duty c) (c_prepare c)) as [[pevs pok] res].
  rewrite Htie. cbn [negb orb fst]. rewrite !andb_true_iff, events_eqb_spec, bool_eqb_spec, timed_eqb_spec,
    (option_eqb_spec N.eqb N_eqb_spec), N.eqb_eq.
  split.
  - intros ((((-> & ->) & Ha) & Hr) & Ht); auto.
  - intros (H & Ha & Hr & Ht); injection H as -> ->; auto.
Qed.

(* ------------------------------------------------------------------------------------------- *)
(* P_core *)

Lemma P_core_clauses : forall c, P_core c = true ->
  o_panic (c_obs c) = false
  /\ forallb (randao_event_ok c) (c_prep_events c) = true
  /\ forallb (block_event_ok c) (o_events (c_obs c)) = true
  /\ (count_events ev_sign_block (o_events (c_obs c)) <= 1)%nat
  /\ unblind_calls_ok c = true /\ submit_ok c = true /\ no_relay_no_submit_b c = true
  /\ degrades_ok c = true /\ other_slot_refused c = true /\ unready_silent c = true
  /\ prepared_duty_own c = true
  /\ first_block_submitted c = true.
Proof.
  intros c H. unfold P_core in H. rewrite !andb_true_iff in H.
  destruct H as ((((((((((((H1 & H2) & H3) & H4) & H5) & H6) & H7) & H8) & H9) & H10) & H11) & H12) & H13).
  apply negb_true_iff in H1. apply Nat.leb_le in H5. repeat split; auto.
Qed.

(* every block signature the implementation was seen to ask is for the duty's slot and validator,
   of the duty's account, in the proposer domain of the slot's epoch, over the roots of the block
   the beacon node returned, which is a block of the duty's slot *)
Lemma P_core_sound_sign_block : forall c a s p pa st bo dom,
  P_core c = true -> In (ESignBlock a s p pa st bo dom) (o_events (c_obs c)) ->
  duty_account c = Some a /\ s = d_slot (c_duty c) /\ p = d_validator (c_duty c)
  /\ dom = (DOMAIN_BEACON_PROPOSER, d_slot (c_duty c) / c_spe (c_cfg c))
  /\ exists pr h, e_proposal (c_env c) = POk pr /\ p_block pr = Some h /\ h_slot h = d_slot (c_duty c)
       /\ pa = h_parent h /\ st = h_state h /\ bo = h_body h.
Proof.
  intros c a s p pa st bo dom HP Hin.
  destruct (P_core_clauses c HP) as (_ & _ & Hb & _).
  rewrite forallb_forall in Hb. specialize (Hb _ Hin). cbn [block_event_ok] in Hb.
  rewrite !andb_true_iff in Hb. destruct Hb as ((((Ha & Hs) & Hp) & Hd) & Hblk).
  apply (option_eqb_spec N.eqb N_eqb_spec) in Ha. apply N.eqb_eq in Hs, Hp. apply npair_eqb_spec in Hd.
  unfold obtained_block in Hblk. destruct (e_proposal (c_env c)) as [|pr] eqn:Hpr; [discriminate|].
  destruct (p_block pr) as [h|] eqn:Hh; [|discriminate].
  rewrite !andb_true_iff, !N.eqb_eq in Hblk. destruct Hblk as (((H1 & H2) & H3) & H4).
  repeat split; auto. exists pr, h. auto 10.
Qed.

(* every RANDAO signature the implementation was seen to ask (in Prepare) is of the account the
   accounts provider holds for the duty's validator, over the epoch of the duty's slot, in the RANDAO
   domain of that epoch *)
Lemma P_core_sound_sign_randao : forall c a ep dom,
  P_core c = true -> In (ESignRandao a ep dom) (c_prep_events c) ->
  provided_account c = Some a /\ ep = d_slot (c_duty c) / c_spe (c_cfg c)
  /\ dom = (DOMAIN_RANDAO, d_slot (c_duty c) / c_spe (c_cfg c)).
Proof.
  intros c a ep dom HP Hin.
  destruct (P_core_clauses c HP) as (_ & Hr & _).
  rewrite forallb_forall in Hr. specialize (Hr _ Hin). cbn [randao_event_ok] in Hr.
  rewrite !andb_true_iff in Hr. destruct Hr as ((Ha & He) & Hd).
  apply (option_eqb_spec N.eqb N_eqb_spec) in Ha. apply N.eqb_eq in He. apply npair_eqb_spec in Hd.
  auto.
Qed.

(* Propose was never seen to ask for a RANDAO signature, nor Prepare for a block signature *)
Lemma P_core_sound_no_cross_signing : forall c,
  P_core c = true ->
  (forall a ep dom, ~ In (ESignRandao a ep dom) (o_events (c_obs c)))
  /\ (forall a s p pa st bo dom, ~ In (ESignBlock a s p pa st bo dom) (c_prep_events c)).
Proof.
  intros c HP. destruct (P_core_clauses c HP) as (_ & Hr & Hb & _). rewrite forallb_forall in Hr, Hb. split.
  - intros a ep dom Hin. specialize (Hb _ Hin). discriminate.
  - intros a s p pa st bo dom Hin. specialize (Hr _ Hin). discriminate.
Qed.

(* what was seen submitted for a block that is not blinded is exactly the obtained block with the
   signature the account returned, and no relay was asked *)
Lemma P_core_sound_submit_local : forall c t sp,
  P_core c = true -> proposal_blinded c = false -> o_submit (c_obs c) = Some (t, sp) ->
  exists pr h sig code,
    e_proposal (c_env c) = POk pr /\ p_block pr = Some h /\ e_sig_block (c_env c) = Some sig
    /\ signed_container (p_version pr) (p_blinded pr) = Some code
    /\ sp = signed_proposal pr h sig code
    /\ concat (o_unblind (c_obs c)) = [].
Proof.
  intros c t sp HP Hbl Hs.
  destruct (P_core_clauses c HP) as (_ & _ & _ & _ & _ & Hsub & _).
  unfold submit_ok in Hsub. rewrite Hs, Hbl in Hsub. rewrite andb_true_iff in Hsub. destruct Hsub as (_ & Hsub).
  unfold expected_signed in Hsub.
  destruct (e_proposal (c_env c)) as [|pr] eqn:E1; [discriminate|].
  destruct (e_sig_block (c_env c)) as [sig|] eqn:E2; [|discriminate].
  destruct (p_block pr) as [h|] eqn:E3; [|discriminate].
  destruct (signed_container (p_version pr) (p_blinded pr)) as [code|] eqn:E4; [|discriminate].
  rewrite andb_true_iff in Hsub. destruct Hsub as (Heq & Hnil). apply sproposal_eqb_spec in Heq.
  exists pr, h, sig, code. repeat split; auto.
  destruct (concat (o_unblind (c_obs c))); [reflexivity|discriminate].
Qed.

(* what was seen submitted for a blinded block is one full block, in the container of the version,
   not flagged blinded, that a relay's scripted answer to a call actually observed carried, no later
   than the submission; and every observed relay request made up to then is the signed blinded block *)
Lemma P_core_sound_submit_blinded : forall c t sp,
  P_core c = true -> proposal_blinded c = true -> o_submit (c_obs c) = Some (t, sp) ->
  exists signed fc b,
    expected_signed c = Some signed /\ full_container (sp_version signed) = Some fc
    /\ sp = {| sp_version := sp_version signed; sp_blinded := false; sp_conts := [(fc, b)] |}
    /\ delivered_by c t b = true.
Proof.
  intros c t sp HP Hbl Hs.
  destruct (P_core_clauses c HP) as (_ & _ & _ & _ & _ & Hsub & _).
  unfold submit_ok in Hsub. rewrite Hs, Hbl in Hsub. rewrite andb_true_iff in Hsub. destruct Hsub as (_ & Hsub).
  destruct (expected_signed c) as [signed|]; [|discriminate].
  rewrite !andb_true_iff in Hsub. destruct Hsub as ((Hv & Hnb) & Hc).
  apply N.eqb_eq in Hv. apply negb_true_iff in Hnb.
  destruct sp as [v bl conts]; cbn [sp_version sp_blinded sp_conts] in *.
  destruct conts as [|[code b] [|]]; try discriminate.
  destruct (full_container (sp_version signed)) as [fc|] eqn:Efc; [|discriminate].
  rewrite andb_true_iff in Hc. destruct Hc as (Hcode & Hdel). apply N.eqb_eq in Hcode. subst.
  exists signed, fc, b. auto.
Qed.

(* nothing was seen submitted for a blinded block unless some observed relay call was scripted to
   answer with a full block *)
Lemma P_core_sound_no_relay_no_submit : forall c,
  P_core c = true -> proposal_blinded c = true -> some_call_answered c = false -> o_submit (c_obs c) = None.
Proof.
  intros c HP Hbl Hno.
  destruct (P_core_clauses c HP) as (_ & _ & _ & _ & _ & _ & Hn & _).
  unfold no_relay_no_submit_b in Hn. rewrite Hbl, Hno in Hn. cbn in Hn.
  destruct (o_submit (c_obs c)); [discriminate|reflexivity].
Qed.

(* a duty whose Prepare was seen to succeed was handed to Propose with the account the provider
   holds for its own validator and the reveal that account gave for it *)
Lemma P_core_sound_prepared_duty_own : forall c,
  P_core c = true -> c_prepare c = true -> c_prep_ok c = true ->
  exists a, c_post_account c = Some a /\ provided_account c = Some a
            /\ e_sig_randao (c_env c) = Some (c_post_randao c).
Proof.
  intros c HP Hp Hok. destruct (P_core_clauses c HP) as (_ & _ & _ & _ & _ & _ & _ & _ & _ & _ & H & _).
  unfold prepared_duty_own in H. rewrite Hp, Hok in H. cbn [andb negb orb] in H.
  rewrite !andb_true_iff in H. destruct H as ((Hs & Ha) & Hr).
  apply (option_eqb_spec N.eqb N_eqb_spec) in Ha, Hr.
  destruct (c_post_account c) as [a|]; [|discriminate]. exists a. auto.
Qed.


(* the calls seen made, with the instant each returned and whether it brought a full block *)
Lemma indexed_in : forall A (l : list A) i0 i x, In (i, x) (indexed i0 l) -> exists j, i = (i0 + j)%nat /\ nth_error l j = Some x.
Proof.
  intros A l; induction l as [|y l IH]; intros i0 i x H; cbn in H; [destruct H|].
  destruct H as [H|H].
  - injection H as <- <-. exists 0%nat. split; [lia|reflexivity].
  - apply IH in H as (j & -> & Hj). exists (S j). split; [lia|exact Hj].
Qed.

Lemma indexed_nth : forall A (l : list A) i0 j x, nth_error l j = Some x -> In ((i0 + j)%nat, x) (indexed i0 l).
Proof.
  intros A l; induction l as [|y l IH]; intros i0 j x H; [destruct j; discriminate|].
  destruct j as [|j]; cbn in *.
  - injection H as ->. left. f_equal. lia.
  - right. replace (i0 + S j)%nat with (S i0 + j)%nat by lia. apply IH; exact H.
Qed.

Lemma returned_calls_in : forall c f ok, In (f, ok) (returned_calls c) ->
  exists i calls k st rq r,
    nth_error (o_unblind (c_obs c)) i = Some calls /\ nth_error calls k = Some (st, rq)
    /\ nth_error (e_relays (c_env c)) i = Some r
    /\ f = call_returns (e_deadline (c_env c)) r k st /\ ok = is_ok (scripted r k).
Proof.
  intros c f ok H. unfold returned_calls in H. apply in_flat_map in H as ([i calls] & Hin & H).
  apply indexed_in in Hin as (j & -> & Hn). cbn [Nat.add] in *.
  destruct (nth_error (e_relays (c_env c)) j) as [r|] eqn:Hr; [|destruct H].
  apply in_map_iff in H as ([k [st rq]] & Heq & Hin). apply indexed_in in Hin as (k' & -> & Hk).
  cbn [fst snd Nat.add] in Heq. injection Heq as <- <-.
  exists j, calls, k', st, rq, r. auto.
Qed.

Lemma returned_calls_nth : forall c i calls k st rq r,
  nth_error (o_unblind (c_obs c)) i = Some calls -> nth_error calls k = Some (st, rq) ->
  nth_error (e_relays (c_env c)) i = Some r ->
  In (call_returns (e_deadline (c_env c)) r k st, is_ok (scripted r k)) (returned_calls c).
Proof.
  intros c i calls k st rq r Hc Hk Hr. unfold returned_calls. apply in_flat_map.
  exists (i, calls). split; [exact (indexed_nth _ _ 0%nat i calls Hc)|]. rewrite Hr.
  apply in_map_iff. exists (k, (st, rq)). split; [reflexivity|]. exact (indexed_nth _ _ 0%nat k _ Hk).
Qed.

Lemma call_returns_ok : forall D r k st, is_ok (scripted r k) = true -> call_returns D r k st = st + scripted_lat r k.
Proof. intros D r k st H. unfold call_returns. destruct (scripted r k); try discriminate; reflexivity. Qed.

(* a call that was seen made and whose scripted answer is a full block handed back before the end of
   the context: something was seen submitted no later than that *)
Lemma P_core_sound_first_block : forall c p fc i calls k st rq r,
  P_core c = true ->
  e_proposal (c_env c) = POk p -> p_blinded p = true -> full_container (p_version p) = Some fc ->
  nth_error (o_unblind (c_obs c)) i = Some calls -> nth_error calls k = Some (st, rq) ->
  nth_error (e_relays (c_env c)) i = Some r -> is_ok (scripted r k) = true ->
  st + scripted_lat r k < e_deadline (c_env c) ->
  exists t sp, o_submit (c_obs c) = Some (t, sp) /\ t <= st + scripted_lat r k.
Proof.
  intros c p fc i calls k st rq r HP Hp Hbl Hfc Hc Hk Hr Hok Hlt.
  destruct (P_core_clauses c HP) as (_ & _ & _ & _ & _ & _ & _ & _ & _ & _ & _ & H).
  unfold first_block_submitted, unblinds_to in H. rewrite Hp, Hbl, Hfc in H. cbn [is_some andb negb orb] in H.
  rewrite forallb_forall in H. specialize (H _ (returned_calls_nth c i calls k st rq r Hc Hk Hr)).
  cbv beta iota in H. rewrite (call_returns_ok _ _ _ _ Hok), Hok in H.
  apply N.ltb_lt in Hlt. rewrite Hlt in H. cbn [negb orb] in H.
  unfold submitted_by in H. destruct (o_submit (c_obs c)) as [[t sp]|]; [|discriminate].
  exists t, sp. split; [reflexivity|]. apply N.leb_le; exact H.
Qed.

Lemma P_core_sound_no_panic : forall c, P_core c = true -> o_panic (c_obs c) = false.
Proof. intros c HP; apply (P_core_clauses c HP). Qed.

(* ------------------------------------------------------------------------------------------- *)
(* The model satisfies P_core on every input: the boolean property evaluated on the model's own
   output is true for ALL configurations, environments, duties (no hypothesis at all).  So P_core can
   only be false on a case where the implementation differs from the model, and the theorems of the
   model include the property as the check evaluates it. *)

Definition model_case (id : N) (cf : config) (e : env) (d : duty) (prep : bool) : case :=
  {| c_id := id; c_cfg := cf; c_env := e; c_lat := zero_lats; c_duty := d; c_prepare := prep;
     c_prep_events := fst (fst (run cf e d prep)); c_prep_ok := snd (fst (run cf e d prep));
     c_post_account := d_account (duty_after cf e d prep); c_post_randao := d_randao (duty_after cf e d prep);
     c_cut := no_cuts; c_times := []; c_live := []; c_t0 := 0;
     c_obs := snd (run cf e d prep); c_ret := 0; c_sub_cut := false |}.

Lemma run_parts : forall cf e d prep,
  fst (fst (run cf e d prep)) = (if prep then snd (fst (prepare cf e d)) else [])
  /\ snd (fst (run cf e d prep)) = (if prep then snd (prepare cf e d) else true)
  /\ snd (run cf e d prep) = propose cf e (run_duty cf e d prep).
Proof.
  intros cf e d prep; unfold run, run_duty. destruct prep; [|auto].
  destruct (prepare cf e d) as [[d1 evs] ok]; auto.
Qed.

(* the duty Propose works on, in the check's own terms *)
Lemma run_duty_check : forall id cf e d prep,
  let c := model_case id cf e d prep in
  let D := run_duty cf e d prep in
  d_slot D = d_slot d /\ d_validator D = d_validator d
  /\ d_account D = duty_account c /\ d_randao D = randao_of c.
Proof.
  intros id cf e d prep c D. unfold D, run_duty, duty_account, randao_of, c, model_case; cbn [c_prepare c_env c_duty c_prep_ok].
  destruct (run_parts cf e d prep) as (_ & Hok & _). rewrite Hok. clear Hok.
  destruct prep; cbn [andb]; [|auto].
  unfold prepare.
  destruct (e_accounts e) as [|m]; cbn [fst snd]; [auto|].
  destruct (Nat.eqb (length m) 1) eqn:El; cbn [negb fst snd]; [|auto].
  destruct (e_dom_randao e); cbn [negb fst snd]; [|cbn; auto].
  destruct (lookup_account (d_validator d) m) as [a|] eqn:Ea; cbn [fst snd]; [|cbn; auto].
  destruct (e_sig_randao e) as [s|]; cbn; auto.
Qed.

Lemma clause_prep_events : forall id cf e d prep,
  let c := model_case id cf e d prep in
  forallb (randao_event_ok c) (c_prep_events c) = true
  /\ (count_events ev_sign_randao (c_prep_events c) <= 1)%nat.
Proof.
  intros id cf e d prep c.
  assert (Hpe : c_prep_events c = if prep then snd (fst (prepare cf e d)) else [])
    by (unfold c, model_case; cbn [c_prep_events]; apply run_parts).
  rewrite Hpe. clear Hpe.
  destruct prep; [|split; [reflexivity|cbn; lia]].
  assert (Hacc : randao_event_ok c (EAccounts (d_slot d / c_spe cf) [d_validator d]) = true).
  { cbn. unfold duty_epoch; cbn. rewrite !N.eqb_refl. reflexivity. }
  assert (Hdom : randao_event_ok c (EDomain DOMAIN_RANDAO (d_slot d / c_spe cf)) = true).
  { cbn. unfold duty_epoch; cbn. rewrite !N.eqb_refl. reflexivity. }
  unfold prepare.
  destruct (e_accounts e) as [|m] eqn:Hm; cbn [fst snd].
  { cbn [forallb]. rewrite Hacc. split; [reflexivity|cbn; lia]. }
  destruct (Nat.eqb (length m) 1) eqn:El; cbn [negb fst snd].
  2:{ cbn [forallb]. rewrite Hacc. split; [reflexivity|cbn; lia]. }
  destruct (e_dom_randao e); cbn [negb fst snd].
  2:{ cbn [forallb app]. rewrite Hacc, Hdom. split; [reflexivity|cbn; lia]. }
  destruct (lookup_account (d_validator d) m) as [a|] eqn:Ea; cbn [fst snd].
  2:{ cbn [forallb app]. rewrite Hacc, Hdom. split; [reflexivity|cbn; lia]. }
  assert (Hsig : randao_event_ok c (ESignRandao a (d_slot d / c_spe cf) (DOMAIN_RANDAO, d_slot d / c_spe cf)) = true).
  { cbn. unfold provided_account, duty_epoch, npair_eqb, prod_eqb; cbn. rewrite Hm, Ea. cbn. rewrite !N.eqb_refl. reflexivity. }
  destruct (e_sig_randao e); cbn [fst snd forallb app]; rewrite Hacc, Hdom, Hsig; (split; [reflexivity|cbn; lia]).
Qed.

Lemma forallb_app_true {A} (f : A -> bool) l1 l2 : forallb f l1 = true -> forallb f l2 = true -> forallb f (l1 ++ l2) = true.
Proof. intros H1 H2; rewrite forallb_app, H1, H2; reflexivity. Qed.

Lemma count_events_eq : forall f l, count_events f l = count_if f l.
Proof. reflexivity. Qed.

Lemma ev_sign_block_eq : forall ev, ev_sign_block ev = Proofs.C05.is_sign_block ev.
Proof. destruct ev; reflexivity. Qed.

Lemma ev_proposal_eq : forall ev, ev_proposal ev = Proofs.C05.is_proposal ev.
Proof. destruct ev; reflexivity. Qed.

Lemma count_ext {A} (f g : A -> bool) l : (forall x, f x = g x) -> count_if f l = count_if g l.
Proof.
  intro H; unfold count_if; induction l as [|x l IH]; cbn; [reflexivity|]. rewrite H. destruct (g x); cbn; rewrite IH; reflexivity.
Qed.

Lemma clause_block_events : forall id cf e d prep,
  let c := model_case id cf e d prep in
  forallb (block_event_ok c) (o_events (c_obs c)) = true
  /\ (count_events ev_sign_block (o_events (c_obs c)) <= 1)%nat.
Proof.
  intros id cf e d prep c.
  destruct (run_duty_check id cf e d prep) as (Hs & Hv & Ha & Hr). fold c in Ha, Hr.
  assert (Hobs : c_obs c = propose cf e (run_duty cf e d prep)) by (unfold c, model_case; cbn [c_obs]; apply run_parts).
  rewrite Hobs, propose_events.
  split.
  2:{ rewrite count_events_eq, (count_ext _ _ _ ev_sign_block_eq). apply sign_phase_count_sign_block. }
  set (D := run_duty cf e d prep) in *.
  assert (Hup : forall acct, d_account D = Some acct -> forallb (block_event_ok c) (upto_proposal cf e D acct) = true).
  { intros acct Hacct. unfold upto_proposal. apply forallb_app_true; [apply forallb_app_true|].
    - unfold graffiti_events. destruct (e_graffiti e); cbn; rewrite ?Hs, ?Hv; unfold c; cbn; rewrite ?N.eqb_refl; reflexivity.
    - unfold auction_events. destruct (e_auction e); cbn [forallb block_event_ok]; try reflexivity;
        rewrite <- Ha, Hacct, Hs; unfold c; cbn; rewrite !N.eqb_refl; reflexivity.
    - cbn. rewrite Hs. unfold c; cbn. rewrite N.eqb_refl. reflexivity. }
  assert (Hdomev : block_event_ok c (EDomain DOMAIN_BEACON_PROPOSER (d_slot D / c_spe cf)) = true).
  { cbn. rewrite Hs. unfold duty_epoch, c; cbn. rewrite !N.eqb_refl. reflexivity. }
  assert (Hsb : forall acct p h, d_account D = Some acct -> signable e D p h -> block_event_ok c (sign_block_event cf D acct h) = true).
  { intros acct p h Hacct (Hp & _ & Hb & Hsl & _). unfold sign_block_event. cbn [block_event_ok].
    rewrite <- Ha, Hacct, Hs, Hv. unfold obtained_block, duty_epoch, npair_eqb, prod_eqb. unfold c at 3 4 5 6 7; cbn [c_env c_duty c_cfg model_case fst snd].
    rewrite Hp, Hb, Hsl, Hs. cbn. rewrite !N.eqb_refl. reflexivity. }
  pose proof (sign_phase_course cf e D) as Hc. destruct (sign_phase cf e D) as [evs o]. cbn [fst].
  inversion Hc; subst.
  - reflexivity.
  - apply Hup; assumption.
  - apply forallb_app_true; [apply Hup; assumption|]. cbn [forallb]. rewrite Hdomev. reflexivity.
  - apply forallb_app_true; [apply forallb_app_true; [apply Hup; assumption|cbn [forallb]; rewrite Hdomev; reflexivity]|].
    cbn [forallb]. erewrite Hsb; eauto.
  - apply forallb_app_true; [apply forallb_app_true; [apply Hup; assumption|cbn [forallb]; rewrite Hdomev; reflexivity]|].
    cbn [forallb]. erewrite Hsb; eauto.
Qed.

Lemma concat_all_nil {A} (ll : list (list A)) : all_nil ll -> concat ll = [].
Proof.
  induction ll as [|l ll IH]; intro H; [reflexivity|]. cbn.
  rewrite (H 0%nat l eq_refl). cbn. apply IH. intros i x Hx. exact (H (S i) x Hx).
Qed.

Lemma scripted_eq : forall r k, scripted r k = snd (script_nth (r_script r) k) /\ scripted_lat r k = fst (script_nth (r_script r) k).
Proof.
  intros r k. unfold scripted, scripted_lat, script_nth. generalize (r_script r) as l. revert k.
  induction k as [|k IH]; intros [|[la o] l]; cbn; auto.
Qed.

Lemma propose_unblind_length : forall cf e d, length (o_unblind (propose cf e d)) = length (e_relays e).
Proof.
  intros cf e d. unfold propose. destruct (sign_phase cf e d) as [evs [[p sp]|]].
  2:{ cbn. unfold no_calls. apply map_length. }
  destruct (deliver_phase_course cf e evs sp) as [Hb|Hb _|w a res Hb Ha Hc plans fd _ _ Hu _].
  - cbn. apply map_length.
  - cbn. apply map_length.
  - rewrite Hu. unfold calls_of. rewrite map_length. unfold plans. apply plans_from_length.
Qed.

Lemma count_if_in_pos {A} (f : A -> bool) l x : In x l -> f x = true -> (1 <= count_if f l)%nat.
Proof.
  unfold count_if; induction l as [|y l IH]; cbn; intros Hin Hf; [destruct Hin|].
  destruct Hin as [->|Hin]; [rewrite Hf; cbn; lia|].
  destruct (f y); cbn; [lia|apply IH; assumption].
Qed.

Lemma event_eqb_refl : forall ev, event_eqb ev ev = true.
Proof. intro ev; apply event_eqb_spec; reflexivity. Qed.

(* the signed proposal in the check's own terms *)
Lemma expected_signed_model : forall id cf e d prep pr h sig code,
  e_proposal e = POk pr -> p_block pr = Some h -> e_sig_block e = Some sig ->
  signed_container (p_version pr) (p_blinded pr) = Some code ->
  expected_signed (model_case id cf e d prep) = Some (signed_proposal pr h sig code).
Proof.
  intros id cf e d prep pr h sig code H1 H2 H3 H4. unfold expected_signed, model_case; cbn [c_env].
  rewrite H1, H3, H2, H4. reflexivity.
Qed.

Lemma count_sign_block_one : forall cf e D acct h,
  In (sign_block_event cf D acct h) (o_events (propose cf e D)) ->
  count_events ev_sign_block (o_events (propose cf e D)) = 1%nat.
Proof.
  intros cf e D acct h Hin. rewrite count_events_eq, (count_ext _ _ _ ev_sign_block_eq).
  pose proof (count_if_in_pos Proofs.C05.is_sign_block _ _ Hin eq_refl).
  rewrite propose_events in *. pose proof (sign_phase_count_sign_block cf e D). lia.
Qed.

Lemma clause_unblind_calls : forall id cf e d prep, unblind_calls_ok (model_case id cf e d prep) = true.
Proof.
  intros id cf e d prep. set (c := model_case id cf e d prep).
  destruct (run_duty_check id cf e d prep) as (Hs & Hv & Ha & Hr). fold c in Ha, Hr.
  assert (Hobs : c_obs c = propose cf e (run_duty cf e d prep)) by (unfold c, model_case; cbn [c_obs]; apply run_parts).
  set (D := run_duty cf e d prep) in *.
  unfold unblind_calls_ok. rewrite Hobs. apply andb_true_iff; split.
  { apply Nat.eqb_eq. unfold c; cbn [c_env model_case]. apply propose_unblind_length. }
  apply forallb_forall. intros [i calls] Hin. apply indexed_in in Hin as (j & -> & Hn). cbn [Nat.add].
  destruct calls as [|[st0 rq0] rest] eqn:Hcalls; [reflexivity|]. rewrite <- Hcalls in *.
  assert (Hk0 : nth_error calls 0 = Some (st0, rq0)) by (rewrite Hcalls; reflexivity).
  destruct (unblind_requests _ _ _ _ _ _ _ _ Hn Hk0) as
    (acct & pr & h & sig & code & w & a & rl & Hacct & Hp & Hbl & Hb & Hsl & Hsig & Hcode & _ & Hev & Hau & Hcand & Hrl & Hcan & Hlen).
  cbn [is_nil]. rewrite Hcalls at 1. cbn [is_nil orb].
  repeat (apply andb_true_iff; split).
  - unfold allowed_relays, c; cbn [c_env c_cfg model_case]. rewrite Hau. fold (candidates cf w a).
    apply existsb_exists. exists j. split; [exact Hcand|apply Nat.eqb_refl].
  - unfold c; cbn [c_env model_case]. rewrite Hrl. exact Hcan.
  - apply Nat.leb_le. exact Hlen.
  - unfold proposal_blinded, c; cbn [c_env model_case]. rewrite Hp. exact Hbl.
  - apply Nat.eqb_eq. eapply count_sign_block_one; eauto.
  - rewrite <- Hbl in Hcode. unfold c. rewrite (expected_signed_model id cf e d prep pr h sig code Hp Hb Hsig Hcode).
    apply forallb_forall. intros [st rq] Hin. apply In_nth_error in Hin as (k & Hk).
    destruct (unblind_requests _ _ _ _ _ _ _ _ Hn Hk) as
      (acct' & pr' & h' & sig' & code' & _ & _ & _ & _ & Hp' & Hbl' & Hb' & _ & Hsig' & Hcode' & Hrq & _).
    rewrite Hp in Hp'; injection Hp' as <-. rewrite Hb in Hb'; injection Hb' as <-.
    rewrite Hsig in Hsig'; injection Hsig' as <-. rewrite Hbl in *. rewrite Hcode in Hcode'; injection Hcode' as <-.
    cbn [fst snd]. subst rq. apply ureq_eqb_spec; reflexivity.
Qed.

(* the request built from a signed blinded bellatrix..deneb block has its one container, so an
   echoing relay has something to echo *)
Lemma blinded_request_conts : forall pr h sig code fc,
  signed_container (p_version pr) true = Some code -> full_container (p_version pr) = Some fc ->
  p_blinded pr = true ->
  u_conts (unblind_request (signed_proposal pr h sig code))
  = [(code, {| sb_hdr := Some h; sb_sig := sig; sb_blobs := signed_blobs pr |})].
Proof.
  intros pr h sig code fc Hc Hf Hbl. unfold unblind_request, signed_proposal; cbn [sp_conts u_conts filter fst].
  assert (Hb : blinded_code code = true).
  { unfold full_container in Hf.
    destruct (p_version pr =? VBellatrix) eqn:E3.
    { apply N.eqb_eq in E3. rewrite E3 in Hc. vm_compute in Hc. injection Hc as <-. reflexivity. }
    destruct (p_version pr =? VCapella) eqn:E4.
    { apply N.eqb_eq in E4. rewrite E4 in Hc. vm_compute in Hc. injection Hc as <-. reflexivity. }
    destruct (p_version pr =? VDeneb) eqn:E5; [|discriminate].
    apply N.eqb_eq in E5. rewrite E5 in Hc. vm_compute in Hc. injection Hc as <-. reflexivity. }
  rewrite Hb. reflexivity.
Qed.

Lemma response_ok : forall req o b0 rest, u_conts req = b0 :: rest -> is_ok o = true -> exists b, response req o = Some b.
Proof.
  intros req o b0 rest Hc Hok. destruct o; try discriminate; cbn [response].
  - eauto.
  - unfold echo. rewrite Hc. destruct b0. eauto.
Qed.

Lemma clause_submit : forall id cf e d prep,
  submit_ok (model_case id cf e d prep) = true /\ no_relay_no_submit_b (model_case id cf e d prep) = true.
Proof.
  intros id cf e d prep. set (c := model_case id cf e d prep).
  assert (Hobs : c_obs c = propose cf e (run_duty cf e d prep)) by (unfold c, model_case; cbn [c_obs]; apply run_parts).
  set (D := run_duty cf e d prep) in *.
  unfold submit_ok, no_relay_no_submit_b. rewrite Hobs.
  destruct (o_submit (propose cf e D)) as [[t sp]|] eqn:Hsub.
  2:{ split; [reflexivity|]. cbn. rewrite orb_true_r. reflexivity. }
  (* something is submitted: the proposal was signed *)
  destruct (sign_phase cf e D) as [evs [[p sp0]|]] eqn:Hsp.
  2:{ rewrite (propose_unsigned _ _ _ _ Hsp) in Hsub; discriminate. }
  destruct (propose_signed _ _ _ _ _ _ Hsp) as (_ & acct & h0 & sig0 & code0 & _ & _ & (Hp & _) & _).
  destruct (p_blinded p) eqn:Hbl.
  - (* blinded *)
    destruct (blinded_submit_from_relay _ _ _ _ _ _ Hp Hbl Hsub) as
      (acct' & h & sig & code & fc & i & rl & calls & k & st & Hacct & Hb & Hsl & Hsig & Hcode & Hev & Hrl & Hcalls & Hk & Hok & Ht & Hdl & Hfc & Hsp').
    cbv zeta in *.
    pose proof (blinded_request_conts p h sig code fc Hcode Hfc Hbl) as Hconts.
    destruct (response_ok _ _ _ _ Hconts Hok) as (b & Hresp). rewrite Hresp in Hsp'.
    assert (Hcode' : signed_container (p_version p) (p_blinded p) = Some code) by (rewrite Hbl; exact Hcode).
    assert (Hpb : proposal_blinded c = true) by (unfold proposal_blinded, c; cbn [c_env model_case]; rewrite Hp; exact Hbl).
    destruct (scripted_eq rl k) as (Hsc & Hlat).
    assert (Hdelivered : existsb (fun ic : nat * list (N * ureq) => let '(i0, calls0) := ic in
               match nth_error (e_relays (c_env c)) i0 with
               | None => false
               | Some r => existsb (fun kc : nat * (N * ureq) => let '(k0, call0) := kc in
                     match response (snd call0) (scripted r k0) with
                     | Some b' => sblock_eqb b b' && (fst call0 + scripted_lat r k0 <=? t)
                     | None => false end) (indexed 0 calls0)
               end) (indexed 0 (o_unblind (propose cf e D))) = true).
    { apply existsb_exists. exists (i, calls). split; [exact (indexed_nth _ _ 0%nat i calls Hcalls)|].
      unfold c; cbn [c_env model_case]. rewrite Hrl.
      apply existsb_exists. exists (k, (st, unblind_request (signed_proposal p h sig code))).
      split; [exact (indexed_nth _ _ 0%nat k _ Hk)|]. cbn [fst snd].
      rewrite Hsc, Hresp, Hlat. apply andb_true_iff; split; [apply sblock_eqb_spec; reflexivity|]. apply N.leb_le. lia. }
    split.
    + apply andb_true_iff; split; [apply Nat.eqb_eq; eapply count_sign_block_one; eauto|].
      unfold c at 1. rewrite (expected_signed_model id cf e d prep p h sig code Hp Hb Hsig Hcode').
      rewrite Hpb. subst sp. cbn [sp_version sp_blinded sp_conts signed_proposal negb].
      rewrite N.eqb_refl, Hfc, N.eqb_refl. cbn [andb]. unfold delivered_by. rewrite Hobs. exact Hdelivered.
    + rewrite Hpb. cbn [negb orb]. apply orb_true_iff; left.
      unfold some_call_answered. rewrite Hobs.
      apply existsb_exists. exists (i, calls). split; [exact (indexed_nth _ _ 0%nat i calls Hcalls)|].
      unfold c; cbn [c_env model_case]. rewrite Hrl.
      apply existsb_exists. exists (k, (st, unblind_request (signed_proposal p h sig code))).
      split; [exact (indexed_nth _ _ 0%nat k _ Hk)|]. cbn [fst]. rewrite Hsc. exact Hok.
  - (* not blinded *)
    destruct (submit_is_signed_block _ _ _ _ _ _ Hp Hbl Hsub) as
      (acct' & h & sig & code & Hacct & Hb & Hsl & Hsig & Hcode & -> & Hev & -> & Hnil).
    assert (Hcode' : signed_container (p_version p) (p_blinded p) = Some code) by (rewrite Hbl; exact Hcode).
    assert (Hpb : proposal_blinded c = false) by (unfold proposal_blinded, c; cbn [c_env model_case]; rewrite Hp; exact Hbl).
    split.
    + apply andb_true_iff; split; [apply Nat.eqb_eq; eapply count_sign_block_one; eauto|].
      unfold c at 1. rewrite (expected_signed_model id cf e d prep p h sig code Hp Hb Hsig Hcode').
      rewrite Hpb. apply andb_true_iff; split; [apply sproposal_eqb_spec; reflexivity|].
      rewrite (concat_all_nil _ Hnil). reflexivity.
    + rewrite Hpb. reflexivity.
Qed.

Lemma clause_degrades : forall id cf e d prep, degrades_ok (model_case id cf e d prep) = true.
Proof.
  intros id cf e d prep. set (c := model_case id cf e d prep).
  destruct (run_duty_check id cf e d prep) as (Hs & Hv & Ha & Hr). fold c in Ha, Hr.
  assert (Hobs : c_obs c = propose cf e (run_duty cf e d prep)) by (unfold c, model_case; cbn [c_obs]; apply run_parts).
  set (D := run_duty cf e d prep) in *.
  unfold degrades_ok. rewrite Hobs.
  destruct (duty_ready c && negb (randao_of c =? 0)) eqn:Hready; [|reflexivity]. cbn [negb orb].
  apply andb_true_iff in Hready as (Hacc & Hrn). unfold duty_ready in Hacc. rewrite <- Ha in Hacc.
  destruct (d_account D) as [acct|] eqn:Hacct; [|discriminate].
  rewrite <- Hr in *. assert (Hrz : d_randao D <> 0) by (apply negb_true_iff in Hrn; lia).
  destruct (degrades_not_skips cf e D acct Hrz Hacct) as (Hin & _ & Hlocal & _).
  repeat (apply andb_true_iff; split).
  - apply existsb_exists. eexists; split; [exact Hin|]. rewrite Hs. unfold c; cbn [c_duty c_env c_cfg model_case].
    apply event_eqb_refl.
  - apply Nat.eqb_eq. rewrite count_events_eq, (count_ext _ _ _ ev_proposal_eq).
    pose proof (count_if_in_pos Proofs.C05.is_proposal _ _ Hin eq_refl).
    rewrite propose_events in *. pose proof (sign_phase_count_proposal cf e D). lia.
  - unfold c; cbn [c_env c_duty model_case].
    destruct (e_proposal e) as [|p] eqn:Hp; [reflexivity|].
    destruct (negb (p_blinded p) && known_version (p_version p) && p_body_present p
              && match p_block p with Some h => h_slot h =? d_slot d | None => false end
              && e_dom_block e && match e_sig_block e with Some _ => true | None => false end) eqn:Hgood; [|reflexivity].
    cbn [negb orb].
    rewrite !andb_true_iff in Hgood. destruct Hgood as (((((Hnb & Hk) & Hbody) & Hblk) & Hdom) & Hsg).
    destruct (p_block p) as [h|] eqn:Hb; [|discriminate]. apply N.eqb_eq in Hblk.
    destruct (e_sig_block e) as [sig|] eqn:Hsig; [|discriminate]. apply negb_true_iff in Hnb.
    assert (Hsignable : signable e D p h) by (repeat split; auto; lia).
    destruct (Hlocal p h sig Hsignable Hnb Hdom eq_refl) as (code & _ & Hsub). rewrite Hsub. reflexivity.
Qed.

Lemma clause_other_slot : forall id cf e d prep, other_slot_refused (model_case id cf e d prep) = true.
Proof.
  intros id cf e d prep. set (c := model_case id cf e d prep).
  destruct (run_duty_check id cf e d prep) as (Hs & _).
  assert (Hobs : c_obs c = propose cf e (run_duty cf e d prep)) by (unfold c, model_case; cbn [c_obs]; apply run_parts).
  set (D := run_duty cf e d prep) in *.
  unfold other_slot_refused. rewrite Hobs.
  destruct (match obtained_block c with Some h => h_slot h =? d_slot (c_duty c) | None => false end) eqn:Hslot; [reflexivity|].
  cbn [orb].
  assert (Hns : forall p h, ~ signable e D p h).
  { intros p h (Hp & _ & Hb & Hsl & _). unfold obtained_block, c in Hslot; cbn [c_env c_duty model_case] in Hslot.
    rewrite Hp, Hb in Hslot. lia. }
  destruct (unsignable_silent cf e D Hns) as (Hev & Hnil & Hsub & _).
  rewrite Hsub, (concat_all_nil _ Hnil). cbn [is_nil]. rewrite !andb_true_r.
  apply Nat.eqb_eq. rewrite count_events_eq, (count_ext _ _ _ ev_sign_block_eq). apply count_if_none. exact Hev.
Qed.

Lemma clause_unready : forall id cf e d prep, unready_silent (model_case id cf e d prep) = true.
Proof.
  intros id cf e d prep. set (c := model_case id cf e d prep).
  destruct (run_duty_check id cf e d prep) as (_ & _ & Ha & Hr). fold c in Ha, Hr.
  assert (Hobs : c_obs c = propose cf e (run_duty cf e d prep)) by (unfold c, model_case; cbn [c_obs]; apply run_parts).
  set (D := run_duty cf e d prep) in *.
  unfold unready_silent. rewrite Hobs.
  destruct (duty_ready c && negb (randao_of c =? 0)) eqn:Hready; [reflexivity|]. cbn [orb].
  assert (Hun : d_randao D = 0 \/ d_account D = None).
  { unfold duty_ready in Hready. rewrite <- Ha, <- Hr in Hready.
    destruct (d_account D); [|right; reflexivity]. cbn in Hready. left. apply negb_false_iff in Hready. lia. }
  rewrite (unready_duty_silent cf e D Hun). cbn [o_events o_unblind o_submit stop is_nil andb].
  rewrite (concat_all_nil (no_calls e)); [reflexivity|]. intros i l Hn; eapply no_calls_nth; eauto.
Qed.

(* a duty the model's Prepare succeeded on carries its own account and that account's reveal *)
Lemma clause_prepared_own : forall id cf e d prep, prepared_duty_own (model_case id cf e d prep) = true.
Proof.
  intros id cf e d prep. unfold prepared_duty_own, model_case, provided_account; cbn [c_prepare c_prep_ok c_post_account c_post_randao c_env c_duty].
  destruct (run_parts cf e d prep) as (_ & Hok & _). rewrite Hok. clear Hok.
  unfold duty_after. destruct prep; cbn [andb negb orb]; [|reflexivity].
  unfold prepare.
  destruct (e_accounts e) as [|m]; cbn [fst snd negb orb]; [reflexivity|].
  destruct (Nat.eqb (length m) 1); cbn [negb fst snd orb]; [|reflexivity].
  destruct (e_dom_randao e); cbn [negb fst snd orb]; [|reflexivity].
  destruct (lookup_account (d_validator d) m) as [a|] eqn:Ea; cbn [fst snd negb orb]; [|reflexivity].
  destruct (e_sig_randao e) as [s|]; cbn [fst snd negb orb]; [|reflexivity].
  cbn. rewrite !N.eqb_refl. reflexivity.
Qed.

(* every full block a relay of the model's run hands back in time is submitted by then *)
Lemma clause_first_block : forall id cf e d prep, first_block_submitted (model_case id cf e d prep) = true.
Proof.
  intros id cf e d prep. set (c := model_case id cf e d prep).
  assert (Hobs : c_obs c = propose cf e (run_duty cf e d prep)) by (unfold c, model_case; cbn [c_obs]; apply run_parts).
  set (D := run_duty cf e d prep) in *.
  unfold first_block_submitted.
  destruct (unblinds_to c) eqn:Hu; [|reflexivity]. cbn [negb orb].
  unfold unblinds_to in Hu. assert (He : c_env c = e) by reflexivity. rewrite He in *.
  destruct (e_proposal e) as [|p] eqn:Hp; [discriminate|].
  apply andb_true_iff in Hu as (Hbl & Hfc).
  destruct (full_container (p_version p)) as [fc|] eqn:Efc; [|discriminate].
  apply forallb_forall. intros [f ok] Hin.
  apply returned_calls_in in Hin as (i & calls & k & st & rq & r & Hc & Hk & Hr & -> & ->).
  rewrite He in *.
  destruct (is_ok (scripted r k)) eqn:Hok; [|reflexivity]. cbn [negb orb].
  rewrite (call_returns_ok _ _ _ _ Hok).
  destruct (st + scripted_lat r k <? e_deadline e) eqn:Hlt; [|reflexivity]. cbn [negb orb].
  destruct (scripted_eq r k) as (Hsc & Hlat). rewrite Hsc in Hok. rewrite Hlat in *.
  rewrite Hobs in Hc. apply N.ltb_lt in Hlt.
  destruct (full_block_in_time_submitted cf e D p i r calls k st rq fc Hp Efc Hr Hc Hk Hok Hlt) as (t & sp & Hsub & Hle).
  unfold submitted_by. rewrite Hobs, Hsub. apply N.leb_le. exact Hle.
Qed.

Theorem model_satisfies_P_core : forall id cf e d prep, P_core (model_case id cf e d prep) = true.
Proof.
  intros id cf e d prep. unfold P_core. rewrite (clause_prepared_own id cf e d prep), (clause_first_block id cf e d prep).
  destruct (clause_prep_events id cf e d prep) as (H2 & H3).
  destruct (clause_block_events id cf e d prep) as (H4 & H5).
  destruct (clause_submit id cf e d prep) as (H7 & H8).
  rewrite H2, H4, (clause_unblind_calls id cf e d prep), H7, H8, (clause_degrades id cf e d prep),
    (clause_other_slot id cf e d prep), (clause_unready id cf e d prep).
  apply Nat.leb_le in H3, H5. rewrite H3, H5.
  assert (Hp : o_panic (c_obs (model_case id cf e d prep)) = false).
  { unfold model_case; cbn [c_obs]. destruct (run_parts cf e d prep) as (_ & _ & ->). apply propose_no_panic. }
  rewrite Hp. reflexivity.
Qed.

(* ------------------------------------------------------------------------------------------- *)
(* Time: the model's case under latencies, and P_b (with its clauses on time) of it. *)

(* Prepare does not look at what time touches *)
Lemma prepare_apply_cuts : forall cf e x dl d, prepare cf (apply_cuts e x dl) d = prepare cf e d.
Proof. reflexivity. Qed.

(* the requests up to the signature do not depend on the time left for the relays *)
Lemma sign_phase_deadline : forall cf e x d1 d2 d,
  sign_phase cf (apply_cuts e x d1) d = sign_phase cf (apply_cuts e x d2) d.
Proof. reflexivity. Qed.

Lemma run_apply_cuts : forall cf e x dl d prep,
  fst (run cf (apply_cuts e x dl) d prep) = fst (run cf e d prep)
  /\ duty_after cf (apply_cuts e x dl) d prep = duty_after cf e d prep
  /\ snd (run cf (apply_cuts e x dl) d prep) = propose cf (apply_cuts e x dl) (duty_after cf e d prep).
Proof.
  intros cf e x dl d prep. unfold run, duty_after. destruct prep; [|auto].
  rewrite prepare_apply_cuts. destruct (prepare cf e d) as [[d1 evs] ok]. auto.
Qed.

(* the answers as the model has them given *)
Definition env_t (cf : config) (e : env) (l : lats) (D : duty) : env :=
  apply_cuts e (cuts_of e l) (e_deadline e - t_t0 (propose_t cf e l D)).

Definition model_case_t (id : N) (cf : config) (e : env) (l : lats) (d : duty) (prep : bool) : case :=
  let D := duty_after cf e d prep in
  let m := propose_t cf e l D in
  {| c_id := id; c_cfg := cf; c_env := e; c_lat := l; c_duty := d; c_prepare := prep;
     c_prep_events := fst (fst (run cf e d prep)); c_prep_ok := snd (fst (run cf e d prep));
     c_post_account := d_account D; c_post_randao := d_randao D;
     c_cut := t_cuts m; c_times := t_times m; c_live := t_live m; c_t0 := t_t0 m;
     c_obs := t_res m; c_ret := t_ret m; c_sub_cut := t_sub_cut m |}.

Lemma propose_t_parts : forall cf e l D,
  let m := propose_t cf e l D in
  t_cuts m = cuts_of e l
  /\ t_res m = propose cf (env_t cf e l D) D
  /\ (t_times m, t_t0 m) = stamps (e_deadline e) l 0 (o_events (t_res m))
  /\ t_live m = map (fun t => t <? e_deadline e) (t_times m)
  /\ t_ret m = match o_submit (t_res m) with
               | Some (s, _) => adv (e_deadline e) (s + t_t0 m) (l_submit l)
               | None => o_ret (t_res m) + t_t0 m end
  /\ t_sub_cut m = match o_submit (t_res m) with
                   | Some (s, _) => negb (in_time (e_deadline e) (s + t_t0 m) (l_submit l))
                   | None => false end.
Proof.
  intros cf e l D m. unfold m, env_t, propose_t.
  destruct (stamps (e_deadline e) l 0 (fst (sign_phase cf (apply_cuts e (cuts_of e l) (e_deadline e)) D))) as [ts t0] eqn:Hst.
  cbn [t_cuts t_res t_times t_t0 t_live t_ret t_sub_cut].
  repeat split.
  rewrite propose_events, (sign_phase_deadline cf e (cuts_of e l) (e_deadline e - t0) (e_deadline e)), Hst. reflexivity.
Qed.

Lemma actual_model_case_t : forall id cf e l d prep,
  actual (model_case_t id cf e l d prep)
  = model_case id cf (env_t cf e l (duty_after cf e d prep)) d prep.
Proof.
  intros id cf e l d prep. unfold actual, model_case_t, model_case.
  cbn [c_id c_cfg c_env c_lat c_duty c_prepare c_prep_events c_prep_ok c_post_account c_post_randao c_cut c_times c_live c_t0 c_obs c_ret c_sub_cut].
  set (D := duty_after cf e d prep).
  destruct (propose_t_parts cf e l D) as (Hx & Hr & _). rewrite Hx, Hr.
  fold (env_t cf e l D).
  destruct (run_apply_cuts cf e (cuts_of e l) (e_deadline e - t_t0 (propose_t cf e l D)) d prep) as (H1 & H2 & H3).
  fold (env_t cf e l D) in H1, H2, H3. fold D in H2, H3.
  rewrite H1, H2, H3. reflexivity.
Qed.

Lemma live_ok_map : forall D ts, live_ok D ts (map (fun t => t <? D) ts) = true.
Proof.
  intros D ts; induction ts as [|t ts IH]; cbn; [reflexivity|].
  rewrite IH. destruct (t <? D); reflexivity.
Qed.

Lemma stamps_length : forall D l evs t, length (fst (stamps D l t evs)) = length evs.
Proof.
  intros D l evs; induction evs as [|ev evs IH]; intro t; cbn; [reflexivity|].
  specialize (IH (adv D t (ev_lat l ev))). destruct (stamps D l (adv D t (ev_lat l ev)) evs) as [ts tend].
  cbn in *. rewrite IH. reflexivity.
Qed.

Lemma adv_le : forall D t L, t <= adv D t L /\ adv D t L <= t + L.
Proof. intros D t L; unfold adv. destruct (t <? D) eqn:E; lia. Qed.

(* the whole scripted time line fits: no answer is cut *)
Lemma budget_no_cuts : forall e l, budget e l < e_deadline e -> cuts_of e l = no_cuts.
Proof.
  intros e l H. unfold budget in H. unfold cuts_of, no_cuts, in_time.
  set (D := e_deadline e) in *. set (g := graffiti_lat e l) in *. set (a := auction_lat e l) in *.
  pose proof (adv_le D 0 g) as (_ & H1).
  pose proof (adv_le D (adv D 0 g) a) as (_ & H2).
  pose proof (adv_le D (adv D (adv D 0 g) a) (l_proposal l)) as (_ & H3).
  pose proof (adv_le D (adv D (adv D (adv D 0 g) a) (l_proposal l)) (l_domain l)) as (_ & H4).
  f_equal; apply negb_false_iff, N.ltb_lt; lia.
Qed.

Theorem model_satisfies_P_b : forall id cf e l d prep, P_b (model_case_t id cf e l d prep) = true.
Proof.
  intros id cf e l d prep. unfold P_b.
  rewrite actual_model_case_t, model_satisfies_P_core. cbn [andb].
  set (D := duty_after cf e d prep).
  destruct (propose_t_parts cf e l D) as (Hx & Hr & Hst & Hlive & Hret & Hcut).
  unfold model_case_t; cbn [c_env c_lat c_times c_live c_obs c_cut c_t0 c_sub_cut]. fold D.
  repeat (apply andb_true_iff; split).
  - rewrite Hlive. apply live_ok_map.
  - apply Nat.eqb_eq. pose proof (stamps_length (e_deadline e) l (o_events (t_res (propose_t cf e l D))) 0) as Hl.
    rewrite <- Hst in Hl. exact Hl.
  - unfold in_budget_not_cut; cbn [c_env c_lat c_cut]. fold D.
    destruct (budget e l <? e_deadline e) eqn:Hb; [|reflexivity]. cbn [negb orb].
    apply N.ltb_lt in Hb. rewrite Hx, (budget_no_cuts e l Hb). reflexivity.
  - unfold submit_not_cut; cbn [c_env c_lat c_obs c_t0 c_sub_cut]. fold D. rewrite Hcut.
    destruct (o_submit (t_res (propose_t cf e l D))) as [[s sp]|]; [|reflexivity].
    unfold in_time. destruct (s + t_t0 (propose_t cf e l D) + l_submit l <? e_deadline e); reflexivity.
Qed.

(* what P_b says of a case is said of the answers the providers were seen to give *)
Lemma P_b_core : forall c, P_b c = true -> P_core (actual c) = true.
Proof. intros c H. unfold P_b in H. rewrite !andb_true_iff in H. tauto. Qed.

(* an answer seen cut is the context's error; every other answer is the scripted one *)
Lemma actual_answers : forall c,
  let e := c_env c in let a := c_env (actual c) in
  (forall p, e_proposal a = POk p -> e_proposal e = POk p)
  /\ (forall s, e_sig_block a = Some s -> e_sig_block e = Some s)
  /\ (e_dom_block a = true -> e_dom_block e = true)
  /\ (forall w al, e_auction a = AOk w al -> e_auction e = AOk w al)
  /\ (forall g, e_graffiti a = GOk g -> e_graffiti e = GOk g)
  /\ e_accounts a = e_accounts e /\ e_sig_randao a = e_sig_randao e /\ e_relays a = e_relays e.
Proof.
  intros c e a. unfold a, e, actual; cbn [c_env apply_cuts e_proposal e_sig_block e_dom_block e_auction e_graffiti e_accounts e_sig_randao e_relays].
  repeat split.
  - intros p. destruct (x_proposal (c_cut c)); [discriminate|auto].
  - intros s. destruct (x_sign (c_cut c)); [discriminate|auto].
  - intro H. apply andb_true_iff in H. tauto.
  - intros w al. destruct (e_auction (c_env c)); try discriminate; destruct (x_auction (c_cut c)); try discriminate; auto.
  - intros g. destruct (e_graffiti (c_env c)); try discriminate; destruct (x_graffiti (c_cut c)); try discriminate; auto.
Qed.

(* time, on the observed behaviour *)
Lemma live_ok_nth : forall D ts lv k t, live_ok D ts lv = true -> nth_error ts k = Some t -> t < D ->
  nth_error lv k = Some true.
Proof.
  intros D ts; induction ts as [|t0 ts IH]; intros lv k t H Hn Hlt; [destruct k; discriminate|].
  destruct lv as [|b lv]; [discriminate|]. cbn in H. apply andb_true_iff in H as (Hb & H).
  destruct k as [|k]; cbn in *.
  - injection Hn as ->. apply N.ltb_lt in Hlt. rewrite Hlt in Hb. cbn in Hb. subst b. reflexivity.
  - eapply IH; eauto.
Qed.

Lemma P_b_sound_time : forall c,
  P_b c = true ->
  (* every request made before the deadline came with a live context *)
  (forall k t, nth_error (c_times c) k = Some t -> t < e_deadline (c_env c) -> nth_error (c_live c) k = Some true)
  (* in budget: the beacon node, the domain provider and the account were left their time *)
  /\ (budget (c_env c) (c_lat c) < e_deadline (c_env c) ->
      x_proposal (c_cut c) = false /\ x_domain (c_cut c) = false /\ x_sign (c_cut c) = false)
  (* and so was the submitter *)
  /\ (forall s sp, o_submit (c_obs c) = Some (s, sp) -> s + c_t0 c + l_submit (c_lat c) < e_deadline (c_env c) ->
      c_sub_cut c = false).
Proof.
  intros c H. unfold P_b in H. rewrite !andb_true_iff in H. destruct H as ((((_ & Hl) & _) & Hb) & Hs).
  split; [|split].
  - intros k t Hn Hlt. eapply live_ok_nth; eauto.
  - intro Hlt. unfold in_budget_not_cut in Hb. apply N.ltb_lt in Hlt. rewrite Hlt in Hb. cbn in Hb.
    apply negb_true_iff in Hb. rewrite !orb_false_iff in Hb. tauto.
  - intros s sp Hsub Hlt. unfold submit_not_cut in Hs. rewrite Hsub in Hs. apply N.ltb_lt in Hlt. rewrite Hlt in Hs.
    cbn in Hs. rewrite orb_false_r in Hs. apply negb_true_iff in Hs. exact Hs.
Qed.

(* ------------------------------------------------------------------------------------------- *)
(* Slow steps degrade, they do not skip: over every environment and all latencies *)

Lemma apply_no_cuts : forall e dl,
  let a := apply_cuts e no_cuts dl in
  e_graffiti a = e_graffiti e /\ e_auction a = e_auction e /\ e_proposal a = e_proposal e
  /\ e_dom_block a = e_dom_block e /\ e_sig_block a = e_sig_block e.
Proof.
  intros e dl; cbn. repeat split.
  - destruct (e_graffiti e); reflexivity.
  - destruct (e_auction e); reflexivity.
  - apply andb_true_r.
Qed.

(* a cut graffiti answer is zero graffiti, a cut auction is no auction results; whatever is cut, the
   beacon node is asked; and when the scripted time line up to the signature fits into the context,
   nothing is cut and a good local block is signed and submitted as soon as the signature is there,
   whatever the graffiti provider and the auctioneer answered and however long they took *)
Lemma slow_steps_degrade : forall c e l d acct,
  d_randao d <> 0 -> d_account d = Some acct ->
  let m := propose_t c e l d in
  (exists g, In (EProposal (d_slot d) (d_randao d) g (c_boost c)) (o_events (t_res m))
             /\ (g = graffiti_value e \/ (x_graffiti (t_cuts m) = true /\ g = 0)))
  /\ (budget e l < e_deadline e ->
      t_cuts m = no_cuts
      /\ In (EProposal (d_slot d) (d_randao d) (graffiti_value e) (c_boost c)) (o_events (t_res m))
      /\ forall pr h sig, signable e d pr h -> p_blinded pr = false -> e_dom_block e = true -> e_sig_block e = Some sig ->
           exists code, signed_container (p_version pr) false = Some code
                        /\ o_submit (t_res m) = Some (0, signed_proposal pr h sig code)).
Proof.
  intros c e l d acct Hr Ha m.
  destruct (propose_t_parts c e l d) as (Hx & Hres & _). fold m in Hx, Hres.
  split.
  - destruct (degrades_not_skips c (env_t c e l d) d acct Hr Ha) as (Hin & _).
    rewrite <- Hres in Hin. eexists; split; [exact Hin|].
    rewrite Hx. unfold env_t, graffiti_value; cbn [apply_cuts e_graffiti].
    destruct (x_graffiti (cuts_of e l)) eqn:Hxg; destruct (e_graffiti e) as [| |g]; auto.
  - intro Hb. pose proof (budget_no_cuts e l Hb) as Hnc.
    assert (Henv : env_t c e l d = apply_cuts e no_cuts (e_deadline e - t_t0 m)) by (unfold env_t; rewrite Hnc; reflexivity).
    destruct (apply_no_cuts e (e_deadline e - t_t0 m)) as (Hg & Hau & Hp & Hdb & Hsb).
    rewrite <- Henv in Hg, Hau, Hp, Hdb, Hsb.
    destruct (degrades_not_skips c (env_t c e l d) d acct Hr Ha) as (Hin & _ & Hlocal & _).
    rewrite <- Hres in Hin, Hlocal.
    split; [rewrite Hx; exact Hnc|]. split.
    + unfold graffiti_value in *. rewrite Hg in Hin. exact Hin.
    + intros pr h sig (Hs1 & Hs2) Hbl Hd Hs. apply (Hlocal pr h sig); try assumption; try congruence.
      split; [congruence|exact Hs2].
Qed.
