From Coq Require Import Permutation.
From Verif Require Import Lib.Base Model.C18_Cache.

(* --- the association list refines a functional map --------------------------------------- *)

Lemma get_del_same s r : get (del s r) r = None.
Proof.
  induction s as [|[r' sl] s IH]; cbn; [reflexivity|].
  destruct (r' =? r) eqn:E; [exact IH|]. cbn. rewrite E. exact IH.
Qed.

Lemma get_del_other s r r' : r <> r' -> get (del s r) r' = get s r'.
Proof.
  intro Hne. induction s as [|[k sl] s IH]; cbn; [reflexivity|].
  destruct (k =? r) eqn:E.
  - apply N.eqb_eq in E; subst k.
    destruct (r =? r') eqn:E2; [apply N.eqb_eq in E2; congruence|]. exact IH.
  - cbn. destruct (k =? r'); [reflexivity | exact IH].
Qed.

Lemma get_set s r sl r' : get (set s r sl) r' = if r =? r' then Some sl else get s r'.
Proof.
  unfold set; cbn. destruct (r =? r') eqn:E; [reflexivity|].
  apply get_del_other. intro H; subst; rewrite N.eqb_refl in E; discriminate.
Qed.

Lemma get_filter (f : root * slot -> bool) s r :
  (forall r1 r2 sl, f (r1, sl) = f (r2, sl)) ->
  NoDup (map fst s) ->
  get (filter f s) r = match get s r with Some sl => if f (r, sl) then Some sl else None | None => None end.
Proof.
  intros Hf. induction s as [|[k sl] s IH]; cbn; intro Hnd; [reflexivity|].
  inversion Hnd as [|? ? Hnotin Hnd']; subst.
  destruct (k =? r) eqn:E.
  - apply N.eqb_eq in E; subst k.
    destruct (f (r, sl)) eqn:Ef; cbn.
    + rewrite N.eqb_refl. reflexivity.
    + rewrite (IH Hnd').
      assert (Hg : get s r = None).
      { clear -Hnotin. induction s as [|[k2 s2] s IH]; cbn in *; [reflexivity|].
        destruct (k2 =? r) eqn:E; [apply N.eqb_eq in E; subst; exfalso; apply Hnotin; left; reflexivity|].
        apply IH. intro H; apply Hnotin; right; exact H. }
      rewrite Hg. reflexivity.
  - destruct (f (k, sl)); cbn; rewrite ?E; apply (IH Hnd').
Qed.

Lemma in_del_fst s r k : In k (map fst (del s r)) -> In k (map fst s) /\ k <> r.
Proof.
  induction s as [|[k' sl] s IH]; cbn; [tauto|].
  destruct (k' =? r) eqn:E.
  - intro H. destruct (IH H). split; [right; assumption | assumption].
  - cbn. intros [H|H].
    + subst. split; [left; reflexivity|]. intro; subst. rewrite N.eqb_refl in E; discriminate.
    + destruct (IH H). split; [right; assumption | assumption].
Qed.

Lemma nodup_del s r : NoDup (map fst s) -> NoDup (map fst (del s r)).
Proof.
  induction s as [|[k sl] s IH]; cbn; intro H; [constructor|].
  inversion H as [|? ? Hn Hd]; subst.
  destruct (k =? r); [apply IH; exact Hd|].
  cbn. constructor; [|apply IH; exact Hd].
  intro Hin. apply in_del_fst in Hin. tauto.
Qed.

Lemma nodup_set s r sl : NoDup (map fst s) -> NoDup (map fst (set s r sl)).
Proof.
  intro H. unfold set; cbn. constructor; [|apply nodup_del; exact H].
  intro Hin. apply in_del_fst in Hin. tauto.
Qed.

Lemma nodup_filter (f : root * slot -> bool) s : NoDup (map fst s) -> NoDup (map fst (filter f s)).
Proof.
  induction s as [|[k sl] s IH]; cbn; intro H; [constructor|].
  inversion H as [|? ? Hn Hd]; subst.
  destruct (f (k, sl)); cbn; [|apply IH; exact Hd].
  constructor; [|apply IH; exact Hd].
  intro Hin. apply Hn. clear -Hin. induction s as [|[k2 s2] s IH]; cbn in *; [tauto|].
  destruct (f (k2, s2)); cbn in *; tauto.
Qed.

Definition wf (s : state) : Prop := NoDup (map fst s).

Lemma clean_wf s e spe : wf s -> wf (clean s e spe).
Proof.
  unfold wf, clean. intro H. destruct (e <=? retention); [exact H | apply nodup_filter; exact H].
Qed.

Lemma pstep_wf s pend e : wf s -> wf (fst (fst (pstep s pend e))).
Proof.
  intro H. destruct e as [i r | i r f | r sl | ce spe]; cbn [pstep].
  - destruct (get s r); exact H.
  - destruct (memb N.eqb i pend); [|exact H]. destruct f; cbn [fst]; [apply nodup_set; exact H | exact H].
  - apply nodup_set; exact H.
  - apply clean_wf; exact H.
Qed.

Lemma par_run_wf evs : forall s pend, wf s -> wf (fst (par_run s pend evs)).
Proof.
  induction evs as [|e evs IH]; intros s pend H; cbn [par_run]; [exact H|].
  pose proof (pstep_wf s pend e H) as H1.
  destruct (pstep s pend e) as [[s1 pend1] a]. cbn [fst] in H1.
  specialize (IH s1 pend1 H1). destruct (par_run s1 pend1 evs) as [s2 ans]. exact IH.
Qed.

Lemma step_wf s o : wf s -> wf (fst (step s o)).
Proof.
  intro H. destruct o as [r sl | r f | e spe | r sl blk | evs]; cbn [step fst].
  - apply nodup_set; exact H.
  - destruct (get s r); cbn [fst]; [exact H|]. destruct f; cbn [fst]; [apply nodup_set; exact H | exact H].
  - apply clean_wf; exact H.
  - exact H.
  - pose proof (par_run_wf evs s [] H) as H1. destruct (par_run s [] evs) as [s' ans]. exact H1.
Qed.

(* --- clean ----------------------------------------------------------------------------- *)

Lemma get_clean s e spe r : wf s ->
  get (clean s e spe) r =
    if e <=? retention then get s r
    else match get s r with
         | Some sl => if sl <? min_slot e spe then None else Some sl
         | None => None
         end.
Proof.
  intro H. unfold clean. destruct (e <=? retention); [reflexivity|].
  rewrite get_filter; [|intros; reflexivity | exact H].
  destruct (get s r) as [sl|]; [|reflexivity]. cbn. destruct (sl <? min_slot e spe); reflexivity.
Qed.

(* --- consistency with the chain -------------------------------------------------------- *)

Section Chain.
  Variable slot_of : root -> slot.

  (* block events and successful header fetches report the chain's slot for the root *)
  Definition pev_consistent (e : pev) : Prop :=
    match e with
    | PEvent r sl => sl = slot_of r
    | PEnd _ r (Some sl) => sl = slot_of r
    | _ => True
    end.

  Definition op_consistent (o : op) : Prop :=
    match o with
    | Event r sl => sl = slot_of r
    | Lookup r (Some sl) => sl = slot_of r
    | Par evs => Forall pev_consistent evs
    | _ => True
    end.

  Definition Inv (s : state) : Prop := wf s /\ forall r sl, get s r = Some sl -> sl = slot_of r.

  Lemma inv_init : Inv init.
  Proof. split; [constructor | cbn; discriminate]. Qed.

  Lemma inv_set s r : Inv s -> Inv (set s r (slot_of r)).
  Proof.
    intros [Hwf Hs]. split; [apply nodup_set; exact Hwf|].
    intros r' sl'. rewrite get_set. destruct (r =? r') eqn:E; [|apply Hs].
    apply N.eqb_eq in E. intro H; injection H as <-. subst; reflexivity.
  Qed.

  Lemma inv_clean s e spe : Inv s -> Inv (clean s e spe).
  Proof.
    intros [Hwf Hs]. split; [apply clean_wf; exact Hwf|].
    intros r sl. rewrite get_clean by exact Hwf.
    destruct (e <=? retention); [apply Hs|].
    destruct (get s r) as [sl0|] eqn:G; [|discriminate].
    destruct (sl0 <? min_slot e spe); [discriminate|]. intro H; injection H as <-. apply Hs; exact G.
  Qed.

  (* one micro-event of a group of overlapping lookups: the invariant is kept, and an answer that
     carries a slot carries the chain's slot of the root asked for *)
  Lemma pstep_inv s pend e : Inv s -> pev_consistent e -> Inv (fst (fst (pstep s pend e))).
  Proof.
    intros Hi Hc. destruct e as [i r | i r f | r sl | ce spe]; cbn [pstep pev_consistent] in *.
    - destruct (get s r); exact Hi.
    - destruct (memb N.eqb i pend); [|exact Hi].
      destruct f as [sl|]; cbn [fst]; [subst sl; apply inv_set; exact Hi | exact Hi].
    - subst sl. apply inv_set; exact Hi.
    - apply inv_clean; exact Hi.
  Qed.

  Lemma pstep_answer_correct s pend e i r sl : Inv s -> pev_consistent e ->
    snd (pstep s pend e) = Some (i, r, Some sl) -> sl = slot_of r.
  Proof.
    intros [_ Hs] Hc. destruct e as [j r' | j r' f | r' sl' | ce spe]; cbn [pstep pev_consistent] in *.
    - destruct (get s r') as [sl0|] eqn:G; cbn [snd]; [|discriminate].
      intro H; injection H as <- <- <-. apply Hs; exact G.
    - destruct (memb N.eqb j pend); cbn [snd]; [|discriminate].
      destruct f as [sl0|]; cbn [snd]; intro H; [|discriminate]. injection H as <- <- <-. exact Hc.
    - discriminate.
    - discriminate.
  Qed.

  Lemma par_run_inv evs : forall s pend, Inv s -> Forall pev_consistent evs ->
    Inv (fst (par_run s pend evs)).
  Proof.
    induction evs as [|e evs IH]; intros s pend Hi Hc; cbn [par_run]; [exact Hi|].
    inversion Hc as [|? ? He Hrest]; subst.
    pose proof (pstep_inv s pend e Hi He) as H1.
    destruct (pstep s pend e) as [[s1 pend1] a]. cbn [fst] in H1.
    specialize (IH s1 pend1 H1 Hrest). destruct (par_run s1 pend1 evs) as [s2 ans]. exact IH.
  Qed.

  Lemma par_run_answers_correct evs : forall s pend, Inv s -> Forall pev_consistent evs ->
    forall i r sl, In (i, r, Some sl) (snd (par_run s pend evs)) -> sl = slot_of r.
  Proof.
    induction evs as [|e evs IH]; intros s pend Hi Hc i r sl Hin; cbn [par_run] in Hin; [destruct Hin|].
    inversion Hc as [|? ? He Hrest]; subst.
    pose proof (pstep_inv s pend e Hi He) as H1.
    pose proof (pstep_answer_correct s pend e i r sl Hi He) as H2.
    destruct (pstep s pend e) as [[s1 pend1] a]. cbn [fst snd] in H1, H2.
    specialize (IH s1 pend1 H1 Hrest i r sl).
    destruct (par_run s1 pend1 evs) as [s2 ans]. cbn [snd] in *.
    destruct a as [x|]; [|apply IH; exact Hin].
    destruct Hin as [Hx|Hin]; [subst x; apply H2; reflexivity | apply IH; exact Hin].
  Qed.

  Lemma step_inv s o : Inv s -> op_consistent o -> Inv (fst (step s o)).
  Proof.
    intros Hi Hc.
    destruct o as [r sl | r f | e spe | r sl blk | evs]; cbn [step fst op_consistent] in *.
    - subst sl. apply inv_set; exact Hi.
    - destruct (get s r) eqn:G; cbn [fst]; [exact Hi|].
      destruct f as [sl|]; cbn [fst]; [|exact Hi]. subst sl. apply inv_set; exact Hi.
    - apply inv_clean; exact Hi.
    - exact Hi.
    - pose proof (par_run_inv evs s [] Hi Hc) as H1. destruct (par_run s [] evs) as [s' ans]. exact H1.
  Qed.

  Lemma step_par_correct s evs ans i r sl : Inv s -> op_consistent (Par evs) ->
    snd (step s (Par evs)) = OMany ans -> In (i, r, Some sl) ans -> sl = slot_of r.
  Proof.
    intros Hi Hc. cbn [step op_consistent] in *.
    pose proof (par_run_answers_correct evs s [] Hi Hc i r sl) as H1.
    destruct (par_run s [] evs) as [s' ans']. cbn [snd] in *.
    intro H; injection H as <-. exact H1.
  Qed.

  Lemma step_out_correct s r f sl : Inv s -> op_consistent (Lookup r f) ->
    snd (step s (Lookup r f)) = OSlot sl -> sl = slot_of r.
  Proof.
    intros [_ Hs] Hc. cbn. destruct (get s r) as [sl0|] eqn:G; cbn.
    - intro H; injection H as <-. apply Hs; exact G.
    - destruct f as [sl1|]; cbn; [|discriminate]. intro H; injection H as <-. exact Hc.
  Qed.

  (* every reachable state, and every answer given along any consistent history *)
  Lemma run_inv ops : forall s, Inv s -> Forall op_consistent ops -> Inv (fst (run s ops)).
  Proof.
    induction ops as [|o ops IH]; intros s Hi Hc; cbn; [exact Hi|].
    inversion Hc as [|? ? Ho Hrest]; subst.
    pose proof (step_inv s o Hi Ho) as Hi1.
    destruct (step s o) as [s1 x] eqn:Es. cbn in Hi1.
    specialize (IH s1 Hi1 Hrest). destruct (run s1 ops) as [s2 xs]. exact IH.
  Qed.

  Lemma run_lookup_correct ops : forall s, Inv s -> Forall op_consistent ops ->
    forall i r f sl,
      nth_error ops i = Some (Lookup r f) ->
      nth_error (snd (run s ops)) i = Some (OSlot sl) ->
      sl = slot_of r.
  Proof.
    induction ops as [|o ops IH]; intros s Hi Hc i r f sl Hop Hout; [destruct i; discriminate|].
    inversion Hc as [|? ? Ho Hrest]; subst.
    pose proof (step_inv s o Hi Ho) as Hi1.
    cbn in Hout. destruct (step s o) as [s1 x] eqn:Es. cbn in Hi1.
    destruct (run s1 ops) as [s2 xs] eqn:Er. cbn in Hout.
    destruct i as [|i]; cbn in *.
    - injection Hop as ->. injection Hout as ->.
      apply (step_out_correct s r f sl Hi Ho). rewrite Es. reflexivity.
    - apply (IH s1 Hi1 Hrest i r f sl Hop). rewrite Er. exact Hout.
  Qed.
  Lemma run_par_correct ops : forall s, Inv s -> Forall op_consistent ops ->
    forall k evs ans i r sl,
      nth_error ops k = Some (Par evs) ->
      nth_error (snd (run s ops)) k = Some (OMany ans) ->
      In (i, r, Some sl) ans ->
      sl = slot_of r.
  Proof.
    induction ops as [|o ops IH]; intros s Hi Hc k evs ans i r sl Hop Hout Hin; [destruct k; discriminate|].
    inversion Hc as [|? ? Ho Hrest]; subst.
    pose proof (step_inv s o Hi Ho) as Hi1.
    cbn in Hout. destruct (step s o) as [s1 x] eqn:Es. cbn in Hi1.
    destruct (run s1 ops) as [s2 xs] eqn:Er. cbn in Hout.
    destruct k as [|k]; cbn in *.
    - injection Hop as ->. injection Hout as ->.
      apply (step_par_correct s evs ans i r sl Hi Ho); [rewrite Es; reflexivity | exact Hin].
    - apply (IH s1 Hi1 Hrest k evs ans i r sl Hop); [rewrite Er; exact Hout | exact Hin].
  Qed.
  (* --- retention: an entry leaves the map only through a cleaning run entitled to remove it ---
     Whatever else is stored meanwhile, and however many entries the map holds (it has no size
     bound), a root stays cached with its slot as long as no cleaning run -- sequential or inside
     a group -- finds its slot below the first slot of (epoch - 64). *)
  Definition clean_keeps (r : root) (e spe : N) : Prop :=
    (e <=? retention) = true \/ (slot_of r <? min_slot e spe) = false.

  Definition pev_keeps (r : root) (e : pev) : Prop :=
    match e with PClean e spe => clean_keeps r e spe | _ => True end.

  Definition op_keeps (r : root) (o : op) : Prop :=
    match o with
    | Clean e spe => clean_keeps r e spe
    | Par evs => Forall (pev_keeps r) evs
    | _ => True
    end.

  Definition cached (s : state) (r : root) : Prop := get s r = Some (slot_of r).

  Lemma cached_set s r r' : cached s r -> cached (set s r' (slot_of r')) r.
  Proof.
    unfold cached. intro H. rewrite get_set. destruct (r' =? r) eqn:E; [|exact H].
    apply N.eqb_eq in E. subst; reflexivity.
  Qed.

  Lemma cached_clean s r e spe : wf s -> clean_keeps r e spe -> cached s r -> cached (clean s e spe) r.
  Proof.
    unfold cached. intros Hwf Hk H. rewrite get_clean by exact Hwf. rewrite H.
    destruct Hk as [Hk|Hk]; rewrite Hk; [reflexivity|]. destruct (e <=? retention); reflexivity.
  Qed.

  Lemma pstep_keeps s pend e r : Inv s -> pev_consistent e -> pev_keeps r e ->
    cached s r -> cached (fst (fst (pstep s pend e))) r.
  Proof.
    intros [Hwf _] Hc Hk H. destruct e as [i r' | i r' f | r' sl | ce spe]; cbn [pstep pev_consistent pev_keeps] in *.
    - destruct (get s r'); exact H.
    - destruct (memb N.eqb i pend); [|exact H].
      destruct f as [sl|]; cbn [fst]; [subst sl; apply cached_set; exact H | exact H].
    - subst sl. apply cached_set; exact H.
    - apply cached_clean; assumption.
  Qed.

  Lemma par_run_keeps evs r : forall s pend, Inv s -> Forall pev_consistent evs -> Forall (pev_keeps r) evs ->
    cached s r -> cached (fst (par_run s pend evs)) r.
  Proof.
    induction evs as [|e evs IH]; intros s pend Hi Hc Hk H; cbn [par_run]; [exact H|].
    inversion Hc as [|? ? He Hrest]; subst. inversion Hk as [|? ? Hke Hkrest]; subst.
    pose proof (pstep_inv s pend e Hi He) as H1.
    pose proof (pstep_keeps s pend e r Hi He Hke H) as H2.
    destruct (pstep s pend e) as [[s1 pend1] a]. cbn [fst] in H1, H2.
    specialize (IH s1 pend1 H1 Hrest Hkrest H2). destruct (par_run s1 pend1 evs) as [s2 ans]. exact IH.
  Qed.

  Lemma step_keeps s o r : Inv s -> op_consistent o -> op_keeps r o -> cached s r -> cached (fst (step s o)) r.
  Proof.
    intros Hi Hc Hk H.
    destruct o as [r' sl | r' f | e spe | r' sl blk | evs]; cbn [step fst op_consistent op_keeps] in *.
    - subst sl. apply cached_set; exact H.
    - destruct (get s r') eqn:G; cbn [fst]; [exact H|].
      destruct f as [sl|]; cbn [fst]; [|exact H]. subst sl. apply cached_set; exact H.
    - apply cached_clean; [exact (proj1 Hi) | exact Hk | exact H].
    - exact H.
    - pose proof (par_run_keeps evs r s [] Hi Hc Hk H) as H1. destruct (par_run s [] evs) as [s' ans]. exact H1.
  Qed.

  Lemma run_keeps ops r : forall s, Inv s -> Forall op_consistent ops -> Forall (op_keeps r) ops ->
    cached s r -> cached (fst (run s ops)) r.
  Proof.
    induction ops as [|o ops IH]; intros s Hi Hc Hk H; cbn [run]; [exact H|].
    inversion Hc as [|? ? Ho Hrest]; subst. inversion Hk as [|? ? Hko Hkrest]; subst.
    pose proof (step_inv s o Hi Ho) as Hi1.
    pose proof (step_keeps s o r Hi Ho Hko H) as H1.
    destruct (step s o) as [s1 x]. cbn [fst] in Hi1, H1.
    specialize (IH s1 Hi1 Hrest Hkrest H1). destruct (run s1 ops) as [s2 xs]. exact IH.
  Qed.

  (* once a root has been stored (block event, SetBlockRootToSlot or a successful miss), then after
     ANY further consistent history none of whose cleaning runs is entitled to remove it, a lookup
     of it is a hit with its slot, whatever the node would answer *)
  Lemma stored_then_hit ops1 o ops2 r f :
    Forall op_consistent (ops1 ++ o :: ops2) ->
    (o = Event r (slot_of r) \/ o = Lookup r (Some (slot_of r))) ->
    Forall (op_keeps r) ops2 ->
    let s := fst (run init (ops1 ++ o :: ops2)) in
    step s (Lookup r f) = (s, OSlot (slot_of r)).
  Proof.
    intros Hc Ho Hk.
    assert (Hrun : forall a b s, fst (run s (a ++ b)) = fst (run (fst (run s a)) b)).
    { induction a as [|x a IH]; intros b s0; cbn [app run fst]; [reflexivity|].
      destruct (step s0 x) as [s1 y]. specialize (IH b s1).
      destruct (run s1 (a ++ b)) as [s2 ys]. destruct (run s1 a) as [s3 zs]. exact IH. }
    apply Forall_app in Hc. destruct Hc as [Hc1 Hc2]. inversion Hc2 as [|? ? Hco Hc3]; subst x l.
    cbn zeta. rewrite Hrun.
    pose proof (run_inv ops1 init inv_init Hc1) as Hi1.
    set (s1 := fst (run init ops1)) in *.
    assert (Hs : Inv (fst (step s1 o)) /\ cached (fst (step s1 o)) r).
    { split; [apply step_inv; assumption|].
      destruct Ho as [-> | ->]; cbn [step fst]; unfold cached.
      - rewrite get_set, N.eqb_refl. reflexivity.
      - destruct (get s1 r) as [sl0|] eqn:G; cbn [fst].
        + rewrite G. f_equal. apply (proj2 Hi1 r sl0 G).
        + rewrite get_set, N.eqb_refl. reflexivity. }
    destruct Hs as [Hi2 Hcached].
    cbn [run]. destruct (step s1 o) as [s2 x] eqn:Es. cbn [fst] in Hi2, Hcached.
    pose proof (run_keeps ops2 r s2 Hi2 Hc3 Hk Hcached) as Hfin.
    destruct (run s2 ops2) as [s3 xs] eqn:Er. cbn [fst] in *.
    unfold cached in Hfin. cbn [step]. rewrite Hfin. reflexivity.
  Qed.
  (* --- writes that overlap the cleaning job (storms): whatever the interleaving of the micro-events
     of a group, a completed write of a root that no cleaning run of the group is entitled to remove
     is in the map after the group; so is every root answered with a slot; and a root cached before
     the group is a hit at any moment of it. *)
  Lemma par_run_set_kept evs1 : forall s pend evs2 r, Inv s ->
    Forall pev_consistent (evs1 ++ PEvent r (slot_of r) :: evs2) -> Forall (pev_keeps r) evs2 ->
    cached (fst (par_run s pend (evs1 ++ PEvent r (slot_of r) :: evs2))) r.
  Proof.
    induction evs1 as [|e evs1 IH]; intros s pend evs2 r Hi Hc Hk.
    - cbn [app par_run pstep]. inversion Hc as [|? ? He Hrest]; subst.
      pose proof (par_run_keeps evs2 r (set s r (slot_of r)) pend (inv_set s r Hi) Hrest Hk) as H1.
      destruct (par_run (set s r (slot_of r)) pend evs2) as [s2 ans]. apply H1.
      unfold cached. rewrite get_set, N.eqb_refl. reflexivity.
    - cbn [app par_run]. inversion Hc as [|? ? He Hrest]; subst.
      pose proof (pstep_inv s pend e Hi He) as H1.
      destruct (pstep s pend e) as [[s1 pend1] a]. cbn [fst] in H1.
      specialize (IH s1 pend1 evs2 r H1 Hrest Hk).
      destruct (par_run s1 pend1 (evs1 ++ PEvent r (slot_of r) :: evs2)) as [s2 ans]. exact IH.
  Qed.

  Lemma pstep_answer_cached s pend e i r sl : Inv s -> pev_consistent e ->
    snd (pstep s pend e) = Some (i, r, Some sl) -> cached (fst (fst (pstep s pend e))) r.
  Proof.
    intros [_ Hs] Hc. unfold cached.
    destruct e as [j r' | j r' f | r' sl' | ce spe]; cbn [pstep pev_consistent] in *.
    - destruct (get s r') as [sl0|] eqn:G; cbn [snd fst]; [|discriminate].
      intro H; injection H as <- <- <-. rewrite G. f_equal. apply Hs; exact G.
    - destruct (memb N.eqb j pend); cbn [snd]; [|discriminate].
      destruct f as [sl0|]; cbn [snd fst]; intro H; [|discriminate]. injection H as <- <- <-.
      rewrite get_set, N.eqb_refl. f_equal. exact Hc.
    - discriminate.
    - discriminate.
  Qed.

  Lemma par_run_answered_kept evs r : forall s pend, Inv s -> Forall pev_consistent evs ->
    Forall (pev_keeps r) evs ->
    forall i sl, In (i, r, Some sl) (snd (par_run s pend evs)) -> cached (fst (par_run s pend evs)) r.
  Proof.
    induction evs as [|e evs IH]; intros s pend Hi Hc Hk i sl Hin; cbn [par_run] in *; [destruct Hin|].
    inversion Hc as [|? ? He Hrest]; subst. inversion Hk as [|? ? Hke Hkrest]; subst.
    pose proof (pstep_inv s pend e Hi He) as H1.
    pose proof (pstep_answer_cached s pend e i r sl Hi He) as H2.
    destruct (pstep s pend e) as [[s1 pend1] a]. cbn [fst snd] in H1, H2.
    pose proof (IH s1 pend1 H1 Hrest Hkrest i sl) as H3.
    pose proof (par_run_keeps evs r s1 pend1 H1 Hrest Hkrest) as H4.
    destruct (par_run s1 pend1 evs) as [s2 ans]. cbn [fst snd] in *.
    destruct a as [x|]; [|apply H3; exact Hin].
    destruct Hin as [Hx|Hin]; [subst x; apply H4; apply H2; reflexivity | apply H3; exact Hin].
  Qed.

  Lemma par_run_cached_hits evs1 : forall s pend i r evs2, Inv s -> cached s r ->
    Forall pev_consistent evs1 -> Forall (pev_keeps r) evs1 ->
    In (i, r, Some (slot_of r)) (snd (par_run s pend (evs1 ++ PBegin i r :: evs2))).
  Proof.
    induction evs1 as [|e evs1 IH]; intros s pend i r evs2 Hi H Hc Hk.
    - cbn [app par_run pstep]. unfold cached in H. rewrite H.
      destruct (par_run s pend evs2) as [s2 ans]. left. reflexivity.
    - cbn [app par_run]. inversion Hc as [|? ? He Hrest]; subst. inversion Hk as [|? ? Hke Hkrest]; subst.
      pose proof (pstep_inv s pend e Hi He) as H1.
      pose proof (pstep_keeps s pend e r Hi He Hke H) as H2.
      destruct (pstep s pend e) as [[s1 pend1] a]. cbn [fst] in H1, H2.
      specialize (IH s1 pend1 i r evs2 H1 H2 Hrest Hkrest).
      destruct (par_run s1 pend1 (evs1 ++ PBegin i r :: evs2)) as [s2 ans]. cbn [snd] in *.
      destruct a; [right|]; exact IH.
  Qed.
End Chain.

(* --- a root that no micro-event of a group writes: what the group leaves of it is what its cleaning
   runs leave of it, whatever the order of the micro-events ---------------------------------- *)

Definition pev_touches (r : root) (e : pev) : Prop :=
  match e with
  | PEvent r' _ => r' = r
  | PEnd _ r' (Some _) => r' = r
  | _ => False
  end.

Definition removed_by (sl : slot) (e : pev) : bool :=
  match e with
  | PClean ce spe => negb (ce <=? retention) && (sl <? min_slot ce spe)
  | _ => false
  end.

Lemma par_run_untouched evs r : forall s pend, wf s -> Forall (fun e => ~ pev_touches r e) evs ->
  get (fst (par_run s pend evs)) r =
    match get s r with
    | Some sl => if existsb (removed_by sl) evs then None else Some sl
    | None => None
    end.
Proof.
  induction evs as [|e evs IH]; intros s pend Hwf Hn; cbn [par_run existsb].
  - cbn [fst]. destruct (get s r); reflexivity.
  - inversion Hn as [|? ? Hne Hrest]; subst.
    pose proof (pstep_wf s pend e Hwf) as H1.
    assert (Hg : get (fst (fst (pstep s pend e))) r =
                 match get s r with Some sl => if removed_by sl e then None else Some sl | None => None end).
    { destruct e as [i r' | i r' f | r' sl' | ce spe]; cbn [pstep removed_by pev_touches] in *.
      - destruct (get s r'); cbn [fst]; destruct (get s r); reflexivity.
      - destruct (memb N.eqb i pend); cbn [fst]; [|destruct (get s r); reflexivity].
        destruct f as [sl0|]; cbn [fst]; [|destruct (get s r); reflexivity].
        rewrite get_set. destruct (r' =? r) eqn:E; [apply N.eqb_eq in E; contradiction|].
        destruct (get s r); reflexivity.
      - cbn [fst]. rewrite get_set. destruct (r' =? r) eqn:E; [apply N.eqb_eq in E; contradiction|].
        destruct (get s r); reflexivity.
      - cbn [fst]. rewrite get_clean by exact Hwf.
        destruct (ce <=? retention); cbn [negb andb]; [destruct (get s r); reflexivity|].
        destruct (get s r) as [sl|]; [|reflexivity]. destruct (sl <? min_slot ce spe); reflexivity. }
    destruct (pstep s pend e) as [[s1 pend1] a]. cbn [fst] in H1, Hg.
    specialize (IH s1 pend1 H1 Hrest).
    destruct (par_run s1 pend1 evs) as [s2 ans]. cbn [fst] in *.
    rewrite IH, Hg. destruct (get s r) as [sl|]; [|reflexivity].
    destruct (removed_by sl e); reflexivity.
Qed.

Lemma existsb_perm {A} (f : A -> bool) l l' : Permutation l l' -> existsb f l = existsb f l'.
Proof.
  intro H. destruct (existsb f l) eqn:E1; destruct (existsb f l') eqn:E2; try reflexivity.
  - apply existsb_exists in E1. destruct E1 as [x [Hin Hf]].
    assert (E3 : existsb f l' = true) by (apply existsb_exists; exists x; split; [eapply Permutation_in; eassumption | exact Hf]).
    congruence.
  - apply existsb_exists in E2. destruct E2 as [x [Hin Hf]].
    assert (E3 : existsb f l = true) by (apply existsb_exists; exists x; split; [eapply Permutation_in; [apply Permutation_sym; eassumption | exact Hin] | exact Hf]).
    congruence.
Qed.

(* the writes and the cleaning runs of a group in two different orders: the same map at every root
   that a block event of the group writes and none of its cleaning runs may remove, and at every root
   that the group does not write *)
Lemma par_run_order_irrelevant (slot_of : root -> slot) s pend evs evs' r :
  Inv slot_of s -> Permutation evs evs' -> Forall (pev_consistent slot_of) evs ->
  (In (PEvent r (slot_of r)) evs /\ Forall (pev_keeps slot_of r) evs) \/ Forall (fun e => ~ pev_touches r e) evs ->
  get (fst (par_run s pend evs)) r = get (fst (par_run s pend evs')) r.
Proof.
  intros Hi Hp Hc [[Hin Hk] | Hn].
  - assert (Hc' : Forall (pev_consistent slot_of) evs') by (eapply Permutation_Forall; eassumption).
    assert (Hk' : Forall (pev_keeps slot_of r) evs') by (eapply Permutation_Forall; eassumption).
    assert (Hin' : In (PEvent r (slot_of r)) evs') by (eapply Permutation_in; eassumption).
    assert (Hone : forall l, In (PEvent r (slot_of r)) l -> Forall (pev_consistent slot_of) l ->
                     Forall (pev_keeps slot_of r) l -> get (fst (par_run s pend l)) r = Some (slot_of r)).
    { intros l Hl Hcl Hkl. apply in_split in Hl. destruct Hl as [l1 [l2 ->]].
      apply (par_run_set_kept slot_of l1 s pend l2 r Hi Hcl).
      apply Forall_app in Hkl. destruct Hkl as [_ Hkl]. inversion Hkl; assumption. }
    rewrite (Hone evs Hin Hc Hk), (Hone evs' Hin' Hc' Hk'). reflexivity.
  - assert (Hn' : Forall (fun e => ~ pev_touches r e) evs') by (eapply Permutation_Forall; eassumption).
    rewrite (par_run_untouched evs r s pend (proj1 Hi) Hn), (par_run_untouched evs' r s pend (proj1 Hi) Hn').
    destruct (get s r) as [sl|]; [|reflexivity].
    rewrite (existsb_perm (removed_by sl) evs evs' Hp). reflexivity.
Qed.

(* --- overlapping lookups: a failed fetch is an error for the goroutine that fetched, it stores
   nothing, and an error answer arises in no other way ------------------------------------- *)

Lemma pstep_failed_fetch s pend i r : memb N.eqb i pend = true ->
  pstep s pend (PEnd i r None) = (s, remove_id i pend, Some (i, r, None)).
Proof. intro H. cbn [pstep]. rewrite H. reflexivity. Qed.

Lemma pstep_err_iff s pend e i r :
  snd (pstep s pend e) = Some (i, r, None) <-> (e = PEnd i r None /\ memb N.eqb i pend = true).
Proof.
  destruct e as [j r' | j r' f | r' sl' | ce spe]; cbn [pstep].
  - destruct (get s r'); cbn [snd]; split; try discriminate; intros [H _]; discriminate.
  - destruct (memb N.eqb j pend) eqn:M; cbn [snd].
    + destruct f as [sl0|]; cbn [snd]; split.
      * discriminate.
      * intros [H _]; discriminate.
      * intro H; injection H as <- <-. split; [reflexivity | exact M].
      * intros [H _]; injection H as <- <-. reflexivity.
    + split; [discriminate|]. intros [H M']. injection H as <- <- _. congruence.
  - split; [discriminate | intros [H _]; discriminate].
  - split; [discriminate | intros [H _]; discriminate].
Qed.

(* a lone lookup is the group with its two micro-events *)
Lemma par_sequential s r f :
  par_run s [] [PBegin 0 r; PEnd 0 r f] =
    (fst (step s (Lookup r f)),
     match snd (step s (Lookup r f)) with
     | OSlot sl => [(0, r, Some sl)]
     | OErr => [(0, r, None)]
     | _ => []
     end).
Proof.
  cbn. destruct (get s r) as [sl0|] eqn:G; cbn.
  - rewrite ?G. reflexivity.
  - destruct f as [sl|]; cbn; reflexivity.
Qed.

(* two goroutines missing on the same root, the first one's fetch fails: the first is an error,
   the second returns what ITS OWN fetch gave (the slot, or an error), never a slot out of nothing *)
Lemma par_shared_failure s r f2 :
  get s r = None ->
  snd (par_run s [] [PBegin 1 r; PBegin 2 r; PEnd 1 r None; PEnd 2 r f2]) = [(1, r, None); (2, r, f2)].
Proof.
  intro G. cbn. rewrite !G. cbn. destruct f2; reflexivity.
Qed.

Lemma failed_fetch s r : get s r = None -> step s (Lookup r None) = (s, OErr).
Proof. intro G. cbn. rewrite G. reflexivity. Qed.

Lemma lookup_err_iff s r f : snd (step s (Lookup r f)) = OErr <-> (get s r = None /\ f = None).
Proof.
  cbn. destruct (get s r); cbn; [split; [discriminate | intros [? _]; discriminate]|].
  destruct f; cbn; split; try discriminate; try tauto. intros [_ H]; discriminate.
Qed.

Lemma miss_then_hit s r sl f' :
  get s r = None ->
  let s' := fst (step s (Lookup r (Some sl))) in
  snd (step s (Lookup r (Some sl))) = OSlot sl /\ step s' (Lookup r f') = (s', OSlot sl).
Proof.
  intro G. cbn. rewrite G. cbn. split; [reflexivity|].
  rewrite N.eqb_refl. reflexivity.
Qed.

Lemma hit_keeps_state s r f sl : get s r = Some sl -> step s (Lookup r f) = (s, OSlot sl).
Proof. intro G; cbn; rewrite G; reflexivity. Qed.

Lemma event_then_lookup s r sl f :
  step (fst (step s (Event r sl))) (Lookup r f) = (fst (step s (Event r sl)), OSlot sl).
Proof. cbn. rewrite N.eqb_refl. reflexivity. Qed.
