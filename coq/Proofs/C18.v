From Verif Require Import Lib.Base Model.C18_Cache.

(* --- the association list refines a functional map --------------------------------------- *)

Lemma get_del_same s r : get (del s r) r = None.
Proof.
  induction s as [|[r' sl] s IH]; cbn; [reflexivity|].
  destruct (r' =? r) eqn:E; [exact IH|]. cbn. rewrite E. exact IH.
Qed.

Lemma get_del_other s r r' : r <> r' -> get (del s r) r' = get s r'.
Proof.
  intro Hne. induction s as [|[k sl] s IH]; cbn; [reflexivity|].
  destruct (k =? r) eqn:E.
  - apply N.eqb_eq in E; subst k.
    destruct (r =? r') eqn:E2; [apply N.eqb_eq in E2; congruence|]. exact IH.
  - cbn. destruct (k =? r'); [reflexivity | exact IH].
Qed.

Lemma get_set s r sl r' : get (set s r sl) r' = if r =? r' then Some sl else get s r'.
Proof.
  unfold set; cbn. destruct (r =? r') eqn:E; [reflexivity|].
  apply get_del_other. intro H; subst; rewrite N.eqb_refl in E; discriminate.
Qed.

Lemma get_filter (f : root * slot -> bool) s r :
  (forall r1 r2 sl, f (r1, sl) = f (r2, sl)) ->
  NoDup (map fst s) ->
  get (filter f s) r = match get s r with Some sl => if f (r, sl) then Some sl else None | None => None end.
Proof.
  intros Hf. induction s as [|[k sl] s IH]; cbn; intro Hnd; [reflexivity|].
  inversion Hnd as [|? ? Hnotin Hnd']; subst.
  destruct (k =? r) eqn:E.
  - apply N.eqb_eq in E; subst k.
    destruct (f (r, sl)) eqn:Ef; cbn.
    + rewrite N.eqb_refl. reflexivity.
    + rewrite (IH Hnd').
      assert (Hg : get s r = None).
      { clear -Hnotin. induction s as [|[k2 s2] s IH]; cbn in *; [reflexivity|].
        destruct (k2 =? r) eqn:E; [apply N.eqb_eq in E; subst; exfalso; apply Hnotin; left; reflexivity|].
        apply IH. intro H; apply Hnotin; right; exact H. }
      rewrite Hg. reflexivity.
  - destruct (f (k, sl)); cbn; rewrite ?E; apply (IH Hnd').
Qed.

Lemma in_del_fst s r k : In k (map fst (del s r)) -> In k (map fst s) /\ k <> r.
Proof.
  induction s as [|[k' sl] s IH]; cbn; [tauto|].
  destruct (k' =? r) eqn:E.
  - intro H. destruct (IH H). split; [right; assumption | assumption].
  - cbn. intros [H|H].
    + subst. split; [left; reflexivity|]. intro; subst. rewrite N.eqb_refl in E; discriminate.
    + destruct (IH H). split; [right; assumption | assumption].
Qed.

Lemma nodup_del s r : NoDup (map fst s) -> NoDup (map fst (del s r)).
Proof.
  induction s as [|[k sl] s IH]; cbn; intro H; [constructor|].
  inversion H as [|? ? Hn Hd]; subst.
  destruct (k =? r); [apply IH; exact Hd|].
  cbn. constructor; [|apply IH; exact Hd].
  intro Hin. apply in_del_fst in Hin. tauto.
Qed.

Lemma nodup_set s r sl : NoDup (map fst s) -> NoDup (map fst (set s r sl)).
Proof.
  intro H. unfold set; cbn. constructor; [|apply nodup_del; exact H].
  intro Hin. apply in_del_fst in Hin. tauto.
Qed.

Lemma nodup_filter (f : root * slot -> bool) s : NoDup (map fst s) -> NoDup (map fst (filter f s)).
Proof.
  induction s as [|[k sl] s IH]; cbn; intro H; [constructor|].
  inversion H as [|? ? Hn Hd]; subst.
  destruct (f (k, sl)); cbn; [|apply IH; exact Hd].
  constructor; [|apply IH; exact Hd].
  intro Hin. apply Hn. clear -Hin. induction s as [|[k2 s2] s IH]; cbn in *; [tauto|].
  destruct (f (k2, s2)); cbn in *; tauto.
Qed.

Definition wf (s : state) : Prop := NoDup (map fst s).

Lemma step_wf s o : wf s -> wf (fst (step s o)).
Proof.
  unfold wf. intro H. destruct o as [r sl | r f | e spe]; cbn [step fst].
  - apply nodup_set; exact H.
  - destruct (get s r); cbn [fst]; [exact H|]. destruct f; cbn [fst]; [apply nodup_set; exact H | exact H].
  - unfold clean. destruct (e <=? retention); [exact H | apply nodup_filter; exact H].
Qed.

(* --- clean ----------------------------------------------------------------------------- *)

Lemma get_clean s e spe r : wf s ->
  get (clean s e spe) r =
    if e <=? retention then get s r
    else match get s r with
         | Some sl => if sl <? min_slot e spe then None else Some sl
         | None => None
         end.
Proof.
  intro H. unfold clean. destruct (e <=? retention); [reflexivity|].
  rewrite get_filter; [|intros; reflexivity | exact H].
  destruct (get s r) as [sl|]; [|reflexivity]. cbn. destruct (sl <? min_slot e spe); reflexivity.
Qed.

(* --- consistency with the chain -------------------------------------------------------- *)

Section Chain.
  Variable slot_of : root -> slot.

  Definition op_consistent (o : op) : Prop :=
    match o with
    | Event r sl => sl = slot_of r
    | Lookup r (Some sl) => sl = slot_of r
    | _ => True
    end.

  Definition Inv (s : state) : Prop := wf s /\ forall r sl, get s r = Some sl -> sl = slot_of r.

  Lemma inv_init : Inv init.
  Proof. split; [constructor | cbn; discriminate]. Qed.

  Lemma step_inv s o : Inv s -> op_consistent o -> Inv (fst (step s o)).
  Proof.
    intros [Hwf Hs] Hc. split; [apply step_wf; exact Hwf|].
    destruct o as [r sl | r f | e spe]; cbn [step fst op_consistent] in *.
    - intros r' sl'. rewrite get_set. destruct (r =? r') eqn:E; [|apply Hs].
      apply N.eqb_eq in E. intro H; injection H as <-. subst; reflexivity.
    - destruct (get s r) eqn:G; cbn [fst]; [exact Hs|].
      destruct f as [sl|]; cbn [fst]; [|exact Hs].
      intros r' sl'. rewrite get_set. destruct (r =? r') eqn:E; [|apply Hs].
      apply N.eqb_eq in E. intro H; injection H as <-. subst; reflexivity.
    - intros r sl. rewrite get_clean by exact Hwf.
      destruct (e <=? retention); [apply Hs|].
      destruct (get s r) as [sl0|] eqn:G; [|discriminate].
      destruct (sl0 <? min_slot e spe); [discriminate|]. intro H; injection H as <-. apply Hs; exact G.
  Qed.

  Lemma step_out_correct s r f sl : Inv s -> op_consistent (Lookup r f) ->
    snd (step s (Lookup r f)) = OSlot sl -> sl = slot_of r.
  Proof.
    intros [_ Hs] Hc. cbn. destruct (get s r) as [sl0|] eqn:G; cbn.
    - intro H; injection H as <-. apply Hs; exact G.
    - destruct f as [sl1|]; cbn; [|discriminate]. intro H; injection H as <-. exact Hc.
  Qed.

  (* every reachable state, and every answer given along any consistent history *)
  Lemma run_inv ops : forall s, Inv s -> Forall op_consistent ops -> Inv (fst (run s ops)).
  Proof.
    induction ops as [|o ops IH]; intros s Hi Hc; cbn; [exact Hi|].
    inversion Hc as [|? ? Ho Hrest]; subst.
    pose proof (step_inv s o Hi Ho) as Hi1.
    destruct (step s o) as [s1 x] eqn:Es. cbn in Hi1.
    specialize (IH s1 Hi1 Hrest). destruct (run s1 ops) as [s2 xs]. exact IH.
  Qed.

  Lemma run_lookup_correct ops : forall s, Inv s -> Forall op_consistent ops ->
    forall i r f sl,
      nth_error ops i = Some (Lookup r f) ->
      nth_error (snd (run s ops)) i = Some (OSlot sl) ->
      sl = slot_of r.
  Proof.
    induction ops as [|o ops IH]; intros s Hi Hc i r f sl Hop Hout; [destruct i; discriminate|].
    inversion Hc as [|? ? Ho Hrest]; subst.
    pose proof (step_inv s o Hi Ho) as Hi1.
    cbn in Hout. destruct (step s o) as [s1 x] eqn:Es. cbn in Hi1.
    destruct (run s1 ops) as [s2 xs] eqn:Er. cbn in Hout.
    destruct i as [|i]; cbn in *.
    - injection Hop as ->. injection Hout as ->.
      apply (step_out_correct s r f sl Hi Ho). rewrite Es. reflexivity.
    - apply (IH s1 Hi1 Hrest i r f sl Hop). rewrite Er. exact Hout.
  Qed.
End Chain.

Lemma failed_fetch s r : get s r = None -> step s (Lookup r None) = (s, OErr).
Proof. intro G. cbn. rewrite G. reflexivity. Qed.

Lemma lookup_err_iff s r f : snd (step s (Lookup r f)) = OErr <-> (get s r = None /\ f = None).
Proof.
  cbn. destruct (get s r); cbn; [split; [discriminate | intros [? _]; discriminate]|].
  destruct f; cbn; split; try discriminate; try tauto. intros [_ H]; discriminate.
Qed.

Lemma miss_then_hit s r sl f' :
  get s r = None ->
  let s' := fst (step s (Lookup r (Some sl))) in
  snd (step s (Lookup r (Some sl))) = OSlot sl /\ step s' (Lookup r f') = (s', OSlot sl).
Proof.
  intro G. cbn. rewrite G. cbn. split; [reflexivity|].
  rewrite N.eqb_refl. reflexivity.
Qed.

Lemma hit_keeps_state s r f sl : get s r = Some sl -> step s (Lookup r f) = (s, OSlot sl).
Proof. intro G; cbn; rewrite G; reflexivity. Qed.

Lemma event_then_lookup s r sl f :
  step (fst (step s (Event r sl))) (Lookup r f) = (fst (step s (Event r sl)), OSlot sl).
Proof. cbn. rewrite N.eqb_refl. reflexivity. Qed.
