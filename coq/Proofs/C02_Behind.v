(* C02, strengthening round 6 -- a periodic job whose instances are not in the future.

   (1) the goroutine passes its select between runtimeFunc and every call of jobFunc: structural facts
       about [step], for EVERY state (reachable or not) of every configuration -- the only way into the
       path "timer branch / run branch ... jobFunc" is a pick of the select, whatever time runtimeFunc
       returned; in the select a pending cancel signal / a cancelled context can be picked whether or not
       the timer is due, and picking it runs nothing;
   (2) [justified_l] (the evaluation-friendly form used by P_b) is [justified];
   (3) what the clauses [ignored] / [cancel_heeded] of P_b say. *)
From Coq Require Import List Bool NArith Lia ZifyBool ZifyN ZifyNat.
From Verif Require Import Lib.Base Model.C02_Scheduler Model.C02_Script Check.C02.
Import ListNotations.
Open Scope N_scope.

(* --- (1) ---------------------------------------------------------------------------------------- *)

(* the goroutine is between its select and the call of jobFunc *)
Definition to_job (g : gpc) : bool :=
  match g with
  | GRunCall | GTimChk | GTimRecv | GTimDel | GTimSet | GTimCall => true
  | _ => false
  end.

Lemma set_g_pc : forall s g, g_pc (set_g s g) = g.
Proof. reflexivity. Qed.

(* runtimeFunc handing out an instance leads into the select with a fresh timer and runs nothing *)
Lemma rt_next_enters_select : forall cf s s', step cf s (GRtOut RtNext) = Some s' ->
  g_pc s = GRt /\ g_pc s' = GSel /\ timer_due s' = false /\ runs s' = runs s /\ running s' = running s
  /\ cancelq s' = cancelq s /\ ctx_done s' = ctx_done s /\ runq s' = runq s.
Proof.
  intros cf s s' H. cbn [step] in H. unfold g_rt in H. destruct (g_pc s) eqn:Eg; try discriminate H.
  inversion H; subst s'. repeat split; reflexivity.
Qed.

(* jobFunc is called only from the two "call" positions *)
Lemma call_only_from_call_pc : forall cf s a s', step cf s a = Some s' -> runs s' <> runs s ->
  a = GStep /\ (g_pc s = GRunCall \/ g_pc s = GTimCall).
Proof.
  intros cf s a s' H Hr. destruct a; cbn [step] in H.
  - destruct (g_pc s); try discriminate H. destruct (timer_due s); inversion H; subst s'; exfalso; apply Hr; reflexivity.
  - destruct (ctx_done s); inversion H; subst s'; exfalso; apply Hr; reflexivity.
  - unfold g_return in H. destruct (g_pc s); try discriminate H; inversion H; subst s'; exfalso; apply Hr; reflexivity.
  - destruct (in_table s); inversion H; subst s'; exfalso; apply Hr; reflexivity.
  - unfold run_lookup in H. destruct (in_table s); [destruct (k_kind cf); [destruct (r_pc s); try discriminate H; destruct (c_pc s); try discriminate H|]|];
      inversion H; subst s'; exfalso; apply Hr; reflexivity.
  - unfold cancel_lookup in H. destruct (in_table s); [destruct (c_pc s); try discriminate H|];
      inversion H; subst s'; exfalso; apply Hr; reflexivity.
  - unfold r_enter in H. destruct (lock_free s); [|discriminate H].
    destruct (k_kind cf), (r_pc s); try discriminate H; inversion H; subst s'; exfalso; apply Hr; reflexivity.
  - unfold r_step in H. destruct (r_pc s); try discriminate H.
    + destruct (active s); [|destruct (finalised s)]; inversion H; subst s'; exfalso; apply Hr; reflexivity.
    + inversion H; subst s'; exfalso; apply Hr; reflexivity.
    + destruct (run_closed s); [|destruct (runq s); [discriminate H|]]; inversion H; subst s'; exfalso; apply Hr; reflexivity.
    + inversion H; subst s'; exfalso; apply Hr; reflexivity.
  - unfold r_reset in H. destruct (k_kind cf), (r_pc s); try discriminate H; inversion H; subst s'; exfalso; apply Hr; reflexivity.
  - unfold c_step in H. destruct (c_pc s); try discriminate H.
    + destruct (lock_free s); [|discriminate H]. inversion H; subst s'; exfalso; apply Hr; reflexivity.
    + destruct (finalised s); inversion H; subst s'; exfalso; apply Hr; reflexivity.
    + destruct (cancel_closed s); [|destruct (cancelq s); [discriminate H|]]; inversion H; subst s'; exfalso; apply Hr; reflexivity.
    + inversion H; subst s'; exfalso; apply Hr; reflexivity.
  - unfold g_pick in H. destruct (g_pc s); try discriminate H. destruct (ready s b); [|discriminate H].
    destruct b; inversion H; subst s'; exfalso; apply Hr; reflexivity.
  - unfold g_rt in H. destruct (g_pc s); try discriminate H. destruct o; inversion H; subst s'; exfalso; apply Hr; reflexivity.
  - split; [reflexivity|]. unfold g_step in H.
    destruct (g_pc s) eqn:Eg; try discriminate H; try (left; reflexivity); try (right; reflexivity); exfalso;
      try (inversion H; subst s'; apply Hr; reflexivity);
      try (destruct (lock_free s); [|discriminate H]; inversion H; subst s'; apply Hr; unfold finalise;
           destruct (cancel_closed s || run_closed s); reflexivity).
    + destruct (active s); inversion H; subst s'; apply Hr; reflexivity.
    + destruct (runq s || run_closed s); [|discriminate H]. inversion H; subst s'; apply Hr; reflexivity.
Qed.

(* the path to jobFunc is entered only by a pick of the select (the run branch or the timer branch) *)
Lemma to_job_only_from_select : forall cf s a s', step cf s a = Some s' ->
  to_job (g_pc s') = true -> to_job (g_pc s) = false ->
  g_pc s = GSel /\ ((a = GPick BRun /\ ready s BRun = true) \/ (a = GPick BTimer /\ ready s BTimer = true)).
Proof.
  intros cf s a s' H Ht Hf. destruct a; cbn [step] in H.
  - destruct (g_pc s) eqn:Eg; try discriminate H. destruct (timer_due s); inversion H; subst s'.
    cbn in Ht. rewrite Eg in Ht. discriminate Ht.
  - destruct (ctx_done s); inversion H; subst s'. cbn in Ht. rewrite Ht in Hf. discriminate Hf.
  - unfold g_return in H. destruct (g_pc s) eqn:Eg; try discriminate H; inversion H; subst s'; cbn in Ht;
      try discriminate Ht; destruct (k_kind cf); discriminate Ht.
  - destruct (in_table s); inversion H; subst s'. cbn in Ht. rewrite Ht in Hf. discriminate Hf.
  - unfold run_lookup in H. destruct (in_table s); [destruct (k_kind cf); [destruct (r_pc s); try discriminate H; destruct (c_pc s); try discriminate H|]|];
      inversion H; subst s'; cbn in Ht; rewrite Ht in Hf; discriminate Hf.
  - unfold cancel_lookup in H. destruct (in_table s); [destruct (c_pc s); try discriminate H|];
      inversion H; subst s'; cbn in Ht; rewrite Ht in Hf; discriminate Hf.
  - unfold r_enter in H. destruct (lock_free s); [|discriminate H].
    destruct (k_kind cf), (r_pc s); try discriminate H; inversion H; subst s'; cbn in Ht; rewrite Ht in Hf; discriminate Hf.
  - unfold r_step in H. destruct (r_pc s); try discriminate H.
    + destruct (active s); [|destruct (finalised s)]; inversion H; subst s'; cbn in Ht; rewrite Ht in Hf; discriminate Hf.
    + inversion H; subst s'; cbn in Ht; rewrite Ht in Hf; discriminate Hf.
    + destruct (run_closed s); [|destruct (runq s); [discriminate H|]]; inversion H; subst s'; cbn in Ht; rewrite Ht in Hf; discriminate Hf.
    + inversion H; subst s'; cbn in Ht; rewrite Ht in Hf; discriminate Hf.
  - unfold r_reset in H. destruct (k_kind cf), (r_pc s); try discriminate H; inversion H; subst s'; cbn in Ht; rewrite Ht in Hf; discriminate Hf.
  - unfold c_step in H. destruct (c_pc s); try discriminate H.
    + destruct (lock_free s); [|discriminate H]. inversion H; subst s'; cbn in Ht; rewrite Ht in Hf; discriminate Hf.
    + destruct (finalised s); inversion H; subst s'; cbn in Ht; rewrite Ht in Hf; discriminate Hf.
    + destruct (cancel_closed s); [|destruct (cancelq s); [discriminate H|]]; inversion H; subst s'; cbn in Ht; rewrite Ht in Hf; discriminate Hf.
    + inversion H; subst s'; cbn in Ht; rewrite Ht in Hf; discriminate Hf.
  - unfold g_pick in H. destruct (g_pc s) eqn:Eg; try discriminate H. split; [reflexivity|].
    destruct (ready s b) eqn:Er; [|discriminate H].
    destruct b; inversion H; subst s'; cbn in Ht; try discriminate Ht; [left | right]; split; auto.
  - unfold g_rt in H. destruct (g_pc s) eqn:Eg; try discriminate H. destruct o; inversion H; subst s'; cbn in Ht; discriminate Ht.
  - unfold g_step in H.
    destruct (g_pc s) eqn:Eg; try discriminate H; cbn in Hf; try discriminate Hf; exfalso;
      try (inversion H; subst s'; cbn in Ht; try discriminate Ht; destruct (k_kind cf); discriminate Ht);
      try (destruct (lock_free s); [|discriminate H]; inversion H; subst s'; cbn in Ht; discriminate Ht).
Qed.

(* in the select a pending cancel signal can be picked whether or not the timer is due, and so can a cancelled
   context; the pick leads to the goroutine's end and calls nothing *)
Lemma select_can_heed : forall cf s, g_pc s = GSel ->
  (cancelq s = true -> exists s', step cf s (GPick BCancel) = Some s' /\ g_pc s' = GCanFin /\ runs s' = runs s)
  /\ (ctx_done s = true -> exists s', step cf s (GPick BCtx) = Some s' /\ g_pc s' = GCtxDel /\ runs s' = runs s).
Proof.
  intros cf s Hg. split; intro Hc; cbn [step]; unfold g_pick; rewrite Hg; cbn [ready]; rewrite Hc; cbn [orb];
    eexists; (split; [reflexivity|]); split; reflexivity.
Qed.

(* from the cancel / context branches the goroutine only goes on to its end: never back into the path to jobFunc *)
Definition leaving (g : gpc) : bool :=
  match g with GCanFin | GCtxDel | GCtxFin | GDone => true | _ => false end.

Lemma leaving_stays : forall cf s a s', step cf s a = Some s' -> leaving (g_pc s) = true ->
  leaving (g_pc s') = true /\ runs s' = runs s.
Proof.
  intros cf s a s' H Hl.
  destruct (N.eq_dec (runs s') (runs s)) as [Hr | Hr].
  2:{ destruct (call_only_from_call_pc _ _ _ _ H Hr) as [_ [E | E]]; rewrite E in Hl; discriminate Hl. }
  split; [|exact Hr].
  destruct a; cbn [step] in H.
  - destruct (g_pc s) eqn:Eg; try discriminate H. discriminate Hl.
  - destruct (ctx_done s); inversion H; subst s'. exact Hl.
  - unfold g_return in H. destruct (g_pc s); try discriminate H; discriminate Hl.
  - destruct (in_table s); inversion H; subst s'. exact Hl.
  - unfold run_lookup in H. destruct (in_table s); [destruct (k_kind cf); [destruct (r_pc s); try discriminate H; destruct (c_pc s); try discriminate H|]|];
      inversion H; subst s'; exact Hl.
  - unfold cancel_lookup in H. destruct (in_table s); [destruct (c_pc s); try discriminate H|]; inversion H; subst s'; exact Hl.
  - unfold r_enter in H. destruct (lock_free s); [|discriminate H].
    destruct (k_kind cf), (r_pc s); try discriminate H; inversion H; subst s'; exact Hl.
  - unfold r_step in H. destruct (r_pc s); try discriminate H.
    + destruct (active s); [|destruct (finalised s)]; inversion H; subst s'; exact Hl.
    + inversion H; subst s'; exact Hl.
    + destruct (run_closed s); [|destruct (runq s); [discriminate H|]]; inversion H; subst s'; exact Hl.
    + inversion H; subst s'; exact Hl.
  - unfold r_reset in H. destruct (k_kind cf), (r_pc s); try discriminate H; inversion H; subst s'; exact Hl.
  - unfold c_step in H. destruct (c_pc s); try discriminate H.
    + destruct (lock_free s); [|discriminate H]. inversion H; subst s'; exact Hl.
    + destruct (finalised s); inversion H; subst s'; exact Hl.
    + destruct (cancel_closed s); [|destruct (cancelq s); [discriminate H|]]; inversion H; subst s'; exact Hl.
    + inversion H; subst s'; exact Hl.
  - unfold g_pick in H. destruct (g_pc s); try discriminate H. discriminate Hl.
  - unfold g_rt in H. destruct (g_pc s); try discriminate H. discriminate Hl.
  - unfold g_step in H. destruct (g_pc s) eqn:Eg; try discriminate H; try discriminate Hl.
    + inversion H; subst s'. reflexivity.
    + destruct (lock_free s); [|discriminate H]. inversion H; subst s'. reflexivity.
    + destruct (lock_free s); [|discriminate H]. inversion H; subst s'. reflexivity.
Qed.

(* --- (2) ---------------------------------------------------------------------------------------- *)

Lemma existsb_ext' : forall {X} (f g : X -> bool) l, (forall x, f x = g x) -> existsb f l = existsb g l.
Proof. intros X f g l H. induction l as [|x l IH]; cbn; [reflexivity|]. rewrite H, IH. reflexivity. Qed.

Lemma justified_l_eq : forall dur sts prev insts runs,
  justified_l dur prev sts insts runs = justified dur prev sts insts runs.
Proof.
  intros dur sts. induction sts as [|s sts IH]; intros prev insts runs; cbn [justified_l justified]; [reflexivity|].
  rewrite (existsb_ext' (fun p => if fst p =? s then justified_l dur (Some s) sts (snd p) runs else false)
                        (fun p => (fst p =? s) && justified dur (Some s) sts (snd p) runs)).
  2:{ intro p. rewrite IH. destruct (fst p =? s); reflexivity. }
  rewrite (existsb_ext'
             (fun p => if fst p <=? s
                       then if (fst p =? s) || match prev with Some q => q + dur =? s | None => false end
                            then justified_l dur (Some s) sts insts (snd p) else false
                       else false)
             (fun p => (fst p <=? s) && ((fst p =? s) || match prev with Some q => q + dur =? s | None => false end)
                       && justified dur (Some s) sts insts (snd p))).
  2:{ intro p. rewrite IH. destruct (fst p <=? s); [|reflexivity].
      destruct ((fst p =? s) || match prev with Some q => q + dur =? s | None => false end); reflexivity. }
  destruct (existsb _ (pick insts)); reflexivity.
Qed.

(* --- (3) ---------------------------------------------------------------------------------------- *)

(* an observation in which no cancellation was ignored: every cancellation that took effect (the parent
   context cancelled, a CancelJob that returned nil, a silent cancellation of a job certainly listed) at [tc]
   is followed by no start later than k executions of jobFunc after it *)
Lemma not_ignored : forall k sc ob, ignored k sc ob = false ->
  forall tc, In tc (stops sc ob) -> forall s, In s (o_starts (ob_out ob)) -> s <= tc + k * sc_dur sc.
Proof.
  intros k sc ob H tc Htc s Hs. unfold ignored in H.
  destruct (tc + k * sc_dur sc <? s) eqn:E; [|apply N.ltb_ge in E; exact E].
  exfalso. assert (Hx : existsb (fun tc => existsb (fun s => tc + k * sc_dur sc <? s) (o_starts (ob_out ob))) (stops sc ob) = true).
  { apply existsb_exists. exists tc. split; [exact Htc|]. apply existsb_exists. exists s. split; [exact Hs | exact E]. }
  rewrite Hx in H. discriminate H.
Qed.

(* what [cancel_heeded] demands of the repetitions of one script *)
Lemma cancel_heeded_says : forall sc os, cancel_heeded sc os = true -> 12 <= total_count os ->
  exists ob, In ob os /\
    forall tc, In tc (stops sc ob) -> forall s, In s (o_starts (ob_out ob)) -> s <= tc + 5 * sc_dur sc.
Proof.
  intros sc os H Hn. unfold cancel_heeded in H. apply orb_prop in H as [H | H].
  - apply N.ltb_lt in H. lia.
  - apply existsb_exists in H as [ob [Hin Hb]]. exists ob. split; [exact Hin|].
    apply not_ignored. destruct (ignored 5 sc ob); [discriminate Hb | reflexivity].
Qed.

(* the context cancellations and the successful CancelJob calls are among the [stops] *)
Lemma stops_has_ctx : forall sc ob tx, In tx (times_of sc (ob_out ob) KCtx (fun _ => true)) -> In tx (stops sc ob).
Proof. intros sc ob tx H. unfold stops. apply in_or_app. left. exact H. Qed.
