(* C15: lemmas about the call sites (Model/C15_Sites.v). *)
From Coq Require Import List NArith ZArith Bool Lia ZifyBool ZifyN ZifyNat.
From Verif Require Import Lib.Base Lib.JobTab Model.C15_Sync Model.C15_Hist Model.C15_Sites Proofs.C15 Proofs.C15_Hist.
Import ListNotations.
Local Open Scope N_scope.

(* the operation is a call in the surroundings of template [i], for [i]'s indices or for none *)
Definition call_of (i : sched_in) (o : hop) : Prop :=
  exists i', o = HSched i' /\ si_cur i' = si_cur i /\ si_duties i' = si_duties i /\ si_accts i' = si_accts i
             /\ (si_indices i' = si_indices i \/ si_indices i' = []).

Lemma call_call_of : forall i e n, call_of i (call i e n).
Proof. intros. eexists. split; [reflexivity|]. cbn. auto. Qed.

Lemma no_call_call_of : forall i, call_of i (no_call i).
Proof. intros. eexists. split; [reflexivity|]. cbn. auto 6. Qed.

Lemma sites_hand_over_eligible_indices :
  forall p s o, In o (site_hops p s) ->
    match s with
    | SOp o' => o = o'
    | STick i => call_of i o
    | SFork i1 i2 | SStart i1 i2 => call_of i1 o \/ call_of i2 o
    end.
Proof.
  intros p s o H. destruct s as [o'|i|i1 i2|i1 i2]; cbn [site_hops] in H.
  - destruct H as [H|[]]. auto.
  - unfold site_tick in H. destruct (_ =? _); destruct H as [H|[]]; subst o.
    + apply call_call_of.
    + apply no_call_call_of.
  - unfold site_fork in H. destruct H as [H|[H|[]]]; subst o.
    + left. apply call_call_of.
    + right. destruct (_ <=? _); [apply call_call_of|apply no_call_call_of].
  - unfold site_startup in H. destruct H as [H|[H|[]]]; subst o.
    + left. apply call_call_of.
    + right. destruct (_ <=? _); [apply call_call_of|apply no_call_call_of].
Qed.

Lemma sub64_le : forall a b, b <= a -> sub64 a b = a - b.
Proof. intros a b H. unfold sub64. destruct (N.leb_spec b a); lia. Qed.

Lemma add64_small : forall a b, a + b < two64 -> add64 a b = a + b.
Proof. intros a b H. unfold add64, wrap64. apply N.mod_small. exact H. Qed.

(* the ticker calls for the first epoch of the NEXT period, five epochs before it begins, and in no
   other epoch *)
Lemma tick_next_period :
  forall p i, 5 <= epp p -> si_cur i / spe p + 5 < two64 ->
    let ce := si_cur i / spe p in
    site_tick p i = if ce mod epp p =? epp p - 5
                    then [call i ((ce / epp p + 1) * epp p) false]
                    else [no_call i].
Proof.
  intros p i He Hr ce. unfold site_tick, epoch_of_slot, prep_epochs. fold ce.
  rewrite sub64_le by exact He.
  destruct (N.eqb_spec (ce mod epp p) (epp p - 5)) as [E|E]; [|reflexivity].
  rewrite add64_small by (subst ce; exact Hr).
  f_equal. f_equal.
  assert (D : ce = epp p * (ce / epp p) + ce mod epp p) by (apply N.div_mod; lia).
  nia.
Qed.

(* no_call does nothing to the table *)
Lemma no_call_nothing : forall p t i, fst (hstep p t (no_call i)) = t.
Proof.
  intros p t i. unfold no_call. cbn [hstep fst]. unfold sched_slots, schedule. cbn. unfold tab_add. cbn. apply app_nil_r.
Qed.
