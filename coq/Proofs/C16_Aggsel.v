(* C16 — path 9 (aggsel): lemmas about the aggregator selection of AggregatorsAndSignatures. *)
From Verif Require Import Lib.Base Model.C16_Paths Model.C16_Aggsel.
From Coq Require Import ZifyBool ZifyN ZifyNat.

Local Open Scope N_scope.

Lemma agg_modulo_guarded : forall target size, target <> 0 ->
  agg_modulo true target size = Ok (N.max 1 (size / target)).
Proof.
  intros target size Ht. unfold agg_modulo.
  destruct (target =? 0) eqn:E0; [apply N.eqb_eq in E0; contradiction|].
  destruct (size / target =? 0) eqn:Em.
  - apply N.eqb_eq in Em. rewrite Em. reflexivity.
  - apply N.eqb_neq in Em. f_equal. set (q := size / target) in *. clearbody q. lia.
Qed.

(* with the guard, over every list of committee lengths and hashes: the specification's verdicts *)
Lemma agg_select_spec : forall target rows, target <> 0 ->
  agg_select true target rows = Ok (map (spec_is_aggregator target) rows).
Proof.
  intros target rows Ht. induction rows as [|[size h] rows IH]; [reflexivity|].
  cbn [agg_select map]. rewrite agg_modulo_guarded by exact Ht. rewrite IH. reflexivity.
Qed.

Lemma aggsel_spec : forall target sign_ok rows, target <> 0 ->
  aggsel_now target sign_ok rows = if sign_ok then Ok (map (spec_is_aggregator target) rows) else Err tt.
Proof.
  intros target sign_ok rows Ht. unfold aggsel_now, aggsel. destruct sign_ok; [|reflexivity].
  apply agg_select_spec. exact Ht.
Qed.

Lemma aggsel_no_panic : forall target sign_ok rows, target <> 0 ->
  is_panic (aggsel_now target sign_ok rows) = false.
Proof. intros target sign_ok rows Ht. rewrite aggsel_spec by exact Ht. destruct sign_ok; reflexivity. Qed.

(* without the guard: a panic exactly when some committee is shorter than the target *)
Lemma agg_select_unguarded : forall target rows, target <> 0 ->
  (agg_select false target rows = Panic <-> exists row, In row rows /\ fst row < target).
Proof.
  intros target rows Ht. induction rows as [|[size h] rows IH].
  - cbn. split; [discriminate | intros [r [[] _]]].
  - cbn [agg_select]. unfold agg_modulo.
    destruct (target =? 0) eqn:E0; [apply N.eqb_eq in E0; contradiction|].
    destruct (size / target =? 0) eqn:Em.
    + split; [|reflexivity]. intros _. exists (size, h). split; [left; reflexivity|].
      apply N.eqb_eq in Em. cbn. apply N.div_small_iff in Em; [exact Em | exact Ht].
    + apply N.eqb_neq in Em.
      assert (Hge : ~ size < target) by (intro Hlt; apply Em; apply N.div_small; exact Hlt).
      destruct (agg_select false target rows) as [l|e|] eqn:Es.
      * split; [discriminate|]. intros [r [[<-|Hin] Hlt]]; [cbn in Hlt; contradiction|].
        exfalso. assert (Hp : @Ok (list bool) unit l = Panic) by (apply IH; exists r; split; assumption). discriminate.
      * split; [discriminate|]. intros [r [[<-|Hin] Hlt]]; [cbn in Hlt; contradiction|].
        exfalso. assert (Hp : @Err (list bool) unit e = Panic) by (apply IH; exists r; split; assumption). discriminate.
      * split; [|reflexivity]. intros _. destruct IH as [IH _]. destruct (IH eq_refl) as [r [Hin Hlt]].
        exists r. split; [right; exact Hin | exact Hlt].
Qed.

(* the misplaced guard "max(1, length) / target" is no guard: its quotient is 0 for the same lengths *)
Lemma misplaced_max_is_zero : forall target size, size < target -> 1 < target -> N.max 1 size / target = 0.
Proof. intros target size Hlt H1. apply N.div_small. lia. Qed.
