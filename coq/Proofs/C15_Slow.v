(* C15 lemmas: the chain of one slot cut at the scheduler (Model/C15_Slow.v). *)
From Verif Require Import Lib.Base Model.C15_Sync Model.C15_Slow.
Local Open Scope N_scope.

(* The code's order: whether the selection signer answers at once or only after the slot's message
   time, the slot's chain is [fire]: while Prepare waits no message job exists, so nothing runs at
   the message time, and the job scheduled afterwards runs with the aggregator data in place. *)
Lemma chain_prompt_is_fire : forall p mem acct f, chain_prompt PrepareFirst p mem acct f = fire p mem acct f.
Proof.
  intros p mem acct f.
  unfold chain_prompt, prepare_end, prepare_begin, message_time_comes, message_stage, sel_fault, with_msg_job, fire.
  destruct (sel_pairs p mem acct) as [|x xs]; [|destruct (f_sel_err f)]; cbn -[aggregators messages signers sort_by];
    try reflexivity;
    (destruct (f_root f); [|reflexivity]; destruct (signers mem acct); [reflexivity|];
     destruct (f_root_err f); [reflexivity|];
     destruct (negb _ && negb _); cbn [negb]; [|reflexivity];
     destruct (aggregators p mem acct f); reflexivity).
Qed.

Lemma chain_slow_is_prompt : forall p mem acct f, chain_slow PrepareFirst p mem acct f = chain_prompt PrepareFirst p mem acct f.
Proof. intros. reflexivity. Qed.

Lemma chain_is_fire : forall p mem acct f, chain PrepareFirst p mem acct f = fire p mem acct f.
Proof.
  intros p mem acct f. unfold chain. destruct (f_sel_slow f).
  - rewrite chain_slow_is_prompt. apply chain_prompt_is_fire.
  - apply chain_prompt_is_fire.
Qed.

(* The other order with a prompt signer that does not fail: the same chain (no test with a signer
   that answers at once tells the two orders apart). *)
Lemma schedule_first_prompt_is_fire : forall p mem acct f,
  sel_fault p mem acct f = false -> chain_prompt ScheduleFirst p mem acct f = fire p mem acct f.
Proof.
  intros p mem acct f H.
  unfold chain_prompt, prepare_end. rewrite H.
  unfold prepare_begin, message_time_comes, message_stage, with_msg_job, fire.
  unfold sel_fault in H.
  destruct (sel_pairs p mem acct) as [|x xs]; [|rewrite H]; cbn -[aggregators messages signers sort_by];
    (destruct (f_root f); [|reflexivity]; destruct (signers mem acct); [reflexivity|];
     destruct (f_root_err f); [reflexivity|];
     destruct (negb _ && negb _); cbn [negb]; [|reflexivity];
     destruct (aggregators p mem acct f); reflexivity).
Qed.

Lemma message_stage_nil : forall p mem acct f o,
  o_agg_job (message_stage p mem acct f [] o) = None /\ o_contribs (message_stage p mem acct f [] o) = None.
Proof.
  intros p mem acct f o. unfold message_stage.
  destruct (f_root f); [|split; reflexivity]. destruct (signers mem acct); [split; reflexivity|].
  destruct (f_root_err f); [split; reflexivity|].
  destruct (negb _); split; reflexivity.
Qed.

(* The other order with a slow signer: the message job runs while the duty holds no aggregator data;
   no aggregation job, no contribution, whoever is selected -- and the messages are those of [fire]. *)
Lemma schedule_first_slow_no_aggregation : forall p mem acct f,
  o_agg_job (chain_slow ScheduleFirst p mem acct f) = None /\ o_contribs (chain_slow ScheduleFirst p mem acct f) = None.
Proof.
  intros p mem acct f. unfold chain_slow, prepare_begin.
  cbn [message_time_comes cs_msg_job cs_aggs cs_out].
  unfold prepare_end. destruct (sel_fault p mem acct f); cbn [message_time_comes cs_msg_job cs_out];
    apply message_stage_nil.
Qed.

Lemma schedule_first_slow_messages : forall p mem acct f,
  sel_fault p mem acct f = false ->
  o_submitted (chain_slow ScheduleFirst p mem acct f) = o_submitted (fire p mem acct f).
Proof.
  intros p mem acct f H. unfold chain_slow, prepare_begin.
  cbn [message_time_comes cs_msg_job cs_aggs cs_out].
  unfold prepare_end. rewrite H. cbn [message_time_comes cs_msg_job cs_out].
  unfold message_stage, fire. unfold sel_fault in H.
  destruct (sel_pairs p mem acct) as [|x xs]; [|rewrite H]; cbn -[aggregators messages signers sort_by];
    (destruct (f_root f); [|reflexivity]; destruct (signers mem acct); [reflexivity|];
     destruct (f_root_err f); [reflexivity|];
     destruct (negb _ && negb _); cbn [negb]; [|reflexivity];
     destruct (aggregators p mem acct f); reflexivity).
Qed.
