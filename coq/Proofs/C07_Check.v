(* C07 lemmas, part 6: the boolean predicate [P_b] that the check evaluates on the implementation's
   observed output holds of every outcome of the model ("agree -> P_b"), for all inputs. *)
From Verif Require Import Lib.Base Model.C07_Strategies Model.C07_Spec
  Proofs.C07 Proofs.C07_Acc Proofs.C07_Timed Proofs.C07_Outcomes Proofs.C07_Majority Check.C07.
From Coq Require Import ZifyBool ZifyN ZifyNat Permutation QArith.
Open Scope N_scope.

Lemma accepts_spec_valid : forall st pr r, accepts st pr r = spec_valid st pr r.
Proof. intros st pr r. destruct st, r; reflexivity. Qed.

Lemma in_answers : forall pr ps t v,
  In (t, v) (answers pr ps) <-> exists p, In p ps /\ gives pr p v /\ t = pv_time p.
Proof.
  intros pr ps t v. unfold answers. rewrite in_flat_map. split.
  - intros [p [Hp H]]. exists p. split; [exact Hp|]. unfold gives.
    destruct (pv_beh p) as [w| |]; try destruct H.
    destruct ((pv_time p <=? p_timeout pr) || pv_deaf p) eqn:Eg; [|destruct H].
    destruct H as [H|[]]. injection H as <- <-. auto.
  - intros [p (Hp & [Hb Hg] & ->)]. exists p. split; [exact Hp|]. rewrite Hb, Hg. left. reflexivity.
Qed.

Lemma in_ok : forall st pr ps t v,
  In (t, v) (filter (fun tv => spec_valid st pr (v_raw (snd tv))) (answers pr ps))
  <-> exists p, In p ps /\ gives_ok st pr p v /\ t = pv_time p.
Proof.
  intros st pr ps t v. rewrite filter_In, in_answers. cbn [snd]. rewrite <- accepts_spec_valid. unfold gives_ok. split.
  - intros [[p (A & B & C)] D]. exists p. auto.
  - intros [p (A & [B D] & C)]. split; [exists p; auto | exact D].
Qed.

Lemma count_if_app : forall {A} (f : A -> bool) l l', count_if f (l ++ l') = count_if f l + count_if f l'.
Proof. intros. unfold count_if. rewrite filter_app, app_length. lia. Qed.

Lemma count_if_cnt : forall st pr ps inb id,
  Z.of_N (count_if (fun tv : N * value => (v_id (snd tv) =? id) && inb (fst tv))
                   (filter (fun tv => spec_valid st pr (v_raw (snd tv))) (answers pr ps)))
  = cnt st pr ps inb id.
Proof.
  intros st pr ps inb id. unfold cnt. induction ps as [|p ps IH]; [reflexivity|].
  unfold answers in *. cbn [flat_map]. rewrite filter_app, count_if_app, N2Z.inj_add, IH. clear IH.
  cbn [filter]. unfold okb. destruct (pv_beh p) as [v| |]; cbn [filter count_if length]; try (cbn; lia).
  destruct ((pv_time p <=? p_timeout pr) || pv_deaf p); cbn [andb filter].
  - cbn [snd]. rewrite <- accepts_spec_valid. destruct (accepts st pr (v_raw v)); cbn [filter fst snd].
    + unfold count_if. cbn [filter fst snd]. destruct ((v_id v =? id) && inb (pv_time p)); cbn [length]; lia.
    + unfold count_if. cbn. lia.
  - unfold count_if. cbn. lia.
Qed.

Lemma typed_not_nil : forall st pr r,
  template_of st <> TFirst -> raw_family st r = true -> accepts st pr r = true -> is_nil r = false.
Proof.
  intros st pr r Ht Hf Ha. destruct st; try (exfalso; apply Ht; reflexivity);
    destruct r; try discriminate Hf; cbn in *; try reflexivity;
    repeat (apply andb_true_iff in Ha as [Ha ?]); try (apply negb_true_iff in Ha; exact Ha).
Qed.

(* the head slot P_b attaches to an id is that of any acceptable answer with that id *)
Lemma slot_of_id_ok : forall st pr ps p v,
  ids_ok ps -> In p ps -> gives_ok st pr p v ->
  match find (fun tv : N * value => v_id (snd tv) =? v_id v)
             (filter (fun tv => spec_valid st pr (v_raw (snd tv))) (answers pr ps)) with
  | Some tv => vslot pr (snd tv)
  | None => 0
  end = vslot pr v.
Proof.
  intros st pr ps p v Hids Hp Hg.
  destruct (find _ _) as [[t' v']|] eqn:Ef.
  - apply find_some in Ef as [Hin Hk]. cbn [snd] in *. apply N.eqb_eq in Hk.
    apply in_ok in Hin as [p' (Hp' & [[Hb' _] _] & _)]. destruct Hg as [[Hb _] _].
    apply vslot_ids. apply (Hids p' p v' v Hp' Hp Hb' Hb Hk).
  - exfalso. assert (Hin : In (pv_time p, v) (filter (fun tv => spec_valid st pr (v_raw (snd tv))) (answers pr ps))).
    { apply in_ok. exists p. auto. }
    apply (find_none _ _ Ef) in Hin. cbn in Hin. rewrite N.eqb_refl in Hin. discriminate.
Qed.

Lemma result_eqb_spec : forall a b, result_eqb a b = true <-> a = b.
Proof.
  intros [x| | | |] [y| | | |]; cbn; split; intro H; try discriminate; try reflexivity.
  - apply N.eqb_eq in H. congruence.
  - injection H as ->. apply N.eqb_refl.
Qed.

Lemma agree_in_outcomes : forall c, agree c = true ->
  In (o_res (c_obs c), o_time (c_obs c)) (outcomes (c_strat c) (c_params c) (c_provs c))
  /\ list_eqb N.eqb (o_calls (c_obs c)) (map (fun _ => 1) (c_provs c)) = true.
Proof.
  intros c H. unfold agree in H. apply andb_true_iff in H as [_ H]. apply andb_true_iff in H as [H1 H2]. split; [|exact H2].
  apply (memb_spec outcome_eqb) in H1; [exact H1|].
  intros x y. unfold outcome_eqb. apply prod_eqb_spec; [exact result_eqb_spec | exact N.eqb_eq].
Qed.

Section Soundness.
  Variables (st : strategy) (pr : params) (ps : list prov).
  Hypothesis Hids : ids_ok ps.
  Hypothesis Htyped : typed st ps.

  Notation all := (answers pr ps).
  Notation ok := (filter (fun tv : N * value => spec_valid st pr (v_raw (snd tv))) (answers pr ps)).

  Lemma result_val : forall p0 v, template_of st <> TFirst -> In p0 ps -> gives_ok st pr p0 v ->
    result_of (Some v) = RVal (v_id v).
  Proof.
    intros p0 v Ht Hp [[Hb _] Ha]. unfold result_of.
    rewrite (typed_not_nil st pr (v_raw v) Ht (Htyped p0 v Hp Hb) Ha). reflexivity.
  Qed.

  Lemma soft_rule_ok : forall r t,
    (template_of st = TBest \/ template_of st = TMajRoot) -> In (r, t) (outcomes st pr ps) ->
    (if existsb (fun tv : N * value => fst tv <? p_timeout pr / 2) ok then t <=? p_timeout pr / 2 else true) = true.
  Proof.
    intros r t Et H. destruct (existsb _ ok) eqn:Ex; [|reflexivity].
    apply existsb_exists in Ex as [[t1 v1] [Hin Hlt]]. cbn in Hlt. apply in_ok in Hin as [p1 (Hp1 & Hg1 & ->)].
    apply N.leb_le. apply (outcomes_soft_rule st pr ps r t Et H p1 v1 Hp1 Hg1). lia.
  Qed.

  Lemma P_best_val : forall t p0 v,
    In p0 ps -> gives_ok st pr p0 v -> pv_time p0 <= t ->
    (forall p1 v1, In p1 ps -> gives_ok st pr p1 v1 -> pv_time p1 < t -> sgt (vscore st pr v1) (vscore st pr v) = false) ->
    existsb (fun tv : N * value => (v_id (snd tv) =? v_id v) && (fst tv <=? t)
               && forallb (fun tu : N * value => negb (fst tu <? t)
                                       || negb (sgt (score_of st pr (v_raw (snd tu))) (score_of st pr (v_raw (snd tv))))) ok) ok = true.
  Proof.
    intros t p0 v Hp0 Hg Ht Hun. apply existsb_exists. exists (pv_time p0, v). split.
    - apply in_ok. exists p0. auto.
    - cbn [fst snd]. rewrite N.eqb_refl. replace (pv_time p0 <=? t) with true by lia. cbn [andb].
      apply forallb_forall. intros [t1 v1] Hin. apply in_ok in Hin as [p1 (Hp1 & Hg1 & ->)]. cbn [fst snd].
      destruct (N.ltb_spec (pv_time p1) t) as [Q|Q]; [|reflexivity]. cbn [negb orb].
      specialize (Hun p1 v1 Hp1 Hg1 Q). unfold vscore in Hun. rewrite Hun. reflexivity.
  Qed.

  Lemma P_none_before : forall (T : N),
    (forall p1 v1, In p1 ps -> gives_ok st pr p1 v1 -> T <= pv_time p1) ->
    forallb (fun tv : N * value => negb (fst tv <? T)) ok = true.
  Proof.
    intros T H. apply forallb_forall. intros [t1 v1] Hin. apply in_ok in Hin as [p1 (Hp1 & Hg1 & ->)]. cbn [fst].
    specialize (H p1 v1 Hp1 Hg1). replace (pv_time p1 <? T) with false by lia. reflexivity.
  Qed.

  Lemma P_none_before_all : forall (T : N),
    (forall p1 v1, In p1 ps -> gives pr p1 v1 -> T <= pv_time p1) ->
    forallb (fun tv : N * value => negb (fst tv <? T)) all = true.
  Proof.
    intros T H. apply forallb_forall. intros [t1 v1] Hin. apply in_answers in Hin as [p1 (Hp1 & Hg1 & ->)]. cbn [fst].
    specialize (H p1 v1 Hp1 Hg1). replace (pv_time p1 <? T) with false by lia. reflexivity.
  Qed.
End Soundness.

Section SoundnessMaj.
  Variables (st : strategy) (pr : params) (ps : list prov).
  Hypothesis Hids : ids_ok ps.

  Notation ok := (filter (fun tv : N * value => spec_valid st pr (v_raw (snd tv))) (answers pr ps)).
  Notation cnt_le := (fun id t => count_if (fun tv : N * value => (v_id (snd tv) =? id) && (fst tv <=? t)) ok).
  Notation cnt_lt := (fun id t => count_if (fun tv : N * value => (v_id (snd tv) =? id) && (fst tv <? t)) ok).
  Notation slot_of_id := (fun id => match find (fun tv : N * value => v_id (snd tv) =? id) ok with
                                    | Some tv => vslot pr (snd tv) | None => 0 end).

  Lemma cnt_le_Z : forall id t, Z.of_N (cnt_le id t) = cnt st pr ps (fun x => (x <=? t)%N) id.
  Proof. intros id t. exact (count_if_cnt st pr ps (fun x => x <=? t) id). Qed.
  Lemma cnt_lt_Z : forall id t, Z.of_N (cnt_lt id t) = cnt st pr ps (fun x => (x <? t)%N) id.
  Proof. intros id t. exact (count_if_cnt st pr ps (fun x => x <? t) id). Qed.

  Lemma P_maj_val : forall (thr : N) t p0 v,
    In p0 ps -> gives_ok st pr p0 v ->
    (1 <= cnt st pr ps (fun x => (x <=? t)%N) (v_id v))%Z ->
    (Z.of_N thr <= cnt st pr ps (fun x => (x <=? t)%N) (v_id v))%Z ->
    (forall p1 v1, In p1 ps -> gives_ok st pr p1 v1 ->
       (cnt st pr ps (fun x => (x <? t)%N) (v_id v1) <= cnt st pr ps (fun x => (x <=? t)%N) (v_id v))%Z
       /\ (cnt st pr ps (fun x => (x <? t)%N) (v_id v1) = cnt st pr ps (fun x => (x <=? t)%N) (v_id v)
           -> vslot pr v1 <= vslot pr v)) ->
    (1 <=? cnt_le (v_id v) t) && (thr <=? cnt_le (v_id v) t)
    && forallb (fun tu : N * value =>
                  (cnt_lt (v_id (snd tu)) t <=? cnt_le (v_id v) t)
                  && (if cnt_lt (v_id (snd tu)) t =? cnt_le (v_id v) t
                      then slot_of_id (v_id (snd tu)) <=? slot_of_id (v_id v) else true)) ok = true.
  Proof.
    intros thr t p0 v Hp0 Hg H1 Hthr Hall.
    pose proof (cnt_le_Z (v_id v) t) as Cn. cbv beta in Cn.
    apply andb_true_iff. split; [apply andb_true_iff; split; lia|].
    apply forallb_forall. intros [t1 v1] Hin. apply in_ok in Hin as [p1 (Hp1 & Hg1 & ->)]. cbn [snd].
    destruct (Hall p1 v1 Hp1 Hg1) as [A1 A2].
    pose proof (cnt_lt_Z (v_id v1) t) as Cl. cbv beta in Cl.
    apply andb_true_iff. split; [lia|].
    destruct (N.eqb_spec (count_if (fun tv : N * value => (v_id (snd tv) =? v_id v1) && (fst tv <? t)) ok)
                         (count_if (fun tv : N * value => (v_id (snd tv) =? v_id v) && (fst tv <=? t)) ok)) as [Q|Q]; [|reflexivity].
    rewrite (slot_of_id_ok st pr ps p1 v1 Hids Hp1 Hg1), (slot_of_id_ok st pr ps p0 v Hids Hp0 Hg).
    apply N.leb_le. apply A2. lia.
  Qed.

  Lemma P_maj_final : forall t p0 v,
    In p0 ps -> gives_ok st pr p0 v ->
    (forall p1 v1, In p1 ps -> gives_ok st pr p1 v1 -> v_id v1 <> v_id v ->
       (cnt st pr ps (fun x => (x <? p_timeout pr)%N) (v_id v1) <= cnt st pr ps (fun x => (x <=? t)%N) (v_id v))%Z
       /\ (cnt st pr ps (fun x => (x <? p_timeout pr)%N) (v_id v1) = cnt st pr ps (fun x => (x <=? t)%N) (v_id v)
           -> vslot pr v1 <= vslot pr v)) ->
    forallb (fun tu : N * value =>
               (v_id (snd tu) =? v_id v)
               || ((cnt_lt (v_id (snd tu)) (p_timeout pr) <=? cnt_le (v_id v) t)
                   && (if cnt_lt (v_id (snd tu)) (p_timeout pr) =? cnt_le (v_id v) t
                       then slot_of_id (v_id (snd tu)) <=? slot_of_id (v_id v) else true))) ok = true.
  Proof.
    intros t p0 v Hp0 Hg Hall.
    pose proof (cnt_le_Z (v_id v) t) as Cn. cbv beta in Cn.
    apply forallb_forall. intros [t1 v1] Hin. apply in_ok in Hin as [p1 (Hp1 & Hg1 & ->)]. cbn [snd].
    destruct (N.eqb_spec (v_id v1) (v_id v)) as [Q0|Q0]; [reflexivity|]. cbn [orb].
    destruct (Hall p1 v1 Hp1 Hg1 Q0) as [A1 A2].
    pose proof (cnt_lt_Z (v_id v1) (p_timeout pr)) as Cl. cbv beta in Cl.
    apply andb_true_iff. split; [lia|].
    destruct (N.eqb_spec (count_if (fun tv : N * value => (v_id (snd tv) =? v_id v1) && (fst tv <? p_timeout pr)) ok)
                         (count_if (fun tv : N * value => (v_id (snd tv) =? v_id v) && (fst tv <=? t)) ok)) as [Q|Q]; [|reflexivity].
    rewrite (slot_of_id_ok st pr ps p1 v1 Hids Hp1 Hg1), (slot_of_id_ok st pr ps p0 v Hids Hp0 Hg).
    apply N.leb_le. apply A2. lia.
  Qed.

  Lemma P_maj_err : forall (thr : N),
    (forall p1 v1, In p1 ps -> gives_ok st pr p1 v1 ->
       (cnt st pr ps (fun x => (x <? p_timeout pr)%N) (v_id v1) < Z.max 1 (Z.of_N thr))%Z) ->
    forallb (fun tu : N * value => cnt_lt (v_id (snd tu)) (p_timeout pr) <? N.max 1 thr) ok = true.
  Proof.
    intros thr H. apply forallb_forall. intros [t1 v1] Hin. apply in_ok in Hin as [p1 (Hp1 & Hg1 & ->)]. cbn [snd].
    specialize (H p1 v1 Hp1 Hg1). pose proof (cnt_lt_Z (v_id v1) (p_timeout pr)) as Cl. cbv beta in Cl. lia.
  Qed.
End SoundnessMaj.

(* THE TIE BETWEEN MODEL AND PROPERTY PREDICATE: whatever case the harness prints, if the
   implementation's observed output is one of the model's outcomes then the property predicate
   holds of it.  So P_b can fail on the implementation only where the implementation leaves the
   model, and the model itself satisfies the property (as P_b encodes it) for ALL inputs. *)
Theorem agree_P_b : forall c,
  ids_ok (c_provs c) -> typed (c_strat c) (c_provs c) ->
  agree c = true -> P_b c = true.
Proof.
  intros [cid st pr ps [res ot calls]] Hids Htyped Hag. cbn [c_strat c_params c_provs c_obs] in *.
  apply agree_in_outcomes in Hag as [Hin Hcalls]. cbn [c_strat c_params c_provs c_obs o_res o_time o_calls] in *.
  destruct (outcomes_within st pr ps _ Hin) as [HT Hnh]. cbn [fst snd] in *.
  unfold P_b. cbn [c_strat c_params c_provs c_obs o_res o_time o_calls]. cbv zeta.
  rewrite Hcalls. replace (ot <=? p_timeout pr) with true by lia. cbn [andb].
  destruct (template_of st) eqn:Et.
  - (* best *)
    assert (Hnf : template_of st <> TFirst) by (rewrite Et; discriminate).
    destruct (best_outcome_spec st pr ps res ot Et Hin) as [_ [[p0 [v (Hr & Hp0 & Hg & Ht & Hun)]] | [Hr Hnone]]].
    + rewrite (result_val st pr ps Htyped p0 v Hnf Hp0 Hg) in Hr. subst res.
      rewrite (P_best_val st pr ps ot p0 v Hp0 Hg Ht Hun). cbn [andb].
      apply (soft_rule_ok st pr ps _ ot (or_introl Et) Hin).
    + subst res. apply P_none_before. exact Hnone.
  - (* attestation data majority *)
    assert (Hnf : template_of st <> TFirst) by (rewrite Et; discriminate).
    destruct (maj_outcome_spec st pr ps res ot (or_introl Et) Hids Hin)
      as [_ [[p0 [v (Hr & Hp0 & Hg & Ht & H1 & Hthr & Hall & Hfin)]] | [Hr Hnone]]]; unfold maj_thr in *; try rewrite Et in Hthr; try rewrite Et in Hnone.
    + rewrite (result_val st pr ps Htyped p0 v Hnf Hp0 Hg) in Hr. subst res.
      rewrite (P_maj_val st pr ps Hids (p_threshold pr) ot p0 v Hp0 Hg H1 Hthr Hall). rewrite Et in Hfin.
      cbn [maj_final andb]. rewrite (P_maj_final st pr ps Hids ot p0 v Hp0 Hg (Hfin eq_refl)). reflexivity.
    + subst res. apply (P_maj_err st pr ps). exact Hnone.
  - (* block root majority *)
    assert (Hnf : template_of st <> TFirst) by (rewrite Et; discriminate).
    destruct (maj_outcome_spec st pr ps res ot (or_intror Et) Hids Hin)
      as [_ [[p0 [v (Hr & Hp0 & Hg & Ht & H1 & Hthr & Hall & Hfin)]] | [Hr Hnone]]]; unfold maj_thr in *; try rewrite Et in Hthr; try rewrite Et in Hnone.
    + rewrite (result_val st pr ps Htyped p0 v Hnf Hp0 Hg) in Hr. subst res.
      rewrite (P_maj_val st pr ps Hids 0 ot p0 v Hp0 Hg H1 Hthr Hall). cbn [andb]. rewrite Et in Hfin.
      destruct (maj_final TMajRoot (p_timeout pr) ot) eqn:Ef.
      * rewrite (P_maj_final st pr ps Hids ot p0 v Hp0 Hg (Hfin eq_refl)). cbn [andb].
        apply (soft_rule_ok st pr ps _ ot (or_intror Et) Hin).
      * cbn [andb]. apply (soft_rule_ok st pr ps _ ot (or_intror Et) Hin).
    + subst res. apply (P_maj_err st pr ps 0). exact Hnone.
  - (* first *)
    destruct (first_outcome_spec st pr ps res ot Et Hin) as [_ [[p0 [v (Hr & Hp0 & Hg & Ht & Hmin)]] | [Hr [Ht Hnone]]]].
    + assert (Hin0 : In (ot, v) (answers pr ps)) by (apply in_answers; exists p0; auto).
      unfold result_of in Hr. destruct (is_nil (v_raw v)) eqn:En; subst res.
      * apply andb_true_iff. split; [|apply P_none_before_all; exact Hmin].
        apply existsb_exists. exists (ot, v). split; [exact Hin0|]. cbn [fst snd]. rewrite En, N.eqb_refl. reflexivity.
      * apply andb_true_iff. split; [|apply P_none_before_all; exact Hmin].
        apply existsb_exists. exists (ot, v). split; [exact Hin0|]. cbn [fst snd]. rewrite En, !N.eqb_refl. reflexivity.
    + subst res. apply P_none_before_all. exact Hnone.
Qed.

(* the well-formedness test of a printed case means what it should *)
Lemma raw_eqb_eq : forall a b, raw_eqb a b = true -> a = b.
Proof.
  intros a b H. destruct a, b; cbn in H; try discriminate;
    repeat (apply andb_true_iff in H as [H ?]);
    repeat match goal with
           | Q : Bool.eqb _ _ = true |- _ => apply Bool.eqb_prop in Q
           | Q : (_ =? _) = true |- _ => apply N.eqb_eq in Q
           end; subst; reflexivity.
Qed.

Lemma wf_case_spec : forall c, wf_case c = true -> ids_ok (c_provs c) /\ typed (c_strat c) (c_provs c).
Proof.
  intros c H. unfold wf_case in H. apply andb_true_iff in H as [H1 H2]. split.
  - intros p1 p2 v1 v2 Hp1 Hp2 Hb1 Hb2 Hid. unfold ids_okb in H1. rewrite forallb_forall in H1.
    specialize (H1 p1 Hp1). rewrite forallb_forall in H1. specialize (H1 p2 Hp2).
    unfold resp_of in H1. rewrite Hb1, Hb2 in H1. apply N.eqb_eq in Hid. rewrite Hid in H1. cbn in H1.
    apply raw_eqb_eq. exact H1.
  - intros p v Hp Hb. unfold typedb in H2. rewrite forallb_forall in H2. specialize (H2 p Hp).
    unfold resp_of in H2. rewrite Hb in H2. exact H2.
Qed.

Theorem agree_implies_P_b : forall c, agree c = true -> P_b c = true.
Proof.
  intros c H. assert (Hw : wf_case c = true) by (unfold agree in H; apply andb_true_iff in H; tauto).
  destruct (wf_case_spec c Hw) as [H1 H2]. apply agree_P_b; assumption.
Qed.

(* ------------------------------------------------------------------------------------------- *)
(* P_b means the property: from the boolean to the proposition over the nodes *)

Section PbSound.
  Variables (st : strategy) (pr : params) (ps : list prov).
  Notation ok := (filter (fun tv : N * value => spec_valid st pr (v_raw (snd tv))) (answers pr ps)).

  Lemma soft_rule_sound : forall ot,
    (if existsb (fun tv : N * value => fst tv <? p_timeout pr / 2) ok then ot <=? p_timeout pr / 2 else true) = true ->
    forall p1 v1, In p1 ps -> gives_ok st pr p1 v1 -> pv_time p1 < p_timeout pr / 2 -> ot <= p_timeout pr / 2.
  Proof.
    intros ot H p1 v1 Hp1 Hg1 Hlt.
    assert (E : existsb (fun tv : N * value => fst tv <? p_timeout pr / 2) ok = true).
    { apply existsb_exists. exists (pv_time p1, v1). split; [apply in_ok; exists p1; auto | cbn; lia]. }
    rewrite E in H. lia.
  Qed.

  Lemma none_before_sound : forall T,
    forallb (fun tv : N * value => negb (fst tv <? T)) ok = true ->
    forall p1 v1, In p1 ps -> gives_ok st pr p1 v1 -> T <= pv_time p1.
  Proof.
    intros T H p1 v1 Hp1 Hg1. rewrite forallb_forall in H.
    assert (Hin : In (pv_time p1, v1) ok) by (apply in_ok; exists p1; auto).
    apply H in Hin. cbn in Hin. lia.
  Qed.

  Lemma none_before_all_sound : forall T,
    forallb (fun tv : N * value => negb (fst tv <? T)) (answers pr ps) = true ->
    forall p1 v1, In p1 ps -> gives pr p1 v1 -> T <= pv_time p1.
  Proof.
    intros T H p1 v1 Hp1 Hg1. rewrite forallb_forall in H.
    assert (Hin : In (pv_time p1, v1) (answers pr ps)) by (apply in_answers; exists p1; auto).
    apply H in Hin. cbn in Hin. lia.
  Qed.
End PbSound.

Theorem P_b_sound : forall c, ids_ok (c_provs c) -> P_b c = true -> P c.
Proof.
  intros [cid st pr ps [res ot calls]] Hids H. cbn [c_provs] in Hids.
  unfold P_b in H. cbn [c_strat c_params c_provs c_obs o_res o_time o_calls] in H. cbv zeta in H.
  apply andb_true_iff in H as [H Hm]. apply andb_true_iff in H as [HT Hc].
  unfold P. cbn [c_strat c_params c_provs c_obs o_res o_time o_calls]. cbv zeta.
  split; [lia|]. split; [apply (list_eqb_spec N.eqb N.eqb_eq); exact Hc|]. clear HT Hc.
  destruct (template_of st) eqn:Et.
  - (* best *)
    destruct res as [id| | | |]; try discriminate Hm.
    + apply andb_true_iff in Hm as [Hm Hsoft]. split; [|apply soft_rule_sound; exact Hsoft].
      apply existsb_exists in Hm as [[t0 v] [Hin Hm]]. cbn [fst snd] in Hm.
      apply andb_true_iff in Hm as [Hm Hall]. apply andb_true_iff in Hm as [Hid Ht].
      apply in_ok in Hin as [p0 (Hp0 & Hg & ->)]. apply N.eqb_eq in Hid.
      exists p0, v. split; [exact Hp0|]. split; [exact Hg|]. split; [exact Hid|]. split; [lia|].
      intros p1 v1 Hp1 Hg1 Hlt. rewrite forallb_forall in Hall.
      assert (Hin1 : In (pv_time p1, v1) (filter (fun tv : N * value => spec_valid st pr (v_raw (snd tv))) (answers pr ps)))
        by (apply in_ok; exists p1; auto).
      apply Hall in Hin1. cbn [fst snd] in Hin1. replace (pv_time p1 <? ot) with true in Hin1 by lia.
      cbn [negb orb] in Hin1. apply negb_true_iff in Hin1. exact Hin1.
    + apply none_before_sound. exact Hm.
  - (* attestation data majority *)
    destruct res as [id| | | |]; try discriminate Hm.
    + apply andb_true_iff in Hm as [Hm _]. apply andb_true_iff in Hm as [Hm Hfin].
      apply andb_true_iff in Hm as [Hm Hall]. apply andb_true_iff in Hm as [H1 Hthr].
      split; [|discriminate].
      pose proof (cnt_le_Z st pr ps id ot) as Cn. cbv beta in Cn.
      assert (Hpos : (0 < cnt st pr ps (fun x => (x <=? ot)%N) id)%Z) by lia.
      destruct (cnt_pos_witness st pr ps _ _ Hpos) as [p0 [v (Hp0 & Hg & Hid & Ht)]].
      exists p0, v. split; [exact Hp0|]. split; [exact Hg|]. split; [exact Hid|]. split; [lia|].
      split; [lia|]. split; [unfold maj_thr; rewrite Et; lia|]. split.
      * intros p1 v1 Hp1 Hg1. rewrite forallb_forall in Hall.
        assert (Hin1 : In (pv_time p1, v1) (filter (fun tv : N * value => spec_valid st pr (v_raw (snd tv))) (answers pr ps)))
          by (apply in_ok; exists p1; auto).
        apply Hall in Hin1. cbn [snd] in Hin1. apply andb_true_iff in Hin1 as [A1 A2].
        pose proof (cnt_lt_Z st pr ps (v_id v1) ot) as Cl. cbv beta in Cl.
        split; [lia|]. intro Eq.
        match type of A2 with (if ?b then _ else _) = true => replace b with true in A2 by lia end.
        rewrite (slot_of_id_ok st pr ps p1 v1 Hids Hp1 Hg1) in A2. subst id.
        rewrite (slot_of_id_ok st pr ps p0 v Hids Hp0 Hg) in A2. lia.
      * intros Hf p1 v1 Hp1 Hg1 Hne. rewrite Hf in Hfin. rewrite forallb_forall in Hfin.
        assert (Hin1 : In (pv_time p1, v1) (filter (fun tv : N * value => spec_valid st pr (v_raw (snd tv))) (answers pr ps)))
          by (apply in_ok; exists p1; auto).
        apply Hfin in Hin1. cbn [snd] in Hin1.
        replace (v_id v1 =? id) with false in Hin1 by (symmetry; apply N.eqb_neq; exact Hne).
        cbn [orb] in Hin1. apply andb_true_iff in Hin1 as [A1 A2].
        pose proof (cnt_lt_Z st pr ps (v_id v1) (p_timeout pr)) as Cl. cbv beta in Cl.
        split; [lia|]. intro Eq.
        match type of A2 with (if ?b then _ else _) = true => replace b with true in A2 by lia end.
        rewrite (slot_of_id_ok st pr ps p1 v1 Hids Hp1 Hg1) in A2. subst id.
        rewrite (slot_of_id_ok st pr ps p0 v Hids Hp0 Hg) in A2. lia.
    + intros p1 v1 Hp1 Hg1. rewrite forallb_forall in Hm.
      assert (Hin1 : In (pv_time p1, v1) (filter (fun tv : N * value => spec_valid st pr (v_raw (snd tv))) (answers pr ps)))
        by (apply in_ok; exists p1; auto).
      apply Hm in Hin1. cbn [snd] in Hin1.
      pose proof (cnt_lt_Z st pr ps (v_id v1) (p_timeout pr)) as Cl. cbv beta in Cl.
      unfold maj_thr. rewrite Et. lia.
  - (* block root majority *)
    destruct res as [id| | | |]; try discriminate Hm.
    + apply andb_true_iff in Hm as [Hm Hsoft]. apply andb_true_iff in Hm as [Hm Hfin].
      apply andb_true_iff in Hm as [Hm Hall]. apply andb_true_iff in Hm as [H1 Hthr].
      split; [|intros _; apply soft_rule_sound; exact Hsoft].
      pose proof (cnt_le_Z st pr ps id ot) as Cn. cbv beta in Cn.
      assert (Hpos : (0 < cnt st pr ps (fun x => (x <=? ot)%N) id)%Z) by lia.
      destruct (cnt_pos_witness st pr ps _ _ Hpos) as [p0 [v (Hp0 & Hg & Hid & Ht)]].
      exists p0, v. split; [exact Hp0|]. split; [exact Hg|]. split; [exact Hid|]. split; [lia|].
      split; [lia|]. split; [unfold maj_thr; rewrite Et; lia|]. split.
      * intros p1 v1 Hp1 Hg1. rewrite forallb_forall in Hall.
        assert (Hin1 : In (pv_time p1, v1) (filter (fun tv : N * value => spec_valid st pr (v_raw (snd tv))) (answers pr ps)))
          by (apply in_ok; exists p1; auto).
        apply Hall in Hin1. cbn [snd] in Hin1. apply andb_true_iff in Hin1 as [A1 A2].
        pose proof (cnt_lt_Z st pr ps (v_id v1) ot) as Cl. cbv beta in Cl.
        split; [lia|]. intro Eq.
        match type of A2 with (if ?b then _ else _) = true => replace b with true in A2 by lia end.
        rewrite (slot_of_id_ok st pr ps p1 v1 Hids Hp1 Hg1) in A2. subst id.
        rewrite (slot_of_id_ok st pr ps p0 v Hids Hp0 Hg) in A2. lia.
      * intros Hf p1 v1 Hp1 Hg1 Hne. rewrite Hf in Hfin. rewrite forallb_forall in Hfin.
        assert (Hin1 : In (pv_time p1, v1) (filter (fun tv : N * value => spec_valid st pr (v_raw (snd tv))) (answers pr ps)))
          by (apply in_ok; exists p1; auto).
        apply Hfin in Hin1. cbn [snd] in Hin1.
        replace (v_id v1 =? id) with false in Hin1 by (symmetry; apply N.eqb_neq; exact Hne).
        cbn [orb] in Hin1. apply andb_true_iff in Hin1 as [A1 A2].
        pose proof (cnt_lt_Z st pr ps (v_id v1) (p_timeout pr)) as Cl. cbv beta in Cl.
        split; [lia|]. intro Eq.
        match type of A2 with (if ?b then _ else _) = true => replace b with true in A2 by lia end.
        rewrite (slot_of_id_ok st pr ps p1 v1 Hids Hp1 Hg1) in A2. subst id.
        rewrite (slot_of_id_ok st pr ps p0 v Hids Hp0 Hg) in A2. lia.
    + intros p1 v1 Hp1 Hg1. rewrite forallb_forall in Hm.
      assert (Hin1 : In (pv_time p1, v1) (filter (fun tv : N * value => spec_valid st pr (v_raw (snd tv))) (answers pr ps)))
        by (apply in_ok; exists p1; auto).
      apply Hm in Hin1. cbn [snd] in Hin1.
      pose proof (cnt_lt_Z st pr ps (v_id v1) (p_timeout pr)) as Cl. cbv beta in Cl.
      unfold maj_thr. rewrite Et. lia.
  - (* first *)
    destruct res as [id| | | |]; try discriminate Hm.
    + apply andb_true_iff in Hm as [Hm Hall]. split; [|apply none_before_all_sound; exact Hall].
      apply existsb_exists in Hm as [[t0 v] [Hin Hm]]. cbn [fst snd] in Hm.
      apply andb_true_iff in Hm as [Hm Ht]. apply andb_true_iff in Hm as [Hid Hn].
      apply in_answers in Hin as [p0 (Hp0 & Hg & ->)]. apply N.eqb_eq in Hid, Ht. apply negb_true_iff in Hn.
      exists p0, v. auto.
    + apply andb_true_iff in Hm as [Hm Hall]. split; [|apply none_before_all_sound; exact Hall].
      apply existsb_exists in Hm as [[t0 v] [Hin Hm]]. cbn [fst snd] in Hm.
      apply andb_true_iff in Hm as [Hn Ht].
      apply in_answers in Hin as [p0 (Hp0 & Hg & ->)]. apply N.eqb_eq in Ht.
      exists p0, v. auto.
    + apply none_before_all_sound. exact Hm.
Qed.

(* hence: whatever the model can do satisfies the property, stated over the nodes *)
Theorem agree_implies_P : forall c, agree c = true -> P c.
Proof.
  intros c H. apply P_b_sound; [|apply agree_implies_P_b; exact H].
  unfold agree in H. apply andb_true_iff in H as [Hw _]. apply (wf_case_spec c Hw).
Qed.
