(* C08 lemmas. *)
From Coq Require Import ZifyBool ZifyN ZifyNat Permutation.
From Verif Require Import Lib.Base Model.C08_Submitter Model.C08_Spec.

(* ------------------------------------------------------------------------------------------- *)
(* Scatter: the extents partition [0, items)                                                    *)

(* contiguous, non-empty extents from a up to b *)
Inductive chain : Z -> Z -> list (Z * Z) -> Prop :=
| chain_nil : forall a, chain a a []
| chain_cons : forall a b cnt l, (0 < cnt)%Z -> chain (a + cnt) b l -> chain a b ((a, cnt) :: l).

Lemma worker_count_bounds (items e : Z) :
  (0 < items)%Z -> (0 < e)%Z ->
  let W := worker_count items e in
  ((W - 1) * e < items /\ items <= W * e /\ 0 < W)%Z.
Proof.
  intros Hi He. unfold worker_count.
  rewrite Z.rem_mod_nonneg, Z.quot_div_nonneg by lia.
  pose proof (Z.div_mod items e ltac:(lia)) as Hdm.
  pose proof (Z.mod_pos_bound items e He) as Hb.
  destruct (items mod e =? 0)%Z eqn:E; cbn zeta.
  - apply Z.eqb_eq in E. nia.
  - apply Z.eqb_neq in E. nia.
Qed.

Lemma chain_extents (items e : Z) :
  (0 < items)%Z -> (0 < e)%Z ->
  forall m j, (Z.of_nat j + Z.of_nat m = worker_count items e)%Z ->
    chain (Z.min (Z.of_nat j * e) items) items
          (map (fun w => extent_of items e (Z.of_nat w)) (seq j m)).
Proof.
  intros Hi He.
  pose proof (worker_count_bounds items e Hi He) as HW. cbn zeta in HW.
  induction m as [|m IH]; intros j Hj; cbn [seq map].
  - replace (Z.min (Z.of_nat j * e) items) with items by nia. constructor.
  - unfold extent_of at 1.
    assert (Hlt : (Z.of_nat j * e < items)%Z) by nia.
    replace (Z.min (Z.of_nat j * e) items) with (Z.of_nat j * e)%Z by lia.
    specialize (IH (S j) ltac:(lia)).
    destruct (Z.of_nat j * e + e >? items)%Z eqn:E.
    + apply chain_cons; [lia|].
      replace (Z.of_nat j * e + (items - Z.of_nat j * e))%Z with (Z.min (Z.of_nat (S j) * e) items) by lia.
      exact IH.
    + apply chain_cons; [lia|].
      replace (Z.of_nat j * e + e)%Z with (Z.min (Z.of_nat (S j) * e) items) by lia.
      exact IH.
Qed.

Lemma extent_size_pos (items conc gomax : Z) :
  (0 < items)%Z -> (0 < conc \/ 0 < gomax)%Z -> (0 < extent_size items conc gomax)%Z.
Proof.
  intros Hi Hc. unfold extent_size.
  set (dc := if (conc <=? 0)%Z then gomax else conc).
  assert (Hdc : (0 < dc)%Z) by (subst dc; destruct (conc <=? 0)%Z eqn:E; lia).
  rewrite Z.quot_div_nonneg by lia.
  pose proof (Z.div_pos items dc ltac:(lia) Hdc) as Hq.
  destruct (items / dc =? 0)%Z eqn:E0; [lia|].
  apply Z.eqb_neq in E0.
  destruct (Z.rem items (items / dc) >? 0)%Z; lia.
Qed.

Lemma scatter_partition (items conc gomax : Z) :
  (0 < items)%Z -> (0 < conc \/ 0 < gomax)%Z ->
  exists l, scatter_extents items conc gomax = Some l /\ chain 0 items l.
Proof.
  intros Hi Hc. unfold scatter_extents.
  destruct (items <=? 0)%Z eqn:E; [lia|].
  eexists; split; [reflexivity|].
  pose proof (extent_size_pos items conc gomax Hi Hc) as He.
  pose proof (worker_count_bounds items _ Hi He) as HW. cbn zeta in HW.
  pose proof (chain_extents items _ Hi He (Z.to_nat (worker_count items (extent_size items conc gomax))) 0%nat) as H.
  cbn [Z.of_nat] in H. rewrite Z.mul_0_l in H.
  replace (Z.min 0 items) with 0%Z in H by lia.
  apply H. lia.
Qed.

Lemma scatter_none_iff (items conc gomax : Z) :
  scatter_extents items conc gomax = None <-> (items <= 0)%Z.
Proof.
  unfold scatter_extents. destruct (items <=? 0)%Z eqn:E; split; intro H; try lia; try reflexivity; discriminate.
Qed.

Lemma skipn_add {A} (xs : list A) : forall n m, skipn (n + m) xs = skipn m (skipn n xs).
Proof.
  intros n; revert xs; induction n as [|n IH]; intros xs m; [reflexivity|].
  destruct xs as [|x xs]; cbn [Nat.add skipn]; [symmetry; apply skipn_nil | apply IH].
Qed.

(* a chain cuts any list of the right length into pieces that concatenate back to it *)
Definition slice {A} (xs : list A) (ext : Z * Z) : list A :=
  firstn (Z.to_nat (snd ext)) (skipn (Z.to_nat (fst ext)) xs).

Lemma chain_concat {A} (xs : list A) :
  forall l a, chain a (Z.of_nat (length xs)) l -> (0 <= a)%Z ->
    concat (map (slice xs) l) = skipn (Z.to_nat a) xs.
Proof.
  induction l as [|[off cnt] l IH]; intros a Hc Ha; inversion Hc; subst; cbn [map concat].
  - rewrite Nat2Z.id. symmetry. apply skipn_all.
  - rewrite (IH (off + cnt)%Z) by (assumption || lia).
    unfold slice; cbn [fst snd].
    rewrite Z2Nat.inj_add by lia.
    rewrite skipn_add.
    apply firstn_skipn.
Qed.

Lemma chain_bound : forall l a b, chain a b l -> (a <= b)%Z.
Proof. induction l as [|x l IH]; intros a b H; inversion H; subst; [lia|]. apply IH in H5. lia. Qed.

(* ------------------------------------------------------------------------------------------- *)
(* Classification: the handlers against the documented table                                    *)

Lemma tol_phrase_spec k c p : tol_phrase k c p = spec_tol_phrase k c p.
Proof. destruct k, c, p; reflexivity. Qed.

Lemma all_tolerated_spec k c fs : all_tolerated (tol_phrase k c) fs = spec_all_tol k c fs.
Proof.
  unfold spec_all_tol, all_tolerated. destruct fs as [|f fs]; [reflexivity|].
  cbn [is_nil negb andb].
  generalize (f :: fs). intro l. induction l as [|x l IH]; [reflexivity|].
  cbn [forallb]. rewrite IH. destruct x; [rewrite tol_phrase_spec|]; reflexivity.
Qed.

Lemma spec_all_tol_none k c fs :
  (forall p, spec_tol_phrase k c p = false) -> spec_all_tol k c fs = false.
Proof.
  intros H. unfold spec_all_tol. destruct fs as [|[p|] fs]; cbn [is_nil negb andb forallb];
    [reflexivity| rewrite H; reflexivity | reflexivity].
Qed.

Lemma tolerated_exact k c e : k <> KAttestations -> tolerated k c e = spec_tolerated k c e.
Proof.
  intros Hk. destruct e as [sh ents].
  destruct k; try congruence; try reflexivity.
  - (* sync messages *)
    unfold tolerated, spec_tolerated, parsed_tolerated, parsed_failures; cbn [e_shape e_entries].
    destruct c, sh; try reflexivity; try (symmetry; apply spec_all_tol_none; intros p; destruct p; reflexivity);
      apply all_tolerated_spec.
  - (* sync contributions *)
    unfold tolerated, spec_tolerated, parsed_tolerated, parsed_failures; cbn [e_shape e_entries].
    destruct c, sh; try reflexivity; try (symmetry; apply spec_all_tol_none; intros p; destruct p; reflexivity);
      apply all_tolerated_spec.
Qed.

Definition entry_ok (ok : phrase -> bool) (f : option phrase) : bool :=
  match f with Some p => ok p | None => false end.

Lemma forallb_entry_ok ok l :
  existsb (fun p => negb (ok p)) (somes l) = false -> existsb is_none l = false ->
  forallb (entry_ok ok) l = true.
Proof.
  induction l as [|[p|] l IH]; cbn; intros H1 H2; try reflexivity; try discriminate.
  apply orb_false_iff in H1 as [Hp H1]. apply negb_false_iff in Hp. rewrite Hp. cbn. apply IH; assumption.
Qed.

Lemma exists_vs_all ok l :
  existsb ok (somes l) && (existsb (fun p => negb (ok p)) (somes l) || existsb is_none l) = false ->
  existsb ok (somes l) = negb (is_nil l) && forallb (entry_ok ok) l.
Proof.
  induction l as [|[p|] l IH]; cbn [somes existsb is_nil negb forallb entry_ok is_none andb orb]; intros H.
  - reflexivity.
  - destruct (ok p) eqn:Ep; cbn [negb orb andb] in *.
    + apply orb_false_iff in H as [H1 H2]. symmetry. apply forallb_entry_ok; assumption.
    + rewrite orb_true_r, andb_true_r in H || idtac.
      destruct (existsb ok (somes l)); [discriminate H|reflexivity].
  - rewrite orb_true_r, andb_true_r in H. rewrite H. reflexivity.
Qed.

Lemma somes_map_Some {A} (l : list A) : somes (map Some l) = l.
Proof. induction l; cbn; congruence. Qed.

Lemma no_none_map_Some {A} (l : list A) : existsb is_none (map Some l) = false.
Proof. induction l; cbn; auto. Qed.

Lemma existsb_ext {A} (f g : A -> bool) l : (forall x, f x = g x) -> existsb f l = existsb g l.
Proof. intros H; induction l; cbn; [reflexivity|]. rewrite H, IHl; reflexivity. Qed.

Lemma forallb_ext' {A} (f g : A -> bool) l : (forall x, f x = g x) -> forallb f l = forallb g l.
Proof. intros H; induction l; cbn; [reflexivity|]. rewrite H, IHl; reflexivity. Qed.

Lemma tolerated_att c e :
  mixed_body KAttestations c e = false ->
  tolerated KAttestations c e = spec_tolerated KAttestations c e.
Proof.
  destruct e as [sh ents]. unfold mixed_body, tolerated, spec_tolerated, visible, has_null, spec_all_tol.
  cbn [e_shape e_entries]. intros H.
  rewrite (existsb_ext _ _ _ (tol_phrase_spec KAttestations c)).
  destruct sh; try reflexivity.
  - (* plain *)
    rewrite orb_false_r in H.
    pose proof (exists_vs_all (spec_tol_phrase KAttestations c) (map Some (somes ents))) as E.
    rewrite somes_map_Some, no_none_map_Some, orb_false_r in E. exact (E H).
  - exact (exists_vs_all _ ents H).
  - exact (exists_vs_all _ ents H).
  - exact (exists_vs_all _ ents H).
Qed.

Lemma tolerated_clean k c e :
  (k = KAttestations -> mixed_body k c e = false) -> tolerated k c e = spec_tolerated k c e.
Proof.
  intros H. destruct k; try (apply tolerated_exact; congruence). apply tolerated_att. apply H. reflexivity.
Qed.

(* ------------------------------------------------------------------------------------------- *)
(* One node: the stored verdict against "every call accepted or rejected for tolerated reasons"  *)

Lemma spec_node_ok_errs k c bs d :
  node_dur bs = Some d ->
  spec_node_ok k c bs = forallb (fun p => spec_tolerated k c (snd p)) (err_calls bs).
Proof.
  revert d. induction bs as [|b bs IH]; intros d H; [reflexivity|].
  cbn [node_dur fold_right] in H. fold (node_dur bs) in H.
  destruct b as [d' r|]; [|discriminate].
  destruct (node_dur bs) as [m|] eqn:Em; [|discriminate].
  unfold spec_node_ok in *. cbn [forallb err_calls]. rewrite (IH m eq_refl).
  destruct r; reflexivity.
Qed.

Lemma max_attained (ecs : list (N * err_desc)) :
  ecs <> [] -> exists p, In p ecs /\ fst p = max_delay ecs.
Proof.
  induction ecs as [|p ecs IH]; [congruence|]. intros _.
  unfold max_delay; cbn [fold_right]. fold (max_delay ecs).
  destruct ecs as [|q ecs'].
  - exists p; split; [left; reflexivity|]. unfold max_delay; cbn. lia.
  - destruct (IH ltac:(congruence)) as [x [Hx Hm]].
    destruct (N.max_spec (fst p) (max_delay (q :: ecs'))) as [[_ E]|[_ E]]; rewrite E.
    + exists x; split; [right; exact Hx | exact Hm].
    + exists p; split; [left; reflexivity | reflexivity].
Qed.

Lemma node_verdict_clean k c bs d :
  clean_node k c bs = true -> node_dur bs = Some d ->
  node_verdict k c bs = if spec_node_ok k c bs then VOk else VErr.
Proof.
  intros Hclean Hd. rewrite (spec_node_ok_errs k c bs d Hd).
  unfold clean_node in Hclean. apply andb_true_iff in Hclean as [HA HB].
  unfold chunk_mixed in HB. unfold node_verdict.
  destruct (err_calls bs) as [|p0 ecs0] eqn:E; [reflexivity|].
  set (ecs := p0 :: ecs0) in *.
  assert (Htol : forall p, In p ecs -> tolerated k c (snd p) = spec_tolerated k c (snd p)).
  { intros p Hp. apply tolerated_clean. intros ->. cbn [kind_eqb negb orb] in HA.
    rewrite forallb_forall in HA. specialize (HA p Hp). apply negb_true_iff in HA. exact HA. }
  destruct (max_attained ecs ltac:(subst ecs; congruence)) as [pm [Hpm Hm]].
  set (F := filter (fun p => fst p =? max_delay ecs) ecs).
  assert (HF : forall p, In p F -> In p ecs) by (intros p Hp; apply filter_In in Hp; tauto).
  assert (HpmF : In pm F) by (apply filter_In; split; [assumption| apply N.eqb_eq; assumption]).
  destruct (forallb (fun p => spec_tolerated k c (snd p)) ecs) eqn:Eall.
  - rewrite forallb_forall in Eall.
    replace (forallb (fun b : bool => b) (map (fun p => tolerated k c (snd p)) F)) with true; [reflexivity|].
    symmetry. apply forallb_forall. intros b Hb. apply in_map_iff in Hb as [p [<- Hp]].
    rewrite Htol by auto. apply Eall; auto.
  - assert (Hnone : forall p, In p ecs -> spec_tolerated k c (snd p) = false).
    { apply negb_true_iff in HB. apply andb_false_iff in HB as [HB|HB].
      - intros p Hp. destruct (spec_tolerated k c (snd p)) eqn:Ep; [|reflexivity].
        assert (existsb (fun p => spec_tolerated k c (snd p)) ecs = true) by (apply existsb_exists; eauto).
        congruence.
      - exfalso. assert (forallb (fun p => spec_tolerated k c (snd p)) ecs = true); [|congruence].
        apply forallb_forall. intros p Hp. destruct (spec_tolerated k c (snd p)) eqn:Ep; [reflexivity|].
        assert (existsb (fun p => negb (spec_tolerated k c (snd p))) ecs = true)
          by (apply existsb_exists; exists p; rewrite Ep; auto).
        congruence. }
    replace (forallb (fun b : bool => b) (map (fun p => tolerated k c (snd p)) F)) with false.
    + replace (forallb negb (map (fun p => tolerated k c (snd p)) F)) with true; [reflexivity|].
      symmetry. apply forallb_forall. intros b Hb. apply in_map_iff in Hb as [p [<- Hp]].
      rewrite Htol, Hnone by auto. reflexivity.
    + symmetry. apply not_true_iff_false. intros Hall. rewrite forallb_forall in Hall.
      specialize (Hall (tolerated k c (snd pm)) (in_map (fun p => tolerated k c (snd p)) F pm HpmF)).
      rewrite Htol, Hnone in Hall by auto. discriminate.
Qed.

(* every kind but attestations makes one call per node: nothing to mix *)
Lemma calls_single k len conc : k <> KAttestations -> calls_of k len conc = [(0, len)].
Proof. destruct k; congruence || reflexivity. Qed.

Lemma clean_unless_attestations inp : i_kind inp <> KAttestations -> clean_input inp = true.
Proof.
  intros Hk. unfold clean_input. apply forallb_forall. intros nd _.
  unfold clean_node, node_behs. rewrite (calls_single _ _ _ Hk). cbn [map].
  replace (kind_eqb (i_kind inp) KAttestations) with false by (destruct (i_kind inp); congruence || reflexivity).
  cbn [negb orb andb]. unfold chunk_mixed.
  destruct (call_beh nd (0, i_len inp)) as [d [|e]|]; cbn [err_calls existsb snd orb]; try reflexivity.
  destruct (spec_tolerated (i_kind inp) (n_client nd) e); reflexivity.
Qed.

(* ------------------------------------------------------------------------------------------- *)
(* The semaphore                                                                                *)

Definition is_zero (s : option N) : bool := match s with Some 0 => true | _ => false end.
Definition count0 (slots : list (option N)) : nat := length (filter is_zero slots).

Lemma take_min_zero slots :
  existsb is_zero slots = true ->
  exists others, take_min slots = Some (Some 0, others) /\ S (count0 others) = count0 slots.
Proof.
  induction slots as [|s rest IH]; [discriminate|]. intros H.
  cbn [take_min]. destruct (take_min rest) as [[m rest']|] eqn:Etm.
  - destruct (is_zero s) eqn:Ez.
    + destruct s as [[|x]|]; try discriminate. cbn [ole].
      replace (match m with Some y => 0 <=? y | None => true end) with true
        by (destruct m; [symmetry; apply N.leb_le; lia | reflexivity]).
      exists rest. split; [reflexivity|]. unfold count0. cbn [filter is_zero]. reflexivity.
    + cbn [existsb] in H. rewrite Ez in H. cbn [orb] in H.
      destruct (IH H) as [others [Eo Hc]]. injection Eo as -> ->.
      replace (ole s (Some 0)) with false.
      * exists (s :: others). split; [reflexivity|]. unfold count0 in *. cbn [filter]. rewrite Ez. exact Hc.
      * destruct s as [[|x]|]; try discriminate; reflexivity.
  - destruct rest as [|r rest0]; [|cbn [take_min] in Etm; destruct (take_min rest0) as [[? ?]|]; [destruct (ole r o)|]; discriminate].
    cbn [existsb orb] in H. rewrite orb_false_r in H. destruct s as [[|x]|]; try discriminate.
    exists []. split; reflexivity.
Qed.

Lemma count0_exists slots : (0 < count0 slots)%nat -> existsb is_zero slots = true.
Proof.
  unfold count0. induction slots as [|s rest IH]; cbn [filter existsb]; [cbn; lia|].
  destruct (is_zero s); [reflexivity|]. exact IH.
Qed.

Lemma sem_all_zero dur : forall order slots i,
  (length order <= count0 slots)%nat -> In i order ->
  lookup_start i (sem_run slots order dur) = Some 0.
Proof.
  induction order as [|j rest IH]; intros slots i Hc Hi; [destruct Hi|].
  cbn [length] in Hc. cbn [sem_run].
  destruct (take_min_zero slots (count0_exists slots ltac:(lia))) as [others [Etm Hco]].
  rewrite Etm. cbn [lookup_start].
  destruct (Nat.eqb i j) eqn:Eij; [reflexivity|].
  destruct Hi as [->|Hi]; [rewrite Nat.eqb_refl in Eij; discriminate|].
  apply IH; [|assumption].
  unfold count0 in *. cbn [filter]. destruct (is_zero (oadd (Some 0) (dur j))); cbn [length]; lia.
Qed.

Lemma count0_repeat n : count0 (repeat (Some 0) n) = n.
Proof. unfold count0. induction n; cbn; [reflexivity|]. f_equal. exact IHn. Qed.

Definition is_some {A} (o : option A) : bool := match o with Some _ => true | None => false end.

Lemma take_min_some slots :
  slots <> [] -> forallb is_some slots = true ->
  exists f others, take_min slots = Some (Some f, others) /\ forallb is_some others = true
                   /\ length others = pred (length slots).
Proof.
  induction slots as [|s rest IH]; [congruence|]. intros _ H.
  cbn [forallb] in H. apply andb_true_iff in H as [Hs Hr].
  destruct s as [x|]; [|discriminate].
  cbn [take_min]. destruct rest as [|r rest0].
  - cbn. exists x, []. auto.
  - destruct (IH ltac:(congruence) Hr) as [f [others [Etm [Ho Hl]]]]. rewrite Etm.
    destruct (ole (Some x) (Some f)).
    + exists x, (r :: rest0). auto.
    + exists f, (Some x :: others). split; [reflexivity|]. split; [cbn; exact Ho|]. cbn [length] in *. lia.
Qed.

Lemma sem_all_some dur : forall order slots i,
  slots <> [] -> forallb is_some slots = true ->
  (forall j, In j order -> dur j <> None) -> In i order ->
  lookup_start i (sem_run slots order dur) <> None.
Proof.
  induction order as [|j rest IH]; intros slots i Hne Hs Hd Hi; [destruct Hi|].
  cbn [sem_run].
  destruct (take_min_some slots Hne Hs) as [f [others [Etm [Ho _]]]]. rewrite Etm. cbn [lookup_start].
  destruct (Nat.eqb i j) eqn:Eij; [congruence|].
  destruct Hi as [->|Hi]; [rewrite Nat.eqb_refl in Eij; discriminate|].
  apply IH; try assumption; [congruence| |intros; apply Hd; right; assumption].
  cbn [forallb]. rewrite Ho. destruct (dur j) eqn:Ej; [reflexivity|]. exfalso. apply (Hd j); [left; reflexivity|assumption].
Qed.

(* ------------------------------------------------------------------------------------------- *)
(* Views                                                                                        *)

(* each node index occurs in the start order, and nothing else does *)
Definition valid_order (n : nat) (order : list nat) : Prop :=
  length order = n /\ (forall i, (i < n)%nat -> In i order) /\ (forall j, In j order -> (j < n)%nat).

(* what a node sees and does when nobody is in its way: it is asked for its version at once, is
   handed the whole payload as soon as it has answered that (never, if it never answers), and its
   goroutine has its classified answer after the node's own span *)
Definition solo_view (k : kind) (len : N) (conc : Z) (nd : node) : node_view :=
  let bs := node_behs k len conc nd in
  {| v_start := Some 0;
     v_at := n_ver1 nd;
     v_calls := match n_ver1 nd with Some _ => calls_of k len conc | None => [] end;
     v_done := node_span k nd bs;
     v_verdict := node_verdict k (n_client nd) bs |}.

Lemma node_span_some k nd bs t :
  node_span k nd bs = Some t ->
  exists v d, n_ver1 nd = Some v /\ node_dur bs = Some d /\ v + d <= t.
Proof.
  unfold node_span. destruct (n_ver1 nd) as [v|]; [|discriminate].
  destruct (node_dur bs) as [d|]; [|discriminate].
  destruct (if asks_again k bs then n_ver2 nd else Some 0) as [w|]; [|discriminate].
  cbn [oadd]. intros H. injection H as <-. exists v, d. split; [reflexivity|]. split; [reflexivity|]. lia.
Qed.

Lemma nth_error_combine_seq {A} (l : list A) : forall a i,
  nth_error (combine (seq a (length l)) l) i = option_map (fun x => ((a + i)%nat, x)) (nth_error l i).
Proof.
  induction l as [|x l IH]; intros a i; cbn [length seq combine].
  - destruct i; reflexivity.
  - destruct i as [|i]; cbn [nth_error option_map].
    + rewrite Nat.add_0_r. reflexivity.
    + rewrite IH. rewrite Nat.add_succ_r. reflexivity.
Qed.

Lemma views_nth inp order i :
  nth_error (views inp order) i
  = option_map (view_of inp (starts inp order) i) (nth_error (i_nodes inp) i).
Proof.
  unfold views. rewrite nth_error_map, nth_error_combine_seq.
  destruct (nth_error (i_nodes inp) i); reflexivity.
Qed.

Lemma oadd_0_l o : oadd (Some 0) o = o.
Proof. destruct o; reflexivity. Qed.

Lemma view_at_once inp order i nd :
  valid_order (length (i_nodes inp)) order ->
  (Z.of_nat (length (i_nodes inp)) <= i_conc inp)%Z ->
  nth_error (i_nodes inp) i = Some nd ->
  view_of inp (starts inp order) i nd = solo_view (i_kind inp) (i_len inp) (i_conc inp) nd.
Proof.
  intros [Hlen [Hall _]] Hc Hi.
  assert (Hlt : (i < length (i_nodes inp))%nat) by (apply nth_error_Some; congruence).
  unfold view_of, solo_view, starts.
  rewrite (sem_all_zero _ order _ i); [|rewrite count0_repeat; lia | apply Hall; exact Hlt].
  rewrite !oadd_0_l. reflexivity.
Qed.

Lemma nth_dur_some inp j :
  (forall nd, In nd (i_nodes inp) -> node_span (i_kind inp) nd (node_behs (i_kind inp) (i_len inp) (i_conc inp) nd) <> None) ->
  (j < length (i_nodes inp))%nat -> nth j (node_durs inp) None <> None.
Proof.
  intros H Hj. unfold node_durs.
  assert (Hin : In (nth j (map (fun nd => node_span (i_kind inp) nd (node_behs (i_kind inp) (i_len inp) (i_conc inp) nd)) (i_nodes inp)) None)
                   (map (fun nd => node_span (i_kind inp) nd (node_behs (i_kind inp) (i_len inp) (i_conc inp) nd)) (i_nodes inp)))
    by (apply nth_In; rewrite map_length; exact Hj).
  apply in_map_iff in Hin as [nd [E Hnd]]. rewrite <- E. apply H. exact Hnd.
Qed.

Lemma repeat_not_nil {A} (x : A) n : (0 < n)%nat -> repeat x n <> [].
Proof. destruct n; [lia|]. discriminate. Qed.

Lemma forallb_repeat {A} (f : A -> bool) x n : f x = true -> forallb f (repeat x n) = true.
Proof. intros H; induction n; cbn; [reflexivity|]. rewrite H, IHn; reflexivity. Qed.

(* ------------------------------------------------------------------------------------------- *)
(* Outcomes                                                                                     *)

Lemma fold_min_spec x l :
  let m := fold_right N.min x l in
  In m (x :: l) /\ forall y, In y (x :: l) -> m <= y.
Proof.
  induction l as [|z l IH]; cbn [fold_right].
  - split; [left; reflexivity|]. intros y [<-|[]]. lia.
  - cbn zeta in IH. destruct IH as [Hin Hle].
    set (m := fold_right N.min x l) in *.
    split.
    + destruct (N.min_spec z m) as [[_ E]|[_ E]]; rewrite E.
      * right; left; reflexivity.
      * destruct Hin as [Hin|Hin]; [left; exact Hin | right; right; exact Hin].
    + intros y Hy. destruct Hy as [<-|[<-|Hy]].
      * specialize (Hle x ltac:(left; reflexivity)). lia.
      * lia.
      * specialize (Hle y ltac:(right; exact Hy)). lia.
Qed.

Lemma list_min_spec l m : list_min l = Some m -> In m l /\ forall y, In y l -> m <= y.
Proof.
  destruct l as [|x l]; [discriminate|]. cbn [list_min]. intros H; injection H as <-. apply fold_min_spec.
Qed.

Lemma list_min_none l : list_min l = None -> l = [].
Proof. destruct l; [reflexivity|discriminate]. Qed.

Lemma outcomes_of_nonempty T ts : outcomes_of T ts <> [].
Proof.
  unfold outcomes_of. destruct (list_min ts) as [m|]; [|discriminate].
  destruct (m =? 0); [destruct (list_min _); discriminate|].
  destruct (m <? T); [discriminate|]. destruct (m =? T); discriminate.
Qed.

Lemma next_signal T ts nx :
  0 < T -> list_min (filter (fun t => 0 <? t) (T :: ts)) = Some nx ->
  nx <= T /\ forall m, In m ts -> 0 < m -> nx <= m.
Proof.
  intros HT H. apply list_min_spec in H as [_ Hle]. split.
  - apply Hle. apply filter_In. split; [left; reflexivity | apply N.ltb_lt; exact HT].
  - intros m Hm Hpos. apply Hle. apply filter_In. split; [right; exact Hm | apply N.ltb_lt; exact Hpos].
Qed.

Lemma outcomes_of_le T ts o : 0 < T -> In o (outcomes_of T ts) -> snd o <= T.
Proof.
  intros HT. unfold outcomes_of.
  destruct (list_min ts) as [m|] eqn:Em.
  - destruct (m =? 0) eqn:E0.
    + destruct (list_min (filter _ (T :: ts))) as [nx|] eqn:En.
      * destruct (next_signal T ts nx HT En) as [Hnx _].
        intros [<-|[<-|[]]]; cbn [snd]; lia.
      * intros [<-|[]]; cbn [snd]; lia.
    + destruct (m <? T) eqn:Elt; [apply N.ltb_lt in Elt; intros [<-|[]]; cbn [snd]; lia|].
      destruct (m =? T); [intros [<-|[<-|[]]] | intros [<-|[]]]; cbn [snd]; lia.
  - intros [<-|[]]; cbn [snd]; lia.
Qed.

(* success needs a successful signal no later than the timeout *)
Lemma outcomes_of_true T ts t :
  In (true, t) (outcomes_of T ts) -> exists m, In m ts /\ m <= T.
Proof.
  unfold outcomes_of.
  destruct (list_min ts) as [m|] eqn:Em; [|intros [H|[]]; discriminate].
  apply list_min_spec in Em as [Hin _].
  destruct (m =? 0) eqn:E0.
  - apply N.eqb_eq in E0. intros _. exists m. split; [assumption|lia].
  - destruct (m <? T) eqn:Elt.
    + apply N.ltb_lt in Elt. intros _. exists m. split; [assumption|lia].
    + destruct (m =? T) eqn:Eq.
      * apply N.eqb_eq in Eq. intros _. exists m. split; [assumption|lia].
      * intros [H|[]]; discriminate.
Qed.

(* failure is reported at the timeout, and only if no successful signal came before it *)
Lemma outcomes_of_false T ts t :
  In (false, t) (outcomes_of T ts) -> t = T /\ forall m, In m ts -> T <= m.
Proof.
  unfold outcomes_of.
  destruct (list_min ts) as [m|] eqn:Em.
  - apply list_min_spec in Em as [Hin Hle].
    destruct (m =? 0) eqn:E0.
    + destruct (list_min (filter _ (T :: ts))); [intros [H|[H|[]]] | intros [H|[]]]; discriminate.
    + destruct (m <? T) eqn:Elt; [intros [H|[]]; discriminate|].
      apply N.ltb_ge in Elt.
      destruct (m =? T).
      * intros [H|[H|[]]]; [discriminate|]. injection H as <-. split; [reflexivity|].
        intros x Hx. specialize (Hle x Hx). lia.
      * intros [H|[]]. injection H as <-. split; [reflexivity|].
        intros x Hx. specialize (Hle x Hx). lia.
  - apply list_min_none in Em. subst ts. intros [H|[]]. injection H as <-. split; [reflexivity|]. intros m [].
Qed.

(* a successful signal before the timeout forces success, no later than that signal *)
Lemma outcomes_of_forced T ts m o :
  0 < T -> In m ts -> m < T -> In o (outcomes_of T ts) -> fst o = true /\ (0 < m -> snd o <= m).
Proof.
  intros HT Hm Hlt. unfold outcomes_of.
  destruct (list_min ts) as [m0|] eqn:Em; [|apply list_min_none in Em; subst ts; destruct Hm].
  apply list_min_spec in Em as [Hin Hle]. specialize (Hle m Hm).
  destruct (m0 =? 0) eqn:E0.
  - apply N.eqb_eq in E0.
    destruct (list_min (filter _ (T :: ts))) as [nx|] eqn:En.
    + destruct (next_signal T ts nx HT En) as [_ Hnx].
      intros [<-|[<-|[]]]; cbn [fst snd]; (split; [reflexivity|]); intros Hpos; [lia | apply Hnx; assumption].
    + intros [<-|[]]; cbn [fst snd]. split; [reflexivity|lia].
  - destruct (m0 <? T) eqn:Elt.
    + intros [<-|[]]; cbn [fst snd]. split; [reflexivity|lia].
    + apply N.ltb_ge in Elt. lia.
Qed.

Lemma worlds_nonempty vs : worlds vs <> [].
Proof.
  induction vs as [|v vs IH]; cbn [worlds]; [discriminate|].
  destruct (worlds vs) as [|w ws]; [congruence|].
  destruct (v_done v), (v_verdict v); cbn; discriminate.
Qed.

Lemma world_elem vs : forall ts t,
  In ts (worlds vs) -> In t ts ->
  exists v, In v vs /\ v_done v = Some t /\ (v_verdict v = VOk \/ v_verdict v = VAny).
Proof.
  induction vs as [|v vs IH]; intros ts t Hts Ht; cbn [worlds] in Hts.
  - destruct Hts as [<-|[]]. destruct Ht.
  - assert (Hrec : In ts (worlds vs) -> exists v0, In v0 (v :: vs) /\ v_done v0 = Some t /\ (v_verdict v0 = VOk \/ v_verdict v0 = VAny)).
    { intros H. destruct (IH ts t H Ht) as [v0 [Hv0 Hp]]. exists v0. split; [right; exact Hv0 | exact Hp]. }
    assert (Hcons : forall t0, v_done v = Some t0 -> (v_verdict v = VOk \/ v_verdict v = VAny) ->
                    In ts (map (cons t0) (worlds vs)) ->
                    exists v0, In v0 (v :: vs) /\ v_done v0 = Some t /\ (v_verdict v0 = VOk \/ v_verdict v0 = VAny)).
    { intros t0 Hd Hv H. apply in_map_iff in H as [ts' [<- Hts']]. destruct Ht as [<-|Ht].
      - exists v. split; [left; reflexivity | split; assumption].
      - destruct (IH ts' t Hts' Ht) as [v0 [Hv0 Hp]]. exists v0. split; [right; exact Hv0 | exact Hp]. }
    destruct (v_done v) as [t0|] eqn:Ed; [|apply Hrec; exact Hts].
    destruct (v_verdict v) eqn:Ev.
    + apply (Hcons t0 eq_refl (or_introl eq_refl) Hts).
    + apply Hrec; exact Hts.
    + apply in_app_or in Hts as [H|H]; [apply (Hcons t0 eq_refl (or_intror eq_refl) H) | apply Hrec; exact H].
Qed.

Lemma world_ok vs : forall ts v t,
  In ts (worlds vs) -> In v vs -> v_verdict v = VOk -> v_done v = Some t -> In t ts.
Proof.
  induction vs as [|v0 vs IH]; intros ts v t Hts Hv Hok Hd; [destruct Hv|].
  cbn [worlds] in Hts. destruct Hv as [->|Hv].
  - rewrite Hd, Hok in Hts. apply in_map_iff in Hts as [ts' [<- _]]. left; reflexivity.
  - assert (Hrec : forall ts', In ts' (worlds vs) -> In t ts') by (intros ts' H; exact (IH ts' v t H Hv Hok Hd)).
    assert (Hcons : forall t0, In ts (map (cons t0) (worlds vs)) -> In t ts).
    { intros t0 H. apply in_map_iff in H as [ts' [<- Hts']]. right. apply Hrec; exact Hts'. }
    destruct (v_done v0) as [t0|]; [|apply Hrec; exact Hts].
    destruct (v_verdict v0).
    + apply (Hcons t0 Hts).
    + apply Hrec; exact Hts.
    + apply in_app_or in Hts as [H|H]; [apply (Hcons t0 H) | apply Hrec; exact H].
Qed.

(* ------------------------------------------------------------------------------------------- *)
(* Main lemmas                                                                                  *)

Definition wf_input (inp : input) : Prop := 0 < i_timeout inp /\ (1 <= i_conc inp)%Z.

(* the calls, taken in order, hand over exactly the payload *)
Definition nslice {A} (xs : list A) (c : N * N) : list A :=
  firstn (N.to_nat (snd c)) (skipn (N.to_nat (fst c)) xs).

Lemma calls_cover {A} k len conc (xs : list A) :
  guard_ok k len = true -> (1 <= conc)%Z -> length xs = N.to_nat len ->
  concat (map (nslice xs) (calls_of k len conc)) = xs
  /\ (k <> KAttestations -> calls_of k len conc = [(0, len)])
  /\ (0 < len -> Forall (fun c => 0 < snd c) (calls_of k len conc)).
Proof.
  intros Hg Hc Hlen.
  assert (Hsingle : concat (map (nslice xs) [(0, len)]) = xs /\ (0 < len -> Forall (fun c : N * N => 0 < snd c) [(0, len)])).
  { split.
    - cbn [map concat]. unfold nslice; cbn [fst snd N.to_nat skipn]. rewrite app_nil_r, <- Hlen. apply firstn_all.
    - intros Hp. constructor; [exact Hp | constructor]. }
  destruct k; try (split; [apply Hsingle | split; [intros _; reflexivity | apply Hsingle]]).
  (* attestations *)
  cbn [guard_ok] in Hg. apply negb_true_iff, N.eqb_neq in Hg.
  destruct (scatter_partition (Z.of_N len) conc 1 ltac:(lia) ltac:(lia)) as [l [El Hch]].
  unfold calls_of. rewrite El.
  split; [|split; [congruence|]].
  - rewrite map_map.
    rewrite (map_ext _ (slice xs)).
    + rewrite (chain_concat xs l 0%Z); [reflexivity | | lia].
      rewrite Hlen, N_nat_Z. exact Hch.
    + intros [o n]. unfold nslice, slice; cbn [fst snd]. rewrite !Z_N_nat. reflexivity.
  - intros _. clear El. revert Hch. generalize 0%Z.
    induction l as [|[o n] l IH]; intros a Hch; [constructor|].
    inversion Hch; subst. constructor; [cbn [snd]; lia | eapply IH; eassumption].
Qed.

Lemma run_views inp order : guard_ok (i_kind inp) (i_len inp) = true -> run inp order = (views inp order, outcomes inp order).
Proof. intros H. unfold run. rewrite H. reflexivity. Qed.

Lemma whole_payload_lemma {A} inp order i v (xs : list A) :
  wf_input inp -> length xs = N.to_nat (i_len inp) ->
  nth_error (fst (run inp order)) i = Some v -> v_at v <> None ->
  concat (map (nslice xs) (v_calls v)) = xs
  /\ (i_kind inp <> KAttestations -> v_calls v = [(0, i_len inp)])
  /\ (0 < i_len inp -> Forall (fun c => 0 < snd c) (v_calls v)).
Proof.
  intros [_ Hc] Hlen Hv Hst. unfold run in Hv.
  destruct (guard_ok (i_kind inp) (i_len inp)) eqn:Hg; cbn [fst] in Hv.
  - rewrite views_nth in Hv. destruct (nth_error (i_nodes inp) i) as [nd|]; [|discriminate].
    cbn [option_map] in Hv. injection Hv as <-. unfold view_of in *. cbn [v_at v_calls] in *.
    destruct (oadd (lookup_start i (starts inp order)) (n_ver1 nd)); [|congruence].
    apply calls_cover; assumption.
  - rewrite nth_error_map in Hv. destruct (nth_error (i_nodes inp) i); [|discriminate].
    cbn in Hv. injection Hv as <-. cbn in Hst. congruence.
Qed.

Lemma contacted_at_once inp order i v :
  guard_ok (i_kind inp) (i_len inp) = true ->
  valid_order (length (i_nodes inp)) order ->
  (Z.of_nat (length (i_nodes inp)) <= i_conc inp)%Z ->
  nth_error (fst (run inp order)) i = Some v ->
  exists nd, nth_error (i_nodes inp) i = Some nd
             /\ v = solo_view (i_kind inp) (i_len inp) (i_conc inp) nd.
Proof.
  intros Hg Hord Hc Hv. rewrite (run_views _ _ Hg) in Hv. cbn [fst] in Hv. rewrite views_nth in Hv.
  destruct (nth_error (i_nodes inp) i) as [nd|] eqn:En; [|discriminate].
  cbn [option_map] in Hv. injection Hv as <-. exists nd. split; [reflexivity|].
  apply view_at_once; assumption.
Qed.

Lemma delivery_eventually inp order i v :
  guard_ok (i_kind inp) (i_len inp) = true -> wf_input inp ->
  valid_order (length (i_nodes inp)) order ->
  (forall nd, In nd (i_nodes inp) -> node_span (i_kind inp) nd (node_behs (i_kind inp) (i_len inp) (i_conc inp) nd) <> None) ->
  nth_error (fst (run inp order)) i = Some v ->
  v_at v <> None /\ v_calls v = calls_of (i_kind inp) (i_len inp) (i_conc inp).
Proof.
  intros Hg [_ Hc] [Hlen [Hall Hlt]] Hd Hv. rewrite (run_views _ _ Hg) in Hv. cbn [fst] in Hv.
  rewrite views_nth in Hv.
  destruct (nth_error (i_nodes inp) i) as [nd|] eqn:En; [|discriminate].
  cbn [option_map] in Hv. injection Hv as <-. unfold view_of. cbn [v_at v_calls].
  assert (Hv1 : n_ver1 nd <> None).
  { intros E. apply (Hd nd); [eapply nth_error_In; eassumption|]. unfold node_span. rewrite E. reflexivity. }
  assert (Hi : (i < length (i_nodes inp))%nat) by (apply nth_error_Some; congruence).
  assert (Hs : lookup_start i (starts inp order) <> None).
  { unfold starts. apply sem_all_some.
    - apply repeat_not_nil. lia.
    - apply forallb_repeat. reflexivity.
    - intros j Hj. apply nth_dur_some; [exact Hd | apply Hlt; exact Hj].
    - apply Hall; exact Hi. }
  destruct (lookup_start i (starts inp order)); [|congruence].
  destruct (n_ver1 nd); [|congruence]. cbn [oadd]. split; [discriminate|reflexivity].
Qed.

Lemma returns_by_timeout inp order o :
  0 < i_timeout inp -> In o (snd (run inp order)) ->
  snd o <= i_timeout inp /\ (fst o = false -> guard_ok (i_kind inp) (i_len inp) = true -> snd o = i_timeout inp).
Proof.
  intros HT Ho. unfold run in Ho. destruct (guard_ok (i_kind inp) (i_len inp)) eqn:Hg; cbn [snd] in Ho.
  - unfold outcomes in Ho. apply in_flat_map in Ho as [ts [_ Ho]]. split.
    + eapply outcomes_of_le; eassumption.
    + intros Hf _. destruct o as [ok t]; cbn [fst snd] in *. subst ok.
      apply outcomes_of_false in Ho. tauto.
  - destruct Ho as [<-|[]]. cbn [fst snd]. split; [lia | intros _ H; discriminate].
Qed.

Lemma some_outcome inp order : snd (run inp order) <> [].
Proof.
  unfold run. destruct (guard_ok (i_kind inp) (i_len inp)); cbn [snd]; [|discriminate].
  unfold outcomes. destruct (worlds (views inp order)) as [|ts ws] eqn:E; [exfalso; eapply worlds_nonempty; eassumption|].
  cbn [flat_map]. pose proof (outcomes_of_nonempty (i_timeout inp) ts).
  destruct (outcomes_of (i_timeout inp) ts); [congruence|discriminate].
Qed.

(* a node that, left alone, finishes with an accepted result before the timeout makes the
   submission succeed by then -- whatever the other nodes do *)
Lemma success_via inp order i nd d o :
  guard_ok (i_kind inp) (i_len inp) = true -> 0 < i_timeout inp ->
  valid_order (length (i_nodes inp)) order ->
  (Z.of_nat (length (i_nodes inp)) <= i_conc inp)%Z ->
  nth_error (i_nodes inp) i = Some nd ->
  node_verdict (i_kind inp) (n_client nd) (node_behs (i_kind inp) (i_len inp) (i_conc inp) nd) = VOk ->
  node_span (i_kind inp) nd (node_behs (i_kind inp) (i_len inp) (i_conc inp) nd) = Some d ->
  d < i_timeout inp ->
  In o (snd (run inp order)) ->
  fst o = true /\ (0 < d -> snd o <= d).
Proof.
  intros Hg HT Hord Hc Hi Hv Hd Hlt Ho. rewrite (run_views _ _ Hg) in Ho. cbn [snd] in Ho.
  unfold outcomes in Ho. apply in_flat_map in Ho as [ts [Hts Ho]].
  assert (Hin : In (solo_view (i_kind inp) (i_len inp) (i_conc inp) nd) (views inp order)).
  { apply (nth_error_In _ i). rewrite views_nth, Hi. cbn [option_map]. f_equal. apply view_at_once; assumption. }
  assert (Hd' : In d ts) by (eapply world_ok; [exact Hts | exact Hin | exact Hv | exact Hd]).
  eapply outcomes_of_forced; eassumption.
Qed.

Lemma success_iff_clean inp order o :
  guard_ok (i_kind inp) (i_len inp) = true -> 0 < i_timeout inp ->
  valid_order (length (i_nodes inp)) order ->
  (Z.of_nat (length (i_nodes inp)) <= i_conc inp)%Z ->
  clean_input inp = true ->
  In o (snd (run inp order)) ->
  let accepted_by (bound : N -> Prop) :=
    exists nd d, In nd (i_nodes inp)
      /\ spec_node_ok (i_kind inp) (n_client nd) (node_behs (i_kind inp) (i_len inp) (i_conc inp) nd) = true
      /\ node_span (i_kind inp) nd (node_behs (i_kind inp) (i_len inp) (i_conc inp) nd) = Some d /\ bound d in
  (fst o = true -> accepted_by (fun d => d <= i_timeout inp))
  /\ (accepted_by (fun d => d < i_timeout inp) -> fst o = true).
Proof.
  intros Hg HT Hord Hc Hclean Ho. cbn zeta. split.
  - intros Hok. rewrite (run_views _ _ Hg) in Ho. cbn [snd] in Ho.
    unfold outcomes in Ho. apply in_flat_map in Ho as [ts [Hts Ho]].
    destruct o as [ok t]; cbn [fst] in Hok; subst ok.
    apply outcomes_of_true in Ho as [m [Hm Hle]].
    destruct (world_elem _ _ _ Hts Hm) as [v [Hv [Hdone Hverd]]].
    apply In_nth_error in Hv as [i Hv]. rewrite views_nth in Hv.
    destruct (nth_error (i_nodes inp) i) as [nd|] eqn:En; [|discriminate].
    cbn [option_map] in Hv. injection Hv as <-.
    rewrite (view_at_once inp order i nd Hord Hc En) in Hdone, Hverd. cbn [solo_view v_done v_verdict] in Hdone, Hverd.
    assert (Hnd : In nd (i_nodes inp)) by (eapply nth_error_In; eassumption).
    unfold clean_input in Hclean. rewrite forallb_forall in Hclean. specialize (Hclean nd Hnd).
    destruct (node_span_some _ _ _ _ Hdone) as [v1 [d1 [_ [Hd1 _]]]].
    rewrite (node_verdict_clean _ _ _ d1 Hclean Hd1) in Hverd.
    exists nd, m. split; [exact Hnd|]. split; [|split; [exact Hdone | exact Hle]].
    destruct (spec_node_ok _ _ _); [reflexivity | destruct Hverd; discriminate].
  - intros [nd [d [Hnd [Hok [Hd Hlt]]]]].
    apply In_nth_error in Hnd as [i Hi].
    assert (Hnd : In nd (i_nodes inp)) by (eapply nth_error_In; eassumption).
    unfold clean_input in Hclean. rewrite forallb_forall in Hclean. specialize (Hclean nd Hnd).
    destruct (node_span_some _ _ _ _ Hd) as [v1 [d1 [_ [Hd1 _]]]].
    pose proof (node_verdict_clean _ _ _ d1 Hclean Hd1) as Hv. rewrite Hok in Hv.
    exact (proj1 (success_via inp order i nd d o Hg HT Hord Hc Hi Hv Hd Hlt Ho)).
Qed.
