(* C08 lemmas (placeholder while the pipeline is brought up). *)
From Verif Require Import Lib.Base Model.C08_Submitter.
