(* C04: the signatures of a call may be obtained in several requests (the accounts split into ranges,
   the ranges signed side by side).  What createAttestations needs is the signature list in the order
   of the accounts: the k-th signature goes onto the attestation built from the k-th account's
   committee index, position and committee size, whatever it is a signature of.  (The code of the
   pinned tree asks once; these lemmas say what any splitting must preserve, and are the reason why
   Check/C04.v judges the submitted attestations by validator against all signing requests of the
   call.) *)
From Verif Require Import Lib.Base Model.C01_Attester.

(* the answers of the signer to the ranges [rs], joined in the order of the ranges *)
Definition sign_ranges (sl : slot) (a : adata) (unsigned : list vidx) (rs : list (list sarg)) : list (option sigval) :=
  concat (map (map (sign_one sl a unsigned)) rs).

Lemma split_signing d a unsigned (rs : list (list sarg)) :
  create_atts d a (concat rs) (sign_ranges (d_slot d) a unsigned rs) = attestations d a (concat rs) unsigned.
Proof. unfold sign_ranges, attestations. rewrite concat_map. reflexivity. Qed.

Lemma create_atts_position d a : forall args sigs k x s,
  nth_error args k = Some x -> nth_error sigs k = Some (Some s) -> (sa_size x <=? max_committee) = true ->
  In (make_att d a x s) (create_atts d a args sigs).
Proof.
  induction args as [|y args IH]; intros sigs k x s Hx Hs Hm.
  - destruct k; discriminate.
  - destruct sigs as [|sg sigs]; [destruct k; discriminate|].
    destruct k as [|k]; cbn [nth_error] in Hx, Hs.
    + injection Hx as ->. injection Hs as ->. cbn [create_atts]. rewrite Hm. left. reflexivity.
    + cbn [create_atts]. specialize (IH _ _ _ _ Hx Hs Hm).
      destruct sg as [s0|]; [destruct (sa_size y <=? max_committee)|]; try exact IH. right. exact IH.
Qed.

(* so an attestation whose signature is its own account's over its own values requires that very
   signature at the account's position *)
Lemma own_signature_at_position d a args sigs k x s :
  nth_error args k = Some x -> nth_error sigs k = Some (Some s) -> (sa_size x <=? max_committee) = true ->
  (forall y, In y (create_atts d a args sigs) -> at_sig y = (fst (at_sig y), at_vote y)) ->
  snd s = mkvote (d_slot d) (sa_comm x) a.
Proof.
  intros Hx Hs Hm Hall. specialize (Hall _ (create_atts_position d a _ _ _ _ _ Hx Hs Hm)).
  cbn [make_att at_sig at_vote] in Hall. rewrite Hall. reflexivity.
Qed.
