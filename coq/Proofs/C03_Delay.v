(* C03 — scheduling while the beacon node answers late (Model/C03_Delay.v).
   (1) With no late answer the operations are those of Model/C03_Controller.v.
   (2) A job that is set up when a late answer arrives is for a slot that has not passed at THAT
       moment (the clock after the wait), strictly later in a (re)start.
   (3) Sync committee preparation jobs: the window is computed before the request, the first slot
       is clamped to the clock once more when the answer has arrived (repaired code), so the same
       holds for them. *)
From Verif Require Import Lib.Base Model.C03_ChainTime Model.C03_Controller Model.C03_Spec Model.C03_Delay
     Proofs.C03_ChainTime Proofs.C03_Table Proofs.C03_Sched.
From Coq Require Import ZifyBool ZifyN ZifyNat.
Open Scope N_scope.

(* the duty slot of an attestation / proposal / sync committee preparation job *)
Definition duty_slot (n : jname) : option N :=
  match n with JAtt s | JProp s | JEarly s | JSync s => Some s | JPrep _ => None end.

Definition pd_notcur (pd : pending) : bool :=
  match pd with PAtt _ nc | PProp _ nc | PSync _ _ _ nc => nc end.

Section DelayProofs.
  Variable shadowed : bool.
  Variable c : config.

  (* ----- a new attestation / proposal job is for a slot that is due at the clock given ----- *)
  Lemma sched_att_new_due : forall cur hv ds ep nc t n s,
    duty_slot n = Some s ->
    texists (sched_att c cur hv ds ep nc t) n = true -> texists t n = false -> due cur nc s = true.
  Proof.
    intros cur hv ds ep nc t n s Hn H1 H0. unfold texists in *.
    rewrite sched_att_exact in H1. unfold spec_sched_att in H1.
    destruct (tget t n) eqn:E; [discriminate|].
    destruct n as [x|x|x|x|x]; cbn in Hn; try discriminate; inversion Hn; subst x; try discriminate.
    destruct hv; cbn [andb] in H1; [|discriminate]. unfold att_wanted in H1.
    destruct (due cur nc s); [reflexivity|]. rewrite !andb_false_r in H1. discriminate.
  Qed.

  Lemma sched_prop_new_due : forall cur hv ds ep nc t n s,
    duty_slot n = Some s ->
    texists (sched_prop c cur hv ds ep nc t) n = true -> texists t n = false -> due cur nc s = true.
  Proof.
    intros cur hv ds ep nc t n s Hn H1 H0. unfold texists in *.
    rewrite sched_prop_exact in H1. unfold spec_sched_prop in H1.
    destruct (tget t n) eqn:E; [discriminate|].
    destruct n as [x|x|x|x|x]; cbn in Hn; try discriminate; inversion Hn; subst x; try discriminate.
    - destruct hv; cbn [andb] in H1; [|discriminate]. unfold prop_wanted in H1.
      destruct (due cur nc s); [reflexivity|]. rewrite !andb_false_r in H1. discriminate.
    - destruct hv; cbn [andb] in H1; [|discriminate]. unfold prop_wanted in H1.
      destruct (due cur nc s); [reflexivity|]. rewrite !andb_false_r in H1. cbn [andb] in H1. discriminate.
  Qed.

  (* scheduleSyncCommitteeMessages touches preparation jobs only *)
  Lemma sync2_fold_frame : forall (g : N -> bool) (mk : N -> job) l t n,
    (forall x, j_name (mk x) <> n) ->
    tget (fold_left (fun t x => if g x then t else tsched t (mk x)) l t) n = tget t n.
  Proof.
    intros g mk. induction l as [|x l IH]; intros t n Hn; cbn [fold_left]; [reflexivity|].
    rewrite IH by exact Hn. destruct (g x); [reflexivity|].
    rewrite tget_tsched. destruct (tget t n); [reflexivity|].
    rewrite jname_eqb_neq by apply Hn. reflexivity.
  Qed.

  Lemma sched_sync2_frame : forall ae cur0 cur1 e ep nc t n,
    (forall s, n <> JSync s) ->
    tget (sched_sync2 c ae cur0 cur1 e ep nc t) n = tget t n.
  Proof.
    intros ae cur0 cur1 e ep nc t n Hn. unfold sched_sync2.
    destruct (negb (e_vals e)); [reflexivity|].
    destruct (cur_epoch c cur0 <? ae); [reflexivity|].
    destruct (sync_window c ae cur0 ep) as [[fe fs] ls].
    destruct (alookup (e_sync e) (fe / c_period c)) as [|v vs]; [reflexivity|].
    apply (sync2_fold_frame (fun slot => (slot =? cur1) && nc)
             (fun slot => {| j_name := JSync slot; j_time := sync_time c slot;
                             j_pay := map (fun v => (v, 0, 0)) (sort_by (fun v => v) (dedup (v :: vs))) |})).
    intros x E. cbn in E. exact (Hn x (eq_sym E)).
  Qed.

  (* the window's first slot is never before the clock it was computed at *)
  Lemma sync_window_fs_ge : forall ae cur ep,
    let '(_, fs, _) := sync_window c ae cur ep in (fs <? cur) = false.
  Proof.
    intros ae cur ep. unfold sync_window.
    match goal with |- context [if ?x <? cur then cur else ?x] => destruct (x <? cur) eqn:E end.
    - apply N.ltb_irrefl.
    - exact E.
  Qed.

  (* with both clock readings equal it is the function of Model/C03_Controller.v: the second
     clamp does nothing when no time passes during the request *)
  Lemma sched_sync2_same : forall ae cur e ep nc t,
    sched_sync2 c ae cur cur e ep nc t = sched_sync c ae cur e ep nc t.
  Proof.
    intros ae cur e ep nc t. unfold sched_sync2, sched_sync.
    pose proof (sync_window_fs_ge ae cur ep) as H.
    destruct (sync_window c ae cur ep) as [[fe fs] ls]. rewrite H. reflexivity.
  Qed.

  (* a new preparation job lies in the window computed BEFORE the request and is not the slot
     current AFTER it when told so *)
  Lemma sync2_fold_new : forall (g : N -> bool) (mk : N -> job) l t s,
    (forall x, j_name (mk x) = JSync x) ->
    texists (fold_left (fun t x => if g x then t else tsched t (mk x)) l t) (JSync s) = true ->
    texists t (JSync s) = false -> In s l /\ g s = false.
  Proof.
    intros g mk. induction l as [|x l IH]; intros t s Hmk H1 H0; cbn [fold_left] in H1.
    - rewrite H0 in H1. discriminate.
    - destruct (texists (if g x then t else tsched t (mk x)) (JSync s)) eqn:E.
      + destruct (g x) eqn:G; [rewrite H0 in E; discriminate|].
        unfold texists in E, H0. rewrite tget_tsched in E.
        destruct (tget t (JSync s)); [discriminate|].
        destruct (jname_eqb (j_name (mk x)) (JSync s)) eqn:Q; [|discriminate].
        apply jname_eqb_spec in Q. rewrite Hmk in Q. inversion Q; subst x.
        split; [left; reflexivity | exact G].
      + destruct (IH _ s Hmk H1 E) as [Hin Hg]. split; [right; exact Hin | exact Hg].
  Qed.

  Lemma sched_sync2_new : forall ae cur0 cur1 e ep nc t s,
    texists (sched_sync2 c ae cur0 cur1 e ep nc t) (JSync s) = true -> texists t (JSync s) = false ->
    let '(_, fs, ls) := sync_window c ae cur0 ep in
    fs <= s <= ls /\ cur1 <= s /\ ((s =? cur1) && nc = false).
  Proof.
    intros ae cur0 cur1 e ep nc t s H1 H0. unfold sched_sync2 in H1.
    destruct (negb (e_vals e)); [rewrite H0 in H1; discriminate|].
    destruct (cur_epoch c cur0 <? ae); [rewrite H0 in H1; discriminate|].
    destruct (sync_window c ae cur0 ep) as [[fe fs] ls].
    destruct (alookup (e_sync e) (fe / c_period c)) as [|v vs]; [rewrite H0 in H1; discriminate|].
    destruct (sync2_fold_new (fun slot => (slot =? cur1) && nc)
                (fun slot => {| j_name := JSync slot; j_time := sync_time c slot;
                                j_pay := map (fun v => (v, 0, 0)) (sort_by (fun v => v) (dedup (v :: vs))) |})
                (slot_range (if fs <? cur1 then cur1 else fs) ls) t s (fun x => eq_refl) H1 H0) as [Hin Hg].
    apply slot_range_in in Hin. destruct (fs <? cur1) eqn:E.
    - split; [lia | split; [lia | exact Hg]].
    - split; [lia | split; [lia | exact Hg]].
  Qed.

  (* ----- the calls that were waiting ----- *)
  Lemma late_new_due : forall cur1 e pd t n s,
    duty_slot n = Some s ->
    texists (late c cur1 e pd t) n = true -> texists t n = false -> due cur1 (pd_notcur pd) s = true.
  Proof.
    intros cur1 e pd t n s Hn H1 H0. destruct pd as [ep nc|ep nc|ae cur0 ep nc]; cbn [late pd_notcur] in *.
    - eapply sched_att_new_due; eassumption.
    - eapply sched_prop_new_due; eassumption.
    - destruct n as [x|x|x|x|x]; cbn in Hn; try discriminate; inversion Hn; subst x;
        try (unfold texists in H1, H0; rewrite sched_sync2_frame in H1 by (intros y E; discriminate);
             rewrite H1 in H0; discriminate).
      pose proof (sched_sync2_new ae cur0 cur1 e ep nc t s H1 H0) as H.
      destruct (sync_window c ae cur0 ep) as [[fe fs] ls]. destruct H as [_ [Hge Hnc]].
      unfold due. rewrite Hnc. cbn [negb andb]. rewrite andb_true_r.
      apply negb_true_iff. apply N.ltb_ge. exact Hge.
  Qed.

  Lemma late_fold_new_due : forall cur1 e ps t n s,
    duty_slot n = Some s ->
    texists (fold_left (fun t pd => late c cur1 e pd t) ps t) n = true -> texists t n = false ->
    exists pd, In pd ps /\ due cur1 (pd_notcur pd) s = true.
  Proof.
    intros cur1 e. induction ps as [|pd ps IH]; intros t n s Hn H1 H0; cbn [fold_left] in H1.
    - rewrite H0 in H1. discriminate.
    - destruct (texists (late c cur1 e pd t) n) eqn:E.
      + exists pd. split; [left; reflexivity | eapply late_new_due; eassumption].
      + destruct (IH _ n s Hn H1 E) as [pd' [Hin Hd]]. exists pd'. split; [right; exact Hin | exact Hd].
  Qed.

  Lemma finish_jobs : forall d sp,
    st_jobs (finish c d sp) =
    fold_left (fun t pd => late c (st_cur (fst sp) + dslots d) (st_env (fst sp)) pd t) (snd sp) (st_jobs (fst sp)).
  Proof. reflexivity. Qed.
  Lemma finish_cur : forall d sp, st_cur (finish c d sp) = st_cur (fst sp) + dslots d.
  Proof. reflexivity. Qed.

  (* The property's clause, for every state, operation and delay: an attestation / proposal job
     that exists after the operation but was not there when everything that does not wait for the
     late answer had been done -- i.e. a job set up when the answer arrived -- is for a slot that
     has not passed at the clock of that moment. *)
  Theorem slow_answer_no_past_job : forall d st o n s,
    duty_slot n = Some s ->
    texists (st_jobs (step_d shadowed c d st o)) n = true ->
    texists (st_jobs (fst (step_imm shadowed c d st o))) n = false ->
    st_cur (step_d shadowed c d st o) <= s.
  Proof.
    intros d st o n s Hn H1 H0. unfold step_d in *. rewrite finish_jobs in H1. rewrite finish_cur.
    destruct (late_fold_new_due _ _ _ _ _ _ Hn H1 H0) as [pd [_ Hd]].
    unfold due in Hd. apply andb_true_iff in Hd. destruct Hd as [Hd _]. lia.
  Qed.

  (* ----- a (re)start: every waiting call was told not to schedule the current slot ----- *)
  Definition all_notcur (ps : list pending) : Prop := Forall (fun pd => pd_notcur pd = true) ps.

  Lemma all_notcur_snoc : forall ps pd, all_notcur ps -> pd_notcur pd = true -> all_notcur (ps ++ [pd]).
  Proof. intros ps pd H1 H2. apply Forall_app. split; [exact H1 | constructor; [exact H2 | constructor]]. Qed.

  Lemma sched_att_d_notcur : forall d cur hv ds ep tp,
    all_notcur (snd tp) -> all_notcur (snd (sched_att_d c d cur hv ds ep true tp)).
  Proof.
    intros d cur hv ds ep tp H. unfold sched_att_d. destruct (negb hv); [exact H|].
    destruct (hits d RAtt ep); cbn [snd]; [apply all_notcur_snoc; [exact H | reflexivity] | exact H].
  Qed.
  Lemma sched_prop_d_notcur : forall d cur hv ds ep tp,
    all_notcur (snd tp) -> all_notcur (snd (sched_prop_d c d cur hv ds ep true tp)).
  Proof.
    intros d cur hv ds ep tp H. unfold sched_prop_d. destruct (negb hv); [exact H|].
    destruct (hits d RProp ep); cbn [snd]; [apply all_notcur_snoc; [exact H | reflexivity] | exact H].
  Qed.
  Lemma sched_sync_d_notcur : forall d ae cur e ep tp,
    all_notcur (snd tp) -> all_notcur (snd (sched_sync_d c d ae cur e ep true tp)).
  Proof.
    intros d ae cur e ep tp H. unfold sched_sync_d. destruct (negb (e_vals e)); [exact H|].
    destruct (cur_epoch c cur <? ae); [exact H|].
    destruct (sync_window c ae cur ep) as [[fe fs] ls].
    destruct (hits d RSync (fe / c_period c)); cbn [snd]; [apply all_notcur_snoc; [exact H | reflexivity] | exact H].
  Qed.

  Lemma start_d_notcur : forall d st, all_notcur (snd (start_d shadowed c d st)).
  Proof.
    intros d st. unfold start_d. destruct (altair_details shadowed c) as [handling ae]. cbn [snd].
    apply sched_att_d_notcur.
    destruct handling.
    - match goal with |- context [if ?b then _ else _] => destruct b end.
      + apply sched_sync_d_notcur, sched_sync_d_notcur, sched_att_d_notcur, sched_prop_d_notcur. constructor.
      + apply sched_sync_d_notcur, sched_att_d_notcur, sched_prop_d_notcur. constructor.
    - apply sched_att_d_notcur, sched_prop_d_notcur. constructor.
  Qed.

  (* "when started or restarted it schedules only strictly later slots", late answers included *)
  Theorem slow_answer_restart_strictly_later : forall d st n s,
    duty_slot n = Some s ->
    texists (st_jobs (step_d shadowed c d st Start)) n = true ->
    texists (st_jobs (fst (step_imm shadowed c d st Start))) n = false ->
    st_cur (step_d shadowed c d st Start) < s.
  Proof.
    intros d st n s Hn H1 H0. unfold step_d in *. rewrite finish_jobs in H1. rewrite finish_cur.
    destruct (late_fold_new_due _ _ _ _ _ _ Hn H1 H0) as [pd [Hin Hd]].
    pose proof (start_d_notcur d st) as Hall. cbn [step_imm] in Hin.
    unfold all_notcur in Hall. rewrite Forall_forall in Hall. rewrite (Hall pd Hin) in Hd.
    unfold due in Hd. lia.
  Qed.

  (* ----- no late answer: the operations of Model/C03_Controller.v ----- *)
  Lemma sched_att_d_none : forall cur hv ds ep nc tp,
    sched_att_d c None cur hv ds ep nc tp = (sched_att c cur hv ds ep nc (fst tp), snd tp).
  Proof.
    intros cur hv ds ep nc [t ps]. unfold sched_att_d, sched_att. cbn [hits fst snd].
    destruct (negb hv); reflexivity.
  Qed.
  Lemma sched_prop_d_none : forall cur hv ds ep nc tp,
    sched_prop_d c None cur hv ds ep nc tp = (sched_prop c cur hv ds ep nc (fst tp), snd tp).
  Proof.
    intros cur hv ds ep nc [t ps]. unfold sched_prop_d, sched_prop. cbn [hits fst snd].
    destruct (negb hv); reflexivity.
  Qed.
  Lemma sched_sync_d_none : forall ae cur e ep nc tp,
    sched_sync_d c None ae cur e ep nc tp = (sched_sync c ae cur e ep nc (fst tp), snd tp).
  Proof.
    intros ae cur e ep nc [t ps]. unfold sched_sync_d, sched_sync. cbn [hits fst snd].
    destruct (negb (e_vals e)); [reflexivity|].
    destruct (cur_epoch c cur <? ae); [reflexivity|].
    destruct (sync_window c ae cur ep) as [[fe fs] ls]. reflexivity.
  Qed.
  Lemma refresh_att_d_none : forall cur e ep tp,
    refresh_att_d c None cur e ep tp = (refresh_att c cur e ep (fst tp), snd tp).
  Proof.
    intros cur e ep [t ps]. unfold refresh_att_d, refresh_att. cbn [fst snd].
    destruct (texists t (JPrep ep)); [reflexivity|]. rewrite sched_att_d_none. reflexivity.
  Qed.
  Lemma refresh_prop_d_none : forall cur e ep tp,
    refresh_prop_d c None cur e ep tp = (refresh_prop c cur e ep (fst tp), snd tp).
  Proof.
    intros cur e ep [t ps]. unfold refresh_prop_d, refresh_prop. cbn [fst snd].
    rewrite sched_prop_d_none. reflexivity.
  Qed.
  Lemma refresh_sync_d_none : forall h ae cur e ep tp,
    refresh_sync_d c None h ae cur e ep tp = (refresh_sync c h ae cur e ep (fst tp), snd tp).
  Proof.
    intros h ae cur e ep [t ps]. unfold refresh_sync_d, refresh_sync. cbn [fst snd].
    destruct (negb h); [reflexivity|].
    destruct (negb (e_vals e)); [reflexivity|]. rewrite sched_sync_d_none. reflexivity.
  Qed.

  Lemma on_prev_changed_d_none : forall st ps,
    on_prev_changed_d c None (st, ps) = (on_prev_changed c st, ps).
  Proof.
    intros st ps. unfold on_prev_changed_d, on_prev_changed, with_tps. cbn [fst snd].
    rewrite refresh_att_d_none. reflexivity.
  Qed.
  Lemma on_cur_changed_d_none : forall st ps,
    on_cur_changed_d c None (st, ps) = (on_cur_changed c st, ps).
  Proof.
    intros st ps. unfold on_cur_changed_d, on_cur_changed, with_tps. cbn [fst snd].
    rewrite refresh_prop_d_none. cbn [fst snd].
    destruct (cur_epoch c (st_cur st) mod c_period c =? 0).
    - rewrite refresh_sync_d_none. cbn [fst snd]. rewrite refresh_att_d_none. reflexivity.
    - rewrite refresh_att_d_none. reflexivity.
  Qed.

  Lemma head_event_d_none : forall st s pr cr,
    head_event_d c None st s pr cr = (head_event c st s pr cr, []).
  Proof.
    intros st s pr cr. unfold head_event_d, head_event.
    destruct (negb (s =? st_cur st)); [reflexivity|].
    destruct (reorg_decide _ _ _ _ _ _) as [dp dc].
    destruct dp, dc; rewrite ?on_prev_changed_d_none, ?on_cur_changed_d_none;
      destruct (c_ft_att c); reflexivity.
  Qed.

  Lemma handle_altair_fork_epoch_d_none : forall st tp,
    handle_altair_fork_epoch_d c None st tp = (handle_altair_fork_epoch c st (fst tp), snd tp).
  Proof.
    intros st [t ps]. unfold handle_altair_fork_epoch_d, handle_altair_fork_epoch. cbv zeta. cbn [fst snd].
    destruct (negb (st_altair st)); [reflexivity|].
    rewrite !sched_sync_d_none. cbn [fst snd].
    destruct (sub64 (mul64 (add64 (st_altair_epoch st / c_period c) 1) (c_period c)) (st_altair_epoch st) <=? 5);
      reflexivity.
  Qed.

  Lemma epoch_tick_d_none : forall st, epoch_tick_d c None st = (epoch_tick c st, []).
  Proof.
    intros st. unfold epoch_tick_d, epoch_tick.
    destruct (Z.of_N (cur_epoch c (st_cur st)) <=? st_tick st)%Z; [reflexivity|].
    rewrite sched_prop_d_none. cbn [fst snd].
    destruct (st_altair st); [|reflexivity].
    destruct (cur_epoch c (st_cur st) =? st_altair_epoch st);
      rewrite ?handle_altair_fork_epoch_d_none; cbn [fst snd];
      (match goal with |- context [if ?b then _ else _] => destruct b end;
       rewrite ?sched_sync_d_none; reflexivity).
  Qed.

  Lemma prepare_for_epoch_d_none : forall st ep,
    prepare_for_epoch_d c None st ep = (prepare_for_epoch c st ep, []).
  Proof.
    intros st ep. unfold prepare_for_epoch_d, prepare_for_epoch, with_tps.
    rewrite sched_att_d_none. reflexivity.
  Qed.

  Lemma start_d_none : forall st, start_d shadowed c None st = (start shadowed c st, []).
  Proof.
    intros st. unfold start_d, start. destruct (altair_details shadowed c) as [handling ae]. cbv zeta.
    rewrite !sched_prop_d_none. cbn [fst snd]. rewrite !sched_att_d_none. cbn [fst snd].
    destruct handling.
    - rewrite !sched_sync_d_none. cbn [fst snd].
      destruct (sub64 (feosp c ae (cur_epoch c (st_cur st) / c_period c + 1)) (cur_epoch c (st_cur st)) <=? 5).
      + rewrite ?sched_sync_d_none. cbn [fst snd]. rewrite ?sched_att_d_none. reflexivity.
      + rewrite ?sched_att_d_none. reflexivity.
    - rewrite ?sched_att_d_none. reflexivity.
  Qed.

  Lemma fire_d_none : forall st n h, fire_d c None st n h = (fire c st n h, []).
  Proof.
    intros st n h. unfold fire_d, fire. destruct (tget (st_jobs st) n) eqn:E; [|reflexivity].
    destruct n; try (unfold fire; rewrite E; reflexivity); try reflexivity.
    apply prepare_for_epoch_d_none.
  Qed.

  Lemma finish_none : forall st, finish c None (st, []) = st.
  Proof.
    intros st. unfold finish. cbn [fst snd fold_left dslots]. rewrite N.add_0_r.
    destruct st; reflexivity.
  Qed.

  Theorem step_d_none : forall st o, step_d shadowed c None st o = step shadowed c st o.
  Proof.
    intros st o. unfold step_d.
    destruct o; cbn [step_imm step];
      rewrite ?start_d_none, ?epoch_tick_d_none, ?head_event_d_none, ?fire_d_none,
              ?sched_att_d_none, ?sched_prop_d_none, ?sched_sync_d_none,
              ?refresh_att_d_none, ?refresh_prop_d_none, ?refresh_sync_d_none;
      unfold with_tps; cbn [fst snd]; apply finish_none.
  Qed.

  Theorem run_d_none : forall ops st,
    run_d shadowed c st (map (fun o => (o, None)) ops) = run shadowed c st ops.
  Proof.
    induction ops as [|o ops IH]; intro st; [reflexivity|].
    cbn [map]. unfold run_d, run in *. cbn [fold_left fst snd]. rewrite step_d_none. apply IH.
  Qed.
End DelayProofs.
