(* C16 — sessions (Model/C16_Sessions.v): one cache service over scripted block answers and head
   events; one dynamic graffiti provider over scripted fetches. *)
From Verif Require Import Lib.Base Model.C16_Paths Model.C16_Sessions Proofs.C16 Proofs.C16_Bytes.
From Coq Require Import ZifyBool ZifyN ZifyNat.

Local Open Scope N_scope.

Lemma next_of_forallb {A} (P : A -> bool) (d : A) (s : list A) :
  P d = true -> forallb P s = true ->
  P (fst (next_of d s)) = true /\ forallb P (snd (next_of d s)) = true.
Proof.
  intros Hd Hs. destruct s as [|a [|b s']]; cbn in *.
  - split; [exact Hd | reflexivity].
  - split; [apply andb_true_iff in Hs as [H _]; exact H | exact Hs].
  - apply andb_true_iff in Hs as [Ha Hs]. split; [exact Ha | exact Hs].
Qed.

Lemma next_of_incl {A} (d : A) (s : list A) :
  (fst (next_of d s) = d \/ In (fst (next_of d s)) s) /\ incl (snd (next_of d s)) s.
Proof.
  destruct s as [|a [|b s']]; cbn.
  - split; [left; reflexivity | apply incl_refl].
  - split; [right; left; reflexivity | apply incl_refl].
  - split; [right; left; reflexivity | apply incl_tl, incl_refl].
Qed.

(* ------------------------------------------------------------------------------------------- *)
(* Path 6 *)

Lemma update_head_wf_value : forall b, decoder_wf b = true ->
  update_head false b = Ok (if block_moves b then Some (bk_exec b) else None).
Proof.
  intros b Hwf. unfold update_head, decoder_wf, payload_update, block_moves in *.
  destruct (bk_version b =? 1) eqn:E1; [apply N.eqb_eq in E1; rewrite E1; reflexivity|].
  destruct (bk_version b =? 2) eqn:E2; [apply N.eqb_eq in E2; rewrite E2; reflexivity|].
  cbn [orb].
  destruct (bk_version b =? 3) eqn:E3.
  { apply N.eqb_eq in E3. rewrite E3 in *. cbn in Hwf |- *. rewrite Hwf.
    destruct (bk_payload b), (bk_state_zero b); reflexivity. }
  destruct (bk_version b =? 4) eqn:E4.
  { apply N.eqb_eq in E4. rewrite E4 in *. cbn in Hwf |- *. rewrite Hwf.
    destruct (bk_payload b), (bk_state_zero b); reflexivity. }
  destruct (bk_version b =? 5) eqn:E5.
  { apply N.eqb_eq in E5. rewrite E5 in *. cbn in Hwf |- *. rewrite Hwf.
    destruct (bk_payload b), (bk_state_zero b); reflexivity. }
  cbn [orb].
  destruct ((3 <=? bk_version b) && (bk_version b <=? 5)) eqn:E; [exfalso; lia | reflexivity].
Qed.

Lemma apply_answer_wf_value : forall cur a, answer_wf a = true ->
  apply_answer false cur a = Ok (head_after cur a).
Proof.
  intros cur [| | |b] Hwf; try discriminate; [reflexivity|].
  cbn in Hwf. cbn [apply_answer head_after]. rewrite (update_head_wf_value b Hwf).
  destruct (block_moves b); reflexivity.
Qed.

Lemma head_events_wf : forall evs cur script, forallb answer_wf script = true ->
  head_events false cur script evs = map Ok (head_trace cur script evs).
Proof.
  induction evs as [|ev evs IH]; intros cur script Hwf; [reflexivity|].
  destruct ev; cbn [head_events head_trace map].
  - rewrite (IH cur script Hwf). reflexivity.
  - destruct (next_of_forallb answer_wf BAErr script eq_refl Hwf) as [Ha Hs].
    unfold next_answer in *. rewrite (apply_answer_wf_value cur _ Ha). rewrite (IH _ _ Hs). reflexivity.
Qed.

Lemma head_session_wf : forall script evs, forallb answer_wf script = true ->
  head_session_now script evs = map Ok (head_trace None script (EvHead :: evs)).
Proof.
  intros script evs Hwf. unfold head_session_now, head_session. cbn [head_trace map].
  destruct (next_of_forallb answer_wf BAErr script eq_refl Hwf) as [Ha Hs].
  unfold next_answer in *. rewrite (apply_answer_wf_value None _ Ha). rewrite (head_events_wf _ _ _ Hs). reflexivity.
Qed.

Lemma head_trace_length : forall evs cur script, length (head_trace cur script evs) = length evs.
Proof.
  induction evs as [|[|] evs IH]; intros cur script; cbn; [reflexivity| |]; rewrite IH; reflexivity.
Qed.

Lemma head_session_no_panic : forall script evs, forallb answer_wf script = true ->
  length (head_session_now script evs) = S (length evs) /\
  forall o, In o (head_session_now script evs) -> exists r, o = Ok r.
Proof.
  intros script evs Hwf. rewrite (head_session_wf script evs Hwf). split.
  - rewrite map_length, head_trace_length. reflexivity.
  - intros o Hin. apply in_map_iff in Hin as (r & <- & _). exists r. reflexivity.
Qed.

(* the head is only ever empty or the payload of a block the node served *)
Definition served (H : list N) (r : option N) : Prop := r = None \/ exists x, r = Some x /\ In x H.

Lemma head_after_served : forall H cur a, served H cur ->
  (forall x, In x (script_heads [a]) -> In x H) -> served H (head_after cur a).
Proof.
  intros H cur a Hc Ha. destruct a as [| | |b]; cbn [head_after]; try exact Hc.
  destruct (block_moves b) eqn:E; [|exact Hc].
  right. exists (bk_exec b). split; [reflexivity|]. apply Ha. cbn. rewrite E. left. reflexivity.
Qed.

Lemma script_heads_in : forall a script x, In a script -> In x (script_heads [a]) -> In x (script_heads script).
Proof.
  intros a script x Hin Hx. unfold script_heads in *. apply in_flat_map. exists a. split; [exact Hin|].
  cbn in Hx. rewrite app_nil_r in Hx. exact Hx.
Qed.

Lemma head_trace_served : forall H evs cur script, served H cur ->
  (forall x, In x (script_heads script) -> In x H) ->
  Forall (served H) (head_trace cur script evs).
Proof.
  intros H. induction evs as [|ev evs IH]; intros cur script Hc Hs; [constructor|].
  destruct ev; cbn [head_trace].
  - constructor; [exact Hc | apply IH; assumption].
  - destruct (next_of_incl BAErr script) as [Hf Hincl]. unfold next_answer.
    assert (Hc' : served H (head_after cur (fst (next_of BAErr script)))).
    { apply head_after_served; [exact Hc|]. intros x Hx. destruct Hf as [Hf|Hf].
      - rewrite Hf in Hx. destruct Hx.
      - apply Hs. eapply script_heads_in; eassumption. }
    constructor; [exact Hc'|]. apply IH; [exact Hc'|].
    intros x Hx. apply Hs. unfold script_heads in *. apply in_flat_map in Hx as (a & Ha & Hx).
    apply in_flat_map. exists a. split; [apply Hincl; exact Ha | exact Hx].
Qed.

Lemma head_session_served : forall script evs,
  Forall (served (script_heads script)) (head_trace None script (EvHead :: evs)).
Proof.
  intros script evs. apply head_trace_served; [left; reflexivity | auto].
Qed.

(* a node that fails every fetch: the head never moves and nothing else happens *)
Lemma head_trace_all_fail : forall evs script,
  forallb (fun a => match a with BAErr => true | _ => false end) script = true ->
  Forall (eq None) (head_trace None script evs).
Proof.
  induction evs as [|ev evs IH]; intros script Hs; [constructor|].
  destruct ev; cbn [head_trace].
  - constructor; [reflexivity | apply IH; exact Hs].
  - destruct (next_of_forallb (fun a => match a with BAErr => true | _ => false end) BAErr script eq_refl Hs) as [Ha Hs'].
    unfold next_answer. destruct (fst (next_of BAErr script)); try discriminate. cbn [head_after].
    constructor; [reflexivity | apply IH; exact Hs'].
Qed.

(* an error-free answer without a response or without data takes the process down, at the
   constructor or at whichever event meets it *)
Lemma head_nil_answer_panics : forall a s cur evs g,
  a = BANilResponse \/ a = BANilData ->
  head_session g (a :: s) evs = [Panic] /\ head_events g cur (a :: s) (EvHead :: evs) = [Panic].
Proof.
  intros a s cur evs g [-> | ->]; destruct s; split; reflexivity.
Qed.

(* ------------------------------------------------------------------------------------------- *)
(* Path 8 *)

Lemma dynamic_session_no_panic : forall calls ps fs,
  length (dynamic_session calls ps fs) = calls /\
  forall o, In o (dynamic_session calls ps fs) -> o <> Panic.
Proof.
  induction calls as [|k IH]; intros ps fs; [split; [reflexivity | intros o []]|].
  cbn [dynamic_session].
  destruct (fst (next_fetch ps)) as [d| |] eqn:Ep; destruct fs as [fl|];
    match goal with
    | |- length (?x :: dynamic_session k ?a ?b) = _ /\ _ =>
        destruct (IH a b) as [Hl Hp]; split; [cbn; rewrite Hl; reflexivity|];
        intros o [<-|Hin]; [apply dynamic_no_panic | apply Hp; exact Hin]
    end.
Qed.

(* ------------------------------------------------------------------------------------------- *)
(* Path 1 *)

Lemma propose_seq_no_panic : forall ops, Forall delivered ops ->
  propose_seq_now ops = map (fun i => (false, fst (propose_now i))) ops.
Proof.
  induction ops as [|i ops IH]; intros Hd; [reflexivity|].
  inversion Hd as [|? ? Hi Hrest]; subst.
  unfold propose_seq_now in *. cbn [propose_seq map].
  pose proof (propose_no_panic i Hi) as Hp. unfold propose_now in *. rewrite Hp.
  rewrite (IH Hrest). reflexivity.
Qed.
