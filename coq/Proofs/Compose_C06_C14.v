(* C06 and C14 (beacon committee subscriptions, aggregation jobs): what can be said although
   Model/C14_Subscriptions.v has NO signing request.

   In C14's model the slot-selection signature of a duty is an input: [d_sig] is an identifier of the
   96 bytes, [d_hash] their SHA-256, both supplied with the duty; the call
   SignSlotSelections(accounts, duty.Slot()) of AggregatorsAndSignatures appears only as the oracle
   [sign_ok slot].  So there is no request of C14 to hand to the signer model, and nothing in C14's
   theorems that could discharge a hypothesis of C06's.  What C14 does prove is that the triple
   (validator, slot, signature id) of a duty stays together from the duties answer to the stored
   subscription and to the aggregation job.  Hence the PARTIAL statement below: IF the identifiers of
   the duties denote what the signer returns for (that validator's account, that duty's slot) --
   the hypothesis [ids_are_signer_answers], which C14's model does not deliver and C06's
   [slot_selection_batch_signed] would, for a batch of one slot -- THEN the signature of every stored
   subscription and the selection proof carried by every new aggregation job is the
   specification's get_slot_signature of the job's own validator for the job's own slot, with the
   fork of that slot's epoch. *)
From Coq Require Import List NArith Bool.
From Verif Require Import Lib.Base Lib.Ssz Model.C06_Signer Proofs.C06 Proofs.C06_Spec.
From Verif Require Properties.C06.
From Verif Require Model.C14_Subscriptions Model.C14_Spec Properties.C14.
Import ListNotations.
Local Open Scope N_scope.

Module G := Verif.Model.C14_Subscriptions.
Module GS := Verif.Model.C14_Spec.

Section SlotSelections.
  Variable H : N -> N -> N.
  Variable sig : Type.
  Variable zero_sig : sig.
  Variable sign : N -> N -> sig.
  Variable c : chain.
  Variable acct : N -> account.       (* validator index -> account *)
  Variable sigv : N -> sig.           (* what a signature identifier of C14 denotes *)

  Local Notation RUN := (run H sig zero_sig (spec_provider H c) (honest H sig sign) (spec_service c)).
  Local Notation exp := (expected sig zero_sig sign).

  (* get_slot_signature(state, slot, privkey): DOMAIN_SELECTION_PROOF at compute_epoch_at_slot(slot),
     object = the slot *)
  Definition slot_signature (v slot : N) : sig :=
    exp (acct v) (compute_signing_root H (u64_chunk slot)
                    (get_domain H c DOMAIN_SELECTION_PROOF (compute_epoch_at_slot c slot))).

  (* C06 alone: a batch for the validators of any duties, at any slot *)
  Lemma slot_selection_batch_signed (ds : list G.duty) (slot : N) (sigs : list sig) :
    RUN (ReqSlotSelections (map (fun d => acct (G.d_val d)) ds) slot) = Ok sigs ->
    sigs = map (fun d => slot_signature (G.d_val d) slot) ds.
  Proof.
    intro Hrun.
    rewrite (Properties.C06.C06_slot_selection_is_spec_root H sig zero_sig sign c _ slot sigs Hrun), map_map.
    reflexivity.
  Qed.

  (* the link that C14's model leaves open *)
  Definition ids_are_signer_answers (sign_ok : N -> bool) (duties : list G.duty) : Prop :=
    forall d, In d duties -> sign_ok (G.d_slot d) = true ->
      sigv (G.d_sig d) = slot_signature (G.d_val d) (G.d_slot d).

  (* ... is what C06 gives when the identifiers of a slot's duties are read off the signer's answer
     to one batch for that slot *)
  Lemma batch_answer_gives_ids (ds : list G.duty) (slot : N) (sigs : list sig) :
    (forall d, In d ds -> G.d_slot d = slot) ->
    RUN (ReqSlotSelections (map (fun d => acct (G.d_val d)) ds) slot) = Ok sigs ->
    map (fun d => sigv (G.d_sig d)) ds = sigs ->
    forall d, In d ds -> sigv (G.d_sig d) = slot_signature (G.d_val d) (G.d_slot d).
  Proof.
    intros Hslot Hrun Hids d Hd.
    rewrite (slot_selection_batch_signed ds slot sigs Hrun) in Hids.
    rewrite (Hslot d Hd).
    revert d Hd. clear Hslot Hrun. induction ds as [|d0 ds IH]; intros d Hd; [destruct Hd|].
    cbn [map] in Hids. injection Hids as H0 Hrest. destruct Hd as [<-|Hd]; [exact H0 | exact (IH Hrest d Hd)].
  Qed.

  Lemma stored_subscriptions_carry_slot_signature target sign_ok duties :
    ids_are_signer_answers sign_ok duties ->
    forall e, In e (G.subscription_info target sign_ok duties) ->
      sigv (G.s_sig e) = slot_signature (G.s_val e) (G.s_slot e).
  Proof.
    intros Hids e He.
    destruct (Properties.C14.C14_stored_info_one_entry_per_pair target sign_ok duties) as [_ [_ Hent]].
    destruct (Hent e He) as [d [[Hd [Hs [_ Hok]]] ->]].
    cbn [G.mk_sub G.s_sig G.s_val G.s_slot]. apply Hids; [exact Hd | rewrite Hs; exact Hok].
  Qed.

  Lemma new_jobs_carry_slot_signature target sign_ok duties pr cur acct_ok jobs atts :
    ids_are_signer_answers sign_ok duties ->
    NoDup (map GS.jkey jobs) ->
    forall j, In j (G.attest_run pr (G.subscription_info target sign_ok duties) cur acct_ok jobs atts) ->
      ~ In j jobs ->
      G.j_dslot j = G.j_slot j
      /\ sigv (G.j_sig j) = slot_signature (G.j_val j) (G.j_dslot j).
  Proof.
    intros Hids Hnd j Hj Hnew.
    destruct (Properties.C14.C14_attest_schedules_every_recorded_aggregator pr
                (G.subscription_info target sign_ok duties) cur acct_ok jobs atts Hnd) as [_ [_ [_ Hn]]].
    destruct (Hn j Hj Hnew) as [a [e [_ [Hf [_ [_ [_ ->]]]]]]].
    unfold G.find_sub in Hf. apply find_some in Hf as [He Hk].
    unfold G.sub_key_eqb in Hk. apply andb_true_iff in Hk as [Hk _]. apply N.eqb_eq in Hk.
    cbn [G.mk_job G.j_dslot G.j_slot G.j_sig G.j_val]. split; [exact Hk|].
    exact (stored_subscriptions_carry_slot_signature target sign_ok duties Hids e He).
  Qed.
End SlotSelections.
