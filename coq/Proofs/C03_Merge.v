(* C03 — MergeDuties yields well-formed per-slot duties: parallel arrays of equal length, one
   duty per slot in ascending slot order, exactly the reported (validator, committee, position)
   entries, and a committee size for every committee named. *)
From Verif Require Import Lib.Base Model.C03_ChainTime Model.C03_Controller Model.C03_Spec Proofs.C03_Table.
From Coq Require Import ZifyBool ZifyN ZifyNat Permutation Sorted.
Open Scope N_scope.

Lemma combine_snoc {A B} : forall (l1 : list A) (l2 : list B) a b,
  length l1 = length l2 -> combine (l1 ++ [a]) (l2 ++ [b]) = combine l1 l2 ++ [(a, b)].
Proof.
  induction l1 as [|x l1 IH]; destruct l2 as [|y l2]; cbn; intros a b H; try discriminate; [reflexivity|].
  f_equal. apply IH. lia.
Qed.

Lemma combine_length_eq {A B} : forall (l1 : list A) (l2 : list B), length l1 = length l2 -> length (combine l1 l2) = length l1.
Proof. intros l1 l2 H. rewrite combine_length. lia. Qed.

Lemma merge_insert_slots : forall d acc x,
  In x (map md_slot (merge_insert d acc)) -> x = fd_slot d \/ In x (map md_slot acc).
Proof.
  induction acc as [|m acc IH]; cbn; intros x H.
  - destruct H as [H|[]]. left. symmetry. exact H.
  - destruct (md_slot m =? fd_slot d) eqn:E1; cbn in H.
    + right. exact H.
    + destruct (fd_slot d <? md_slot m) eqn:E2; cbn in H.
      * destruct H as [H|H]; [left; symmetry; exact H | right; exact H].
      * destruct H as [H|H]; [right; left; exact H|].
        destruct (IH x H) as [H'|H']; [left; exact H' | right; right; exact H'].
Qed.

Lemma merge_insert_sorted : forall d acc,
  StronglySorted N.lt (map md_slot acc) -> StronglySorted N.lt (map md_slot (merge_insert d acc)).
Proof.
  induction acc as [|m acc IH]; cbn; intro H.
  - constructor; [constructor | constructor].
  - inversion H as [|? ? Hs Hf]; subst.
    destruct (md_slot m =? fd_slot d) eqn:E1; cbn.
    + constructor; assumption.
    + destruct (fd_slot d <? md_slot m) eqn:E2; cbn.
      * constructor; [exact H|]. constructor; [lia|].
        eapply Forall_impl; [|exact Hf]. cbn. intros a Ha. lia.
      * constructor; [apply IH; exact Hs|].
        apply Forall_forall. intros x Hx. apply merge_insert_slots in Hx.
        destruct Hx as [->|Hx]; [lia|]. rewrite Forall_forall in Hf. apply Hf. exact Hx.
Qed.

Lemma merge_insert_wf : forall d acc, Forall wf_m acc -> Forall wf_m (merge_insert d acc).
Proof.
  induction acc as [|m acc IH]; cbn; intro H.
  - constructor; [|constructor]. unfold wf_m; cbn. repeat split; discriminate.
  - inversion H as [|? ? Hm Hacc]; subst.
    destruct (md_slot m =? fd_slot d) eqn:E1.
    + constructor; [|exact Hacc]. destruct Hm as [H1 [H2 [H3 H4]]]. unfold wf_m; cbn.
      rewrite !app_length, map_app, H4. cbn. repeat split; try lia.
      intro E. apply app_eq_nil in E. destruct E as [_ E]. discriminate.
    + destruct (fd_slot d <? md_slot m) eqn:E2.
      * constructor; [|exact H]. unfold wf_m; cbn. repeat split; discriminate.
      * constructor; [exact Hm | apply IH; exact Hacc].
Qed.

Lemma flat_cons : forall m acc, flat (m :: acc) = map (fun t => (md_slot m, t)) (tuples m) ++ flat acc.
Proof. reflexivity. Qed.

Lemma merge_insert_flat : forall d acc, Forall wf_m acc -> Permutation (flat (merge_insert d acc)) (entry d :: flat acc).
Proof.
  induction acc as [|m acc IH]; cbn [merge_insert]; intro H.
  - apply Permutation_refl.
  - inversion H as [|? ? Hm Hacc]; subst.
    destruct (md_slot m =? fd_slot d) eqn:E1.
    + apply N.eqb_eq in E1. destruct Hm as [H1 [H2 [H3 H4]]].
      rewrite !flat_cons. unfold tuples at 1. cbn [md_vals md_comms md_vcis md_slot].
      rewrite combine_snoc by exact H1.
      rewrite combine_snoc by (rewrite combine_length_eq by exact H1; exact H2).
      fold (tuples m). rewrite map_app. cbn [map].
      unfold entry. rewrite <- E1. rewrite <- app_assoc. cbn [app].
      apply Permutation_sym. apply Permutation_middle.
    + destruct (fd_slot d <? md_slot m) eqn:E2.
      * apply Permutation_refl.
      * rewrite !flat_cons.
        eapply Permutation_trans; [apply Permutation_app_head; apply IH; exact Hacc|].
        apply Permutation_sym. apply Permutation_middle.
Qed.

Lemma merge_fold : forall L acc,
  Forall wf_m acc -> StronglySorted N.lt (map md_slot acc) ->
  let out := fold_left (fun acc d => merge_insert d acc) L acc in
  Forall wf_m out /\ StronglySorted N.lt (map md_slot out) /\ Permutation (flat out) (map entry L ++ flat acc).
Proof.
  induction L as [|d L IH]; intros acc Hw Hs; cbn.
  - repeat split; [exact Hw | exact Hs | apply Permutation_refl].
  - destruct (IH (merge_insert d acc) (merge_insert_wf d acc Hw) (merge_insert_sorted d acc Hs)) as [A [B C]].
    repeat split; [exact A | exact B|].
    eapply Permutation_trans; [exact C|].
    eapply Permutation_trans; [apply Permutation_app_head; apply merge_insert_flat; exact Hw|].
    apply Permutation_sym. apply Permutation_middle.
Qed.

Lemma clen_lookup_in : forall l cm, In cm (map fst l) -> clen_lookup l cm <> None.
Proof.
  induction l as [|[k v] l IH]; cbn; intros cm H; [destruct H|].
  destruct (clen_lookup l cm) eqn:E; [discriminate|].
  destruct H as [H|H]; [subst k; rewrite N.eqb_refl; discriminate|].
  exfalso. apply (IH cm H). exact E.
Qed.

Theorem merge_duties_wf : forall ds,
  let out := merge_duties ds in
  Forall wf_m out /\
  StronglySorted N.lt (map md_slot out) /\
  Permutation (flat out) (map entry ds) /\
  (forall m cm, In m out -> In cm (md_comms m) -> clen_lookup (md_clens m) cm <> None).
Proof.
  intros ds. cbv zeta. unfold merge_duties.
  destruct (merge_fold (sort_by fd_key ds) [] (Forall_nil _) (SSorted_nil _)) as [A [B C]].
  repeat split; [exact A | exact B | |].
  - eapply Permutation_trans; [exact C|]. cbn. rewrite app_nil_r.
    apply Permutation_map. apply sort_by_perm.
  - intros m cm Hm Hc. rewrite Forall_forall in A. destruct (A m Hm) as [_ [_ [_ H4]]].
    apply clen_lookup_in. rewrite H4. exact Hc.
Qed.

(* consequences in the words of the property: one duty per slot; the validators of a slot's duty
   are exactly those the node reported for that slot *)
Corollary merge_duties_one_per_slot : forall ds, NoDup (map md_slot (merge_duties ds)).
Proof.
  intros ds. destruct (merge_duties_wf ds) as [_ [B _]].
  induction B as [|a l Hs IH Hf]; [constructor|].
  constructor; [|exact IH]. intro Hin. rewrite Forall_forall in Hf. specialize (Hf a Hin). lia.
Qed.

Corollary merge_duties_covers : forall ds slot v cm vci,
  In (slot, (v, cm, vci)) (flat (merge_duties ds)) <->
  exists d, In d ds /\ fd_slot d = slot /\ fd_val d = v /\ fd_comm d = cm /\ fd_vci d = vci.
Proof.
  intros ds slot v cm vci. destruct (merge_duties_wf ds) as [_ [_ [C _]]]. split.
  - intro H. eapply Permutation_in in H; [|exact C]. apply in_map_iff in H.
    destruct H as [d [Hd Hin]]. unfold entry in Hd. injection Hd as <- <- <- <-.
    exists d. repeat split. exact Hin.
  - intros [d [Hin [<- [<- [<- <-]]]]]. eapply Permutation_in; [apply Permutation_sym; exact C|].
    apply in_map_iff. exists d. split; [reflexivity | exact Hin].
Qed.
