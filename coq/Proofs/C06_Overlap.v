(* C06: overlapping requests on one signer service (Model/C06_Signer.v, Section Overlap). *)
From Verif Require Import Lib.Base Lib.Ssz Model.C06_Signer Proofs.C06 Proofs.C06_Spec Proofs.C06_Flaky.

Section OverlapFacts.
  Variable H : N -> N -> N.
  Variable sig : Type.
  Variable zero_sig : sig.

  (* every request in flight read the service [Sv] *)
  Definition all_read (Sv : service) (fl : list (nat * service)) : Prop :=
    Forall (fun p => snd p = Sv) fl.

  Lemma all_read_in_flight Sv fl k Svk :
    all_read Sv fl -> in_flight k fl = Some Svk -> Svk = Sv.
  Proof.
    induction fl as [|[j Sj] r IH]; cbn [in_flight]; intros Hall Hk; [discriminate|].
    apply Forall_cons_iff in Hall. destruct Hall as [Hj Hr]. cbn [snd] in Hj.
    destruct (Nat.eqb j k); [injection Hk as <-; exact Hj | exact (IH Hr Hk)].
  Qed.

  Lemma all_read_land Sv fl k : all_read Sv fl -> all_read Sv (land k fl).
  Proof.
    induction fl as [|[j Sj] r IH]; cbn [land]; intro Hall; [exact Hall|].
    apply Forall_cons_iff in Hall. destruct Hall as [Hj Hr].
    destruct (Nat.eqb j k); [exact Hr | constructor; [exact Hj | exact (IH Hr)]].
  Qed.

  Lemma handle_env_snd Sv peq : snd (handle_env H sig zero_sig Sv peq) = Sv.
  Proof. reflexivity. Qed.

  (* whatever the events: an outcome reported for request k is the outcome of the k-th request made
     alone to the service as it was at the beginning *)
  Lemma run_overlapped_alone Sv qs evs :
    forall fl, all_read Sv fl ->
    forall k out, In (k, out) (run_overlapped H sig zero_sig Sv qs fl evs) ->
    exists P E q, nth_error qs k = Some (P, E, q) /\ out = run H sig zero_sig P E Sv q.
  Proof.
    induction evs as [|ev r IH]; intros fl Hall k out Hin; [destruct Hin|].
    destruct ev as [j|j]; cbn [run_overlapped] in Hin.
    - apply (IH ((j, Sv) :: fl)); [constructor; [reflexivity | exact Hall] | exact Hin].
    - destruct (in_flight j fl) as [Svj|] eqn:Hfl; [|exact (IH fl Hall k out Hin)].
      destruct (nth_error qs j) as [peq|] eqn:Hq; [|exact (IH fl Hall k out Hin)].
      pose proof (all_read_in_flight Sv fl j Svj Hall Hfl) as ->.
      cbn [handle_env snd] in Hin. destruct Hin as [Heq | Hin].
      + injection Heq as <- <-. destruct peq as [[P E] q]. exists P, E, q. split; [exact Hq | reflexivity].
      + exact (IH (land j fl) (all_read_land Sv fl j Hall) k out Hin).
  Qed.

  (* a request that is started and then finished (its number not in flight before) is answered *)
  Lemma run_overlapped_answers Sv qs k P E q :
    nth_error qs k = Some (P, E, q) ->
    forall evs1 evs2 fl, all_read Sv fl ->
      ~ In (EFinish k) evs1 ->
      In (k, run H sig zero_sig P E Sv q)
         (run_overlapped H sig zero_sig Sv qs fl (EStart k :: evs1 ++ EFinish k :: evs2)).
  Proof.
    intros Hq evs1 evs2 fl Hall Hno. cbn [run_overlapped].
    assert (Hgen : forall evs1 fl, all_read Sv fl -> in_flight k fl = Some Sv -> ~ In (EFinish k) evs1 ->
                   In (k, run H sig zero_sig P E Sv q) (run_overlapped H sig zero_sig Sv qs fl (evs1 ++ EFinish k :: evs2))).
    { clear evs1 fl Hall Hno. induction evs1 as [|ev r IH]; intros fl Hall Hk Hno.
      - cbn [app run_overlapped]. rewrite Hk, Hq. cbn [handle_env]. left. reflexivity.
      - cbn [app]. destruct ev as [j|j]; cbn [run_overlapped].
        + apply IH; [constructor; [reflexivity | exact Hall] | | intro Hc; apply Hno; right; exact Hc].
          cbn [in_flight]. destruct (Nat.eqb j k); [reflexivity | exact Hk].
        + assert (Hjk : j <> k) by (intro Hc; apply Hno; left; rewrite Hc; reflexivity).
          assert (Hr : ~ In (EFinish k) r) by (intro Hc; apply Hno; right; exact Hc).
          destruct (in_flight j fl) as [Svj|] eqn:Hfl; [|exact (IH fl Hall Hk Hr)].
          destruct (nth_error qs j) as [peq|] eqn:Hqj; [|exact (IH fl Hall Hk Hr)].
          cbn [handle_env snd]. right. apply IH; [exact (all_read_land Sv fl j Hall) | | exact Hr].
          clear - Hk Hjk. induction fl as [|[i Si] t IHt]; cbn [land in_flight] in *; [discriminate|].
          destruct (Nat.eqb i j) eqn:Eij.
          * destruct (Nat.eqb i k) eqn:Eik; [|exact Hk].
            apply Nat.eqb_eq in Eij, Eik. exfalso. apply Hjk. rewrite <- Eij, Eik. reflexivity.
          * cbn [in_flight]. destruct (Nat.eqb i k); [exact Hk | exact (IHt Hk)]. }
    apply Hgen; [constructor; [reflexivity | exact Hall] | | exact Hno].
    cbn [in_flight]. rewrite Nat.eqb_refl. reflexivity.
  Qed.

  (* events before the request is started only put other requests in flight *)
  Lemma run_overlapped_app Sv qs evs1 : forall fl evs2, all_read Sv fl ->
    exists outs1 fl', all_read Sv fl' /\
      run_overlapped H sig zero_sig Sv qs fl (evs1 ++ evs2) = outs1 ++ run_overlapped H sig zero_sig Sv qs fl' evs2.
  Proof.
    induction evs1 as [|ev r IH]; intros fl evs2 Hall.
    - exists [], fl. split; [exact Hall | reflexivity].
    - cbn [app]. destruct ev as [j|j]; cbn [run_overlapped].
      + apply IH. constructor; [reflexivity | exact Hall].
      + destruct (in_flight j fl) as [Svj|]; [|exact (IH fl evs2 Hall)].
        destruct (nth_error qs j) as [peq|]; [|exact (IH fl evs2 Hall)].
        cbn [handle_env snd].
        destruct (IH (land j fl) evs2 (all_read_land Sv fl j Hall)) as (o & fl' & Hfl' & Heq).
        eexists (_ :: o), fl'. split; [exact Hfl'|]. rewrite Heq. reflexivity.
  Qed.

  Lemma run_overlapped_answered Sv qs k P E q before between after :
    nth_error qs k = Some (P, E, q) ->
    ~ In (EFinish k) between ->
    exists outs1 outs2,
      run_overlapped H sig zero_sig Sv qs [] (before ++ EStart k :: between ++ EFinish k :: after)
      = outs1 ++ outs2 /\ In (k, run H sig zero_sig P E Sv q) outs2.
  Proof.
    intros Hq Hno.
    destruct (run_overlapped_app Sv qs before [] (EStart k :: between ++ EFinish k :: after) (Forall_nil _))
      as (o & fl' & Hfl' & Heq).
    exists o, (run_overlapped H sig zero_sig Sv qs fl' (EStart k :: between ++ EFinish k :: after)).
    split; [exact Heq|]. exact (run_overlapped_answers Sv qs k P E q Hq between after fl' Hfl' Hno).
  Qed.
End OverlapFacts.
