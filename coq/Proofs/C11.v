(* C11: lemmas about Model/C11_Registrations.v. *)
From Verif Require Import Lib.Base Model.C11_Registrations.
From Coq Require Import ZifyBool ZifyN ZifyNat Sorted.

(* ------------------------------------------------------------------------------------------- *)
(* Vocabulary used by the theorem statements. *)

(* the registration a successful signing request produces *)
Definition reg_of_req (q : sigreq) : sreg :=
  {| sr_content := q_content q; sr_stamp := q_stamp q; sr_sig := mk_sig (q_acct q) (q_content q) (q_stamp q) |}.

(* a successful request for public key p *)
Definition for_pub (p : N) (q : sigreq) : bool := q_ok q && (ct_pub (q_content q) =? p).

(* the last successful signing request for public key p in a log (oldest first) *)
Fixpoint last_ok (log : list sigreq) (p : N) : option sigreq :=
  match log with
  | [] => None
  | q :: log' =>
      match last_ok log' p with
      | Some q' => Some q'
      | None => if for_pub p q then Some q else None
      end
  end.

Definition reqs_of (x : out) : list sigreq :=
  match x with OutRound _ reqs _ _ => reqs | _ => [] end.

(* all signing requests of a list of outputs, in order *)
Definition all_reqs (outs : list out) : list sigreq := flat_map reqs_of outs.

(* registration sr reaches relay a *)
Definition mem_rm (m : relaymap) (a : N) (sr : sreg) : Prop := exists l, In (a, l) m /\ In sr l.

(* the times of the rounds of a history *)
Fixpoint nows (ops : list op) : list N :=
  match ops with
  | [] => []
  | ORound r :: ops' => r_now r :: nows ops'
  | _ :: ops' => nows ops'
  end.

(* rounds happen at strictly increasing (rounded) times *)
Definition increasing (ops : list op) : Prop := StronglySorted N.lt (nows ops).

(* every account of the history is the account of its public key *)
Definition vals_of (o : op) : list validator :=
  match o with ORound r => r_vals r | OForward _ => [] | OPrepare p => p_vals p end.

Definition accts_ok (acct_of : N -> N) (ops : list op) : Prop :=
  forall o v, In o ops -> In v (vals_of o) -> v_acct v = acct_of (v_pub v).

(* a round that does its work *)
Definition active (r : round_in) : bool :=
  if r_api r then r_cfg r
  else negb (r_acct_err r) && r_cfg r && match r_vals r with [] => false | _ => true end.

(* ------------------------------------------------------------------------------------------- *)
(* Basics. *)

Lemma content_eqb_spec : forall a b, content_eqb a b = true <-> a = b.
Proof.
  intros [f1 g1 p1] [f2 g2 p2]; unfold content_eqb; cbn.
  rewrite !andb_true_iff, !N.eqb_eq. split.
  - intros [[-> ->] ->]; reflexivity.
  - intro H; injection H as -> -> ->; auto.
Qed.

Lemma content_eqb_refl : forall c, content_eqb c c = true.
Proof. intro c; apply content_eqb_spec; reflexivity. Qed.

Lemma content_eqb_neq : forall a b, a <> b -> content_eqb a b = false.
Proof.
  intros a b H; destruct (content_eqb a b) eqn:E; auto.
  apply content_eqb_spec in E; contradiction.
Qed.

Lemma content_eqb_pub : forall a b, ct_pub a <> ct_pub b -> content_eqb a b = false.
Proof. intros a b H; apply content_eqb_neq; intro; subst; auto. Qed.

Lemma In_insert_by {A} (key : A -> N) (x y : A) (l : list A) :
  In y (insert_by key x l) <-> y = x \/ In y l.
Proof.
  induction l as [|z l IH]; cbn.
  - split; intros [H|H]; auto.
  - destruct (key x <=? key z); cbn.
    + split; intros [H|H]; auto.
    + rewrite IH. split; intros H; intuition.
Qed.

Lemma In_sort_by {A} (key : A -> N) (l : list A) (y : A) : In y (sort_by key l) <-> In y l.
Proof.
  induction l as [|x l IH]; cbn; [tauto|].
  unfold sort_by in *; cbn. rewrite In_insert_by, IH. split; intros [H|H]; auto.
Qed.

Lemma last_ok_app : forall log1 log2 p,
  last_ok (log1 ++ log2) p = match last_ok log2 p with Some q => Some q | None => last_ok log1 p end.
Proof.
  induction log1 as [|a log1 IH]; intros log2 p; cbn.
  - destruct (last_ok log2 p); reflexivity.
  - rewrite IH. destruct (last_ok log2 p); reflexivity.
Qed.

Lemma last_ok_some : forall log p q,
  last_ok log p = Some q -> In q log /\ q_ok q = true /\ ct_pub (q_content q) = p.
Proof.
  induction log as [|a log IH]; intros p q H; cbn in H; [discriminate|].
  destruct (last_ok log p) eqn:E.
  - injection H as <-. destruct (IH _ _ E) as [H1 H2]. split; [right|]; auto.
  - destruct (for_pub p a) eqn:F; [|discriminate]. injection H as <-.
    unfold for_pub in F. apply andb_true_iff in F as [F1 F2]. apply N.eqb_eq in F2.
    split; [left|]; auto.
Qed.

Lemma last_ok_none : forall log p q,
  last_ok log p = None -> In q log -> q_ok q = true -> ct_pub (q_content q) <> p.
Proof.
  induction log as [|a log IH]; intros p q H Hin Hok; cbn in H; [destruct Hin|].
  destruct (last_ok log p) eqn:E; [discriminate|].
  destruct (for_pub p a) eqn:F; [discriminate|].
  destruct Hin as [<-|Hin].
  - unfold for_pub in F. rewrite Hok in F; cbn in F. apply N.eqb_neq in F; exact F.
  - eapply IH; eauto.
Qed.

(* ------------------------------------------------------------------------------------------- *)
(* The cache invariant: for every public key, [latest] holds the content of the last successful
   signing request for that key and [signed] holds, under that content, the registration that
   request produced. *)

Definition J (st : state) (log : list sigreq) : Prop :=
  forall p, match last_ok log p with
            | None => get_latest (latest st) p = None
            | Some q => get_latest (latest st) p = Some (q_content q)
                        /\ get_signed (signed st) (q_content q) = Some (reg_of_req q)
            end.

Lemma J_init : J init [].
Proof. intro p; reflexivity. Qed.

Lemma cached_some : forall st log c sr,
  J st log -> cached st c = Some sr ->
  exists q, last_ok log (ct_pub c) = Some q /\ q_content q = c /\ sr = reg_of_req q.
Proof.
  unfold cached; intros st log c sr HJ H. specialize (HJ (ct_pub c)).
  destruct (get_signed (signed st) c) as [sr0|] eqn:E1; [|discriminate].
  destruct (get_latest (latest st) (ct_pub c)) as [c0|] eqn:E2; [|discriminate].
  destruct (content_eqb c0 c) eqn:E3; [|discriminate].
  injection H as ->. apply content_eqb_spec in E3; subst c0.
  destruct (last_ok log (ct_pub c)) as [q|].
  - destruct HJ as [H1 H2]. injection H1 as H1. exists q. split; [reflexivity|]. split; [auto|].
    rewrite <- H1 in H2. rewrite E1 in H2. injection H2 as ->. reflexivity.
  - discriminate.
Qed.

Definition opt_list {A} (o : option A) : list A := match o with Some x => [x] | None => [] end.

Lemma gen_relay_spec : forall st log now a c signs st' signs' orq osr,
  J st log -> gen_relay st now a c signs = (st', signs', orq, osr) ->
  J st' (log ++ opt_list orq)
  /\ (forall sr, osr = Some sr ->
        exists q, last_ok (log ++ opt_list orq) (ct_pub c) = Some q /\ q_content q = c /\ sr = reg_of_req q).
Proof.
  intros st log now a c signs st' signs' orq osr HJ H. unfold gen_relay in H.
  destruct (cached st c) as [sr0|] eqn:Ec.
  - injection H as <- <- <- <-. cbn. rewrite app_nil_r. split; [exact HJ|].
    intros sr Hsr; injection Hsr as <-. eapply cached_some; eauto.
  - destruct (hd true signs) eqn:Eok.
    + injection H as <- <- <- <-. cbn [opt_list]. split.
      * intro p. rewrite last_ok_app. cbn [last_ok]. unfold for_pub.
        cbn [q_ok q_content andb ct_pub latest signed]. unfold set_latest, set_signed.
        cbn [get_latest get_signed]. specialize (HJ p).
        destruct (N.eqb (ct_pub c) p) eqn:Ep.
        -- cbn [q_content reg_of_req q_acct q_stamp]. rewrite content_eqb_refl. split; reflexivity.
        -- destruct (last_ok log p) as [q|] eqn:El.
           ++ destruct HJ as [H1 H2]. split; [exact H1|].
              apply last_ok_some in El as [_ [_ El]].
              rewrite content_eqb_pub; [exact H2|]. rewrite El. apply N.eqb_neq in Ep; exact Ep.
           ++ exact HJ.
      * intros sr Hsr; injection Hsr as <-. rewrite last_ok_app. cbn [last_ok]. unfold for_pub; cbn.
        rewrite N.eqb_refl. eexists; split; [reflexivity|]. split; reflexivity.
    + injection H as <- <- <- <-. cbn [opt_list]. split; [|intros sr Hsr; discriminate].
      intro p. rewrite last_ok_app. cbn [last_ok]. unfold for_pub; cbn. apply HJ.
Qed.

(* unconditional facts about one generation step *)
Lemma gen_relay_shape : forall st now a c signs st' signs' orq osr,
  gen_relay st now a c signs = (st', signs', orq, osr) ->
  (forall rq, orq = Some rq -> q_acct rq = a /\ q_content rq = c /\ q_stamp rq = now)
  /\ (forall sr, osr = Some sr -> sr_content sr = c \/ cached st c = Some sr)
  /\ (osr = None -> exists rq, orq = Some rq /\ q_ok rq = false)
  /\ controlled st' = controlled st.
Proof.
  intros st now a c signs st' signs' orq osr H. unfold gen_relay in H.
  destruct (cached st c) as [sr0|] eqn:Ec.
  - injection H as <- <- <- <-. repeat split; try discriminate; auto;
      try (intros sr Hsr; injection Hsr as <-; auto).
  - destruct (hd true signs) eqn:Eok; injection H as <- <- <- <-;
      (repeat split; try discriminate; auto;
       try (intros rq Hrq; injection Hrq as <-; reflexivity);
       try (match goal with HH : Some _ = Some _ |- _ => injection HH as <-; reflexivity end);
       try (intros sr Hsr; injection Hsr as <-; left; reflexivity);
       try (intros _; eexists; split; reflexivity)).
Qed.

(* ------------------------------------------------------------------------------------------- *)
(* The relay map. *)

Lemma mem_add_reg : forall m addr sr a x,
  mem_rm (add_reg m addr sr) a x <-> mem_rm m a x \/ (a = addr /\ x = sr).
Proof.
  unfold mem_rm. induction m as [|[a0 l0] m IH]; intros addr sr a x; cbn [add_reg].
  - split.
    + intros [l [[H|[]] Hx]]. injection H as <- <-. destruct Hx as [<-|[]]. right; auto.
    + intros [[l [[] _]]|[-> ->]]. exists [sr]; split; left; reflexivity.
  - destruct (N.eqb a0 addr) eqn:E.
    + apply N.eqb_eq in E; subst a0. split.
      * intros [l [[H|H] Hx]].
        -- injection H as <- <-. apply in_app_iff in Hx as [Hx|[<-|[]]].
           ++ left; exists l0; split; [left; reflexivity|exact Hx].
           ++ right; auto.
        -- left; exists l; split; [right; exact H|exact Hx].
      * intros [[l [[H|H] Hx]]|[-> ->]].
        -- injection H as <- <-. exists (l0 ++ [sr]); split; [left; reflexivity|apply in_app_iff; left; exact Hx].
        -- exists l; split; [right; exact H|exact Hx].
        -- exists (l0 ++ [sr]); split; [left; reflexivity|apply in_app_iff; right; left; reflexivity].
    + split.
      * intros [l [[H|H] Hx]].
        -- left; exists l; split; [left; exact H|exact Hx].
        -- destruct (proj1 (IH addr sr a x) (ex_intro _ l (conj H Hx))) as [[l' [H1 H2]]|H'].
           ++ left; exists l'; split; [right; exact H1|exact H2].
           ++ right; exact H'.
      * intros [[l [[H|H] Hx]]|H'].
        -- exists l; split; [left; exact H|exact Hx].
        -- destruct (proj2 (IH addr sr a x) (or_introl (ex_intro _ l (conj H Hx)))) as [l' [H1 H2]].
           exists l'; split; [right; exact H1|exact H2].
        -- destruct (proj2 (IH addr sr a x) (or_intror H')) as [l' [H1 H2]].
           exists l'; split; [right; exact H1|exact H2].
Qed.

Lemma mem_relay_sends : forall ks m a sr,
  mem_rm (relay_sends ks m) a sr <-> mem_rm m a sr /\ reached (kind_of ks a) = true.
Proof.
  unfold mem_rm, relay_sends. intros ks m a sr. split.
  - intros [l [H Hx]]. apply filter_In in H as [H Hr]. apply In_sort_by in H. cbn in Hr.
    split; [exists l; auto|exact Hr].
  - intros [[l [H Hx]] Hr]. exists l; split; [|exact Hx].
    apply filter_In; split; [apply In_sort_by; exact H|exact Hr].
Qed.

Lemma In_node_sends {A B} : forall (nodes : list A) (l l' : list B),
  In (Some l') (node_sends nodes l) -> l' = l.
Proof.
  unfold node_sends. intros nodes l l' H. apply in_map_iff in H as [x [H _]].
  destruct l; [discriminate|]. injection H as <-. reflexivity.
Qed.

(* ------------------------------------------------------------------------------------------- *)
(* What the generation phase emits: every registration is the one produced by the last
   successful signing request for its public key at the moment it was emitted. *)

Definition Emitted (log0 reqs : list sigreq) (sr : sreg) : Prop :=
  exists r1 r2 q, reqs = r1 ++ r2 /\ last_ok (log0 ++ r1) (ct_pub (sr_content sr)) = Some q /\ sr = reg_of_req q.

Lemma Emitted_app : forall log0 reqs x sr, Emitted log0 reqs sr -> Emitted log0 (reqs ++ x) sr.
Proof.
  intros log0 reqs x sr [r1 [r2 [q [H1 [H2 H3]]]]]. exists r1, (r2 ++ x), q.
  split; [rewrite H1, app_assoc; reflexivity|auto].
Qed.

Section Round.
  Variables (log0 : list sigreq) (now : N) (vals : list validator).

  (* relay entry rc of validator v's resolved settings *)
  Definition src_rc (v : validator) (rc : rcfg) : Prop :=
    In v vals /\ exists res, v_res v = Some res /\ In rc (rs_relays res).

  Definition src_first (v : validator) (rc : rcfg) : Prop :=
    In v vals /\ exists res, v_res v = Some res /\ hd_error (rs_relays res) = Some rc.

  Record AI (ac : acc) : Prop := {
    ai_J : J (a_st ac) (log0 ++ a_reqs ac);
    ai_rel : forall a sr, mem_rm (a_relays ac) a sr ->
               Emitted log0 (a_reqs ac) sr
               /\ exists v rc, src_rc v rc /\ rc_addr rc = a /\ sr_content sr = content_of (v_pub v) rc;
    ai_cons : forall sr, In sr (a_cons ac) ->
               Emitted log0 (a_reqs ac) sr
               /\ exists v rc, src_first v rc /\ sr_content sr = content_of (v_pub v) rc;
    ai_reqs : forall q, In q (a_reqs ac) ->
               exists v rc, src_rc v rc /\ q_acct q = v_acct v /\ q_content q = content_of (v_pub v) rc
                            /\ q_stamp q = now
  }.

  Lemma AI_gen_relays : forall v res, In v vals -> v_res v = Some res ->
    forall rcs ac first signs,
    incl rcs (rs_relays res) -> (first = true -> rcs = rs_relays res) ->
    AI ac -> AI (gen_relays ac now (v_acct v) (v_pub v) rcs first signs).
  Proof.
    intros v res Hv Hres.
    induction rcs as [|rc rcs IH]; intros ac first signs Hincl Hfirst HA; cbn [gen_relays]; [exact HA|].
    destruct (gen_relay (a_st ac) now (v_acct v) (content_of (v_pub v) rc) signs) as [[[st1 signs1] orq] osr] eqn:E.
    apply IH; [intros x Hx; apply Hincl; right; exact Hx|discriminate|].
    destruct HA as [HJ Hrel Hcons Hrq].
    destruct (gen_relay_spec _ _ _ _ _ _ _ _ _ _ HJ E) as [HJ1 Hsr].
    destruct (gen_relay_shape _ _ _ _ _ _ _ _ _ E) as [Hshape _].
    assert (Hsrc : src_rc v rc).
    { split; [exact Hv|]. exists res; split; [exact Hres|]. apply Hincl; left; reflexivity. }
    assert (Hreqs : match orq with Some rq => a_reqs ac ++ [rq] | None => a_reqs ac end
                    = a_reqs ac ++ opt_list orq).
    { destruct orq; cbn; [reflexivity|rewrite app_nil_r; reflexivity]. }
    rewrite <- app_assoc in HJ1, Hsr.
    assert (Hnew : forall sr, osr = Some sr ->
                     Emitted log0 (a_reqs ac ++ opt_list orq) sr /\ sr_content sr = content_of (v_pub v) rc).
    { intros sr Hs. destruct (Hsr sr Hs) as [q [H1 [H2 H3]]]. split.
      - exists (a_reqs ac ++ opt_list orq), [], q. rewrite app_nil_r. split; [reflexivity|].
        split; [|exact H3]. subst sr. cbn [reg_of_req sr_content]. rewrite H2. exact H1.
      - subst sr. exact H2. }
    assert (Hrq' : forall q, In q (a_reqs ac ++ opt_list orq) ->
                     exists v rc, src_rc v rc /\ q_acct q = v_acct v /\ q_content q = content_of (v_pub v) rc
                                  /\ q_stamp q = now).
    { intros q Hq. apply in_app_iff in Hq as [Hq|Hq]; [auto|].
      destruct orq as [rq|]; [|destruct Hq]. destruct Hq as [<-|[]].
      destruct (Hshape rq eq_refl) as [H1 [H2 H3]]. exists v, rc. auto. }
    destruct osr as [sr|]; constructor; cbn [a_st a_reqs a_relays a_cons]; rewrite ?Hreqs; auto.
    - intros a' x Hm. apply mem_add_reg in Hm as [Hm|[-> ->]].
      + destruct (Hrel _ _ Hm) as [H1 H2]. split; [apply Emitted_app; exact H1|exact H2].
      + destruct (Hnew sr eq_refl) as [H1 H2]. split; [exact H1|]. exists v, rc. auto.
    - intros x Hx.
      assert (Hold : In x (a_cons ac) -> Emitted log0 (a_reqs ac ++ opt_list orq) x
                      /\ exists v rc, src_first v rc /\ sr_content x = content_of (v_pub v) rc).
      { intro Hx'. destruct (Hcons _ Hx') as [H1 H2]. split; [apply Emitted_app; exact H1|exact H2]. }
      destruct first; [|auto].
      apply in_app_iff in Hx as [Hx|[<-|[]]]; [auto|].
      destruct (Hnew sr eq_refl) as [H1 H2]. split; [exact H1|]. exists v, rc. split; [|exact H2].
      split; [exact Hv|]. exists res; split; [exact Hres|]. rewrite <- (Hfirst eq_refl). reflexivity.
    - intros a' x Hm. destruct (Hrel _ _ Hm) as [H1 H2]. split; [apply Emitted_app; exact H1|exact H2].
    - intros x Hx. destruct (Hcons _ Hx) as [H1 H2]. split; [apply Emitted_app; exact H1|exact H2].
  Qed.

  Lemma AI_gen_account : forall ac v, In v vals -> AI ac -> AI (gen_account ac now v).
  Proof.
    intros ac v Hv HA. unfold gen_account. destruct (v_res v) as [res|] eqn:E; [|exact HA].
    eapply AI_gen_relays; eauto. apply incl_refl.
  Qed.

  Lemma AI_fold : forall l ac, incl l vals -> AI ac -> AI (fold_left (fun ac v => gen_account ac now v) l ac).
  Proof.
    induction l as [|v l IH]; intros ac Hincl HA; cbn; [exact HA|].
    apply IH; [intros x Hx; apply Hincl; right; exact Hx|].
    apply AI_gen_account; [apply Hincl; left; reflexivity|exact HA].
  Qed.

  Lemma AI_gen_accounts : forall st, J st log0 -> AI (gen_accounts st now vals).
  Proof.
    intros st HJ. unfold gen_accounts. apply AI_fold; [apply incl_refl|]. constructor; cbn.
    - rewrite app_nil_r; exact HJ.
    - intros a sr [l [[] _]].
    - intros sr [].
    - intros q [].
  Qed.
End Round.

Lemma step_round_cases : forall st r,
  (active r = true /\ step_round st r = do_round st r)
  \/ (active r = false /\ step_round st r = (st, no_round r (r_api r && negb (r_cfg r)))).
Proof.
  intros st r. unfold step_round, active.
  destruct (r_api r); cbn.
  - destruct (r_cfg r); cbn; auto.
  - destruct (r_acct_err r); cbn; auto.
    destruct (r_cfg r); cbn.
    + destruct (r_vals r); cbn; auto.
    + destruct (r_vals r); cbn; auto.
Qed.

Lemma J_do_round : forall st log0 r, J st log0 -> J (fst (do_round st r)) (log0 ++ reqs_of (snd (do_round st r))).
Proof.
  intros st log0 r HJ. cbn. exact (ai_J _ _ _ _ (AI_gen_accounts log0 (r_now r) (r_vals r) st HJ)).
Qed.

Lemma reqs_of_prepare : forall p, reqs_of (step_prepare p) = [].
Proof.
  intro p. unfold step_prepare. destruct (p_acct_err p); [reflexivity|]. destruct (p_vals p); reflexivity.
Qed.

Lemma step_J : forall st log0 o, J st log0 -> J (fst (step st o)) (log0 ++ reqs_of (snd (step st o))).
Proof.
  intros st log0 [r|f|p] HJ; cbn [step].
  - destruct (step_round_cases st r) as [[_ ->]|[_ ->]].
    + apply J_do_round; exact HJ.
    + cbn. rewrite app_nil_r; exact HJ.
  - cbn. rewrite app_nil_r; exact HJ.
  - cbn [fst snd]. rewrite reqs_of_prepare, app_nil_r; exact HJ.
Qed.

(* the registrations of one round *)
Lemma step_round_emitted : forall st log0 r err reqs relays nodes,
  J st log0 -> snd (step_round st r) = OutRound err reqs relays nodes ->
  (forall a sr, mem_rm relays a sr ->
     Emitted log0 reqs sr /\ reached (kind_of (r_relays r) a) = true
     /\ exists v rc, src_rc (r_vals r) v rc /\ rc_addr rc = a /\ sr_content sr = content_of (v_pub v) rc)
  /\ (forall l sr, In (Some l) nodes -> In sr l ->
     Emitted log0 reqs sr
     /\ exists v rc, src_first (r_vals r) v rc /\ sr_content sr = content_of (v_pub v) rc)
  /\ (forall q, In q reqs ->
     exists v rc, src_rc (r_vals r) v rc /\ q_acct q = v_acct v /\ q_content q = content_of (v_pub v) rc
                  /\ q_stamp q = r_now r).
Proof.
  intros st log0 r err reqs relays nodes HJ H.
  destruct (step_round_cases st r) as [[_ E]|[_ E]]; rewrite E in H; cbn in H.
  - injection H as <- <- <- <-.
    pose proof (AI_gen_accounts log0 (r_now r) (r_vals r) st HJ) as [_ Hrel Hcons Hrq].
    split; [|split].
    + intros a sr Hm. apply mem_relay_sends in Hm as [Hm Hr]. destruct (Hrel _ _ Hm) as [H1 H2]. auto.
    + intros l sr Hl Hsr. apply In_node_sends in Hl; subst l. auto.
    + exact Hrq.
  - injection H as <- <- <- <-. split; [|split].
    + intros a sr [l [[] _]].
    + intros l sr Hl. apply in_map_iff in Hl as [x [Hx _]]. discriminate.
    + intros q [].
Qed.

(* ------------------------------------------------------------------------------------------- *)
(* Histories. *)

Lemma snd_run_cons : forall st o ops,
  snd (run st (o :: ops)) = snd (step st o) :: snd (run (fst (step st o)) ops).
Proof. intros; cbn [run]. destruct (step st o) as [s1 x]. cbn [fst snd]. destruct (run s1 ops) as [s2 xs]. reflexivity. Qed.

Lemma fst_run_cons : forall st o ops, fst (run st (o :: ops)) = fst (run (fst (step st o)) ops).
Proof. intros; cbn [run]. destruct (step st o) as [s1 x]. cbn [fst snd]. destruct (run s1 ops) as [s2 xs]. reflexivity. Qed.

Lemma run_firstn : forall ops st k, snd (run st (firstn k ops)) = firstn k (snd (run st ops)).
Proof.
  induction ops as [|o ops IH]; intros st k.
  - destruct k; reflexivity.
  - destruct k; [reflexivity|]. cbn [firstn]. rewrite !snd_run_cons. cbn [firstn]. rewrite IH. reflexivity.
Qed.

Lemma run_J : forall ops st log0, J st log0 -> J (fst (run st ops)) (log0 ++ all_reqs (snd (run st ops))).
Proof.
  induction ops as [|o ops IH]; intros st log0 HJ.
  - cbn. rewrite app_nil_r. exact HJ.
  - rewrite fst_run_cons, snd_run_cons. unfold all_reqs; cbn [flat_map]. rewrite app_assoc.
    apply IH. apply step_J. exact HJ.
Qed.

Lemma run_nth : forall ops st k x,
  nth_error (snd (run st ops)) k = Some x ->
  exists o, nth_error ops k = Some o /\ x = snd (step (fst (run st (firstn k ops))) o).
Proof.
  induction ops as [|o ops IH]; intros st k x H.
  - destruct k; discriminate.
  - rewrite snd_run_cons in H. destruct k.
    + cbn in H. injection H as <-. exists o. split; reflexivity.
    + cbn [nth_error] in H. destruct (IH _ _ _ H) as [o' [H1 H2]]. exists o'. split; [exact H1|].
      cbn [firstn]. rewrite fst_run_cons. exact H2.
Qed.

Lemma reqs_of_step_nonround : forall st o, (forall r, o <> ORound r) -> reqs_of (snd (step st o)) = [].
Proof.
  intros st [r|f|p] H.
  - exfalso; eapply H; reflexivity.
  - reflexivity.
  - cbn [step snd]. apply reqs_of_prepare.
Qed.

Lemma out_round_is_round : forall st o err reqs relays nodes,
  snd (step st o) = OutRound err reqs relays nodes -> exists r, o = ORound r.
Proof.
  intros st [r|f|p] err reqs relays nodes H.
  - eauto.
  - discriminate.
  - cbn [step snd] in H. unfold step_prepare in H.
    destruct (p_acct_err p); [discriminate|]. destruct (p_vals p); discriminate.
Qed.

(* what a round's output satisfies, relative to the log of the signing requests made before it *)
Definition RoundFacts (logi : list sigreq) (r : round_in) (reqs : list sigreq) (relays : relaymap)
           (nodes : list (option (list sreg))) : Prop :=
  (forall a sr, mem_rm relays a sr ->
     Emitted logi reqs sr /\ reached (kind_of (r_relays r) a) = true
     /\ exists v rc, src_rc (r_vals r) v rc /\ rc_addr rc = a /\ sr_content sr = content_of (v_pub v) rc)
  /\ (forall l sr, In (Some l) nodes -> In sr l ->
     Emitted logi reqs sr
     /\ exists v rc, src_first (r_vals r) v rc /\ sr_content sr = content_of (v_pub v) rc)
  /\ (forall q, In q reqs ->
     exists v rc, src_rc (r_vals r) v rc /\ q_acct q = v_acct v /\ q_content q = content_of (v_pub v) rc
                  /\ q_stamp q = r_now r).

Lemma history_round : forall ops st log0 i r err reqs relays nodes,
  J st log0 ->
  nth_error ops i = Some (ORound r) ->
  nth_error (snd (run st ops)) i = Some (OutRound err reqs relays nodes) ->
  RoundFacts (log0 ++ all_reqs (firstn i (snd (run st ops)))) r reqs relays nodes.
Proof.
  intros ops st log0 i r err reqs relays nodes HJ Hop Hout.
  destruct (run_nth _ _ _ _ Hout) as [o [H1 H2]]. rewrite Hop in H1. injection H1 as <-.
  rewrite <- run_firstn. cbn [step] in H2. symmetry in H2.
  exact (step_round_emitted _ _ _ _ _ _ _ (run_J _ _ _ HJ) H2).
Qed.

Lemma In_all_reqs : forall outs q, In q (all_reqs outs) ->
  exists k x, nth_error outs k = Some x /\ In q (reqs_of x).
Proof.
  induction outs as [|x outs IH]; intros q H; [destruct H|].
  unfold all_reqs in H; cbn [flat_map] in H. apply in_app_iff in H as [H|H].
  - exists 0%nat, x. split; [reflexivity|exact H].
  - destruct (IH _ H) as [k [y [H1 H2]]]. exists (S k), y. split; [exact H1|exact H2].
Qed.

(* every signing request of a history was made in some round, for a relay entry of a validator
   of that round, by that validator's account, at that round's time *)
Lemma history_req : forall ops st log0 q,
  J st log0 -> In q (all_reqs (snd (run st ops))) ->
  exists k r v rc, nth_error ops k = Some (ORound r) /\ src_rc (r_vals r) v rc
                   /\ q_acct q = v_acct v /\ q_content q = content_of (v_pub v) rc /\ q_stamp q = r_now r.
Proof.
  intros ops st log0 q HJ Hq. apply In_all_reqs in Hq as [k [x [Hx Hq]]].
  destruct x as [err reqs relays nodes|relays|err nodes]; try destruct Hq.
  destruct (run_nth _ _ _ _ Hx) as [o [H1 H2]]. symmetry in H2.
  destruct (out_round_is_round _ _ _ _ _ _ H2) as [r ->].
  destruct (history_round _ _ _ _ _ _ _ _ _ HJ H1 Hx) as [_ [_ Hr]].
  destruct (Hr q Hq) as [v [rc H]]. exists k, r, v, rc. tauto.
Qed.

Lemma firstn_S_nth {A} : forall (l : list A) i x, nth_error l i = Some x -> firstn (S i) l = firstn i l ++ [x].
Proof.
  induction l as [|y l IH]; intros i x H; destruct i; try discriminate.
  - cbn in H. injection H as <-. reflexivity.
  - cbn [nth_error] in H. change (firstn (S (S i)) (y :: l)) with (y :: firstn (S i) l).
    rewrite (IH _ _ H). reflexivity.
Qed.

Lemma all_reqs_app : forall l1 l2, all_reqs (l1 ++ l2) = all_reqs l1 ++ all_reqs l2.
Proof. intros; unfold all_reqs; apply flat_map_app. Qed.

Lemma In_all_reqs_firstn : forall outs n q, In q (all_reqs (firstn n outs)) -> In q (all_reqs outs).
Proof.
  intros outs n q H. rewrite <- (firstn_skipn n outs) at 1. rewrite all_reqs_app. apply in_app_iff; left; exact H.
Qed.

Lemma out_req : forall ops st log0 k x q,
  J st log0 -> nth_error (snd (run st ops)) k = Some x -> In q (reqs_of x) ->
  exists r v rc, nth_error ops k = Some (ORound r) /\ src_rc (r_vals r) v rc
                 /\ q_acct q = v_acct v /\ q_content q = content_of (v_pub v) rc /\ q_stamp q = r_now r.
Proof.
  intros ops st log0 k x q HJ Hx Hq.
  destruct x as [err reqs relays nodes|relays|err nodes]; try destruct Hq.
  destruct (run_nth _ _ _ _ Hx) as [o [H1 H2]]. symmetry in H2.
  destruct (out_round_is_round _ _ _ _ _ _ H2) as [r ->].
  destruct (history_round _ _ _ _ _ _ _ _ _ HJ H1 Hx) as [_ [_ Hr]].
  destruct (Hr q Hq) as [v [rc H]]. exists r, v, rc. tauto.
Qed.

(* ------------------------------------------------------------------------------------------- *)
(* Content and signer. *)

Lemma content_and_signer : forall acct_of ops, accts_ok acct_of ops ->
  forall i r err reqs relays nodes,
  nth_error ops i = Some (ORound r) ->
  nth_error (snd (run init ops)) i = Some (OutRound err reqs relays nodes) ->
  forall a sr, mem_rm relays a sr ->
    reached (kind_of (r_relays r) a) = true /\
    exists v res rc,
      In v (r_vals r) /\ v_res v = Some res /\ In rc (rs_relays res) /\ rc_addr rc = a
      /\ sr_content sr = {| ct_fee := rc_fee rc; ct_gas := rc_gas rc; ct_pub := v_pub v |}
      /\ sr_sig sr = mk_sig (v_acct v) (sr_content sr) (sr_stamp sr)
      /\ In {| q_acct := v_acct v; q_content := sr_content sr; q_stamp := sr_stamp sr; q_ok := true |}
            (all_reqs (firstn (S i) (snd (run init ops)))).
Proof.
  intros acct_of ops Hacc i r err reqs relays nodes Hop Hout a sr Hm.
  destruct (history_round _ _ [] _ _ _ _ _ _ J_init Hop Hout) as [Hrel _]. cbn [app] in Hrel.
  destruct (Hrel _ _ Hm) as [[r1 [r2 [q [E1 [E2 E3]]]]] [Hreach [v [rc [[Hv [res [Hres Hrc]]] [Ha Hc]]]]]].
  split; [exact Hreach|]. exists v, res, rc. repeat (split; [assumption|]).
  apply last_ok_some in E2 as [Hin [Hok Hpub]].
  assert (Hin' : In q (all_reqs (firstn (S i) (snd (run init ops))))).
  { rewrite (firstn_S_nth _ _ _ Hout), all_reqs_app. unfold all_reqs at 2; cbn [flat_map reqs_of].
    rewrite app_nil_r, E1. apply in_app_iff in Hin as [Hin|Hin]; apply in_app_iff; [left; exact Hin|right].
    apply in_app_iff; left; exact Hin. }
  assert (Hacct : q_acct q = v_acct v).
  { destruct (history_req _ _ [] _ J_init (In_all_reqs_firstn _ _ _ Hin')) as [k [r' [v' [rc' [Hk [[Hv' _] [Hq1 [Hq2 _]]]]]]]].
    rewrite Hq1. rewrite (Hacc (ORound r') v' (nth_error_In _ _ Hk) Hv').
    rewrite (Hacc (ORound r) v (nth_error_In _ _ Hop) Hv). f_equal.
    assert (Hcc : sr_content sr = q_content q) by (rewrite E3; reflexivity).
    rewrite Hc, Hq2 in Hcc. apply (f_equal ct_pub) in Hcc. cbn in Hcc. symmetry; exact Hcc. }
  subst sr. cbn [reg_of_req sr_content sr_stamp sr_sig]. rewrite Hacct. split; [reflexivity|].
  destruct q as [qa qc qs qo]; cbn in *. subst. exact Hin'.
Qed.

(* ------------------------------------------------------------------------------------------- *)
(* Reuse. *)

Lemma reuse_unchanged : forall ops i r err reqs relays nodes,
  nth_error ops i = Some (ORound r) ->
  nth_error (snd (run init ops)) i = Some (OutRound err reqs relays nodes) ->
  forall a sr, mem_rm relays a sr -> sr_stamp sr <> r_now r ->
    exists q, last_ok (all_reqs (firstn i (snd (run init ops)))) (ct_pub (sr_content sr)) = Some q
              /\ sr = reg_of_req q.
Proof.
  intros ops i r err reqs relays nodes Hop Hout a sr Hm Hne.
  destruct (history_round _ _ [] _ _ _ _ _ _ J_init Hop Hout) as [Hrel [_ Hrq]]. cbn [app] in Hrel.
  destruct (Hrel _ _ Hm) as [[r1 [r2 [q [E1 [E2 E3]]]]] _].
  rewrite last_ok_app in E2. destruct (last_ok r1 (ct_pub (sr_content sr))) as [q'|] eqn:E.
  - injection E2 as ->. apply last_ok_some in E as [Hin _]. exfalso. apply Hne.
    destruct (Hrq q) as [v [rc [_ [_ [_ Hs]]]]]; [rewrite E1; apply in_app_iff; left; exact Hin|].
    rewrite E3. exact Hs.
  - exists q. split; assumption.
Qed.

(* index lemmas *)
Lemma nth_error_skipn' {A} : forall n (l : list A) k, nth_error (skipn n l) k = nth_error l (n + k).
Proof.
  induction n as [|n IH]; intros l k; [reflexivity|].
  destruct l; [destruct k; reflexivity|]. cbn. apply IH.
Qed.

Lemma nth_error_firstn' {A} : forall m (l : list A) k x,
  nth_error (firstn m l) k = Some x -> (k < m)%nat /\ nth_error l k = Some x.
Proof.
  induction m as [|m IH]; intros l k x H.
  - destruct k; discriminate.
  - destruct l; [destruct k; discriminate|]. destruct k.
    + cbn in H. split; [lia|exact H].
    + cbn in H. destruct (IH _ _ _ H). split; [lia|assumption].
Qed.

Lemma In_all_reqs_range : forall outs n m q,
  In q (all_reqs (skipn n (firstn m outs))) ->
  exists k x, (n <= k < m)%nat /\ nth_error outs k = Some x /\ In q (reqs_of x).
Proof.
  intros outs n m q H. apply In_all_reqs in H as [k [x [H1 H2]]].
  rewrite nth_error_skipn' in H1. apply nth_error_firstn' in H1 as [H3 H4].
  exists (n + k)%nat, x. split; [lia|]. split; assumption.
Qed.

Lemma In_nows : forall ops k r, nth_error ops k = Some (ORound r) -> In (r_now r) (nows ops).
Proof.
  induction ops as [|o ops IH]; intros k r H; [destruct k; discriminate|].
  destruct k.
  - cbn in H. injection H as ->. left; reflexivity.
  - cbn [nth_error] in H. specialize (IH _ _ H). destruct o; cbn; auto.
Qed.

Lemma increasing_nth : forall ops, increasing ops ->
  forall i k ri rk, (i < k)%nat -> nth_error ops i = Some (ORound ri) -> nth_error ops k = Some (ORound rk) ->
  r_now ri < r_now rk.
Proof.
  unfold increasing. induction ops as [|o ops IH]; intros Hs i k ri rk Hlt Hi Hk; [destruct i; discriminate|].
  destruct k; [lia|]. cbn [nth_error] in Hk. destruct i.
  - cbn in Hi. injection Hi as ->. cbn [nows] in Hs. apply StronglySorted_inv in Hs as [_ Hf].
    rewrite Forall_forall in Hf. apply Hf. eapply In_nows; eauto.
  - cbn [nth_error] in Hi. apply (IH) with (i := i) (k := k); auto; [|lia].
    destruct o; cbn [nows] in Hs; auto. apply StronglySorted_inv in Hs as [Hs _]. exact Hs.
Qed.

(* ------------------------------------------------------------------------------------------- *)
(* Stamps along a history. *)

Lemma stamps_along : forall ops, increasing ops ->
  forall i j ri rj erri reqsi relaysi nodesi errj reqsj relaysj nodesj,
  (i < j)%nat ->
  nth_error ops i = Some (ORound ri) ->
  nth_error ops j = Some (ORound rj) ->
  nth_error (snd (run init ops)) i = Some (OutRound erri reqsi relaysi nodesi) ->
  nth_error (snd (run init ops)) j = Some (OutRound errj reqsj relaysj nodesj) ->
  forall a sri a' srj, mem_rm relaysi a sri -> mem_rm relaysj a' srj ->
  ct_pub (sr_content sri) = ct_pub (sr_content srj) ->
    sr_stamp sri <= sr_stamp srj
    /\ (sr_content sri <> sr_content srj -> sr_stamp sri < sr_stamp srj \/ sr_stamp srj = r_now ri).
Proof.
  intros ops Hinc i j ri rj erri reqsi relaysi nodesi errj reqsj relaysj nodesj Hlt Hopi Hopj Houti Houtj
         a sri a' srj Hmi Hmj Hpub.
  set (outs := snd (run init ops)) in *.
  destruct (history_round _ _ [] _ _ _ _ _ _ J_init Hopi Houti) as [Hreli [_ Hrqi]]. cbn [app] in Hreli.
  destruct (history_round _ _ [] _ _ _ _ _ _ J_init Hopj Houtj) as [Hrelj [_ Hrqj]]. cbn [app] in Hrelj.
  fold outs in Hreli, Hrelj.
  destruct (Hreli _ _ Hmi) as [[r1 [r2 [qi [Ei1 [Ei2 Ei3]]]]] _].
  destruct (Hrelj _ _ Hmj) as [[r1' [r2' [qj [Ej1 [Ej2 Ej3]]]]] _].
  (* the log before round j extends the log at the emission in round i *)
  assert (Hsplit : all_reqs (firstn j outs)
                   = (all_reqs (firstn i outs) ++ r1) ++ r2 ++ all_reqs (skipn (S i) (firstn j outs))).
  { rewrite <- (firstn_skipn (S i) (firstn j outs)) at 1. rewrite firstn_firstn.
    replace (Nat.min (S i) j) with (S i) by lia.
    rewrite (firstn_S_nth _ _ _ Houti), !all_reqs_app. unfold all_reqs at 2; cbn [flat_map reqs_of].
    rewrite app_nil_r, Ei1, <- !app_assoc. reflexivity. }
  rewrite Hsplit, <- Hpub in Ej2. rewrite <- !app_assoc in Ej2. rewrite (app_assoc (all_reqs (firstn i outs)) r1) in Ej2.
  rewrite last_ok_app in Ej2.
  (* stamps of the requests up to the emission in round i *)
  assert (HA : q_stamp qi <= r_now ri).
  { apply last_ok_some in Ei2 as [Hin _]. apply in_app_iff in Hin as [Hin|Hin].
    - rewrite <- (firstn_skipn 0 (firstn i outs)) in Hin. cbn [firstn app] in Hin.
      apply In_all_reqs_range in Hin as [k [x [Hk [Hx Hq]]]].
      destruct (out_req _ _ [] _ _ _ J_init Hx Hq) as [rk [_ [_ [Hopk [_ [_ [_ Hs]]]]]]].
      pose proof (increasing_nth _ Hinc k i rk ri ltac:(lia) Hopk Hopi). lia.
    - destruct (Hrqi qi) as [_ [_ [_ [_ [_ Hs]]]]]; [rewrite Ei1; apply in_app_iff; left; exact Hin|]. lia. }
  destruct (last_ok (r2 ++ all_reqs (skipn (S i) (firstn j outs)) ++ r1') (ct_pub (sr_content sri))) as [q|] eqn:EX.
  - injection Ej2 as ->. apply last_ok_some in EX as [Hin _].
    assert (HX : r_now ri <= q_stamp qj /\ (r_now ri < q_stamp qj \/ q_stamp qj = r_now ri)).
    { apply in_app_iff in Hin as [Hin|Hin]; [|apply in_app_iff in Hin as [Hin|Hin]].
      - destruct (Hrqi qj) as [_ [_ [_ [_ [_ Hs]]]]]; [rewrite Ei1; apply in_app_iff; right; exact Hin|]. lia.
      - apply In_all_reqs_range in Hin as [k [x [Hk [Hx Hq]]]].
        destruct (out_req _ _ [] _ _ _ J_init Hx Hq) as [rk [_ [_ [Hopk [_ [_ [_ Hs]]]]]]].
        pose proof (increasing_nth _ Hinc i k ri rk ltac:(lia) Hopi Hopk). lia.
      - destruct (Hrqj qj) as [_ [_ [_ [_ [_ Hs]]]]]; [rewrite Ej1; apply in_app_iff; left; exact Hin|].
        pose proof (increasing_nth _ Hinc i j ri rj Hlt Hopi Hopj). lia. }
    rewrite Ei3, Ej3. cbn [reg_of_req sr_stamp]. split; [lia|]. intros _. lia.
  - rewrite Ei2 in Ej2. injection Ej2 as <-. rewrite Ei3, Ej3. split; [lia|].
    intro Hne. exfalso; apply Hne; reflexivity.
Qed.

(* ------------------------------------------------------------------------------------------- *)
(* Completeness: every (validator, relay entry) of a round that does its work is served, unless a
   signing request for exactly that validator and content failed. *)

Definition Jx (st : state) : Prop := exists log, J st log.

Definition acc_le (ac ac' : acc) : Prop :=
  (forall a sr, mem_rm (a_relays ac) a sr -> mem_rm (a_relays ac') a sr)
  /\ incl (a_reqs ac) (a_reqs ac').

Lemma acc_le_refl : forall ac, acc_le ac ac.
Proof. intro ac; split; [auto|apply incl_refl]. Qed.

Lemma acc_le_trans : forall a b c, acc_le a b -> acc_le b c -> acc_le a c.
Proof. intros a b c [H1 H2] [H3 H4]. split; [auto|eapply incl_tran; eauto]. Qed.

Definition Done (ac : acc) (a pub : N) (rc : rcfg) : Prop :=
  (exists sr, mem_rm (a_relays ac) (rc_addr rc) sr /\ sr_content sr = content_of pub rc)
  \/ (exists q, In q (a_reqs ac) /\ q_ok q = false /\ q_acct q = a /\ q_content q = content_of pub rc).

Lemma Done_le : forall ac ac' a pub rc, acc_le ac ac' -> Done ac a pub rc -> Done ac' a pub rc.
Proof.
  intros ac ac' a pub rc [H1 H2] [[sr [Hm Hc]]|[q [Hq Hrest]]].
  - left; exists sr; split; auto.
  - right; exists q; split; auto.
Qed.

Lemma gen_relays_done : forall rcs ac now a pub first signs,
  Jx (a_st ac) ->
  Jx (a_st (gen_relays ac now a pub rcs first signs))
  /\ acc_le ac (gen_relays ac now a pub rcs first signs)
  /\ forall rc, In rc rcs -> Done (gen_relays ac now a pub rcs first signs) a pub rc.
Proof.
  induction rcs as [|rc rcs IH]; intros ac now a pub first signs HJ; cbn [gen_relays].
  - split; [exact HJ|]. split; [apply acc_le_refl|intros rc []].
  - destruct (gen_relay (a_st ac) now a (content_of pub rc) signs) as [[[st1 signs1] orq] osr] eqn:E.
    destruct HJ as [log HJ].
    destruct (gen_relay_spec _ _ _ _ _ _ _ _ _ _ HJ E) as [HJ1 Hsr].
    destruct (gen_relay_shape _ _ _ _ _ _ _ _ _ E) as [Hrq [_ [Hnone _]]].
    set (ac1 := match osr with
                | Some sr => {| a_st := st1;
                                a_reqs := match orq with Some rq => a_reqs ac ++ [rq] | None => a_reqs ac end;
                                a_relays := add_reg (a_relays ac) (rc_addr rc) sr;
                                a_cons := if first then a_cons ac ++ [sr] else a_cons ac |}
                | None => {| a_st := st1;
                             a_reqs := match orq with Some rq => a_reqs ac ++ [rq] | None => a_reqs ac end;
                             a_relays := a_relays ac; a_cons := a_cons ac |}
                end).
    assert (H1 : Jx (a_st ac1)) by (exists (log ++ opt_list orq); destruct osr; exact HJ1).
    assert (H2 : acc_le ac ac1).
    { split.
      - intros a' x Hm. destruct osr; cbn; [apply mem_add_reg; left|]; exact Hm.
      - intros q Hq. destruct osr, orq; cbn; auto; apply in_app_iff; left; exact Hq. }
    assert (H3 : Done ac1 a pub rc).
    { destruct osr as [sr|].
      - left. exists sr. split; [cbn; apply mem_add_reg; right; auto|].
        destruct (Hsr sr eq_refl) as [q [_ [Hq ->]]]. exact Hq.
      - right. destruct (Hnone eq_refl) as [rq [-> Hok]]. exists rq.
        destruct (Hrq rq eq_refl) as [Ha [Hc _]]. cbn. split; [apply in_app_iff; right; left; reflexivity|auto]. }
    destruct (IH ac1 now a pub false signs1 H1) as [H4 [H5 H6]].
    split; [exact H4|]. split; [eapply acc_le_trans; eauto|].
    intros rc' [<-|Hin]; [eapply Done_le; eauto|auto].
Qed.

Lemma gen_account_done : forall ac now v,
  Jx (a_st ac) ->
  Jx (a_st (gen_account ac now v))
  /\ acc_le ac (gen_account ac now v)
  /\ forall res rc, v_res v = Some res -> In rc (rs_relays res) ->
       Done (gen_account ac now v) (v_acct v) (v_pub v) rc.
Proof.
  intros ac now v HJ. unfold gen_account. destruct (v_res v) as [res|].
  - destruct (gen_relays_done (rs_relays res) ac now (v_acct v) (v_pub v) true (v_sign v) HJ) as [H1 [H2 H3]].
    split; [exact H1|]. split; [exact H2|]. intros res' rc Hres Hrc. injection Hres as <-. auto.
  - split; [exact HJ|]. split; [apply acc_le_refl|]. intros res rc Hres; discriminate.
Qed.

Lemma fold_done : forall l ac now,
  Jx (a_st ac) ->
  Jx (a_st (fold_left (fun ac v => gen_account ac now v) l ac))
  /\ acc_le ac (fold_left (fun ac v => gen_account ac now v) l ac)
  /\ forall v res rc, In v l -> v_res v = Some res -> In rc (rs_relays res) ->
       Done (fold_left (fun ac v => gen_account ac now v) l ac) (v_acct v) (v_pub v) rc.
Proof.
  induction l as [|v l IH]; intros ac now HJ; cbn [fold_left].
  - split; [exact HJ|]. split; [apply acc_le_refl|]. intros v res rc [].
  - destruct (gen_account_done ac now v HJ) as [H1 [H2 H3]].
    destruct (IH (gen_account ac now v) now H1) as [H4 [H5 H6]].
    split; [exact H4|]. split; [eapply acc_le_trans; eauto|].
    intros v' res rc [<-|Hin] Hres Hrc; [eapply Done_le; eauto|eauto].
Qed.

Lemma run_Jx : forall ops, Jx (fst (run init ops)).
Proof. intro ops. eexists. apply (run_J ops init [] J_init). Qed.

Lemma round_complete : forall ops i r err reqs relays nodes,
  nth_error ops i = Some (ORound r) ->
  nth_error (snd (run init ops)) i = Some (OutRound err reqs relays nodes) ->
  active r = true ->
  err = false
  /\ forall v res rc, In v (r_vals r) -> v_res v = Some res -> In rc (rs_relays res) ->
       reached (kind_of (r_relays r) (rc_addr rc)) = true ->
       (exists sr, mem_rm relays (rc_addr rc) sr
                   /\ sr_content sr = {| ct_fee := rc_fee rc; ct_gas := rc_gas rc; ct_pub := v_pub v |})
       \/ (exists q, In q reqs /\ q_ok q = false /\ q_acct q = v_acct v
                     /\ q_content q = {| ct_fee := rc_fee rc; ct_gas := rc_gas rc; ct_pub := v_pub v |}).
Proof.
  intros ops i r err reqs relays nodes Hop Hout Hact.
  destruct (run_nth _ _ _ _ Hout) as [o [H1 H2]]. rewrite Hop in H1. injection H1 as <-.
  cbn [step] in H2. destruct (step_round_cases (fst (run init (firstn i ops))) r) as [[_ E]|[E _]];
    [|rewrite Hact in E; discriminate].
  rewrite E in H2. cbn in H2. injection H2 as -> -> -> ->. split; [reflexivity|].
  intros v res rc Hv Hres Hrc Hreach.
  destruct (fold_done (r_vals r) {| a_st := fst (run init (firstn i ops)); a_reqs := []; a_relays := []; a_cons := [] |}
                      (r_now r) (run_Jx _)) as [_ [_ H]].
  destruct (H v res rc Hv Hres Hrc) as [[sr [Hm Hc]]|Hq].
  - left. exists sr. split; [apply mem_relay_sends; split; assumption|exact Hc].
  - right. exact Hq.
Qed.

(* ------------------------------------------------------------------------------------------- *)
(* Proposal preparations. *)

Lemma In_preparations : forall p vals i fee,
  In (i, fee) (preparations p vals) <-> exists v, In v vals /\ v_index v = i /\ prep_fee p v = Some fee.
Proof.
  induction vals as [|v vals IH]; intros i fee; cbn [preparations].
  - split; [intros []|intros [v [[] _]]].
  - destruct (prep_fee p v) as [f|] eqn:E.
    + cbn [In]. rewrite IH. split.
      * intros [H|[v' [H1 H2]]]; [injection H as <- <-; exists v; auto|exists v'; split; [right|]; auto].
      * intros [v' [[<-|H1] [H2 H3]]]; [left; rewrite E in H3; injection H3 as <-; subst; reflexivity|].
        right; exists v'; auto.
    + rewrite IH. split.
      * intros [v' [H1 H2]]; exists v'; split; [right|]; auto.
      * intros [v' [[<-|H1] [H2 H3]]]; [rewrite E in H3; discriminate|exists v'; auto].
Qed.

Lemma prepare_spec : forall ops st i p err nodes,
  nth_error ops i = Some (OPrepare p) ->
  nth_error (snd (run st ops)) i = Some (OutPrepare err nodes) ->
  p_acct_err p = false -> p_vals p <> [] ->
  err = false
  /\ exists l, nodes = map (fun _ => Some l) (p_nodes p)
     /\ (forall idx fee, In (idx, fee) l <->
           exists v, In v (p_vals p) /\ v_index v = idx
                     /\ (if p_cfg p then option_map rs_fee (v_res v) else Some (p_fallback p)) = Some fee).
Proof.
  intros ops st i p err nodes Hop Hout Hae Hne.
  destruct (run_nth _ _ _ _ Hout) as [o [H1 H2]]. rewrite Hop in H1. injection H1 as <-.
  cbn [step snd] in H2. unfold step_prepare in H2. rewrite Hae in H2.
  destruct (p_vals p) as [|v0 vals] eqn:Ev; [contradiction|]. injection H2 as -> ->.
  split; [reflexivity|]. exists (preparations p (v0 :: vals)). split; [reflexivity|].
  intros idx fee. apply In_preparations.
Qed.

(* ------------------------------------------------------------------------------------------- *)
(* Forwarding. *)

Lemma mem_fold_add : forall l sr m a x,
  mem_rm (fold_left (fun m a => add_reg m a sr) l m) a x <-> mem_rm m a x \/ (In a l /\ x = sr).
Proof.
  induction l as [|a0 l IH]; intros sr m a x; cbn [fold_left].
  - split; [auto|intros [H|[[] _]]; exact H].
  - rewrite IH, mem_add_reg. cbn [In]. split.
    + intros [[H|[-> ->]]|[H1 H2]]; auto.
    + intros [H|[[<-|H1] H2]]; auto.
Qed.

Definition targets (st : state) (f : forward_in) (sr : sreg) : list N :=
  let pub := ct_pub (sr_content sr) in
  if memb N.eqb pub (controlled st) then []
  else match (if f_cfg f then lookup_resolve (f_resolve f) pub else Some []) with
       | Some l => l
       | None => []
       end.

Lemma mem_forward_fold : forall st f inc m a x,
  mem_rm (fold_left (forward_one st f) inc m) a x
  <-> mem_rm m a x \/ (In x inc /\ In a (targets st f x)).
Proof.
  induction inc as [|sr inc IH]; intros m a x; cbn [fold_left].
  - split; [auto|intros [H|[[] _]]; exact H].
  - rewrite IH. cbn [In].
    assert (Hone : mem_rm (forward_one st f m sr) a x <-> mem_rm m a x \/ (x = sr /\ In a (targets st f sr))).
    { unfold forward_one, targets.
      destruct (memb N.eqb (ct_pub (sr_content sr)) (controlled st)); [cbn; tauto|].
      destruct (if f_cfg f then lookup_resolve (f_resolve f) (ct_pub (sr_content sr)) else Some []) as [l|];
        [|cbn; tauto].
      rewrite mem_fold_add. tauto. }
    rewrite Hone. split.
    + intros [[H|[-> H]]|[H1 H2]]; auto.
    + intros [H|[[<-|H1] H2]]; auto.
Qed.

Lemma forward_spec : forall st f a sr,
  (exists relays, step_forward st f = OutForward relays /\ mem_rm relays a sr)
  <-> (In sr (f_incoming f) /\ In a (targets st f sr) /\ reached (kind_of (f_relays f) a) = true).
Proof.
  intros st f a sr. unfold step_forward. split.
  - intros [relays [H Hm]]. injection H as <-. apply mem_relay_sends in Hm as [Hm Hr].
    apply mem_forward_fold in Hm as [[l [[] _]]|[H1 H2]]. auto.
  - intros [H1 [H2 H3]]. eexists; split; [reflexivity|]. apply mem_relay_sends. split; [|exact H3].
    apply mem_forward_fold. right; auto.
Qed.

(* the controlled set is the set of public keys of the last round that did its work *)
Fixpoint ctrl_spec (c : list N) (ops : list op) : list N :=
  match ops with
  | [] => c
  | ORound r :: ops' => ctrl_spec (if active r then map v_pub (r_vals r) else c) ops'
  | _ :: ops' => ctrl_spec c ops'
  end.

Lemma controlled_step_round : forall st r,
  controlled (fst (step_round st r)) = if active r then map v_pub (r_vals r) else controlled st.
Proof.
  intros st r. destruct (step_round_cases st r) as [[-> ->]|[-> ->]]; reflexivity.
Qed.

Lemma controlled_run : forall ops st, controlled (fst (run st ops)) = ctrl_spec (controlled st) ops.
Proof.
  induction ops as [|o ops IH]; intros st; [reflexivity|].
  rewrite fst_run_cons, IH. destruct o as [r|f|p]; cbn [step fst ctrl_spec]; [|reflexivity|reflexivity].
  rewrite controlled_step_round. reflexivity.
Qed.

Lemma forward_history : forall ops i f relays,
  nth_error ops i = Some (OForward f) ->
  nth_error (snd (run init ops)) i = Some (OutForward relays) ->
  forall a sr,
    mem_rm relays a sr <->
    (In sr (f_incoming f)
     /\ memb N.eqb (ct_pub (sr_content sr)) (ctrl_spec [] (firstn i ops)) = false
     /\ f_cfg f = true
     /\ (exists addrs, lookup_resolve (f_resolve f) (ct_pub (sr_content sr)) = Some addrs /\ In a addrs)
     /\ reached (kind_of (f_relays f) a) = true).
Proof.
  intros ops i f relays Hop Hout a sr.
  destruct (run_nth _ _ _ _ Hout) as [o [H1 H2]]. rewrite Hop in H1. injection H1 as <-.
  cbn [step snd] in H2.
  assert (Hc : controlled (fst (run init (firstn i ops))) = ctrl_spec [] (firstn i ops)) by apply controlled_run.
  split.
  - intro Hm.
    destruct (proj1 (forward_spec (fst (run init (firstn i ops))) f a sr)) as [Hin [Ht Hr]];
      [exists relays; split; [symmetry; exact H2|exact Hm]|].
    unfold targets in Ht. rewrite Hc in Ht.
    destruct (memb N.eqb (ct_pub (sr_content sr)) (ctrl_spec [] (firstn i ops))); [destruct Ht|].
    destruct (f_cfg f); [|destruct Ht].
    destruct (lookup_resolve (f_resolve f) (ct_pub (sr_content sr))) as [l|] eqn:El; [|destruct Ht].
    repeat split; auto. exists l; auto.
  - intros [Hin [Hctrl [Hcfg [[addrs [Hl Ha]] Hr]]]].
    destruct (proj2 (forward_spec (fst (run init (firstn i ops))) f a sr)) as [relays' [E Hm]].
    + split; [exact Hin|]. split; [|exact Hr]. unfold targets. rewrite Hc, Hctrl, Hcfg, Hl. exact Ha.
    + rewrite E in H2. injection H2 as ->. exact Hm.
Qed.

(* ------------------------------------------------------------------------------------------- *)
(* Failures of relays and beacon nodes are isolated. *)

Definition set_relays (r : round_in) (ks : list (N * rkind)) : round_in :=
  {| r_now := r_now r; r_cfg := r_cfg r; r_api := r_api r; r_acct_err := r_acct_err r;
     r_vals := r_vals r; r_relays := ks; r_nodes := r_nodes r |}.

Definition set_nodes (r : round_in) (ns : list bool) : round_in :=
  {| r_now := r_now r; r_cfg := r_cfg r; r_api := r_api r; r_acct_err := r_acct_err r;
     r_vals := r_vals r; r_relays := r_relays r; r_nodes := ns |}.

Definition set_pnodes (p : prepare_in) (ns : list pkind) : prepare_in :=
  {| p_cfg := p_cfg p; p_fallback := p_fallback p; p_acct_err := p_acct_err p; p_vals := p_vals p; p_nodes := ns |}.

(* the entry of relay a in what is sent *)
Definition entry_of (m : relaymap) (a : N) : relaymap := filter (fun e => fst e =? a) m.

Lemma entry_relay_sends : forall ks m a,
  entry_of (relay_sends ks m) a = if reached (kind_of ks a) then entry_of (sort_by fst m) a else [].
Proof.
  intros ks m a. unfold relay_sends, entry_of. induction (sort_by fst m) as [|e l IH]; cbn [filter].
  - destruct (reached (kind_of ks a)); reflexivity.
  - destruct (N.eqb (fst e) a) eqn:Ea.
    + apply N.eqb_eq in Ea. rewrite Ea. destruct (reached (kind_of ks a)) eqn:Er.
      * cbn [filter]. rewrite Ea, N.eqb_refl, IH. reflexivity.
      * exact IH.
    + destruct (reached (kind_of ks (fst e))); cbn [filter]; rewrite ?Ea; exact IH.
Qed.

Lemma relay_failures_isolated : forall st r ks',
  fst (step_round st (set_relays r ks')) = fst (step_round st r)
  /\ exists err reqs relays relays' nodes,
       snd (step_round st r) = OutRound err reqs relays nodes
       /\ snd (step_round st (set_relays r ks')) = OutRound err reqs relays' nodes
       /\ forall a, kind_of ks' a = kind_of (r_relays r) a -> entry_of relays' a = entry_of relays a.
Proof.
  intros st r ks'.
  destruct (step_round_cases st r) as [[Ha E]|[Ha E]];
    destruct (step_round_cases st (set_relays r ks')) as [[Ha' E']|[Ha' E']];
    try (change (active (set_relays r ks')) with (active r) in Ha'; rewrite Ha in Ha'; discriminate);
    rewrite E, E'.
  - split; [reflexivity|]. cbn. do 5 eexists. split; [reflexivity|]. split; [reflexivity|].
    intros a Hk. rewrite !entry_relay_sends, Hk. reflexivity.
  - split; [reflexivity|]. cbn. do 5 eexists. split; [reflexivity|]. split; [reflexivity|]. reflexivity.
Qed.

Lemma map_const_length {A B C} : forall (c : C) (l : list A) (l' : list B),
  length l = length l' -> map (fun _ => c) l = map (fun _ => c) l'.
Proof.
  induction l as [|x l IH]; intros [|y l'] H; try discriminate; [reflexivity|].
  cbn. f_equal. apply IH. injection H; auto.
Qed.

Lemma node_failures_isolated : forall st r ns',
  length ns' = length (r_nodes r) -> step_round st (set_nodes r ns') = step_round st r.
Proof.
  intros st r ns' Hlen.
  destruct (step_round_cases st r) as [[Ha E]|[Ha E]];
    destruct (step_round_cases st (set_nodes r ns')) as [[Ha' E']|[Ha' E']];
    try (change (active (set_nodes r ns')) with (active r) in Ha'; rewrite Ha in Ha'; discriminate);
    rewrite E, E'.
  - unfold do_round, node_sends; cbn. f_equal. f_equal. apply map_const_length. exact Hlen.
  - unfold no_round; cbn. f_equal. f_equal. apply map_const_length. exact Hlen.
Qed.

Lemma preparations_set_pnodes : forall p ns' vals, preparations (set_pnodes p ns') vals = preparations p vals.
Proof.
  induction vals as [|v vals IH]; [reflexivity|]. cbn [preparations].
  change (prep_fee (set_pnodes p ns') v) with (prep_fee p v). rewrite IH. reflexivity.
Qed.

Lemma prep_node_failures_isolated : forall p ns',
  length ns' = length (p_nodes p) -> step_prepare (set_pnodes p ns') = step_prepare p.
Proof.
  intros p ns' Hlen. unfold step_prepare; cbn.
  destruct (p_acct_err p); [f_equal; apply map_const_length; exact Hlen|].
  destruct (p_vals p) as [|v vals]; [f_equal; apply map_const_length; exact Hlen|].
  rewrite preparations_set_pnodes. f_equal. apply map_const_length; exact Hlen.
Qed.

(* ------------------------------------------------------------------------------------------- *)
(* Failures of a validator are isolated: two histories that differ only in what concerns the
   validator with public key p' (its settings, whether they resolve, the outcomes of its signing
   requests, even its account and index) send exactly the same registrations for every other
   validator, in every round, and forward the same registrations. *)

Section Isolation.
  Variable p' : N.

  Definition other_sr (sr : sreg) : bool := negb (ct_pub (sr_content sr) =? p').
  Definition other_q (q : sigreq) : bool := negb (ct_pub (q_content q) =? p').

  (* cache entries are filed under their own content *)
  Definition K (st : state) : Prop :=
    forall c sr, get_signed (signed st) c = Some sr -> sr_content sr = c.

  Definition SR (st st' : state) : Prop :=
    K st /\ K st'
    /\ (forall c, ct_pub c <> p' -> get_signed (signed st) c = get_signed (signed st') c)
    /\ (forall p, p <> p' -> get_latest (latest st) p = get_latest (latest st') p).

  Lemma SR_sym : forall st st', SR st st' -> SR st' st.
  Proof.
    intros st st' [H1 [H2 [H3 H4]]]. repeat split; auto.
    - intros c Hc; symmetry; auto.
    - intros p Hp; symmetry; auto.
  Qed.

  Lemma cached_K : forall st c sr, K st -> cached st c = Some sr -> sr_content sr = c.
  Proof.
    unfold cached; intros st c sr HK H.
    destruct (get_signed (signed st) c) as [sr0|] eqn:E; [|discriminate].
    destruct (get_latest (latest st) (ct_pub c)) as [c0|]; [|discriminate].
    destruct (content_eqb c0 c); [|discriminate]. injection H as <-. eauto.
  Qed.

  Lemma gen_relay_K : forall st now a c signs st1 signs1 orq osr,
    K st -> gen_relay st now a c signs = (st1, signs1, orq, osr) ->
    K st1 /\ (forall sr, osr = Some sr -> sr_content sr = c).
  Proof.
    intros st now a c signs st1 signs1 orq osr HK H. unfold gen_relay in H.
    destruct (cached st c) as [sr0|] eqn:Ec.
    - injection H as <- <- <- <-. split; [exact HK|]. intros sr Hs; injection Hs as <-. eapply cached_K; eauto.
    - destruct (hd true signs); injection H as <- <- <- <-.
      + split; [|intros sr Hs; injection Hs as <-; reflexivity].
        intros c2 sr2. cbn [signed]. unfold set_signed. cbn [get_signed].
        destruct (content_eqb c c2) eqn:E; [|apply HK].
        intro Hs; injection Hs as <-. apply content_eqb_spec in E. exact E.
      + split; [exact HK|discriminate].
  Qed.

  (* the same step on both sides, for another validator *)
  Lemma gen_relay_both : forall st st' now a c signs,
    ct_pub c <> p' -> SR st st' ->
    exists st1 st1' signs1 orq osr,
      gen_relay st now a c signs = (st1, signs1, orq, osr)
      /\ gen_relay st' now a c signs = (st1', signs1, orq, osr)
      /\ SR st1 st1'.
  Proof.
    intros st st' now a c signs Hc [HK [HK' [Hs Hl]]].
    assert (Hcached : cached st c = cached st' c) by (unfold cached; rewrite (Hs c Hc), (Hl _ Hc); reflexivity).
    unfold gen_relay. rewrite <- Hcached. destruct (cached st c) as [sr0|].
    - do 5 eexists. split; [reflexivity|]. split; [reflexivity|]. repeat split; auto.
    - destruct (hd true signs).
      + do 5 eexists. split; [reflexivity|]. split; [reflexivity|].
        split; [|split; [|split]].
        * intros c2 sr2. cbn [signed]. unfold set_signed. cbn [get_signed].
          destruct (content_eqb c c2) eqn:E; [|apply HK].
          intro H; injection H as <-. apply content_eqb_spec in E. exact E.
        * intros c2 sr2. cbn [signed]. unfold set_signed. cbn [get_signed].
          destruct (content_eqb c c2) eqn:E; [|apply HK'].
          intro H; injection H as <-. apply content_eqb_spec in E. exact E.
        * intros c2 Hc2. cbn [signed]. unfold set_signed. cbn [get_signed]. rewrite (Hs c2 Hc2). reflexivity.
        * intros p Hp. cbn [latest]. unfold set_latest. cbn [get_latest]. rewrite (Hl p Hp). reflexivity.
      + do 5 eexists. split; [reflexivity|]. split; [reflexivity|]. repeat split; auto.
  Qed.

  (* a step for p' itself, on one side only *)
  Lemma gen_relay_one : forall st st' now a c signs st1 signs1 orq osr,
    ct_pub c = p' -> SR st st' ->
    gen_relay st now a c signs = (st1, signs1, orq, osr) ->
    SR st1 st'
    /\ (forall rq, orq = Some rq -> other_q rq = false)
    /\ (forall sr, osr = Some sr -> other_sr sr = false).
  Proof.
    intros st st' now a c signs st1 signs1 orq osr Hc HSR H.
    destruct HSR as [HK [HK' [Hs Hl]]].
    destruct (gen_relay_K _ _ _ _ _ _ _ _ _ HK H) as [HK1 Hcont].
    destruct (gen_relay_shape _ _ _ _ _ _ _ _ _ H) as [Hrq _].
    split; [|split].
    - unfold gen_relay in H. destruct (cached st c).
      + injection H as <- <- <- <-. repeat split; auto.
      + destruct (hd true signs); injection H as <- <- <- <-; [|repeat split; auto].
        split; [exact HK1|]. split; [exact HK'|]. split.
        * intros c2 Hc2. cbn [signed]. unfold set_signed. cbn [get_signed].
          rewrite content_eqb_pub; [apply Hs; exact Hc2|]. rewrite Hc. auto.
        * intros p Hp. cbn [latest]. unfold set_latest. cbn [get_latest].
          rewrite Hc. destruct (N.eqb p' p) eqn:E; [apply N.eqb_eq in E; congruence|]. apply Hl; exact Hp.
    - intros rq Hq. destruct (Hrq rq Hq) as [_ [Hqc _]]. unfold other_q. rewrite Hqc, Hc, N.eqb_refl. reflexivity.
    - intros sr Hsr. unfold other_sr. rewrite (Hcont sr Hsr), Hc, N.eqb_refl. reflexivity.
  Qed.

  (* accumulators agree on what concerns the other validators *)
  Definition AR (ac ac' : acc) : Prop :=
    SR (a_st ac) (a_st ac')
    /\ filter other_q (a_reqs ac) = filter other_q (a_reqs ac')
    /\ (forall a sr, other_sr sr = true -> (mem_rm (a_relays ac) a sr <-> mem_rm (a_relays ac') a sr))
    /\ filter other_sr (a_cons ac) = filter other_sr (a_cons ac').

  Lemma AR_sym : forall ac ac', AR ac ac' -> AR ac' ac.
  Proof.
    intros ac ac' [H1 [H2 [H3 H4]]]. split; [apply SR_sym; exact H1|]. split; [auto|]. split; [|auto].
    intros a sr Ho. symmetry. auto.
  Qed.

  Lemma filter_app_one {A} (f : A -> bool) (l : list A) (x : A) :
    filter f (l ++ [x]) = if f x then filter f l ++ [x] else filter f l.
  Proof. rewrite filter_app. cbn. destruct (f x); [reflexivity|apply app_nil_r]. Qed.

  Lemma AR_gen_relays_both : forall rcs ac ac' now a pub first signs,
    pub <> p' -> AR ac ac' ->
    AR (gen_relays ac now a pub rcs first signs) (gen_relays ac' now a pub rcs first signs).
  Proof.
    induction rcs as [|rc rcs IH]; intros ac ac' now a pub first signs Hp HA; cbn [gen_relays]; [exact HA|].
    destruct HA as [HS [Hq [Hr Hc]]].
    destruct (gen_relay_both (a_st ac) (a_st ac') now a (content_of pub rc) signs Hp HS)
      as [st1 [st1' [signs1 [orq [osr [E [E' HS1]]]]]]].
    rewrite E, E'. apply IH; [exact Hp|].
    destruct (gen_relay_K _ _ _ _ _ _ _ _ _ (proj1 HS) E) as [_ Hcont].
    assert (Hq1 : filter other_q (match orq with Some rq => a_reqs ac ++ [rq] | None => a_reqs ac end)
                  = filter other_q (match orq with Some rq => a_reqs ac' ++ [rq] | None => a_reqs ac' end)).
    { destruct orq; [rewrite !filter_app_one, Hq; reflexivity|exact Hq]. }
    destruct osr as [sr|]; (split; [exact HS1|]); (split; [exact Hq1|]); cbn [a_relays a_cons]; [|split; assumption].
    split.
    - intros a' x Ho. rewrite !mem_add_reg, (Hr a' x Ho). reflexivity.
    - destruct first; [rewrite !filter_app_one, Hc; reflexivity|exact Hc].
  Qed.

  Lemma AR_gen_relays_one : forall rcs ac ac' now a first signs,
    AR ac ac' -> AR (gen_relays ac now a p' rcs first signs) ac'.
  Proof.
    induction rcs as [|rc rcs IH]; intros ac ac' now a first signs HA; cbn [gen_relays]; [exact HA|].
    destruct HA as [HS [Hq [Hr Hc]]].
    destruct (gen_relay (a_st ac) now a (content_of p' rc) signs) as [[[st1 signs1] orq] osr] eqn:E.
    destruct (gen_relay_one (a_st ac) (a_st ac') now a (content_of p' rc) signs st1 signs1 orq osr eq_refl HS E)
      as [HS1 [Hoq Hosr]].
    apply IH.
    assert (Hq1 : filter other_q (match orq with Some rq => a_reqs ac ++ [rq] | None => a_reqs ac end)
                  = filter other_q (a_reqs ac')).
    { destruct orq as [rq|]; [rewrite filter_app_one, (Hoq rq eq_refl); exact Hq|exact Hq]. }
    destruct osr as [sr|]; (split; [exact HS1|]); (split; [exact Hq1|]); cbn [a_relays a_cons]; [|split; assumption].
    split.
    - intros a' x Ho. rewrite mem_add_reg, (Hr a' x Ho). split; [|auto].
      intros [H|[_ ->]]; [exact H|]. rewrite (Hosr sr eq_refl) in Ho. discriminate.
    - destruct first; [rewrite filter_app_one, (Hosr sr eq_refl); exact Hc|exact Hc].
  Qed.

  (* validators of the two histories: same public key; identical unless the key is p' *)
  Definition rel_val (v v' : validator) : Prop := v_pub v = v_pub v' /\ (v_pub v <> p' -> v = v').

  Lemma AR_gen_account : forall ac ac' now v v',
    rel_val v v' -> AR ac ac' -> AR (gen_account ac now v) (gen_account ac' now v').
  Proof.
    intros ac ac' now v v' [Hpub Hsame] HA.
    destruct (N.eq_dec (v_pub v) p') as [Hp|Hp].
    - assert (Hp'' : v_pub v' = p') by congruence.
      unfold gen_account.
      assert (H1 : AR (match v_res v with
                       | Some res => gen_relays ac now (v_acct v) (v_pub v) (rs_relays res) true (v_sign v)
                       | None => ac end) ac').
      { destruct (v_res v); [rewrite Hp; apply AR_gen_relays_one; exact HA|exact HA]. }
      destruct (v_res v'); [|exact H1].
      rewrite Hp''. apply AR_sym. apply AR_gen_relays_one. apply AR_sym. exact H1.
    - rewrite <- (Hsame Hp). unfold gen_account. destruct (v_res v); [|exact HA].
      apply AR_gen_relays_both; assumption.
  Qed.

  Lemma AR_fold : forall l l' ac ac' now,
    Forall2 rel_val l l' -> AR ac ac' ->
    AR (fold_left (fun ac v => gen_account ac now v) l ac) (fold_left (fun ac v => gen_account ac now v) l' ac').
  Proof.
    induction l as [|v l IH]; intros l' ac ac' now HF HA; inversion HF; subst; cbn [fold_left]; [exact HA|].
    apply IH; [assumption|]. apply AR_gen_account; assumption.
  Qed.

  (* operations of the two histories *)
  Definition rel_op (o o' : op) : Prop :=
    match o, o' with
    | ORound r, ORound r' =>
        r_now r = r_now r' /\ r_cfg r = r_cfg r' /\ r_api r = r_api r' /\ r_acct_err r = r_acct_err r'
        /\ Forall2 rel_val (r_vals r) (r_vals r') /\ r_relays r = r_relays r' /\ r_nodes r = r_nodes r'
    | OForward f, OForward f' => f = f'
    | OPrepare _, OPrepare _ => True
    | _, _ => False
    end.

  (* outputs agree on what concerns the other validators *)
  Definition rel_out (x x' : out) : Prop :=
    match x, x' with
    | OutRound err reqs relays nodes, OutRound err' reqs' relays' nodes' =>
        err = err'
        /\ filter other_q reqs = filter other_q reqs'
        /\ (forall a sr, other_sr sr = true -> (mem_rm relays a sr <-> mem_rm relays' a sr))
        /\ (forall sr, other_sr sr = true ->
              ((exists l, In (Some l) nodes /\ In sr l) <-> (exists l, In (Some l) nodes' /\ In sr l)))
    | OutForward relays, OutForward relays' => relays = relays'
    | OutPrepare _ _, OutPrepare _ _ => True
    | _, _ => False
    end.

  Definition SRC (st st' : state) : Prop := SR st st' /\ controlled st = controlled st'.

  Lemma Forall2_rel_val_pubs : forall l l', Forall2 rel_val l l' -> map v_pub l = map v_pub l'.
  Proof. induction 1 as [|v v' l l' [H _] _ IH]; cbn; [reflexivity|]. rewrite H, IH. reflexivity. Qed.

  Lemma In_node_sends_iff {A} : forall (nodes : list A) (cons : list sreg) sr,
    nodes <> [] ->
    ((exists l, In (Some l) (node_sends nodes cons) /\ In sr l) <-> In sr cons).
  Proof.
    intros nodes cons sr Hne. split.
    - intros [l [H1 H2]]. apply In_node_sends in H1. subst; exact H2.
    - intro H. exists cons. split; [|exact H]. destruct nodes as [|n nodes]; [contradiction|].
      unfold node_sends. cbn. left. destruct cons; [destruct H|reflexivity].
  Qed.

  Lemma filter_In_iff : forall (l l' : list sreg),
    filter other_sr l = filter other_sr l' ->
    forall sr, other_sr sr = true -> (In sr l <-> In sr l').
  Proof.
    intros l l' H sr Ho. split; intro Hin.
    - assert (Hf : In sr (filter other_sr l)) by (apply filter_In; auto). rewrite H in Hf. apply filter_In in Hf; tauto.
    - assert (Hf : In sr (filter other_sr l')) by (apply filter_In; auto). rewrite <- H in Hf. apply filter_In in Hf; tauto.
  Qed.

  Lemma step_related : forall st st' o o',
    SRC st st' -> rel_op o o' ->
    SRC (fst (step st o)) (fst (step st' o')) /\ rel_out (snd (step st o)) (snd (step st' o')).
  Proof.
    intros st st' o o' [HS Hctrl] Hop.
    destruct o as [r|f|p]; destruct o' as [r'|f'|p2]; cbn [rel_op] in Hop; try contradiction; cbn [step].
    - destruct Hop as [Hnow [Hcfg [Hapi [Hae [Hvals [Hrel Hnodes]]]]]].
      assert (Hact : active r' = active r).
      { unfold active. rewrite <- Hcfg, <- Hapi, <- Hae.
        inversion Hvals; reflexivity. }
      destruct (step_round_cases st r) as [[Ha E]|[Ha E]];
        destruct (step_round_cases st' r') as [[Ha' E']|[Ha' E']]; try congruence; rewrite E, E'.
      + unfold do_round. cbn [fst snd].
        assert (HA : AR (gen_accounts st (r_now r) (r_vals r)) (gen_accounts st' (r_now r') (r_vals r'))).
        { unfold gen_accounts. rewrite <- Hnow. apply AR_fold; [exact Hvals|].
          split; [exact HS|]. split; [reflexivity|]. split; [tauto|reflexivity]. }
        destruct HA as [HS1 [Hq [Hr Hc]]].
        split.
        * split; [|cbn; apply Forall2_rel_val_pubs; exact Hvals].
          destruct HS1 as [K1 [K2 [S1 L1]]]. repeat split; assumption.
        * cbn. split; [reflexivity|]. split; [exact Hq|]. split.
          -- intros a sr Ho. rewrite !mem_relay_sends, <- Hrel, (Hr a sr Ho). reflexivity.
          -- intros sr Ho. rewrite <- Hnodes. destruct (r_nodes r) as [|n ns] eqn:En.
             ++ cbn. split; intros [l [[] _]].
             ++ rewrite !In_node_sends_iff by discriminate. apply filter_In_iff; assumption.
      + split; [split; assumption|]. cbn. rewrite Hapi, Hcfg, Hnodes.
        split; [reflexivity|]. split; [reflexivity|]. split; [tauto|tauto].
    - subst f'. split; [split; assumption|]. cbn.
      unfold step_forward.
      assert (Hone : forall m sr, forward_one st f m sr = forward_one st' f m sr)
        by (intros; unfold forward_one; rewrite Hctrl; reflexivity).
      assert (Hfold : forall l m, fold_left (forward_one st f) l m = fold_left (forward_one st' f) l m).
      { induction l as [|sr l IH]; intro m; cbn [fold_left]; [reflexivity|]. rewrite Hone. apply IH. }
      rewrite Hfold. reflexivity.
    - split; [split; assumption|]. cbn [snd]. unfold step_prepare.
      destruct (p_acct_err p), (p_acct_err p2), (p_vals p), (p_vals p2); exact I.
  Qed.

  Lemma run_related : forall ops ops' st st',
    SRC st st' -> Forall2 rel_op ops ops' -> Forall2 rel_out (snd (run st ops)) (snd (run st' ops')).
  Proof.
    induction ops as [|o ops IH]; intros ops' st st' HS HF; inversion HF; subst.
    - constructor.
    - rewrite !snd_run_cons. destruct (step_related st st' o y HS H1) as [HS1 Ho].
      constructor; [exact Ho|]. apply IH; assumption.
  Qed.

  Lemma SRC_init : SRC init init.
  Proof.
    split; [|reflexivity]. split; [|split; [|split]].
    - intros c sr H; discriminate.
    - intros c sr H; discriminate.
    - reflexivity.
    - reflexivity.
  Qed.
End Isolation.

(* ------------------------------------------------------------------------------------------- *)
(* Secondary beacon nodes. *)

Lemma round_nodes : forall ops i r err reqs relays nodes,
  nth_error ops i = Some (ORound r) ->
  nth_error (snd (run init ops)) i = Some (OutRound err reqs relays nodes) ->
  (exists x, nodes = map (fun _ => x) (r_nodes r))
  /\ forall l sr, In (Some l) nodes -> In sr l ->
       exists v res rc, In v (r_vals r) /\ v_res v = Some res /\ hd_error (rs_relays res) = Some rc
                        /\ sr_content sr = {| ct_fee := rc_fee rc; ct_gas := rc_gas rc; ct_pub := v_pub v |}.
Proof.
  intros ops i r err reqs relays nodes Hop Hout. split.
  - destruct (run_nth _ _ _ _ Hout) as [o [H1 H2]]. rewrite Hop in H1. injection H1 as <-.
    cbn [step] in H2.
    destruct (step_round_cases (fst (run init (firstn i ops))) r) as [[_ E]|[_ E]]; rewrite E in H2; cbn in H2;
      injection H2 as -> -> -> ->; eexists; unfold node_sends; reflexivity.
  - intros l sr Hl Hsr.
    destruct (history_round _ _ [] _ _ _ _ _ _ J_init Hop Hout) as [_ [Hn _]].
    destruct (Hn l sr Hl Hsr) as [_ [v [rc [[Hv [res [Hres Hrc]]] Hc]]]].
    exists v, res, rc. auto.
Qed.

(* ------------------------------------------------------------------------------------------- *)
(* Strictly newer stamps when a validator has one content per round. *)

(* all relay entries of the validators with public key p in round r carry the same fee recipient
   and gas limit (no per-relay differences for that validator in that round) *)
Definition uniform_pub (r : round_in) (p : N) : Prop :=
  forall v v' res res' rc rc',
    In v (r_vals r) -> In v' (r_vals r) -> v_pub v = p -> v_pub v' = p ->
    v_res v = Some res -> v_res v' = Some res' -> In rc (rs_relays res) -> In rc' (rs_relays res') ->
    rc_fee rc = rc_fee rc' /\ rc_gas rc = rc_gas rc'.

Lemma stamp_in_round : forall ops, increasing ops ->
  forall i ri erri reqsi relaysi nodesi q,
  nth_error ops i = Some (ORound ri) ->
  nth_error (snd (run init ops)) i = Some (OutRound erri reqsi relaysi nodesi) ->
  In q (all_reqs (snd (run init ops))) -> q_stamp q = r_now ri -> In q reqsi.
Proof.
  intros ops Hinc i ri erri reqsi relaysi nodesi q Hop Hout Hq Hs.
  apply In_all_reqs in Hq as [k [x [Hx Hqx]]].
  destruct (out_req _ _ [] _ _ _ J_init Hx Hqx) as [rk [_ [_ [Hopk [_ [_ [_ Hsk]]]]]]].
  destruct (Nat.lt_trichotomy k i) as [Hlt|[->|Hlt]].
  - pose proof (increasing_nth _ Hinc k i rk ri Hlt Hopk Hop). lia.
  - rewrite Hout in Hx. injection Hx as <-. exact Hqx.
  - pose proof (increasing_nth _ Hinc i k ri rk Hlt Hop Hopk). lia.
Qed.

Lemma stamps_strict : forall ops, increasing ops ->
  forall i j ri rj erri reqsi relaysi nodesi errj reqsj relaysj nodesj,
  (i < j)%nat ->
  nth_error ops i = Some (ORound ri) ->
  nth_error ops j = Some (ORound rj) ->
  nth_error (snd (run init ops)) i = Some (OutRound erri reqsi relaysi nodesi) ->
  nth_error (snd (run init ops)) j = Some (OutRound errj reqsj relaysj nodesj) ->
  forall a sri a' srj, mem_rm relaysi a sri -> mem_rm relaysj a' srj ->
  ct_pub (sr_content sri) = ct_pub (sr_content srj) ->
  sr_content sri <> sr_content srj ->
  uniform_pub ri (ct_pub (sr_content sri)) ->
  sr_stamp sri < sr_stamp srj.
Proof.
  intros ops Hinc i j ri rj erri reqsi relaysi nodesi errj reqsj relaysj nodesj Hlt Hopi Hopj Houti Houtj
         a sri a' srj Hmi Hmj Hpub Hne Hun.
  destruct (stamps_along ops Hinc i j ri rj erri reqsi relaysi nodesi errj reqsj relaysj nodesj Hlt Hopi Hopj
              Houti Houtj a sri a' srj Hmi Hmj Hpub) as [_ H].
  destruct (H Hne) as [Hs|Hs]; [exact Hs|]. exfalso.
  pose proof (increasing_nth _ Hinc i j ri rj Hlt Hopi Hopj) as Hnow.
  destruct (reuse_unchanged ops j rj errj reqsj relaysj nodesj Hopj Houtj a' srj Hmj ltac:(lia)) as [q [Hq1 Hq2]].
  apply last_ok_some in Hq1 as [Hin _]. apply In_all_reqs_firstn in Hin.
  assert (Hqs : q_stamp q = r_now ri) by (rewrite Hq2 in Hs; exact Hs).
  pose proof (stamp_in_round ops Hinc i ri erri reqsi relaysi nodesi q Hopi Houti Hin Hqs) as Hqi.
  destruct (history_round _ _ [] _ _ _ _ _ _ J_init Hopi Houti) as [Hrel [_ Hrq]].
  destruct (Hrq q Hqi) as [v [rc [[Hv [res [Hres Hrc]]] [_ [Hqc _]]]]].
  destruct (Hrel _ _ Hmi) as [_ [_ [v' [rc' [[Hv' [res' [Hres' Hrc']]] [_ Hc']]]]]].
  assert (Hcj : sr_content srj = q_content q) by (rewrite Hq2; reflexivity).
  assert (Hp1 : v_pub v' = ct_pub (sr_content sri)) by (rewrite Hc'; reflexivity).
  assert (Hp2 : v_pub v = ct_pub (sr_content sri)) by (rewrite Hpub, Hcj, Hqc; reflexivity).
  destruct (Hun v v' res res' rc rc' Hv Hv' Hp2 Hp1 Hres Hres' Hrc Hrc') as [Hf Hg].
  apply Hne. rewrite Hcj, Hqc, Hc'. unfold content_of. rewrite Hf, Hg, Hp1, Hp2. reflexivity.
Qed.
