(* C09: the same bid message at several relays / under several signatures.  A bid MESSAGE (value,
   builder, fee recipient, timestamp, header) does not say who vouches for it; eligibility is decided
   for the relay that offers it: that relay's own key and that relay's own minimum.  So a relay that
   forwards another relay's signed bid (or whatever a strategy instance remembers about a message it
   has seen before) gains nothing. *)
From Verif Require Import Lib.Base Model.C09_Auction Model.C09_Spec Proofs.C09 Proofs.C09_Spec Check.C09 Proofs.C09_Check.

Lemma same_message_other_key_not_eligible :
  forall r r' b b' k',
    eligible r b = true ->
    b_value b' = b_value b -> b_builder b' = b_builder b -> b_zero_recipient b' = b_zero_recipient b ->
    b_ts_delta b' = b_ts_delta b -> b_header b' = b_header b ->
    eff_key r' = Some k' -> b_signer b' <> k' ->
    eligible r' b' = false.
Proof.
  intros r r' b b' k' _ _ _ _ _ _ Hk Hs.
  destruct (eligible r' b') eqn:E; [|reflexivity].
  apply eligible_iff in E. destruct E as (_ & _ & _ & _ & Hsig).
  exfalso. apply Hs. exact (Hsig k' Hk).
Qed.

Lemma same_message_below_other_minimum_not_eligible :
  forall r r' b b',
    eligible r b = true ->
    b_value b' = b_value b -> b_value b < r_min r' ->
    eligible r' b' = false.
Proof.
  intros r r' b b' _ Hv Hm.
  destruct (eligible r' b') eqn:E; [|reflexivity].
  apply eligible_iff in E. destruct E as (_ & Hmin & _). rewrite Hv in Hmin. exfalso.
  apply N.lt_nge in Hm. exact (Hm Hmin).
Qed.

Lemma nodup_idx_inj rs : NoDup (map r_idx rs) -> forall r r', In r rs -> In r' rs -> r_idx r' = r_idx r -> r' = r.
Proof.
  intros ND r r' Hr Hr' E.
  pose proof (find_relay_nodup rs ND r Hr) as F1.
  pose proof (find_relay_nodup rs ND r' Hr') as F2.
  rewrite E in F2. rewrite F1 in F2. now inversion F2.
Qed.

(* a relay none of whose answers carries its own signature is never listed for unblinding *)
Lemma forwarding_relay_never_listed :
  forall cfgs s rs ord w r k,
    arrival_order s rs ord -> st_win (result_of cfgs s ord) = Some w ->
    NoDup (map r_idx rs) -> In r rs -> eff_key r = Some k ->
    (forall t c b, In (t, c, RBid b) (answered s r) -> b_signer b <> k) ->
    ~ In (r_idx r) (st_providers (result_of cfgs s ord)).
Proof.
  intros cfgs s rs ord w r k Ho Hw ND Hr Hk Hall Hin.
  destruct (providers_offered cfgs s rs ord w (r_idx r) Ho Hw Hin) as (t & b & (r' & c & Hr' & Hi & _ & Hans & _ & He) & _).
  assert (r' = r) by (eapply nodup_idx_inj; eauto). subst r'.
  apply eligible_iff in He. destruct He as (_ & _ & _ & _ & Hsig).
  exact (Hall t c b Hans (Hsig k Hk)).
Qed.

(* non-vacuity: relay 0 (key 1) signs the message, relay 1 (key 2) forwards it with relay 0's signature
   and answers first *)
Definition dup_msg (uid signer : N) : bid :=
  {| b_uid := uid; b_value := 700; b_builder := 1; b_zero_recipient := false; b_ts_delta := 0%Z; b_signer := signer; b_header := 4 |}.
Definition dup_relay (i key : N) (lat : Z) (b : bid) : relay :=
  {| r_idx := i; r_kind := KFull; r_min := 0; r_cfg_key := Some key; r_adv_key := None; r_grace := 0%Z; r_script := [(lat, RBid b)] |}.
Definition dup_rs : list relay := [ dup_relay 0 1 96%Z (dup_msg 1 1); dup_relay 1 2 49%Z (dup_msg 1001 1) ].

Lemma dup_example :
  eligible (dup_relay 0 1 96%Z (dup_msg 1 1)) (dup_msg 1 1) = true
  /\ eligible (dup_relay 1 2 49%Z (dup_msg 1001 1)) (dup_msg 1001 1) = false
  /\ (forall s, In s [Best 500; Deadline 500 64] ->
        option_map (fun w => b_uid (p_bid w)) (st_win (strategy_result [] s dup_rs)) = Some 1
        /\ st_providers (strategy_result [] s dup_rs) = [0]).
Proof.
  split; [reflexivity|]. split; [reflexivity|].
  intros s [<- | [<- | []]]; vm_compute; split; reflexivity.
Qed.
