(* C06: what the per-request comparison of the check means for an overlapped session.
   The harness prints one case per request of an overlapped session (all made to one service [Sv],
   each while account calls of the others were waiting); [agree] compares each with the model of that
   request alone.  When they all agree, the overlap model predicts the observed outcome of every
   request for EVERY interleaving of the session's requests -- in particular the one the harness ran. *)
From Verif Require Import Lib.Base Lib.Ssz Model.C06_Signer Proofs.C06 Proofs.C06_Spec Proofs.C06_Flaky Proofs.C06_Overlap Check.C06.

Lemma forallb_nth_error {A} (f : A -> bool) l k x :
  forallb f l = true -> nth_error l k = Some x -> f x = true.
Proof.
  intros Hall Hk. apply nth_error_In in Hk. rewrite forallb_forall in Hall. exact (Hall x Hk).
Qed.

Lemma overlapped_cases_agree (Sv : service) (cs : list case) (evs : list event) k out c :
  Forall (fun c => c_svc c = Sv) cs ->
  forallb agree cs = true ->
  In (k, out) (run_overlapped Hc psig PZero Sv (map (fun c => (case_provider c, case_env c, c_req c)) cs) [] evs) ->
  nth_error cs k = Some c ->
  ores_eqb (to_ores out) (c_out c) = true.
Proof.
  intros Hsv Hag Hin Hk.
  destruct (run_overlapped_alone Hc psig PZero Sv _ evs [] (Forall_nil _) k out Hin) as (P & E & q & Hq & ->).
  rewrite nth_error_map, Hk in Hq. cbn [option_map] in Hq. injection Hq as <- <- <-.
  pose proof (forallb_nth_error agree cs k c Hag Hk) as Hc1.
  rewrite Forall_forall in Hsv. rewrite <- (Hsv c (nth_error_In cs k Hk)).
  exact Hc1.
Qed.
