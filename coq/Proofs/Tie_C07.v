(* C07: the integer decisions of the two majority strategies in the model (Model/C07_Strategies.v)
   equal the gotrans transcription (coq/Gen/Pure_C07.v, regenerated on every run from
   strategies/attestationdata/majority/attestationdata.go and
   strategies/beaconblockroot/majority/beaconblockroot.go): the early-exit count of the collection
   loops, one step of the final selection over the map of candidates, and the two refusal tests. *)
From Coq Require Import ZArith NArith Lia Bool List.
From Coq Require Import ZifyBool ZifyN.
From Verif Require Import Lib.Base Lib.GoInt Proofs.TieLib Gen.Pure_C07 Model.C07_Strategies.
Local Open Scope Z_scope.
Ltac Zify.zify_post_hook ::= Z.div_mod_to_equations.

Lemma half_plus_one (requests : Z) : 0 <= requests < two63 - 1 ->
  i64 (i64 (Z.quot requests 2) + 1) = requests / 2 + 1.
Proof.
  intro H. rewrite Z.quot_div_nonneg by lia.
  assert (0 <= requests / 2 < two63 - 1) by (unfold two63 in *; lia).
  rewrite (i64_id (requests / 2)) by (unfold in_i64, two63 in *; lia).
  apply i64_id. unfold in_i64, two63 in *. lia.
Qed.

Lemma tie_att_exit1 (requests threshold : Z) : 0 <= requests < two63 - 1 ->
  att_exit requests threshold = attmajority_exitCountLoop1 threshold requests.
Proof.
  intro H. unfold att_exit, attmajority_exitCountLoop1. rewrite (half_plus_one requests H).
  destruct (threshold >? requests / 2 + 1) eqn:E; lia.
Qed.

Lemma tie_att_exit2 (requests threshold : Z) : 0 <= requests < two63 - 1 ->
  att_exit requests threshold = attmajority_exitCountLoop2 threshold requests.
Proof.
  intro H. unfold att_exit, attmajority_exitCountLoop2. rewrite (half_plus_one requests H).
  destruct (threshold >? requests / 2 + 1) eqn:E; lia.
Qed.

Lemma tie_root_exit (requests : Z) : 0 <= requests < two63 - 1 ->
  requests / 2 + 1 = rootmajority_exitCount requests.
Proof. intro H. unfold rootmajority_exitCount. symmetry. apply half_plus_one. exact H. Qed.

(* one step of the selection: candidates are numbered by [id]; [bd] is the number of the current best
   (any number when there is none yet: the count is 0 then and the first candidate with a vote replaces it) *)
Section Select.
  Variable V : Type.
  Variable id : V -> N.
  Variable slot_of : V -> N.

  Definition best_id (b : option V) (dflt : N) : N := match b with Some v => id v | None => dflt end.

  Lemma tie_select_step_att (b : option V) (dflt : N) (bc : Z) (bs : N) (k : N) (v : V) (c : Z) :
    let '(b', bc', bs') := sel_step slot_of (b, bc, bs) (k, (v, c)) in
    attmajority_selectStep c (Z.of_N (slot_of v)) (Z.of_N (best_id b dflt)) bc (Z.of_N bs) (Z.of_N (id v)) =
    (Z.of_N (best_id b' dflt), bc', Z.of_N bs').
  Proof.
    unfold sel_step, attmajority_selectStep.
    replace (c >? bc) with (bc <? c) by lia.
    destruct (bc <? c) eqn:E1; [reflexivity|].
    destruct (c =? bc) eqn:E2; [|reflexivity].
    rewrite of_N_gtb. destruct (bs <? slot_of v)%N eqn:E3; [|reflexivity].
    cbn [best_id]. replace bc with c by lia. reflexivity.
  Qed.

  Lemma tie_select_step_root (b : option V) (dflt : N) (bc : Z) (bs : N) (k : N) (v : V) (c : Z) :
    let '(b', bc', bs') := sel_step slot_of (b, bc, bs) (k, (v, c)) in
    rootmajority_selectStep c (Z.of_N (slot_of v)) (Z.of_N (best_id b dflt)) bc (Z.of_N bs) (Z.of_N (id v)) =
    (Z.of_N (best_id b' dflt), bc', Z.of_N bs').
  Proof.
    unfold sel_step, rootmajority_selectStep.
    replace (c >? bc) with (bc <? c) by lia.
    destruct (bc <? c) eqn:E1; [reflexivity|].
    destruct (c =? bc) eqn:E2; [|reflexivity].
    rewrite of_N_gtb. destruct (bs <? slot_of v)%N eqn:E3; [|reflexivity].
    cbn [best_id]. replace bc with c by lia. reflexivity.
  Qed.

  (* the result: refused when nothing was received or the best count is below the threshold *)
  Lemma tie_maj_result (threshold : Z) (order : table (V := V)) :
    maj_result slot_of threshold order =
    (let '(bd, bc, _) := select slot_of order in
     if attmajority_nothingReceived bc then None
     else if attmajority_belowThreshold threshold bc then None else bd).
  Proof. unfold maj_result, attmajority_nothingReceived, attmajority_belowThreshold. reflexivity. Qed.

  Lemma tie_root_result (order : table (V := V)) :
    maj_result slot_of 0 order =
    (let '(bd, bc, _) := select slot_of order in
     if rootmajority_nothingReceived bc then None else if bc <? 0 then None else bd).
  Proof. unfold maj_result, rootmajority_nothingReceived. reflexivity. Qed.
End Select.
