(* C02 -- more script-level theorems: a RunJob call that returned nil means the job runs; a
   CancelJob that returned nil in a script ending before the job's time means it never runs,
   whatever happens afterwards.  They rest on the converse of [oinv]: a call of the script that
   returned nil has raised the machine's [run_ok] / [cancel_ok] flag. *)
From Coq Require Import PArith FMapPositive.
From Verif Require Import Lib.Base Lib.Sched Lib.Reach Model.C02_Scheduler Model.C02_Script.
From Verif Require Import Proofs.C02 Proofs.C02_Script Proofs.C02_ScriptExact.
From Coq Require Import ZifyBool ZifyN ZifyNat.

Definition call_act (a : act) : bool :=
  match a with RunLookup | CancelLookup | CtxCancel | REnter | RStep | RReset | CStep => true | _ => false end.

(* flags are never lowered; only TimerFire raises timer_due *)
Lemma step_flags_mono : forall cf c a c', step cf c a = Some c' ->
    (run_ok c = true -> run_ok c' = true) /\ (cancel_ok c = true -> cancel_ok c' = true)
    /\ (panicked c = true -> panicked c' = true)
    /\ (a <> TimerFire -> timer_due c' = true -> timer_due c = true).
Proof.
  intros cf c a c' H.
  destruct a; cbn [step] in H;
    unfold g_pick, g_step, g_return, g_rt, run_lookup, r_enter, r_step, r_reset, cancel_lookup, c_step,
           call_job, return_job, finalise in H;
    break_hyp H; injection H as <-;
    cbn [run_ok cancel_ok panicked timer_due set_g set_r set_c set_table set_active set_finalised set_runq set_cancelq
         set_timer set_ctx set_counts set_run_ok set_cancel_ok set_panic];
    repeat split; intros; try assumption; try reflexivity; try congruence.
Qed.

Lemma rstep_done_nil : forall cf c a c', step cf c a = Some c' -> (a = RStep \/ a = REnter) ->
    r_pc c' = RDone Nil -> run_ok c' = true \/ panicked c' = true.
Proof.
  intros cf c a c' H [-> | ->] Hr; cbn [step] in H; unfold r_step, r_enter in H;
    break_hyp H; injection H as <-;
    cbn [r_pc run_ok panicked set_r set_active set_runq set_run_ok set_panic] in Hr |- *;
    try discriminate Hr; auto.
Qed.

Lemma cstep_done_nil : forall cf c c', step cf c CStep = Some c' ->
    c_pc c' = CDone Nil -> cancel_ok c' = true \/ panicked c' = true.
Proof.
  intros cf c c' H Hr; cbn [step] in H; unfold c_step in H;
    break_hyp H; injection H as <-;
    cbn [c_pc cancel_ok panicked set_c set_finalised set_cancelq set_cancel_ok set_panic] in Hr |- *;
    try discriminate Hr; auto.
Qed.

(* a path of call actions *)
Inductive cpath (cf : config) : jstate -> jstate -> Prop :=
| cp_refl : forall c, cpath cf c c
| cp_step : forall c a c1 c2, call_act a = true -> step cf c a = Some c1 -> cpath cf c1 c2 -> cpath cf c c2.

Lemma cpath_one : forall cf c a c', call_act a = true -> step cf c a = Some c' -> cpath cf c c'.
Proof. intros; eapply cp_step; eauto; apply cp_refl. Qed.

Lemma cpath_mono : forall cf c c', cpath cf c c' ->
    (run_ok c = true -> run_ok c' = true) /\ (cancel_ok c = true -> cancel_ok c' = true)
    /\ (panicked c = true -> panicked c' = true) /\ (timer_due c' = true -> timer_due c = true).
Proof.
  intros cf c c' H; induction H as [c | c a c1 c2 Ha Hs Hp IH]; [tauto|].
  destruct (step_flags_mono _ _ _ _ Hs) as [H1 [H2 [H3 H4]]]. destruct IH as [I1 [I2 [I3 I4]]].
  repeat split; auto. intro Ht. apply H4; [destruct a; discriminate | auto].
Qed.

(* what a call move is *)
Lemma call_moves_char : forall sc now t i cl st t', In t' (call_moves sc now t i cl st) ->
    exists st' c', t' = with_call t i st' c' /\ st <> Ret Nil /\ cpath (sc_cfg sc) (t_core t) c'
      /\ (st' = Ret Nil -> cl_kind cl = KRun -> run_ok c' = true \/ panicked c' = true)
      /\ (st' = Ret Nil -> cl_kind cl = KCancel -> cancel_ok c' = true \/ panicked c' = true).
Proof.
  intros sc now t i cl st t' H. unfold call_moves in H.
  assert (Hsame : forall st', st' <> Ret Nil -> st <> Ret Nil ->
            exists st'' c', with_call t i st' (t_core t) = with_call t i st'' c' /\ st <> Ret Nil /\ cpath (sc_cfg sc) (t_core t) c'
              /\ (st'' = Ret Nil -> cl_kind cl = KRun -> run_ok c' = true \/ panicked c' = true)
              /\ (st'' = Ret Nil -> cl_kind cl = KCancel -> cancel_ok c' = true \/ panicked c' = true)).
  { intros st' Hne Hst. exists st', (t_core t). repeat split; auto; try apply cp_refl; intro; congruence. }
  assert (Hstep : forall st' a c', st' <> Ret Nil -> st <> Ret Nil -> call_act a = true -> step (sc_cfg sc) (t_core t) a = Some c' ->
            exists st'' c'', with_call t i st' c' = with_call t i st'' c'' /\ st <> Ret Nil /\ cpath (sc_cfg sc) (t_core t) c''
              /\ (st'' = Ret Nil -> cl_kind cl = KRun -> run_ok c'' = true \/ panicked c'' = true)
              /\ (st'' = Ret Nil -> cl_kind cl = KCancel -> cancel_ok c'' = true \/ panicked c'' = true)).
  { intros st' a c' Hne Hst Ha Hs. exists st', c'. repeat split; auto; try (eapply cpath_one; eauto); intro; congruence. }
  destruct st; try (destruct H; fail).
  - (* Waiting *)
    assert (Hw : Waiting <> Ret Nil) by discriminate.
    destruct (cl_at cl <=? now); [|destruct H].
    destruct (cl_kind cl) eqn:Ekind.
    + destruct (in_table (t_core t)).
      * destruct (step (sc_cfg sc) (t_core t) RunLookup) as [c'|] eqn:E; [|destruct H].
        destruct H as [<-|[]]. refine (Hstep _ RunLookup c' _ Hw eq_refl E). destruct (sc_kind sc); discriminate.
      * destruct H as [<-|[]]. apply Hsame; [discriminate | exact Hw].
    + destruct (in_table (t_core t)).
      * destruct (step (sc_cfg sc) (t_core t) CancelLookup) as [c'|] eqn:E; [|destruct H].
        destruct H as [<-|[]]. refine (Hstep _ CancelLookup c' _ Hw eq_refl E). discriminate.
      * destruct H as [<-|[]]. apply Hsame; [discriminate | exact Hw].
    + (* KCtx: returns nil, kind is neither KRun nor KCancel *)
      destruct H as [<-|[]].
      destruct (step (sc_cfg sc) (t_core t) CtxCancel) as [c'|] eqn:E.
      * exists (Ret Nil), c'. repeat split; auto; try exact (cpath_one _ _ CtxCancel _ eq_refl E); intros; congruence.
      * exists (Ret Nil), (t_core t). repeat split; auto; try apply cp_refl; intros; congruence.
    + destruct H as [<-|[]].
      exists (Ret (if in_table (t_core t) then ErrJobAlreadyExists else Nil)), (t_core t).
      repeat split; auto; try apply cp_refl; intros; congruence.
    + destruct H as [<-|[]]. apply Hsame; [discriminate | exact Hw].
  - (* HasPtr *)
    destruct (step (sc_cfg sc) (t_core t) REnter) as [c'|] eqn:E; [|destruct H].
    destruct H as [<-|[]]. refine (Hstep _ REnter c' _ _ eq_refl E); discriminate.
  - (* InSlot *)
    assert (Hw : InSlot <> Ret Nil) by discriminate.
    destruct (cl_kind cl) eqn:Ekind; try (destruct H; fail).
    + set (next := match r_pc (t_core t) with RHave => step (sc_cfg sc) (t_core t) REnter | _ => step (sc_cfg sc) (t_core t) RStep end) in H.
      destruct next as [c'|] eqn:E; [|destruct H].
      assert (Hn : exists a, (a = RStep \/ a = REnter) /\ step (sc_cfg sc) (t_core t) a = Some c').
      { subst next. destruct (r_pc (t_core t)); [exists RStep | exists REnter | exists RStep | exists RStep | exists RStep | exists RStep | exists RStep];
          (split; [auto | exact E]). }
      destruct Hn as [a [Ha Hs]].
      assert (Hca : call_act a = true) by (destruct Ha as [-> | ->]; reflexivity).
      destruct (r_pc c') as [| | | | | |code] eqn:Er;
        try (destruct H as [<-|[]]; refine (Hstep _ a c' _ Hw Hca Hs); discriminate).
      destruct H as [<-|[]].
      destruct (step (sc_cfg sc) c' RReset) as [c''|] eqn:E2.
      * exists (Ret code), c''. repeat split; auto.
        -- eapply cp_step; [exact Hca | exact Hs | exact (cpath_one _ _ RReset _ eq_refl E2)].
        -- intros Hc _. injection Hc as ->.
           destruct (rstep_done_nil _ _ _ _ Hs Ha Er) as [Hr | Hr];
             destruct (step_flags_mono _ _ _ _ E2) as [M1 [_ [M3 _]]]; auto.
        -- intros _ Hk. congruence.
      * exists (Ret code), c'. repeat split; auto.
        -- exact (cpath_one _ _ a _ Hca Hs).
        -- intros Hc _. injection Hc as ->. exact (rstep_done_nil _ _ _ _ Hs Ha Er).
        -- intros _ Hk. congruence.
    + destruct (step (sc_cfg sc) (t_core t) CStep) as [c'|] eqn:E; [|destruct H].
      destruct (c_pc c') as [| | | | |code] eqn:Ec;
        try (destruct H as [<-|[]]; refine (Hstep _ CStep c' _ Hw eq_refl E); discriminate).
      destruct H as [<-|[]]. exists (Ret code), c'. repeat split; auto.
      * exact (cpath_one _ _ CStep _ eq_refl E).
      * intros _ Hk. congruence.
      * intros Hc _. injection Hc as ->. exact (cstep_done_nil _ _ _ E Ec).
Qed.

(* ---------------------------------------------------------------------------------------------
   the converse invariant: a RunJob / CancelJob call of the script that returned nil has raised
   run_ok / cancel_ok (or a channel operation panicked, which the reachability theorems exclude) *)

Section Converse.
  Variable sc : script.

  Definition ret_nil_flag (k : ckind) (flag : jstate -> bool) (t : tstate) : Prop :=
    forall i cl, nth_error (sc_calls sc) i = Some cl -> cl_kind cl = k ->
                 nth_error (t_calls t) i = Some (Ret Nil) -> flag (t_core t) = true \/ panicked (t_core t) = true.

  Definition cinv (t : tstate) : Prop := ret_nil_flag KRun run_ok t /\ ret_nil_flag KCancel cancel_ok t.

  Lemma cinv_call_move : forall now t i cl st t',
      cinv t -> nth_error (sc_calls sc) i = Some cl -> nth_error (t_calls t) i = Some st ->
      In t' (call_moves sc now t i cl st) -> cinv t'.
  Proof.
    intros now t i cl st t' [Cr Cc] Hcl Hst H.
    destruct (call_moves_char _ _ _ _ _ _ _ H) as [st' [c' [-> [Hne [Hp [Hr Hc]]]]]].
    destruct (cpath_mono _ _ _ Hp) as [M1 [M2 [M3 _]]].
    assert (Hlt : (i < length (t_calls t))%nat) by (apply nth_error_Some; congruence).
    split; intros j cl' H1 H2 H3; cbn [t_core with_call]; rewrite with_call_calls in H3;
      (destruct (Nat.eq_dec i j) as [<-|Hij];
       [ rewrite upd_nth_same in H3 by exact Hlt; injection H3 as ->;
         rewrite Hcl in H1; injection H1 as <-; auto
       | rewrite upd_nth_other in H3 by assumption ]).
    - destruct (Cr j cl' H1 H2 H3); auto.
    - destruct (Cc j cl' H1 H2 H3); auto.
  Qed.

  Lemma cinv_holds : forall t, In t (finals sc) -> cinv t.
  Proof.
    intros t Ht. apply (finals_inv sc cinv); [ | | exact Ht].
    - intros now x x' [Cr Cc] Hm. unfold moves in Hm. apply in_app_or in Hm as [Hm|Hm].
      + destruct (g_moves_shape sc now x x' Hm) as [Hc [_ [a [Hga Hs]]]].
        destruct (step_flags_mono _ _ _ _ Hs) as [M1 [M2 [M3 _]]].
        split; intros j cl H1 H2 H3; rewrite Hc in H3.
        * destruct (Cr j cl H1 H2 H3); auto.
        * destruct (Cc j cl H1 H2 H3); auto.
      + apply all_call_moves_in in Hm as [k [cl [st [H1 [H2 H3]]]]].
        eapply cinv_call_move; [split; [exact Cr | exact Cc] | exact H1 | exact H2 | exact H3].
    - split; intros j cl H1 H2 H3; cbn [t_init t_calls] in H3; rewrite nth_error_map in H3;
        destruct (nth_error (sc_calls sc) j); discriminate H3.
  Qed.
End Converse.

Lemma safe_of : forall c, In c R_F -> runs c <= 1 /\ panicked c = false.
Proof.
  intros c Hc. pose proof safe_F as H. rewrite forallb_forall in H. specialize (H c Hc).
  unfold p_safe in H. apply andb_prop in H as [H H3]. apply andb_prop in H as [H1 _].
  apply N.leb_le in H1. apply negb_true_iff in H3. auto.
Qed.

(* "an early-run request that reports success means the job runs", for every one-off script: a
   final state in which some RunJob call returned nil, no context cancellation was issued and
   jobFunc is not in progress has exactly one start -- whatever else the script did and whether or
   not the job's time lies inside the script *)
Theorem script_run_success_runs : forall sc, sc_kind sc = OneOff -> sc_variant sc = Fixed ->
  forall t, In t (finals sc) ->
    (exists i cl, nth_error (sc_calls sc) i = Some cl /\ cl_kind cl = KRun /\ nth_error (t_calls t) i = Some (Ret Nil)) ->
    no_ret_nil sc KCtx (t_calls t) -> running (t_core t) = 0 ->
    length (o_starts (outcome_of t)) = 1%nat.
Proof.
  intros sc Hk Hv t Ht [i [cl [H1 [H2 H3]]]] Hnx Hrun.
  pose proof (full_inv_holds sc Hk Hv t Ht) as [Hs K].
  pose proof (core_in_RF sc Hk Hv t Hs) as HR.
  destruct (safe_of _ HR) as [_ Hnp].
  destruct (cinv_holds sc t Ht) as [Cr _].
  assert (Hok : run_ok (t_core t) = true) by (destruct (Cr i cl H1 H2 H3); [assumption | congruence]).
  assert (Hctx : ctx_done (t_core t) = false).
  { destruct (ctx_done (t_core t)) eqn:E; [|reflexivity].
    destruct (oi_ctx sc t (oinv_holds sc t Ht) E) as [j [cl' [J1 [J2 J3]]]]. exfalso. exact (Hnx j cl' J1 J2 J3). }
  pose proof (stuck_quiescent sc Hk Hv t (sc_end sc) (conj Hs K) (finals_stuck sc t Ht) Hrun) as Hq.
  pose proof run_ok_F as Hp. rewrite forallb_forall in Hp. specialize (Hp _ HR).
  unfold p_run_ok in Hp. rewrite Hq, Hok, Hctx in Hp. cbn in Hp. apply N.eqb_eq in Hp.
  unfold outcome_of; cbn [o_starts]. rewrite rev_length.
  destruct Hs as [_ Hlen]. rewrite Hp in Hlen. symmetry in Hlen.
  unfold sat2 in Hlen. destruct (2 <=? N.of_nat (length (t_starts t))) eqn:E; lia.
Qed.

(* ---------------------------------------------------------------------------------------------
   cancelled clearly before its time: scripts that end before the job's time *)

(* a successful cancel with the timer not yet expired: the job has not run and is not running *)
Definition p_cancelled (s : jstate) : bool :=
  negb (cancel_ok s && negb (timer_due s)) || ((runs s =? 0) && (running s =? 0)).
Lemma cancelled_F : forallb p_cancelled R_F = true. Proof. vm_compute; reflexivity. Qed.

Lemma fold_inv_in : forall {T} (f : list T -> N -> list T) (P : T -> Prop) l,
    (forall now, In now l -> forall ts, (forall t, In t ts -> P t) -> forall t, In t (f ts now) -> P t) ->
    forall ts, (forall t, In t ts -> P t) -> forall t, In t (fold_left f l ts) -> P t.
Proof.
  intros T f P l; induction l as [|now l IH]; intros Hf ts Hts t Ht.
  - apply Hts; exact Ht.
  - change (fold_left f (now :: l) ts) with (fold_left f l (f ts now)) in Ht.
    eapply IH; [ | | exact Ht].
    + intros n Hn. apply Hf. right; exact Hn.
    + apply Hf; [left; reflexivity | exact Hts].
Qed.

Lemma instants_bound : forall n from x, In x (instants n from) -> x < from + N.of_nat n.
Proof.
  induction n as [|n IH]; intros from x H; [destruct H|].
  cbn [instants] in H. destruct H as [<-|H]; [lia|]. apply IH in H. lia.
Qed.

Lemma finals_inv_bounded : forall sc (P : tstate -> Prop),
    (forall now t t', now <= sc_end sc -> P t -> In t' (moves sc now t) -> P t') -> P (t_init sc) ->
    forall t, In t (finals sc) -> P t.
Proof.
  intros sc P Hm H0 t Ht. unfold finals in Ht.
  refine (fold_inv_in (fun ts now => settle sc now ts) P _ _ [t_init sc] _ t Ht).
  - intros now Hn ts Hts x Hx. apply instants_bound in Hn.
    assert (Hle : now <= sc_end sc) by lia.
    exact (settle_inv sc P now ts (fun a b => Hm now a b Hle) Hts x Hx).
  - intros x [<-|[]]; exact H0.
Qed.

(* before its deadline the timer cannot fire: the goroutine's moves at such an instant *)
Lemma g_moves_before : forall sc now t t', (t_deadline t <=? now) = false -> In t' (g_moves sc now t) ->
    exists a, a <> TimerFire /\ step (sc_cfg sc) (t_core t) a = Some (t_core t').
Proof.
  intros sc now t t' Hd H. unfold g_moves in H. rewrite Hd in H.
  assert (Hcore : forall a, a <> TimerFire ->
            In t' (map (with_core t) (opt_list (step (sc_cfg sc) (t_core t) a))) ->
            exists a, a <> TimerFire /\ step (sc_cfg sc) (t_core t) a = Some (t_core t')).
  { intros a Ha Hin. apply in_map_opt in Hin as [c' [Hs ->]]. exists a; auto. }
  destruct (g_pc (t_core t)) eqn:Hg; try (apply (Hcore GStep); [discriminate | exact H]).
  - destruct (0 <? t_rt_left t); apply in_map_opt in H as [c' [Hs ->]];
      [exists (GRtOut RtNext) | exists (GRtOut RtStop)]; split; try discriminate; exact Hs.
  - cbn [app] in H. repeat (apply in_app_or in H as [H|H]).
    + apply (Hcore (GPick BCtx)); [discriminate | exact H].
    + apply (Hcore (GPick BCancel)); [discriminate | exact H].
    + apply (Hcore (GPick BRun)); [discriminate | exact H].
    + apply (Hcore (GPick BTimer)); [discriminate | exact H].
  - apply in_map_opt in H as [c' [Hs ->]]. exists GStep; split; [discriminate | exact Hs].
  - destruct (t_busy_until t <=? now); [|destruct H]. apply (Hcore JobReturn); [discriminate | exact H].
  - apply in_map_opt in H as [c' [Hs ->]]. exists GStep; split; [discriminate | exact Hs].
  - destruct (t_busy_until t <=? now); [|destruct H]. apply (Hcore JobReturn); [discriminate | exact H].
Qed.

Section Before.
  Variable sc : script.
  Hypothesis Hk : sc_kind sc = OneOff.
  Hypothesis Hv : sc_variant sc = Fixed.
  Hypothesis Hend : sc_end sc < sc_due sc.

  (* in such a script the timer never expires *)
  Definition binv (t : tstate) : Prop := full_inv sc t /\ timer_due (t_core t) = false.

  Lemma binv_holds : forall t, In t (finals sc) -> binv t.
  Proof.
    intros t Ht. apply (finals_inv_bounded sc binv); [ | | exact Ht].
    - intros now x x' Hle [[Hs K] Hd] Hm.
      assert (Hfull : full_inv sc x').
      { split.
        + pose proof (moves_rel _ _ _ _ Hm) as Hr. unfold move_rel in Hr. exact (msteps_inv _ _ _ Hr Hs).
        + unfold moves in Hm. apply in_app_or in Hm as [Hm|Hm].
          * eapply g_moves_kinv; [exact K | apply (core_in_RF sc Hk Hv); exact Hs | exact Hm].
          * apply all_call_moves_in in Hm as [k [cl [st [H1 [H2 H3]]]]].
            eapply (call_moves_kinv sc Hk); [exact K | exact H1 | exact H2 | exact H3]. }
      split; [exact Hfull|].
      destruct (timer_due (t_core x')) eqn:E; [exfalso | reflexivity].
      unfold moves in Hm. apply in_app_or in Hm as [Hm|Hm].
      + assert (Hdl : (t_deadline x <=? now) = false) by (rewrite (k_dl sc x K); apply N.leb_gt; lia).
        destruct (g_moves_before sc now x x' Hdl Hm) as [a [Ha Hst]].
        destruct (step_flags_mono _ _ _ _ Hst) as [_ [_ [_ M4]]]. rewrite (M4 Ha E) in Hd. discriminate Hd.
      + apply all_call_moves_in in Hm as [k [cl [st [H1 [H2 H3]]]]].
        destruct (call_moves_char _ _ _ _ _ _ _ H3) as [st' [c' [-> [_ [Hp _]]]]].
        destruct (cpath_mono _ _ _ Hp) as [_ [_ [_ M4]]]. cbn [t_core with_call] in E.
        rewrite (M4 E) in Hd. discriminate Hd.
    - split; [|reflexivity]. split.
      + split; [exists []; reflexivity | reflexivity].
      + constructor; cbn [t_init t_calls t_deadline t_core].
        * apply map_length.
        * rewrite Hk; reflexivity.
        * unfold init; cbn. discriminate.
        * unfold init; cbn. discriminate.
        * intro i. rewrite nth_error_map. destruct (nth_error (sc_calls sc) i); discriminate.
  Qed.

  (* a CancelJob call returned nil: the job has not run, and NO continuation of the job machine
     -- timer expiry, further run requests, anything, in any order and number -- ever runs it *)
  Theorem script_cancel_before_due : forall t, In t (finals sc) ->
      (exists i cl, nth_error (sc_calls sc) i = Some cl /\ cl_kind cl = KCancel /\ nth_error (t_calls t) i = Some (Ret Nil)) ->
      o_starts (outcome_of t) = []
      /\ forall sch, runs (run (step cfF) sch (t_core t)) = 0.
  Proof.
    intros t Ht [i [cl [H1 [H2 H3]]]].
    destruct (binv_holds t Ht) as [[Hs K] Htd].
    pose proof (core_in_RF sc Hk Hv t Hs) as HR.
    destruct (safe_of _ HR) as [_ Hnp].
    destruct (cinv_holds sc t Ht) as [_ Cc].
    assert (Hok : cancel_ok (t_core t) = true) by (destruct (Cc i cl H1 H2 H3); [assumption | congruence]).
    pose proof cancelled_F as Hc. rewrite forallb_forall in Hc. specialize (Hc _ HR).
    unfold p_cancelled in Hc. rewrite Hok, Htd in Hc. cbn in Hc.
    apply andb_prop in Hc as [Hr0 Hrun0]. apply N.eqb_eq in Hr0, Hrun0.
    split.
    - unfold outcome_of; cbn [o_starts]. destruct Hs as [_ Hlen]. rewrite Hr0 in Hlen.
      destruct (t_starts t) as [|x l]; [reflexivity|]. exfalso.
      cbn [length] in Hlen. unfold sat2 in Hlen.
      destruct (2 <=? N.of_nat (Datatypes.S (length l))) eqn:E; lia.
    - pose proof (stuck_quiescent sc Hk Hv t (sc_end sc) (conj Hs K) (finals_stuck sc t Ht) Hrun0) as Hq.
      assert (Hin : In (t_core t) R_cbd).
      { apply (from_start p_cbd R_cbd R_cbd_start _ HR). unfold p_cbd. rewrite Hq, Hok, Htd. reflexivity. }
      intro sch.
      pose proof (always cfF R_cbd (fun s => runs s =? 0) R_cbd_closed R_cbd_norun _ Hin sch) as H.
      apply N.eqb_eq in H; exact H.
  Qed.
End Before.
