(* C05 + C06 composed: the block proposer model (Model/C05_Proposer.v) and the signer model
   (Model/C06_Signer.v) fit together.

   The two models overlap.  C05 transcribes Prepare / Propose AND, behind them, the signer's
   SignRANDAOReveal / SignBeaconBlockProposal for a protecting (remote) account: its events
   [EDomain ty epoch], [ESignRandao acct epoch dom] and [ESignBlock acct slot proposer parent state
   body dom] are the calls that reach the domain provider and the ACCOUNT.  C06 models the same two
   signer functions as functions of the REQUEST made of the signer service ([ReqRandao a slot],
   [ReqProposal a header]).  So there are two things to show:
     (1) composition: the request the proposer makes of the signer -- the one behind each such event:
         SignRANDAOReveal(account, duty.Slot()) and SignBeaconBlockProposal(account, the event's
         slot, proposer index and roots) -- is answered by the signer model with the signature over
         the specification's signing root for THE DUTY (C06's conclusion, whose only variable part,
         the slot of the request, is fixed by C05's theorems);
     (2) agreement: on that request the signer model asks the domain provider for exactly the
         (type, epoch) the proposer model records in [EDomain] / [dom], and hands the account exactly
         the fields of the proposer model's event -- the two transcriptions of the signer say the same.

   Coding of the domain type.  C05 writes a 4-byte domain type as its first byte (the other three
   are zero: harness/c05/env.go decodeDomain), Lib/Ssz.v as the big-endian number of the four bytes.
   [ssz_domain_type] is the map between them.  *)
From Coq Require Import List NArith Bool Lia.
From Coq Require Import ZifyBool ZifyN ZifyNat.
From Verif Require Import Lib.Base Lib.Ssz Model.C06_Signer Proofs.C06 Proofs.C06_Spec.
From Verif Require Model.C05_Proposer Proofs.C05 Proofs.C05_History Properties.C05 Properties.C06.
Import ListNotations.
Local Open Scope N_scope.

Module M5 := Verif.Model.C05_Proposer.
Module L5 := Verif.Proofs.C05.
Module H5 := Verif.Proofs.C05_History.
Module T5 := Verif.Properties.C05.
Module T6 := Verif.Properties.C06.

(* ------------------------------------------------------------------------------------------- *)
(* The interface between the two models *)

(* bytes (t, 0, 0, 0) read as Lib/Ssz.v reads a domain type *)
Definition ssz_domain_type (t : N) : N := t * 2 ^ 24.

Lemma ssz_domain_type_proposer : ssz_domain_type M5.DOMAIN_BEACON_PROPOSER = DOMAIN_BEACON_PROPOSER.
Proof. reflexivity. Qed.

Lemma ssz_domain_type_randao : ssz_domain_type M5.DOMAIN_RANDAO = DOMAIN_RANDAO.
Proof. reflexivity. Qed.

(* the header of a block as the proposer model knows it *)
Definition header_of_block (h : M5.hdr) : block_header :=
  BlockHeader (M5.h_slot h) (M5.h_proposer h) (M5.h_parent h) (M5.h_state h) (M5.h_body h).

(* the header Propose asks the signer to sign for a duty and a block: the DUTY's slot and validator
   index, the BLOCK's three roots (propose.go signProposalData) *)
Definition header_signed (d : M5.duty) (h : M5.hdr) : block_header :=
  BlockHeader (M5.d_slot d) (M5.d_validator d) (M5.h_parent h) (M5.h_state h) (M5.h_body h).

(* the request made of the signer service behind an account-level event of the proposer model;
   [slot] is the slot of the duty the call is for (SignRANDAOReveal is given duty.Slot()) *)
Definition request_of_event (acc : account) (slot : N) (ev : M5.event) : option request :=
  match ev with
  | M5.ESignBlock _ s p pa st bo _ => Some (ReqProposal acc (BlockHeader s p pa st bo))
  | M5.ESignRandao _ _ _ => Some (ReqRandao acc slot)
  | _ => None
  end.

(* what the specification wants signed for a duty, given the event *)
Definition spec_message_of_event (d : M5.duty) (ev : M5.event) : option message :=
  match ev with
  | M5.ESignBlock _ _ _ pa st bo _ => Some (MBlock (BlockHeader (M5.d_slot d) (M5.d_validator d) pa st bo))
  | M5.ESignRandao _ _ _ => Some (MRandao (M5.d_slot d))
  | _ => None
  end.

(* the events of one call of a history *)
Definition out_events (o : M5.out) : list M5.event :=
  match o with
  | M5.OutPrepare _ evs _ => evs
  | M5.OutPropose _ r => M5.o_events r
  | M5.OutNoSuchDuty => []
  end.

(* the specification's signing roots, spelled out *)
Lemma spec_root_block : forall H ch hd,
  spec_signing_root H ch (MBlock hd)
  = compute_signing_root H (htr_block_header H hd)
      (get_domain H ch DOMAIN_BEACON_PROPOSER (compute_epoch_at_slot ch (bh_slot hd))).
Proof. reflexivity. Qed.

Lemma spec_root_randao : forall H ch slot,
  spec_signing_root H ch (MRandao slot)
  = compute_signing_root H (u64_chunk (compute_epoch_at_slot ch slot))
      (get_domain H ch DOMAIN_RANDAO (compute_epoch_at_slot ch slot)).
Proof. reflexivity. Qed.

(* ------------------------------------------------------------------------------------------- *)
(* Where the signing events of a run are *)

Lemma run_events_block_in_propose : forall c e d prep a s p pa st bo dom,
  In (M5.ESignBlock a s p pa st bo dom) (L5.run_events c e d prep) ->
  In (M5.ESignBlock a s p pa st bo dom) (M5.o_events (M5.propose c e (L5.run_duty c e d prep))).
Proof.
  intros c e d prep a s p pa st bo dom Hin. unfold L5.run_events in Hin.
  destruct (L5.run_unfold c e d prep) as (Hp & Hr). rewrite Hp, Hr in Hin.
  apply in_app_iff in Hin as [Hin|Hin]; [|exact Hin].
  destruct prep; [|destruct Hin]. apply L5.prepare_events in Hin as (Hf & _). discriminate.
Qed.

Lemma run_events_randao_in_prepare : forall c e d prep a ep dom,
  In (M5.ESignRandao a ep dom) (L5.run_events c e d prep) ->
  prep = true /\ In (M5.ESignRandao a ep dom) (snd (fst (M5.prepare c e d))).
Proof.
  intros c e d prep a ep dom Hin. unfold L5.run_events in Hin.
  destruct (L5.run_unfold c e d prep) as (Hp & Hr). rewrite Hp, Hr in Hin.
  apply in_app_iff in Hin as [Hin|Hin].
  - destruct prep; [auto|destruct Hin].
  - rewrite L5.propose_events in Hin. apply L5.sign_phase_no_randao in Hin. discriminate.
Qed.

(* the block signature request is the last request of the signing phase, and the one before it is
   the domain request *)
Lemma sign_phase_tail : forall c e d ev,
  In ev (fst (M5.sign_phase c e d)) -> L5.is_sign_block ev = true ->
  exists l, fst (M5.sign_phase c e d)
            = l ++ [M5.EDomain M5.DOMAIN_BEACON_PROPOSER (M5.d_slot d / M5.c_spe c); ev].
Proof.
  intros c e d ev Hin Hsb.
  pose proof (L5.sign_phase_course c e d) as Hc. destruct (M5.sign_phase c e d) as [evs o]. cbn [fst] in *.
  inversion Hc; subst.
  - destruct Hin.
  - apply L5.upto_proposal_no_sign in Hin as (Hf&_). congruence.
  - apply L5.in_snoc in Hin as [Hin| ->]; [apply L5.upto_proposal_no_sign in Hin as (Hf&_); congruence | discriminate].
  - apply L5.in_snoc in Hin as [Hin| ->].
    + apply L5.in_snoc in Hin as [Hin| ->]; [apply L5.upto_proposal_no_sign in Hin as (Hf&_); congruence | discriminate].
    + exists (L5.upto_proposal c e d acct). rewrite <- app_assoc. reflexivity.
  - apply L5.in_snoc in Hin as [Hin| ->].
    + apply L5.in_snoc in Hin as [Hin| ->]; [apply L5.upto_proposal_no_sign in Hin as (Hf&_); congruence | discriminate].
    + exists (L5.upto_proposal c e d acct). rewrite <- app_assoc. reflexivity.
Qed.

(* the RANDAO signature request is the last request of Prepare, after the domain request *)
Lemma prepare_tail : forall c e d a ep dom,
  In (M5.ESignRandao a ep dom) (snd (fst (M5.prepare c e d))) ->
  snd (fst (M5.prepare c e d))
  = [M5.EAccounts (M5.d_slot d / M5.c_spe c) [M5.d_validator d]]
      ++ [M5.EDomain (fst dom) (snd dom); M5.ESignRandao a ep dom]
  /\ ep = M5.d_slot d / M5.c_spe c /\ dom = (M5.DOMAIN_RANDAO, M5.d_slot d / M5.c_spe c).
Proof.
  intros c e d a ep dom. unfold M5.prepare.
  destruct (M5.e_accounts e) as [|m]; cbn [fst snd].
  { intros [Hx|[]]; discriminate. }
  destruct (Nat.eqb (length m) 1); cbn [negb fst snd].
  2:{ intros [Hx|[]]; discriminate. }
  destruct (M5.e_dom_randao e); cbn [negb fst snd].
  2:{ intros [Hx|[Hx|[]]]; discriminate. }
  destruct (M5.lookup_account (M5.d_validator d) m) as [a0|]; cbn [fst snd].
  2:{ intros [Hx|[Hx|[]]]; discriminate. }
  assert (Hall : In (M5.ESignRandao a ep dom)
                    ([M5.EAccounts (M5.d_slot d / M5.c_spe c) [M5.d_validator d]]
                       ++ [M5.EDomain M5.DOMAIN_RANDAO (M5.d_slot d / M5.c_spe c)]
                       ++ [M5.ESignRandao a0 (M5.d_slot d / M5.c_spe c) (M5.DOMAIN_RANDAO, M5.d_slot d / M5.c_spe c)]) ->
          ([M5.EAccounts (M5.d_slot d / M5.c_spe c) [M5.d_validator d]]
             ++ [M5.EDomain M5.DOMAIN_RANDAO (M5.d_slot d / M5.c_spe c)])
            ++ [M5.ESignRandao a0 (M5.d_slot d / M5.c_spe c) (M5.DOMAIN_RANDAO, M5.d_slot d / M5.c_spe c)]
          = [M5.EAccounts (M5.d_slot d / M5.c_spe c) [M5.d_validator d]]
              ++ [M5.EDomain (fst dom) (snd dom); M5.ESignRandao a ep dom]
          /\ ep = M5.d_slot d / M5.c_spe c /\ dom = (M5.DOMAIN_RANDAO, M5.d_slot d / M5.c_spe c)).
  { cbn [app]. intros [Hx|[Hx|[Hx|[]]]]; try discriminate. injection Hx as Ha He Hd. subst a0 ep dom. cbn [fst snd]. auto. }
  destruct (M5.e_sig_randao e); cbn [fst snd]; intro Hin; apply Hall; cbn [app] in *; exact Hin.
Qed.

(* ------------------------------------------------------------------------------------------- *)
(* (1) Composition: one duty *)

(* C06 on a block request, in the specification's own words *)
Lemma proposal_request_spec : forall (H : N -> N -> N) (sig : Type) (zero_sig : sig) (sign : N -> N -> sig) (ch : chain)
                                     (acc : account) (hd : block_header) (sigs : list sig),
  run H sig zero_sig (spec_provider H ch) (honest H sig sign) (spec_service ch) (ReqProposal acc hd) = Ok sigs ->
  sigs = [sign (a_key acc) (spec_signing_root H ch (MBlock hd))] /\ a_fail acc = false.
Proof.
  intros H sig zero_sig sign ch acc hd sigs Hrun.
  destruct (T6.C06_proposal_is_spec_root H sig zero_sig sign ch acc hd sigs Hrun) as (-> & Hf).
  split; [|exact Hf]. rewrite spec_root_block. unfold compute_epoch_at_slot. reflexivity.
Qed.

Lemma randao_request_spec : forall (H : N -> N -> N) (sig : Type) (zero_sig : sig) (sign : N -> N -> sig) (ch : chain)
                                   (acc : account) (slot : N) (sigs : list sig),
  run H sig zero_sig (spec_provider H ch) (honest H sig sign) (spec_service ch) (ReqRandao acc slot) = Ok sigs ->
  sigs = [sign (a_key acc) (spec_signing_root H ch (MRandao slot))] /\ a_fail acc = false.
Proof.
  intros H sig zero_sig sign ch acc slot sigs Hrun.
  destruct (T6.C06_randao_is_spec_root H sig zero_sig sign ch acc slot sigs Hrun) as (-> & Hf).
  split; [|exact Hf]. rewrite spec_root_randao. unfold compute_epoch_at_slot. reflexivity.
Qed.

(* Every block signature request of a run (Prepare if asked, then Propose), made of the signer model
   with the specification's service and provider and an honest account: the signature returned is
   the account's over the specification's signing root of the header (DUTY's slot, DUTY's validator
   index, the roots of the block the beacon node returned, which is a block of the duty's slot) with
   DOMAIN_BEACON_PROPOSER at the epoch of the DUTY's slot; and the (type, epoch) the proposer model
   recorded for the domain is that domain type and that epoch. *)
Lemma block_request_gets_spec_signature :
  forall (c : M5.config) (e : M5.env) (d : M5.duty) (prep : bool) a s p pa st bo dom,
    In (M5.ESignBlock a s p pa st bo dom) (L5.run_events c e d prep) ->
  forall (H : N -> N -> N) (sig : Type) (zero_sig : sig) (sign : N -> N -> sig) (ch : chain)
         (acc : account) (sigs : list sig),
    ch_spe ch = M5.c_spe c ->
    run H sig zero_sig (spec_provider H ch) (honest H sig sign) (spec_service ch)
        (ReqProposal acc (BlockHeader s p pa st bo)) = Ok sigs ->
    exists pr h,
      M5.e_proposal e = M5.POk pr /\ M5.p_block pr = Some h /\ M5.h_slot h = M5.d_slot d
      /\ BlockHeader s p pa st bo = header_signed d h
      /\ sigs = [sign (a_key acc)
                   (compute_signing_root H (htr_block_header H (header_signed d h))
                      (get_domain H ch DOMAIN_BEACON_PROPOSER (compute_epoch_at_slot ch (M5.d_slot d))))]
      /\ a_fail acc = false
      /\ dom = (M5.DOMAIN_BEACON_PROPOSER, compute_epoch_at_slot ch (M5.d_slot d))
      /\ ssz_domain_type (fst dom) = DOMAIN_BEACON_PROPOSER.
Proof.
  intros c e d prep a s p pa st bo dom Hin H sig zero_sig sign ch acc sigs Hspe Hrun.
  destruct (T5.C05_sign_only_duty_slot c e d prep) as (_ & Hb & _).
  destruct (Hb _ _ _ _ _ _ _ Hin) as (Hs & Hp & Hdom & _).
  apply run_events_block_in_propose in Hin.
  destruct (T5.C05_roots_of_obtained_block _ _ _ _ _ _ _ _ _ _ Hin) as (pr & h & Hpr & Hblk & _ & Hsl & _ & Hpa & Hst & Hbo).
  destruct (L5.run_duty_facts c e d prep) as (Hds & _ & _). rewrite Hds in Hsl.
  subst s p pa st bo dom.
  destruct (T6.C06_proposal_is_spec_root H sig zero_sig sign ch acc _ sigs Hrun) as (-> & Hf).
  exists pr, h. unfold header_signed, compute_epoch_at_slot. cbn [bh_slot fst]. rewrite Hspe.
  repeat split; auto.
Qed.

(* ... and the request IS answered whenever the account can sign at all *)
Lemma block_request_answered :
  forall (H : N -> N -> N) (sig : Type) (zero_sig : sig) (sign : N -> N -> sig) (ch : chain)
         (acc : account) (hd : block_header),
    a_fail acc = false -> (a_prot acc || a_signer acc = true) ->
    run H sig zero_sig (spec_provider H ch) (honest H sig sign) (spec_service ch) (ReqProposal acc hd)
    = Ok [sign (a_key acc) (spec_signing_root H ch (MBlock hd))].
Proof.
  intros H sig zero_sig sign ch acc hd Hf Hk. cbn [run].
  assert (Hd : p_domain (spec_provider H ch) (s_proposer (spec_service ch)) (bh_slot hd / s_spe (spec_service ch))
               = Some (get_domain H ch DOMAIN_BEACON_PROPOSER (bh_slot hd / ch_spe ch))).
  { cbn [p_domain spec_provider s_proposer s_spe spec_service]. reflexivity. }
  rewrite (T6.C06_proposal_paths_agree H sig sign (spec_provider H ch) (spec_service ch) acc hd _ Hf Hk Hd).
  rewrite spec_root_block. unfold compute_epoch_at_slot, one. reflexivity.
Qed.

(* Every RANDAO reveal request of a run: made by Prepare only; SignRANDAOReveal(account, duty slot)
   on the signer model gives get_epoch_signature of the epoch of the duty's slot: the account's
   signature over the epoch, with DOMAIN_RANDAO at that epoch; the proposer model recorded that very
   epoch as the object signed and (that type, that epoch) as the domain. *)
Lemma randao_request_gets_spec_signature :
  forall (c : M5.config) (e : M5.env) (d : M5.duty) (prep : bool) a ep dom,
    In (M5.ESignRandao a ep dom) (L5.run_events c e d prep) ->
  forall (H : N -> N -> N) (sig : Type) (zero_sig : sig) (sign : N -> N -> sig) (ch : chain)
         (acc : account) (sigs : list sig),
    ch_spe ch = M5.c_spe c ->
    run H sig zero_sig (spec_provider H ch) (honest H sig sign) (spec_service ch)
        (ReqRandao acc (M5.d_slot d)) = Ok sigs ->
    sigs = [sign (a_key acc)
              (compute_signing_root H (u64_chunk (compute_epoch_at_slot ch (M5.d_slot d)))
                 (get_domain H ch DOMAIN_RANDAO (compute_epoch_at_slot ch (M5.d_slot d))))]
    /\ a_fail acc = false
    /\ prep = true
    /\ ep = compute_epoch_at_slot ch (M5.d_slot d)
    /\ dom = (M5.DOMAIN_RANDAO, compute_epoch_at_slot ch (M5.d_slot d))
    /\ ssz_domain_type (fst dom) = DOMAIN_RANDAO.
Proof.
  intros c e d prep a ep dom Hin H sig zero_sig sign ch acc sigs Hspe Hrun.
  destruct (T5.C05_sign_only_duty_slot c e d prep) as (Hr & _).
  destruct (Hr _ _ _ Hin) as (Hprep & Hep & Hdom & _).
  destruct (T6.C06_randao_is_spec_root H sig zero_sig sign ch acc _ sigs Hrun) as (-> & Hf).
  subst ep dom. unfold compute_epoch_at_slot. rewrite Hspe. cbn [fst]. repeat split; auto.
Qed.

Lemma randao_request_answered :
  forall (H : N -> N -> N) (sig : Type) (zero_sig : sig) (sign : N -> N -> sig) (ch : chain)
         (acc : account) (slot : N),
    a_fail acc = false -> (a_prot acc || a_signer acc = true) ->
    run H sig zero_sig (spec_provider H ch) (honest H sig sign) (spec_service ch) (ReqRandao acc slot)
    = Ok [sign (a_key acc) (spec_signing_root H ch (MRandao slot))].
Proof.
  intros H sig zero_sig sign ch acc slot Hf Hk. cbn [run]. unfold sign_randao.
  cbn [p_domain spec_provider s_randao spec_service].
  rewrite (sign_one_able H sig sign acc _ _ Hf Hk). rewrite put_uint64_le_is_u64_chunk.
  rewrite spec_root_randao. unfold compute_epoch_at_slot, one, epoch_of. cbn [s_spe spec_service]. reflexivity.
Qed.

(* ------------------------------------------------------------------------------------------- *)
(* (2) Agreement of the two transcriptions of the signer, for ANY provider, account behaviour and
   service values: what C06's SignBeaconBlockProposal / SignRANDAOReveal do on the proposer's request
   is the domain request and the account call that C05 records. *)

Lemma sign_proposal_protecting :
  forall (H : N -> N -> N) (sig : Type) (P : provider) (E : env sig) (Sv : service) (acc : account) (hd : block_header),
    a_prot acc = true ->
    sign_proposal H sig P E Sv acc hd
    = match p_domain P (s_proposer Sv) (bh_slot hd / s_spe Sv) with
      | None => Err
      | Some dm => match e_prop E acc hd dm with Some x => Ok x | None => Err end
      end.
Proof. intros H sig P E Sv acc hd Hp. unfold sign_proposal, epoch_of. rewrite Hp. reflexivity. Qed.

Lemma sign_randao_protecting :
  forall (H : N -> N -> N) (sig : Type) (P : provider) (E : env sig) (Sv : service) (acc : account) (slot : N),
    a_prot acc = true ->
    sign_randao H sig P E Sv acc slot
    = match p_domain P (s_randao Sv) (slot / s_spe Sv) with
      | None => Err
      | Some dm => match e_generic E acc (put_uint64_le (slot / s_spe Sv)) dm with Some x => Ok x | None => Err end
      end.
Proof.
  intros H sig P E Sv acc slot Hp. unfold sign_randao, epoch_of, sign_one. rewrite Hp. reflexivity.
Qed.

Lemma block_call_agrees :
  forall (c : M5.config) (e : M5.env) (d : M5.duty) (prep : bool) a s p pa st bo dom,
    In (M5.ESignBlock a s p pa st bo dom) (L5.run_events c e d prep) ->
    (exists l, L5.run_events c e d prep
               = l ++ [M5.EDomain (fst dom) (snd dom); M5.ESignBlock a s p pa st bo dom])
    /\ ssz_domain_type (fst dom) = DOMAIN_BEACON_PROPOSER
    /\ forall (H : N -> N -> N) (sig : Type) (P : provider) (E : env sig) (Sv : service) (acc : account),
         s_spe Sv = M5.c_spe c -> a_prot acc = true ->
         sign_proposal H sig P E Sv acc (BlockHeader s p pa st bo)
         = match p_domain P (s_proposer Sv) (snd dom) with
           | None => Err
           | Some dm => match e_prop E acc (BlockHeader s p pa st bo) dm with Some x => Ok x | None => Err end
           end.
Proof.
  intros c e d prep a s p pa st bo dom Hin.
  destruct (T5.C05_sign_only_duty_slot c e d prep) as (_ & Hb & _).
  destruct (Hb _ _ _ _ _ _ _ Hin) as (Hs & Hp & Hdom & _).
  pose proof (run_events_block_in_propose _ _ _ _ _ _ _ _ _ _ _ Hin) as Hin'.
  rewrite L5.propose_events in Hin'.
  destruct (sign_phase_tail _ _ _ _ Hin' eq_refl) as (l & Hl).
  destruct (L5.run_duty_facts c e d prep) as (Hds & _ & _). rewrite Hds in Hl.
  subst dom. cbn [fst snd]. split; [|split; [reflexivity|]].
  - unfold L5.run_events. destruct (L5.run_unfold c e d prep) as (Hpe & Hr). rewrite Hr, L5.propose_events, Hl.
    exists (L5.run_prep_events c e d prep ++ l). rewrite <- app_assoc. reflexivity.
  - intros H sig P E Sv acc Hspe Hprot. rewrite (sign_proposal_protecting H sig P E Sv acc _ Hprot).
    cbn [bh_slot]. rewrite Hspe, Hs. reflexivity.
Qed.

Lemma randao_call_agrees :
  forall (c : M5.config) (e : M5.env) (d : M5.duty) (prep : bool) a ep dom,
    In (M5.ESignRandao a ep dom) (L5.run_events c e d prep) ->
    (exists l l', L5.run_events c e d prep
                  = l ++ [M5.EDomain (fst dom) (snd dom); M5.ESignRandao a ep dom] ++ l')
    /\ ssz_domain_type (fst dom) = DOMAIN_RANDAO
    /\ forall (H : N -> N -> N) (sig : Type) (P : provider) (E : env sig) (Sv : service) (acc : account),
         s_spe Sv = M5.c_spe c -> a_prot acc = true ->
         sign_randao H sig P E Sv acc (M5.d_slot d)
         = match p_domain P (s_randao Sv) (snd dom) with
           | None => Err
           | Some dm => match e_generic E acc (put_uint64_le ep) dm with Some x => Ok x | None => Err end
           end.
Proof.
  intros c e d prep a ep dom Hin.
  destruct (run_events_randao_in_prepare _ _ _ _ _ _ _ Hin) as (-> & Hin').
  destruct (prepare_tail _ _ _ _ _ _ Hin') as (Hl & Hep & Hdom).
  split; [|split].
  - unfold L5.run_events. destruct (L5.run_unfold c e d true) as (Hpe & Hr). rewrite Hpe, Hl.
    eexists; eexists. rewrite <- app_assoc. reflexivity.
  - subst dom. reflexivity.
  - intros H sig P E Sv acc Hspe Hprot. rewrite (sign_randao_protecting H sig P E Sv acc _ Hprot).
    subst ep dom. cbn [snd]. rewrite Hspe. reflexivity.
Qed.

(* ------------------------------------------------------------------------------------------- *)
(* (3) End to end: the signature the account answers in the proposer's environment IS the one the
   signer model returns for the request the proposer model makes. *)

(* the answer [e_sig_block e] of the environment is the signer's: whatever block signature request
   Propose makes, the signer model (specification service and provider, honest account [acc],
   signatures coded as numbers) returns that signature for it *)
Definition block_answer_is_signers (H : N -> N -> N) (sign : N -> N -> N) (ch : chain) (acc : account)
           (c : M5.config) (e : M5.env) (d : M5.duty) : Prop :=
  forall sg a s p pa st bo dom,
    M5.e_sig_block e = Some sg ->
    In (M5.ESignBlock a s p pa st bo dom) (M5.o_events (M5.propose c e d)) ->
    run H N 0 (spec_provider H ch) (honest H N sign) (spec_service ch)
        (ReqProposal acc (BlockHeader s p pa st bo)) = Ok [sg].

Lemma linked_signature :
  forall (H : N -> N -> N) (sign : N -> N -> N) (ch : chain) (acc : account) c e d acct h sg,
    block_answer_is_signers H sign ch acc c e d ->
    M5.e_sig_block e = Some sg ->
    In (L5.sign_block_event c d acct h) (M5.o_events (M5.propose c e d)) ->
    sg = sign (a_key acc) (spec_signing_root H ch (MBlock (header_signed d h))) /\ a_fail acc = false.
Proof.
  intros H sign ch acc c e d acct h sg Hlink Hsg Hin.
  unfold L5.sign_block_event in Hin. pose proof (Hlink _ _ _ _ _ _ _ _ Hsg Hin) as Hrun.
  destruct (proposal_request_spec H N 0 sign ch acc _ _ Hrun) as (Heq & Hf).
  injection Heq as ->. split; [reflexivity|exact Hf].
Qed.

(* a block that is not blinded: what is submitted is the obtained block with the account's signature
   over the specification's signing root of [header_signed d h] *)
Lemma submitted_block_signature :
  forall (H : N -> N -> N) (sign : N -> N -> N) (ch : chain) (acc : account) c e d pr t sp,
    block_answer_is_signers H sign ch acc c e d ->
    M5.e_proposal e = M5.POk pr -> M5.p_blinded pr = false ->
    M5.o_submit (M5.propose c e d) = Some (t, sp) ->
    exists h code,
      M5.p_block pr = Some h /\ M5.h_slot h = M5.d_slot d
      /\ M5.signed_container (M5.p_version pr) false = Some code
      /\ sp = L5.signed_proposal pr h (sign (a_key acc) (spec_signing_root H ch (MBlock (header_signed d h)))) code
      /\ a_fail acc = false.
Proof.
  intros H sign ch acc c e d pr t sp Hlink Hpr Hbl Hsub.
  destruct (T5.C05_submit_is_signed_block c e d pr t sp Hpr Hbl Hsub)
    as (acct & h & sg & code & _ & Hb & Hsl & Hsg & Hcode & -> & Hin & _).
  destruct (linked_signature H sign ch acc c e d acct h sg Hlink Hsg Hin) as (-> & Hf).
  exists h, code. auto.
Qed.

(* [header_signed d h] is the header of the submitted block exactly when the block's proposer index is
   the duty's validator index (its slot is the duty's slot by C05) *)
Lemma header_signed_is_own : forall d h,
  M5.h_slot h = M5.d_slot d ->
  (header_signed d h = header_of_block h <-> M5.h_proposer h = M5.d_validator d).
Proof.
  intros d h Hs. unfold header_signed, header_of_block. rewrite Hs. split.
  - intro Heq. injection Heq as Heq. auto.
  - intros ->. reflexivity.
Qed.

Lemma submitted_block_own_signature_partial :
  forall (H : N -> N -> N) (sign : N -> N -> N) (ch : chain) (acc : account) c e d pr h t sp,
    block_answer_is_signers H sign ch acc c e d ->
    M5.e_proposal e = M5.POk pr -> M5.p_blinded pr = false -> M5.p_block pr = Some h ->
    M5.h_proposer h = M5.d_validator d ->
    M5.o_submit (M5.propose c e d) = Some (t, sp) ->
    exists code,
      M5.signed_container (M5.p_version pr) false = Some code
      /\ sp = L5.signed_proposal pr h (sign (a_key acc) (spec_signing_root H ch (MBlock (header_of_block h)))) code.
Proof.
  intros H sign ch acc c e d pr h t sp Hlink Hpr Hbl Hb Hprop Hsub.
  destruct (submitted_block_signature H sign ch acc c e d pr t sp Hlink Hpr Hbl Hsub)
    as (h' & code & Hb' & Hsl & Hcode & -> & _).
  rewrite Hb in Hb'. injection Hb' as <-.
  exists code. split; [exact Hcode|].
  rewrite (proj2 (header_signed_is_own d h Hsl) Hprop). reflexivity.
Qed.

(* a blinded block: every request to a relay, whenever it is made, carries the obtained block with that signature *)
Lemma relay_requests_signature :
  forall (H : N -> N -> N) (sign : N -> N -> N) (ch : chain) (acc : account) c e d i calls k st rq,
    block_answer_is_signers H sign ch acc c e d ->
    nth_error (M5.o_unblind (M5.propose c e d)) i = Some calls ->
    nth_error calls k = Some (st, rq) ->
    exists pr h code,
      M5.e_proposal e = M5.POk pr /\ M5.p_blinded pr = true /\ M5.p_block pr = Some h /\ M5.h_slot h = M5.d_slot d
      /\ M5.signed_container (M5.p_version pr) true = Some code
      /\ let signed := L5.signed_proposal pr h (sign (a_key acc) (spec_signing_root H ch (MBlock (header_signed d h)))) code in
         rq = M5.unblind_request signed
      /\ a_fail acc = false.
Proof.
  intros H sign ch acc c e d i calls k st rq Hlink Hc Hk.
  destruct (T5.C05_relays_sent_signed_blinded_block c e d i calls k st rq Hc Hk)
    as (acct & pr & h & sg & code & w & al & rl & _ & Hpr & Hbl & Hb & Hsl & Hsg & Hcode & Hrq & Hin & _).
  destruct (linked_signature H sign ch acc c e d acct h sg Hlink Hsg Hin) as (-> & Hf).
  exists pr, h, code. repeat split; auto.
Qed.

(* ------------------------------------------------------------------------------------------- *)
(* (4) Histories of duties on one proposer, sessions on one signer *)

(* the signature the specification wants for duty [d] behind a signing event, with what the event
   carries tied to the block the beacon node returned for that duty *)
Definition spec_signature_for (H : N -> N -> N) (sig : Type) (sign : N -> N -> sig) (ch : chain) (acc : account)
           (e : M5.env) (d : M5.duty) (ev : M5.event) (sg : sig) : Prop :=
  match ev with
  | M5.ESignRandao _ ep dom =>
      sg = sign (a_key acc) (spec_signing_root H ch (MRandao (M5.d_slot d)))
      /\ ep = compute_epoch_at_slot ch (M5.d_slot d)
      /\ dom = (M5.DOMAIN_RANDAO, compute_epoch_at_slot ch (M5.d_slot d))
  | M5.ESignBlock _ s p pa st bo dom =>
      exists pr h, M5.e_proposal e = M5.POk pr /\ M5.p_block pr = Some h /\ M5.h_slot h = M5.d_slot d
        /\ BlockHeader s p pa st bo = header_signed d h
        /\ sg = sign (a_key acc) (spec_signing_root H ch (MBlock (header_signed d h)))
        /\ dom = (M5.DOMAIN_BEACON_PROPOSER, compute_epoch_at_slot ch (M5.d_slot d))
  | _ => False
  end.

(* the signing events of the k-th call of a history, a call for duty i *)
Lemma history_signing_event :
  forall (c : M5.config) (ops : list M5.op) (ds : list M5.dstate) (k : nat) (o : M5.op) (s : M5.dstate) (out : M5.out)
         (ev : M5.event) (acc : account) (q : request),
    nth_error ops k = Some o -> nth_error ds (H5.op_duty o) = Some s ->
    nth_error (M5.history c ds ops) k = Some out ->
    In ev (out_events out) ->
    request_of_event acc (M5.d_slot (M5.s_duty s)) ev = Some q ->
    (exists a, ev = M5.ESignRandao a (M5.d_slot (M5.s_duty s) / M5.c_spe c)
                                   (M5.DOMAIN_RANDAO, M5.d_slot (M5.s_duty s) / M5.c_spe c)
               /\ q = ReqRandao acc (M5.d_slot (M5.s_duty s)))
    \/ (exists a pr h, M5.e_proposal (M5.s_env s) = M5.POk pr /\ M5.p_block pr = Some h
                       /\ M5.h_slot h = M5.d_slot (M5.s_duty s)
                       /\ ev = M5.ESignBlock a (M5.d_slot (M5.s_duty s)) (M5.d_validator (M5.s_duty s))
                                             (M5.h_parent h) (M5.h_state h) (M5.h_body h)
                                             (M5.DOMAIN_BEACON_PROPOSER, M5.d_slot (M5.s_duty s) / M5.c_spe c)
                       /\ q = ReqProposal acc (header_signed (M5.s_duty s) h)).
Proof.
  intros c ops ds k o s out ev acc q Hk Hs Hout Hin Hq.
  destruct o as [i|i]; cbn [H5.op_duty] in Hs.
  - destruct (T5.C05_history_prepare_own_duty c ops ds k i s Hk Hs) as (evs & ok & Hh & Hev).
    rewrite Hh in Hout. injection Hout as <-. cbn [out_events] in Hin.
    destruct (Hev ev Hin) as (Hnb & Hr).
    destruct ev; cbn [request_of_event] in Hq; try discriminate.
    destruct (Hr eq_refl) as (m & a & _ & _ & _ & Heq). left. exists a. injection Hq as <-. auto.
  - destruct (T5.C05_history_propose_own_duty c ops ds k i s Hk Hs) as (r & Hh & Hev).
    rewrite Hh in Hout. injection Hout as <-. cbn [out_events] in Hin.
    destruct (Hev ev Hin) as (Hnr & Hb).
    destruct ev; cbn [request_of_event] in Hq; try discriminate.
    destruct (Hb eq_refl) as (a & pr & h & Hpr & Hblk & Hsl & Heq). right. exists a, pr, h.
    injection Hq as <-. injection Heq; intros; subst. unfold header_signed. auto 10.
Qed.

(* Any history of Prepare / Propose calls for any duties on one proposer, any session of requests on
   one signer (specification service, honest accounts; the other requests of the session and the
   provider answering them arbitrary): if the j-th request of the session is the request behind a
   signing event of the k-th call of the history -- a call for duty i -- answered by a node of the
   chain, and it is answered with signatures, then that is the one signature the specification wants
   for DUTY i (its slot, its validator, its epoch's fork), whatever else the proposer handled and the
   signer signed before. *)
Lemma history_session_spec :
  forall (c : M5.config) (ops : list M5.op) (ds : list M5.dstate) (k : nat) (o : M5.op) (s : M5.dstate) (out : M5.out)
         (ev : M5.event) (acc : account) (q : request),
    nth_error ops k = Some o -> nth_error ds (H5.op_duty o) = Some s ->
    nth_error (M5.history c ds ops) k = Some out ->
    In ev (out_events out) ->
    request_of_event acc (M5.d_slot (M5.s_duty s)) ev = Some q ->
  forall (H : N -> N -> N) (sig : Type) (zero_sig : sig) (sign : N -> N -> sig) (ch : chain)
         (qs : list (provider * request)) (j : nat) (sigs : list sig),
    ch_spe ch = M5.c_spe c ->
    nth_error qs j = Some (spec_provider H ch, q) ->
    nth_error (run_session H sig zero_sig (honest H sig sign) (spec_service ch) qs) j = Some (Ok sigs) ->
    exists sg, sigs = [sg]
               /\ spec_signature_for H sig sign ch acc (M5.s_env s) (M5.s_duty s) ev sg
               /\ a_fail acc = false.
Proof.
  intros c ops ds k o s out ev acc q Hk Hs Hout Hin Hq H sig zero_sig sign ch qs j sigs Hspe Hj Hses.
  rewrite (T6.C06_session_request_alone H sig zero_sig (honest H sig sign) (spec_service ch) qs j _ q Hj) in Hses.
  injection Hses as Hrun.
  destruct (history_signing_event c ops ds k o s out ev acc q Hk Hs Hout Hin Hq)
    as [(a & -> & ->) | (a & pr & h & Hpr & Hblk & Hsl & -> & ->)].
  - destruct (randao_request_spec H sig zero_sig sign ch acc _ sigs Hrun) as (-> & Hf).
    eexists. split; [reflexivity|]. split; [|exact Hf].
    cbn [spec_signature_for]. unfold compute_epoch_at_slot. rewrite Hspe. auto.
  - destruct (proposal_request_spec H sig zero_sig sign ch acc _ sigs Hrun) as (-> & Hf).
    eexists. split; [reflexivity|]. split; [|exact Hf].
    cbn [spec_signature_for]. exists pr, h. unfold compute_epoch_at_slot. rewrite Hspe.
    repeat split; auto.
Qed.

(* the same for a request made alone *)
Lemma history_request_spec :
  forall (c : M5.config) (ops : list M5.op) (ds : list M5.dstate) (k : nat) (o : M5.op) (s : M5.dstate) (out : M5.out)
         (ev : M5.event) (acc : account) (q : request),
    nth_error ops k = Some o -> nth_error ds (H5.op_duty o) = Some s ->
    nth_error (M5.history c ds ops) k = Some out ->
    In ev (out_events out) ->
    request_of_event acc (M5.d_slot (M5.s_duty s)) ev = Some q ->
  forall (H : N -> N -> N) (sig : Type) (zero_sig : sig) (sign : N -> N -> sig) (ch : chain) (sigs : list sig),
    ch_spe ch = M5.c_spe c ->
    run H sig zero_sig (spec_provider H ch) (honest H sig sign) (spec_service ch) q = Ok sigs ->
    exists sg, sigs = [sg]
               /\ spec_signature_for H sig sign ch acc (M5.s_env s) (M5.s_duty s) ev sg
               /\ a_fail acc = false.
Proof.
  intros c ops ds k o s out ev acc q Hk Hs Hout Hin Hq H sig zero_sig sign ch sigs Hspe Hrun.
  apply (history_session_spec c ops ds k o s out ev acc q Hk Hs Hout Hin Hq H sig zero_sig sign ch
           [(spec_provider H ch, q)] 0%nat sigs Hspe eq_refl).
  cbn. rewrite Hrun. reflexivity.
Qed.
