(* Lemmas for Lib/LocksetX.v: the lockset invariant of Proofs/Lockset.v is preserved by spawning and
   by finished threads starting new operations; run-time lock safety and isolation of critical
   sections follow from the same invariant. *)
From Verif Require Import Lib.Base Lib.Lockset Lib.LocksetX Proofs.Lockset.

Lemma nth_error_snoc {A} (l : list A) (a t : A) i :
  nth_error (l ++ [a]) i = Some t -> nth_error l i = Some t \/ (i = length l /\ t = a).
Proof.
  intro H. destruct (Nat.lt_ge_cases i (length l)) as [Hlt|Hge].
  - left. rewrite nth_error_app1 in H by exact Hlt. exact H.
  - right. rewrite nth_error_app2 in H by exact Hge.
    destruct (i - length l)%nat as [|k] eqn:Hk; cbn in H.
    + injection H as <-. split; [lia | reflexivity].
    + destruct k; discriminate.
Qed.

Lemma nth_error_some_lt {A} (l : list A) i t : nth_error l i = Some t -> (i < length l)%nat.
Proof. intro H. apply nth_error_Some. congruence. Qed.

Lemma holds_in m L : holds m L = true -> exists x, In (m, x) L.
Proof.
  unfold holds. intro H. apply existsb_exists in H as [[m' x] [Hin Hm]]. cbn in Hm.
  apply N.eqb_eq in Hm. subst m'. exists x. exact Hin.
Qed.

Lemma holds_mode_in m x L : holds_mode m x L = true -> In (m, x) L.
Proof.
  unfold holds_mode. intro H. apply existsb_exists in H as [p [Hin Hp]].
  apply lk_eqb_eq in Hp. subst p. exact Hin.
Qed.

Lemma in_holds m x L : In (m, x) L -> holds m L = true.
Proof. intro H. unfold holds. apply existsb_exists. exists (m, x). split; [exact H | cbn; apply N.eqb_refl]. Qed.

Section Dyn.
  Variable skip : field -> bool.
  Variable single : nat -> bool.
  Variable g : graph.
  Variable entries : list nat.
  Variable ls : assignment.
  Hypothesis Hentries : check_entries ls entries = true.
  Hypothesis Hnodes : check_nodes ls 0 g = true.
  Hypothesis Howner : forallb (check_owner g) g = true.

  Lemma entry_tinv e : In e entries -> tinv ls (At e, []).
  Proof.
    intro He. cbn. unfold check_entries in Hentries. rewrite forallb_forall in Hentries.
    apply ols_eqb_eq. apply Hentries. exact He.
  Qed.

  Lemma xstep_inv S S' : Inv single g ls S -> xstep single g entries S S' -> Inv single g ls S'.
  Proof.
    intros HI Hx. destruct Hx as [S S' Hst | S e He Hfree | S i L e Hi He Hfree].
    - apply (step_inv single g ls Hnodes Howner S S' HI Hst).
    - destruct HI as [Hcov [Hcomp Hown]]. split; [|split].
      + intros j tj Hj. apply nth_error_snoc in Hj as [Hj|[_ ->]]; [apply (Hcov j tj Hj) | apply entry_tinv; exact He].
      + intros a b ta tb Hab Ha Hb m xa xb Hina Hinb.
        apply nth_error_snoc in Ha as [Ha|[Ea ->]]; [|destruct Hina].
        apply nth_error_snoc in Hb as [Hb|[Eb ->]]; [|destruct Hinb].
        apply (Hcomp a b ta tb Hab Ha Hb m xa xb Hina Hinb).
      + intros a b ta tb o Hab Ha Hb Hoa Hob.
        apply nth_error_snoc in Ha as [Ha|[Ea ->]]; apply nth_error_snoc in Hb as [Hb|[Eb ->]].
        * apply (Hown a b ta tb o Hab Ha Hb Hoa Hob).
        * destruct (single o) eqn:Hs; [|reflexivity]. exfalso.
          apply (Hfree o Hob Hs a ta); [discriminate | exact Ha | exact Hoa].
        * destruct (single o) eqn:Hs; [|reflexivity]. exfalso.
          apply (Hfree o Hoa Hs b tb); [discriminate | exact Hb | exact Hob].
        * congruence.
    - pose proof HI as [Hcov [Hcomp Hown]].
      assert (HL : L = []) by apply (Hcov i _ Hi). subst L.
      split; [|split].
      + intros j tj Hj. destruct (Nat.eq_dec i j) as [<-|Hne].
        * rewrite (nth_update_same S i _ _ Hi) in Hj. injection Hj as <-. apply entry_tinv; exact He.
        * rewrite (nth_update_other S i j _ Hne) in Hj. apply (Hcov j tj Hj).
      + intros a b ta tb Hab Ha Hb m xa xb Hina Hinb.
        destruct (Nat.eq_dec i a) as [<-|Hia].
        { rewrite (nth_update_same S i _ _ Hi) in Ha. injection Ha as <-. destruct Hina. }
        destruct (Nat.eq_dec i b) as [<-|Hib].
        { rewrite (nth_update_same S i _ _ Hi) in Hb. injection Hb as <-. destruct Hinb. }
        rewrite (nth_update_other S i a _ Hia) in Ha. rewrite (nth_update_other S i b _ Hib) in Hb.
        apply (Hcomp a b ta tb Hab Ha Hb m xa xb Hina Hinb).
      + intros a b ta tb o Hab Ha Hb Hoa Hob.
        destruct (Nat.eq_dec i a) as [<-|Hia]; destruct (Nat.eq_dec i b) as [<-|Hib].
        * congruence.
        * rewrite (nth_update_same S i _ _ Hi) in Ha. injection Ha as <-.
          rewrite (nth_update_other S i b _ Hib) in Hb.
          destruct (single o) eqn:Hs; [|reflexivity]. exfalso.
          apply (Hfree o Hoa Hs b tb); [congruence | exact Hb | exact Hob].
        * rewrite (nth_update_same S i _ _ Hi) in Hb. injection Hb as <-.
          rewrite (nth_update_other S i a _ Hia) in Ha.
          destruct (single o) eqn:Hs; [|reflexivity]. exfalso.
          apply (Hfree o Hob Hs a ta); [congruence | exact Ha | exact Hoa].
        * rewrite (nth_update_other S i a _ Hia) in Ha. rewrite (nth_update_other S i b _ Hib) in Hb.
          apply (Hown a b ta tb o Hab Ha Hb Hoa Hob).
  Qed.

  Lemma xsteps_inv S S' : Inv single g ls S -> xsteps single g entries S S' -> Inv single g ls S'.
  Proof. intros HI Hs. induction Hs as [|S1 S2 S3 _ IH Hst]; [exact HI|]. apply (xstep_inv S2 S3 (IH HI) Hst). Qed.

  Lemma inv_lock_safe S : Inv single g ls S -> lock_safe g S.
  Proof.
    intros [Hcov _] i pc L nd Hi Hn.
    pose proof (Hcov i _ Hi) as T. cbn [tinv] in T.
    pose proof (check_nodes_nth ls g 0 pc nd Hnodes Hn) as Hc. cbn [Nat.add] in Hc.
    unfold check_node in Hc. rewrite T in Hc.
    destruct (n_instr nd) as [|f w|m x|m x]; cbn [transfer] in Hc; try exact I.
    - destruct (holds m L); [discriminate | reflexivity].
    - destruct (holds_mode m x L); [reflexivity | discriminate].
  Qed.

  Lemma inv_mutex_safe S : Inv single g ls S -> mutex_safe S.
  Proof. intros [_ [Hcomp _]]. exact Hcomp. Qed.

  Lemma inv_isolated S f m :
    Inv single g ls S -> guarded_by (accesses_from ls 0 g) f m = true -> isolated g S f m.
  Proof.
    intros [Hcov [Hcomp _]] Hg i ti Hi.
    assert (Hacc : forall j tj w, nth_error S j = Some tj -> at_access g tj f w ->
              if w then In (m, true) (snd tj) else exists x, In (m, x) (snd tj)).
    { intros j [ts Lj] w Hj (pc & nd & Hp & Hn & Hin). cbn [fst] in Hp. subst ts.
      pose proof (Hcov j _ Hj) as T. cbn [tinv] in T.
      pose proof (accesses_from_nth ls g 0 pc nd f w Lj Hn Hin T) as A.
      unfold guarded_by in Hg. rewrite forallb_forall in Hg. specialize (Hg _ A). cbn in Hg.
      rewrite N.eqb_refl in Hg. cbn [negb orb] in Hg. cbn [snd].
      destruct w; [apply holds_mode_in; exact Hg | apply holds_in; exact Hg]. }
    split.
    - intros Hin j tj w Hne Hj Ha. specialize (Hacc j tj w Hj Ha).
      destruct w.
      + destruct (Hcomp i j ti tj (not_eq_sym Hne) Hi Hj m true true Hin Hacc). discriminate.
      + destruct Hacc as [x Hx]. destruct (Hcomp i j ti tj (not_eq_sym Hne) Hi Hj m true x Hin Hx). discriminate.
    - intros x Hin j tj Hne Hj Ha. specialize (Hacc j tj true Hj Ha). cbn in Hacc.
      destruct (Hcomp i j ti tj (not_eq_sym Hne) Hi Hj m x true Hin Hacc). discriminate.
  Qed.

  Lemma inv_write_isolated S f m :
    Inv single g ls S -> writes_guarded (accesses_from ls 0 g) f m = true -> write_isolated g S f m.
  Proof.
    intros [Hcov [Hcomp _]] Hg i ti x Hi Hin j [ts Lj] Hne Hj (pc & nd & Hp & Hn & Hacc).
    cbn [fst] in Hp. subst ts.
    pose proof (Hcov j _ Hj) as T. cbn [tinv] in T.
    pose proof (accesses_from_nth ls g 0 pc nd f true Lj Hn Hacc T) as A.
    unfold writes_guarded in Hg. rewrite forallb_forall in Hg. specialize (Hg _ A). cbn in Hg.
    rewrite N.eqb_refl in Hg. cbn in Hg. apply holds_mode_in in Hg.
    destruct (Hcomp i j ti _ (not_eq_sym Hne) Hi Hj m x true Hin Hg). discriminate.
  Qed.
End Dyn.

Lemma analysis_ok_parts skip single g entries :
  analysis_ok skip single g entries = true ->
  let ls := infer g entries in
  check_entries ls entries = true /\ check_nodes ls 0 g = true /\ forallb (check_owner g) g = true /\
  pairwise_ok skip single (accesses_from ls 0 g) = true.
Proof.
  unfold analysis_ok, check_assignment. intro H.
  apply andb_true_iff in H as [H Hp]. apply andb_true_iff in H as [H Ho]. apply andb_true_iff in H as [H Hn].
  apply andb_true_iff in H as [_ He]. auto.
Qed.

Lemma analysis_inv skip single g entries :
  analysis_ok skip single g entries = true ->
  forall S0, initial single g entries S0 ->
  forall S, xsteps single g entries S0 S -> Inv single g (infer g entries) S.
Proof.
  intro H. destruct (analysis_ok_parts _ _ _ _ H) as (He & Hn & Ho & _).
  intros S0 Hinit S Hs.
  apply (xsteps_inv single g entries _ He Hn Ho S0 S); [|exact Hs].
  apply (inv_initial single g entries _ He S0 Hinit).
Qed.

(* Soundness for a dynamic population: race freedom, lock balance, run-time lock safety, mutual exclusion. *)
Lemma dynamic_sound_lemma (skip : field -> bool) (single : nat -> bool) (g : graph) (entries : list nat) :
  analysis_ok skip single g entries = true ->
  forall S0, initial single g entries S0 ->
  forall S, xsteps single g entries S0 S ->
    ~ racy skip g S /\ (forall i L, nth_error S i = Some (Done, L) -> L = []) /\ lock_safe g S /\ mutex_safe S.
Proof.
  intros H S0 Hinit S Hs.
  pose proof (analysis_inv _ _ _ _ H S0 Hinit S Hs) as HI.
  destruct (analysis_ok_parts _ _ _ _ H) as (He & Hn & Ho & Hp).
  split; [|split; [|split]].
  - apply (inv_not_racy skip single g _ Hp S HI).
  - intros i L Hi. destruct HI as [Hcov _]. apply (Hcov i _ Hi).
  - apply (inv_lock_safe single g _ Hn S HI).
  - apply (inv_mutex_safe single g _ S HI).
Qed.

(* a static run is a dynamic run *)
Lemma steps_xsteps single g entries S S' : steps g S S' -> xsteps single g entries S S'.
Proof.
  intro H. induction H as [|S1 S2 S3 _ IH Hst]; [constructor|].
  eapply xsteps_cons; [exact IH | constructor; exact Hst].
Qed.

Lemma isolation_lemma (skip : field -> bool) (single : nat -> bool) (g : graph) (entries : list nat) (f : field) (m : mutex) :
  analysis_ok skip single g entries = true ->
  guarded_by (graph_accesses g entries) f m = true ->
  forall S0, initial single g entries S0 ->
  forall S, xsteps single g entries S0 S -> isolated g S f m.
Proof.
  intros H Hg S0 Hinit S Hs.
  pose proof (analysis_inv _ _ _ _ H S0 Hinit S Hs) as HI.
  apply (inv_isolated single g _ S f m HI Hg).
Qed.

Lemma write_isolation_lemma (skip : field -> bool) (single : nat -> bool) (g : graph) (entries : list nat) (f : field) (m : mutex) :
  analysis_ok skip single g entries = true ->
  writes_guarded (graph_accesses g entries) f m = true ->
  forall S0, initial single g entries S0 ->
  forall S, xsteps single g entries S0 S -> write_isolated g S f m.
Proof.
  intros H Hg S0 Hinit S Hs.
  pose proof (analysis_inv _ _ _ _ H S0 Hinit S Hs) as HI.
  apply (inv_write_isolated single g _ S f m HI Hg).
Qed.

Lemma guard_table_guarded A f m : In (f, m) (guard_table A) -> guarded_by A f m = true.
Proof. unfold guard_table. intro H. apply filter_In in H as [_ H]. exact H. Qed.

Lemma discipline_spec skip single A :
  discipline_ok skip single A = true ->
  forall f, In f (fields_of A) -> skip f = false -> confined single A f = false ->
    exists m, writes_guarded A f m = true.
Proof.
  unfold discipline_ok. intros H f Hf Hs Hc. rewrite forallb_forall in H. specialize (H f Hf).
  rewrite Hs, Hc in H. cbn in H. apply existsb_exists in H as [m [_ Hm]]. exists m. exact Hm.
Qed.

(* every access node of the graph that the analysis reaches contributes its field to fields_of *)
Lemma access_in_fields A f w L o : In (f, w, L, o) A -> In f (fields_of A).
Proof.
  intro H. unfold fields_of. apply nodup_In. apply in_map_iff. exists (f, w, L, o). split; [reflexivity | exact H].
Qed.

(* ------------------------------------------------------------------------------------------ *)
(* Deadlock freedom from the lock order *)

Definition blocked_by (m : mutex) (x : bool) (L' : lockset) : bool :=
  existsb (fun p => (fst p =? m) && (x || snd p)) L'.

Lemma not_blocked_compatible m x L' : blocked_by m x L' = false -> compatible m x L'.
Proof.
  intros H x' Hin. unfold blocked_by in H.
  assert (Hp : (fst (m, x') =? m) && (x || snd (m, x')) = false).
  { destruct ((fst (m, x') =? m) && (x || snd (m, x'))) eqn:E; [|reflexivity].
    assert (existsb (fun p => (fst p =? m) && (x || snd p)) L' = true) by (apply existsb_exists; eauto).
    congruence. }
  cbn in Hp. rewrite N.eqb_refl in Hp. cbn in Hp. destruct x, x'; try discriminate. auto.
Qed.

Lemma blocked_holds m x L' : blocked_by m x L' = true -> exists x', In (m, x') L'.
Proof.
  unfold blocked_by. intro H. apply existsb_exists in H as [[m' x'] [Hin H]]. cbn in H.
  apply andb_true_iff in H as [Hm _]. apply N.eqb_eq in Hm. subst m'. eauto.
Qed.

Lemma forall_or_exists {A} (P : nat -> A -> bool) (l : list A) : forall base,
  (forall k a, nth_error l k = Some a -> P (base + k)%nat a = true) \/
  (exists k a, nth_error l k = Some a /\ P (base + k)%nat a = false).
Proof.
  induction l as [|a0 l IH]; intro base.
  - left. intros [|k] a H; discriminate.
  - destruct (P base a0) eqn:E0.
    + destruct (IH (S base)) as [Hall|(k & a & Hk & Hp)].
      * left. intros [|k] a H; cbn in H.
        -- injection H as <-. rewrite Nat.add_0_r. exact E0.
        -- rewrite <- plus_n_Sm. apply (Hall k a H).
      * right. exists (S k), a. split; [exact Hk|]. rewrite <- plus_n_Sm. exact Hp.
    + right. exists 0%nat, a0. split; [reflexivity|]. rewrite Nat.add_0_r. exact E0.
Qed.

Lemma rank_le_max rk m : (rank_of rk m <= list_max (map snd rk))%nat.
Proof.
  unfold rank_of. destruct (find (fun p => fst p =? m) rk) as [p|] eqn:E; [|lia].
  apply find_some in E as [Hin _].
  assert (H : Forall (fun k => (k <= list_max (map snd rk))%nat) (map snd rk)) by (apply list_max_le; lia).
  rewrite Forall_forall in H. apply H. apply in_map. exact Hin.
Qed.

Lemma order_ok_nth rk ls g : forall base n nd m x L,
  order_ok_from rk ls base g = true -> nth_error g n = Some nd -> n_instr nd = ILock m x ->
  nth (base + n) ls None = Some L ->
  forallb (fun p => (rank_of rk (fst p) <? rank_of rk m)%nat) L = true.
Proof.
  induction g as [|nd0 g IH]; intros base n nd m x L Ho Hn Hi Hl; [destruct n; discriminate|].
  cbn [order_ok_from] in Ho. apply andb_true_iff in Ho as [H0 Hrest].
  destruct n as [|n]; cbn in Hn.
  - injection Hn as ->. rewrite Nat.add_0_r in Hl. rewrite Hi, Hl in H0. exact H0.
  - rewrite <- plus_n_Sm in Hl. apply (IH (S base) n nd m x L Hrest Hn Hi Hl).
Qed.

Section Progress.
  Variable single : nat -> bool.
  Variable g : graph.
  Variable ls : assignment.
  Variable rk : list (mutex * nat).
  Hypothesis Hlen : length ls = length g.
  Hypothesis Hnodes : check_nodes ls 0 g = true.
  Hypothesis Howner : forallb (check_owner g) g = true.
  Hypothesis Horder : order_ok_from rk ls 0 g = true.

  Lemma tinv_node pc L : tinv ls (At pc, L) -> exists nd, nth_error g pc = Some nd.
  Proof.
    cbn. intro H. destruct (nth_error g pc) as [nd|] eqn:E; [eauto|].
    apply nth_error_None in E. rewrite <- Hlen in E. rewrite nth_overflow in H by exact E. discriminate.
  Qed.

  Lemma tstep_exists pc L nd : nth_error g pc = Some nd -> exists t', tstep g (At pc, L) 0 = Some t'.
  Proof.
    intro Hn. cbn [tstep]. rewrite Hn. destruct (n_succ nd) as [|s0 succs]; cbn; eauto.
  Qed.

  Lemma progress_rank S : Inv single g ls S ->
    forall k i pc L nd m x, nth_error S i = Some (At pc, L) -> nth_error g pc = Some nd ->
      n_instr nd = ILock m x -> (list_max (map snd rk) - rank_of rk m <= k)%nat -> can_step g S.
  Proof.
    intros HI. pose proof HI as [Hcov [Hcomp _]].
    induction k as [|k IH]; intros i pc L nd m x Hi Hn Hins Hk.
    all: destruct (forall_or_exists (fun j (t : thread) => (j =? i)%nat || negb (blocked_by m x (snd t))) S 0%nat)
           as [Hall|(j & tj & Hj & Hp)].
    1, 3: destruct (tstep_exists pc L nd Hn) as [t' Ht];
      exists i, (At pc, L), 0%nat, t'; split; [exact Hi|split; [exact Ht|]];
      unfold may_step; rewrite Hi, Hn, Hins; intros j t Hne Hj;
      specialize (Hall j t Hj); cbn [Nat.add] in Hall;
      apply orb_true_iff in Hall as [Hall|Hall]; [apply Nat.eqb_eq in Hall; congruence|];
      apply not_blocked_compatible; destruct (blocked_by m x (snd t)); [discriminate|reflexivity].
    all: cbn [Nat.add] in Hp; apply orb_false_iff in Hp as [Hji Hb];
      apply Nat.eqb_neq in Hji; apply negb_false_iff in Hb;
      destruct (blocked_holds m x _ Hb) as [x' Hin];
      destruct tj as [[pcj|] Lj]; cbn [snd] in Hin;
      [| pose proof (Hcov j _ Hj) as T; cbn in T; subst Lj; destruct Hin ];
      pose proof (Hcov j _ Hj) as Tj;
      destruct (tinv_node pcj Lj Tj) as [ndj Hnj];
      destruct (n_instr ndj) as [|fj wj|mj xj|mj xj] eqn:Hinsj.
    1, 2, 4, 5, 6, 8:
      destruct (tstep_exists pcj Lj ndj Hnj) as [t' Ht];
      exists j, (At pcj, Lj), 0%nat, t'; split; [exact Hj|split; [exact Ht|]];
      unfold may_step; rewrite Hj, Hnj, Hinsj; exact I.
    all: cbn [tinv] in Tj;
      pose proof (order_ok_nth rk ls g 0 pcj ndj mj xj Lj Horder Hnj Hinsj Tj) as Hr;
      rewrite forallb_forall in Hr; specialize (Hr _ Hin); cbn [fst] in Hr; apply Nat.ltb_lt in Hr;
      pose proof (rank_le_max rk mj) as Hmax.
    - lia.
    - apply (IH j pcj Lj ndj mj xj Hj Hnj Hinsj). lia.
  Qed.

  Lemma progress S : Inv single g ls S -> live S -> can_step g S.
  Proof.
    intros HI (i & pc & L & Hi). pose proof HI as [Hcov _].
    destruct (tinv_node pc L (Hcov i _ Hi)) as [nd Hn].
    destruct (n_instr nd) as [|f w|m x|m x] eqn:Hins.
    3: apply (progress_rank S HI _ i pc L nd m x Hi Hn Hins (Nat.le_refl _)).
    all: destruct (tstep_exists pc L nd Hn) as [t' Ht];
      exists i, (At pc, L), 0%nat, t'; split; [exact Hi|split; [exact Ht|]];
      unfold may_step; rewrite Hi, Hn, Hins; exact I.
  Qed.
End Progress.

Lemma deadlock_free_lemma (skip : field -> bool) (single : nat -> bool) (g : graph) (entries : list nat) :
  analysis_ok skip single g entries = true ->
  lock_order_ok g entries = true ->
  forall S0, initial single g entries S0 ->
  forall S, xsteps single g entries S0 S -> live S -> can_step g S.
Proof.
  intros H Hord S0 Hinit S Hs Hlive.
  pose proof (analysis_inv _ _ _ _ H S0 Hinit S Hs) as HI.
  destruct (analysis_ok_parts _ _ _ _ H) as (He & Hn & Ho & Hp).
  assert (Hlen : length (infer g entries) = length g).
  { unfold analysis_ok, check_assignment in H.
    apply andb_true_iff in H as [H _]. apply andb_true_iff in H as [H _]. apply andb_true_iff in H as [H _].
    apply andb_true_iff in H as [H _]. apply Nat.eqb_eq in H. exact H. }
  eapply (progress single g _ (infer_ranks g entries)); eauto.
Qed.

(* ------------------------------------------------------------------------------------------ *)
(* Progress with writer preference *)

Lemma can_step_wp_can_step g S : can_step_wp g S -> can_step g S.
Proof. intros (i & t & c & t' & Hi & Ht & [Hm _]). exists i, t, c, t'. auto. Qed.

Section ProgressWP.
  Variable single : nat -> bool.
  Variable g : graph.
  Variable ls : assignment.
  Variable rk : list (mutex * nat).
  Hypothesis Hlen : length ls = length g.
  Hypothesis Hnodes : check_nodes ls 0 g = true.
  Hypothesis Howner : forallb (check_owner g) g = true.
  Hypothesis Horder : order_ok_from rk ls 0 g = true.

  (* a thread at a Lock/RLock is enabled (no incompatible holder) or somebody else holds the mutex *)
  Lemma enabled_or_holder (S : list thread) i pc L nd m x :
    nth_error S i = Some (At pc, L) -> nth_error g pc = Some nd -> n_instr nd = ILock m x ->
    may_step g S i \/ exists j tj x', j <> i /\ nth_error S j = Some tj /\ In (m, x') (snd tj).
  Proof.
    intros Hi Hn Hins.
    destruct (forall_or_exists (fun j (t : thread) => (j =? i)%nat || negb (blocked_by m x (snd t))) S 0%nat)
      as [Hall|(j & tj & Hj & Hp)].
    - left. unfold may_step. rewrite Hi, Hn, Hins. intros j t Hne Hj.
      specialize (Hall j t Hj). cbn [Nat.add] in Hall.
      apply orb_true_iff in Hall as [Hall|Hall]; [apply Nat.eqb_eq in Hall; congruence|].
      apply not_blocked_compatible. destruct (blocked_by m x (snd t)); [discriminate|reflexivity].
    - right. cbn [Nat.add] in Hp. apply orb_false_iff in Hp as [Hji Hb].
      apply Nat.eqb_neq in Hji. apply negb_false_iff in Hb.
      destruct (blocked_holds m x _ Hb) as [x' Hin]. exists j, tj, x'. auto.
  Qed.

  (* a thread that is not at a shared RLock is restricted by nothing more than may_step *)
  Lemma wp_of_may_step (S : list thread) i pc L nd :
    nth_error S i = Some (At pc, L) -> nth_error g pc = Some nd ->
    (forall m, n_instr nd <> ILock m false) ->
    may_step g S i -> can_step_wp g S.
  Proof.
    intros Hi Hn Hnot Hm. destruct (tstep_exists g pc L nd Hn) as [t' Ht].
    exists i, (At pc, L), 0%nat, t'. split; [exact Hi|split; [exact Ht|]]. split; [exact Hm|].
    rewrite Hi, Hn. destruct (n_instr nd) as [|f w|m [|]|m x]; try exact I. exfalso. apply (Hnot m). reflexivity.
  Qed.

  Lemma progress_wp_rank (S : list thread) : Inv single g ls S ->
    forall k i pc L nd m x, nth_error S i = Some (At pc, L) -> nth_error g pc = Some nd ->
      n_instr nd = ILock m x -> (list_max (map snd rk) - rank_of rk m <= k)%nat -> can_step_wp g S.
  Proof.
    intros HI. pose proof HI as [Hcov [Hcomp _]].
    (* what to do with a thread j that holds m (so is live): it steps, or it waits for a mutex of higher rank *)
    assert (Hholder : forall k, (forall i pc L nd m x, nth_error S i = Some (At pc, L) -> nth_error g pc = Some nd ->
                n_instr nd = ILock m x -> (list_max (map snd rk) - rank_of rk m <= k)%nat -> can_step_wp g S) ->
              forall m j tj x', (list_max (map snd rk) - rank_of rk m <= Datatypes.S k)%nat ->
                nth_error S j = Some tj -> In (m, x') (snd tj) -> can_step_wp g S).
    { intros k IH m j [[pcj|] Lj] x' Hk Hj Hin; cbn [snd] in Hin.
      2: { pose proof (Hcov j _ Hj) as T. cbn in T. subst Lj. destruct Hin. }
      pose proof (Hcov j _ Hj) as Tj. destruct (tinv_node g ls Hlen pcj Lj Tj) as [ndj Hnj].
      destruct (n_instr ndj) as [|fj wj|mj xj|mj xj] eqn:Hinsj.
      1, 2, 4: apply (wp_of_may_step S j pcj Lj ndj Hj Hnj); [intros m0; rewrite Hinsj; discriminate|];
        unfold may_step; rewrite Hj, Hnj, Hinsj; exact I.
      cbn [tinv] in Tj.
      pose proof (order_ok_nth rk ls g 0 pcj ndj mj xj Lj Horder Hnj Hinsj Tj) as Hr.
      rewrite forallb_forall in Hr. specialize (Hr _ Hin). cbn [fst] in Hr. apply Nat.ltb_lt in Hr.
      pose proof (rank_le_max rk mj) as Hmax.
      apply (IH j pcj Lj ndj mj xj Hj Hnj Hinsj). lia. }
    assert (Hzero : forall m j tj x', (list_max (map snd rk) - rank_of rk m <= 0)%nat ->
                nth_error S j = Some tj -> In (m, x') (snd tj) -> can_step_wp g S).
    { intros m j [[pcj|] Lj] x' Hk Hj Hin; cbn [snd] in Hin.
      2: { pose proof (Hcov j _ Hj) as T. cbn in T. subst Lj. destruct Hin. }
      pose proof (Hcov j _ Hj) as Tj. destruct (tinv_node g ls Hlen pcj Lj Tj) as [ndj Hnj].
      destruct (n_instr ndj) as [|fj wj|mj xj|mj xj] eqn:Hinsj.
      1, 2, 4: apply (wp_of_may_step S j pcj Lj ndj Hj Hnj); [intros m0; rewrite Hinsj; discriminate|];
        unfold may_step; rewrite Hj, Hnj, Hinsj; exact I.
      cbn [tinv] in Tj.
      pose proof (order_ok_nth rk ls g 0 pcj ndj mj xj Lj Horder Hnj Hinsj Tj) as Hr.
      rewrite forallb_forall in Hr. specialize (Hr _ Hin). cbn [fst] in Hr. apply Nat.ltb_lt in Hr.
      pose proof (rank_le_max rk mj) as Hmax. lia. }
    induction k as [|k IH]; intros i pc L nd m x Hi Hn Hins Hk.
    all: destruct (enabled_or_holder S i pc L nd m x Hi Hn Hins) as [Hm|(j & tj & x' & Hne & Hj & Hin)].
    2: apply (Hzero m j tj x' Hk Hj Hin).
    3: apply (Hholder k IH m j tj x' ltac:(lia) Hj Hin).
    all: destruct x.
    1, 3: apply (wp_of_may_step S i pc L nd Hi Hn); [intros m0; rewrite Hins; discriminate | exact Hm].
    all: destruct (forall_or_exists (fun j (t : thread) => (j =? i)%nat || negb (at_lock_excl g m t)) S 0%nat)
           as [Hall|(w & tw & Hw & Hp)].
    1, 3: destruct (tstep_exists g pc L nd Hn) as [t' Ht];
      exists i, (At pc, L), 0%nat, t'; split; [exact Hi|split; [exact Ht|]]; split; [exact Hm|];
      rewrite Hi, Hn, Hins; intros j t Hne Hj; specialize (Hall j t Hj); cbn [Nat.add] in Hall;
      apply orb_true_iff in Hall as [Hall|Hall]; [apply Nat.eqb_eq in Hall; congruence|];
      destruct (at_lock_excl g m t); [discriminate|reflexivity].
    all: cbn [Nat.add] in Hp; apply orb_false_iff in Hp as [Hwi Hwx];
      apply Nat.eqb_neq in Hwi; apply negb_false_iff in Hwx;
      destruct tw as [[pcw|] Lw]; unfold at_lock_excl in Hwx; cbn [fst] in Hwx; [|discriminate];
      destruct (nth_error g pcw) as [ndw|] eqn:Hnw; [|discriminate];
      destruct (n_instr ndw) as [|fw ww|mw [|]|mw xw] eqn:Hinsw; try discriminate;
      apply N.eqb_eq in Hwx; subst mw;
      destruct (enabled_or_holder S w pcw Lw ndw m true Hw Hnw Hinsw) as [Hmw|(j & tj & x' & Hne & Hj & Hin)].
    1, 3: apply (wp_of_may_step S w pcw Lw ndw Hw Hnw); [intros m0; rewrite Hinsw; discriminate | exact Hmw].
    - apply (Hzero m j tj x' Hk Hj Hin).
    - apply (Hholder k IH m j tj x' ltac:(lia) Hj Hin).
  Qed.

  Lemma progress_wp (S : list thread) : Inv single g ls S -> live S -> can_step_wp g S.
  Proof.
    intros HI (i & pc & L & Hi). pose proof HI as [Hcov _].
    destruct (tinv_node g ls Hlen pc L (Hcov i _ Hi)) as [nd Hn].
    destruct (n_instr nd) as [|f w|m x|m x] eqn:Hins.
    3: apply (progress_wp_rank S HI _ i pc L nd m x Hi Hn Hins (Nat.le_refl _)).
    all: apply (wp_of_may_step S i pc L nd Hi Hn); [intros m0; rewrite Hins; discriminate|];
      unfold may_step; rewrite Hi, Hn, Hins; exact I.
  Qed.
End ProgressWP.

Lemma deadlock_free_wp_lemma (skip : field -> bool) (single : nat -> bool) (g : graph) (entries : list nat) :
  analysis_ok skip single g entries = true ->
  lock_order_ok g entries = true ->
  forall S0, initial single g entries S0 ->
  forall S, xsteps single g entries S0 S -> live S -> can_step_wp g S.
Proof.
  intros H Hord S0 Hinit S Hs Hlive.
  pose proof (analysis_inv _ _ _ _ H S0 Hinit S Hs) as HI.
  destruct (analysis_ok_parts _ _ _ _ H) as (He & Hn & Ho & Hp).
  assert (Hlen : length (infer g entries) = length g).
  { unfold analysis_ok, check_assignment in H.
    apply andb_true_iff in H as [H _]. apply andb_true_iff in H as [H _]. apply andb_true_iff in H as [H _].
    apply andb_true_iff in H as [H _]. apply Nat.eqb_eq in H. exact H. }
  eapply (progress_wp single g _ (infer_ranks g entries)); eauto.
Qed.
