(* Lemmas for Model/C17_Cache.v: with one section per operation (the code as it is) a schedule IS a sequential
   order of the operations, and a mapping that was set is found by every later lookup unless a clean whose minimum
   is above its slot (or another set of the root) came in between; the read-copy-swap clean loses a set made
   between its two sections, an answer that no sequential order of the three operations gives. *)
From Verif Require Import Lib.Base Model.C17_Cache.
Open Scope N_scope.

Lemma cget_cset_same k v c : cget k (cset k v c) = Some v.
Proof. unfold cset. cbn. rewrite N.eqb_refl. reflexivity. Qed.

Lemma cget_filter (P : root * slot -> bool) k c :
  forall v, cget k c = Some v -> P (k, v) = true -> cget k (filter P c) = Some v.
Proof.
  induction c as [|[k' v'] c IH]; cbn; [discriminate|].
  intros v H HP. destruct (k' =? k) eqn:E.
  - apply N.eqb_eq in E. subst k'. injection H as ->. rewrite HP. cbn. rewrite N.eqb_refl. reflexivity.
  - destruct (P (k', v')); cbn; [rewrite E|]; apply IH; assumption.
Qed.

Lemma cget_cset_other k k' v' c v : k' <> k -> cget k c = Some v -> cget k (cset k' v' c) = Some v.
Proof.
  intros Hne H. unfold cset. cbn. apply N.eqb_neq in Hne. rewrite Hne.
  apply cget_filter; auto.
  cbn. rewrite N.eqb_sym, Hne. reflexivity.
Qed.

Lemma cget_cclean k min c v : (v <? min) = false -> cget k c = Some v -> cget k (cclean min c) = Some v.
Proof.
  intros Hv H. unfold cclean. apply cget_filter; auto. cbn. rewrite Hv. reflexivity.
Qed.

Lemma crun_cons e sch c : crun (e :: sch) c = crun sch (cstep c e).
Proof. reflexivity. Qed.

Lemma crun_app s1 s2 c : crun (s1 ++ s2) c = crun s2 (crun s1 c).
Proof. unfold crun. apply fold_left_app. Qed.

(* ---- one section per operation: the schedule is a sequential order of the operations ---- *)
Lemma one_section_sequential_gen : forall sch c,
  forallb c_one_section sch = true ->
  k_cache (crun sch c) = s_cache (srun (map op_of sch) {| s_cache := k_cache c; s_out := k_out c |}) /\
  k_out (crun sch c) = s_out (srun (map op_of sch) {| s_cache := k_cache c; s_out := k_out c |}).
Proof.
  induction sch as [|e sch IH]; intros c H.
  - cbn. auto.
  - cbn [forallb] in H. apply andb_true_iff in H as [He H]. rewrite crun_cons.
    destruct (IH (cstep c e) H) as [I1 I2]. rewrite I1, I2.
    destruct e; try discriminate; cbn; auto.
Qed.

Lemma one_section_sequential_lemma sch c0 :
  forallb c_one_section sch = true ->
  k_cache (crun sch (cinit c0)) = s_cache (srun (map op_of sch) {| s_cache := c0; s_out := [] |}) /\
  k_out (crun sch (cinit c0)) = s_out (srun (map op_of sch) {| s_cache := c0; s_out := [] |}).
Proof. intro H. apply (one_section_sequential_gen sch (cinit c0) H). Qed.

(* ---- a mapping survives everything but a set of its root and a clean above its slot ---- *)
Lemma mapping_kept : forall sch c k v,
  forallb c_one_section sch = true ->
  forallb (fun e => negb (sets_key k e) && keeps v e) sch = true ->
  cget k (k_cache c) = Some v -> cget k (k_cache (crun sch c)) = Some v.
Proof.
  induction sch as [|e sch IH]; intros c k v H1 H2 Hg; [exact Hg|].
  cbn [forallb] in H1, H2. apply andb_true_iff in H1 as [He H1]. apply andb_true_iff in H2 as [Hk H2].
  apply andb_true_iff in Hk as [Hs Hkeep]. rewrite crun_cons. apply IH; auto.
  destruct e as [k' v'|t k'|min|t min|t]; try discriminate; cbn.
  - cbn in Hs. apply negb_true_iff in Hs. apply N.eqb_neq in Hs. apply cget_cset_other; assumption.
  - exact Hg.
  - cbn in Hkeep. apply negb_true_iff in Hkeep. apply cget_cclean; assumption.
Qed.

Lemma out_mono : forall sch c x, In x (k_out c) -> In x (k_out (crun sch c)).
Proof.
  induction sch as [|e sch IH]; intros c x H; [exact H|].
  rewrite crun_cons. apply IH. destruct e; cbn; auto.
  destruct (copy_of t (k_copies c)); cbn; auto.
Qed.

(* no lost update: in every one-section schedule, a lookup of k after a set of (k, v), with no other set of k and
   only cleans that keep v in between, answers v *)
Lemma set_not_lost_lemma pre mid post c0 k v t :
  forallb c_one_section (pre ++ CSet k v :: mid ++ CGet t k :: post) = true ->
  forallb (fun e => negb (sets_key k e) && keeps v e) mid = true ->
  In (t, k, Some v) (k_out (crun (pre ++ CSet k v :: mid ++ CGet t k :: post) (cinit c0))).
Proof.
  intros H1 Hmid.
  rewrite forallb_app in H1. apply andb_true_iff in H1 as [_ H1]. cbn [forallb] in H1.
  apply andb_true_iff in H1 as [_ H1]. rewrite forallb_app in H1. apply andb_true_iff in H1 as [H1 _].
  rewrite crun_app. rewrite crun_cons. rewrite crun_app. rewrite crun_cons.
  apply out_mono. cbn [cstep k_out]. left.
  f_equal. apply mapping_kept; auto.
  cbn. apply cget_cset_same.
Qed.

(* ---- the read-copy-swap clean (seeded change C17-7) ---- *)
Definition lost_cache0 : cache := [(1, 5)].                       (* one old entry: the clean has something to do *)
Definition lost_schedule : list cevent := [CCopy 0 10; CSet 2 100; CSwap 0; CGet 1 2].
(* the three operations; the set had returned before the lookup was called, the clean overlaps both *)
Definition lost_orders : list (list cop) :=
  [ [OClean 10; OSet 2 100; OGet 1 2]; [OSet 2 100; OClean 10; OGet 1 2]; [OSet 2 100; OGet 1 2; OClean 10] ].

Lemma two_section_clean_refuted_lemma :
  k_out (crun lost_schedule (cinit lost_cache0)) = [(1%nat, 2, None)] /\
  forall ops, In ops lost_orders -> s_out (srun ops {| s_cache := lost_cache0; s_out := [] |}) = [(1%nat, 2, Some 100)].
Proof.
  split; [vm_compute; reflexivity|].
  intros ops [<-|[<-|[<-|[]]]]; vm_compute; reflexivity.
Qed.

(* the observed-history conditions reject exactly that outcome: set returned (stamps 3..4), lookup called after
   (7..8) and missed, the only clean (1..6, minimum 10) does not remove slot 100 *)
Definition lost_history : list hop :=
  [ mk_hop 2 0 10 None false false 1 6; mk_hop 0 2 100 None false false 3 4; mk_hop 1 2 0 None false true 7 8 ].
Definition found_history : list hop :=
  [ mk_hop 2 0 10 None false false 1 6; mk_hop 0 2 100 None false false 3 4; mk_hop 1 2 0 (Some 100) false false 7 8 ].

Lemma lin_ok_examples : lin_ok lost_history = false /\ lin_ok found_history = true.
Proof. split; vm_compute; reflexivity. Qed.

(* ---- the history conditions are NECESSARY, checked exhaustively at small scope ----
   Every history obtained from a sequential run (from the empty cache, as in the scenarios) by giving each operation
   an interval around its place in the order — so that it overlaps one or two neighbours on either side — has a
   sequential explanation by construction, and must be accepted. *)
Inductive sop := SSet (k v : N) | SGet (k : N) | SGetF (k nv : N) | SClean (min : N).

Fixpoint hist_of (c : cache) (i : N) (ops : list (sop * (N * N))) : list hop :=
  match ops with
  | [] => []
  | (o, (a, b)) :: rest =>
      let p := 100 * i + 1000 in
      let inv := p - a in
      let resp := p + b in
      match o with
      | SSet k v => mk_hop 0 k v None false false inv resp :: hist_of (cset k v c) (i + 1) rest
      | SGet k =>
          mk_hop 1 k 0 (cget k c) false (match cget k c with None => true | Some _ => false end) inv resp
            :: hist_of c (i + 1) rest
      | SGetF k nv =>
          match cget k c with
          | Some v => mk_hop 1 k nv (Some v) true false inv resp :: hist_of c (i + 1) rest
          | None => mk_hop 1 k nv (Some nv) true true inv resp :: hist_of (cset k nv c) (i + 1) rest
          end
      | SClean m => mk_hop 2 0 m None false false inv resp :: hist_of (cclean m c) (i + 1) rest
      end
  end.

Definition alphabet : list sop := [SSet 1 5; SSet 1 20; SSet 2 5; SGet 1; SGet 2; SGetF 1 20; SClean 10; SClean 30].
Definition widths : list (N * N) := [(1, 1); (150, 150); (1, 250); (250, 1)].
Definition letters : list (sop * (N * N)) := flat_map (fun o => map (fun w => (o, w)) widths) alphabet.

Fixpoint words (n : nat) : list (list (sop * (N * N))) :=
  match n with
  | O => [[]]
  | S n' => flat_map (fun w => map (fun l => l :: w) letters) (words n')
  end.

Definition alphabet4 : list sop := [SSet 1 5; SSet 1 20; SGet 1; SGetF 1 20; SClean 10; SClean 30].
Definition widths4 : list (N * N) := [(1, 1); (150, 150); (250, 250)].
Definition letters4 := flat_map (fun o => map (fun w => (o, w)) widths4) alphabet4.
Fixpoint words4 (n : nat) : list (list (sop * (N * N))) :=
  match n with
  | O => [[]]
  | S n' => flat_map (fun w => map (fun l => l :: w) letters4) (words4 n')
  end.

Lemma history_conditions_small_scope_lemma :
  forallb (fun w => lin_ok (hist_of [] 0 w)) (words 3) = true /\
  forallb (fun w => lin_ok (hist_of [] 0 w)) (words4 4) = true.
Proof. split; vm_compute; reflexivity. Qed.
