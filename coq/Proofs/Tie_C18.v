(* C18: the hand-written model equals the gotrans transcription of the cleaning threshold
   (coq/Gen/Pure_C18.v, regenerated from the repository's source on every run).  When the Go source
   changes its meaning, a lemma here stops compiling and only C18's tie is affected. *)
From Coq Require Import ZArith NArith Lia Bool List.
From Coq Require Import ZifyBool ZifyN.
From Verif Require Import Lib.Base Lib.GoInt Proofs.TieLib Gen.Pure_C18 Gen.Pure_C03.
From Verif Require Model.C18_Cache.
Local Open Scope Z_scope.

Lemma tie_clean_threshold (cur_epoch spe : N) :
  nu64 cur_epoch ->
  cache_cleanThreshold (Z.of_N cur_epoch) (Z.of_N spe) =
  if (cur_epoch <=? C18_Cache.retention)%N then None else Some (Z.of_N (C18_Cache.min_slot cur_epoch spe)).
Proof.
  intro Hc. unfold cache_cleanThreshold, C18_Cache.min_slot, C18_Cache.retention, chaintime_FirstSlotOfEpoch.
  change 64 with (Z.of_N 64) at 1. rewrite of_N_leb.
  destruct (cur_epoch <=? 64)%N eqn:E; [reflexivity|].
  f_equal. rewrite of_N_mul64. f_equal. f_equal.
  rewrite u64_id; [lia|]. unfold nu64, in_u64, Base.two64, GoInt.two64 in *. lia.
Qed.

(* ---------------------------------------------------------------------------------------- *)
(* C09: the score of a bid under its builder's configuration (setBuilderBid)                  *)
From Verif Require Model.C09_Auction.
