(* C09 — from the collector invariant to the declarative statement (Model/C09_Spec.v). *)
From Coq Require Import Permutation.
From Verif Require Import Lib.Base Model.C09_Auction Model.C09_Spec Proofs.C09.
From Coq Require Import ZifyBool ZifyN ZifyNat.
Open Scope N_scope.

(* ------------------------------------------------------------------------------------------ *)
(* Score and eligibility, spelled out. *)

Lemma score_formula cfgs b :
  score cfgs b =
  let c := conf_of cfgs b in
  let base := (Z.of_N (b_value b) + match bc_offset c with Some o => o | None => 0 end)%Z in
  match bc_factor c with Some f => (base * f / 100)%Z | None => base end.
Proof.
  unfold score. destruct (bc_offset (conf_of cfgs b)), (bc_factor (conf_of cfgs b)); cbn zeta;
    try reflexivity; rewrite Z.add_0_r; reflexivity.
Qed.

(* big.Int.Div by 100 rounds towards minus infinity *)
Lemma score_floor cfgs b f :
  bc_factor (conf_of cfgs b) = Some f ->
  let base := (Z.of_N (b_value b) + match bc_offset (conf_of cfgs b) with Some o => o | None => 0 end)%Z in
  (100 * score cfgs b <= base * f < 100 * score cfgs b + 100)%Z.
Proof.
  intros Hf base. rewrite score_formula. cbn zeta. rewrite Hf. fold base.
  pose proof (Z.div_mod (base * f) 100 ltac:(lia)) as Hd.
  pose proof (Z.mod_pos_bound (base * f) 100 ltac:(lia)) as Hm. lia.
Qed.

Lemma score_excluded cfgs b : bc_factor (conf_of cfgs b) = Some 0%Z -> score cfgs b = 0%Z.
Proof. intros Hf. rewrite score_formula. cbn zeta. rewrite Hf, Z.mul_0_r. reflexivity. Qed.

Lemma score_unconfigured cfgs b :
  lookup (b_builder b) cfgs = None -> score cfgs b = Z.of_N (b_value b) /\ cat_of cfgs b = std_cat.
Proof. intros Hl. unfold score, cat_of, conf_of. rewrite Hl. split; reflexivity. Qed.

Lemma eligible_iff r b :
  eligible r b = true <->
  b_value b <> 0 /\ r_min r <= b_value b /\ b_zero_recipient b = false /\ b_ts_delta b = 0%Z
  /\ (forall k, eff_key r = Some k -> b_signer b = k).
Proof.
  unfold eligible, details_ok, sig_ok. rewrite !andb_true_iff, !negb_true_iff.
  rewrite N.eqb_neq, N.leb_le, Z.eqb_eq. split.
  - intros [[Hv Hm] [[Hz Ht] Hs]]. repeat split; try assumption.
    intros k Hk. rewrite Hk in Hs. apply N.eqb_eq in Hs. exact Hs.
  - intros (Hv & Hm & Hz & Ht & Hs). repeat split; try assumption.
    destruct (eff_key r) as [k|]; [apply N.eqb_eq; apply Hs; reflexivity | reflexivity].
Qed.

(* ------------------------------------------------------------------------------------------ *)
(* The relay goroutines forward exactly ... *)

Lemma classify_best_bid r x b : classify_best r x = DBid b <-> x = RBid b /\ eligible r b = true.
Proof.
  destruct x as [| | | | |b0]; cbn [classify_best]; try (split; [discriminate | intros [H _]; discriminate H]).
  unfold eligible.
  destruct (b_value b0 =? 0) eqn:Ev; cbn [negb andb].
  - split; [discriminate|]. intros [H He]. injection H as ->. rewrite Ev in He. discriminate He.
  - destruct (b_value b0 <? r_min r) eqn:Em.
    + split; [discriminate|]. intros [H He]. injection H as ->. rewrite Ev in He. cbn in He.
      apply andb_true_iff in He as [He _]. apply N.ltb_lt in Em. apply N.leb_le in He. lia.
    + assert (Hle : (r_min r <=? b_value b0) = true) by (apply N.ltb_ge in Em; apply N.leb_le; exact Em).
      destruct (details_ok r b0) eqn:Ed.
      * split.
        -- intros H. injection H as ->. rewrite Ev, Hle, Ed. split; reflexivity.
        -- intros [H _]. injection H as ->. reflexivity.
      * split; [discriminate|]. intros [H He]. injection H as ->. rewrite Ev, Hle, Ed in He. discriminate He.
Qed.

Lemma classify_deadline_bid r last x b last' :
  classify_deadline r last x = (DBid b, last') ->
  x = RBid b /\ eligible r b = true /\ last' = Some b
  /\ (forall l, last = Some l -> b_value l < b_value b).
Proof.
  destruct x as [| | | | |b0]; cbn [classify_deadline]; try discriminate.
  unfold eligible.
  destruct (b_value b0 =? 0) eqn:Ev; [discriminate|].
  destruct (b_value b0 <? r_min r) eqn:Em; [discriminate|].
  assert (Hle : (r_min r <=? b_value b0) = true) by (apply N.ltb_ge in Em; apply N.leb_le; exact Em).
  destruct (details_ok r b0) eqn:Ed; [|discriminate].
  destruct last as [l|].
  - destruct (b_value l <? b_value b0) eqn:El; [|discriminate].
    intros H. injection H as -> <-. rewrite Ev, Hle, Ed. repeat split.
    intros l0 Hl0. injection Hl0 as <-. apply N.ltb_lt in El. exact El.
  - intros H. injection H as -> <-. rewrite Ev, Hle, Ed. repeat split. intros l0 Hl0. discriminate Hl0.
Qed.

(* what classify_deadline does with an eligible bid *)
Lemma classify_deadline_eligible r last b :
  eligible r b = true ->
  classify_deadline r last (RBid b) =
  match last with
  | None => (DBid b, Some b)
  | Some l => if b_value l <? b_value b then (DBid b, Some b) else (DSilent, last)
  end.
Proof.
  unfold eligible. rewrite !andb_true_iff, negb_true_iff. intros [[Hv Hm] Hd].
  cbn [classify_deadline]. rewrite Hv, Hd.
  assert (Hlt : (b_value b <? r_min r) = false) by (apply N.leb_le in Hm; apply N.ltb_ge; exact Hm).
  rewrite Hlt. reflexivity.
Qed.

(* with anything else the state [last] is unchanged and no bid is forwarded *)
Lemma classify_deadline_other r last x :
  (forall b, x = RBid b -> eligible r b = false) ->
  snd (classify_deadline r last x) = last /\ forall b, fst (classify_deadline r last x) <> DBid b.
Proof.
  intros Hx. destruct x as [| | | | |b0]; cbn [classify_deadline fst snd]; try (split; [reflexivity | intros b; discriminate]).
  specialize (Hx b0 eq_refl). unfold eligible in Hx.
  destruct (b_value b0 =? 0) eqn:Ev; [split; [reflexivity | intros b; discriminate]|].
  destruct (b_value b0 <? r_min r) eqn:Em; [split; [reflexivity | intros b; discriminate]|].
  assert (Hle : (r_min r <=? b_value b0) = true) by (apply N.ltb_ge in Em; apply N.leb_le; exact Em).
  rewrite Hle in Hx. cbn in Hx. rewrite Hx. split; [reflexivity | intros b; discriminate].
Qed.

Lemma best_relay_events_eq r :
  best_relay_events r = map (fun '(t, k, x) => mk_event r t k (classify_best r x)) (best_calls r).
Proof.
  unfold best_relay_events, best_calls. destruct (r_script r) as [|[lat x] rest]; [reflexivity|].
  destruct x; reflexivity.
Qed.

Lemma deadline_attempts_eq D gap r : forall script k t last,
  deadline_attempts D gap r k t last script = classify_run r last (deadline_calls D gap k t script).
Proof.
  induction script as [|[lat x] rest IH]; intros k t last; [reflexivity|].
  cbn [deadline_attempts deadline_calls].
  destruct x; try reflexivity;
    (destruct (t + lat <? D)%Z; [|reflexivity]; cbn [classify_run];
     match goal with |- context [classify_deadline r last ?x] => destruct (classify_deadline r last x) as [d last'] end;
     unfold mk_event; f_equal;
     destruct (D - (t + lat) <=? gap)%Z; [reflexivity | apply IH]).
Qed.

Lemma deadline_calls_before D gap : forall script k t e j x,
  In (e, j, x) (deadline_calls D gap k t script) -> (e < D)%Z.
Proof.
  induction script as [|[lat x0] rest IH]; intros k t e j x Hin; [destruct Hin|].
  cbn [deadline_calls] in Hin.
  destruct x0; try (destruct Hin; fail);
    (destruct (t + lat <? D)%Z eqn:Elt; [|destruct Hin];
     destruct Hin as [Heq | Hin];
     [injection Heq as <- _ _; apply Z.ltb_lt; exact Elt
     | destruct (D - (t + lat) <=? gap)%Z; [destruct Hin | eapply IH; exact Hin]]).
Qed.

(* events of one relay under a strategy, in terms of its answered calls *)
Definition relay_run (s : strategy) (r : relay) : list event :=
  match s with
  | Best _ => map (fun '(t, k, x) => mk_event r t k (classify_best r x)) (answered s r)
  | Deadline _ _ => classify_run r None (answered s r)
  end.

Lemma relay_events_eq s r : relay_events s r = if queried s r then relay_run s r else [].
Proof.
  unfold relay_events, relay_run, answered. destruct (queried s r); [|reflexivity].
  destruct s as [T | D gap]; [apply best_relay_events_eq | apply deadline_attempts_eq].
Qed.

Lemma all_events_In s rs e :
  In e (all_events s rs) <-> exists r, In r rs /\ queried s r = true /\ In e (relay_run s r).
Proof.
  unfold all_events. rewrite in_flat_map. split.
  - intros [r [Hr He]]. rewrite relay_events_eq in He. destruct (queried s r) eqn:Eq; [|destruct He].
    exists r. repeat split; assumption.
  - intros [r [Hr [Hq He]]]. exists r. split; [exact Hr|]. rewrite relay_events_eq, Hq. exact He.
Qed.

Lemma forwarded_In c ord i b :
  In (i, b) (forwarded c ord) <->
  exists e, In e ord /\ e_del e = DBid b /\ (e_time e < c)%Z /\ e_relay e = i.
Proof.
  unfold forwarded. rewrite in_flat_map. split.
  - intros [e [He Hin]]. exists e. destruct (e_del e) as [| | |b0]; try (destruct Hin; fail).
    destruct (e_time e <? c)%Z eqn:Et; [|destruct Hin].
    destruct Hin as [Heq | []]. injection Heq as <- <-. apply Z.ltb_lt in Et. repeat split; assumption.
  - intros [e [He [Hd [Ht Hr]]]]. exists e. split; [exact He|]. rewrite Hd.
    apply Z.ltb_lt in Ht. rewrite Ht. left. rewrite Hr. reflexivity.
Qed.

(* ------------------------------------------------------------------------------------------ *)
(* The run of the deadline goroutine. *)

Lemma run_sound r : forall calls last e b,
  In e (classify_run r last calls) -> e_del e = DBid b ->
  e_relay e = r_idx r /\ exists k, In (e_time e, k, RBid b) calls /\ eligible r b = true.
Proof.
  induction calls as [|[[t k] x] rest IH]; intros last e b Hin Hd; [destruct Hin|].
  cbn [classify_run] in Hin. destruct (classify_deadline r last x) as [d last'] eqn:Ec.
  destruct Hin as [<- | Hin].
  - cbn [mk_event e_del e_time e_relay] in *. subst d.
    apply classify_deadline_bid in Ec as (-> & He & _ & _).
    split; [reflexivity|]. exists k. split; [left; reflexivity | exact He].
  - destruct (IH last' e b Hin Hd) as [Hr [k' [Hk He]]].
    split; [exact Hr|]. exists k'. split; [right; exact Hk | exact He].
Qed.

(* under the no-suppression hypothesis every eligible bid with a non-zero score is dominated by a
   forwarded one (or by the bid the goroutine already holds) *)
Lemma run_complete cfgs r : forall calls last,
  no_suppressed cfgs r last calls = true ->
  forall t k b, In (t, k, RBid b) calls -> eligible r b = true -> score cfgs b <> 0%Z ->
  exists l, ((exists e, In e (classify_run r last calls) /\ e_del e = DBid l) \/ last = Some l)
            /\ score cfgs l <> 0%Z /\ (score cfgs b <= score cfgs l)%Z.
Proof.
  induction calls as [|[[t0 k0] x] rest IH]; intros last Hns t k b Hin He Hnz; [destruct Hin|].
  cbn [classify_run]. destruct (classify_deadline r last x) as [d last'] eqn:Ec.
  (* lift a result about the rest of the run *)
  assert (Lift : forall l, ((exists e, In e (classify_run r last' rest) /\ e_del e = DBid l) \/ last' = Some l) ->
                 (last' = last \/ d = DBid l /\ last' = Some l \/ (exists e, In e (classify_run r last' rest) /\ e_del e = DBid l)) ->
                 (exists e, In e (mk_event r t0 k0 d :: classify_run r last' rest) /\ e_del e = DBid l) \/ last = Some l).
  { intros l [[e [Hie Hde]] | Hl] Hcase.
    - left. exists e. split; [right; exact Hie | exact Hde].
    - destruct Hcase as [Hsame | [[Hd Hl'] | [e [Hie Hde]]]].
      + right. rewrite <- Hsame. exact Hl.
      + left. exists (mk_event r t0 k0 d). split; [left; reflexivity | exact Hd].
      + left. exists e. split; [right; exact Hie | exact Hde]. }
  destruct x as [| | | | |b0].
  1-5: (destruct Hin as [Heq | Hin]; [discriminate Heq|];
        cbn [no_suppressed] in Hns;
        assert (Hl' : last' = last) by (cbn [classify_deadline] in Ec; injection Ec as _ <-; reflexivity);
        rewrite Hl' in *;
        destruct (IH last Hns t k b Hin He Hnz) as [l [Hl [Hlz Hle]]];
        exists l; split; [apply Lift; [exact Hl | left; reflexivity] | split; assumption]).
  cbn [no_suppressed] in Hns.
  destruct (eligible r b0) eqn:Eb0.
  - rewrite (classify_deadline_eligible r last b0 Eb0) in Ec.
    destruct last as [l0|].
    + destruct (b_value l0 <? b_value b0) eqn:Elt.
      * injection Ec as <- <-.
        destruct Hin as [Heq | Hin].
        -- injection Heq as _ _ <-. exists b0. split; [|split; [exact Hnz | lia]].
           left. exists (mk_event r t0 k0 (DBid b0)). split; [left; reflexivity | reflexivity].
        -- destruct (IH (Some b0) Hns t k b Hin He Hnz) as [l [Hl [Hlz Hle]]].
           exists l. split; [|split; assumption].
           destruct Hl as [[e [Hie Hde]] | Hl].
           ++ left. exists e. split; [right; exact Hie | exact Hde].
           ++ injection Hl as <-. left. exists (mk_event r t0 k0 (DBid b0)). split; [left; reflexivity | reflexivity].
      * injection Ec as <- <-.
        apply andb_true_iff in Hns as [Hdom Hns].
        destruct Hin as [Heq | Hin].
        -- injection Heq as _ _ <-. exists l0. split; [right; reflexivity|].
           apply orb_true_iff in Hdom as [Hz | Hdom]; [apply Z.eqb_eq in Hz; contradiction|].
           apply andb_true_iff in Hdom as [Hlz Hle]. apply negb_true_iff, Z.eqb_neq in Hlz. apply Z.leb_le in Hle.
           split; assumption.
        -- destruct (IH (Some l0) Hns t k b Hin He Hnz) as [l [Hl [Hlz Hle]]].
           exists l. split; [|split; assumption].
           destruct Hl as [[e [Hie Hde]] | Hl].
           ++ left. exists e. split; [right; exact Hie | exact Hde].
           ++ right. exact Hl.
    + injection Ec as <- <-.
      destruct Hin as [Heq | Hin].
      * injection Heq as _ _ <-. exists b0. split; [|split; [exact Hnz | lia]].
        left. exists (mk_event r t0 k0 (DBid b0)). split; [left; reflexivity | reflexivity].
      * destruct (IH (Some b0) Hns t k b Hin He Hnz) as [l [Hl [Hlz Hle]]].
        exists l. split; [|split; assumption].
        destruct Hl as [[e [Hie Hde]] | Hl].
        -- left. exists e. split; [right; exact Hie | exact Hde].
        -- injection Hl as <-. left. exists (mk_event r t0 k0 (DBid b0)). split; [left; reflexivity | reflexivity].
  - destruct (classify_deadline_other r last (RBid b0)) as [Hsnd Hfst].
    { intros b1 Hb1. injection Hb1 as <-. exact Eb0. }
    rewrite Ec in Hsnd. cbn [snd] in Hsnd. subst last'.
    destruct Hin as [Heq | Hin].
    + injection Heq as _ _ <-. rewrite He in Eb0. discriminate Eb0.
    + destruct (IH last Hns t k b Hin He Hnz) as [l [Hl [Hlz Hle]]].
      exists l. split; [|split; assumption].
      destruct Hl as [[e [Hie Hde]] | Hl].
      * left. exists e. split; [right; exact Hie | exact Hde].
      * right. exact Hl.
Qed.

(* the deadline goroutine forwards exactly the relay's value records *)
Lemma run_records r : forall calls last t b,
  (exists e, In e (classify_run r last calls) /\ e_del e = DBid b /\ e_time e = t) <->
  (exists c1 k c2, calls = c1 ++ (t, k, RBid b) :: c2 /\ eligible r b = true
                   /\ (forall l, last = Some l -> b_value l < b_value b)
                   /\ forall t' k' b', In (t', k', RBid b') c1 -> eligible r b' = true -> b_value b' < b_value b).
Proof.
  induction calls as [|[[t0 k0] x] rest IH]; intros last t b.
  { split; [intros [e [[] _]] | intros (c1 & k & c2 & H & _)]. destruct c1; discriminate H. }
  cbn [classify_run]. destruct (classify_deadline r last x) as [d last'] eqn:Ec.
  (* either the head is an eligible bid, or it changes nothing *)
  destruct (match x with RBid b0 => eligible r b0 | _ => false end) eqn:Ehead.
  - destruct x as [| | | | |b0]; try discriminate Ehead.
    rewrite (classify_deadline_eligible r last b0 Ehead) in Ec.
    assert (Hfw : (d = DBid b0 /\ last' = Some b0 /\ (forall l, last = Some l -> b_value l < b_value b0))
                  \/ (d = DSilent /\ last' = last /\ exists l, last = Some l /\ b_value b0 <= b_value l)).
    { destruct last as [l0|].
      - destruct (b_value l0 <? b_value b0) eqn:El; injection Ec as <- <-.
        + left. repeat split. intros l Hl. injection Hl as <-. apply N.ltb_lt; exact El.
        + right. repeat split. exists l0. split; [reflexivity | apply N.ltb_ge; exact El].
      - injection Ec as <- <-. left. repeat split. intros l Hl. discriminate Hl. }
    clear Ec. destruct Hfw as [(-> & -> & Hlast) | (-> & -> & l0 & Hl0 & Hle)].
    + (* forwarded *)
      split.
      * intros [e [[<- | Hin] [Hd Ht]]].
        -- cbn in Hd, Ht. injection Hd as <-. subst t0.
           exists [], k0, rest. repeat split; try assumption. intros t' k' b' [].
        -- destruct (proj1 (IH (Some b0) t b)) as (c1 & k & c2 & -> & He & Hl & Hc1).
           { exists e. repeat split; assumption. }
           specialize (Hl b0 eq_refl).
           exists ((t0, k0, RBid b0) :: c1), k, c2. repeat split; try assumption.
           ++ intros l Hl'. specialize (Hlast l Hl'). lia.
           ++ intros t' k' b' [Heq | Hin']; [injection Heq as _ _ <-; intros _; exact Hl | apply (Hc1 t' k' b' Hin')].
      * intros (c1 & k & c2 & Hcalls & He & Hl & Hc1).
        destruct c1 as [|c c1].
        -- injection Hcalls as <- <- <- <-. exists (mk_event r t0 k0 (DBid b0)).
           split; [left; reflexivity | split; reflexivity].
        -- injection Hcalls as <- ->.
           destruct (proj2 (IH (Some b0) t b)) as [e [Hin [Hd Ht]]].
           { exists c1, k, c2. repeat split; try assumption.
             - intros l Hl'. injection Hl' as <-. apply (Hc1 t0 k0 b0); [left; reflexivity | exact Ehead].
             - intros t' k' b' Hin'. apply (Hc1 t' k' b'). right; exact Hin'. }
           exists e. split; [right; exact Hin | split; assumption].
    + (* kept back *)
      split.
      * intros [e [[<- | Hin] [Hd Ht]]]; [discriminate Hd|].
        destruct (proj1 (IH last t b)) as (c1 & k & c2 & -> & He & Hl & Hc1).
        { exists e. repeat split; assumption. }
        exists ((t0, k0, RBid b0) :: c1), k, c2. repeat split; try assumption.
        intros t' k' b' [Heq | Hin']; [|apply (Hc1 t' k' b' Hin')].
        injection Heq as _ _ <-. intros _. specialize (Hl l0 Hl0). lia.
      * intros (c1 & k & c2 & Hcalls & He & Hl & Hc1).
        destruct c1 as [|c c1].
        -- injection Hcalls as _ _ <- _. specialize (Hl l0 Hl0). lia.
        -- injection Hcalls as <- ->.
           destruct (proj2 (IH last t b)) as [e [Hin [Hd Ht]]].
           { exists c1, k, c2. repeat split; try assumption.
             intros t' k' b' Hin'. apply (Hc1 t' k' b'). right; exact Hin'. }
           exists e. split; [right; exact Hin | split; assumption].
  - destruct (classify_deadline_other r last x) as [Hsnd Hfst].
    { intros b1 ->. exact Ehead. }
    rewrite Ec in Hsnd, Hfst. cbn [fst snd] in Hsnd, Hfst. subst last'.
    split.
    + intros [e [[<- | Hin] [Hd Ht]]]; [cbn in Hd; exfalso; exact (Hfst b Hd)|].
      destruct (proj1 (IH last t b)) as (c1 & k & c2 & -> & He & Hl & Hc1).
      { exists e. repeat split; assumption. }
      exists ((t0, k0, x) :: c1), k, c2. repeat split; try assumption.
      intros t' k' b' [Heq | Hin']; [|apply (Hc1 t' k' b' Hin')].
      injection Heq as _ _ ->. intros He'. rewrite He' in Ehead. discriminate Ehead.
    + intros (c1 & k & c2 & Hcalls & He & Hl & Hc1).
      destruct c1 as [|c c1].
      * injection Hcalls as _ _ ->. rewrite He in Ehead. discriminate Ehead.
      * injection Hcalls as <- ->.
        destruct (proj2 (IH last t b)) as [e [Hin [Hd Ht]]].
        { exists c1, k, c2. repeat split; try assumption.
          intros t' k' b' Hin'. apply (Hc1 t' k' b'). right; exact Hin'. }
        exists e. split; [right; exact Hin | split; assumption].
Qed.

(* ------------------------------------------------------------------------------------------ *)
(* From events to acceptable offers. *)

Lemma relay_run_bid s r e b :
  In e (relay_run s r) -> e_del e = DBid b ->
  e_relay e = r_idx r /\ exists k, In (e_time e, k, RBid b) (answered s r) /\ eligible r b = true.
Proof.
  destruct s as [T | D gap]; cbn [relay_run].
  - intros Hin Hd. apply in_map_iff in Hin as [[[t k] x] [<- Hin]].
    cbn [mk_event e_del e_time e_relay] in *. apply classify_best_bid in Hd as [-> He].
    split; [reflexivity|]. exists k. split; assumption.
  - apply run_sound.
Qed.

Lemma answered_deadline_before D gap r e j x : In (e, j, x) (answered (Deadline D gap) r) -> (e < D)%Z.
Proof. apply deadline_calls_before. Qed.

(* whatever is handed to the collector is an acceptable offer: both strategies, any order *)
Lemma forwarded_acceptable s rs ord i b :
  arrival_order s rs ord -> In (i, b) (forwarded (cutoff s) ord) ->
  exists t, acceptable_at s rs i t b.
Proof.
  intros Hord Hin. apply forwarded_In in Hin as [e [He [Hd [Ht Hr]]]].
  apply Hord, all_events_In in He as [r [Hr' [Hq He]]].
  destruct (relay_run_bid s r e b He Hd) as [Hrel [k [Hk Hel]]].
  exists (e_time e), r, k. repeat split; try assumption. congruence.
Qed.

(* best: and every acceptable offer is handed to the collector *)
Lemma best_acceptable_forwarded T rs ord i b :
  arrival_order (Best T) rs ord -> acceptable (Best T) rs i b -> In (i, b) (forwarded T ord).
Proof.
  intros Hord [t (r & k & Hr & Hi & Hq & Hin & Ht & He)].
  apply forwarded_In. exists (mk_event r t k (classify_best r (RBid b))).
  repeat split.
  - apply Hord, all_events_In. exists r. repeat split; try assumption.
    cbn [relay_run]. apply in_map_iff. exists (t, k, RBid b). split; [reflexivity | exact Hin].
  - cbn [mk_event e_del]. apply classify_best_bid. split; [reflexivity | exact He].
  - exact Ht.
  - exact Hi.
Qed.

(* deadline: what is handed to the collector are the relays' value records *)
Lemma deadline_forwarded_records D gap rs ord i b :
  arrival_order (Deadline D gap) rs ord ->
  (In (i, b) (forwarded D ord) <-> record_offer (Deadline D gap) rs i b).
Proof.
  intros Hord. rewrite forwarded_In. split.
  - intros [e [He [Hd [Ht Hr]]]]. apply Hord, all_events_In in He as [r [Hr' [Hq He]]].
    cbn [relay_run] in He.
    destruct (run_sound r _ None e b He Hd) as [Hrel _].
    destruct (proj1 (run_records r (answered (Deadline D gap) r) None (e_time e) b)) as (c1 & k & c2 & Hc & Hel & _ & Hc1).
    { exists e. repeat split; assumption. }
    exists r, (e_time e). repeat split; try assumption; [congruence|].
    exists c1, k, c2. repeat split; assumption.
  - intros (r & t & Hr & Hi & Hq & (c1 & k & c2 & Hc & Hel & Hc1)).
    destruct (proj2 (run_records r (answered (Deadline D gap) r) None t b)) as [e [He [Hd Ht]]].
    { exists c1, k, c2. repeat split; try assumption. intros l Hl. discriminate Hl. }
    exists e. repeat split; try assumption.
    + apply Hord, all_events_In. exists r. repeat split; assumption.
    + subst t. apply (answered_deadline_before D gap r (e_time e) k (RBid b)).
      rewrite Hc. apply in_or_app. right. left. reflexivity.
    + destruct (run_sound r _ None e b He Hd) as [Hrel _]. congruence.
Qed.

(* deadline, without suppressed better bids: every acceptable offer with a non-zero score is
   dominated by one handed to the collector *)
Lemma deadline_acceptable_dominated cfgs D gap rs ord j b :
  arrival_order (Deadline D gap) rs ord -> no_suppressed_better cfgs (Deadline D gap) rs ->
  acceptable (Deadline D gap) rs j b -> score cfgs b <> 0%Z ->
  exists j' l, In (j', l) (forwarded D ord) /\ score cfgs l <> 0%Z /\ (score cfgs b <= score cfgs l)%Z.
Proof.
  intros Hord Hns [t (r & k & Hr & Hi & Hq & Hin & Ht & He)] Hnz.
  destruct (run_complete cfgs r _ None (Hns r Hr Hq) t k b Hin He Hnz) as [l [[[e [Hie Hde]] | Hl] [Hlz Hle]]];
    [|discriminate Hl].
  exists (r_idx r), l. split; [|split; assumption].
  apply forwarded_In. exists e.
  destruct (run_sound r _ None e l Hie Hde) as [Hrel [k' [Hk' _]]].
  repeat split; try assumption.
  - apply Hord, all_events_In. exists r. repeat split; assumption.
  - apply (answered_deadline_before D gap r _ _ _ Hk').
Qed.

(* ------------------------------------------------------------------------------------------ *)
(* The winner. *)

Lemma winner_max_of_forwarded cfgs fw :
  winner_is_max cfgs (fun i b => In (i, b) fw) (st_win (collect cfgs fw)).
Proof.
  destruct (collect_inv cfgs fw) as [Hn Hs]. unfold winner_is_max.
  destruct (st_win (collect cfgs fw)) as [w|].
  - destruct (Hs w eq_refl) as (H1 & H2 & H3 & H4 & (r0 & rest & l1 & l2 & Hp & Hfw & Hl1) & H6).
    repeat split; try assumption.
    + exists r0. rewrite Hfw. apply in_or_app. right. left. reflexivity.
    + intros j b Hin Hnz. apply (H4 (j, b) Hin Hnz).
  - destruct (Hn eq_refl) as [_ Hall]. intros i b Hin. apply (Hall (i, b) Hin).
Qed.

Lemma winner_is_max_dom cfgs (P Q : N -> bid -> Prop) win :
  (forall i b, P i b -> Q i b) ->
  (forall j b, Q j b -> score cfgs b <> 0%Z ->
               exists j' l, P j' l /\ score cfgs l <> 0%Z /\ (score cfgs b <= score cfgs l)%Z) ->
  winner_is_max cfgs P win -> winner_is_max cfgs Q win.
Proof.
  intros Hsub Hdom. destruct win as [w|]; cbn [winner_is_max].
  - intros ([i Hi] & H1 & H2 & H3 & H4). repeat split; try assumption.
    + exists i. apply Hsub. exact Hi.
    + intros j b Hq Hnz. destruct (Hdom j b Hq Hnz) as (j' & l & Hp & Hlz & Hle).
      specialize (H4 j' l Hp Hlz). lia.
  - intros Hall i b Hq. destruct (Z.eq_dec (score cfgs b) 0) as [E | Hnz]; [exact E|].
    destruct (Hdom i b Hq Hnz) as (j' & l & Hp & Hlz & _). specialize (Hall j' l Hp). contradiction.
Qed.

Lemma winner_is_max_ext cfgs (P Q : N -> bid -> Prop) win :
  (forall i b, P i b <-> Q i b) -> winner_is_max cfgs P win -> winner_is_max cfgs Q win.
Proof.
  intros Heq. apply winner_is_max_dom.
  - intros i b. apply Heq.
  - intros j b Hq Hnz. exists j, b. split; [apply Heq; exact Hq | split; [exact Hnz | lia]].
Qed.

(* two results that are both maximal over the same family carry the same winning score *)
Lemma winner_is_max_score_unique cfgs (P : N -> bid -> Prop) w1 w2 :
  winner_is_max cfgs P w1 -> winner_is_max cfgs P w2 -> option_map p_score w1 = option_map p_score w2.
Proof.
  destruct w1 as [w1|], w2 as [w2|]; cbn [winner_is_max option_map]; try reflexivity.
  - intros ([i1 Hi1] & A1 & _ & A3 & A4) ([i2 Hi2] & B1 & _ & B3 & B4).
    f_equal. rewrite A1 in A3. rewrite B1 in B3.
    specialize (A4 i2 _ Hi2 B3). specialize (B4 i1 _ Hi1 A3). lia.
  - intros ([i1 Hi1] & A1 & _ & A3 & _) Hall. rewrite A1 in A3. specialize (Hall i1 _ Hi1). contradiction.
  - intros Hall ([i2 Hi2] & B1 & _ & B3 & _). rewrite B1 in B3. specialize (Hall i2 _ Hi2). contradiction.
Qed.

Lemma best_winner_is_max cfgs T rs ord :
  arrival_order (Best T) rs ord ->
  winner_is_max cfgs (acceptable (Best T) rs) (st_win (result_of cfgs (Best T) ord)).
Proof.
  intros Hord. unfold result_of. cbn [cutoff].
  apply (winner_is_max_ext cfgs (fun i b => In (i, b) (forwarded T ord))); [|apply winner_max_of_forwarded].
  intros i b. split.
  - intros Hin. apply (forwarded_acceptable (Best T) rs ord i b Hord Hin).
  - apply best_acceptable_forwarded. exact Hord.
Qed.

Lemma deadline_winner_is_max_partial cfgs D gap rs ord :
  arrival_order (Deadline D gap) rs ord -> no_suppressed_better cfgs (Deadline D gap) rs ->
  winner_is_max cfgs (acceptable (Deadline D gap) rs) (st_win (result_of cfgs (Deadline D gap) ord)).
Proof.
  intros Hord Hns. unfold result_of. cbn [cutoff].
  apply (winner_is_max_dom cfgs (fun i b => In (i, b) (forwarded D ord))); [| |apply winner_max_of_forwarded].
  - intros i b Hin. apply (forwarded_acceptable (Deadline D gap) rs ord i b Hord Hin).
  - intros j b Hq Hnz. apply (deadline_acceptable_dominated cfgs D gap rs ord j b Hord Hns Hq Hnz).
Qed.

Lemma deadline_winner_is_max_record cfgs D gap rs ord :
  arrival_order (Deadline D gap) rs ord ->
  winner_is_max cfgs (record_offer (Deadline D gap) rs) (st_win (result_of cfgs (Deadline D gap) ord)).
Proof.
  intros Hord. unfold result_of. cbn [cutoff].
  apply (winner_is_max_ext cfgs (fun i b => In (i, b) (forwarded D ord))); [|apply winner_max_of_forwarded].
  intros i b. apply deadline_forwarded_records. exact Hord.
Qed.

(* the winning score does not depend on the order in which the answers arrive *)
Lemma forwarded_order_indep s rs c o1 o2 x :
  arrival_order s rs o1 -> arrival_order s rs o2 -> (In x (forwarded c o1) <-> In x (forwarded c o2)).
Proof.
  intros H1 H2. destruct x as [i b]. rewrite !forwarded_In.
  split; intros [e [He Hrest]]; exists e; (split; [|exact Hrest]).
  - apply H2, H1, He.
  - apply H1, H2, He.
Qed.

Lemma winning_score_order_independent cfgs s rs o1 o2 :
  arrival_order s rs o1 -> arrival_order s rs o2 ->
  option_map p_score (st_win (result_of cfgs s o1)) = option_map p_score (st_win (result_of cfgs s o2)).
Proof.
  intros H1 H2. unfold result_of.
  apply (winner_is_max_score_unique cfgs (fun i b => In (i, b) (forwarded (cutoff s) o1))).
  - apply winner_max_of_forwarded.
  - apply (winner_is_max_ext cfgs (fun i b => In (i, b) (forwarded (cutoff s) o2))); [|apply winner_max_of_forwarded].
    intros i b. symmetry. apply (forwarded_order_indep s rs); assumption.
Qed.

(* without per-builder configuration the score is the value, so nothing better is kept back *)
Lemma no_suppressed_nil_cfgs r : forall calls last, no_suppressed [] r last calls = true.
Proof.
  induction calls as [|[[t k] x] rest IH]; intros last; [reflexivity|].
  cbn [no_suppressed]. destruct x; try apply IH.
  destruct (eligible r b) eqn:He; [|apply IH].
  destruct last as [l|]; [|apply IH].
  destruct (b_value l <? b_value b) eqn:El; [apply IH|].
  rewrite IH, andb_true_r. apply N.ltb_ge in El.
  apply eligible_iff in He as (Hv & _).
  unfold score, conf_of. cbn [lookup blank_conf bc_offset bc_factor].
  apply orb_true_iff. right. apply andb_true_iff. split; [apply negb_true_iff, Z.eqb_neq | apply Z.leb_le]; lia.
Qed.

(* ------------------------------------------------------------------------------------------ *)
(* Providers. *)

Lemma acceptable_in_all_providers s rs i t b : acceptable_at s rs i t b -> In i (all_providers s rs).
Proof.
  intros (r & k & Hr & Hi & Hq & _). unfold all_providers. apply in_map_iff.
  exists r. split; [exact Hi | apply filter_In; split; assumption].
Qed.

Lemma providers_offered cfgs s rs ord w i :
  arrival_order s rs ord ->
  st_win (result_of cfgs s ord) = Some w -> In i (st_providers (result_of cfgs s ord)) ->
  exists t b, acceptable_at s rs i t b /\ b_header b = b_header (p_bid w).
Proof.
  intros Hord Hw Hi. unfold result_of in *.
  destruct (collect_inv cfgs (forwarded (cutoff s) ord)) as [_ Hs].
  destruct (Hs w Hw) as (_ & _ & _ & _ & _ & H6).
  destruct (H6 i Hi) as [b [Hin Hh]].
  destruct (forwarded_acceptable s rs ord i b Hord Hin) as [t Ht].
  exists t, b. split; assumption.
Qed.

Lemma winner_relay_first cfgs s rs ord w :
  arrival_order s rs ord ->
  st_win (result_of cfgs s ord) = Some w ->
  exists r0 rest t, st_providers (result_of cfgs s ord) = r0 :: rest /\ acceptable_at s rs r0 t (p_bid w).
Proof.
  intros Hord Hw. unfold result_of in *.
  destruct (collect_inv cfgs (forwarded (cutoff s) ord)) as [_ Hs].
  destruct (Hs w Hw) as (_ & _ & _ & _ & (r0 & rest & l1 & l2 & Hp & Hfw & _) & _).
  destruct (forwarded_acceptable s rs ord r0 (p_bid w) Hord) as [t Ht].
  { rewrite Hfw. apply in_or_app. right. left. reflexivity. }
  exists r0, rest, t. split; assumption.
Qed.

Lemma no_winner_no_providers cfgs fw : st_win (collect cfgs fw) = None -> st_providers (collect cfgs fw) = [].
Proof. intros Hw. destruct (collect_inv cfgs fw) as [Hn _]. apply (Hn Hw). Qed.

Lemma providers_in_all_providers cfgs s rs ord i :
  arrival_order s rs ord -> In i (st_providers (result_of cfgs s ord)) -> In i (all_providers s rs).
Proof.
  intros Hord Hi. destruct (st_win (result_of cfgs s ord)) as [w|] eqn:Hw.
  - destruct (providers_offered cfgs s rs ord w i Hord Hw Hi) as (t & b & Ha & _).
    apply (acceptable_in_all_providers s rs i t b Ha).
  - unfold result_of in *. rewrite (no_winner_no_providers _ _ Hw) in Hi. destruct Hi.
Qed.

(* strictly-greater replacement: among equal best scores the first to arrive wins *)
Lemma first_best_wins cfgs fw w :
  st_win (collect cfgs fw) = Some w ->
  exists r0 l1 l2, fw = l1 ++ (r0, p_bid w) :: l2
    /\ (forall rb, In rb l1 -> score cfgs (snd rb) = 0%Z \/ (score cfgs (snd rb) < p_score w)%Z)
    /\ (forall rb, In rb l2 -> score cfgs (snd rb) = 0%Z \/ (score cfgs (snd rb) <= p_score w)%Z).
Proof.
  intros Hw. destruct (collect_inv cfgs fw) as [_ Hs].
  destruct (Hs w Hw) as (_ & _ & _ & H4 & (r0 & rest & l1 & l2 & Hp & Hfw & Hl1) & _).
  exists r0, l1, l2. repeat split; try assumption.
  intros rb Hin. destruct (Z.eq_dec (score cfgs (snd rb)) 0) as [E | Hnz]; [left; exact E | right].
  apply H4; [|exact Hnz]. rewrite Hfw. apply in_or_app. right. right. exact Hin.
Qed.

(* ------------------------------------------------------------------------------------------ *)
(* Participation: per relay, the last bid handed to the collector, with its own score. *)

Lemma lookup_set_part_same k v l : lookup k (set_part k v l) = Some v.
Proof.
  induction l as [|[k' v'] l IH]; cbn [set_part lookup].
  - rewrite N.eqb_refl. reflexivity.
  - destruct (k =? k') eqn:E; cbn [lookup]; [rewrite N.eqb_refl; reflexivity | rewrite E; exact IH].
Qed.

Lemma lookup_set_part_other k k' v l : k' <> k -> lookup k' (set_part k v l) = lookup k' l.
Proof.
  intros Hne. induction l as [|[k0 v0] l IH]; cbn [set_part lookup].
  - apply N.eqb_neq in Hne. rewrite Hne. reflexivity.
  - destruct (k =? k0) eqn:E; cbn [lookup].
    + apply N.eqb_eq in E. subst k0. apply N.eqb_neq in Hne. rewrite Hne. reflexivity.
    + destruct (k' =? k0); [reflexivity | exact IH].
Qed.

Lemma st_parts_set_bid cfgs st r b :
  st_parts (set_bid cfgs st (r, b)) =
  set_part r {| p_score := score cfgs b; p_cat := cat_of cfgs b; p_bid := b |} (st_parts st).
Proof.
  unfold set_bid. destruct (score cfgs b =? 0)%Z; [reflexivity|].
  destruct (st_win st) as [w|]; [|reflexivity].
  destruct (p_score w <? score cfgs b)%Z; [reflexivity|].
  destruct (b_header b =? b_header (p_bid w)); reflexivity.
Qed.

Lemma participation_last cfgs : forall fw i,
  match lookup i (st_parts (collect cfgs fw)) with
  | Some p => p_score p = score cfgs (p_bid p) /\ p_cat p = cat_of cfgs (p_bid p)
              /\ exists l1 l2, fw = l1 ++ (i, p_bid p) :: l2 /\ forall b, ~ In (i, b) l2
  | None => forall b, ~ In (i, b) fw
  end.
Proof.
  induction fw as [|[r b] l IH] using rev_ind; intros i.
  - cbn. intros b [].
  - rewrite collect_snoc, st_parts_set_bid.
    destruct (N.eq_dec i r) as [-> | Hne].
    + rewrite lookup_set_part_same. cbn [p_score p_cat p_bid]. repeat split.
      exists l, []. split; [reflexivity | intros b' []].
    + rewrite (lookup_set_part_other r i _ _ Hne). specialize (IH i).
      destruct (lookup i (st_parts (collect cfgs l))) as [p|].
      * destruct IH as (H1 & H2 & l1 & l2 & Hl & Hno). repeat split; try assumption.
        exists l1, (l2 ++ [(r, b)]). split; [rewrite Hl, <- app_assoc; reflexivity|].
        intros b' Hin. apply in_app_or in Hin as [Hin | [Heq | []]]; [apply (Hno b' Hin) | congruence].
      * intros b' Hin. apply in_app_or in Hin as [Hin | [Heq | []]]; [apply (IH b' Hin) | congruence].
Qed.

(* ------------------------------------------------------------------------------------------ *)
(* What the beacon node is served. *)

Lemma served_is_winner m rs st :
  (forall w, st_win st = Some w -> b_value (p_bid w) <> 0) ->
  forall x, In x (served m rs st) -> x = option_map (fun w => b_uid (p_bid w)) (st_win st).
Proof.
  intros Hv x Hin.
  assert (Himm : serve_immediate st = option_map (fun w => b_uid (p_bid w)) (st_win st)).
  { unfold serve_immediate. destruct (st_win st); reflexivity. }
  assert (Hc : rs <> [] -> serve_cached (auction_cache rs st) = option_map (fun w => b_uid (p_bid w)) (st_win st)).
  { intros Hne. unfold auction_cache. destruct rs as [|r0 rs']; [contradiction|].
    destruct (st_win st) as [w|] eqn:Ew; [|reflexivity].
    cbn [serve_cached option_map]. specialize (Hv w eq_refl).
    assert (H0 : (0 <? b_value (p_bid w)) = true) by (apply N.ltb_lt; lia).
    rewrite H0. reflexivity. }
  destruct rs as [|r0 rs'].
  - destruct m; cbn [served auction_cache] in Hin.
    + destruct Hin.
    + destruct Hin as [<- | []]. exact Himm.
    + destruct Hin as [<- | [<- | []]]; exact Himm.
  - assert (Hne : r0 :: rs' <> []) by discriminate. specialize (Hc Hne).
    destruct m; cbn [served] in Hin.
    + destruct Hin.
    + destruct (auction_cache (r0 :: rs') st) eqn:Ea.
      * unfold auction_cache in Ea. destruct (st_win st); discriminate Ea.
      * destruct Hin as [<- | []]. exact Hc.
      * destruct Hin as [<- | []]. exact Hc.
    + destruct (auction_cache (r0 :: rs') st) eqn:Ea.
      * unfold auction_cache in Ea. destruct (st_win st); discriminate Ea.
      * destruct Hin as [<- | [<- | []]]; [exact Himm | exact Hc].
      * destruct Hin as [<- | [<- | []]]; [exact Himm | exact Hc].
Qed.

Lemma result_winner_value_nonzero cfgs s rs ord w :
  arrival_order s rs ord -> st_win (result_of cfgs s ord) = Some w -> b_value (p_bid w) <> 0.
Proof.
  intros Hord Hw. destruct (winner_relay_first cfgs s rs ord w Hord Hw) as (r0 & rest & t & _ & Ha).
  destruct Ha as (r & k & _ & _ & _ & _ & _ & He). apply eligible_iff in He as [Hv _]. exact Hv.
Qed.

(* the cache entry: the winning bid, or the zero-value dummy *)
Lemma cache_entry rs st :
  rs <> [] ->
  auction_cache rs st = match st_win st with Some w => CBid (p_bid w) | None => CDummy end.
Proof. intros Hne. destruct rs; [contradiction | reflexivity]. Qed.

(* BuilderBid calls made later for the auction's key: a cache entry (winning bid or dummy) is
   answered as it is and stays, no relay is asked -- whatever the relays would answer by then *)
Lemma late_queries_entry cfgs c :
  c <> CNothing ->
  forall nows, late_queries cfgs c nows = map (fun _ => (serve_cached c, false)) nows.
Proof.
  intros Hc nows. induction nows as [|now rest IH]; [reflexivity|].
  cbn [late_queries map]. destruct c as [| |b]; [contradiction| |]; cbn [builder_bid]; rewrite IH; reflexivity.
Qed.

Lemma late_queries_after_auction cfgs s rs ord nows :
  arrival_order s rs ord -> rs <> [] ->
  late_queries cfgs (auction_cache rs (result_of cfgs s ord)) nows
  = map (fun _ => (option_map (fun w => b_uid (p_bid w)) (st_win (result_of cfgs s ord)), false)) nows.
Proof.
  intros Hord Hne. rewrite late_queries_entry.
  - apply map_ext. intros _. f_equal.
    rewrite (cache_entry rs _ Hne). destruct (st_win (result_of cfgs s ord)) as [w|] eqn:Hw; [|reflexivity].
    cbn [serve_cached option_map].
    pose proof (result_winner_value_nonzero cfgs s rs ord w Hord Hw) as Hv.
    assert (H0 : (0 <? b_value (p_bid w)) = true) by (apply N.ltb_lt; lia).
    rewrite H0. reflexivity.
  - rewrite (cache_entry rs _ Hne). destruct (st_win (result_of cfgs s ord)); discriminate.
Qed.

(* no relay configured, then and later: nothing is cached, every later call runs an (empty)
   auction, asks nobody and answers "no bid" *)
Lemma late_queries_no_relays cfgs ss :
  late_queries cfgs CNothing (map (fun s => (s, [])) ss) = map (fun _ => (None, false)) ss.
Proof.
  induction ss as [|s rest IH]; [reflexivity|].
  cbn [map late_queries builder_bid fst snd auction_state auction_cache serve_immediate init st_win].
  rewrite IH. reflexivity.
Qed.

(* ------------------------------------------------------------------------------------------ *)
(* The orders the model and the check use are arrival orders. *)

Lemma insert_by_In {A} (key : A -> N) x y : forall l, In y (insert_by key x l) <-> y = x \/ In y l.
Proof.
  induction l as [|z l IH]; cbn [insert_by].
  - cbn. intuition.
  - destruct (key x <=? key z); cbn [In]; [intuition|]. rewrite IH. intuition.
Qed.

Lemma sort_by_In {A} (key : A -> N) y : forall l, In y (sort_by key l) <-> In y l.
Proof.
  induction l as [|x l IH]; [reflexivity|].
  unfold sort_by in *. cbn [fold_right]. rewrite insert_by_In, IH. cbn [In]. intuition.
Qed.

Lemma by_time_arrival_order s rs : arrival_order s rs (by_time (all_events s rs)).
Proof. intros e. apply sort_by_In. Qed.

Lemma inserts_In {A} (x : A) : forall l p y, In p (inserts x l) -> (In y p <-> y = x \/ In y l).
Proof.
  induction l as [|z l IH]; intros p y Hp; cbn [inserts] in Hp.
  - destruct Hp as [<- | []]. cbn. intuition.
  - destruct Hp as [<- | Hp]; [cbn; intuition|].
    apply in_map_iff in Hp as [q [<- Hq]]. cbn [In]. rewrite (IH q y Hq). intuition.
Qed.

Lemma perms_In {A} : forall (l p : list A) y, In p (perms l) -> (In y p <-> In y l).
Proof.
  induction l as [|x l IH]; intros p y Hp; cbn [perms] in Hp.
  - destruct Hp as [<- | []]. reflexivity.
  - apply in_flat_map in Hp as [q [Hq Hp]]. rewrite (inserts_In x q p y Hp), (IH q y Hq). cbn [In]. intuition.
Qed.

Lemma groups_concat : forall l, concat (groups l) = l /\ Forall (fun g => g <> []) (groups l).
Proof.
  induction l as [|e l [IH1 IH2]]; [split; [reflexivity | constructor]|].
  unfold groups in *. cbn [fold_right].
  set (gl := fold_right _ [] l) in *.
  destruct gl as [|g gs].
  - cbn in IH1. subst l. split; [reflexivity | repeat constructor; discriminate].
  - destruct g as [|e' g].
    + inversion IH2 as [|? ? Hne _]. contradiction.
    + destruct (e_time e =? e_time e')%Z.
      * split; [cbn [concat app] in *; rewrite <- IH1; reflexivity|].
        inversion IH2; subst. constructor; [discriminate | assumption].
      * split; [cbn [concat app] in *; rewrite <- IH1; reflexivity|].
        constructor; [discriminate | assumption].
Qed.

Lemma linearizations_In evs ord e : In ord (linearizations evs) -> (In e ord <-> In e evs).
Proof.
  unfold linearizations. intros Hord.
  rewrite <- (sort_by_In (fun e => Z.to_N (e_time e)) e evs). fold (by_time evs).
  rewrite <- (proj1 (groups_concat (by_time evs))).
  revert ord Hord. induction (groups (by_time evs)) as [|g gs IH]; intros ord Hord; cbn [fold_right] in Hord.
  - destruct Hord as [<- | []]. reflexivity.
  - apply in_flat_map in Hord as [p [Hp Hord]]. apply in_map_iff in Hord as [o' [<- Ho']].
    cbn [concat]. rewrite !in_app_iff, (perms_In g p e Hp), (IH o' Ho'). reflexivity.
Qed.

Lemma linearization_arrival_order s rs ord :
  In ord (linearizations (all_events s rs)) -> arrival_order s rs ord.
Proof. intros Hord e. apply linearizations_In. exact Hord. Qed.

(* ------------------------------------------------------------------------------------------ *)
(* Never-win and no-winner statements. *)

Lemma winner_has_nonzero_score cfgs fw w :
  st_win (collect cfgs fw) = Some w -> p_score w = score cfgs (p_bid w) /\ p_score w <> 0%Z.
Proof.
  intros Hw. destruct (collect_inv cfgs fw) as [_ Hs]. destruct (Hs w Hw) as (H1 & _ & H3 & _). split; assumption.
Qed.

Lemma winner_is_acceptable cfgs s rs ord w :
  arrival_order s rs ord -> st_win (result_of cfgs s ord) = Some w ->
  exists r t k,
    In r rs /\ queried s r = true
    /\ In (t, k, RBid (p_bid w)) (answered s r) /\ (t < cutoff s)%Z
    /\ (b_value (p_bid w) <> 0 /\ r_min r <= b_value (p_bid w) /\ b_zero_recipient (p_bid w) = false
        /\ b_ts_delta (p_bid w) = 0%Z /\ (forall key, eff_key r = Some key -> b_signer (p_bid w) = key))
    /\ score cfgs (p_bid w) <> 0%Z
    /\ bc_factor (conf_of cfgs (p_bid w)) <> Some 0%Z
    /\ In (r_idx r) (st_providers (result_of cfgs s ord)).
Proof.
  intros Hord Hw.
  destruct (winner_relay_first cfgs s rs ord w Hord Hw) as (r0 & rest & t & Hp & (r & k & Hr & Hi & Hq & Hin & Ht & He)).
  destruct (winner_has_nonzero_score cfgs _ w Hw) as [Hs Hnz]. rewrite Hs in Hnz.
  exists r, t, k.
  split; [exact Hr|]. split; [exact Hq|]. split; [exact Hin|]. split; [exact Ht|].
  split; [apply eligible_iff; exact He|]. split; [exact Hnz|]. split.
  - intros Hf. apply (score_excluded cfgs) in Hf. contradiction.
  - rewrite Hp, Hi. left. reflexivity.
Qed.

Lemma none_acceptable_no_winner cfgs s rs ord :
  arrival_order s rs ord ->
  (forall i b, acceptable s rs i b -> score cfgs b = 0%Z) ->
  st_win (result_of cfgs s ord) = None /\ st_providers (result_of cfgs s ord) = []
  /\ forall m x, In x (served m rs (result_of cfgs s ord)) -> x = None.
Proof.
  intros Hord Hall.
  assert (Hw : st_win (result_of cfgs s ord) = None).
  { destruct (st_win (result_of cfgs s ord)) as [w|] eqn:Hw; [|reflexivity]. exfalso.
    destruct (winner_relay_first cfgs s rs ord w Hord Hw) as (r0 & rest & t & _ & Ha).
    destruct (winner_has_nonzero_score cfgs _ w Hw) as [Hs Hnz]. rewrite Hs in Hnz.
    apply Hnz, (Hall r0). exists t. exact Ha. }
  split; [exact Hw|]. split; [apply no_winner_no_providers; exact Hw|].
  intros m x Hin. apply served_is_winner in Hin; [|intros w Hw'; rewrite Hw in Hw'; discriminate Hw'].
  rewrite Hw in Hin. exact Hin.
Qed.

(* no relay configured: auctionBlock does not run the strategy *)
Lemma no_relays_no_winner cfgs s m x :
  st_win (auction_state cfgs s []) = None /\ (In x (served m [] (auction_state cfgs s [])) -> x = None).
Proof.
  split; [reflexivity|]. cbn [auction_state]. destruct m; cbn; intuition.
Qed.

(* ------------------------------------------------------------------------------------------ *)
(* The known finding: witnesses. *)

Definition wit_bid (uid value builder header : N) : bid :=
  {| b_uid := uid; b_value := value; b_builder := builder; b_zero_recipient := false;
     b_ts_delta := 0%Z; b_signer := 1; b_header := header |}.

(* one relay; first answer: 10 wei from builder 1; re-fetched answer: 9 wei from builder 2 *)
Definition wit_relay : relay :=
  {| r_idx := 0; r_kind := KFull; r_min := 0; r_cfg_key := None; r_adv_key := None; r_grace := 0%Z;
     r_script := [(16%Z, RBid (wit_bid 1 10 1 3)); (16%Z, RBid (wit_bid 2 9 2 6))] |}.

(* builder 2 is preferred (factor 200): 9 wei score 18 *)
Definition wit_cfgs_prefer : bconfs := [(2, {| bc_cat := 3; bc_offset := None; bc_factor := Some 200%Z |})].
(* builder 1 is excluded (factor 0): 10 wei score 0 *)
Definition wit_cfgs_exclude : bconfs := [(1, {| bc_cat := 1; bc_offset := None; bc_factor := Some 0%Z |})].

Lemma wit_second_acceptable : acceptable (Deadline 100 16) [wit_relay] 0 (wit_bid 2 9 2 6).
Proof.
  exists 48%Z, wit_relay, 1. repeat split.
  - left. reflexivity.
  - vm_compute. right. left. reflexivity.
Qed.

Lemma deadline_refuted_lower_winner :
  exists cfgs D gap rs w j b,
    st_win (strategy_result cfgs (Deadline D gap) rs) = Some w
    /\ acceptable (Deadline D gap) rs j b /\ (p_score w < score cfgs b)%Z.
Proof.
  exists wit_cfgs_prefer, 100%Z, 16%Z, [wit_relay].
  eexists. exists 0, (wit_bid 2 9 2 6). split; [vm_compute; reflexivity|].
  split; [exact wit_second_acceptable | vm_compute; reflexivity].
Qed.

Lemma deadline_refuted_no_winner :
  exists cfgs D gap rs j b,
    st_win (strategy_result cfgs (Deadline D gap) rs) = None
    /\ acceptable (Deadline D gap) rs j b /\ score cfgs b <> 0%Z.
Proof.
  exists wit_cfgs_exclude, 100%Z, 16%Z, [wit_relay], 0, (wit_bid 2 9 2 6).
  split; [vm_compute; reflexivity|]. split; [exact wit_second_acceptable | vm_compute; discriminate].
Qed.

Lemma deadline_refuted :
  exists cfgs D gap rs,
    ~ winner_is_max cfgs (acceptable (Deadline D gap) rs) (st_win (strategy_result cfgs (Deadline D gap) rs)).
Proof.
  exists wit_cfgs_prefer, 100%Z, 16%Z, [wit_relay]. intros H.
  change (st_win (strategy_result wit_cfgs_prefer (Deadline 100 16) [wit_relay]))
    with (Some {| p_score := 10%Z; p_cat := 0; p_bid := wit_bid 1 10 1 3 |}) in H.
  destruct H as (_ & _ & _ & _ & Hmax).
  specialize (Hmax 0 (wit_bid 2 9 2 6) wit_second_acceptable). vm_compute in Hmax.
  apply Hmax; [discriminate | reflexivity].
Qed.

(* the witnesses are in the excluded class *)
Lemma wit_suppressed :
  no_suppressed wit_cfgs_prefer wit_relay None (answered (Deadline 100 16) wit_relay) = false
  /\ no_suppressed wit_cfgs_exclude wit_relay None (answered (Deadline 100 16) wit_relay) = false.
Proof. split; vm_compute; reflexivity. Qed.

(* ------------------------------------------------------------------------------------------ *)
(* The result depends on the relays only through their acceptable offers; return time. *)

Lemma best_score_depends_on_acceptable cfgs T rs rs' ord ord' :
  arrival_order (Best T) rs ord -> arrival_order (Best T) rs' ord' ->
  (forall i b, acceptable (Best T) rs i b <-> acceptable (Best T) rs' i b) ->
  option_map p_score (st_win (result_of cfgs (Best T) ord)) = option_map p_score (st_win (result_of cfgs (Best T) ord')).
Proof.
  intros H1 H2 Heq.
  apply (winner_is_max_score_unique cfgs (acceptable (Best T) rs)).
  - apply best_winner_is_max. exact H1.
  - apply (winner_is_max_ext cfgs (acceptable (Best T) rs')); [intros i b; symmetry; apply Heq|].
    apply best_winner_is_max. exact H2.
Qed.

Lemma fold_max_bounds : forall l a T, (a <= T)%Z -> (forall x, In x l -> (x <= T)%Z) -> (a <= fold_left Z.max l a <= T)%Z.
Proof.
  induction l as [|x l IH]; intros a T Ha Hall; cbn [fold_left]; [lia|].
  assert (Hx : (x <= T)%Z) by (apply Hall; left; reflexivity).
  destruct (IH (Z.max a x) T ltac:(lia) (fun y Hy => Hall y (or_intror Hy))) as [H1 H2]. lia.
Qed.

Lemma elapsed_bounds s rs : (0 <= cutoff s)%Z -> (0 <= elapsed s rs <= cutoff s)%Z.
Proof.
  destruct s as [T | D gap]; cbn [elapsed cutoff]; intros H0; [|lia].
  destruct (Nat.eqb _ _); [|lia].
  apply fold_max_bounds; [exact H0|].
  intros x Hx. apply in_map_iff in Hx as [e [<- He]]. apply filter_In in He as [_ Ht]. apply Z.ltb_lt in Ht. lia.
Qed.
