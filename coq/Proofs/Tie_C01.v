(* C01: the hand-written model equals the gotrans transcription of validateAttestationData
   (coq/Gen/Pure_C01.v, regenerated from the repository's source on every run).  When the Go source
   changes its meaning, a lemma here stops compiling and only C01's tie is affected. *)
From Coq Require Import ZArith NArith Lia Bool List.
From Coq Require Import ZifyBool ZifyN.
From Verif Require Import Lib.Base Lib.GoInt Proofs.TieLib Gen.Pure_C01.
From Verif Require Model.C01_Attester.
Local Open Scope Z_scope.

Lemma tie_valid_data (spe : N) (d : C01_Attester.duty) (a : C01_Attester.adata) :
  C01_Attester.valid_data spe d a =
  attester_validateAttestationData (Z.of_N spe) (Z.of_N (C01_Attester.a_slot a)) (Z.of_N (C01_Attester.d_slot d))
                                   (Z.of_N (C01_Attester.a_src a)) (Z.of_N (C01_Attester.a_tgt a)).
Proof.
  unfold C01_Attester.valid_data, C01_Attester.epoch_of, attester_validateAttestationData.
  rewrite <- N2Z.inj_div, of_N_eqb, !of_N_gtb, of_N_ltb.
  destruct (C01_Attester.a_slot a =? C01_Attester.d_slot d)%N eqn:E1; cbn [negb andb]; [|reflexivity].
  destruct (C01_Attester.a_tgt a <? C01_Attester.a_src a)%N eqn:E2.
  - assert ((C01_Attester.a_src a <=? C01_Attester.a_tgt a)%N = false) as -> by lia. reflexivity.
  - assert ((C01_Attester.a_src a <=? C01_Attester.a_tgt a)%N = true) as -> by lia. cbn [andb].
    set (de := (C01_Attester.d_slot d / spe)%N).
    destruct (de <? C01_Attester.a_tgt a)%N eqn:E3; [lia|].
    destruct (C01_Attester.a_tgt a <? de)%N eqn:E4; lia.
Qed.
