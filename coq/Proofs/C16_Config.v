(* C16 — path 4: execution configuration documents: a configuration that the decoders accept
   never makes a lookup panic, over every history of fetched documents. *)
From Verif Require Import Lib.Base Model.C16_Paths Proofs.C16.
From Coq Require Import ZifyBool ZifyN ZifyNat.

Local Open Scope N_scope.

Definition proposer_clean (p : option proposer) : bool :=
  match p with None => false | Some p => negb (has_null_prelay p) end.

Definition v2_clean (d : v2doc) : Prop :=
  existsb snd (d2_relays d) = false /\ forallb proposer_clean (d2_proposers d) = true.

Lemma decode_no_panic : forall g d, decode g d <> Panic.
Proof.
  intros g d. unfold decode. destruct d as [| |n|d1|d2|[|]]; cbn [decode_gen]; try discriminate.
  - destruct (negb (d1_fields_ok d1)); [discriminate|]. destruct (d1_default d1); discriminate.
  - destruct (negb (d2_fields_ok d2)); [discriminate|].
    destruct (g && existsb snd (d2_relays d2)); [discriminate|].
    destruct (g && existsb _ (d2_proposers d2)); [discriminate|].
    destruct (g && existsb _ (d2_proposers d2)); discriminate.
Qed.

(* whatever the decoder variant, decoding itself never panics *)
Lemma decode_gen_no_panic : forall g v d, decode_gen g v d <> Panic.
Proof.
  intros g v d. destruct d as [| |n|d1|d2|[|]]; cbn [decode_gen]; try discriminate.
  - destruct (negb (d1_fields_ok d1)); [discriminate|]. destruct (d1_default d1); discriminate.
  - destruct (negb (d2_fields_ok d2)); [discriminate|].
    destruct (g && existsb snd (d2_relays d2)); [discriminate|].
    destruct (g && existsb _ (d2_proposers d2)); [discriminate|].
    destruct (g && existsb _ (d2_proposers d2)); discriminate.
  - destruct v; discriminate.
Qed.

Lemma existsb_false_forallb {A} (f g : A -> bool) (l : list A) :
  (forall x, g x = negb (f x)) -> existsb f l = false -> forallb g l = true.
Proof.
  intros H. induction l as [|x l IH]; cbn; [reflexivity|]. intro E. apply orb_false_iff in E as [E1 E2].
  rewrite H, E1. cbn. apply IH, E2.
Qed.

Lemma decode_v2_clean : forall d c, decode true (DV2 d) = Ok c -> c = CV2 d /\ v2_clean d.
Proof.
  intros d c. unfold decode. cbn [decode_gen andb].
  destruct (negb (d2_fields_ok d)); [discriminate|].
  destruct (existsb snd (d2_relays d)) eqn:E1; [discriminate|].
  destruct (existsb (fun p => match p with None => true | Some _ => false end) (d2_proposers d)) eqn:E2; [discriminate|].
  destruct (existsb (fun p => match p with None => false | Some p => has_null_prelay p end) (d2_proposers d)) eqn:E3; [discriminate|].
  intro H. injection H as <-. split; [reflexivity|]. split; [exact E1|].
  clear E1. induction (d2_proposers d) as [|p ps IH]; [reflexivity|].
  cbn [existsb forallb] in *. apply orb_false_iff in E2 as [E2a E2b]. apply orb_false_iff in E3 as [E3a E3b].
  rewrite (IH E2b E3b), andb_true_r. destruct p as [p|]; [|discriminate]. cbn. rewrite E3a. reflexivity.
Qed.

Lemma decode_rejects_null : forall d, doc_has_null d = true -> decode true d = Err CEDecode.
Proof.
  intros d H. destruct d as [| |n|d1|d2|b]; cbn in H; try discriminate.
  unfold decode. cbn [decode_gen andb]. destruct (negb (d2_fields_ok d2)); [reflexivity|].
  destruct (existsb snd (d2_relays d2)) eqn:E1; [reflexivity|]. cbn [orb] in H.
  destruct (existsb (fun p => match p with None => true | Some _ => false end) (d2_proposers d2)) eqn:E2; [reflexivity|].
  destruct (existsb (fun p => match p with None => false | Some p => has_null_prelay p end) (d2_proposers d2)) eqn:E3; [reflexivity|].
  exfalso. clear E1. induction (d2_proposers d2) as [|p ps IH]; [discriminate|].
  cbn [existsb] in *. apply orb_false_iff in E2 as [E2a E2b]. apply orb_false_iff in E3 as [E3a E3b].
  apply orb_true_iff in H as [H|H]; [|auto]. destruct p; congruence.
Qed.

Lemma initial_relays_clean : forall rs, existsb snd rs = false -> initial_relays rs = Ok (map fst rs).
Proof.
  induction rs as [|[a n] rs IH]; [reflexivity|]. cbn [existsb snd initial_relays map fst]. intro H.
  apply orb_false_iff in H as [-> H]. rewrite (IH H). reflexivity.
Qed.

Lemma prelay_clean_in : forall p r, has_null_prelay p = false -> In r (pp_relays p) -> exists b, prl_entry r = Some b.
Proof.
  intros p r H Hin. unfold has_null_prelay in H.
  destruct (prl_entry r) as [b|] eqn:E; [eauto|]. exfalso.
  assert (Hx : existsb (fun r => match prl_entry r with None => true | Some _ => false end) (pp_relays p) = true).
  { apply existsb_exists. exists r. rewrite E. auto. }
  congruence.
Qed.

Lemma update_existing_clean : forall p cfg, has_null_prelay p = false -> exists l, update_existing cfg p = Ok l.
Proof.
  intros p cfg H. induction cfg as [|a cfg (l & IH)]; [exists []; reflexivity|].
  cbn [update_existing]. destruct (find_prelay a (pp_relays p)) as [r|] eqn:Ef.
  - apply find_some in Ef as [Hin _]. destruct (prelay_clean_in p r H Hin) as (b & ->). rewrite IH. cbn [bind]. eauto.
  - rewrite IH. cbn [bind]. eauto.
Qed.

Lemma add_new_clean : forall updated rs,
  (forall r, In r rs -> exists b, prl_entry r = Some b) -> exists l, add_new updated rs = Ok l.
Proof.
  intros updated. induction rs as [|r rs IH]; intro H; [exists []; reflexivity|].
  cbn [add_new]. destruct (IH (fun r' Hr => H r' (or_intror Hr))) as (l & Hl).
  destruct (memb N.eqb (prl_addr r) updated); [eauto|].
  destruct (H r (or_introl eq_refl)) as (b & ->). rewrite Hl. cbn [bind]. eauto.
Qed.

Lemma apply_proposer_clean : forall cfg p, has_null_prelay p = false -> exists l, apply_proposer cfg p = Ok l.
Proof.
  intros cfg p H. unfold apply_proposer.
  destruct (update_existing_clean p (if pp_reset p then [] else cfg) H) as (l1 & ->). cbn [bind].
  destruct (add_new_clean (if pp_reset p then [] else cfg) (pp_relays p) (fun r Hr => prelay_clean_in p r H Hr)) as (l2 & ->).
  cbn [bind]. eauto.
Qed.

Lemma proposer_specific_clean : forall ps cfg a k,
  forallb proposer_clean ps = true -> proposer_specific cfg ps a k <> Panic.
Proof.
  induction ps as [|p ps IH]; intros cfg a k H; [discriminate|].
  cbn [forallb] in H. apply andb_true_iff in H as [Hp H].
  destruct p as [p|]; [|discriminate]. cbn [proposer_clean] in Hp. apply negb_true_iff in Hp.
  cbn [proposer_specific]. destruct (pkey_match (pp_key p) a k) as [[|]|]; [| apply IH; exact H | discriminate].
  destruct (apply_proposer_clean cfg p Hp) as (l & ->). discriminate.
Qed.

Lemma lookup2_clean : forall d a k, v2_clean d -> lookup2 d a k <> Panic.
Proof.
  intros d a k [H1 H2]. unfold lookup2. rewrite (initial_relays_clean _ H1). cbn [bind].
  apply proposer_specific_clean. exact H2.
Qed.

Lemma lookup1_guarded : forall d k, lookup1 true d k <> Panic.
Proof.
  intros d k. unfold lookup1.
  destruct (find (fun e => fst e =? k) (d1_proposers d)) as [[? [p|]]|]; try discriminate;
    destruct (d1_default d); discriminate.
Qed.

Definition safe (c : option config) : Prop := forall a k, lookup true c a k <> Panic.

Lemma safe_none : safe None.
Proof. intros a k. discriminate. Qed.

Lemma decode_safe : forall d c, decode true d = Ok c -> safe (Some c).
Proof.
  intros d c H a k. destruct d as [| |n|d1|d2|[|]]; try discriminate.
  - unfold decode in H. cbn [decode_gen] in H. destruct (negb (d1_fields_ok d1)); [discriminate|]. destruct (d1_default d1); [|discriminate].
    injection H as <-. apply lookup1_guarded.
  - apply decode_v2_clean in H as [-> Hc]. cbn [lookup]. apply lookup2_clean. exact Hc.
Qed.

Lemma refresh_safe : forall cur d, safe cur -> safe (refresh true cur d).
Proof.
  intros cur d H. unfold refresh, refresh_gen. fold (decode true d).
  destruct (decode true d) as [c|e|] eqn:E; try exact H. eapply decode_safe; eassumption.
Qed.

Lemma refresh_all_safe : forall ds cur, safe cur -> safe (refresh_all true cur ds).
Proof.
  unfold refresh_all. induction ds as [|d ds IH]; intros cur H; [exact H|]. cbn [fold_left]. apply IH. apply refresh_safe. exact H.
Qed.

Lemma refresh_rejected : forall g cur d e, decode g d = Err e -> refresh g cur d = cur.
Proof. intros g cur d e H. unfold refresh, refresh_gen. fold (decode g d). rewrite H. reflexivity. Qed.

Lemma refresh_accepted : forall g cur d c, decode g d = Ok c -> refresh g cur d = Some c.
Proof. intros g cur d c H. unfold refresh, refresh_gen. fold (decode g d). rewrite H. reflexivity. Qed.

(* the witnesses of the defect repaired by 776ef9a: without the null checks a null entry is
   accepted and the lookup dereferences it *)
Definition null_relay_doc : doc := DV2 {| d2_fields_ok := true; d2_relays := [(1, true)]; d2_proposers := [] |}.
Definition null_proposer_doc : doc := DV2 {| d2_fields_ok := true; d2_relays := []; d2_proposers := [None] |}.
Definition null_prelay_doc : doc :=
  DV2 {| d2_fields_ok := true; d2_relays := [];
         d2_proposers := [Some {| pp_key := PKValidator 2; pp_reset := false; pp_relays := [{| prl_addr := 3; prl_entry := None |}] |}] |}.

Lemma null_guard_necessary :
  (exists c, decode false null_relay_doc = Ok c /\ lookup true (Some c) 1 2 = Panic) /\
  (exists c, decode false null_proposer_doc = Ok c /\ lookup true (Some c) 1 2 = Panic) /\
  (exists c, decode false null_prelay_doc = Ok c /\ lookup true (Some c) 1 2 = Panic /\ lookup true (Some c) 1 3 <> Panic).
Proof.
  repeat split; eexists; repeat split; try reflexivity; vm_compute; discriminate.
Qed.

Lemma v1_null_entry_uses_default :
  let d := {| d1_fields_ok := true; d1_proposers := [(1, None)];
              d1_default := Some {| p1_builder := Some {| b1_enabled := true; b1_relays := [7] |} |} |} in
  decode true (DV1 d) = Ok (CV1 d) /\ lookup false (Some (CV1 d)) 0 1 = Ok [7] /\ lookup true (Some (CV1 d)) 0 1 = Ok [7].
Proof. repeat split; reflexivity. Qed.

(* the nil check of the lookup is what protects a configuration without a default entry (the
   unmarshaller refuses such a document, so only a configuration built in code can have one) *)
Lemma v1_nil_guard_necessary :
  let d := {| d1_fields_ok := true; d1_proposers := [(1, None)]; d1_default := None |} in
  lookup false (Some (CV1 d)) 0 1 = Panic /\ lookup true (Some (CV1 d)) 0 1 = Ok [].
Proof. repeat split; reflexivity. Qed.

(* ------------------------------------------------------------------------------------------- *)
(* Bare documents: a JSON value that is not an object.                                          *)

(* Every bare document is rejected by the decoder as it is: `null` by the v1 decoder ("default
   config missing"), everything else by the metadata probe. *)
Lemma bare_rejected : forall g b, decode g (DBare b) = Err CEDecode.
Proof. intros g [|]; reflexivity. Qed.

(* ... so it leaves the configuration exactly as it was, whatever came before, and the answers to
   every lookup are those of the configuration before it. *)
Lemma bare_keeps_previous : forall b cur a k,
  refresh true cur (DBare b) = cur /\
  lookup true (refresh true cur (DBare b)) a k = lookup true cur a k.
Proof. intros b cur a k. rewrite (refresh_rejected true cur (DBare b) CEDecode (bare_rejected true b)). split; reflexivity. Qed.

(* The accepted configurations of the code as it is are never the nil pointer. *)
Lemma decode_never_nil : forall g d, decode g d <> Ok CNilV1.
Proof.
  intros g d. unfold decode. destruct d as [| |n|d1|d2|[|]]; cbn [decode_gen]; try discriminate.
  - destruct (negb (d1_fields_ok d1)); [discriminate|]. destruct (d1_default d1); discriminate.
  - destruct (negb (d2_fields_ok d2)); [discriminate|].
    destruct (g && existsb snd (d2_relays d2)); [discriminate|].
    destruct (g && existsb _ (d2_proposers d2)); [discriminate|].
    destruct (g && existsb _ (d2_proposers d2)); discriminate.
Qed.

(* Decoding by value is necessary: a decoder that lets encoding/json allocate the configuration
   accepts exactly one more document, `null`, as the nil pointer; the interface test of
   fetchExecutionConfig does not see it, it replaces whatever configuration there was, and from
   then on EVERY lookup panics (until a later document is accepted). *)
Lemma by_value_necessary :
  (forall g d c, decode_gen g false d = Ok c -> c = CNilV1 \/ decode_gen g true d = Ok c) /\
  (forall g d, decode_gen g false d = Ok CNilV1 <-> d = DBare BNull) /\
  (forall g cur a k, lookup true (refresh_gen g false cur (DBare BNull)) a k = Panic) /\
  (forall g cur a k, lookup true (refresh_gen g true cur (DBare BNull)) a k = lookup true cur a k).
Proof.
  split; [|split; [|split]].
  - intros g d c H. destruct d as [| |n|d1|d2|[|]]; cbn [decode_gen] in *; try discriminate; auto.
    injection H as <-. auto.
  - intros g d. split.
    + destruct d as [| |n|d1|d2|[|]]; cbn [decode_gen]; try discriminate; try reflexivity.
      * destruct (negb (d1_fields_ok d1)); [discriminate|]. destruct (d1_default d1); discriminate.
      * destruct (negb (d2_fields_ok d2)); [discriminate|].
        destruct (g && existsb snd (d2_relays d2)); [discriminate|].
        destruct (g && existsb _ (d2_proposers d2)); [discriminate|].
        destruct (g && existsb _ (d2_proposers d2)); discriminate.
    + intros ->. reflexivity.
  - intros g cur a k. reflexivity.
  - intros g cur a k. reflexivity.
Qed.

(* ------------------------------------------------------------------------------------------- *)
(* The registration round that follows a refresh.                                               *)

Lemma registration_safe : forall c, safe c -> is_ok (registration_round c) = true.
Proof.
  intros c H. unfold registration_round. specialize (H reg_account reg_pubkey).
  destruct (lookup true c reg_account reg_pubkey); [reflexivity | reflexivity | congruence].
Qed.

Lemma registration_none : registration_round None = Ok [].
Proof. reflexivity. Qed.

(* over every history of documents the round after the last refresh completes *)
Lemma registration_no_panic : forall ds, is_ok (registration_round (refresh_all true None ds)) = true.
Proof. intro ds. apply registration_safe. apply refresh_all_safe. exact safe_none. Qed.

(* with the allocating decoder the round after a `null` document panics *)
Lemma registration_by_value_necessary : forall g cur,
  registration_round (refresh_gen g false cur (DBare BNull)) = Panic /\
  registration_round (refresh_gen g true cur (DBare BNull)) = registration_round cur.
Proof. intros g cur. split; reflexivity. Qed.
