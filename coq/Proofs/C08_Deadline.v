(* C08: lemmas about Submit<Kind> called with a context that carries a deadline (Model run_dl). *)
From Coq Require Import ZifyBool ZifyN ZifyNat.
From Verif Require Import Lib.Base Model.C08_Submitter Model.C08_Spec Proofs.C08.

Lemma restrict_none v : restrict None v = v.
Proof. destruct v as [s a c d w]. unfold restrict, stores. cbn. destruct d; reflexivity. Qed.

Lemma run_dl_none inp order : run_dl None inp order = run inp order.
Proof.
  unfold run_dl, run, outcomes_dl, outcomes.
  rewrite (map_ext (restrict None) (fun v => v) restrict_none), map_id. reflexivity.
Qed.

Lemma dl_returns_by_timeout cl inp order o :
  0 < i_timeout inp -> In o (snd (run_dl cl inp order)) ->
  snd o <= i_timeout inp /\ (fst o = false -> guard_ok (i_kind inp) (i_len inp) = true -> snd o = i_timeout inp).
Proof.
  intros HT Ho. unfold run_dl in Ho. destruct (guard_ok (i_kind inp) (i_len inp)) eqn:Hg; cbn [snd] in Ho.
  - unfold outcomes_dl in Ho. apply in_flat_map in Ho as [ts [_ Ho]]. split.
    + eapply outcomes_of_le; eassumption.
    + intros Hf _. destruct o as [ok t]; cbn [fst snd] in *. subst ok.
      apply outcomes_of_false in Ho. tauto.
  - destruct Ho as [<-|[]]. cbn [fst snd]. split; [lia | intros _ H; discriminate].
Qed.

Lemma dl_some_outcome cl inp order : snd (run_dl cl inp order) <> [].
Proof.
  unfold run_dl. destruct (guard_ok (i_kind inp) (i_len inp)); cbn [snd]; [|discriminate].
  unfold outcomes_dl. destruct (worlds (map (restrict cl) (views inp order))) as [|ts ws] eqn:E; [exfalso; eapply worlds_nonempty; eassumption|].
  cbn [flat_map]. pose proof (outcomes_of_nonempty (i_timeout inp) ts).
  destruct (outcomes_of (i_timeout inp) ts); [congruence|discriminate].
Qed.

Lemma restrict_elem cl v t :
  v_done (restrict cl v) = Some t ->
  (v_verdict (restrict cl v) = VOk \/ v_verdict (restrict cl v) = VAny) ->
  v_done v = Some t /\ (v_verdict v = VOk \/ v_verdict v = VAny) /\ stores cl v <> TNo.
Proof.
  unfold restrict. destruct (stores cl v) eqn:E; cbn [v_done v_verdict]; intros Hd Hv.
  - discriminate.
  - split; [exact Hd|]. split; [|discriminate].
    destruct (v_verdict v); [left; reflexivity | destruct Hv; discriminate | right; reflexivity].
  - split; [exact Hd|]. split; [exact Hv | discriminate].
Qed.

(* what "stores cl v <> TNo" says *)
Definition gate (cl : option caller) (v : node_view) : option N := if deaf cl then v_start v else v_done v.

Lemma stores_not_no k v :
  stores (Some k) v <> TNo -> exists g, gate (Some k) v = Some g /\ g <= cl_deadline k.
Proof.
  unfold stores, gate. destruct (v_done v) as [d|]; [|congruence].
  unfold upto. destruct (if deaf (Some k) then v_start v else Some d) as [g|]; [|congruence].
  intros H. exists g. split; [reflexivity|].
  destruct (g <? cl_deadline k) eqn:E1; [lia|]. destruct (g =? cl_deadline k) eqn:E2; [lia|congruence].
Qed.

Lemma stores_yes k v g :
  v_done v <> None -> gate (Some k) v = Some g -> g < cl_deadline k -> stores (Some k) v = TYes.
Proof.
  unfold stores, gate. intros Hd Hg Hlt. destruct (v_done v) as [d|]; [|congruence].
  rewrite Hg. unfold upto. destruct (g <? cl_deadline k) eqn:E; [reflexivity|lia].
Qed.

Lemma dl_success_needs_node cl inp order t :
  guard_ok (i_kind inp) (i_len inp) = true ->
  In (true, t) (snd (run_dl cl inp order)) ->
  exists v m, In v (views inp order) /\ v_done v = Some m /\ m <= i_timeout inp
              /\ (v_verdict v = VOk \/ v_verdict v = VAny) /\ stores cl v <> TNo.
Proof.
  intros Hg Ho. unfold run_dl in Ho. rewrite Hg in Ho. cbn [snd] in Ho.
  unfold outcomes_dl in Ho. apply in_flat_map in Ho as [ts [Hts Ho]].
  apply outcomes_of_true in Ho as [m [Hm Hle]].
  destruct (world_elem _ _ _ Hts Hm) as [v' [Hv' [Hdone Hverd]]].
  apply in_map_iff in Hv' as [v [<- Hv]].
  destruct (restrict_elem cl v m Hdone Hverd) as [Hd [Hvd Hst]].
  exists v, m. repeat split; assumption.
Qed.

(* a node that, left alone, has its accepted result stored before the timeout AND before the caller's
   deadline (a node that ignores the context: whenever the deadline is not immediate) makes the
   submission succeed by then -- whatever the other nodes do, whatever the deadline otherwise is *)
Lemma dl_success_via cl inp order i nd d o :
  guard_ok (i_kind inp) (i_len inp) = true -> 0 < i_timeout inp ->
  valid_order (length (i_nodes inp)) order ->
  (Z.of_nat (length (i_nodes inp)) <= i_conc inp)%Z ->
  nth_error (i_nodes inp) i = Some nd ->
  node_verdict (i_kind inp) (n_client nd) (node_behs (i_kind inp) (i_len inp) (i_conc inp) nd) = VOk ->
  node_span (i_kind inp) nd (node_behs (i_kind inp) (i_len inp) (i_conc inp) nd) = Some d ->
  d < i_timeout inp ->
  match cl with
  | None => True
  | Some k => if cl_deaf k then 0 < cl_deadline k else d < cl_deadline k
  end ->
  In o (snd (run_dl cl inp order)) ->
  fst o = true /\ (0 < d -> snd o <= d).
Proof.
  intros Hg HT Hord Hc Hi Hv Hd Hlt Hcl Ho. unfold run_dl in Ho. rewrite Hg in Ho. cbn [snd] in Ho.
  unfold outcomes_dl in Ho. apply in_flat_map in Ho as [ts [Hts Ho]].
  set (sv := solo_view (i_kind inp) (i_len inp) (i_conc inp) nd).
  assert (Hin : In sv (views inp order)).
  { apply (nth_error_In _ i). rewrite views_nth, Hi. cbn [option_map]. f_equal. apply view_at_once; assumption. }
  assert (Hr : restrict cl sv = sv).
  { destruct cl as [k|]; [|apply restrict_none].
    unfold restrict.
    assert (Hy : stores (Some k) sv = TYes).
    { destruct (cl_deaf k) eqn:Edf.
      - apply (stores_yes k sv 0); [subst sv; cbn [solo_view v_done]; congruence | | exact Hcl].
        unfold gate, deaf. rewrite Edf. reflexivity.
      - apply (stores_yes k sv d); [subst sv; cbn [solo_view v_done]; congruence | | exact Hcl].
        unfold gate, deaf. rewrite Edf. subst sv. cbn [solo_view v_done]. exact Hd. }
    rewrite Hy. reflexivity. }
  assert (Hin' : In sv (map (restrict cl) (views inp order))).
  { rewrite <- Hr. apply in_map. exact Hin. }
  assert (Hd' : In d ts).
  { eapply world_ok; [exact Hts | exact Hin' | exact Hv | exact Hd]. }
  eapply outcomes_of_forced; eassumption.
Qed.

(* ------------------------------------------------------------------------------------------- *)
(* A deadline beyond the configured timeout changes nothing of what the caller sees.            *)

(* two lists of store instants that have the same members up to T *)
Definition sim (T : N) (l1 l2 : list N) : Prop := forall t, t <= T -> (In t l1 <-> In t l2).

Lemma sim_refl T l : sim T l l.
Proof. intros t _. tauto. Qed.

Lemma sim_sym T l1 l2 : sim T l1 l2 -> sim T l2 l1.
Proof. intros H t Ht. specialize (H t Ht). tauto. Qed.

Lemma sim_cons T t l1 l2 : sim T l1 l2 -> sim T (t :: l1) (t :: l2).
Proof. intros H x Hx. specialize (H x Hx). cbn [In]. tauto. Qed.

Lemma sim_drop_l T t l1 l2 : T < t -> sim T l1 l2 -> sim T (t :: l1) l2.
Proof. intros Ht H x Hx. specialize (H x Hx). cbn [In]. split; [intros [E|E]; [lia|tauto] | tauto]. Qed.

Lemma sim_filter T f l1 l2 : sim T l1 l2 -> sim T (filter f l1) (filter f l2).
Proof. intros H x Hx. specialize (H x Hx). rewrite !filter_In. tauto. Qed.

Lemma list_min_spec l :
  match list_min l with
  | None => l = []
  | Some m => In m l /\ forall x, In x l -> m <= x
  end.
Proof.
  destruct l as [|a l]; cbn [list_min]; [reflexivity|].
  induction l as [|b l IH]; cbn [fold_right].
  - split; [left; reflexivity | intros x [<-|[]]; lia].
  - destruct IH as [Hin Hle]. split.
    + destruct (N.min_spec b (fold_right N.min a l)) as [[_ E]|[_ E]]; rewrite E.
      * right; left; reflexivity.
      * destruct Hin as [<-|Hin]; [left; reflexivity | right; right; exact Hin].
    + intros x [<-|[<-|Hx]].
      * specialize (Hle a (or_introl eq_refl)). lia.
      * lia.
      * specialize (Hle x (or_intror Hx)). lia.
Qed.

Lemma list_min_sim T l1 l2 m :
  sim T l1 l2 -> list_min l1 = Some m -> m <= T -> list_min l2 = Some m.
Proof.
  intros Hs H1 Hm. pose proof (list_min_spec l1) as S1. rewrite H1 in S1. destruct S1 as [Hin1 Hle1].
  pose proof (list_min_spec l2) as S2. destruct (list_min l2) as [m2|].
  - destruct S2 as [Hin2 Hle2]. f_equal.
    assert (In m l2) by (apply (Hs m Hm); exact Hin1).
    assert (m2 <= m) by (apply Hle2; assumption).
    assert (In m2 l1) by (apply (Hs m2); [lia | exact Hin2]).
    assert (m <= m2) by (apply Hle1; assumption). lia.
  - subst l2. exfalso. apply (Hs m Hm) in Hin1. destruct Hin1.
Qed.

Lemma outcomes_of_big T ts m : list_min ts = Some m -> T < m -> outcomes_of T ts = [(false, T)].
Proof.
  intros H Hm. unfold outcomes_of. rewrite H.
  destruct (m =? 0) eqn:E0; [lia|]. destruct (m <? T) eqn:E1; [lia|]. destruct (m =? T) eqn:E2; [lia|]. reflexivity.
Qed.

Lemma outcomes_of_sim T l1 l2 : 0 < T -> sim T l1 l2 -> outcomes_of T l1 = outcomes_of T l2.
Proof.
  intros HT Hs.
  assert (Hpos : forall l1 l2, sim T l1 l2 ->
            list_min (filter (fun t => 0 <? t) (T :: l1)) = list_min (filter (fun t => 0 <? t) (T :: l2))).
  { intros a b Hab.
    assert (Hs' : sim T (filter (fun t => 0 <? t) (T :: a)) (filter (fun t => 0 <? t) (T :: b)))
      by (apply sim_filter, sim_cons; exact Hab).
    pose proof (list_min_spec (filter (fun t => 0 <? t) (T :: a))) as Sa.
    destruct (list_min (filter (fun t => 0 <? t) (T :: a))) as [na|] eqn:Ea.
    - destruct Sa as [_ Hle]. symmetry. eapply list_min_sim; [exact Hs' | exact Ea |].
      apply Hle. apply filter_In. split; [left; reflexivity | lia].
    - exfalso. assert (In T (filter (fun t => 0 <? t) (T :: a))) by (apply filter_In; split; [left; reflexivity | lia]).
      rewrite Sa in H. destruct H. }
  destruct (list_min l1) as [m1|] eqn:E1; destruct (list_min l2) as [m2|] eqn:E2.
  - destruct (N.le_gt_cases m1 T) as [Hle|Hgt].
    + pose proof (list_min_sim T l1 l2 m1 Hs E1 Hle) as E. rewrite E2 in E. injection E as ->.
      unfold outcomes_of. rewrite E1, E2. rewrite (Hpos l1 l2 Hs). reflexivity.
    + destruct (N.le_gt_cases m2 T) as [Hle2|Hgt2].
      * pose proof (list_min_sim T l2 l1 m2 (sim_sym _ _ _ Hs) E2 Hle2) as E. rewrite E1 in E. injection E as ->. lia.
      * rewrite (outcomes_of_big T l1 m1 E1 Hgt), (outcomes_of_big T l2 m2 E2 Hgt2). reflexivity.
  - destruct (N.le_gt_cases m1 T) as [Hle|Hgt].
    + pose proof (list_min_sim T l1 l2 m1 Hs E1 Hle) as E. congruence.
    + rewrite (outcomes_of_big T l1 m1 E1 Hgt). unfold outcomes_of. rewrite E2. reflexivity.
  - destruct (N.le_gt_cases m2 T) as [Hle|Hgt].
    + pose proof (list_min_sim T l2 l1 m2 (sim_sym _ _ _ Hs) E2 Hle) as E. congruence.
    + rewrite (outcomes_of_big T l2 m2 E2 Hgt). unfold outcomes_of. rewrite E1. reflexivity.
  - unfold outcomes_of. rewrite E1, E2. reflexivity.
Qed.

Lemma sim_trans T l1 l2 l3 : sim T l1 l2 -> sim T l2 l3 -> sim T l1 l3.
Proof. intros H1 H2 t Ht. specialize (H1 t Ht). specialize (H2 t Ht). tauto. Qed.

Definition step (d : option N) (w : verdict) (W : list (list N)) : list (list N) :=
  match d, w with
  | Some t, VOk => map (cons t) W
  | Some t, VAny => map (cons t) W ++ W
  | _, _ => W
  end.

Lemma worlds_cons v vs : worlds (v :: vs) = step (v_done v) (v_verdict v) (worlds vs).
Proof. reflexivity. Qed.

(* every world on one side has a world on the other side with the same stores up to T *)
Definition wsim (T : N) (W W' : list (list N)) : Prop :=
  (forall ts', In ts' W' -> exists ts, In ts W /\ sim T ts ts')
  /\ (forall ts, In ts W -> exists ts', In ts' W' /\ sim T ts ts').

Lemma step_elem d w W ts :
  In ts (step d w W) -> exists ts0, In ts0 W /\ (ts = ts0 \/ exists t, d = Some t /\ ts = t :: ts0).
Proof.
  unfold step. intros H.
  assert (Hc : forall t, d = Some t -> In ts (map (cons t) W) ->
               exists ts0, In ts0 W /\ (ts = ts0 \/ exists t, d = Some t /\ ts = t :: ts0)).
  { intros t Hd Hm. apply in_map_iff in Hm as [ts0 [<- H0]]. exists ts0. split; [exact H0|]. right. exists t. split; [exact Hd|reflexivity]. }
  assert (Hs : In ts W -> exists ts0, In ts0 W /\ (ts = ts0 \/ exists t, d = Some t /\ ts = t :: ts0)).
  { intros H0. exists ts. split; [exact H0 | left; reflexivity]. }
  destruct d as [t|]; [|apply Hs; exact H].
  destruct w.
  - apply (Hc t eq_refl H).
  - apply Hs; exact H.
  - apply in_app_or in H as [H|H]; [apply (Hc t eq_refl H) | apply Hs; exact H].
Qed.

Lemma step_has d w W ts0 :
  In ts0 W -> exists ts, In ts (step d w W) /\ (ts = ts0 \/ exists t, d = Some t /\ ts = t :: ts0).
Proof.
  intros H0. unfold step. destruct d as [t|]; [|exists ts0; split; [exact H0 | left; reflexivity]].
  destruct w.
  - exists (t :: ts0). split; [apply in_map; exact H0|]. right. exists t. split; reflexivity.
  - exists ts0. split; [exact H0 | left; reflexivity].
  - exists ts0. split; [apply in_or_app; right; exact H0 | left; reflexivity].
Qed.

Lemma step_same T d w W W' : wsim T W W' -> wsim T (step d w W) (step d w W').
Proof.
  intros [H1 H2].
  assert (G : forall A B : list (list N),
            (forall b, In b B -> exists a, In a A /\ sim T a b) ->
            forall b, In b (step d w B) -> exists a, In a (step d w A) /\ sim T a b).
  { intros A B H b Hb. unfold step in *. 
    assert (Hc : forall t, In b (map (cons t) B) -> exists a, In a (map (cons t) A) /\ sim T a b).
    { intros t Hm. apply in_map_iff in Hm as [b0 [<- Hb0]]. destruct (H b0 Hb0) as [a0 [Ha0 Hs]].
      exists (t :: a0). split; [apply in_map; exact Ha0 | apply sim_cons; exact Hs]. }
    destruct d as [t|]; [|apply H; exact Hb].
    destruct w.
    - apply Hc; exact Hb.
    - apply H; exact Hb.
    - apply in_app_or in Hb as [Hb|Hb].
      + destruct (Hc t Hb) as [a [Ha Hs]]. exists a. split; [apply in_or_app; left; exact Ha | exact Hs].
      + destruct (H b Hb) as [a [Ha Hs]]. exists a. split; [apply in_or_app; right; exact Ha | exact Hs]. }
  split.
  - apply G; exact H1.
  - intros ts Hts.
    destruct (G W' W (fun b Hb => match H2 b Hb with ex_intro _ a (conj Ha Hs) => ex_intro _ a (conj Ha (sim_sym _ _ _ Hs)) end) ts Hts)
      as [a [Ha Hs]].
    exists a. split; [exact Ha | apply sim_sym; exact Hs].
Qed.

Lemma step_late T d w d' w' W W' :
  (forall t, d = Some t -> T < t) -> (forall t, d' = Some t -> T < t) ->
  wsim T W W' -> wsim T (step d w W) (step d' w' W').
Proof.
  intros Hd Hd' [H1 H2].
  assert (G : forall da wa db wb (A B : list (list N)),
            (forall t, da = Some t -> T < t) -> (forall t, db = Some t -> T < t) ->
            (forall b, In b B -> exists a, In a A /\ sim T a b) ->
            forall b, In b (step db wb B) -> exists a, In a (step da wa A) /\ sim T a b).
  { intros da wa db wb A B Hda Hdb H b Hb.
    destruct (step_elem _ _ _ _ Hb) as [b0 [Hb0 Hrel]].
    destruct (H b0 Hb0) as [a0 [Ha0 Hs0]].
    destruct (step_has da wa A a0 Ha0) as [a [Ha Hrel']].
    exists a. split; [exact Ha|].
    assert (S1 : sim T a a0).
    { destruct Hrel' as [->|[t [Et ->]]]; [apply sim_refl | apply sim_drop_l; [apply Hda; exact Et | apply sim_refl]]. }
    assert (S2 : sim T b0 b).
    { apply sim_sym. destruct Hrel as [->|[t [Et ->]]]; [apply sim_refl | apply sim_drop_l; [apply Hdb; exact Et | apply sim_refl]]. }
    eapply sim_trans; [exact S1|]. eapply sim_trans; [exact Hs0 | exact S2]. }
  split.
  - apply (G d w d' w' W W' Hd Hd' H1).
  - intros ts Hts.
    destruct (G d' w' d w W' W Hd' Hd (fun b Hb => match H2 b Hb with ex_intro _ a (conj Ha Hs) => ex_intro _ a (conj Ha (sim_sym _ _ _ Hs)) end) ts Hts)
      as [a [Ha Hs]].
    exists a. split; [exact Ha | apply sim_sym; exact Hs].
Qed.

(* a view whose store the deadline may suppress would store only after T *)
Definition late (T : N) (cl : option caller) (v : node_view) : Prop :=
  stores cl v <> TYes -> forall t, v_done v = Some t -> T < t.

Lemma worlds_restrict_sim T cl vs :
  (forall v, In v vs -> late T cl v) -> wsim T (worlds vs) (worlds (map (restrict cl) vs)).
Proof.
  induction vs as [|v vs IH]; intros Hl.
  - cbn. split; intros ts [<-|[]]; exists []; (split; [left; reflexivity | apply sim_refl]).
  - cbn [map]. rewrite !worlds_cons.
    assert (IH' : wsim T (worlds vs) (worlds (map (restrict cl) vs))) by (apply IH; intros v0 Hv0; apply Hl; right; exact Hv0).
    specialize (Hl v (or_introl eq_refl)). unfold late in Hl. unfold restrict.
    destruct (stores cl v) eqn:Es.
    + cbn [v_done v_verdict]. apply step_late; [apply Hl; discriminate | discriminate | exact IH'].
    + cbn [v_done v_verdict]. apply step_late; [apply Hl; discriminate | apply Hl; discriminate | exact IH'].
    + apply step_same; exact IH'.
Qed.

Lemma views_done_start inp order v :
  In v (views inp order) -> exists sp, v_done v = oadd (v_start v) sp.
Proof.
  unfold views. intros H. apply in_map_iff in H as [[i nd] [<- _]]. cbn [fst snd].
  unfold view_of. cbn [v_done v_start]. eexists; reflexivity.
Qed.

Lemma views_late k inp order v :
  i_timeout inp < cl_deadline k -> In v (views inp order) -> late (i_timeout inp) (Some k) v.
Proof.
  intros HD Hv Hs t Hd. unfold stores in Hs. rewrite Hd in Hs. unfold upto in Hs.
  destruct (deaf (Some k)) eqn:Edf.
  - destruct (views_done_start _ _ _ Hv) as [sp Hsp]. rewrite Hd in Hsp.
    destruct (v_start v) as [s|]; [|discriminate]. destruct sp as [p|]; [|discriminate].
    cbn [oadd] in Hsp. injection Hsp as ->.
    destruct (s <? cl_deadline k) eqn:E; [congruence|]. lia.
  - destruct (t <? cl_deadline k) eqn:E; [congruence|]. lia.
Qed.

(* the caller's deadline lies beyond the configured timeout: the call answers exactly as it does
   for a context without deadline -- in particular by the timeout, not at the caller's deadline *)
Lemma dl_beyond_timeout k inp order o :
  0 < i_timeout inp -> i_timeout inp < cl_deadline k ->
  (In o (snd (run_dl (Some k) inp order)) <-> In o (snd (run inp order))).
Proof.
  intros HT HD. unfold run_dl, run. destruct (guard_ok (i_kind inp) (i_len inp)); cbn [snd]; [|tauto].
  unfold outcomes_dl, outcomes.
  destruct (worlds_restrict_sim (i_timeout inp) (Some k) (views inp order)) as [H1 H2].
  { intros v Hv. exact (views_late k inp order v HD Hv). }
  split; intros Ho; apply in_flat_map in Ho as [ts [Hts Ho]]; apply in_flat_map.
  - destruct (H1 ts Hts) as [ts0 [Hts0 Hs]]. exists ts0. split; [exact Hts0|].
    rewrite (outcomes_of_sim _ _ _ HT Hs). exact Ho.
  - destruct (H2 ts Hts) as [ts' [Hts' Hs]]. exists ts'. split; [exact Hts'|].
    rewrite <- (outcomes_of_sim _ _ _ HT Hs). exact Ho.
Qed.
