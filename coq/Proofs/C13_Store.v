(* C13 — the account store and the validator store of Model.C13_Accounts along refresh histories:
   what a query answers (keyed by validator index), and what refreshes that return nothing do. *)
From Verif Require Import Lib.Base Lib.RegexM Model.C13_Accounts Proofs.C13.
From Coq Require Import String Permutation ZifyBool ZifyN ZifyNat.
Open Scope N_scope.

(* ---------------------------------------------------------------------------------------------
   List helpers. *)
Lemma insert_by_perm : forall (A : Type) (key : A -> N) x l, Permutation (insert_by key x l) (x :: l).
Proof.
  intros A key x l; induction l as [|y l IH]; cbn.
  - apply Permutation_refl.
  - destruct (key x <=? key y).
    + apply Permutation_refl.
    + eapply Permutation_trans; [apply perm_skip; exact IH | apply perm_swap].
Qed.

Lemma sort_by_perm : forall (A : Type) (key : A -> N) l, Permutation (sort_by key l) l.
Proof.
  intros A key l; induction l as [|x l IH]; cbn.
  - constructor.
  - eapply Permutation_trans; [apply insert_by_perm | apply perm_skip; exact IH].
Qed.

Lemma sort_by_In : forall (A : Type) (key : A -> N) l x, In x (sort_by key l) <-> In x l.
Proof.
  intros A key l x; split; apply Permutation_in; [| apply Permutation_sym]; apply sort_by_perm.
Qed.

Lemma filter_map_In : forall (A B : Type) (f : A -> option B) l y,
  In y (filter_map f l) <-> exists x, In x l /\ f x = Some y.
Proof.
  intros A B f l y; induction l as [|x l IH]; cbn.
  - split; [tauto | intros (x & [] & _)].
  - destruct (f x) eqn:E; cbn; rewrite IH; split.
    + intros [-> | (x' & Hin & Hf)]; [exists x; auto | exists x'; auto].
    + intros (x' & [<- | Hin] & Hf); [left; congruence | right; exists x'; auto].
    + intros (x' & Hin & Hf); exists x'; auto.
    + intros (x' & [<- | Hin] & Hf); [congruence | exists x'; auto].
Qed.

Lemma mem_N_In : forall x l, mem_N x l = true <-> In x l.
Proof. intros; unfold mem_N; apply memb_spec; apply N.eqb_eq. Qed.

Lemma isnil_true : forall (A : Type) (l : list A), isnil l = true <-> l = [].
Proof. intros A [|x l]; cbn; split; congruence. Qed.

Lemma find_val_some : forall vals pk v, find_val vals pk = Some v -> In v vals /\ v_pk v = pk.
Proof.
  intros vals pk v H; unfold find_val in H. apply find_some in H as [H1 H2].
  apply N.eqb_eq in H2; auto.
Qed.

Lemma last_cons_default : forall (A : Type) (l : list A) a d, last (a :: l) d = last l a.
Proof.
  intros A l; induction l as [|x l IH]; intros a d; [reflexivity|].
  change (last (a :: x :: l) d) with (last (x :: l) d). rewrite IH. symmetry. apply IH.
Qed.

Definition or_else {A : Type} (l d : list A) : list A := match l with [] => d | _ => l end.

(* the most recent non-empty element of a chronological list of outcomes *)
Fixpoint last_nonempty {A : Type} (ls : list (list A)) : list A :=
  match ls with
  | [] => []
  | l :: ls' => or_else (last_nonempty ls') l
  end.

Lemma last_nonempty_cons : forall (A : Type) (l : list A) ls,
  last_nonempty (l :: ls) = or_else (last_nonempty ls) l.
Proof. reflexivity. Qed.

Lemma last_nonempty_In : forall (A : Type) (ls : list (list A)),
  last_nonempty ls = [] \/ In (last_nonempty ls) ls.
Proof.
  intros A ls; induction ls as [|l ls IH]; cbn; [left; reflexivity|].
  destruct (last_nonempty ls) eqn:E; cbn.
  - destruct l; [left; reflexivity | right; left; reflexivity].
  - right; right. destruct IH as [IH | IH]; [discriminate | exact IH].
Qed.

Section Store.
  Variable parse : string -> option (list re).
  Variable cfg : config.

  Notation admitted := (admitted parse cfg).
  Notation refresh_accounts := (refresh_accounts parse cfg).
  Notation refresh := (refresh parse cfg).
  Notation step := (step parse cfg).
  Notation query := (query cfg).

  (* the state after a history *)
  Fixpoint run_state (s : state) (ops : list op) : state :=
    match ops with
    | [] => s
    | o :: ops' => run_state (fst (step s o)) ops'
    end.

  Lemma run_state_app : forall ops1 ops2 s,
    run_state s (ops1 ++ ops2) = run_state (run_state s ops1) ops2.
  Proof. induction ops1 as [|o ops1 IH]; intros; cbn; [reflexivity | apply IH]. Qed.

  (* [run_from] prints exactly the outputs of the steps along [run_state] *)
  Lemma run_from_app : forall ops1 ops2 s,
    run_from parse cfg s (ops1 ++ ops2) =
    run_from parse cfg s ops1 ++ run_from parse cfg (run_state s ops1) ops2.
  Proof.
    induction ops1 as [|o ops1 IH]; intros ops2 s; cbn [run_from run_state app]; [reflexivity|].
    destruct (step s o) as [s' x] eqn:E. cbn [fst]. rewrite IH. reflexivity.
  Qed.

  Lemma run_from_query : forall ops s sync e idx,
    run_from parse cfg s (ops ++ [Query sync e idx]) =
    run_from parse cfg s ops ++ [OQuery (query (run_state s ops) sync e idx)].
  Proof. intros. rewrite run_from_app. reflexivity. Qed.

  (* -------------------------------------------------------------------------------------------
     What a query answers. *)
  Definition keep (sync : bool) : vstate -> bool := if sync then is_sync_eligible else is_validating.
  Definition idx_ok (idx : option (list N)) (i : N) : Prop :=
    match idx with Some l => In i l | None => True end.

  Lemma query_In : forall s sync e idx i pk,
    In (i, pk) (query s sync e idx) <->
    In pk (st_accounts s) /\
    exists v, find_val (st_vals s) pk = Some v /\ v_index v = i /\ idx_ok idx i /\
              keep sync (validator_to_state v e (c_far cfg)) = true.
  Proof.
    intros s sync e idx i pk. unfold C13_Accounts.query. rewrite sort_by_In, filter_map_In. split.
    - intros (pk' & Hin & Hf). destruct (find_val (st_vals s) pk') as [v|] eqn:Ef; [|discriminate].
      match type of Hf with (if ?c then _ else _) = _ => destruct c eqn:Ec end; [|discriminate].
      injection Hf as <- <-. apply andb_true_iff in Ec as [Hi Hk]. split; [assumption|].
      exists v. split; [exact Ef|]. split; [reflexivity|]. split.
      + destruct idx; cbn; [apply mem_N_In; assumption | exact I].
      + unfold keep; destruct sync; assumption.
    - intros (Hin & v & Ef & <- & Hi & Hk). exists pk. split; [assumption|]. rewrite Ef.
      assert (Hi' : match idx with Some l => mem_N (v_index v) l | None => true end = true).
      { destruct idx; cbn in Hi; [apply mem_N_In; assumption | reflexivity]. }
      rewrite Hi'. unfold keep in Hk. destruct sync; rewrite Hk; reflexivity.
  Qed.

  (* the answer is a map: no validator index occurs twice, provided the known accounts are
     distinct and the store never files two public keys under one index *)
  Definition index_determines_key (vals : list val) : Prop :=
    forall v1 v2, In v1 vals -> In v2 vals -> v_index v1 = v_index v2 -> v_pk v1 = v_pk v2.

  Lemma filter_map_keys_nodup : forall (f : N -> option (N * N)) l,
    NoDup l ->
    (forall x1 x2 y1 y2, In x1 l -> In x2 l -> f x1 = Some y1 -> f x2 = Some y2 -> fst y1 = fst y2 -> x1 = x2) ->
    NoDup (map fst (filter_map f l)).
  Proof.
    intros f l Hnd; induction Hnd as [|x l Hx Hnd IH]; intro Hinj; cbn; [constructor|].
    assert (IH' : NoDup (map fst (filter_map f l))).
    { apply IH. intros x1 x2 y1 y2 H1 H2; apply Hinj; right; assumption. }
    destruct (f x) as [y|] eqn:Ef; [|exact IH']. cbn. constructor; [|exact IH'].
    intro Hin. apply in_map_iff in Hin as (y' & Hfst & Hin). apply filter_map_In in Hin as (x' & Hx' & Hf').
    assert (x' = x) by (apply (Hinj x' x y' y); cbn; auto). subst x'. contradiction.
  Qed.

  Lemma query_keys_nodup : forall s sync e idx,
    NoDup (st_accounts s) -> index_determines_key (st_vals s) ->
    NoDup (map fst (query s sync e idx)).
  Proof.
    intros s sync e idx Hnd Hidx. unfold C13_Accounts.query.
    eapply Permutation_NoDup; [apply Permutation_map, Permutation_sym, sort_by_perm|].
    apply filter_map_keys_nodup; [assumption|].
    intros pk1 pk2 y1 y2 _ _ H1 H2 Hfst.
    destruct (find_val (st_vals s) pk1) as [v1|] eqn:E1; [|discriminate].
    destruct (find_val (st_vals s) pk2) as [v2|] eqn:E2; [|discriminate].
    match type of H1 with (if ?c then _ else _) = _ => destruct c end; [|discriminate].
    match type of H2 with (if ?c then _ else _) = _ => destruct c end; [|discriminate].
    injection H1 as <-. injection H2 as <-. cbn in Hfst.
    apply find_val_some in E1 as [I1 <-]. apply find_val_some in E2 as [I2 <-].
    apply Hidx; assumption.
  Qed.

  (* validating accounts = the known accounts whose validator is active and not slashed *)
  Lemma validating_exactly : forall s e idx i pk,
    e < c_far cfg -> Forall (slashed_has_exit (c_far cfg)) (st_vals s) ->
    (In (i, pk) (query s false e idx) <->
     In pk (st_accounts s) /\
     exists v, find_val (st_vals s) pk = Some v /\ v_index v = i /\ idx_ok idx i /\ active_unslashed v e).
  Proof.
    intros s e idx i pk He Hinv. rewrite query_In.
    assert (Hv : forall v, find_val (st_vals s) pk = Some v ->
                 (keep false (validator_to_state v e (c_far cfg)) = true <-> active_unslashed v e)).
    { intros v Ef. apply state_filter; [assumption|]. rewrite Forall_forall in Hinv; apply Hinv.
      apply find_val_some in Ef as [H _]; exact H. }
    split; intros (Hin & v & Ef & Hi & Hidx & Hk); (split; [assumption|]); exists v;
      (split; [exact Ef|]); (split; [exact Hi|]); (split; [exact Hidx|]); apply (Hv v Ef); exact Hk.
  Qed.

  Lemma sync_exactly : forall s e idx i pk,
    In (i, pk) (query s true e idx) <->
    In pk (st_accounts s) /\
    exists v, find_val (st_vals s) pk = Some v /\ v_index v = i /\ idx_ok idx i /\
              sync_eligible v e (c_far cfg).
  Proof.
    intros s e idx i pk. rewrite query_In.
    split; intros (Hin & v & Ef & Hi & Hidx & Hk); (split; [assumption|]); exists v;
      (split; [exact Ef|]); (split; [exact Hi|]); (split; [exact Hidx|]); apply sync_filter; exact Hk.
  Qed.

  (* the ...ByIndex accessors are the restriction of the plain ones *)
  Lemma query_by_index_restricts : forall s sync e l i pk,
    In (i, pk) (query s sync e (Some l)) <-> In (i, pk) (query s sync e None) /\ In i l.
  Proof.
    intros. rewrite !query_In. cbn. split.
    - intros (H1 & v & H2 & H3 & H4 & H5). split; [|assumption]. split; [assumption|]. exists v; auto.
    - intros [(H1 & v & H2 & H3 & _ & H5) H4]. split; [assumption|]. exists v; auto.
  Qed.

  (* -------------------------------------------------------------------------------------------
     Refreshes that return nothing. *)
  Definition refreshes (ops : list op) : list (list N * vout) :=
    filter_map (fun o => match o with Refresh a v => Some (a, v) | Query _ _ _ => None end) ops.

  (* one step *)
  Lemma dirk_refresh_accounts_empty : forall old offered,
    c_mgr cfg = Dirk -> admitted offered = [] -> refresh_accounts old offered = old.
  Proof.
    intros old offered Hm He. unfold C13_Accounts.refresh_accounts. rewrite Hm, He. cbn.
    destruct old; reflexivity.
  Qed.

  Lemma dirk_refresh_accounts_nonempty : forall old offered,
    admitted offered <> [] -> refresh_accounts old offered = admitted offered.
  Proof.
    intros old offered Hne. unfold C13_Accounts.refresh_accounts.
    destruct (admitted offered) eqn:E; [congruence|]. cbn. destruct (c_mgr cfg); reflexivity.
  Qed.

  (* the node fails the request for pubkeys, or answers it with nothing *)
  Definition answers_nothing (vo : vout) (pubkeys : list N) : Prop :=
    match node_reply vo pubkeys with None => True | Some got => got = [] end.

  Lemma refresh_validators_empty : forall old pubkeys vo,
    answers_nothing vo pubkeys -> refresh_validators old pubkeys vo = old.
  Proof.
    intros old pubkeys vo H. unfold answers_nothing in H. unfold C13_Accounts.refresh_validators.
    destruct (node_reply vo pubkeys) as [got|]; [|reflexivity]. rewrite H. reflexivity.
  Qed.

  Lemma refresh_validators_nonempty : forall old pubkeys vo got,
    node_reply vo pubkeys = Some got -> got <> [] -> refresh_validators old pubkeys vo = got.
  Proof.
    intros old pubkeys vo got E H. unfold C13_Accounts.refresh_validators. rewrite E.
    destruct got; [congruence | reflexivity].
  Qed.

  (* a request that names the key the node chokes on fails as a whole: nothing is replaced, not
     even the validators the node would have answered for *)
  Lemma refresh_validators_fail_on : forall old pubkeys pk l,
    In pk pubkeys -> refresh_validators old pubkeys (VFailOn pk l) = old.
  Proof.
    intros old pubkeys pk l H. apply refresh_validators_empty. unfold answers_nothing. cbn.
    apply mem_N_In in H. rewrite H. exact I.
  Qed.

  Lemma node_reply_vals : forall vo pubkeys got,
    node_reply vo pubkeys = Some got -> got = node_answer (vout_vals vo) pubkeys.
  Proof.
    intros [|l|pk l] pubkeys got; cbn; [discriminate | congruence |].
    destruct (mem_N pk pubkeys); [discriminate | congruence].
  Qed.

  (* a refresh in which the signer offers nothing admissible and the node answers nothing (or
     fails) leaves the whole state of the dirk manager as it was *)
  Lemma dirk_empty_refresh_is_identity : forall s offered vo,
    c_mgr cfg = Dirk -> admitted offered = [] -> answers_nothing vo (st_accounts s) ->
    refresh s offered vo = s.
  Proof.
    intros [accs vals] offered vo Hm He Hv. unfold C13_Accounts.refresh. cbn [st_accounts st_vals] in *.
    rewrite dirk_refresh_accounts_empty by assumption. rewrite Hm.
    destruct (isnil accs); [reflexivity|]. rewrite refresh_validators_empty by assumption. reflexivity.
  Qed.

  (* the validator store alone, both managers: an error or an empty answer changes nothing *)
  Lemma empty_answer_keeps_validators : forall s offered vo,
    answers_nothing vo (refresh_accounts (st_accounts s) offered) ->
    st_vals (refresh s offered vo) = st_vals s.
  Proof.
    intros s offered vo Hv. unfold C13_Accounts.refresh. cbn [st_vals].
    destruct (c_mgr cfg); [destruct (isnil _); [reflexivity|]|]; apply refresh_validators_empty; assumption.
  Qed.

  Lemma dirk_empty_offer_keeps_accounts : forall s offered vo,
    c_mgr cfg = Dirk -> admitted offered = [] ->
    st_accounts (refresh s offered vo) = st_accounts s.
  Proof. intros; cbn. apply dirk_refresh_accounts_empty; assumption. Qed.

  (* histories: the dirk manager's account store is the most recent non-empty admitted set *)
  Lemma dirk_accounts_closed_form_from : forall ops s,
    c_mgr cfg = Dirk ->
    st_accounts (run_state s ops) =
    or_else (last_nonempty (map (fun r => admitted (fst r)) (refreshes ops))) (st_accounts s).
  Proof.
    intros ops s Hm; revert s; induction ops as [|o ops IH]; intro s; cbn [run_state].
    - reflexivity.
    - destruct o as [offered vo | sync e idx]; cbn [step fst refreshes filter_map map].
      + rewrite IH. fold (refreshes ops). rewrite last_nonempty_cons. cbn [fst st_accounts refresh].
        destruct (last_nonempty (map (fun r => admitted (fst r)) (refreshes ops))) eqn:E; cbn [or_else]; [|reflexivity].
        unfold C13_Accounts.refresh; cbn [st_accounts].
        destruct (admitted offered) eqn:Ea.
        * rewrite dirk_refresh_accounts_empty by assumption. reflexivity.
        * rewrite dirk_refresh_accounts_nonempty by congruence. rewrite Ea. reflexivity.
      + apply IH.
  Qed.

  Lemma dirk_accounts_closed_form : forall ops,
    c_mgr cfg = Dirk ->
    st_accounts (run_state init ops) = last_nonempty (map (fun r => admitted (fst r)) (refreshes ops)).
  Proof.
    intros ops Hm. rewrite dirk_accounts_closed_form_from by assumption. cbn.
    destruct (last_nonempty _); reflexivity.
  Qed.

  (* the wallet manager's store is simply the last admitted set *)
  Lemma wallet_accounts_closed_form_from : forall ops s,
    c_mgr cfg = Wallet ->
    st_accounts (run_state s ops) =
    last (map (fun r => admitted (fst r)) (refreshes ops)) (st_accounts s).
  Proof.
    intros ops s Hm; revert s; induction ops as [|o ops IH]; intro s; cbn [run_state].
    - reflexivity.
    - destruct o as [offered vo | sync e idx]; cbn [step fst refreshes filter_map map].
      + rewrite IH. fold (refreshes ops). cbn [fst st_accounts refresh].
        unfold C13_Accounts.refresh_accounts. rewrite Hm.
        symmetry; apply last_cons_default.
      + apply IH.
  Qed.
  (* -------------------------------------------------------------------------------------------
     The validator store along histories (both managers). *)
  (* what one refresh obtains from the node for the accounts known after its account phase;
     [] = nothing (error, empty answer, or -- dirk -- nothing asked because no account is known) *)
  Definition val_outcome (accs' : list N) (vo : vout) : list val :=
    match node_reply vo accs' with
    | None => []
    | Some got => match c_mgr cfg with
                  | Dirk => if isnil accs' then [] else got
                  | Wallet => got
                  end
    end.

  Fixpoint val_outcomes (accs : list N) (ops : list op) : list (list val) :=
    match ops with
    | [] => []
    | Refresh offered vo :: ops' =>
        let accs' := refresh_accounts accs offered in
        val_outcome accs' vo :: val_outcomes accs' ops'
    | Query _ _ _ :: ops' => val_outcomes accs ops'
    end.

  Lemma refresh_vals_outcome : forall s offered vo,
    st_vals (refresh s offered vo) =
    or_else (val_outcome (refresh_accounts (st_accounts s) offered) vo) (st_vals s).
  Proof.
    intros s offered vo. unfold C13_Accounts.refresh, val_outcome, C13_Accounts.refresh_validators. cbn [st_vals].
    destruct (c_mgr cfg); [destruct (isnil _); [destruct (node_reply vo _); reflexivity|]|];
      (destruct (node_reply vo _) as [got|]; cbn; [|reflexivity]); destruct got; reflexivity.
  Qed.

  Lemma or_else_assoc : forall (A : Type) (a b c : list A), or_else a (or_else b c) = or_else (or_else a b) c.
  Proof. intros A [|x a] [|y b] c; reflexivity. Qed.

  Lemma validators_closed_form_from : forall ops s,
    st_vals (run_state s ops) = or_else (last_nonempty (val_outcomes (st_accounts s) ops)) (st_vals s).
  Proof.
    induction ops as [|o ops IH]; intro s; cbn [run_state val_outcomes]; [reflexivity|].
    destruct o as [offered vo | sync e idx]; cbn [step fst].
    - rewrite IH. rewrite last_nonempty_cons, refresh_vals_outcome. cbn [st_accounts refresh].
      rewrite or_else_assoc. reflexivity.
    - apply IH.
  Qed.

  Lemma validators_closed_form : forall ops,
    st_vals (run_state init ops) = last_nonempty (val_outcomes [] ops).
  Proof. intros. rewrite validators_closed_form_from. cbn. destruct (last_nonempty _); reflexivity. Qed.

  (* never wiped *)
  Lemma or_else_nonempty : forall (A : Type) (l d : list A), d <> [] -> or_else l d <> [].
  Proof. intros A [|x l] d H; cbn; [exact H | discriminate]. Qed.

  Lemma dirk_accounts_never_wiped : forall ops s,
    c_mgr cfg = Dirk -> st_accounts s <> [] -> st_accounts (run_state s ops) <> [].
  Proof. intros. rewrite dirk_accounts_closed_form_from by assumption. apply or_else_nonempty; assumption. Qed.

  Lemma validators_never_wiped : forall ops s,
    st_vals s <> [] -> st_vals (run_state s ops) <> [].
  Proof. intros. rewrite validators_closed_form_from. apply or_else_nonempty; assumption. Qed.

  (* where the stores' contents come from *)
  Lemma accounts_origin : forall ops s,
    st_accounts (run_state s ops) = st_accounts s \/
    exists offered vo, In (Refresh offered vo) ops /\ st_accounts (run_state s ops) = admitted offered.
  Proof.
    induction ops as [|o ops IH]; intro s; cbn [run_state]; [left; reflexivity|].
    destruct o as [offered vo | sync e idx]; cbn [step fst].
    - destruct (IH (refresh s offered vo)) as [H | (o' & v' & Hin & H)].
      + rewrite H. cbn [st_accounts refresh]. unfold C13_Accounts.refresh_accounts.
        destruct (c_mgr cfg); [destruct (_ && _); [left; reflexivity|]|];
          right; exists offered, vo; split; [left; reflexivity | reflexivity | left; reflexivity | reflexivity].
      + right; exists o', v'; split; [right; assumption | assumption].
    - destruct (IH s) as [H | (o' & v' & Hin & H)]; [left; assumption|].
      right; exists o', v'; split; [right; assumption | assumption].
  Qed.

  Lemma vals_origin : forall ops s,
    st_vals (run_state s ops) = st_vals s \/
    exists offered vo pks, In (Refresh offered vo) ops /\
                           st_vals (run_state s ops) = node_answer (vout_vals vo) pks.
  Proof.
    induction ops as [|o ops IH]; intro s; cbn [run_state]; [left; reflexivity|].
    destruct o as [offered vo | sync e idx]; cbn [step fst].
    - destruct (IH (refresh s offered vo)) as [H | (o' & l' & pks & Hin & H)].
      + rewrite H, refresh_vals_outcome. unfold val_outcome.
        destruct (node_reply vo _) as [got|] eqn:Er; [|left; reflexivity].
        apply node_reply_vals in Er.
        destruct (c_mgr cfg); [destruct (isnil _); [left; reflexivity|]|];
          (destruct got as [|g got'] eqn:E; [left; reflexivity|]);
          right; eexists offered, vo, _; (split; [left; reflexivity|]); cbn [or_else]; exact Er.
      + right; exists o', l', pks; split; [right; assumption | assumption].
    - destruct (IH s) as [H | (o' & l' & pks & Hin & H)]; [left; assumption|].
      right; exists o', l', pks; split; [right; assumption | assumption].
  Qed.

  Lemma node_answer_incl : forall l pks v, In v (node_answer l pks) -> In v l.
  Proof.
    intros l pks v; unfold node_answer. destruct (isnil pks); [tauto|]. rewrite filter_In; tauto.
  Qed.

  (* properties of the node's answers are inherited by the store *)
  Definition answers_satisfy (P : list val -> Prop) (ops : list op) : Prop :=
    forall offered vo, In (Refresh offered vo) ops -> P (vout_vals vo).

  Lemma store_pointwise_invariant : forall (Q : val -> Prop) ops s,
    Forall Q (st_vals s) -> answers_satisfy (Forall Q) ops -> Forall Q (st_vals (run_state s ops)).
  Proof.
    intros Q ops s Hs Hops. destruct (vals_origin ops s) as [-> | (o & l & pks & Hin & ->)]; [assumption|].
    apply Forall_forall. intros v Hv. apply node_answer_incl in Hv.
    specialize (Hops o l Hin). rewrite Forall_forall in Hops. auto.
  Qed.

  Lemma store_index_determines_key : forall ops s,
    index_determines_key (st_vals s) -> answers_satisfy index_determines_key ops ->
    index_determines_key (st_vals (run_state s ops)).
  Proof.
    intros ops s Hs Hops. destruct (vals_origin ops s) as [-> | (o & l & pks & Hin & ->)]; [assumption|].
    intros v1 v2 H1 H2. apply node_answer_incl in H1, H2. apply (Hops o l Hin); assumption.
  Qed.

  Lemma admitted_nodup : forall offered, NoDup (map a_id (c_universe cfg)) -> NoDup (admitted offered).
  Proof.
    intros offered H. unfold C13_Accounts.admitted.
    induction (c_universe cfg) as [|a l IH]; cbn; [constructor|].
    inversion H as [|x l' Hx Hl]; subst.
    match goal with |- context [if ?c then _ else _] => destruct c end; [|apply IH; assumption].
    cbn. constructor; [|apply IH; assumption].
    intro Hin. apply Hx. apply in_map_iff in Hin as (a' & <- & Hin). apply filter_In in Hin as [Hin _].
    apply in_map; assumption.
  Qed.

  Lemma store_accounts_nodup : forall ops s,
    NoDup (map a_id (c_universe cfg)) -> NoDup (st_accounts s) -> NoDup (st_accounts (run_state s ops)).
  Proof.
    intros ops s Hu Hs. destruct (accounts_origin ops s) as [-> | (o & v & _ & ->)]; [assumption|].
    apply admitted_nodup; assumption.
  Qed.

  (* every query of every history answers a map keyed by validator index *)
  Lemma history_query_keys_nodup : forall ops sync e idx,
    NoDup (map a_id (c_universe cfg)) -> answers_satisfy index_determines_key ops ->
    NoDup (map fst (query (run_state init ops) sync e idx)).
  Proof.
    intros ops sync e idx Hu Hops. apply query_keys_nodup.
    - apply store_accounts_nodup; [assumption | constructor].
    - apply store_index_determines_key; [|assumption]. intros v1 v2 [].
  Qed.

  (* ... and the validating accounts are exactly the known accounts whose validator is active
     and not slashed, whatever the history *)
  Lemma history_validating_exactly : forall ops e idx i pk,
    e < c_far cfg -> answers_satisfy (Forall (slashed_has_exit (c_far cfg))) ops ->
    let s := run_state init ops in
    (In (i, pk) (query s false e idx) <->
     In pk (st_accounts s) /\
     exists v, find_val (st_vals s) pk = Some v /\ v_index v = i /\ idx_ok idx i /\ active_unslashed v e).
  Proof.
    intros ops e idx i pk He Hops s. apply validating_exactly; [assumption|].
    apply store_pointwise_invariant; [constructor | assumption].
  Qed.
  (* whoever is reported was admitted by a refresh of the history *)
  Lemma reported_was_admitted : forall ops sync e idx i pk,
    In (i, pk) (query (run_state init ops) sync e idx) ->
    exists offered vo, In (Refresh offered vo) ops /\ In pk (admitted offered) /\
                       st_accounts (run_state init ops) = admitted offered.
  Proof.
    intros ops sync e idx i pk H. apply query_In in H as [Hin _].
    destruct (accounts_origin ops init) as [E | (offered & vo & Hop & E)].
    - rewrite E in Hin. destruct Hin.
    - exists offered, vo. rewrite E in Hin. auto.
  Qed.

  (* the outputs [run_from] prints are those of the states along [run_state] *)
  Lemma run_from_refresh : forall ops s offered vo,
    run_from parse cfg s (ops ++ [Refresh offered vo]) =
    run_from parse cfg s ops ++
    [OProbe (sort_by (fun x => x) (st_accounts (run_state s (ops ++ [Refresh offered vo]))))].
  Proof. intros. rewrite run_from_app, run_state_app. reflexivity. Qed.
End Store.
