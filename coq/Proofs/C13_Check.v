(* C13: what the check's boolean predicate P_b establishes about an OBSERVED history, as
   propositions (the model is not involved). *)
From Verif Require Import Lib.Base Lib.RegexM Model.C13_Accounts Proofs.C13 Proofs.C13_Store Proofs.C13_Match Check.C13.
From Coq Require Import String ZifyBool ZifyN ZifyNat.
Open Scope N_scope.

Section Sound.
  Variable parse : string -> option (list re).
  Variable cfg : config.

  (* ---- queries ---- *)
  Lemma spec_validating_iff : forall v e, spec_validating v e = true <-> active_unslashed v e.
  Proof.
    intros v e. unfold spec_validating, active_unslashed.
    rewrite !andb_true_iff, negb_true_iff, N.leb_le, N.ltb_lt. tauto.
  Qed.

  Lemma spec_sync_iff : forall v e, spec_sync cfg v e = true <-> sync_eligible v e (c_far cfg).
  Proof.
    intros v e. unfold spec_sync, sync_eligible, withdrawal_done. lia.
  Qed.

  Definition wanted (sync : bool) (v : val) (e : N) : Prop :=
    if sync then sync_eligible v e (c_far cfg) else active_unslashed v e.

  Lemma want_iff : forall (sync : bool) v e,
    (if sync then spec_sync cfg v e else spec_validating v e) = true <-> wanted sync v e.
  Proof. intros [|] v e; cbn; [apply spec_sync_iff | apply spec_validating_iff]. Qed.

  (* outside the hypotheses of C13_state_filter *)
  Lemma ambiguous_iff : forall sync v e,
    ambiguous cfg sync v e = true <->
    c_far cfg <= e \/ (sync = false /\ v_slashed v = true /\ v_exit v = c_far cfg).
  Proof. intros sync v e. unfold ambiguous. destruct sync; lia. Qed.

  Lemma mem_pair_In : forall p l, mem_pair p l = true <-> In p l.
  Proof.
    intros p l. unfold mem_pair. apply memb_spec. apply prod_eqb_spec; apply N.eqb_eq.
  Qed.

  (* every reported pair is a known account's validator under its own index, within the index
     filter, and in the wanted condition (or outside the theorem's hypotheses); every known
     account's validator in the wanted condition, within the hypotheses, is reported *)
  Definition query_spec (known : list N) (vals : list val) (sync : bool) (e : N)
             (idx : option (list N)) (obs : list (N * N)) : Prop :=
    (forall i pk, In (i, pk) obs ->
       exists v, In v vals /\ v_pk v = pk /\ v_index v = i /\ In pk known /\ idx_ok idx i /\
                 (wanted sync v e \/ ambiguous cfg sync v e = true))
    /\ (forall v, In v vals -> In (v_pk v) known -> idx_ok idx (v_index v) ->
          wanted sync v e -> ambiguous cfg sync v e = false -> In (v_index v, v_pk v) obs).

  Lemma idx_mem : forall idx i,
    match idx with Some l => mem_N i l | None => true end = true <-> idx_ok idx i.
  Proof. intros [l|] i; cbn; [apply mem_N_In | tauto]. Qed.

  Lemma query_ok_sound : forall known vals sync e idx obs,
    query_ok cfg known vals sync e idx obs = true -> query_spec known vals sync e idx obs.
  Proof.
    intros known vals sync e idx obs H. unfold query_ok in H.
    apply andb_true_iff in H as [H _]. apply andb_true_iff in H as [H _].
    apply andb_true_iff in H as [Hlo Hhi]. rewrite forallb_forall in Hlo, Hhi. split.
    - intros i pk Hin. specialize (Hhi _ Hin). apply mem_pair_In in Hhi.
      apply in_map_iff in Hhi as (v & Hv & Hf). injection Hv as <- <-.
      apply filter_In in Hf as [Hf Hw]. apply filter_In in Hf as [Hv Hc].
      apply andb_true_iff in Hc as [Hk Hi]. exists v. repeat split; try assumption.
      + apply mem_N_In; assumption.
      + apply idx_mem; assumption.
      + apply orb_true_iff in Hw as [Hw | Hw]; [left; apply want_iff; assumption | right; assumption].
    - intros v Hv Hk Hi Hw Ha. apply mem_pair_In. apply Hlo.
      apply in_map_iff. exists v. split; [reflexivity|]. apply filter_In. split.
      + apply filter_In. split; [assumption|]. apply andb_true_iff. split;
          [apply mem_N_In; assumption | apply idx_mem; assumption].
      + apply andb_true_iff. split; [apply want_iff; assumption | rewrite Ha; reflexivity].
  Qed.

  (* ---- refreshes ---- *)
  (* the specification's reading of a specifier covers the account: its whole name matches
     (wallet part)/(account part), alternatives grouped -- or the specifier names the account's
     wallet as a whole *)
  Definition covers_hi_spec (raw : string) (a : account) : Prop :=
    exists w ac wo ws accs,
      spec_parts raw = Some (w, ac, wo) /\ parse w = Some ws /\ parse ac = Some accs /\
      (full_lang (Seq (alts ws) (Seq slash (alts accs))) (codes (full_name a))
       \/ (wo = true /\ w = a_wallet a)).

  Lemma covers_hi_sound : forall raw a, covers_hi parse raw a = true -> covers_hi_spec raw a.
  Proof.
    intros raw a H. unfold covers_hi in H.
    destruct (spec_parts raw) as [[[w ac] wo]|] eqn:Es; [|discriminate].
    destruct (parse w) as [ws|] eqn:Ew; [|discriminate].
    destruct (parse ac) as [accs|] eqn:Ea; [|discriminate].
    exists w, ac, wo, ws, accs. repeat (split; [reflexivity || assumption|]).
    apply orb_true_iff in H as [H | H].
    - left. apply full_match_spec. exact H.
    - right. apply andb_true_iff in H as [H1 H2]. apply String.eqb_eq in H2. auto.
  Qed.

  Definition allowed (offered : list N) (id : N) : Prop :=
    exists a, In a (c_universe cfg) /\ a_id a = id /\ In id offered /\
              exists raw, In raw (c_paths cfg) /\ covers_hi_spec raw a.

  Lemma hi_set_sound : forall offered id, In id (hi_set parse cfg offered) -> allowed offered id.
  Proof.
    intros offered id H. unfold hi_set in H. apply in_map_iff in H as (a & <- & Hf).
    apply filter_In in Hf as [Hu Hc]. apply andb_true_iff in Hc as [Ho He].
    apply existsb_exists in He as (raw & Hraw & Hcov).
    exists a. split; [assumption|]. split; [reflexivity|]. split; [apply mem_N_In; assumption|].
    exists raw. split; [assumption | apply covers_hi_sound; assumption].
  Qed.

  Lemma subset_incl : forall l1 l2, subset l1 l2 = true <-> forall x, In x l1 -> In x l2.
  Proof.
    intros l1 l2. unfold subset. rewrite forallb_forall. split; intros H x Hx.
    - apply mem_N_In; auto.
    - apply mem_N_In; auto.
  Qed.

  (* after a refresh: either the list was replaced by accounts that were offered and are covered
     by a specifier (and contains every offered account a plain specifier names), or -- nothing
     that must be used having been offered -- the old list was kept; the remote signer's list is
     never wiped *)
  Definition probe_spec (known offered l : list N) : Prop :=
    (((forall id, In id l -> allowed offered id) /\ (forall id, In id (lo_set parse cfg offered) -> In id l))
     \/ (l = known /\ lo_set parse cfg offered = []))
    /\ (c_mgr cfg = Dirk -> known <> [] -> l <> []).

  Lemma probe_ok_sound : forall known offered l,
    probe_ok parse cfg known offered l = true -> probe_spec known offered l.
  Proof.
    intros known offered l H. unfold probe_ok in H.
    assert (Hrep : subset (lo_set parse cfg offered) l && subset l (hi_set parse cfg offered) = true ->
                   (forall id, In id l -> allowed offered id) /\ (forall id, In id (lo_set parse cfg offered) -> In id l)).
    { intro Hr. apply andb_true_iff in Hr as [H1 H2]. rewrite subset_incl in H1, H2. split.
      - intros id Hid. apply hi_set_sound. auto.
      - exact H1. }
    assert (Hret : isnil (lo_set parse cfg offered) && list_eqb N.eqb l known = true ->
                   l = known /\ lo_set parse cfg offered = []).
    { intro Hr. apply andb_true_iff in Hr as [H1 H2]. apply isnil_true in H1.
      apply (list_eqb_spec N.eqb N.eqb_eq) in H2. auto. }
    destruct (c_mgr cfg) eqn:Em.
    - apply orb_true_iff in H as [H | H]; apply andb_true_iff in H as [H1 H2].
      + split; [left; apply Hrep; assumption|]. intros _ Hk Hl. subst l. destruct known; [congruence|].
        cbn in H2. discriminate.
      + destruct (Hret H1) as [-> Hlo]. split; [right; auto|]. intros _ Hk; exact Hk.
    - split; [|intro Hd; rewrite Em in Hd; discriminate]. apply orb_true_iff in H as [H | H]; [left; apply Hrep | right; apply Hret]; assumption.
  Qed.

  (* ---- histories ---- *)
  (* the validator store the specification tracks: an error or an empty answer never replaces it *)
  Definition next_vals (vals : list val) (l : list N) (vo : vout) : list val :=
    match c_mgr cfg with
    | Dirk => if isnil l then vals else vals_after vals l vo
    | Wallet => vals_after vals l vo
    end.

  Inductive holds : list N -> list val -> list op -> list out -> Prop :=
  | holds_nil : forall known vals, holds known vals [] []
  | holds_refresh : forall known vals offered vo l ops outs,
      probe_spec known offered l ->
      holds l (next_vals vals l vo) ops outs ->
      holds known vals (Refresh offered vo :: ops) (OProbe l :: outs)
  | holds_query : forall known vals sync e idx obs ops outs,
      query_spec known vals sync e idx obs ->
      holds known vals ops outs ->
      holds known vals (Query sync e idx :: ops) (OQuery obs :: outs).

  Lemma spec_ok_sound : forall ops outs known vals,
    spec_ok parse cfg known vals ops outs = true -> holds known vals ops outs.
  Proof.
    induction ops as [|o ops IH]; intros outs known vals H.
    - destruct outs; [constructor | discriminate].
    - destruct o as [offered vo | sync e idx]; destruct outs as [|x outs]; try discriminate;
        destruct x; try discriminate; cbn [spec_ok] in H; apply andb_true_iff in H as [H1 H2].
      + constructor; [apply probe_ok_sound; assumption | apply IH; exact H2].
      + constructor; [apply query_ok_sound; assumption | apply IH; exact H2].
  Qed.

  (* retention of the validator store as the specification tracks it *)
  Lemma next_vals_never_wiped : forall vals l vo, vals <> [] -> next_vals vals l vo <> [].
  Proof.
    intros vals l vo H. unfold next_vals, vals_after.
    destruct (c_mgr cfg); [destruct (isnil l); [exact H|]|];
      (destruct (node_reply vo l) as [[|g got]|]; [exact H | discriminate | exact H]).
  Qed.

  (* a refresh during which the node failed a request naming a known account's key keeps the
     whole validator store the answers are judged against *)
  Lemma next_vals_fail_on : forall vals l pk lv, In pk l -> next_vals vals l (VFailOn pk lv) = vals.
  Proof.
    intros vals l pk lv H. unfold next_vals, vals_after. cbn [node_reply].
    apply mem_N_In in H. rewrite H. destruct (c_mgr cfg); [destruct (isnil l)|]; reflexivity.
  Qed.
End Sound.

(* the node failed a request the constructor may have made: every request, or every request naming
   a key of an account that was offered and is covered by a specifier *)
Definition node_may_fail (parse : string -> option (list re)) (cfg : config) (offered : list N) (vo : vout) : Prop :=
  match vo with
  | VErr => True
  | VOk _ => False
  | VFailOn pk _ => allowed parse cfg offered pk
  end.

(* P_b on a case: either the wallet manager's constructor failed on a failing first validator
   refresh (and nothing else was observed), or the observed history satisfies the property step
   by step from the empty service. *)
Theorem P_b_sound : forall c : case,
  P_b c = true ->
  (exists offered vo ops', c_mgr (c_cfg c) = Wallet /\ c_ops c = Refresh offered vo :: ops' /\
                           node_may_fail (lookup_parse (c_parse c)) (c_cfg c) offered vo /\
                           exists rest, c_outs c = OCtorErr :: rest)
  \/ holds (lookup_parse (c_parse c)) (c_cfg c) [] [] (c_ops c) (c_outs c).
Proof.
  intros c H. unfold P_b in H. apply andb_true_iff in H as [H _]. unfold P_b_main, spec_run in H.
  destruct (c_outs c) as [|x rest] eqn:Eo.
  - right. apply spec_ok_sound. exact H.
  - destruct x; try (right; apply spec_ok_sound; exact H).
    left. destruct (c_mgr (c_cfg c)); [discriminate|].
    destruct (c_ops c) as [|[offered vo|] ops']; try discriminate.
    apply andb_true_iff in H as [H _]. apply andb_true_iff in H as [H _].
    exists offered, vo, ops'. split; [reflexivity|]. split; [reflexivity|]. split; [|exists rest; reflexivity].
    destruct vo as [|l|pk l]; cbn; [exact I | discriminate |].
    apply hi_set_sound. apply mem_N_In. exact H.
Qed.

(* agree on a case: the observed outputs ARE the model's, so every theorem about [run] /
   [run_state] speaks about what the implementation did on that case *)
Lemma out_eqb_spec : forall a b, out_eqb a b = true <-> a = b.
Proof.
  intros [x| x | |] [y | y | |]; cbn; split; intro H; try discriminate; try reflexivity.
  - apply (list_eqb_spec N.eqb N.eqb_eq) in H. congruence.
  - injection H as ->. apply (list_eqb_spec N.eqb N.eqb_eq). reflexivity.
  - apply (list_eqb_spec pair_eqb (prod_eqb_spec N.eqb N.eqb N.eqb_eq N.eqb_eq)) in H. congruence.
  - injection H as ->. apply (list_eqb_spec pair_eqb (prod_eqb_spec N.eqb N.eqb N.eqb_eq N.eqb_eq)). reflexivity.
Qed.

Theorem agree_sound : forall c : case,
  agree c = true -> c_outs c = run (lookup_parse (c_parse c)) (c_cfg c) (c_ops c).
Proof.
  intros c H. unfold agree in H. apply andb_true_iff in H as [H _]. unfold agree_main in H.
  apply (list_eqb_spec out_eqb out_eqb_spec) in H. symmetry. exact H.
Qed.
