(* C05: the two integer decisions of the proposer model equal the gotrans transcription
   (coq/Gen/Pure_C05.v, regenerated on every run): the slot test of confirmProposalData and the duty
   epoch for which Prepare asks for the account (through the chain-time transcription of group C03). *)
From Coq Require Import ZArith NArith Bool.
From Verif Require Import Lib.Base Lib.GoInt Proofs.TieLib Gen.Pure_C03 Gen.Pure_C05.
Local Open Scope Z_scope.

Lemma tie_proposal_other_slot (ps slot : N) :
  negb (ps =? slot)%N = proposer_proposalForOtherSlot (Z.of_N ps) (Z.of_N slot).
Proof. unfold proposer_proposalForOtherSlot. rewrite of_N_eqb. reflexivity. Qed.

Lemma tie_duty_epoch (slot spe : N) :
  Z.of_N (slot / spe) = proposer_dutyEpoch (Z.of_N slot) (Z.of_N spe).
Proof. unfold proposer_dutyEpoch, chaintime_SlotToEpoch. apply N2Z.inj_div. Qed.
