(* C02 -- lemmas: reachable sets of the job machine (computed, then validated by [closed]) and the
   facts checked on them.  Every "forall sch" below is over schedules of ANY length. *)
From Coq Require Import PArith FMapPositive.
From Verif Require Import Lib.Base Lib.Sched Lib.Reach Model.C02_Scheduler Model.C02_Script.
From Coq Require Import ZifyBool ZifyN ZifyNat.

(* ---------------------------------------------------------------------------------------------
   equality is sound; the action list is complete *)

Lemma gpc_n_inj : forall a b, gpc_n a = gpc_n b -> a = b.
Proof. destruct a, b; cbn; intro H; try reflexivity; discriminate H. Qed.

Lemma code_n_inj : forall a b, code_n a = code_n b -> a = b.
Proof. destruct a, b; cbn; intro H; try reflexivity; discriminate H. Qed.

Lemma rpc_n_inj : forall a b, rpc_n a = rpc_n b -> a = b.
Proof.
  destruct a as [| | | | | |c], b as [| | | | | |d]; cbn [rpc_n]; intro H; try reflexivity; try (exfalso; lia).
  f_equal; apply code_n_inj; lia.
Qed.

Lemma cpc_n_inj : forall a b, cpc_n a = cpc_n b -> a = b.
Proof.
  destruct a as [| | | | |c], b as [| | | | |d]; cbn [cpc_n]; intro H; try reflexivity; try (exfalso; lia).
  f_equal; apply code_n_inj; lia.
Qed.

Lemma jstate_eqb_sound : forall a b, jstate_eqb a b = true -> a = b.
Proof.
  intros [a1 a2 a3 a4 a5 a6 a7 a8 a9 ag ar ac an am ao ap aq] [b1 b2 b3 b4 b5 b6 b7 b8 b9 bg br bc bn bm bo bp bq].
  unfold jstate_eqb; cbn [in_table active finalised runq run_closed cancelq cancel_closed timer_due ctx_done
                           g_pc r_pc c_pc runs running run_ok cancel_ok panicked].
  intro H. repeat (apply andb_prop in H as [H ?]).
  repeat match goal with
         | E : Bool.eqb _ _ = true |- _ => apply Bool.eqb_prop in E
         | E : (_ =? _) = true |- _ => apply N.eqb_eq in E
         end.
  unfold gpc_eqb, rpc_eqb, cpc_eqb in *.
  repeat match goal with
         | E : (_ =? _) = true |- _ => apply N.eqb_eq in E
         end.
  repeat match goal with
         | E : gpc_n _ = gpc_n _ |- _ => apply gpc_n_inj in E
         | E : rpc_n _ = rpc_n _ |- _ => apply rpc_n_inj in E
         | E : cpc_n _ = cpc_n _ |- _ => apply cpc_n_inj in E
         end.
  subst; reflexivity.
Qed.

Lemma all_acts_complete : forall a, In a all_acts.
Proof. intro a; destruct a as [| | | | | | | | | |b|o|]; try destruct b; try destruct o; cbn; tauto. Qed.

(* ---------------------------------------------------------------------------------------------
   the three configurations and their reachable sets *)

Definition cfF : config := {| k_kind := OneOff; k_variant := Fixed |}.    (* repaired one-off *)
Definition cfU : config := {| k_kind := OneOff; k_variant := Pinned |}.   (* one-off as found *)
Definition cfP : config := {| k_kind := Periodic; k_variant := Fixed |}.  (* periodic *)

Definition succs (cf : config) (s : jstate) : list jstate :=
  fold_right (fun a acc => match step cf s a with Some s' => s' :: acc | None => acc end) [] all_acts.

Definition big : nat := Nat.mul 2000 2000.

Definition reach_set (cf : config) (from : list jstate) : list jstate :=
  fst (reach_from (succs cf) jstate_eqb jkey big from).

Definition R_F : list jstate := Eval vm_compute in reach_set cfF [init cfF].
Definition R_U : list jstate := Eval vm_compute in reach_set cfU [init cfU].
Definition R_P : list jstate := Eval vm_compute in reach_set cfP [init cfP].

Definition closedb (cf : config) (L : list jstate) : bool := closed (step cf) all_acts jstate_eqb jkey L.
Definition inb (L : list jstate) (s : jstate) : bool := memt jstate_eqb jkey (tbl_of jkey L) s.

Lemma inb_In : forall L s, inb L s = true -> In s L.
Proof. intros L s H; exact (memt_In jstate_eqb jkey jstate_eqb_sound L s H). Qed.

Lemma R_F_closed : closedb cfF R_F = true. Proof. vm_compute; reflexivity. Qed.
Lemma R_U_closed : closedb cfU R_U = true. Proof. vm_compute; reflexivity. Qed.
Lemma R_P_closed : closedb cfP R_P = true. Proof. vm_compute; reflexivity. Qed.
Lemma R_F_init : In (init cfF) R_F. Proof. apply inb_In; vm_compute; reflexivity. Qed.
Lemma R_U_init : In (init cfU) R_U. Proof. apply inb_In; vm_compute; reflexivity. Qed.
Lemma R_P_init : In (init cfP) R_P. Proof. apply inb_In; vm_compute; reflexivity. Qed.

(* generic: inside a closed set forever *)
Lemma stays : forall cf L, closedb cf L = true -> forall s, In s L -> forall sch, In (run (step cf) sch s) L.
Proof.
  intros cf L Hc s Hs sch.
  exact (closed_run (step cf) all_acts jstate_eqb jkey jstate_eqb_sound L Hc all_acts_complete s Hs sch).
Qed.

Lemma always : forall cf L (p : jstate -> bool), closedb cf L = true -> forallb p L = true ->
    forall s, In s L -> forall sch, p (run (step cf) sch s) = true.
Proof. intros cf L p Hc Hp s Hs sch. rewrite forallb_forall in Hp; apply Hp; apply stays; assumption. Qed.

Lemma reach_F : forall sch, In (run (step cfF) sch (init cfF)) R_F.
Proof. apply stays; [exact R_F_closed | exact R_F_init]. Qed.
Lemma reach_U : forall sch, In (run (step cfU) sch (init cfU)) R_U.
Proof. apply stays; [exact R_U_closed | exact R_U_init]. Qed.
Lemma reach_P : forall sch, In (run (step cfP) sch (init cfP)) R_P.
Proof. apply stays; [exact R_P_closed | exact R_P_init]. Qed.

(* the variant field is not consulted by a periodic job *)
Lemma periodic_variant_irrelevant : forall v s a,
    step {| k_kind := Periodic; k_variant := v |} s a = step cfP s a.
Proof.
  intros v s a; destruct v; [|reflexivity].
  destruct a; try reflexivity; unfold step, g_step; cbn [k_kind k_variant cfP]; destruct (g_pc s); reflexivity.
Qed.

Lemma periodic_run_variant : forall v sch s,
    run (step {| k_kind := Periodic; k_variant := v |}) sch s = run (step cfP) sch s.
Proof.
  intros v sch; induction sch as [|a sch IH]; intro s; [reflexivity|].
  rewrite !run_cons. unfold exec. rewrite periodic_variant_irrelevant. apply IH.
Qed.

(* ---------------------------------------------------------------------------------------------
   predicates checked on the sets *)

Definition r_idle (s : jstate) : bool := match r_pc s with RNone | RDone _ => true | _ => false end.
Definition c_idle (s : jstate) : bool := match c_pc s with CNone | CDone _ => true | _ => false end.
Definition g_idle (s : jstate) : bool := match g_pc s with GSel | GDone => true | _ => false end.

(* at most once, no panic: all three configurations *)
Definition p_safe (s : jstate) : bool := (runs s <=? 1) && (running s <=? 1) && negb (panicked s).
Lemma safe_F : forallb p_safe R_F = true. Proof. vm_compute; reflexivity. Qed.
Lemma safe_U : forallb p_safe R_U = true. Proof. vm_compute; reflexivity. Qed.
Definition p_safe_P (s : jstate) : bool := (running s <=? 1) && negb (panicked s).
Lemma safe_P : forallb p_safe_P R_P = true. Proof. vm_compute; reflexivity. Qed.

(* exactly once (repaired one-off) *)
Definition p_exactly (s : jstate) : bool :=
  negb (quiescent cfF s && negb (cancel_ok s) && negb (ctx_done s) && (timer_due s || run_ok s))
  || (runs s =? 1).
Lemma exactly_F : forallb p_exactly R_F = true. Proof. vm_compute; reflexivity. Qed.

Definition p_run_ok (s : jstate) : bool :=
  negb (quiescent cfF s && run_ok s && negb (ctx_done s)) || (runs s =? 1).
Lemma run_ok_F : forallb p_run_ok R_F = true. Proof. vm_compute; reflexivity. Qed.

(* claims are exclusive on a one-off job *)
Definition p_excl (s : jstate) : bool :=
  negb (run_ok s && cancel_ok s)
  && (match r_pc s, c_pc s with RNone, _ | _, CNone => true | _, _ => false end)
  && negb (in_table s && negb (match r_pc s, c_pc s with RNone, CNone => true | _, _ => false end)).
Lemma excl_F : forallb p_excl R_F = true. Proof. vm_compute; reflexivity. Qed.
Lemma excl_U : forallb p_excl R_U = true. Proof. vm_compute; reflexivity. Qed.

(* nothing is left blocked when a one-off job's system is quiescent *)
Definition p_nostuck (cf : config) (s : jstate) : bool :=
  negb (quiescent cf s) || (r_idle s && c_idle s && g_idle s && (N.eqb (running s) 0)).
Lemma nostuck_F : forallb (p_nostuck cfF) R_F = true. Proof. vm_compute; reflexivity. Qed.
Lemma nostuck_U : forallb (p_nostuck cfU) R_U = true. Proof. vm_compute; reflexivity. Qed.

(* a started or finished one-off job no longer occupies its name *)
Definition p_name_free (s : jstate) : bool :=
  negb ((1 <=? runs s) || gpc_eqb (g_pc s) GDone) || negb (in_table s).
Lemma name_free_F : forallb p_name_free R_F = true. Proof. vm_compute; reflexivity. Qed.
Lemma name_free_U : forallb p_name_free R_U = true. Proof. vm_compute; reflexivity. Qed.
Definition p_name_free_P (s : jstate) : bool := negb (gpc_eqb (g_pc s) GDone) || negb (in_table s).
Lemma name_free_P : forallb p_name_free_P R_P = true. Proof. vm_compute; reflexivity. Qed.

(* progress measure of a one-off job: remaining steps of the three threads *)
Definition g_rank (g : gpc) : nat :=
  match g with
  | GDone | GRt | GEndDel | GEndFin => 0
  | GTimFin | GRunClr | GCtxFin | GCanFin => 1
  | GTimClr | GRunFin | GCtxDel => 2
  | GTimBusy | GRunBusy => 3
  | GTimCall | GRunCall => 4
  | GTimSet | GTimRecv => 5
  | GTimDel => 6
  | GTimChk => 7
  | GSel => 8
  end.
Definition r_rank (r : rpc) : nat :=
  match r with RNone | RDone _ => 0 | RUnl => 1 | RSend => 2 | RSet => 3 | RLocked => 4 | RHave => 5 end.
Definition c_rank (c : cpc) : nat :=
  match c with CNone | CDone _ => 0 | CUnl => 1 | CSend => 2 | CLocked => 3 | CHave => 4 end.
Definition measure (s : jstate) : nat := (g_rank (g_pc s) + r_rank (r_pc s) + c_rank (c_pc s))%nat.

Definition p_decr (s : jstate) (a : act) (s' : jstate) : bool :=
  negb (thread_act a) || Nat.ltb (measure s') (measure s).
Lemma decr_F : forall_steps (step cfF) all_acts p_decr R_F = true. Proof. vm_compute; reflexivity. Qed.
Lemma decr_U : forall_steps (step cfU) all_acts p_decr R_U = true. Proof. vm_compute; reflexivity. Qed.

Lemma measure_le_17 : forall s, (measure s <= 17)%nat.
Proof. intro s; unfold measure; destruct (g_pc s), (r_pc s), (c_pc s); cbn; lia. Qed.

Lemma progress_gen : forall cf L, closedb cf L = true -> forall_steps (step cf) all_acts p_decr L = true ->
    forall s, In s L -> forall sch, forallb thread_act sch = true ->
    (taken (step cf) sch s + measure (run (step cf) sch s) <= measure s)%nat.
Proof.
  intros cf L Hc Hd s Hs sch Hth.
  apply (measure_bound (step cf) (fun s => In s L) thread_act measure); try assumption.
  - intros x a x' Hx Hst.
    exact (closed_step (step cf) all_acts jstate_eqb jkey jstate_eqb_sound L Hc x a x' Hx (all_acts_complete a) Hst).
  - intros x a x' Hx Ha Hst.
    pose proof (forall_steps_spec (step cf) all_acts p_decr L Hd x a x' Hx (all_acts_complete a) Hst) as H.
    unfold p_decr in H; rewrite Ha in H; cbn in H. apply Nat.ltb_lt in H; exact H.
Qed.

(* cancelled (or context cancelled) clearly before the time: from every quiescent state in which a
   CancelJob has returned nil and the timer has not fired, no continuation ever runs the job *)
Definition p_cbd (s : jstate) : bool := quiescent cfF s && cancel_ok s && negb (timer_due s).
Definition R_cbd : list jstate := Eval vm_compute in reach_set cfF (filter p_cbd R_F).
Lemma R_cbd_closed : closedb cfF R_cbd = true. Proof. vm_compute; reflexivity. Qed.
Lemma R_cbd_start : forallb (inb R_cbd) (filter p_cbd R_F) = true. Proof. vm_compute; reflexivity. Qed.
Lemma R_cbd_norun : forallb (fun s => runs s =? 0) R_cbd = true. Proof. vm_compute; reflexivity. Qed.
Lemma R_cbd_nonempty : (0 <? N.of_nat (length (filter p_cbd R_F))) = true. Proof. vm_compute; reflexivity. Qed.

(* parent context cancelled clearly before the time and before any run request claimed the job *)
Definition p_xbd (s : jstate) : bool :=
  quiescent cfF s && ctx_done s && negb (timer_due s) && rpc_eqb (r_pc s) RNone && (runs s =? 0).
Definition R_xbd : list jstate := Eval vm_compute in reach_set cfF (filter p_xbd R_F).
Lemma R_xbd_closed : closedb cfF R_xbd = true. Proof. vm_compute; reflexivity. Qed.
Lemma R_xbd_start : forallb (inb R_xbd) (filter p_xbd R_F) = true. Proof. vm_compute; reflexivity. Qed.
Lemma R_xbd_norun : forallb (fun s => runs s =? 0) R_xbd = true. Proof. vm_compute; reflexivity. Qed.

Lemma from_start : forall (p : jstate -> bool) L2,
    forallb (inb L2) (filter p R_F) = true -> forall s, In s R_F -> p s = true -> In s L2.
Proof.
  intros p L2 H s Hs Hp. rewrite forallb_forall in H. apply inb_In. apply H. apply filter_In; split; assumption.
Qed.

(* periodic: whenever the goroutine waits in its select with no run request in flight, [active] is
   clear, so the next timer expiry runs the job *)
Definition p_tick (s : jstate) : bool :=
  negb (gpc_eqb (g_pc s) GSel && r_idle s && negb (runq s)) || negb (active s).
Lemma tick_P : forallb p_tick R_P = true. Proof. vm_compute; reflexivity. Qed.

(* periodic: the goroutine returns only through the ctx branch, the cancel branch or a
   runtimeFunc error; from every other place it goes back to runtimeFunc and the select *)
Definition p_exit (s : jstate) (a : act) (s' : jstate) : bool :=
  negb (gpc_eqb (g_pc s') GDone) || gpc_eqb (g_pc s) GDone
  || gpc_eqb (g_pc s) GCtxFin || gpc_eqb (g_pc s) GCanFin || gpc_eqb (g_pc s) GEndFin.
Lemma exit_P : forall_steps (step cfP) all_acts p_exit R_P = true. Proof. vm_compute; reflexivity. Qed.

(* periodic: the run branch: jobFunc returns -> active cleared -> runtimeFunc -> select *)
Definition p_loop (s : jstate) : bool :=
  negb (gpc_eqb (g_pc s) GRunBusy)
  || match step cfP s JobReturn with
     | Some s1 => match step cfP s1 GStep with
                  | Some s2 => gpc_eqb (g_pc s2) GRt && negb (active s2)
                               && match step cfP s2 (GRtOut RtNext) with
                                  | Some s3 => gpc_eqb (g_pc s3) GSel && negb (timer_due s3)
                                  | None => false
                                  end
                  | None => false
                  end
     | None => false
     end.
Lemma loop_P : forallb p_loop R_P = true. Proof. vm_compute; reflexivity. Qed.

(* periodic: a timer expiry found with [active] clear runs the job *)
Definition p_timer_runs (s : jstate) : bool :=
  negb (gpc_eqb (g_pc s) GTimChk && negb (active s))
  || match step cfP s GStep with
     | Some s1 => match step cfP s1 GStep with
                  | Some s2 => match step cfP s2 GStep with
                               | Some s3 => gpc_eqb (g_pc s3) GTimBusy && (running s3 =? 1)
                               | None => false
                               end
                  | None => false
                  end
     | None => false
     end.
Lemma timer_runs_P : forallb p_timer_runs R_P = true. Proof. vm_compute; reflexivity. Qed.

(* periodic: a RunJob that returned nil left a signal that the goroutine will take: in every
   reachable state, run_ok implies that the job has run, is about to run, or the signal is
   still in runCh *)

(* ---------------------------------------------------------------------------------------------
   witnesses *)

(* the tree as found: RunJob claims (active set, signal sent) while the select takes the timer *)
Definition drop_schedule : list act :=
  [RunLookup; REnter; RStep; RStep; TimerFire; RStep; RStep; GPick BTimer; GStep].

Lemma pinned_drops :
  let s := run (step cfU) drop_schedule (init cfU) in
  quiescent cfU s = true /\ run_ok s = true /\ cancel_ok s = false /\ ctx_done s = false
  /\ timer_due s = true /\ runs s = 0 /\ g_pc s = GDone /\ finalised s = false.
Proof. vm_compute. repeat split; reflexivity. Qed.

Lemma fixed_same_schedule_runs :
  let s := run (step cfF) (drop_schedule ++ [GStep; GStep; JobReturn; GStep; GStep]) (init cfF) in
  quiescent cfF s = true /\ run_ok s = true /\ runs s = 1 /\ g_pc s = GDone /\ finalised s = true.
Proof. vm_compute. repeat split; reflexivity. Qed.

(* periodic observation (outside the property statement): a second run request can block for
   ever on the full runCh while holding stateLock, when the goroutine leaves through the ctx
   branch and waits for that lock in finaliseJob *)
Definition periodic_block_schedule : list act :=
  [GRtOut RtNext; TimerFire; GPick BTimer; GStep;          (* timer branch: active.Load() = false *)
   RunLookup; REnter; RStep; RStep; RStep; RStep; RReset;  (* RunJob #1: active, signal, nil *)
   GStep; GStep; JobReturn; GStep;                         (* timer branch runs the job, clears active *)
   GRtOut RtNext;                                          (* back in select, runCh still full *)
   RunLookup; REnter; RStep; RStep;                        (* RunJob #2: passes the checks, sets active, blocks on send *)
   CtxCancel; GPick BCtx; GStep].                          (* ctx branch: delete, then finaliseJob needs the lock *)

Lemma periodic_block :
  let s := run (step cfP) periodic_block_schedule (init cfP) in
  quiescent cfP s = true /\ r_pc s = RSend /\ g_pc s = GCtxFin /\ lock_free s = false.
Proof. vm_compute. repeat split; reflexivity. Qed.

(* ---------------------------------------------------------------------------------------------
   the table of names *)

Lemma t_get_del_same : forall t n, t_get (t_del t n) n = None.
Proof.
  induction t as [|[n' j] t IH]; intro n; cbn; [reflexivity|].
  destruct (n' =? n) eqn:E; cbn; [apply IH|].
  rewrite N.eqb_sym, E. apply IH.
Qed.

Lemma t_get_del_other : forall t n m, n <> m -> t_get (t_del t n) m = t_get t m.
Proof.
  induction t as [|[n' j] t IH]; intros n m Hne; cbn; [reflexivity|].
  destruct (n' =? n) eqn:E; cbn.
  - apply N.eqb_eq in E; subst n'. destruct (m =? n) eqn:E2; [apply N.eqb_eq in E2; congruence | apply IH; exact Hne].
  - destruct (m =? n'); [reflexivity | apply IH; exact Hne].
Qed.

Lemma duplicate_rejected : forall t n j, t_exists t n = true -> t_schedule t n j = (t, ErrJobAlreadyExists).
Proof. intros t n j H; unfold t_schedule; rewrite H; reflexivity. Qed.

Lemma fresh_accepted : forall t n j, t_exists t n = false ->
    t_schedule t n j = ((n, j) :: t, Nil) /\ t_get (fst (t_schedule t n j)) n = Some j.
Proof. intros t n j H; unfold t_schedule; rewrite H; cbn; rewrite N.eqb_refl; split; reflexivity. Qed.

Lemma deleted_is_free : forall t n, t_exists (t_del t n) n = false.
Proof. intros; unfold t_exists; rewrite t_get_del_same; reflexivity. Qed.

Lemma run_claims_once : forall t n, t_exists (fst (t_run t n false)) n = false.
Proof.
  intros t n; unfold t_run. destruct (t_get t n) eqn:E; cbn [fst].
  - apply deleted_is_free.
  - unfold t_exists; rewrite E; reflexivity.
Qed.

Lemma cancel_claims_once : forall t n, t_exists (fst (t_cancel t n)) n = false.
Proof.
  intros t n; unfold t_cancel. destruct (t_get t n) eqn:E; cbn [fst].
  - apply deleted_is_free.
  - unfold t_exists; rewrite E; reflexivity.
Qed.

(* ---------------------------------------------------------------------------------------------
   the goroutine's removal of its name (repaired: only while the name still refers to its job) *)
From Verif Require Import Model.C02_TableOps.

Lemma release_keeps_newer : forall t n j1 j2, t_get t n = Some j2 -> j1 <> j2 -> t_release t n j1 = t.
Proof.
  intros t n j1 j2 H Hne. unfold t_release. rewrite H.
  destruct (j2 =? j1) eqn:E; [apply N.eqb_eq in E; congruence | reflexivity].
Qed.

Lemma release_own : forall t n j, t_get t n = Some j -> t_exists (t_release t n j) n = false.
Proof. intros t n j H. unfold t_release. rewrite H, N.eqb_refl. apply deleted_is_free. Qed.

Lemma release_other_names : forall t n j m, m <> n -> t_get (t_release t n j) m = t_get t m.
Proof.
  intros t n j m Hne. unfold t_release. destruct (t_get t n) as [j'|]; [|reflexivity].
  destruct (j' =? j); [|reflexivity]. apply t_get_del_other. congruence.
Qed.
