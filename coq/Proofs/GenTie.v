(* Ties between the hand-written models and the definitions that gotrans regenerates from the
   repository's source on every run (Gen/Pure_Extracted.v): for every argument in the machine
   ranges the hand model computes exactly what the generated transcription computes.  When the Go
   source of one of these functions changes its meaning, the corresponding lemma stops compiling. *)
From Coq Require Import ZArith NArith Lia Bool List.
From Coq Require Import ZifyBool ZifyN.
From Verif Require Import Lib.Base Lib.GoInt Gen.Pure_Extracted.
From Verif Require Import Model.C03_ChainTime Model.C08_Submitter Model.C15_Sync.

Local Open Scope Z_scope.

(* ---------------------------------------------------------------------------------------- *)
(* N (Lib.Base, wrapping operators) versus Z (Lib.GoInt)                                      *)

Definition nu64 (a : N) : Prop := (a < Base.two64)%N.

Lemma two64_N : Z.of_N Base.two64 = GoInt.two64.
Proof. reflexivity. Qed.

Lemma nu64_in (a : N) : nu64 a -> in_u64 (Z.of_N a).
Proof. unfold nu64, in_u64, Base.two64, GoInt.two64. lia. Qed.

Lemma of_N_wrap64 (a : N) : Z.of_N (wrap64 a) = u64 (Z.of_N a).
Proof. unfold wrap64, u64. rewrite N2Z.inj_mod, two64_N. reflexivity. Qed.

Lemma of_N_mul64 (a b : N) : Z.of_N (mul64 a b) = u64 (Z.of_N a * Z.of_N b).
Proof. unfold mul64. rewrite of_N_wrap64, N2Z.inj_mul. reflexivity. Qed.

Lemma of_N_add64 (a b : N) : Z.of_N (add64 a b) = u64 (Z.of_N a + Z.of_N b).
Proof. unfold add64. rewrite of_N_wrap64, N2Z.inj_add. reflexivity. Qed.

Lemma of_N_sub64 (a b : N) : nu64 a -> nu64 b -> Z.of_N (sub64 a b) = u64 (Z.of_N a - Z.of_N b).
Proof.
  unfold nu64, sub64, u64, Base.two64, GoInt.two64. intros Ha Hb.
  destruct (b <=? a)%N eqn:E.
  - rewrite Z.mod_small by lia. lia.
  - replace (Z.of_N a - Z.of_N b) with ((Z.of_N a - Z.of_N b + 18446744073709551616) + (-1) * 18446744073709551616) by lia.
    rewrite Z.mod_add by lia. rewrite Z.mod_small by lia. lia.
Qed.

Lemma nu64_wrap64 a : nu64 (wrap64 a).
Proof. unfold nu64, wrap64. apply N.mod_lt. discriminate. Qed.
Lemma nu64_mul64 a b : nu64 (mul64 a b).
Proof. apply nu64_wrap64. Qed.
Lemma nu64_add64 a b : nu64 (add64 a b).
Proof. apply nu64_wrap64. Qed.
Lemma nu64_sub64 a b : nu64 a -> nu64 b -> nu64 (sub64 a b).
Proof. unfold nu64, sub64, Base.two64. intros. destruct (b <=? a)%N eqn:E; lia. Qed.

(* ---------------------------------------------------------------------------------------- *)
(* C03: chain time                                                                            *)

Lemma to_i64_is_i64 x : to_i64 x = i64 x.
Proof. unfold to_i64, i64, two64z, two63z, GoInt.two64, GoInt.two63. reflexivity. Qed.

Lemma tie_start_of_slot (p : ctparams) (slot : N) :
  C03_ChainTime.start_of_slot p slot = chaintime_StartOfSlot (ct_genesis p) (ct_dur p) (Z.of_N slot).
Proof.
  unfold C03_ChainTime.start_of_slot, chaintime_StartOfSlot.
  rewrite (to_i64_is_i64 (Z.of_N slot)). rewrite (to_i64_is_i64 (i64 (Z.of_N slot) * ct_dur p)). reflexivity.
Qed.

Lemma tie_first_slot_of_epoch (p : ctparams) (epoch : N) :
  Z.of_N (C03_ChainTime.first_slot_of_epoch p epoch) = chaintime_FirstSlotOfEpoch (Z.of_N (ct_spe p)) (Z.of_N epoch).
Proof. unfold C03_ChainTime.first_slot_of_epoch, chaintime_FirstSlotOfEpoch. apply of_N_mul64. Qed.

Lemma tie_start_of_epoch (p : ctparams) (epoch : N) :
  start_of_epoch p epoch = chaintime_StartOfEpoch (ct_genesis p) (ct_dur p) (Z.of_N (ct_spe p)) (Z.of_N epoch).
Proof.
  unfold start_of_epoch, chaintime_StartOfEpoch.
  rewrite (to_i64_is_i64 (Z.of_N (mul64 epoch (ct_spe p)))).
  rewrite (to_i64_is_i64 (i64 (Z.of_N (mul64 epoch (ct_spe p))) * ct_dur p)).
  rewrite of_N_mul64. reflexivity.
Qed.

Lemma tie_slot_to_epoch (p : ctparams) (slot : N) :
  Z.of_N (slot_to_epoch p slot) = chaintime_SlotToEpoch (Z.of_N (ct_spe p)) (Z.of_N slot).
Proof. unfold slot_to_epoch, chaintime_SlotToEpoch. apply N2Z.inj_div. Qed.

Lemma div_nonneg (a b : Z) : 0 <= a -> 0 <= b -> 0 <= a / b.
Proof.
  intros Ha Hb. destruct (Z.eq_dec b 0) as [->|Hn]; [rewrite Zdiv_0_r; lia | apply Z.div_pos; lia].
Qed.

Lemma elapsed_seconds (d : Z) : 0 <= d < two63 ->
  u64 (i64 (Z.quot (sat64 d) 1000000000)) = d / 1000000000.
Proof.
  intro Hd. unfold two63 in Hd.
  rewrite sat64_id by (unfold in_i64, two63; lia).
  rewrite Z.quot_div_nonneg by lia.
  assert (Hq : 0 <= d / 1000000000 < 9223372036854775808).
  { split; [apply Z.div_pos; lia|]. apply Z.div_lt_upper_bound; lia. }
  rewrite i64_id by (unfold in_i64, two63; lia).
  apply u64_id. unfold in_u64, GoInt.two64. lia.
Qed.

(* The elapsed time fits a Duration (less than 292 years) and the slot duration is not negative:
   outside that range Go saturates / converts negative values, which the hand model does not carry.
   (A slot duration below one second divides by zero: Go panics, Z gives 0 on both sides; the
   service constructor obtains the duration from the chain specification.) *)
Lemma tie_current_slot (p : ctparams) (now : Z) :
  now - ct_genesis p < two63 -> 0 <= ct_dur p ->
  Z.of_N (current_slot p now) = chaintime_CurrentSlot (ct_genesis p) (ct_dur p) now.
Proof.
  intros Hn Hd. unfold current_slot, current_slot_with, chaintime_CurrentSlot.
  destruct (ct_genesis p >? now) eqn:E; [reflexivity|].
  assert (H0 : 0 <= now - ct_genesis p) by lia.
  rewrite elapsed_seconds by lia.
  unfold GoInt.whole_seconds, slot_secs, C03_ChainTime.whole_seconds, ns_per_s.
  rewrite (Z.quot_div_nonneg (ct_dur p)) by lia.
  apply Z2N.id. apply div_nonneg; apply div_nonneg; lia.
Qed.

Lemma tie_current_epoch (p : ctparams) (now : Z) :
  now - ct_genesis p < two63 -> 0 <= ct_dur p ->
  Z.of_N (current_epoch p now) = chaintime_CurrentEpoch (ct_genesis p) (ct_dur p) (Z.of_N (ct_spe p)) now.
Proof.
  intros Hn Hd. unfold current_epoch, current_epoch_with, chaintime_CurrentEpoch.
  destruct (ct_genesis p >? now) eqn:E; [reflexivity|].
  assert (H0 : 0 <= now - ct_genesis p) by lia.
  rewrite elapsed_seconds by lia.
  unfold GoInt.whole_seconds, slot_secs, C03_ChainTime.whole_seconds, ns_per_s.
  rewrite (Z.quot_div_nonneg (ct_dur p)) by lia.
  rewrite of_N_mul64. rewrite (Z2N.id (ct_dur p / 1000000000)) by (apply div_nonneg; lia).
  apply Z2N.id. apply div_nonneg; [apply div_nonneg; lia|].
  apply (proj1 (u64_range _)).
Qed.

(* ---------------------------------------------------------------------------------------- *)
(* C08: the extent size of util.Scatter                                                       *)

Lemma tie_extent_size (items conc gomax : Z) :
  0 <= items < two63 -> in_i64 conc -> 0 < gomax < two63 ->
  extent_size items conc gomax = util_calculateExtentSize items conc gomax.
Proof.
  intros Hi Hc Hg. unfold extent_size, util_calculateExtentSize, in_i64, two63 in *.
  set (dc := if conc <=? 0 then gomax else conc).
  assert (Hdc : 0 < dc < 9223372036854775808) by (subst dc; destruct (conc <=? 0) eqn:E; lia).
  assert (Hq : 0 <= Z.quot items dc <= items).
  { rewrite Z.quot_div_nonneg by lia. split; [apply Z.div_pos; lia|]. apply Z.div_le_upper_bound; nia. }
  rewrite (i64_id (Z.quot items dc)) by (unfold in_i64, two63; lia).
  destruct (Z.quot items dc =? 0) eqn:E0; [reflexivity|].
  destruct (Z.rem items (Z.quot items dc) >? 0) eqn:E1; [|reflexivity].
  assert (Hlt : Z.quot items dc < items).
  { assert (Z.quot items dc <> items); [|lia]. intro Heq. rewrite Heq in E1. rewrite Z.rem_same in E1 by lia. lia. }
  rewrite i64_id by (unfold in_i64, two63; lia). reflexivity.
Qed.

(* ---------------------------------------------------------------------------------------- *)
(* C15: the sync committee message window                                                     *)

Lemma tie_first_epoch_of_period (p : params) (period : N) :
  nu64 (fork p) ->
  Z.of_N (first_epoch_of_period p period) =
  controller_firstEpochOfSyncPeriod (Z.of_N (epp p)) (Z.of_N (fork p)) (Z.of_N period).
Proof.
  intro Hf. unfold first_epoch_of_period, controller_firstEpochOfSyncPeriod.
  rewrite <- of_N_mul64.
  destruct (mul64 period (epp p) <? fork p)%N eqn:E.
  - assert (Z.of_N (mul64 period (epp p)) <? Z.of_N (fork p) = true) as -> by lia. reflexivity.
  - assert (Z.of_N (mul64 period (epp p)) <? Z.of_N (fork p) = false) as -> by lia. reflexivity.
Qed.

Lemma nu64_first_epoch_of_period p period : nu64 (fork p) -> nu64 (first_epoch_of_period p period).
Proof.
  intro Hf. unfold first_epoch_of_period. destruct (_ <? _)%N; [exact Hf | apply nu64_mul64].
Qed.

Lemma tie_sync_window (p : params) (epoch cur : N) :
  nu64 (fork p) -> nu64 epoch -> nu64 cur ->
  let w := window_of true p epoch cur in
  controller_syncWindow (Z.of_N (epp p)) (Z.of_N (fork p)) (Z.of_N epoch)
                        (Z.of_N (epoch_of_slot p cur)) (Z.of_N (spe p)) (Z.of_N cur)
  = (Z.of_N (w_first_epoch w), Z.of_N (w_first w), Z.of_N (w_last w)).
Proof.
  intros Hf He Hc. cbv zeta. unfold controller_syncWindow, window_of. cbn [w_first_epoch w_first w_last].
  rewrite <- N2Z.inj_div.
  rewrite <- tie_first_epoch_of_period by assumption.
  set (fe0 := first_epoch_of_period p (epoch / epp p)).
  set (ce := epoch_of_slot p cur).
  assert (Hfe0 : nu64 fe0) by (apply nu64_first_epoch_of_period; assumption).
  assert (Hce : nu64 ce).
  { unfold ce, epoch_of_slot, nu64 in *. destruct (N.eq_dec (spe p) 0) as [->|Hn]; [destruct cur; cbn; unfold Base.two64; lia|].
    eapply N.le_lt_trans; [apply N.div_le_upper_bound with (q := cur); [assumption|nia]|assumption]. }
  (* first epoch *)
  assert (Efe : (if Z.of_N fe0 <? Z.of_N ce then Z.of_N ce else Z.of_N fe0) = Z.of_N (if (fe0 <? ce)%N then ce else fe0)).
  { destruct (fe0 <? ce)%N eqn:E; [assert (Z.of_N fe0 <? Z.of_N ce = true) as -> by lia | assert (Z.of_N fe0 <? Z.of_N ce = false) as -> by lia]; reflexivity. }
  rewrite Efe. set (fe := if (fe0 <? ce)%N then ce else fe0).
  (* first slot *)
  unfold chaintime_FirstSlotOfEpoch.
  replace (u64 (Z.of_N fe * Z.of_N (spe p))) with (Z.of_N (first_slot_of_epoch p fe)) by (unfold first_slot_of_epoch; apply of_N_mul64).
  set (fs0 := first_slot_of_epoch p fe).
  assert (Hfs0 : nu64 fs0) by apply nu64_mul64.
  assert (Efs1 : (if Z.of_N fs0 >? 0 then u64 (Z.of_N fs0 - 1) else Z.of_N fs0) = Z.of_N (if (0 <? fs0)%N then (fs0 - 1)%N else fs0)).
  { destruct (0 <? fs0)%N eqn:E.
    - assert (Z.of_N fs0 >? 0 = true) as -> by lia. rewrite u64_id by (unfold nu64, in_u64, Base.two64, GoInt.two64 in *; lia). lia.
    - assert (Z.of_N fs0 >? 0 = false) as -> by lia. reflexivity. }
  rewrite Efs1. set (fs1 := if (0 <? fs0)%N then (fs0 - 1)%N else fs0).
  assert (Efs : (if Z.of_N fs1 <? Z.of_N cur then Z.of_N cur else Z.of_N fs1) = Z.of_N (if (fs1 <? cur)%N then cur else fs1)).
  { destruct (fs1 <? cur)%N eqn:E; [assert (Z.of_N fs1 <? Z.of_N cur = true) as -> by lia | assert (Z.of_N fs1 <? Z.of_N cur = false) as -> by lia]; reflexivity. }
  rewrite Efs.
  (* last epoch, last slot *)
  replace (u64 (Z.of_N (epoch / epp p) + 1)) with (Z.of_N (add64 (epoch / epp p) 1)) by (rewrite of_N_add64; reflexivity).
  rewrite <- tie_first_epoch_of_period by assumption.
  set (fe1 := first_epoch_of_period p (add64 (epoch / epp p) 1)).
  assert (Hfe1 : nu64 fe1) by (apply nu64_first_epoch_of_period; assumption).
  replace (u64 (Z.of_N fe1 - 1)) with (Z.of_N (sub64 fe1 1)) by (rewrite of_N_sub64; [reflexivity | assumption | unfold nu64, Base.two64; lia]).
  replace (u64 (Z.of_N (sub64 fe1 1) + 1)) with (Z.of_N (add64 (sub64 fe1 1) 1)) by (rewrite of_N_add64; reflexivity).
  replace (u64 (Z.of_N (add64 (sub64 fe1 1) 1) * Z.of_N (spe p))) with (Z.of_N (first_slot_of_epoch p (add64 (sub64 fe1 1) 1))) by (unfold first_slot_of_epoch; apply of_N_mul64).
  replace (u64 (Z.of_N (first_slot_of_epoch p (add64 (sub64 fe1 1) 1)) - 2)) with (Z.of_N (sub64 (first_slot_of_epoch p (add64 (sub64 fe1 1) 1)) 2))
    by (rewrite of_N_sub64; [reflexivity | apply nu64_mul64 | unfold nu64, Base.two64; lia]).
  reflexivity.
Qed.

(* ---------------------------------------------------------------------------------------- *)
(* C08: the worker count and the (offset, entries) pair of each worker of util.Scatter        *)

Lemma extent_size_range (items conc gomax : Z) :
  0 < items < two63 -> in_i64 conc -> 0 < gomax < two63 ->
  0 < extent_size items conc gomax <= items.
Proof.
  intros Hi Hc Hg. unfold extent_size, in_i64, two63 in *.
  set (dc := if conc <=? 0 then gomax else conc).
  assert (Hdc : 0 < dc) by (subst dc; destruct (conc <=? 0) eqn:E; lia).
  assert (Hq : 0 <= Z.quot items dc <= items).
  { rewrite Z.quot_div_nonneg by lia. split; [apply Z.div_pos; lia|]. apply Z.div_le_upper_bound; nia. }
  destruct (Z.quot items dc =? 0) eqn:E0; [lia|].
  destruct (Z.rem items (Z.quot items dc) >? 0) eqn:E1; [|lia].
  assert (Z.quot items dc <> items); [|lia]. intro Heq. rewrite Heq in E1. rewrite Z.rem_same in E1 by lia. lia.
Qed.

Lemma tie_scatter_workers (items conc gomax : Z) :
  0 < items < two63 -> in_i64 conc -> 0 < gomax < two63 ->
  util_scatterWorkers items conc gomax =
  (extent_size items conc gomax, worker_count items (extent_size items conc gomax)).
Proof.
  intros Hi Hc Hg. unfold util_scatterWorkers, worker_count.
  rewrite <- tie_extent_size by (try assumption; unfold two63 in *; lia).
  pose proof (extent_size_range items conc gomax Hi Hc Hg) as He.
  set (e := extent_size items conc gomax) in *.
  assert (Hq : 0 <= Z.quot items e <= items).
  { rewrite Z.quot_div_nonneg by lia. split; [apply Z.div_pos; lia|]. apply Z.div_le_upper_bound; nia. }
  rewrite (i64_id (Z.quot items e)) by (unfold in_i64, two63 in *; lia).
  destruct (Z.rem items e =? 0) eqn:E; cbn [negb]; [reflexivity|].
  assert (Z.quot items e < items).
  { assert (Z.quot items e <> items); [|lia]. intro Heq.
    assert (e = 1).
    { rewrite Z.quot_div_nonneg in Heq by lia. destruct (Z.eq_dec e 1); [assumption|].
      assert (items / e < items); [apply Z.div_lt; lia | lia]. }
    subst e. rewrite H in E. rewrite Z.rem_1_r in E. discriminate. }
  rewrite i64_id by (unfold in_i64, two63 in *; lia). reflexivity.
Qed.

(* every worker index below the worker count; a slice shorter than 2^62 elements, so that
   offset+entries cannot overflow an int *)
Lemma tie_scatter_extent (items e w : Z) :
  0 < items < 4611686018427387904 -> 0 < e <= items -> 0 <= w -> w * e < items ->
  util_scatterExtent w e items = extent_of items e w.
Proof.
  intros Hi He Hw Hwe. unfold util_scatterExtent, extent_of.
  assert (H0 : 0 <= w * e) by (apply Z.mul_nonneg_nonneg; lia).
  rewrite (i64_id (w * e)) by (unfold in_i64, two63; lia).
  rewrite (i64_id (w * e + e)) by (unfold in_i64, two63; lia).
  destruct (w * e + e >? items) eqn:E; [|reflexivity].
  rewrite i64_id by (unfold in_i64, two63; lia). reflexivity.
Qed.
