From Verif Require Import Lib.Base Lib.Sched Model.C20_Fanout.
From Coq Require Import ZifyBool ZifyN ZifyNat.

(* --- counting under a one-place update ----------------------------------------------------- *)

Definition ind (b : bool) : N := if b then 1 else 0.

Lemma count_stat_cons x a l : count_stat x (a :: l) = ind (sstat_eqb x a) + count_stat x l.
Proof. unfold count_stat; cbn [filter]; destruct (sstat_eqb x a); cbn [ind length]; lia. Qed.

Lemma count_set_nth x l : forall i a b,
    nth_error l i = Some a ->
    count_stat x (set_nth l i b) + ind (sstat_eqb x a) = count_stat x l + ind (sstat_eqb x b).
Proof.
  induction l as [|y l IH]; intros i a b H; destruct i; cbn in H; try discriminate.
  - injection H as ->. cbn [set_nth]. rewrite !count_stat_cons. lia.
  - cbn [set_nth]. rewrite !count_stat_cons. specialize (IH i a b H). lia.
Qed.

Lemma length_set_nth {A} (l : list A) : forall i x, length (set_nth l i x) = length l.
Proof. induction l as [|y l IH]; intros [|i] x; cbn; try reflexivity. now rewrite IH. Qed.

Lemma count_repeat_same n : count_stat SCall (repeat SCall n) = N.of_nat n.
Proof. induction n; [reflexivity|]. cbn [repeat]. rewrite count_stat_cons. cbn [sstat_eqb ind]. lia. Qed.

Lemma count_repeat_ready n : count_stat SReady (repeat SCall n) = 0.
Proof. induction n; [reflexivity|]. cbn [repeat]. rewrite count_stat_cons. cbn [sstat_eqb ind]. lia. Qed.

Lemma count_le_length x l : count_stat x l <= N.of_nat (length l).
Proof. induction l as [|a l IH]; [cbn; lia|]. rewrite count_stat_cons. cbn [length]. unfold ind. destruct (sstat_eqb x a); lia. Qed.

Lemma count_pos_nth x l : 0 < count_stat x l -> exists i, nth_error l i = Some x.
Proof.
  induction l as [|a l IH]; intro H; [cbn in H; lia|].
  rewrite count_stat_cons in H. destruct (sstat_eqb x a) eqn:E.
  - exists O. cbn. destruct x, a; try discriminate; reflexivity.
  - cbn [ind] in H. destruct IH as [i Hi]; [lia|]. exists (S i). exact Hi.
Qed.

Lemma nth_count_pos x l i : nth_error l i = Some x -> 0 < count_stat x l.
Proof.
  revert i; induction l as [|a l IH]; intros [|i] H; cbn in H; try discriminate.
  - injection H as ->. rewrite count_stat_cons. destruct x; cbn [sstat_eqb ind]; lia.
  - rewrite count_stat_cons. specialize (IH i H). unfold ind. destruct (sstat_eqb x a); lia.
Qed.

(* --- the invariant ------------------------------------------------------------------------- *)

Record inv (n : nat) (cap k : N) (t d : bool) (s : fstate) : Prop := {
  i_len : length (f_snd s) = n;
  i_cap : f_cap s = cap;
  i_k : f_k s = k;
  i_t : f_has_timeout s = t;
  i_d : f_detect s = d;
  i_succ : f_succ s = blocked s + f_buf s + f_recvd s;     (* every answer is held, buffered or taken *)
  i_buf : f_buf s <= cap;
  i_recvd : f_recvd s <= k;
  i_room : f_succ s + calling s <= N.of_nat n;              (* answers come from returned calls only *)
  i_done : f_coll_done s = false -> f_recvd s < k           (* a collector that received k has returned *)
}.

Lemma inv_init n cap k t d : inv n cap k t d (finit n cap k t d).
Proof.
  constructor; cbn; unfold blocked, calling; cbn;
    rewrite ?repeat_length, ?count_repeat_same, ?count_repeat_ready; try reflexivity; try lia.
Qed.

Lemma inv_step n cap k t d s a s' : inv n cap k t d s -> fstep s a = Some s' -> inv n cap k t d s'.
Proof.
  intros [Hl Hc Hk Ht Hdt Hs Hb Hr Hroom Hd] H. unfold blocked, calling in *.
  destruct a as [i ok|i| | |]; cbn [fstep] in H.
  - destruct (nth_error (f_snd s) i) as [[| |]|] eqn:E; try discriminate. injection H as <-.
    pose proof (count_set_nth SReady _ _ _ (if ok then SReady else SDone) E) as C1.
    pose proof (count_set_nth SCall _ _ _ (if ok then SReady else SDone) E) as C2.
    constructor; unfold blocked, calling; cbn [f_snd f_cap f_buf f_k f_recvd f_coll_done f_has_timeout f_detect f_succ];
      rewrite ?length_set_nth; try assumption;
      destruct ok; cbn [sstat_eqb ind] in C1, C2; lia.
  - destruct (nth_error (f_snd s) i) as [[| |]|] eqn:E; try discriminate.
    destruct (f_buf s <? f_cap s) eqn:Eb; [|discriminate]. injection H as <-.
    pose proof (count_set_nth SReady _ _ _ SDone E) as C1.
    pose proof (count_set_nth SCall _ _ _ SDone E) as C2.
    constructor; unfold blocked, calling; cbn [f_snd f_cap f_buf f_k f_recvd f_coll_done f_has_timeout f_detect f_succ];
      rewrite ?length_set_nth; try assumption; cbn [sstat_eqb ind] in C1, C2; lia.
  - destruct (negb (f_coll_done s) && (0 <? f_buf s) && (f_recvd s <? f_k s)) eqn:Eg; [|discriminate].
    injection H as <-.
    constructor; unfold blocked, calling; cbn [f_snd f_cap f_buf f_k f_recvd f_coll_done f_has_timeout f_detect f_succ];
      try assumption; try lia.
  - destruct (negb (f_coll_done s) && f_has_timeout s) eqn:Eg; [|discriminate]. injection H as <-.
    constructor; unfold blocked, calling; cbn [f_snd f_cap f_buf f_k f_recvd f_coll_done f_has_timeout f_detect f_succ];
      try assumption; try lia.
  - destruct (negb (f_coll_done s) && f_detect s && (count_stat SCall (f_snd s) =? 0) && (f_succ s =? 0)) eqn:Eg; [|discriminate].
    injection H as <-.
    constructor; unfold blocked, calling; cbn [f_snd f_cap f_buf f_k f_recvd f_coll_done f_has_timeout f_detect f_succ];
      try assumption; try lia.
Qed.

Lemma frun_is_run sch s : frun sch s = run fstep sch s.
Proof. reflexivity. Qed.

Lemma inv_run n cap k t d sch : inv n cap k t d (frun sch (finit n cap k t d)).
Proof.
  rewrite frun_is_run. apply (invariant_run fstep (inv n cap k t d)).
  - intros s a s' Hi Hs. eapply inv_step; eauto.
  - apply inv_init.
Qed.

(* --- the formula ---------------------------------------------------------------------------- *)

Lemma final_formula n cap k t d s :
  inv n cap k t d s -> final s = true -> blocked s = leak_formula (f_succ s) cap (f_recvd s).
Proof.
  intros [Hl Hc Hk Ht Hdt Hs Hb Hr Hroom Hd] Hf. unfold final in Hf. unfold leak_formula. rewrite Hc in Hf. lia.
Qed.

Lemma senders_terminate n cap k t d sch :
  let s := frun sch (finit n cap k t d) in
  final s = true -> blocked s = leak_formula (f_succ s) cap (f_recvd s).
Proof. intros s. apply (final_formula n cap k t d). apply inv_run. Qed.

(* capacity = number of providers: a sender that has an answer can always send it *)
Lemma send_enabled n cap k t d s i :
  inv n cap k t d s -> N.of_nat n <= cap -> nth_error (f_snd s) i = Some SReady -> fstep s (Send i) <> None.
Proof.
  intros [Hl Hc Hk Ht Hdt Hs Hb Hr Hroom Hd] Hn Hi. cbn [fstep]. rewrite Hi.
  pose proof (nth_count_pos _ _ _ Hi) as Hp. unfold blocked in Hs.
  destruct (f_buf s <? f_cap s) eqn:E; [discriminate|]. exfalso. lia.
Qed.

Lemma never_blocked n cap k t d sch i :
  N.of_nat n <= cap ->
  let s := frun sch (finit n cap k t d) in
  nth_error (f_snd s) i = Some SReady -> fstep s (Send i) <> None.
Proof. intros Hn s. apply (send_enabled n cap k t d); [apply inv_run | exact Hn]. Qed.

Lemma no_leak_when_cap_ge_n n cap k t d sch :
  N.of_nat n <= cap ->
  let s := frun sch (finit n cap k t d) in
  final s = true -> blocked s = 0.
Proof.
  intros Hn s Hf. pose proof (inv_run n cap k t d sch) as Hi. fold s in Hi.
  rewrite (final_formula _ _ _ _ _ _ Hi Hf). destruct Hi as [Hl Hc Hk Ht Hdt Hs Hb Hr Hroom Hd].
  unfold leak_formula. lia.
Qed.

(* the number of blocked senders when the buffer is smaller than the number of answers *)
Lemma leak_exact n cap k t d sch :
  let s := frun sch (finit n cap k t d) in
  final s = true -> cap + f_recvd s < f_succ s -> blocked s = f_succ s - cap - f_recvd s /\ 0 < blocked s.
Proof.
  intros s Hf Hlt. pose proof (senders_terminate n cap k t d sch Hf) as H. fold s in H.
  unfold leak_formula in H. split; [exact H | lia].
Qed.

(* --- the collector -------------------------------------------------------------------------- *)

(* with a deadline the collector always returns; without one (unblindProposal) it returns iff
   some provider succeeded -- unless it is told when everybody has failed, and then it always returns *)
Lemma collector_returns_with_timeout n cap k d sch :
  let s := frun sch (finit n cap k true d) in final s = true -> f_coll_done s = true.
Proof.
  intros s Hf. pose proof (inv_run n cap k true d sch) as [Hl Hc Hk Ht Hdt Hs Hb Hr Hroom Hd]. fold s in Hl, Hc, Hk, Ht, Hdt, Hs, Hb, Hr, Hroom, Hd.
  unfold final in Hf. rewrite Ht in Hf. cbn in Hf. lia.
Qed.

Lemma collector_returns_with_detection n cap sch :
  0 < cap ->
  let s := frun sch (finit n cap 1 false true) in final s = true -> f_coll_done s = true.
Proof.
  intros Hcap s Hf. pose proof (inv_run n cap 1 false true sch) as [Hl Hc Hk Ht Hdt Hs Hb Hr Hroom Hd].
  fold s in Hl, Hc, Hk, Ht, Hdt, Hs, Hb, Hr, Hroom, Hd.
  unfold final in Hf. rewrite Ht, Hdt, Hc in Hf. cbn [negb andb] in Hf.
  destruct (f_coll_done s) eqn:E; [reflexivity|]. specialize (Hd eq_refl). exfalso. lia.
Qed.

Lemma collector_without_timeout n cap sch :
  0 < cap ->
  let s := frun sch (finit n cap 1 false false) in
  final s = true -> (f_coll_done s = false <-> f_succ s = 0).
Proof.
  intros Hcap s Hf. pose proof (inv_run n cap 1 false false sch) as [Hl Hc Hk Ht Hdt Hs Hb Hr Hroom Hd].
  fold s in Hl, Hc, Hk, Ht, Hdt, Hs, Hb, Hr, Hroom, Hd.
  unfold final in Hf. rewrite Ht, Hdt, Hc in Hf. cbn [negb andb] in Hf.
  (* a collector without deadline and without notice is done only by receiving *)
  assert (Hdone : f_coll_done s = true -> f_recvd s = 1).
  { clear Hf. subst s.
    assert (G : forall sch, let s := frun sch (finit n cap 1 false false) in f_coll_done s = true -> f_recvd s = 1).
    { clear. intro sch. rewrite frun_is_run.
      apply (invariant_run fstep (fun s => f_has_timeout s = false /\ f_detect s = false /\ f_k s = 1 /\ (f_coll_done s = true -> f_recvd s = 1))).
      - intros s a s' (Ht & Hdt & Hk & Hd) Hs. destruct a as [i ok|i| | |]; cbn [fstep] in Hs.
        + destruct (nth_error (f_snd s) i) as [[| |]|]; try discriminate. injection Hs as <-. cbn. auto.
        + destruct (nth_error (f_snd s) i) as [[| |]|]; try discriminate.
          destruct (f_buf s <? f_cap s); [|discriminate]. injection Hs as <-. cbn. auto.
        + destruct (negb (f_coll_done s) && (0 <? f_buf s) && (f_recvd s <? f_k s)) eqn:Eg; [|discriminate].
          injection Hs as <-. cbn. repeat split; auto. intros _. lia.
        + rewrite Ht in Hs. rewrite andb_false_r in Hs. discriminate.
        + rewrite Hdt in Hs. rewrite andb_false_r in Hs. cbn in Hs. discriminate.
      - cbn. repeat split; auto. intro H; discriminate. }
    apply G. }
  split.
  - intro Hnd. rewrite Hnd in Hf. specialize (Hd Hnd). lia.
  - intro H0. destruct (f_coll_done s) eqn:E; [|reflexivity]. specialize (Hdone eq_refl). lia.
Qed.

(* --- termination: a schedule has at most 2n + k + 1 effective steps, however long it is ----- *)

Definition fmeasure (s : fstate) : nat :=
  2 * N.to_nat (calling s) + N.to_nat (blocked s) + N.to_nat (f_k s - f_recvd s) + (if f_coll_done s then 0 else 1).

Lemma fmeasure_decreases s a s' : fstep s a = Some s' -> (fmeasure s' < fmeasure s)%nat.
Proof.
  intro H. unfold fmeasure, blocked, calling. destruct a as [i ok|i| | |]; cbn [fstep] in H.
  - destruct (nth_error (f_snd s) i) as [[| |]|] eqn:E; try discriminate. injection H as <-.
    pose proof (count_set_nth SReady _ _ _ (if ok then SReady else SDone) E) as C1.
    pose proof (count_set_nth SCall _ _ _ (if ok then SReady else SDone) E) as C2.
    cbn [f_snd f_cap f_buf f_k f_recvd f_coll_done f_has_timeout f_detect f_succ].
    destruct ok; cbn [sstat_eqb ind] in C1, C2; lia.
  - destruct (nth_error (f_snd s) i) as [[| |]|] eqn:E; try discriminate.
    destruct (f_buf s <? f_cap s); [|discriminate]. injection H as <-.
    pose proof (count_set_nth SReady _ _ _ SDone E) as C1.
    pose proof (count_set_nth SCall _ _ _ SDone E) as C2.
    cbn [f_snd f_cap f_buf f_k f_recvd f_coll_done f_has_timeout f_detect f_succ].
    cbn [sstat_eqb ind] in C1, C2; lia.
  - destruct (negb (f_coll_done s) && (0 <? f_buf s) && (f_recvd s <? f_k s)) eqn:Eg; [|discriminate].
    injection H as <-. cbn [f_snd f_cap f_buf f_k f_recvd f_coll_done f_has_timeout f_detect f_succ].
    destruct (f_coll_done s); [cbn in Eg; discriminate|].
    destruct (f_k s <=? f_recvd s + 1); lia.
  - destruct (negb (f_coll_done s) && f_has_timeout s) eqn:Eg; [|discriminate]. injection H as <-.
    cbn [f_snd f_cap f_buf f_k f_recvd f_coll_done f_has_timeout f_detect f_succ].
    destruct (f_coll_done s); [cbn in Eg; discriminate|]. lia.
  - destruct (negb (f_coll_done s) && f_detect s && (count_stat SCall (f_snd s) =? 0) && (f_succ s =? 0)) eqn:Eg; [|discriminate].
    injection H as <-.
    cbn [f_snd f_cap f_buf f_k f_recvd f_coll_done f_has_timeout f_detect f_succ].
    destruct (f_coll_done s); [cbn in Eg; discriminate|]. lia.
Qed.

Lemma bounded_steps n cap k t d sch :
  (taken fstep sch (finit n cap k t d) <= 2 * n + N.to_nat k + 1)%nat.
Proof.
  pose proof (measure_bound fstep (fun _ => True) (fun _ => true) fmeasure
                (fun _ _ _ _ _ => I) (fun s a s' _ _ H => fmeasure_decreases s a s' H)
                sch (finit n cap k t d) I) as H.
  assert (Hall : forallb (fun _ : fact => true) sch = true) by (clear; induction sch as [|a sch IHs]; cbn; [reflexivity | exact IHs]).
  specialize (H Hall).
  assert (Hm : (fmeasure (finit n cap k t d) <= 2 * n + N.to_nat k + 1)%nat).
  { unfold fmeasure, blocked, calling. cbn [finit f_snd f_k f_recvd f_coll_done].
    rewrite count_repeat_same, count_repeat_ready. destruct (k =? 0); lia. }
  lia.
Qed.

(* --- the harness's scenarios are schedules -------------------------------------------------- *)

Lemma fexec_frun s a : fexec s a = frun [a] s.
Proof. reflexivity. Qed.

Lemma frun_app s l1 l2 : frun (l1 ++ l2) s = frun l2 (frun l1 s).
Proof. unfold frun. apply fold_left_app. Qed.

Lemma settle_sends_sched : forall m i s, exists sch, settle_sends m i s = frun sch s.
Proof.
  induction m as [|m IH]; intros i s; cbn [settle_sends]; [exists []; reflexivity|].
  destruct (IH (S i) (fexec (fexec s (Send i)) Recv)) as [sch Hs].
  exists ([Send i; Recv] ++ sch). rewrite frun_app. exact Hs.
Qed.

Lemma fev_apply_sched s e : exists sch, fev_apply s e = frun sch s.
Proof.
  destruct e as [i ok|]; cbn [fev_apply]; unfold settle.
  - destruct (settle_sends_sched (length (f_snd (fexec s (Return i ok)))) 0 (fexec s (Return i ok))) as [sch H].
    exists ([Return i ok] ++ sch ++ [GiveUp]). rewrite !frun_app. cbn [frun fold_left] in *. rewrite H. reflexivity.
  - destruct (settle_sends_sched (length (f_snd (fexec s Timeout))) 0 (fexec s Timeout)) as [sch H].
    exists ([Timeout] ++ sch ++ [GiveUp]). rewrite !frun_app. cbn [frun fold_left] in *. rewrite H. reflexivity.
Qed.

Lemma scenario_sched n cap k t d evs : exists sch, scenario n cap k t d evs = frun sch (finit n cap k t d).
Proof.
  unfold scenario. generalize (finit n cap k t d) as s0.
  induction evs as [|e evs IH] using rev_ind; intro s0; [exists []; reflexivity|].
  rewrite fold_left_app. cbn [fold_left]. destruct (IH s0) as [sch1 H1]. rewrite H1.
  destruct (fev_apply_sched (frun sch1 s0) e) as [sch2 H2]. exists (sch1 ++ sch2).
  rewrite frun_app. exact H2.
Qed.

Lemma scenario_formula n cap k t d evs :
  let s := scenario n cap k t d evs in
  final s = true -> blocked s = leak_formula (f_succ s) cap (f_recvd s).
Proof.
  intros s Hf. destruct (scenario_sched n cap k t d evs) as [sch H]. subst s. rewrite H in *.
  apply senders_terminate. exact Hf.
Qed.
