(* C05 lemmas: histories of Prepare / Propose calls for several duties on one service instance
   ([history] of Model/C05_Proposer.v).  What a call for duty i asks and produces is a function of
   the configuration, of the answers the environment gives while duty i is handled, and of duty i's
   own object (the duty as created, prepared as many times as it was prepared before) -- of nothing
   that was done for any other duty. *)
From Verif Require Import Lib.Base Model.C05_Proposer Proofs.C05.
From Coq Require Import ZifyBool ZifyN ZifyNat.

Local Open Scope N_scope.

(* how many Prepare calls for duty i there are in a list of calls *)
Fixpoint prepares_of (i : nat) (ops : list op) : nat :=
  match ops with
  | [] => 0%nat
  | OPrepare j :: r => ((if Nat.eqb i j then 1 else 0) + prepares_of i r)%nat
  | OPropose _ :: r => prepares_of i r
  end.

(* the duty object after n Prepare calls, with nothing else going on *)
Fixpoint prepared (c : config) (e : env) (d : duty) (n : nat) : duty :=
  match n with
  | O => d
  | S n' => prepared c e (fst (fst (prepare c e d))) n'
  end.

Lemma nth_error_set_nth_eq {A} : forall (l : list A) i x y,
  nth_error l i = Some y -> nth_error (set_nth l i x) i = Some x.
Proof.
  induction l as [|z l IH]; intros [|i] x y H; cbn in *; try discriminate; auto.
  eapply IH; eauto.
Qed.

Lemma nth_error_set_nth_neq {A} : forall (l : list A) i j x,
  i <> j -> nth_error (set_nth l j x) i = nth_error l i.
Proof.
  induction l as [|z l IH]; intros [|i] [|j] x H; cbn; auto; try congruence.
Qed.

(* what the k-th call of a history gives, when it is a call for duty i *)
Definition call_alone (c : config) (s : dstate) (n : nat) (o : op) : out :=
  let d := prepared c (s_env s) (s_duty s) n in
  match o with
  | OPrepare i => OutPrepare i (snd (fst (prepare c (s_env s) d))) (snd (prepare c (s_env s) d))
  | OPropose i => OutPropose i (propose c (s_env s) d)
  end.

Definition op_duty (o : op) : nat := match o with OPrepare i | OPropose i => i end.

Lemma history_call_local : forall c ops ds k o s,
  nth_error ops k = Some o ->
  nth_error ds (op_duty o) = Some s ->
  nth_error (history c ds ops) k
  = Some (call_alone c s (prepares_of (op_duty o) (firstn k ops)) o).
Proof.
  intros c ops; induction ops as [|o1 rest IH]; intros ds k o s Hk Hs; [destruct k; discriminate|].
  destruct k as [|k].
  - cbn in Hk. injection Hk as ->. cbn [firstn prepares_of prepared].
    destruct o as [i|i]; cbn [op_duty] in Hs; cbn [history]; rewrite Hs; unfold call_alone; cbn [prepared].
    + destruct (prepare c (s_env s) (s_duty s)) as [[d1 evs] ok]; reflexivity.
    + reflexivity.
  - cbn [nth_error] in Hk. cbn [firstn].
    destruct o1 as [j|j]; cbn [history prepares_of].
    + destruct (nth_error ds j) as [sj|] eqn:Hj.
      * destruct (prepare c (s_env sj) (s_duty sj)) as [[d1 evs] ok] eqn:Hp. cbn [nth_error].
        destruct (Nat.eqb (op_duty o) j) eqn:Eij.
        -- apply Nat.eqb_eq in Eij. subst j. rewrite Hs in Hj. injection Hj as <-.
           rewrite (IH _ k o {| s_env := s_env s; s_duty := d1 |} Hk).
           2:{ eapply nth_error_set_nth_eq; eauto. }
           f_equal. unfold call_alone. cbn [s_env s_duty Nat.add prepared]. rewrite Hp. reflexivity.
        -- apply Nat.eqb_neq in Eij.
           rewrite (IH _ k o s Hk); [reflexivity|].
           rewrite nth_error_set_nth_neq; auto.
      * cbn [nth_error].
        destruct (Nat.eqb (op_duty o) j) eqn:Eij.
        -- apply Nat.eqb_eq in Eij. subst j. congruence.
        -- rewrite (IH _ k o s Hk Hs). reflexivity.
    + destruct (nth_error ds j); cbn [nth_error]; apply IH; auto.
Qed.

(* slot and validator of a duty object never change *)
Lemma prepared_same_duty : forall c e n d,
  d_slot (prepared c e d n) = d_slot d /\ d_validator (prepared c e d n) = d_validator d.
Proof.
  intros c e n; induction n as [|n IH]; intro d; cbn [prepared]; [auto|].
  destruct (IH (fst (fst (prepare c e d)))) as (H1 & H2).
  destruct (prepare_duty c e d) as (H3 & H4 & _). cbn zeta in H3, H4. split; congruence.
Qed.

(* a Prepare call anywhere in a history asks for a RANDAO reveal only of the account held for ITS
   duty's validator, over the epoch of ITS duty's slot, and for no block signature *)
Lemma history_prepare_own_duty : forall c ops ds k i s,
  nth_error ops k = Some (OPrepare i) ->
  nth_error ds i = Some s ->
  exists evs ok,
    nth_error (history c ds ops) k = Some (OutPrepare i evs ok)
    /\ forall ev, In ev evs ->
         is_sign_block ev = false
         /\ (is_sign_randao ev = true ->
             exists m a, e_accounts (s_env s) = AccOk m /\ length m = 1%nat
                         /\ lookup_account (d_validator (s_duty s)) m = Some a
                         /\ ev = ESignRandao a (d_slot (s_duty s) / c_spe c)
                                             (DOMAIN_RANDAO, d_slot (s_duty s) / c_spe c)).
Proof.
  intros c ops ds k i s Hk Hs.
  rewrite (history_call_local c ops ds k (OPrepare i) s Hk Hs). unfold call_alone.
  set (n := prepares_of (op_duty (OPrepare i)) (firstn k ops)).
  do 2 eexists. split; [reflexivity|].
  intros ev Hin. destruct (prepare_events c (s_env s) _ ev Hin) as (Hb & Hr).
  destruct (prepared_same_duty c (s_env s) n (s_duty s)) as (Hslot & Hval).
  split; [exact Hb|]. intro Hs'. destruct (Hr Hs') as (m & a & Hm & Hl & Ha & _ & Hev).
  rewrite Hslot in Hev. rewrite Hval in Ha. exists m, a. auto.
Qed.

(* a Propose call anywhere in a history asks for no RANDAO reveal, and for a block signature only
   for ITS duty's slot and validator in the proposer domain of that slot's epoch, over the roots of
   the block the beacon node returned for ITS duty *)
Lemma history_propose_own_duty : forall c ops ds k i s,
  nth_error ops k = Some (OPropose i) ->
  nth_error ds i = Some s ->
  exists r,
    nth_error (history c ds ops) k = Some (OutPropose i r)
    /\ forall ev, In ev (o_events r) ->
         is_sign_randao ev = false
         /\ (is_sign_block ev = true ->
             exists acct p h,
               e_proposal (s_env s) = POk p /\ p_block p = Some h /\ h_slot h = d_slot (s_duty s)
               /\ ev = ESignBlock acct (d_slot (s_duty s)) (d_validator (s_duty s))
                                  (h_parent h) (h_state h) (h_body h)
                                  (DOMAIN_BEACON_PROPOSER, d_slot (s_duty s) / c_spe c)).
Proof.
  intros c ops ds k i s Hk Hs.
  rewrite (history_call_local c ops ds k (OPropose i) s Hk Hs). unfold call_alone.
  set (n := prepares_of (op_duty (OPropose i)) (firstn k ops)).
  eexists. split; [reflexivity|].
  intros ev Hin. rewrite propose_events in Hin.
  destruct (prepared_same_duty c (s_env s) n (s_duty s)) as (Hslot & Hval).
  split; [eapply sign_phase_no_randao; eauto|].
  intro Hb. destruct (sign_phase_sign_block c (s_env s) _ ev Hin Hb) as (acct & p & h & _ & _ & Hsig & _ & Hev).
  unfold sign_block_event in Hev. rewrite Hslot, Hval in Hev.
  exists acct, p, h.
  destruct Hsig as (Hp & _ & Hh & Hsl & _). rewrite Hslot in Hsl. auto.
Qed.

(* in the orders of calls the controller produces (a duty is prepared once, or was filled in by
   hand, before it is proposed) a Propose call gives exactly what the run of that duty alone gives *)
Lemma history_propose_as_alone : forall c ops ds k i s,
  nth_error ops k = Some (OPropose i) ->
  nth_error ds i = Some s ->
  forall prep : bool,
  prepares_of i (firstn k ops) = (if prep then 1%nat else 0%nat) ->
  nth_error (history c ds ops) k = Some (OutPropose i (snd (run c (s_env s) (s_duty s) prep))).
Proof.
  intros c ops ds k i s Hk Hs prep Hn.
  rewrite (history_call_local c ops ds k (OPropose i) s Hk Hs). unfold call_alone. cbn [op_duty]. rewrite Hn.
  f_equal. f_equal. unfold run. destruct prep; cbn [prepared]; [|reflexivity].
  destruct (prepare c (s_env s) (s_duty s)) as [[d1 evs] ok]; reflexivity.
Qed.
