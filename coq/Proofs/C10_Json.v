(* C10 lemmas, part 2: marshal / unmarshal.  Every configuration that unmarshal can produce is
   "canonical" (graces are whole milliseconds, a zero minimum value is the normal zero, an enabled
   v1 builder has relays, a v1 default exists), and unmarshal (marshal c) = Some c for every
   canonical c: the round trip returns the very same configuration, hence the same meaning. *)
From Verif Require Import Lib.Base Model.C10_ExecConfig Proofs.C10.
From Coq Require Import Lia.
Local Open Scope list_scope.

(* ------------------------------------------------------------------------------------------- *)
(* Canonical values *)

Definition canon_grace (g : N) : Prop := g mod ns_per_ms = 0 /\ g / ns_per_ms <= max_grace_ms.
Definition canon_dec (d : dec) : Prop := fst d = 0 -> d = dec_zero.

Definition canon_opt {A} (P : A -> Prop) (o : option A) : Prop :=
  match o with Some x => P x | None => True end.

Definition canon_base_relay (b : base_relay) : Prop :=
  canon_opt canon_grace (br_grace b) /\ canon_opt canon_dec (br_min b).
Definition canon_prop_relay (r : prop_relay) : Prop :=
  canon_opt canon_grace (pr_grace r) /\ canon_opt canon_dec (pr_min r).
Definition canon_proposer (p : proposer) : Prop :=
  canon_opt canon_grace (p_grace p) /\ canon_opt canon_dec (p_min p) /\
  Forall (fun kr => canon_prop_relay (snd kr)) (p_relays p).
Definition canon_config2 (c : config2) : Prop :=
  canon_opt canon_grace (e_grace c) /\ canon_opt canon_dec (e_min c) /\
  Forall (fun kr => canon_base_relay (snd kr)) (e_relays c) /\
  Forall canon_proposer (e_props c).

Definition canon_builder1 (b : builder1) : Prop :=
  canon_grace (b_grace b) /\ (b_enabled b = true -> b_relays b <> []).
Definition canon_proposer1 (q : proposer1) : Prop := canon_opt canon_builder1 (q_builder q).
Definition canon_config1 (c : config1) : Prop :=
  nodupb (map fst (c1_props c)) = true /\
  Forall (fun kq => canon_opt canon_proposer1 (snd kq)) (c1_props c) /\
  exists d, c1_default c = Some d /\ canon_proposer1 d.

Definition canon_config (c : config) : Prop :=
  match c with CV1 c1 => canon_config1 c1 | CV2 c2 => canon_config2 c2 end.

(* ------------------------------------------------------------------------------------------- *)
(* Leaf-level numeric steps (the string codecs themselves are the harness's) *)

Lemma grace_rt : forall g, canon_grace g -> g / ns_per_ms * ns_per_ms = g.
Proof.
  intros g [H _].
  pose proof (N.div_mod g ns_per_ms) as E. rewrite H in E.
  rewrite N.mul_comm. symmetry. rewrite N.add_0_r in E. apply E. unfold ns_per_ms. discriminate.
Qed.

Lemma grace_canon : forall ms, ms <= max_grace_ms -> canon_grace (ms * ns_per_ms).
Proof.
  intros ms H. unfold canon_grace. split.
  - apply N.mod_mul. unfold ns_per_ms. discriminate.
  - rewrite N.div_mul by (unfold ns_per_ms; discriminate). exact H.
Qed.

Lemma dec_rt : forall d, canon_dec d -> dec_shift 18 (dec_shift (-18) d) = d.
Proof.
  intros [m e] H. unfold canon_dec in H. unfold dec_shift. cbn [fst snd] in *.
  destruct (m =? 0) eqn:E.
  - apply N.eqb_eq in E. rewrite (H E). reflexivity.
  - cbn [fst snd]. rewrite E. f_equal. lia.
Qed.

Lemma dec_shift_canon : forall k d, canon_dec (dec_shift k d).
Proof.
  intros k [m e]. unfold canon_dec, dec_shift. cbn [fst snd].
  destruct (m =? 0) eqn:E; [reflexivity|]. cbn [fst]. intro H. apply N.eqb_neq in E. contradiction.
Qed.

Lemma d_grace_enc : forall g, canon_grace g -> d_grace (enc_grace g) = Some (Some g).
Proof.
  intros g H. unfold d_grace, enc_grace. destruct H as [H1 H2].
  apply N.leb_le in H2. rewrite H2. rewrite grace_rt by (split; [exact H1 | apply N.leb_le, H2]). reflexivity.
Qed.

Lemma d_min_enc : forall d, canon_dec d -> d_min (enc_min d) = Some (Some d).
Proof. intros d H. unfold d_min, enc_min. rewrite dec_rt by exact H. reflexivity. Qed.

Lemma d_grace_canon : forall j g, d_grace j = Some (Some g) -> canon_grace g.
Proof.
  intros j g H. destruct j as [| | |l| | |]; try discriminate. destruct l; try discriminate.
  cbn [d_grace] in H. destruct (n <=? max_grace_ms) eqn:E; [|discriminate].
  injection H as <-. apply grace_canon. apply N.leb_le, E.
Qed.

Lemma d_min_canon : forall j d, d_min j = Some (Some d) -> canon_dec d.
Proof.
  intros j d H. destruct j as [| | |l| | |]; try discriminate. destruct l; try discriminate.
  cbn [d_min] in H. injection H as <-. apply dec_shift_canon.
Qed.

Lemma d_grace_canon_opt : forall j o, d_grace j = Some o -> canon_opt canon_grace o.
Proof. intros j [g|] H; [eapply d_grace_canon, H | exact I]. Qed.

Lemma d_min_canon_opt : forall j o, d_min j = Some o -> canon_opt canon_dec o.
Proof. intros j [d|] H; [eapply d_min_canon, H | exact I]. Qed.

(* ------------------------------------------------------------------------------------------- *)
(* Lists and maps of entries *)

Lemma all_some_map_rt {A B} (f : A -> option B) (g : A -> B) : forall l,
  Forall (fun x => f x = Some (g x)) l -> all_some (map f l) = Some (map g l).
Proof.
  induction l as [|x l IH]; intro H; [reflexivity|].
  inversion H as [|? ? Hx Hl]; subst. cbn [map all_some]. rewrite Hx, (IH Hl). reflexivity.
Qed.

Lemma all_some_Forall {A B} (f : A -> option B) (P : B -> Prop) : forall l r,
  (forall x y, In x l -> f x = Some y -> P y) -> all_some (map f l) = Some r -> Forall P r.
Proof.
  induction l as [|x l IH]; intros r Hf H; cbn in H.
  - injection H as <-. constructor.
  - destruct (f x) as [y|] eqn:E; [|discriminate].
    destruct (all_some (map f l)) as [r'|] eqn:E'; [|discriminate].
    injection H as <-. constructor.
    + eapply Hf; [left; reflexivity | exact E].
    + apply IH; [|reflexivity]. intros x' y' Hin. apply Hf. right. exact Hin.
Qed.

Lemma d_map_null {A} (dec : json -> option A) : d_map dec JNull = Some [].
Proof. reflexivity. Qed.

Lemma d_arr_null {A} (dec : json -> option A) : d_arr dec JNull = Some [].
Proof. reflexivity. Qed.

Lemma d_map_rt {A} (dec : json -> option A) (enc : A -> json) (P : A -> Prop) :
  (forall x, P x -> dec (enc x) = Some x) ->
  forall l, Forall (fun kx => P (snd kx)) l ->
            d_map dec (JMap (map (fun kx => (fst kx, enc (snd kx))) l)) = Some l.
Proof.
  intros Hrt l Hl. unfold d_map. rewrite map_map. cbn [fst snd].
  rewrite (all_some_map_rt _ (fun kx => kx)).
  - rewrite map_id. reflexivity.
  - rewrite Forall_forall in *. intros [k x] Hin. cbn [fst snd]. rewrite (Hrt x (Hl _ Hin)). reflexivity.
Qed.

Lemma d_arr_rt {A} (dec : json -> option A) (enc : A -> json) (P : A -> Prop) :
  (forall x, P x -> dec (enc x) = Some x) ->
  forall l, Forall P l -> d_arr dec (JArr (map enc l)) = Some l.
Proof.
  intros Hrt l Hl. unfold d_arr. rewrite map_map.
  rewrite (all_some_map_rt _ (fun x => x)).
  - rewrite map_id. reflexivity.
  - rewrite Forall_forall in *. intros x Hin. apply Hrt, Hl, Hin.
Qed.

Lemma d_map_Forall {A} (dec : json -> option A) (P : A -> Prop) : forall j l,
  (forall j x, dec j = Some x -> P x) -> d_map dec j = Some l -> Forall (fun kx => P (snd kx)) l.
Proof.
  intros j l Hd H. destruct j as [| | | | | |m]; try discriminate.
  - injection H as <-. constructor.
  - unfold d_map in H. eapply all_some_Forall; [|exact H].
    intros [k j'] [k' x] _ Hx. cbn [fst snd] in *. destruct (dec j') as [x'|] eqn:E; [|discriminate].
    cbn in Hx. injection Hx as <- <-. eapply Hd, E.
Qed.

Lemma d_arr_Forall {A} (dec : json -> option A) (P : A -> Prop) : forall j l,
  (forall j x, dec j = Some x -> P x) -> d_arr dec j = Some l -> Forall P l.
Proof.
  intros j l Hd H. destruct j as [| | | |a| |]; try discriminate.
  - injection H as <-. constructor.
  - unfold d_arr in H. eapply all_some_Forall; [|exact H]. intros j' x _ Hx. eapply Hd, Hx.
Qed.

(* the relay addresses of a decoded map are those of the document, in the same order *)
Lemma all_some_keys {A} (dec : json -> option A) : forall (m : list (N * json)) l,
  all_some (map (fun kj => option_map (pair (fst kj)) (dec (snd kj))) m) = Some l -> keys l = map fst m.
Proof.
  induction m as [|[k j] m IH]; intros l H; cbn in H.
  - injection H as <-. reflexivity.
  - destruct (dec j) as [x|]; [|discriminate]. cbn in H.
    destruct (all_some _) as [l'|] eqn:E; [|discriminate]. injection H as <-.
    cbn. f_equal. apply IH. reflexivity.
Qed.

Lemma d_map_keys {A} (dec : json -> option A) : forall m l,
  d_map dec (JMap m) = Some l -> keys l = map fst m.
Proof. intros m l H. apply (all_some_keys dec), H. Qed.

(* ------------------------------------------------------------------------------------------- *)
(* Round trip of each record: decode (encode x) = Some x for canonical x *)

Ltac rt_with H1 H2 :=
  cbn -[d_map d_arr d_grace enc_grace d_min enc_min map];
  rewrite ?d_map_null, ?d_arr_null, ?H1, ?H2;
  repeat (first [rewrite d_grace_enc by assumption | rewrite d_min_enc by assumption]);
  reflexivity.

Lemma base_relay_rt : forall b, canon_base_relay b -> base_relay_of_json (base_relay_to_json b) = Some b.
Proof.
  intros [pk fee gas gr mn] [Hg Hm]. cbn [br_grace br_min canon_opt] in *.
  unfold base_relay_to_json, base_relay_of_json.
  destruct pk, fee, gas, gr, mn; cbn [canon_opt] in *; rt_with I I.
Qed.

Lemma prop_relay_rt : forall r, canon_prop_relay r -> prop_relay_of_json (prop_relay_to_json r) = Some r.
Proof.
  intros [dis pk fee gas gr mn] [Hg Hm]. cbn [pr_grace pr_min canon_opt] in *.
  unfold prop_relay_to_json, prop_relay_of_json.
  destruct dis, pk, fee, gas, gr, mn; cbn [canon_opt] in *; rt_with I I.
Qed.

Lemma proposer_rt : forall p, canon_proposer p -> proposer_of_json (proposer_to_json p) = Some p.
Proof.
  intros [sel fee gas gr mn rst rel] [Hg [Hm Hr]]. cbn [p_grace p_min p_relays canon_opt] in *.
  pose proof (d_map_rt prop_relay_of_json prop_relay_to_json canon_prop_relay prop_relay_rt rel Hr) as Hrel.
  unfold proposer_to_json, proposer_of_json.
  destruct rel, sel, fee, gas, gr, mn, rst; cbn [canon_opt] in *; rt_with Hrel I.
Qed.

Lemma config2_rt : forall c, canon_config2 c -> config2_of_json (config2_to_json c) = Some c.
Proof.
  intros [fee gas gr mn rel props] [Hg [Hm [Hr Hp]]]. cbn [e_grace e_min e_relays e_props canon_opt] in *.
  pose proof (d_map_rt base_relay_of_json base_relay_to_json canon_base_relay base_relay_rt rel Hr) as Hrel.
  pose proof (d_arr_rt proposer_of_json proposer_to_json canon_proposer proposer_rt props Hp) as Hprops.
  unfold config2_to_json, config2_of_json.
  destruct rel, props, fee, gas, gr, mn; cbn [canon_opt] in *; rt_with Hrel Hprops.
Qed.

(* ------------------------------------------------------------------------------------------- *)
(* Whatever unmarshal accepts is canonical (v2) *)

Lemma base_relay_canon : forall j b, base_relay_of_json j = Some b -> canon_base_relay b.
Proof.
  intros j b H. destruct j as [| | | | |o|]; try discriminate. unfold base_relay_of_json in H.
  destruct (d_key (field FPk o)), (d_addr (field FFee o)), (d_num (field FGas o)); try discriminate.
  destruct (d_grace (field FGrace o)) eqn:Eg; try discriminate.
  destruct (d_min (field FMin o)) eqn:Em; try discriminate.
  injection H as <-. split; cbn; [eapply d_grace_canon_opt, Eg | eapply d_min_canon_opt, Em].
Qed.

Lemma prop_relay_canon : forall j r, prop_relay_of_json j = Some r -> canon_prop_relay r.
Proof.
  intros j r H. destruct j as [| | | | |o|]; try discriminate. unfold prop_relay_of_json in H.
  destruct (d_bool (field FDisabled o)), (d_key (field FPk o)), (d_addr (field FFee o)),
           (d_num (field FGas o)); try discriminate.
  destruct (d_grace (field FGrace o)) eqn:Eg; try discriminate.
  destruct (d_min (field FMin o)) eqn:Em; try discriminate.
  injection H as <-. split; cbn; [eapply d_grace_canon_opt, Eg | eapply d_min_canon_opt, Em].
Qed.

Lemma proposer_canon : forall j p, proposer_of_json j = Some p -> canon_proposer p.
Proof.
  intros j p H. destruct j as [| | | | |o|]; try discriminate. unfold proposer_of_json in H.
  destruct (d_selector (field FProposer o)), (d_addr (field FFee o)), (d_num (field FGas o)); try discriminate.
  destruct (d_grace (field FGrace o)) eqn:Eg; try discriminate.
  destruct (d_min (field FMin o)) eqn:Em; try discriminate.
  destruct (d_bool (field FReset o)); try discriminate.
  destruct (d_map prop_relay_of_json (field FRelays o)) eqn:Er; try discriminate.
  injection H as <-. repeat split; cbn.
  - eapply d_grace_canon_opt, Eg.
  - eapply d_min_canon_opt, Em.
  - eapply d_map_Forall; [exact prop_relay_canon | exact Er].
Qed.

Lemma config2_canon : forall j c, config2_of_json j = Some c -> canon_config2 c.
Proof.
  intros j c H. destruct j as [| | | | |o|]; try discriminate. unfold config2_of_json in H.
  destruct (field FVersion o) as [| |n| | | |]; try discriminate.
  destruct n as [|[| |]]; try discriminate. destruct p as [| |]; try discriminate.
  destruct (d_addr (field FFee o)), (d_num (field FGas o)); try discriminate.
  destruct (d_grace (field FGrace o)) eqn:Eg; try discriminate.
  destruct (d_min (field FMin o)) eqn:Em; try discriminate.
  destruct (d_map base_relay_of_json (field FRelays o)) eqn:Er; try discriminate.
  destruct (d_arr proposer_of_json (field FProposers o)) eqn:Ep; try discriminate.
  injection H as <-. repeat split; cbn.
  - eapply d_grace_canon_opt, Eg.
  - eapply d_min_canon_opt, Em.
  - eapply d_map_Forall; [exact base_relay_canon | exact Er].
  - eapply d_arr_Forall; [exact proposer_canon | exact Ep].
Qed.

(* ------------------------------------------------------------------------------------------- *)
(* Version 1 *)

Definition builder1_fields (b : builder1) : list (fld * json) :=
  [(FEnabled, JBool (b_enabled b))]
  ++ (if 0 <? b_grace b then [(FGrace, enc_grace (b_grace b))] else [])
  ++ match b_relays b with [] => [] | rs => [(FRelays, JArr (map (fun a => JStr (LRelay a)) rs))] end.

Lemma builder1_to_json_obj : forall b, builder1_to_json b = JObj (builder1_fields b).
Proof. reflexivity. Qed.

Definition proposer1_fields (q : proposer1) : list (fld * json) :=
  [(FFee, enc_addr (q_fee q))]
  ++ (if q_gas q =? 0 then [] else [(FGas, enc_num (q_gas q))])
  ++ opt_fld FBuilder builder1_to_json (q_builder q).

Lemma proposer1_to_json_obj : forall q, proposer1_to_json q = JObj (proposer1_fields q).
Proof. reflexivity. Qed.

Lemma relays1_rt : forall rs, d_arr d_relay1 (JArr (map (fun a => JStr (LRelay a)) rs)) = Some rs.
Proof.
  intro rs. apply (d_arr_rt d_relay1 (fun a => JStr (LRelay a)) (fun _ => True)); [reflexivity|].
  apply Forall_forall. intros; exact I.
Qed.

Lemma builder1_rt : forall b, canon_builder1 b -> builder1_of_json (builder1_to_json b) = Some b.
Proof.
  intros [en g rs] [Hg Hne]. cbn [b_grace b_enabled b_relays] in *.
  pose proof (relays1_rt rs) as Hrs.
  unfold builder1_to_json, builder1_of_json. cbn [b_grace b_enabled b_relays].
  destruct (N.ltb_spec 0 g) as [Hlt | Hle].
  - destruct rs as [|r rs].
    + destruct en; [exfalso; apply Hne; reflexivity|].
      cbn -[d_arr d_grace enc_grace map]. rewrite d_arr_null, d_grace_enc by exact Hg. reflexivity.
    + destruct en; cbn -[d_arr d_grace enc_grace map]; rewrite Hrs, d_grace_enc by exact Hg; reflexivity.
  - assert (g = 0) by lia. subst g.
    destruct rs as [|r rs].
    + destruct en; [exfalso; apply Hne; reflexivity|]. reflexivity.
    + destruct en; cbn -[d_arr map]; rewrite Hrs; reflexivity.
Qed.

Lemma builder1_canon : forall j b, builder1_of_json j = Some b -> canon_builder1 b.
Proof.
  intros j b H. destruct j as [| | | | |o|]; try discriminate. unfold builder1_of_json in H.
  destruct (d_bool (field FEnabled o)) as [en|]; try discriminate.
  destruct (d_grace (field FGrace o)) as [gr|] eqn:Eg; try discriminate.
  destruct (d_arr d_relay1 (field FRelays o)) as [rs|]; try discriminate.
  assert (Hcg : canon_grace (or_else gr 0)).
  { destruct gr as [g|]; cbn; [eapply d_grace_canon, Eg | split; [reflexivity | cbv; discriminate]]. }
  destruct en, rs; try discriminate; injection H as <-; split; cbn; try exact Hcg; congruence.
Qed.

Lemma proposer1_rt : forall q, canon_proposer1 q -> proposer1_of_json (proposer1_to_json q) = Some q.
Proof.
  intros [fee gas bo] Hb. unfold canon_proposer1 in Hb. cbn [q_builder] in Hb.
  unfold proposer1_to_json, proposer1_of_json. cbn [q_fee q_gas q_builder].
  destruct bo as [b|]; cbn [canon_opt] in Hb.
  - pose proof (builder1_rt b Hb) as Hb'. cbn [opt_fld]. rewrite builder1_to_json_obj in *.
    set (bf := builder1_fields b) in *. clearbody bf.
    destruct (gas =? 0) eqn:E.
    + apply N.eqb_eq in E. subst gas. cbn -[builder1_of_json]. rewrite Hb'. reflexivity.
    + cbn -[builder1_of_json]. rewrite Hb'. reflexivity.
  - destruct (gas =? 0) eqn:E.
    + apply N.eqb_eq in E. subst gas. reflexivity.
    + reflexivity.
Qed.

Lemma proposer1_canon : forall j q, proposer1_of_json j = Some q -> canon_proposer1 q.
Proof.
  intros j q H. destruct j as [| | | | |o|]; try discriminate. unfold proposer1_of_json in H.
  destruct (field FFee o) as [| | |l| | |]; try discriminate. destruct l; try discriminate.
  destruct (d_num (field FGas o)); try discriminate.
  destruct (field FBuilder o) as [| | | | | |] eqn:Eb;
    try (injection H as <-; exact I);
    match type of H with option_map _ ?x = _ => destruct x as [bb|] eqn:Ebb end;
    try discriminate; injection H as <-; unfold canon_proposer1; cbn; eapply builder1_canon, Ebb.
Qed.

Lemma nullable1_rt : forall o, canon_opt canon_proposer1 o ->
  d_nullable proposer1_of_json (nullable_to_json proposer1_to_json o) = Some o.
Proof.
  intros [q|] H; [|reflexivity]. cbn [canon_opt] in H. pose proof (proposer1_rt q H) as Hq.
  cbn [nullable_to_json]. rewrite proposer1_to_json_obj in *. unfold d_nullable. rewrite Hq. reflexivity.
Qed.

Lemma nullable1_canon : forall j o, d_nullable proposer1_of_json j = Some o -> canon_opt canon_proposer1 o.
Proof.
  intros j o H. unfold d_nullable in H.
  destruct j; try (injection H as <-; exact I);
    match type of H with option_map _ ?x = _ => destruct x as [q|] eqn:Eq end;
    try discriminate; injection H as <-; cbn; eapply proposer1_canon, Eq.
Qed.

Lemma config1_rt : forall c, canon_config1 c -> config1_of_json (config1_to_json c) = Some c.
Proof.
  intros [ps def] [Hnd [Hps [d [Hd Hcd]]]]. cbn [c1_props c1_default] in *. subst def.
  pose proof (d_map_rt (d_nullable proposer1_of_json) (nullable_to_json proposer1_to_json)
                       (canon_opt canon_proposer1) nullable1_rt ps Hps) as Hm.
  pose proof (proposer1_rt d Hcd) as Hd'.
  unfold config1_to_json, config1_of_json. cbn [c1_props c1_default opt_fld].
  rewrite proposer1_to_json_obj in *. set (df := proposer1_fields d) in *. clearbody df.
  destruct ps as [|p0 ps].
  - cbn -[proposer1_of_json]. rewrite Hd'. reflexivity.
  - cbn -[d_map map proposer1_of_json nodupb]. rewrite Hm. rewrite Hnd.
    cbn -[proposer1_of_json]. rewrite Hd'. reflexivity.
Qed.

Lemma config1_canon : forall j c, config1_of_json j = Some c -> canon_config1 c.
Proof.
  intros j c H. destruct j as [| | | | |o|]; try discriminate. unfold config1_of_json in H.
  destruct (d_map (d_nullable proposer1_of_json) (field FPropCfg o)) as [ps|] eqn:Ep; try discriminate.
  destruct (nodupb (map fst ps)) eqn:End; cbn [negb] in H; try discriminate.
  destruct (field FDefault o) eqn:Ed; try discriminate;
    match type of H with option_map _ ?x = _ => destruct x as [d|] eqn:Edd end;
    try discriminate; injection H as <-; (split; [exact End|]; split; cbn;
      [eapply d_map_Forall; [exact nullable1_canon | exact Ep]
      | exists d; split; [reflexivity | eapply proposer1_canon, Edd]]).
Qed.

(* ------------------------------------------------------------------------------------------- *)
(* Dispatch and the whole round trip *)

Lemma unmarshal_canon : forall j c, unmarshal j = Some c -> canon_config c.
Proof.
  intros j c H. destruct j as [| | | | |o|]; try discriminate. unfold unmarshal in H.
  destruct (field FVersion o) as [| |n| | | |]; try discriminate.
  - destruct (config1_of_json (JObj o)) as [c1|] eqn:E; try discriminate. injection H as <-.
    eapply config1_canon, E.
  - destruct n as [|[q|q|]]; try discriminate.
    + destruct (config1_of_json (JObj o)) as [c1|] eqn:E; try discriminate. injection H as <-.
      eapply config1_canon, E.
    + destruct q as [q|q|]; try discriminate.
      destruct (config2_of_json (JObj o)) as [c2|] eqn:E; try discriminate. injection H as <-.
      eapply config2_canon, E.
Qed.

Lemma marshal_unmarshal : forall c, canon_config c -> unmarshal (marshal c) = Some c.
Proof.
  intros [c1|c2] H; cbn [marshal canon_config] in *.
  - pose proof (config1_rt c1 H) as H1. unfold config1_to_json in *.
    set (o := map_fld FPropCfg _ _ ++ _) in *.
    assert (Hv : field FVersion o = JNull).
    { subst o. destruct (c1_props c1), (c1_default c1); reflexivity. }
    unfold unmarshal. rewrite Hv, H1. reflexivity.
  - pose proof (config2_rt c2 H) as H2. unfold config2_to_json in *.
    unfold unmarshal. cbn [app field fld_eqb fld_idx N.eqb]. 
    set (j := JObj _) in *. rewrite H2. reflexivity.
Qed.

Lemma roundtrip_exact : forall j c, unmarshal j = Some c -> unmarshal (marshal c) = Some c.
Proof. intros j c H. apply marshal_unmarshal. eapply unmarshal_canon, H. Qed.

Lemma roundtrip_meaning : forall j c, unmarshal j = Some c ->
  exists c', unmarshal (marshal c) = Some c' /\
             forall v fbfee fbgas, lookup c' v fbfee fbgas = lookup c v fbfee fbgas.
Proof. intros j c H. exists c. split; [eapply roundtrip_exact, H | reflexivity]. Qed.

(* the dispatcher: the version field alone selects the format *)
Lemma unmarshal_dispatch : forall o,
  unmarshal (JObj o) =
    match field FVersion o with
    | JNull | JNum 0 => option_map CV1 (config1_of_json (JObj o))
    | JNum 2 => option_map CV2 (config2_of_json (JObj o))
    | _ => None
    end.
Proof. reflexivity. Qed.

Lemma unmarshal_version : forall j c, unmarshal j = Some c ->
  exists o, j = JObj o /\
    match c with
    | CV1 _ => field FVersion o = JNull \/ field FVersion o = JNum 0
    | CV2 _ => field FVersion o = JNum 2
    end.
Proof.
  intros j c H. destruct j as [| | | | |o|]; try discriminate. exists o. split; [reflexivity|].
  unfold unmarshal in H.
  destruct (field FVersion o) as [| |n| | | |]; try discriminate.
  - destruct (config1_of_json (JObj o)); try discriminate. injection H as <-. left; reflexivity.
  - destruct n as [|[q|q|]]; try discriminate.
    + destruct (config1_of_json (JObj o)); try discriminate. injection H as <-. right; reflexivity.
    + destruct q as [q|q|]; try discriminate.
      destruct (config2_of_json (JObj o)); try discriminate. injection H as <-. reflexivity.
Qed.

(* the relay maps of an accepted document keep the document's keys *)
Lemma config2_of_json_relay_keys : forall o c m,
  config2_of_json (JObj o) = Some c -> field FRelays o = JMap m -> keys (e_relays c) = map fst m.
Proof.
  intros o c m H Hm. unfold config2_of_json in H.
  destruct (field FVersion o) as [| |n| | | |]; try discriminate.
  destruct n as [|[| |]]; try discriminate. destruct p as [| |]; try discriminate.
  destruct (d_addr (field FFee o)), (d_num (field FGas o)), (d_grace (field FGrace o)),
           (d_min (field FMin o)); try discriminate.
  destruct (d_map base_relay_of_json (field FRelays o)) eqn:Er; try discriminate.
  destruct (d_arr proposer_of_json (field FProposers o)); try discriminate.
  injection H as <-. cbn [e_relays]. rewrite Hm in Er. eapply d_map_keys, Er.
Qed.

(* an accepted legacy document has one entry per public key *)
Lemma unmarshal_v1_wf : forall j c, unmarshal j = Some (CV1 c) -> wf_config1 c.
Proof.
  intros j c H. apply unmarshal_canon in H. destruct H as [H _]. apply nodupb_sound, H.
Qed.
