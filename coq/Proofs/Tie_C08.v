(* C08: the hand-written model equals the gotrans transcription of calculateExtentSize and Scatter's worker/extent arithmetic
   (coq/Gen/Pure_C08.v, regenerated from the repository's source on every run).  When the Go source
   changes its meaning, a lemma here stops compiling and only C08's tie is affected. *)
From Coq Require Import ZArith NArith Lia Bool List.
From Coq Require Import ZifyBool ZifyN.
From Verif Require Import Lib.Base Lib.GoInt Proofs.TieLib Gen.Pure_C08.
From Verif Require Import Model.C08_Submitter.
Local Open Scope Z_scope.

Lemma tie_extent_size (items conc gomax : Z) :
  0 <= items < two63 -> in_i64 conc -> 0 < gomax < two63 ->
  extent_size items conc gomax = util_calculateExtentSize items conc gomax.
Proof.
  intros Hi Hc Hg. unfold extent_size, util_calculateExtentSize, in_i64, two63 in *.
  set (dc := if conc <=? 0 then gomax else conc).
  assert (Hdc : 0 < dc < 9223372036854775808) by (subst dc; destruct (conc <=? 0) eqn:E; lia).
  assert (Hq : 0 <= Z.quot items dc <= items).
  { rewrite Z.quot_div_nonneg by lia. split; [apply Z.div_pos; lia|]. apply Z.div_le_upper_bound; nia. }
  rewrite (i64_id (Z.quot items dc)) by (unfold in_i64, two63; lia).
  destruct (Z.quot items dc =? 0) eqn:E0; [reflexivity|].
  destruct (Z.rem items (Z.quot items dc) >? 0) eqn:E1; [|reflexivity].
  assert (Hlt : Z.quot items dc < items).
  { assert (Z.quot items dc <> items); [|lia]. intro Heq. rewrite Heq in E1. rewrite Z.rem_same in E1 by lia. lia. }
  rewrite i64_id by (unfold in_i64, two63; lia). reflexivity.
Qed.

Lemma extent_size_range (items conc gomax : Z) :
  0 < items < two63 -> in_i64 conc -> 0 < gomax < two63 ->
  0 < extent_size items conc gomax <= items.
Proof.
  intros Hi Hc Hg. unfold extent_size, in_i64, two63 in *.
  set (dc := if conc <=? 0 then gomax else conc).
  assert (Hdc : 0 < dc) by (subst dc; destruct (conc <=? 0) eqn:E; lia).
  assert (Hq : 0 <= Z.quot items dc <= items).
  { rewrite Z.quot_div_nonneg by lia. split; [apply Z.div_pos; lia|]. apply Z.div_le_upper_bound; nia. }
  destruct (Z.quot items dc =? 0) eqn:E0; [lia|].
  destruct (Z.rem items (Z.quot items dc) >? 0) eqn:E1; [|lia].
  assert (Z.quot items dc <> items); [|lia]. intro Heq. rewrite Heq in E1. rewrite Z.rem_same in E1 by lia. lia.
Qed.

Lemma tie_scatter_workers (items conc gomax : Z) :
  0 < items < two63 -> in_i64 conc -> 0 < gomax < two63 ->
  util_scatterWorkers items conc gomax =
  (extent_size items conc gomax, worker_count items (extent_size items conc gomax)).
Proof.
  intros Hi Hc Hg. unfold util_scatterWorkers, worker_count.
  rewrite <- tie_extent_size by (try assumption; unfold two63 in *; lia).
  pose proof (extent_size_range items conc gomax Hi Hc Hg) as He.
  set (e := extent_size items conc gomax) in *.
  assert (Hq : 0 <= Z.quot items e <= items).
  { rewrite Z.quot_div_nonneg by lia. split; [apply Z.div_pos; lia|]. apply Z.div_le_upper_bound; nia. }
  rewrite (i64_id (Z.quot items e)) by (unfold in_i64, two63 in *; lia).
  destruct (Z.rem items e =? 0) eqn:E; cbn [negb]; [reflexivity|].
  assert (Z.quot items e < items).
  { assert (Z.quot items e <> items); [|lia]. intro Heq.
    assert (e = 1).
    { rewrite Z.quot_div_nonneg in Heq by lia. destruct (Z.eq_dec e 1); [assumption|].
      assert (items / e < items); [apply Z.div_lt; lia | lia]. }
    subst e. rewrite H in E. rewrite Z.rem_1_r in E. discriminate. }
  rewrite i64_id by (unfold in_i64, two63 in *; lia). reflexivity.
Qed.

(* every worker index below the worker count; a slice shorter than 2^62 elements, so that
   offset+entries cannot overflow an int *)

Lemma tie_scatter_extent (items e w : Z) :
  0 < items < 4611686018427387904 -> 0 < e <= items -> 0 <= w -> w * e < items ->
  util_scatterExtent w e items = extent_of items e w.
Proof.
  intros Hi He Hw Hwe. unfold util_scatterExtent, extent_of.
  assert (H0 : 0 <= w * e) by (apply Z.mul_nonneg_nonneg; lia).
  rewrite (i64_id (w * e)) by (unfold in_i64, two63; lia).
  rewrite (i64_id (w * e + e)) by (unfold in_i64, two63; lia).
  destruct (w * e + e >? items) eqn:E; [|reflexivity].
  rewrite i64_id by (unfold in_i64, two63; lia). reflexivity.
Qed.
