(* C04: lemmas about MergeDuties (Model/C04_Merge.v): the merged duty of a slot holds exactly the
   rows the beacon node gave for that slot, each with its own committee index, position and the
   length of its own committee at that slot. *)
From Verif Require Import Lib.Base Model.C01_Attester Model.C04_Merge Proofs.C01 Proofs.C04.
From Coq Require Import ZifyBool ZifyN ZifyNat Permutation.

(* --- sort_by is a permutation ---------------------------------------------------------------- *)
Lemma insert_by_perm4 {A} (key : A -> N) : forall x l, Permutation (insert_by key x l) (x :: l).
Proof.
  induction l as [|y l IH]; cbn; [apply Permutation_refl|].
  destruct (key x <=? key y); [apply Permutation_refl|].
  eapply Permutation_trans; [apply perm_skip; exact IH | apply perm_swap].
Qed.

Lemma sort_by_perm4 {A} (key : A -> N) : forall l, Permutation (sort_by key l) l.
Proof.
  induction l as [|x l IH]; cbn; [apply Permutation_refl|].
  eapply Permutation_trans; [apply insert_by_perm4 | apply perm_skip; exact IH].
Qed.

Lemma sort_by_in4 {A} (key : A -> N) l (x : A) : In x (sort_by key l) <-> In x l.
Proof.
  split; intro H.
  - eapply Permutation_in; [apply sort_by_perm4 | exact H].
  - eapply Permutation_in; [apply Permutation_sym; apply sort_by_perm4 | exact H].
Qed.

(* --- association lists: keys ----------------------------------------------------------------- *)
Lemma aset_keys {V} (m : list (N * V)) k v :
  map fst (aset m k v) = if memb N.eqb k (map fst m) then map fst m else map fst m ++ [k].
Proof.
  induction m as [|[k0 v0] m IH]; cbn; [reflexivity|].
  destruct (k0 =? k) eqn:E; cbn.
  - apply N.eqb_eq in E. subst k0. rewrite N.eqb_refl. reflexivity.
  - rewrite IH. rewrite N.eqb_sym, E. cbn. unfold memb. destruct (existsb (N.eqb k) (map fst m)); reflexivity.
Qed.

Lemma aset_nodup {V} (m : list (N * V)) k v : NoDup (map fst m) -> NoDup (map fst (aset m k v)).
Proof.
  intro H. rewrite aset_keys. destruct (memb N.eqb k (map fst m)) eqn:E; [exact H|].
  apply memb_N_false in E.
  eapply Permutation_NoDup; [apply Permutation_cons_append|]. constructor; assumption.
Qed.

Lemma aget_in {V} (m : list (N * V)) k v : aget m k = Some v -> In (k, v) m.
Proof.
  induction m as [|[k0 v0] m IH]; cbn; [discriminate|].
  destruct (k0 =? k) eqn:E.
  - apply N.eqb_eq in E. subst k0. intro H. injection H as ->. left. reflexivity.
  - intro H. right. exact (IH H).
Qed.

Lemma in_aget {V} (m : list (N * V)) k v : NoDup (map fst m) -> In (k, v) m -> aget m k = Some v.
Proof.
  induction m as [|[k0 v0] m IH]; cbn; [intros _ []|].
  intros Hnd [Heq|Hin].
  - injection Heq as -> ->. rewrite N.eqb_refl. reflexivity.
  - inversion Hnd as [|? ? Hni Hnd']; subst. destruct (k0 =? k) eqn:E.
    + apply N.eqb_eq in E. subst k0. exfalso. apply Hni. apply (in_map fst) in Hin. exact Hin.
    + exact (IH Hnd' Hin).
Qed.

(* --- the committee length table of one slot ---------------------------------------------------- *)
Definition sizes_of (rows : list api_duty) (m : list (N * N)) : list (N * N) :=
  fold_left (fun m r => aset m (ad_comm r) (ad_len r)) rows m.

Lemma sizes_of_spec rows : forall m c n,
  (forall r, In r rows -> ad_comm r = c -> ad_len r = n) ->
  aget m c = Some n \/ (exists r, In r rows /\ ad_comm r = c) ->
  aget (sizes_of rows m) c = Some n.
Proof.
  induction rows as [|r rows IH]; cbn [sizes_of fold_left]; intros m c n Hall H.
  - destruct H as [H|[r [[] _]]]. exact H.
  - apply IH.
    + intros r' Hin. apply Hall. right. exact Hin.
    + rewrite aget_aset. destruct (ad_comm r =? c) eqn:E.
      * left. apply N.eqb_eq in E. rewrite (Hall r (or_introl eq_refl) E). reflexivity.
      * destruct H as [H|[r' [[->|Hin] Hc]]].
        -- left. exact H.
        -- rewrite Hc, N.eqb_refl in E. discriminate.
        -- right. exists r'. split; assumption.
Qed.

(* --- the fold of MergeDuties --------------------------------------------------------------------- *)
Definition rows_at (s : N) (l : list api_duty) : list api_duty := filter (fun r => ad_slot r =? s) l.

Definition duty_at (s : N) (l : list api_duty) : duty :=
  {| d_slot := s; d_vals := map ad_val (rows_at s l); d_comms := map ad_comm (rows_at s l);
     d_poss := map ad_pos (rows_at s l); d_sizes := sizes_of (rows_at s l) [] |}.

Definition has_slot (s : N) (l : list api_duty) : bool := existsb (fun r => ad_slot r =? s) l.

Definition fold_inv (acc : list (N * duty)) (seen : list api_duty) : Prop :=
  NoDup (map fst acc) /\
  forall s, aget acc s = if has_slot s seen then Some (duty_at s seen) else None.

Lemma has_slot_false s l : has_slot s l = false -> rows_at s l = [].
Proof.
  induction l as [|r l IH]; cbn; [reflexivity|].
  destruct (ad_slot r =? s); cbn; [discriminate | exact IH].
Qed.

Lemma rows_at_snoc s l r :
  rows_at s (l ++ [r]) = if ad_slot r =? s then rows_at s l ++ [r] else rows_at s l.
Proof.
  unfold rows_at. rewrite filter_app. cbn. destruct (ad_slot r =? s); [reflexivity | apply app_nil_r].
Qed.

Lemma has_slot_snoc s l r : has_slot s (l ++ [r]) = has_slot s l || (ad_slot r =? s).
Proof. unfold has_slot. rewrite existsb_app. cbn. rewrite orb_false_r. reflexivity. Qed.

Lemma add_row_inv acc seen r : fold_inv acc seen -> fold_inv (add_row acc r) (seen ++ [r]).
Proof.
  intros [Hnd Hget]. split; [apply aset_nodup; exact Hnd|].
  intro s. unfold add_row. rewrite aget_aset, has_slot_snoc.
  destruct (ad_slot r =? s) eqn:E.
  - apply N.eqb_eq in E. subst s. rewrite orb_true_r. f_equal.
    unfold duty_at. rewrite rows_at_snoc, N.eqb_refl, !map_app. cbn [map].
    unfold sizes_of at 1. rewrite fold_left_app. cbn [fold_left]. fold (sizes_of (rows_at (ad_slot r) seen) []).
    rewrite (Hget (ad_slot r)). destruct (has_slot (ad_slot r) seen) eqn:Hs.
    + reflexivity.
    + rewrite (has_slot_false _ _ Hs). reflexivity.
  - rewrite orb_false_r, (Hget s). unfold duty_at. rewrite rows_at_snoc, E. reflexivity.
Qed.

Lemma fold_rows_inv rows : forall acc seen,
  fold_inv acc seen -> fold_inv (fold_left add_row rows acc) (seen ++ rows).
Proof.
  induction rows as [|r rows IH]; intros acc seen H; cbn [fold_left].
  - rewrite app_nil_r. exact H.
  - replace (seen ++ r :: rows) with ((seen ++ [r]) ++ rows) by (rewrite <- app_assoc; reflexivity).
    apply IH. apply add_row_inv. exact H.
Qed.

Lemma fold_inv_init : fold_inv [] [].
Proof. split; [constructor | intro s; reflexivity]. Qed.

Lemma has_slot_true s l : has_slot s l = true <-> exists r, In r l /\ ad_slot r = s.
Proof.
  unfold has_slot. rewrite existsb_exists. split; intros [r [H1 H2]]; exists r; split; auto;
    [apply N.eqb_eq; exact H2 | apply N.eqb_eq; exact H2].
Qed.

(* the merged duties are the [duty_at] of the slots that occur, one per slot *)
Lemma in_merge_duties ds d :
  In d (merge_duties ds) <->
  has_slot (d_slot d) ds = true /\ d = duty_at (d_slot d) (sort_by ad_key ds).
Proof.
  unfold merge_duties. rewrite sort_by_in4.
  destruct (fold_rows_inv (sort_by ad_key ds) [] [] fold_inv_init) as [Hnd Hget]. cbn [app] in *.
  set (acc := fold_left add_row (sort_by ad_key ds) []) in *.
  assert (Hhas : forall s, has_slot s (sort_by ad_key ds) = has_slot s ds).
  { intro s. destruct (has_slot s ds) eqn:E.
    - apply has_slot_true in E as [r [Hin Hs]]. apply has_slot_true. exists r. split; [apply sort_by_in4; exact Hin | exact Hs].
    - destruct (has_slot s (sort_by ad_key ds)) eqn:E'; [|reflexivity].
      apply has_slot_true in E' as [r [Hin Hs]]. apply sort_by_in4 in Hin.
      assert (has_slot s ds = true) by (apply has_slot_true; exists r; auto). congruence. }
  split.
  - intro Hin. apply in_map_iff in Hin as [[s d'] [Hd Hin]]. cbn in Hd. subst d'.
    apply (in_aget _ _ _ Hnd) in Hin. rewrite Hget, Hhas in Hin.
    destruct (has_slot s ds) eqn:E; [|discriminate]. injection Hin as Hd.
    assert (Hs : d_slot d = s) by (rewrite <- Hd; reflexivity). rewrite Hs. split; [exact E | symmetry; exact Hd].
  - intros [Hs Hd]. apply in_map_iff. exists (d_slot d, d). split; [reflexivity|].
    apply aget_in. rewrite Hget, Hhas, Hs. f_equal. symmetry. exact Hd.
Qed.

Lemma merge_duties_slots_nodup ds : NoDup (map d_slot (merge_duties ds)).
Proof.
  unfold merge_duties.
  destruct (fold_rows_inv (sort_by ad_key ds) [] [] fold_inv_init) as [Hnd Hget]. cbn [app] in *.
  set (acc := fold_left add_row (sort_by ad_key ds) []) in *.
  eapply Permutation_NoDup; [apply Permutation_map; apply Permutation_sym; apply sort_by_perm4|].
  rewrite map_map.
  assert (E : map (fun x => d_slot (snd x)) acc = map fst acc).
  { apply map_ext_in. intros [s d] Hin. cbn. apply (in_aget _ _ _ Hnd) in Hin. rewrite Hget in Hin.
    destruct (has_slot s (sort_by ad_key ds)); [|discriminate]. injection Hin as <-. reflexivity. }
  rewrite E. exact Hnd.
Qed.

(* --- what the beacon node guarantees --------------------------------------------------------- *)
(* every position is inside its committee, and a committee of a slot has one length *)
Definition api_ok (ds : list api_duty) : Prop :=
  (forall r, In r ds -> ad_pos r < ad_len r) /\
  (forall r r', In r ds -> In r' ds -> ad_slot r = ad_slot r' -> ad_comm r = ad_comm r' -> ad_len r = ad_len r').

Lemma nth_error_map_inv {A B} (f : A -> B) l j y :
  nth_error (map f l) j = Some y -> exists x, nth_error l j = Some x /\ y = f x.
Proof.
  revert j. induction l as [|x l IH]; destruct j; cbn; intro H; try discriminate.
  - injection H as <-. eauto.
  - exact (IH _ H).
Qed.

Lemma in_rows_at s l r : In r (rows_at s l) <-> In r l /\ ad_slot r = s.
Proof. unfold rows_at. rewrite filter_In, N.eqb_eq. reflexivity. Qed.

(* the size the merged duty of slot s reports for the committee of one of its rows *)
Lemma duty_at_size ds s r :
  api_ok ds -> In r ds -> ad_slot r = s ->
  size_of (duty_at s (sort_by ad_key ds)) (ad_comm r) = ad_len r.
Proof.
  intros [_ Hcons] Hin Hs. unfold size_of. cbn [duty_at d_sizes].
  rewrite (sizes_of_spec _ [] (ad_comm r) (ad_len r)); [reflexivity| |].
  - intros r' Hr' Hc. apply in_rows_at in Hr' as [Hr' Hs']. apply sort_by_in4 in Hr'.
    apply Hcons; auto; congruence.
  - right. exists r. split; [|reflexivity]. apply in_rows_at. split; [apply sort_by_in4; exact Hin | exact Hs].
Qed.

(* a row of a merged duty is a row of the answer, for that slot, with that committee's length *)
Lemma merged_row ds d j v c p :
  api_ok ds -> In d (merge_duties ds) ->
  nth_error (d_vals d) j = Some v -> nth_error (d_comms d) j = Some c -> nth_error (d_poss d) j = Some p ->
  exists r, In r ds /\ ad_slot r = d_slot d /\ ad_val r = v /\ ad_comm r = c /\ ad_pos r = p /\
            size_of d c = ad_len r.
Proof.
  intros Hok Hin Hv Hc Hp. apply in_merge_duties in Hin as [_ Hd].
  set (s := d_slot d) in *. rewrite Hd in Hv, Hc, Hp. cbn [duty_at d_vals d_comms d_poss] in Hv, Hc, Hp.
  apply nth_error_map_inv in Hv as [r [Hr Hv]].
  apply nth_error_map_inv in Hc as [r1 [Hr1 Hc]].
  apply nth_error_map_inv in Hp as [r2 [Hr2 Hp]].
  rewrite Hr in Hr1, Hr2. injection Hr1 as <-. injection Hr2 as <-.
  apply nth_error_In in Hr. apply in_rows_at in Hr as [Hr Hs]. apply sort_by_in4 in Hr.
  exists r. repeat split; auto.
  rewrite Hd, Hc. apply duty_at_size; assumption.
Qed.

Lemma merged_wf ds d : api_ok ds -> In d (merge_duties ds) -> wf_duty d.
Proof.
  intros Hok Hin. pose proof Hin as Hin0. apply in_merge_duties in Hin as [_ Hd].
  split; [|split].
  - rewrite Hd. cbn. rewrite !map_length. reflexivity.
  - rewrite Hd. cbn. rewrite !map_length. reflexivity.
  - intros j c p Hc Hp.
    assert (Hlen : length (d_vals d) = length (d_comms d)) by (rewrite Hd; cbn; rewrite !map_length; reflexivity).
    assert (Hj : (j < length (d_vals d))%nat) by (rewrite Hlen; apply nth_error_Some; congruence).
    destruct (nth_error_defined (d_vals d) j Hj) as [v Hv].
    destruct (merged_row ds d j v c p Hok Hin0 Hv Hc Hp) as [r [Hr [_ [_ [_ [Hpos Hsz]]]]]].
    rewrite Hsz, <- Hpos. apply (proj1 Hok). exact Hr.
Qed.

(* every row of the answer is a row of the merged duty of its slot *)
Lemma merged_complete ds r :
  In r ds ->
  exists d j, In d (merge_duties ds) /\ d_slot d = ad_slot r /\
    nth_error (d_vals d) j = Some (ad_val r) /\ nth_error (d_comms d) j = Some (ad_comm r) /\
    nth_error (d_poss d) j = Some (ad_pos r).
Proof.
  intro Hin. set (s := ad_slot r).
  assert (Hr : In r (rows_at s (sort_by ad_key ds))) by (apply in_rows_at; split; [apply sort_by_in4; exact Hin | reflexivity]).
  apply In_nth_error in Hr as [j Hj].
  exists (duty_at s (sort_by ad_key ds)), j. split; [|split; [reflexivity|]].
  - apply in_merge_duties. cbn [duty_at d_slot]. split; [|reflexivity].
    apply has_slot_true. exists r. split; [exact Hin | reflexivity].
  - cbn [duty_at d_vals d_comms d_poss]. repeat split; apply map_nth_error; exact Hj.
Qed.

(* --- composed with the pure part of Attest ----------------------------------------------------- *)
(* the attestation carries the beacon node's row for that validator at that slot *)
Definition api_assignment_ok (ds : list api_duty) (sl : N) (a : adata) (x : att) : Prop :=
  exists r, In r ds /\ ad_slot r = sl /\ ad_val r = fst (at_sig x) /\
    at_len x = ad_len r /\ at_bits x = [ad_pos r] /\
    at_vote x = mkvote sl (ad_comm r) a /\ at_sig x = (fst (at_sig x), at_vote x).

Lemma assignment_ok_api ds d a x :
  api_ok ds -> In d (merge_duties ds) -> assignment_ok d a x -> api_assignment_ok ds (d_slot d) a x.
Proof.
  intros Hok Hin [j [c [p [Hv [Hc [Hp [Hlen [Hbits [Hvote Hsig]]]]]]]]].
  destruct (merged_row ds d j _ c p Hok Hin Hv Hc Hp) as [r [Hr [Hs [Hval [Hcomm [Hpos Hsz]]]]]].
  exists r. repeat split; auto; congruence.
Qed.

Lemma merged_assignment ds d claimed avail a unsigned x :
  api_ok ds -> In d (merge_duties ds) -> incl claimed (d_vals d) ->
  In x (attestations d a (sign_args d claimed avail) unsigned) ->
  let v := fst (at_sig x) in
  In v claimed /\ In v avail /\ ~ In v unsigned /\ api_assignment_ok ds (d_slot d) a x.
Proof.
  intros Hok Hin Hincl Hx.
  destruct (assignment d claimed avail a unsigned x (merged_wf ds d Hok Hin) Hincl Hx) as [H1 [H2 [H3 H4]]].
  repeat split; auto. apply assignment_ok_api; assumption.
Qed.
