(* C03: the hand-written model equals the gotrans transcription of the chain-time conversions
   (coq/Gen/Pure_C03.v, regenerated from the repository's source on every run).  When the Go source
   changes its meaning, a lemma here stops compiling and only C03's tie is affected. *)
From Coq Require Import ZArith NArith Lia Bool List.
From Coq Require Import ZifyBool ZifyN.
From Verif Require Import Lib.Base Lib.GoInt Proofs.TieLib Gen.Pure_C03.
From Verif Require Import Model.C03_ChainTime.
Local Open Scope Z_scope.

Lemma to_i64_is_i64 x : to_i64 x = i64 x.
Proof. unfold to_i64, i64, two64z, two63z, GoInt.two64, GoInt.two63. reflexivity. Qed.

Lemma tie_start_of_slot (p : ctparams) (slot : N) :
  C03_ChainTime.start_of_slot p slot = chaintime_StartOfSlot (ct_genesis p) (ct_dur p) (Z.of_N slot).
Proof.
  unfold C03_ChainTime.start_of_slot, chaintime_StartOfSlot.
  rewrite (to_i64_is_i64 (Z.of_N slot)). rewrite (to_i64_is_i64 (i64 (Z.of_N slot) * ct_dur p)). reflexivity.
Qed.

Lemma tie_first_slot_of_epoch (p : ctparams) (epoch : N) :
  Z.of_N (C03_ChainTime.first_slot_of_epoch p epoch) = chaintime_FirstSlotOfEpoch (Z.of_N (ct_spe p)) (Z.of_N epoch).
Proof. unfold C03_ChainTime.first_slot_of_epoch, chaintime_FirstSlotOfEpoch. apply of_N_mul64. Qed.

Lemma tie_start_of_epoch (p : ctparams) (epoch : N) :
  start_of_epoch p epoch = chaintime_StartOfEpoch (ct_genesis p) (ct_dur p) (Z.of_N (ct_spe p)) (Z.of_N epoch).
Proof.
  unfold start_of_epoch, chaintime_StartOfEpoch.
  rewrite (to_i64_is_i64 (Z.of_N (mul64 epoch (ct_spe p)))).
  rewrite (to_i64_is_i64 (i64 (Z.of_N (mul64 epoch (ct_spe p))) * ct_dur p)).
  rewrite of_N_mul64. reflexivity.
Qed.

Lemma tie_slot_to_epoch (p : ctparams) (slot : N) :
  Z.of_N (slot_to_epoch p slot) = chaintime_SlotToEpoch (Z.of_N (ct_spe p)) (Z.of_N slot).
Proof. unfold slot_to_epoch, chaintime_SlotToEpoch. apply N2Z.inj_div. Qed.

Lemma elapsed_seconds (d : Z) : 0 <= d < two63 ->
  u64 (i64 (Z.quot (sat64 d) 1000000000)) = d / 1000000000.
Proof.
  intro Hd. unfold two63 in Hd.
  rewrite sat64_id by (unfold in_i64, two63; lia).
  rewrite Z.quot_div_nonneg by lia.
  assert (Hq : 0 <= d / 1000000000 < 9223372036854775808).
  { split; [apply Z.div_pos; lia|]. apply Z.div_lt_upper_bound; lia. }
  rewrite i64_id by (unfold in_i64, two63; lia).
  apply u64_id. unfold in_u64, GoInt.two64. lia.
Qed.

(* The elapsed time fits a Duration (less than 292 years) and the slot duration is not negative:
   outside that range Go saturates / converts negative values, which the hand model does not carry.
   (A slot duration below one second divides by zero: Go panics, Z gives 0 on both sides; the
   service constructor obtains the duration from the chain specification.) *)

Lemma tie_current_slot (p : ctparams) (now : Z) :
  now - ct_genesis p < two63 -> 0 <= ct_dur p ->
  Z.of_N (current_slot p now) = chaintime_CurrentSlot (ct_genesis p) (ct_dur p) now.
Proof.
  intros Hn Hd. unfold current_slot, current_slot_with, chaintime_CurrentSlot.
  destruct (ct_genesis p >? now) eqn:E; [reflexivity|].
  assert (H0 : 0 <= now - ct_genesis p) by lia.
  rewrite elapsed_seconds by lia.
  unfold GoInt.whole_seconds, slot_secs, C03_ChainTime.whole_seconds, ns_per_s.
  rewrite (Z.quot_div_nonneg (ct_dur p)) by lia.
  apply Z2N.id. apply div_nonneg; apply div_nonneg; lia.
Qed.

Lemma tie_current_epoch (p : ctparams) (now : Z) :
  now - ct_genesis p < two63 -> 0 <= ct_dur p ->
  Z.of_N (current_epoch p now) = chaintime_CurrentEpoch (ct_genesis p) (ct_dur p) (Z.of_N (ct_spe p)) now.
Proof.
  intros Hn Hd. unfold current_epoch, current_epoch_with, chaintime_CurrentEpoch.
  destruct (ct_genesis p >? now) eqn:E; [reflexivity|].
  assert (H0 : 0 <= now - ct_genesis p) by lia.
  rewrite elapsed_seconds by lia.
  unfold GoInt.whole_seconds, slot_secs, C03_ChainTime.whole_seconds, ns_per_s.
  rewrite (Z.quot_div_nonneg (ct_dur p)) by lia.
  rewrite of_N_mul64. rewrite (Z2N.id (ct_dur p / 1000000000)) by (apply div_nonneg; lia).
  apply Z2N.id. apply div_nonneg; [apply div_nonneg; lia|].
  apply (proj1 (u64_range _)).
Qed.
