(* C07 lemmas, part 7: the float64 score of a block proposal.
   [round53 n] (Model/C07_Strategies.v) is the float64 nearest to the integer n, ties to even --
   what Float64() of math/big's Int returns for the exact sum of consensus and execution value.
   - it is the identity below 2^53;
   - it is monotone: a proposal worth at least as much never scores lower;
   - it is off by at most half the spacing 2^(log2 n - 52) of the float64 numbers around n;
   hence: the score order implies the order of the exact values, and a value that exceeds another
   by more than the spacing at its magnitude scores strictly higher. *)
From Verif Require Import Lib.Base Model.C07_Strategies.
From Coq Require Import ZifyBool ZifyN ZifyNat QArith.
Open Scope N_scope.

(* rounding away [s] low bits *)
Definition rnd (s n : N) : N :=
  let q := n / 2 ^ s in
  let r := n mod 2 ^ s in
  let h := 2 ^ (s - 1) in
  (if (h <? r) || ((r =? h) && N.odd q) then q + 1 else q) * 2 ^ s.

Lemma round53_unfold n : round53 n = if N.log2 n <? 53 then n else rnd (N.log2 n - 52) n.
Proof. reflexivity. Qed.

Lemma pow_split s : 1 <= s -> 2 ^ s = 2 * 2 ^ (s - 1).
Proof. intros H. replace s with (N.succ (s - 1)) at 1 by lia. apply N.pow_succ_r'. Qed.

Lemma pow2_pos s : 0 < 2 ^ s.
Proof. apply N.neq_0_lt_0. apply N.pow_nonzero. discriminate. Qed.

Lemma rnd_bounds s n : (n / 2 ^ s) * 2 ^ s <= rnd s n <= (n / 2 ^ s + 1) * 2 ^ s.
Proof.
  unfold rnd. generalize (n / 2 ^ s) as q. generalize (2 ^ s) as P. intros P q.
  destruct (_ || _); nia.
Qed.

Lemma rnd_err s n : 1 <= s -> rnd s n <= n + 2 ^ (s - 1) /\ n <= rnd s n + 2 ^ (s - 1).
Proof.
  intros Hs. unfold rnd.
  pose proof (pow_split s Hs) as HP. pose proof (pow2_pos s) as Hpos.
  pose proof (N.div_mod' n (2 ^ s)) as Hdm.
  pose proof (N.mod_lt n (2 ^ s) ltac:(lia)) as Hr.
  revert HP Hpos Hdm Hr.
  generalize (n / 2 ^ s) as q. generalize (n mod 2 ^ s) as r.
  generalize (2 ^ (s - 1)) as h. generalize (2 ^ s) as P. intros P h r q HP Hpos Hdm Hr.
  destruct (h <? r) eqn:E1; destruct (r =? h) eqn:E2; destruct (N.odd q); cbn [orb andb]; nia.
Qed.

Lemma rnd_mono s a b : 1 <= s -> a <= b -> rnd s a <= rnd s b.
Proof.
  intros Hs Hab.
  pose proof (pow2_pos s) as Hpos.
  pose proof (N.div_le_mono a b (2 ^ s) ltac:(lia) Hab) as Hq.
  destruct (N.eq_dec (a / 2 ^ s) (b / 2 ^ s)) as [Heq|Hne].
  - unfold rnd. rewrite <- Heq.
    pose proof (N.div_mod' a (2 ^ s)) as Ha. pose proof (N.div_mod' b (2 ^ s)) as Hb.
    rewrite <- Heq in Hb.
    revert Ha Hb Hpos.
    generalize (a / 2 ^ s) as q. generalize (a mod 2 ^ s) as ra. generalize (b mod 2 ^ s) as rb.
    generalize (2 ^ (s - 1)) as h. generalize (2 ^ s) as P. intros P h rb ra q Ha Hb Hpos.
    assert (Hr : ra <= rb) by nia.
    destruct (h <? ra) eqn:A1; destruct (ra =? h) eqn:A2; destruct (h <? rb) eqn:B1; destruct (rb =? h) eqn:B2;
      destruct (N.odd q); cbn [orb andb]; nia.
  - pose proof (rnd_bounds s a) as Ba. pose proof (rnd_bounds s b) as Bb.
    revert Ba Bb Hq Hne Hpos.
    generalize (rnd s a) as x. generalize (rnd s b) as y.
    generalize (a / 2 ^ s) as qa. generalize (b / 2 ^ s) as qb. generalize (2 ^ s) as P.
    intros P qb qa y x Ba Bb Hq Hne Hpos.
    assert (H1 : qa + 1 <= qb) by lia. nia.
Qed.

(* a number of k+1 bits, k >= 53, rounded to 53 bits stays within [2^k, 2^(k+1)] *)
Lemma rnd_range n : 53 <= N.log2 n -> 2 ^ N.log2 n <= rnd (N.log2 n - 52) n <= 2 ^ (N.log2 n + 1).
Proof.
  intros Hk.
  assert (Hn : 0 < n) by (destruct n; [cbn in Hk; lia | lia]).
  pose proof (N.log2_spec n Hn) as [Hlo Hhi].
  set (k := N.log2 n) in *. set (s := k - 52).
  assert (Ek : k = 52 + s) by (unfold s; lia).
  assert (E1 : 2 ^ k = 2 ^ 52 * 2 ^ s) by (rewrite Ek; apply N.pow_add_r).
  assert (E2 : 2 ^ (k + 1) = 2 * 2 ^ 52 * 2 ^ s).
  { replace (k + 1) with (N.succ k) by lia. rewrite N.pow_succ_r', E1. lia. }
  rewrite N.add_1_r in E2.
  pose proof (pow2_pos s) as Hpos.
  assert (Q1 : 2 ^ 52 <= n / 2 ^ s).
  { apply N.div_le_lower_bound; [lia|]. rewrite N.mul_comm. rewrite <- E1. exact Hlo. }
  assert (Q2 : n / 2 ^ s < 2 * 2 ^ 52).
  { apply N.div_lt_upper_bound; [lia|]. rewrite N.mul_comm. rewrite <- E2. exact Hhi. }
  pose proof (rnd_bounds s n) as B.
  rewrite N.add_1_r, E1, E2.
  revert Q1 Q2 B Hpos. generalize (rnd s n) as x. generalize (n / 2 ^ s) as q.
  generalize (2 ^ s) as P. generalize (2 ^ 52) as A. intros A P q x Q1 Q2 B Hpos. nia.
Qed.

Lemma round53_small n : n < 2 ^ 53 -> round53 n = n.
Proof.
  intros H. rewrite round53_unfold.
  destruct (N.log2 n <? 53) eqn:E; [reflexivity|]. exfalso.
  assert (Hk : 53 <= N.log2 n) by lia.
  assert (Hn : 0 < n) by (destruct n; [cbn in Hk; lia | lia]).
  pose proof (N.log2_spec n Hn) as [Hlo _].
  pose proof (N.pow_le_mono_r 2 53 (N.log2 n) ltac:(discriminate) Hk). lia.
Qed.

Lemma round53_mono a b : a <= b -> round53 a <= round53 b.
Proof.
  intros Hab. rewrite !round53_unfold.
  pose proof (N.log2_le_mono a b Hab) as Hl.
  destruct (N.log2 a <? 53) eqn:Ea; destruct (N.log2 b <? 53) eqn:Eb; try lia.
  - (* a below 2^53, b not *)
    assert (Hkb : 53 <= N.log2 b) by lia.
    pose proof (rnd_range b Hkb) as [Rb _].
    destruct (N.eq_dec a 0) as [->|Ha0]; [lia|].
    pose proof (N.log2_spec a ltac:(lia)) as [_ Hhi].
    pose proof (N.pow_le_mono_r 2 (N.succ (N.log2 a)) (N.log2 b) ltac:(discriminate) ltac:(lia)). lia.
  - assert (Hka : 53 <= N.log2 a) by lia. assert (Hkb : 53 <= N.log2 b) by lia.
    destruct (N.eq_dec (N.log2 a) (N.log2 b)) as [Heq|Hne].
    + rewrite Heq. apply rnd_mono; [lia|exact Hab].
    + pose proof (rnd_range a Hka) as [_ Ra]. pose proof (rnd_range b Hkb) as [Rb _].
      pose proof (N.pow_le_mono_r 2 (N.log2 a + 1) (N.log2 b) ltac:(discriminate) ltac:(lia)). lia.
Qed.

(* the spacing of the float64 numbers at the magnitude of n (1 below 2^53) *)
Definition spacing (n : N) : N := 2 ^ (N.log2 n - 52).

Lemma round53_err n : 53 <= N.log2 n -> 2 * round53 n <= 2 * n + spacing n /\ 2 * n <= 2 * round53 n + spacing n.
Proof.
  intros Hk. rewrite round53_unfold. destruct (N.log2 n <? 53) eqn:E; [lia|].
  unfold spacing. pose proof (rnd_err (N.log2 n - 52) n ltac:(lia)) as [H1 H2].
  pose proof (pow_split (N.log2 n - 52) ltac:(lia)). lia.
Qed.

Lemma spacing_mono a b : a <= b -> spacing a <= spacing b.
Proof.
  intros H. unfold spacing. apply N.pow_le_mono_r; [discriminate|].
  pose proof (N.log2_le_mono a b H). lia.
Qed.

(* a value exceeding another by more than the spacing at its magnitude rounds strictly higher *)
Lemma round53_separates a b : b + spacing a < a -> round53 b < round53 a.
Proof.
  intros H. assert (Hba : b <= a) by lia.
  destruct (N.log2 a <? 53) eqn:Ea.
  - assert (a < 2 ^ 53).
    { destruct (N.eq_dec a 0) as [->|Ha0]; [cbn; lia|].
      pose proof (N.log2_spec a ltac:(lia)) as [_ Hhi].
      pose proof (N.pow_le_mono_r 2 (N.succ (N.log2 a)) 53 ltac:(discriminate) ltac:(lia)). lia. }
    rewrite (round53_small a) by assumption. rewrite (round53_small b) by lia. lia.
  - assert (Hka : 53 <= N.log2 a) by lia.
    pose proof (round53_err a Hka) as [_ A2].
    destruct (N.log2 b <? 53) eqn:Eb.
    + assert (Hb : round53 b = b) by (rewrite round53_unfold, Eb; reflexivity).
      rewrite Hb. pose proof (pow2_pos (N.log2 a - 52)). unfold spacing in *. lia.
    + pose proof (round53_err b ltac:(lia)) as [B1 _].
      pose proof (spacing_mono b a Hba). lia.
Qed.

(* ------------------------------------------------------------------------------------------- *)
(* the score of a proposal *)

Lemma sgt_qN x y : sgt (SFin (qN x)) (SFin (qN y)) = true <-> y < x.
Proof.
  unfold sgt, qN. rewrite negb_true_iff. split.
  - intro H. destruct (N.lt_ge_cases y x) as [L|G]; [exact L|]. exfalso.
    assert (Q : (inject_Z (Z.of_N x) <= inject_Z (Z.of_N y))%Q) by (rewrite <- Zle_Qle; lia).
    apply Qle_bool_iff in Q. congruence.
  - intro H. destruct (Qle_bool _ _) eqn:E; [|reflexivity]. exfalso.
    apply Qle_bool_iff in E. rewrite <- Zle_Qle in E. lia.
Qed.

Definition prop_score (pr : params) (cv ev : N) : score := score_of PropBest pr (RProp 5 1 cv ev).

Lemma prop_score_any pr ver fee cv ev : score_of PropBest pr (RProp ver fee cv ev) = SFin (qN (round53 (cv + ev))).
Proof. reflexivity. Qed.

Lemma prop_score_gt_exact pr v1 f1 c1 e1 v2 f2 c2 e2 :
  sgt (score_of PropBest pr (RProp v1 f1 c1 e1)) (score_of PropBest pr (RProp v2 f2 c2 e2)) = true ->
  c2 + e2 < c1 + e1.
Proof.
  rewrite !prop_score_any, sgt_qN. intro H.
  destruct (N.lt_ge_cases (c2 + e2) (c1 + e1)) as [L|G]; [exact L|].
  pose proof (round53_mono _ _ G). lia.
Qed.

Lemma prop_score_separated pr v1 f1 c1 e1 v2 f2 c2 e2 :
  c2 + e2 + spacing (c1 + e1) < c1 + e1 ->
  sgt (score_of PropBest pr (RProp v1 f1 c1 e1)) (score_of PropBest pr (RProp v2 f2 c2 e2)) = true.
Proof. rewrite !prop_score_any, sgt_qN. apply round53_separates. Qed.

Lemma prop_score_exact_below_2_53 pr v1 f1 c1 e1 v2 f2 c2 e2 :
  c1 + e1 < 2 ^ 53 -> c2 + e2 < 2 ^ 53 ->
  (sgt (score_of PropBest pr (RProp v1 f1 c1 e1)) (score_of PropBest pr (RProp v2 f2 c2 e2)) = true
   <-> c2 + e2 < c1 + e1).
Proof. intros H1 H2. rewrite !prop_score_any, sgt_qN, !round53_small by assumption. tauto. Qed.
