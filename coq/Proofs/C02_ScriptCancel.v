(* C02 -- "a job cancelled clearly before its time never runs", for EVERY one-off script, whatever
   its length: if a CancelJob call issued at an instant before the job's time returned nil, the
   job has no start in any final state.  Needs (1) that a call returns within its instant or never
   (so the nil was returned before the job's time): converse slot invariants with uniqueness of
   the claimer; (2) an induction over the instants with an invariant that depends on the instant. *)
From Coq Require Import PArith FMapPositive.
From Verif Require Import Lib.Base Lib.Sched Lib.Reach Model.C02_Scheduler Model.C02_Script.
From Verif Require Import Proofs.C02 Proofs.C02_Script Proofs.C02_ScriptExact Proofs.C02_ScriptMore.
From Coq Require Import ZifyBool ZifyN ZifyNat.

Lemma step_table_mono : forall cf c a c', step cf c a = Some c' -> in_table c' = true -> in_table c = true.
Proof.
  intros cf c a c' H.
  destruct a; cbn [step] in H;
    unfold g_pick, g_step, g_return, g_rt, run_lookup, r_enter, r_step, r_reset, cancel_lookup, c_step,
           call_job, return_job, finalise in H;
    break_hyp H; injection H as <-;
    cbn [in_table set_g set_r set_c set_table set_active set_finalised set_runq set_cancelq
         set_timer set_ctx set_counts set_run_ok set_cancel_ok set_panic];
    intros; try assumption; try reflexivity; try congruence.
Qed.

Lemma cpath_table_mono : forall cf c c', cpath cf c c' -> in_table c' = true -> in_table c = true.
Proof.
  intros cf c c' H; induction H as [c | c a c1 c2 Ha Hs Hp IH]; [tauto|].
  intro Ht. eapply step_table_mono; eauto.
Qed.

Lemma run_lookup_claim : forall cf c c', k_kind cf = OneOff -> in_table c = true ->
    step cf c RunLookup = Some c' -> in_table c' = false /\ c_pc c' = c_pc c.
Proof.
  intros cf c c' Hk Ht H. cbn [step] in H. unfold run_lookup in H. rewrite Ht, Hk in H.
  destruct (r_pc c); try discriminate H. destruct (c_pc c) eqn:Ec; try discriminate H.
  injection H as <-. cbn. rewrite Ec. auto.
Qed.

Lemma cancel_lookup_claim : forall cf c c', in_table c = true ->
    step cf c CancelLookup = Some c' -> in_table c' = false /\ c_pc c' = CHave /\ r_pc c' = r_pc c.
Proof.
  intros cf c c' Ht H. cbn [step] in H. unfold cancel_lookup in H. rewrite Ht in H.
  destruct (c_pc c); try discriminate H. injection H as <-. cbn. auto.
Qed.

Lemma cstep_pc : forall cf c c', step cf c CStep = Some c' ->
    c_active (c_pc c') = true \/ exists code, c_pc c' = CDone code.
Proof.
  intros cf c c' H. cbn [step] in H. unfold c_step in H. break_hyp H; injection H as <-; cbn; eauto.
Qed.

Definition is_claim (k : ckind) : bool := match k with KRun | KCancel => true | _ => false end.

(* ---------------------------------------------------------------------------------------------
   what a call move does, as far as the claim of the job is concerned *)
Section Summary.
  Variable sc : script.
  Hypothesis Hk : sc_kind sc = OneOff.

  Lemma cfg_kind : k_kind (sc_cfg sc) = OneOff.
  Proof. unfold sc_cfg; cbn; exact Hk. Qed.

  Lemma call_moves_summary : forall now t i cl st t', In t' (call_moves sc now t i cl st) ->
      st <> HasPtr ->
      exists st' c', t' = with_call t i st' c'
        /\ (st = Waiting \/ st = InSlot)
        /\ (st = Waiting -> cl_at cl <= now)
        /\ cpath (sc_cfg sc) (t_core t) c'
        /\ (st' = InSlot -> st = InSlot \/ (st = Waiting /\ in_table (t_core t) = true /\ in_table c' = false))
        /\ (c_pc c' = c_pc (t_core t) \/ (cl_kind cl = KCancel /\ (st = InSlot \/ (st = Waiting /\ in_table (t_core t) = true))))
        /\ (st' = InSlot -> cl_kind cl = KCancel -> c_active (c_pc c') = true).
  Proof.
    intros now t i cl st t' H Hnp. unfold call_moves in H. rewrite Hk in H.
    destruct st; try (destruct H; fail); try congruence.
    - (* Waiting *)
      destruct (cl_at cl <=? now) eqn:Eat; [|destruct H]. apply N.leb_le in Eat.
      assert (Hsame : forall st', st' <> InSlot ->
                exists st'' c', with_call t i st' (t_core t) = with_call t i st'' c'
                  /\ (Waiting = Waiting \/ Waiting = InSlot) /\ (Waiting = Waiting -> cl_at cl <= now)
                  /\ cpath (sc_cfg sc) (t_core t) c'
                  /\ (st'' = InSlot -> Waiting = InSlot \/ (Waiting = Waiting /\ in_table (t_core t) = true /\ in_table c' = false))
                  /\ (c_pc c' = c_pc (t_core t) \/ (cl_kind cl = KCancel /\ (Waiting = InSlot \/ (Waiting = Waiting /\ in_table (t_core t) = true))))
                  /\ (st'' = InSlot -> cl_kind cl = KCancel -> c_active (c_pc c') = true)).
      { intros st' Hne. exists st', (t_core t). repeat split; auto; try discriminate; try apply cp_refl; intro; congruence. }
      destruct (cl_kind cl) eqn:Ekind.
      + destruct (in_table (t_core t)) eqn:Et.
        * destruct (step (sc_cfg sc) (t_core t) RunLookup) as [c'|] eqn:E; [|destruct H].
          destruct H as [<-|[]]. destruct (run_lookup_claim _ _ _ cfg_kind Et E) as [H1 H2].
          exists InSlot, c'. repeat split; auto; try discriminate;
            try exact (cpath_one _ _ RunLookup _ eq_refl E); intros; congruence.
        * destruct H as [<-|[]]. apply Hsame; discriminate.
      + destruct (in_table (t_core t)) eqn:Et.
        * destruct (step (sc_cfg sc) (t_core t) CancelLookup) as [c'|] eqn:E; [|destruct H].
          destruct H as [<-|[]]. destruct (cancel_lookup_claim _ _ _ Et E) as [H1 [H2 H3]].
          exists InSlot, c'. repeat split; auto; try discriminate;
            try exact (cpath_one _ _ CancelLookup _ eq_refl E); intros; rewrite H2; reflexivity.
        * destruct H as [<-|[]]. apply Hsame; discriminate.
      + destruct H as [<-|[]].
        destruct (step (sc_cfg sc) (t_core t) CtxCancel) as [c'|] eqn:E; [|apply Hsame; discriminate].
        exists (Ret Nil), c'. repeat split; auto; try discriminate;
          try exact (cpath_one _ _ CtxCancel _ eq_refl E); left; exact (step_cpc _ _ _ _ E eq_refl).
      + destruct H as [<-|[]]. apply Hsame; discriminate.
      + destruct H as [<-|[]]. apply Hsame; discriminate.
    - (* InSlot *)
      destruct (cl_kind cl) eqn:Ekind; try (destruct H; fail).
      + set (next := match r_pc (t_core t) with RHave => step (sc_cfg sc) (t_core t) REnter | _ => step (sc_cfg sc) (t_core t) RStep end) in H.
        destruct next as [c'|] eqn:E; [|destruct H].
        assert (Hn : exists a, (a = RStep \/ a = REnter) /\ step (sc_cfg sc) (t_core t) a = Some c').
        { subst next. destruct (r_pc (t_core t)); [exists RStep | exists REnter | exists RStep | exists RStep | exists RStep | exists RStep | exists RStep];
            (split; [auto | exact E]). }
        destruct Hn as [a [Ha Hs]].
        assert (Hca : call_act a = true) by (destruct Ha as [-> | ->]; reflexivity).
        assert (Hcc : c_act a = false) by (destruct Ha as [-> | ->]; reflexivity).
        assert (Hgen : forall st'' c'', cpath (sc_cfg sc) (t_core t) c'' -> c_pc c'' = c_pc (t_core t) ->
                  exists st' c0, with_call t i st'' c'' = with_call t i st' c0
                    /\ (InSlot = Waiting \/ InSlot = InSlot) /\ (InSlot = Waiting -> cl_at cl <= now)
                    /\ cpath (sc_cfg sc) (t_core t) c0
                    /\ (st' = InSlot -> InSlot = InSlot \/ (InSlot = Waiting /\ in_table (t_core t) = true /\ in_table c0 = false))
                    /\ (c_pc c0 = c_pc (t_core t) \/ (KRun = KCancel /\ (InSlot = InSlot \/ (InSlot = Waiting /\ in_table (t_core t) = true))))
                    /\ (st' = InSlot -> KRun = KCancel -> c_active (c_pc c0) = true)).
        { intros st'' c'' Hp Hc. exists st'', c''. repeat split; auto; try discriminate; intros; congruence. }
        destruct (r_pc c') as [| | | | | |code] eqn:Er;
          try (destruct H as [<-|[]]; apply Hgen; [exact (cpath_one _ _ a _ Hca Hs) | exact (step_cpc _ _ _ _ Hs Hcc)]).
        destruct H as [<-|[]].
        destruct (step (sc_cfg sc) c' RReset) as [c''|] eqn:E2.
        * apply Hgen.
          -- eapply cp_step; [exact Hca | exact Hs | exact (cpath_one _ _ RReset _ eq_refl E2)].
          -- rewrite (step_cpc _ _ _ _ E2 eq_refl). exact (step_cpc _ _ _ _ Hs Hcc).
        * apply Hgen; [exact (cpath_one _ _ a _ Hca Hs) | exact (step_cpc _ _ _ _ Hs Hcc)].
      + destruct (step (sc_cfg sc) (t_core t) CStep) as [c'|] eqn:E; [|destruct H].
        destruct (cstep_pc _ _ _ E) as [Hact | [code Hdone]].
        * assert (Hst : t' = with_call t i InSlot c').
          { destruct (c_pc c') eqn:Ec; try discriminate Hact; destruct H as [<-|[]]; reflexivity. }
          exists InSlot, c'. repeat split; auto; try discriminate;
            exact (cpath_one _ _ CStep _ eq_refl E).
        * rewrite Hdone in H. destruct H as [<-|[]].
          exists (Ret code), c'. repeat split; auto; try discriminate;
            exact (cpath_one _ _ CStep _ eq_refl E).
  Qed.
End Summary.

(* ---------------------------------------------------------------------------------------------
   more reflective facts on the repaired one-off job *)

(* while the name is in the table nobody has claimed the job *)
Definition p_tab (s : jstate) : bool := negb (in_table s) || cpc_eqb (c_pc s) CNone.
Lemma tab_F : forallb p_tab R_F = true. Proof. vm_compute; reflexivity. Qed.

(* a CancelJob call in its critical path is never stuck alone: it can step, or the RunJob call
   that holds the lock can *)
Definition is_some {X} (o : option X) : bool := match o with Some _ => true | None => false end.
Definition p_cblock (s : jstate) : bool :=
  negb (c_active (c_pc s)) || is_some (step cfF s CStep) || is_some (step cfF s RStep) || is_some (step cfF s REnter).
Lemma cblock_F : forallb p_cblock R_F = true. Proof. vm_compute; reflexivity. Qed.

(* R_cbd is closed: moves stay inside *)
Lemma msteps_in_cbd : forall x y, msteps cfF x y -> In (fst x) R_cbd -> In (fst y) R_cbd.
Proof.
  intros x y H; induction H as [x | c st a c' st' y Hs Hst Hrest IH]; intro Hx; [exact Hx|].
  apply IH. cbn [fst] in *.
  exact (closed_step (step cfF) all_acts jstate_eqb jkey jstate_eqb_sound R_cbd R_cbd_closed c a c' Hx (all_acts_complete a) Hs).
Qed.

(* ---------------------------------------------------------------------------------------------
   induction over the instants with an invariant that depends on the instant *)

Lemma fold_inv_time : forall {T} (f : list T -> N -> list T) (P : N -> T -> Prop) n from ts,
    (forall now ts, from <= now < from + N.of_nat n -> (forall t, In t ts -> P now t) ->
                    forall t, In t (f ts now) -> P (now + 1) t) ->
    (forall t, In t ts -> P from t) ->
    forall t, In t (fold_left f (instants n from) ts) -> P (from + N.of_nat n) t.
Proof.
  intros T f P n; induction n as [|n IH]; intros from ts Hf Hts t Ht.
  - cbn in Ht. rewrite N.add_0_r. apply Hts; exact Ht.
  - change (fold_left f (instants (Datatypes.S n) from) ts) with (fold_left f (instants n (from + 1)) (f ts from)) in Ht.
    replace (from + N.of_nat (Datatypes.S n)) with ((from + 1) + N.of_nat n) by lia.
    eapply IH; [ | | exact Ht].
    + intros now ts' Hn. apply Hf. lia.
    + apply Hf; [lia | exact Hts].
Qed.

(* ---------------------------------------------------------------------------------------------
   uniqueness of the claimer, and: a CancelJob call whose status is InSlot is in its critical path *)

Section Cancel.
  Variable sc : script.
  Hypothesis Hk : sc_kind sc = OneOff.
  Hypothesis Hv : sc_variant sc = Fixed.

  Record winv (t : tstate) : Prop := {
    w1 : in_table (t_core t) = true -> forall i cl, nth_error (sc_calls sc) i = Some cl ->
           is_claim (cl_kind cl) = true -> nth_error (t_calls t) i <> Some InSlot;
    w2 : forall i j cli clj, nth_error (sc_calls sc) i = Some cli -> nth_error (sc_calls sc) j = Some clj ->
           is_claim (cl_kind cli) = true -> is_claim (cl_kind clj) = true ->
           nth_error (t_calls t) i = Some InSlot -> nth_error (t_calls t) j = Some InSlot -> i = j;
    w3 : forall i cl, nth_error (sc_calls sc) i = Some cl -> cl_kind cl = KCancel ->
           nth_error (t_calls t) i = Some InSlot -> c_active (c_pc (t_core t)) = true
  }.

  Lemma nth_with_call : forall t i st st' c' j, nth_error (t_calls t) i = Some st ->
      nth_error (t_calls (with_call t i st' c')) j = if Nat.eqb i j then Some st' else nth_error (t_calls t) j.
  Proof.
    intros t i st st' c' j Hi. rewrite with_call_calls.
    assert (Hlt : (i < length (t_calls t))%nat) by (apply nth_error_Some; congruence).
    destruct (Nat.eqb i j) eqn:E.
    - apply Nat.eqb_eq in E; subst j. apply upd_nth_same; exact Hlt.
    - apply Nat.eqb_neq in E. apply upd_nth_other; assumption.
  Qed.

  Lemma winv_call_move : forall now t i cl st t',
      winv t -> kinv sc t -> nth_error (sc_calls sc) i = Some cl -> nth_error (t_calls t) i = Some st ->
      In t' (call_moves sc now t i cl st) -> winv t'.
  Proof.
    intros now t i cl st t' W K Hcl Hst H.
    assert (Hnp : st <> HasPtr) by (intros ->; exact (k_noptr sc t K i Hst)).
    destruct (call_moves_summary sc Hk now t i cl st t' H Hnp) as [st' [c' [-> [Hpend [_ [Hp [S2 [S3 S4]]]]]]]].
    pose proof (cpath_table_mono _ _ _ Hp) as Hmono.
    constructor; cbn [t_core with_call].
    - (* w1 *)
      intros Ht j clj Hj Hcj Hin. rewrite (nth_with_call t i st st' c' j Hst) in Hin.
      destruct (Nat.eqb i j) eqn:E.
      + apply Nat.eqb_eq in E; subst j. injection Hin as ->.
        destruct (S2 eq_refl) as [-> | [_ [_ Hf]]]; [|congruence].
        exact (w1 t W (Hmono Ht) i clj Hj Hcj Hst).
      + exact (w1 t W (Hmono Ht) j clj Hj Hcj Hin).
    - (* w2 *)
      intros j1 j2 c1 c2 H1 H2 K1 K2 I1 I2.
      rewrite (nth_with_call t i st st' c' j1 Hst) in I1. rewrite (nth_with_call t i st st' c' j2 Hst) in I2.
      destruct (Nat.eqb i j1) eqn:E1; destruct (Nat.eqb i j2) eqn:E2.
      + apply Nat.eqb_eq in E1, E2; congruence.
      + apply Nat.eqb_eq in E1; subst j1. injection I1 as ->.
        destruct (S2 eq_refl) as [-> | [_ [Ht _]]].
        * exact (w2 t W i j2 c1 c2 H1 H2 K1 K2 Hst I2).
        * exfalso. exact (w1 t W Ht j2 c2 H2 K2 I2).
      + apply Nat.eqb_eq in E2; subst j2. injection I2 as ->.
        destruct (S2 eq_refl) as [-> | [_ [Ht _]]].
        * exact (w2 t W j1 i c1 c2 H1 H2 K1 K2 I1 Hst).
        * exfalso. exact (w1 t W Ht j1 c1 H1 K1 I1).
      + exact (w2 t W j1 j2 c1 c2 H1 H2 K1 K2 I1 I2).
    - (* w3 *)
      intros j clj Hj Hkj Hin. rewrite (nth_with_call t i st st' c' j Hst) in Hin.
      destruct (Nat.eqb i j) eqn:E.
      + apply Nat.eqb_eq in E; subst j. injection Hin as ->.
        rewrite Hcl in Hj; injection Hj as <-. exact (S4 eq_refl Hkj).
      + apply Nat.eqb_neq in E.
        pose proof (w3 t W j clj Hj Hkj Hin) as Hact.
        destruct S3 as [-> | [Hki [-> | [_ Ht]]]]; [exact Hact | | ].
        * exfalso. apply E.
          refine (w2 t W i j cl clj Hcl Hj _ _ Hst Hin); [rewrite Hki | rewrite Hkj]; reflexivity.
        * exfalso. refine (w1 t W Ht j clj Hj _ Hin). rewrite Hkj; reflexivity.
  Qed.

  Lemma winv_g_move : forall now t t', winv t -> In t' (g_moves sc now t) -> winv t'.
  Proof.
    intros now t t' W H. destruct (g_moves_shape sc now t t' H) as [Hc [_ [a [Hga Hs]]]].
    destruct (g_act_rc a Hga) as [_ Hca].
    constructor.
    - intros Ht i cl Hi Hki. rewrite Hc. exact (w1 t W (step_table_mono _ _ _ _ Hs Ht) i cl Hi Hki).
    - intros i j ci cj. rewrite Hc. exact (w2 t W i j ci cj).
    - intros i cl Hi Hki Hin. rewrite Hc in Hin. rewrite (step_cpc _ _ _ _ Hs Hca). exact (w3 t W i cl Hi Hki Hin).
  Qed.

  Lemma cinv_move : forall now t t', cinv sc t -> In t' (moves sc now t) -> cinv sc t'.
  Proof.
    intros now x x' [Cr Cc] Hm. unfold moves in Hm. apply in_app_or in Hm as [Hm|Hm].
    - destruct (g_moves_shape sc now x x' Hm) as [Hc [_ [a [Hga Hs]]]].
      destruct (step_flags_mono _ _ _ _ Hs) as [M1 [M2 [M3 _]]].
      split; intros j cl H1 H2 H3; rewrite Hc in H3.
      + destruct (Cr j cl H1 H2 H3); auto.
      + destruct (Cc j cl H1 H2 H3); auto.
    - apply all_call_moves_in in Hm as [k [cl [st [H1 [H2 H3]]]]].
      eapply cinv_call_move; [split; [exact Cr | exact Cc] | exact H1 | exact H2 | exact H3].
  Qed.

  Lemma full_inv_move : forall now t t', full_inv sc t -> In t' (moves sc now t) -> full_inv sc t'.
  Proof.
    intros now x x' [Hs K] Hm. split.
    - pose proof (moves_rel _ _ _ _ Hm) as Hr. unfold move_rel in Hr. exact (msteps_inv _ _ _ Hr Hs).
    - unfold moves in Hm. apply in_app_or in Hm as [Hm|Hm].
      + eapply g_moves_kinv; [exact K | apply (core_in_RF sc Hk Hv); exact Hs | exact Hm].
      + apply all_call_moves_in in Hm as [k [cl [st [H1 [H2 H3]]]]].
        eapply (call_moves_kinv sc Hk); [exact K | exact H1 | exact H2 | exact H3].
  Qed.

  Lemma full_inv_init : full_inv sc (t_init sc).
  Proof.
    split.
    - split; [exists []; reflexivity | reflexivity].
    - constructor; cbn [t_init t_calls t_deadline t_core].
      + apply map_length.
      + rewrite Hk; reflexivity.
      + unfold init; cbn. discriminate.
      + unfold init; cbn. discriminate.
      + intro i. rewrite nth_error_map. destruct (nth_error (sc_calls sc) i); discriminate.
  Qed.

  (* the CancelJob call we follow *)
  Variable i0 : nat.
  Variable cl0 : call.
  Hypothesis Hi0 : nth_error (sc_calls sc) i0 = Some cl0.
  Hypothesis Hk0 : cl_kind cl0 = KCancel.
  Hypothesis Hbefore : cl_at cl0 < sc_due sc.

  Definition pending (o : option cst) : Prop := o = Some Waiting \/ o = Some InSlot.

  Record tinv (now : N) (t : tstate) : Prop := {
    ti_full : full_inv sc t;
    ti_w : winv t;
    ti_c : cinv sc t;
    ti_timer : now < sc_due sc -> timer_due (t_core t) = false;
    ti_nil : nth_error (t_calls t) i0 = Some (Ret Nil) ->
             cancel_ok (t_core t) = true
             /\ ((now < sc_due sc /\ timer_due (t_core t) = false) \/ In (t_core t) R_cbd);
    ti_done : cl_at cl0 < now -> ~ pending (nth_error (t_calls t) i0)
  }.

  Lemma core_cfF : forall t, t_core t = t_core t -> sc_cfg sc = cfF.
  Proof. intros; exact (cfg_F sc Hk Hv). Qed.

  Lemma tinv_move : forall now t t', tinv now t -> In t' (moves sc now t) -> tinv now t'.
  Proof.
    intros now t t' I Hm.
    pose proof (full_inv_move now t t' (ti_full now t I) Hm) as Hfull'.
    pose proof (ti_full now t I) as [Hs K].
    assert (HR' : In (t_core t') R_F) by (apply (core_in_RF sc Hk Hv); exact (proj1 Hfull')).
    assert (Hc' : cinv sc t') by (exact (cinv_move now t t' (ti_c now t I) Hm)).
    assert (Hrel : msteps cfF (t_core t, t_starts t) (t_core t', t_starts t')).
    { pose proof (moves_rel _ _ _ _ Hm) as Hr. unfold move_rel in Hr. rewrite (cfg_F sc Hk Hv) in Hr. exact Hr. }
    (* how the flags and the status of i0 change *)
    assert (Hshape : (cancel_ok (t_core t) = true -> cancel_ok (t_core t') = true)
                     /\ (now < sc_due sc -> timer_due (t_core t') = true -> timer_due (t_core t) = true)
                     /\ (nth_error (t_calls t') i0 = nth_error (t_calls t) i0
                         \/ (pending (nth_error (t_calls t) i0)))).
    { unfold moves in Hm. apply in_app_or in Hm as [Hm|Hm].
      - destruct (g_moves_shape sc now t t' Hm) as [Hc [_ [a [Hga Hst]]]].
        destruct (step_flags_mono _ _ _ _ Hst) as [_ [M2 _]].
        split; [exact M2|]. split; [|left; rewrite Hc; reflexivity].
        intros Hlt Ht'.
        assert (Hdl : (t_deadline t <=? now) = false) by (rewrite (k_dl sc t K); apply N.leb_gt; exact Hlt).
        destruct (g_moves_before sc now t t' Hdl Hm) as [b [Hb Hsb]].
        destruct (step_flags_mono _ _ _ _ Hsb) as [_ [_ [_ M4]]]. exact (M4 Hb Ht').
      - apply all_call_moves_in in Hm as [k [cl [st [H1 [H2 H3]]]]].
        assert (Hnp : st <> HasPtr) by (intros ->; exact (k_noptr sc t K k H2)).
        destruct (call_moves_summary sc Hk now t k cl st t' H3 Hnp) as [st' [c' [-> [Hpend [_ [Hp _]]]]]].
        destruct (cpath_mono _ _ _ Hp) as [_ [M2 [_ M4]]].
        split; [exact M2|]. split; [intros _; exact M4|].
        rewrite (nth_with_call t k st st' c' i0 H2).
        destruct (Nat.eqb k i0) eqn:E; [|left; reflexivity].
        apply Nat.eqb_eq in E; subst k. right. unfold pending. rewrite H2. destruct Hpend as [-> | ->]; auto. }
    destruct Hshape as [Mc [Mt Hst]].
    constructor.
    - exact Hfull'.
    - unfold moves in Hm. apply in_app_or in Hm as [Hm|Hm].
      + exact (winv_g_move now t t' (ti_w now t I) Hm).
      + apply all_call_moves_in in Hm as [k [cl [st [H1 [H2 H3]]]]].
        exact (winv_call_move now t k cl st t' (ti_w now t I) K H1 H2 H3).
    - exact Hc'.
    - intros Hlt. destruct (timer_due (t_core t')) eqn:E; [|reflexivity].
      pose proof (Mt Hlt eq_refl) as Hx. pose proof (ti_timer now t I Hlt) as Hy. congruence.
    - intros Hnil.
      assert (Hok' : cancel_ok (t_core t') = true).
      { destruct Hc' as [_ Cc]. destruct (Cc i0 cl0 Hi0 Hk0 Hnil) as [H|H]; [exact H|].
        destruct (safe_of _ HR') as [_ Hnp]. congruence. }
      split; [exact Hok'|].
      destruct Hst as [Heq | Hpend].
      + rewrite Heq in Hnil. destruct (ti_nil now t I Hnil) as [_ [[Hlt Htd] | Hcbd]].
        * left. split; [exact Hlt|].
          destruct (timer_due (t_core t')) eqn:E; [|reflexivity]. pose proof (Mt Hlt eq_refl) as Hx. congruence.
        * right. exact (msteps_in_cbd _ _ Hrel Hcbd).
      + (* the call returned in this move: it was pending, so this is its own instant, before the job's time *)
        assert (Hle : now <= cl_at cl0).
        { destruct (N.le_gt_cases now (cl_at cl0)) as [Hle | Hgt]; [exact Hle|].
          exfalso. exact (ti_done now t I Hgt Hpend). }
        assert (Hlt : now < sc_due sc) by lia.
        left. split; [exact Hlt|].
        destruct (timer_due (t_core t')) eqn:E; [|reflexivity].
        pose proof (ti_timer now t I Hlt) as Htd. pose proof (Mt Hlt eq_refl) as Hx. congruence.
    - intros Hgt Hp'. destruct Hst as [Heq | Hpend].
      + rewrite Heq in Hp'. exact (ti_done now t I Hgt Hp').
      + exact (ti_done now t I Hgt Hpend).
  Qed.

  (* the end of an instant *)
  Lemma tinv_next : forall now t, tinv now t -> moves sc now t = [] -> tinv (now + 1) t.
  Proof.
    intros now t I Hstuck.
    pose proof (ti_full now t I) as [Hs K].
    pose proof (core_in_RF sc Hk Hv t Hs) as HR.
    constructor; try (destruct I; assumption).
    - intros Hlt. apply (ti_timer now t I). lia.
    - intros Hnil. destruct (ti_nil now t I Hnil) as [Hok [[Hlt Htd] | Hcbd]]; (split; [exact Hok|]); [|right; exact Hcbd].
      right.
      pose proof cancelled_F as Hc. rewrite forallb_forall in Hc. specialize (Hc _ HR).
      unfold p_cancelled in Hc. rewrite Hok, Htd in Hc. cbn in Hc.
      apply andb_prop in Hc as [_ Hrun0]. apply N.eqb_eq in Hrun0.
      pose proof (stuck_quiescent sc Hk Hv t now (conj Hs K) Hstuck Hrun0) as Hq.
      apply (from_start p_cbd R_cbd R_cbd_start _ HR). unfold p_cbd. rewrite Hq, Hok, Htd. reflexivity.
    - (* a call issued at or before this instant is no longer pending when nothing can move *)
      intros Hgt [Hw | Hin].
      + (* Waiting with cl_at <= now: it can always move *)
        unfold moves in Hstuck. apply app_eq_nil in Hstuck as [_ Hc].
        pose proof (all_call_moves_nth sc now t _ _ 0%nat i0 cl0 Waiting Hi0 Hw) as Hincl.
        rewrite Hc in Hincl. cbn [Nat.add] in Hincl.
        assert (Hne : call_moves sc now t i0 cl0 Waiting <> []).
        { unfold call_moves. assert (Hat : (cl_at cl0 <=? now) = true) by (apply N.leb_le; lia).
          rewrite Hat, Hk0.
          destruct (in_table (t_core t)) eqn:Et; [|discriminate].
          pose proof tab_F as Htab. rewrite forallb_forall in Htab. specialize (Htab _ HR).
          unfold p_tab in Htab. rewrite Et in Htab. cbn in Htab.
          rewrite (cfg_F sc Hk Hv). cbn [step]. unfold cancel_lookup. rewrite Et.
          destruct (c_pc (t_core t)) as [| | | | |code]; try (vm_compute in Htab; discriminate Htab);
            [discriminate | destruct code; vm_compute in Htab; discriminate Htab]. }
        destruct (call_moves sc now t i0 cl0 Waiting) as [|x l]; [congruence|].
        exact (Hincl x (or_introl eq_refl)).
      + (* InSlot: the call is in its critical path, and something can step *)
        pose proof (w3 t (ti_w now t I) i0 cl0 Hi0 Hk0 Hin) as Hact.
        pose proof cblock_F as Hb. rewrite forallb_forall in Hb. specialize (Hb _ HR).
        unfold p_cblock in Hb. rewrite Hact in Hb. cbn [negb orb] in Hb.
        unfold moves in Hstuck. apply app_eq_nil in Hstuck as [_ Hc].
        assert (Hcall : forall k cl, nth_error (sc_calls sc) k = Some cl -> nth_error (t_calls t) k = Some InSlot ->
                    call_moves sc now t k cl InSlot = []).
        { intros k cl H1 H2. pose proof (all_call_moves_nth sc now t _ _ 0%nat k cl InSlot H1 H2) as Hi.
          rewrite Hc in Hi. cbn [Nat.add] in Hi. destruct (call_moves sc now t k cl InSlot) as [|x l]; [reflexivity|].
          exfalso. exact (Hi x (or_introl eq_refl)). }
        rewrite <- (cfg_F sc Hk Hv) in Hb.
        destruct (step (sc_cfg sc) (t_core t) CStep) as [c1|] eqn:E1.
        { pose proof (Hcall i0 cl0 Hi0 Hin) as Hn. unfold call_moves in Hn. rewrite Hk0, E1 in Hn.
          destruct (c_pc c1); discriminate Hn. }
        destruct (step (sc_cfg sc) (t_core t) RStep) as [c2|] eqn:E2.
        { assert (Hr : r_active (r_pc (t_core t)) = true /\ r_pc (t_core t) <> RHave).
          { cbn [step] in E2. unfold r_step in E2. destruct (r_pc (t_core t)); try discriminate E2; split; try reflexivity; discriminate. }
          destruct Hr as [Hr1 Hr2].
          destruct (k_r sc t K Hr1) as [k [cl [H1 [H2 H3]]]].
          pose proof (Hcall k cl H1 H3) as Hn. unfold call_moves in Hn. rewrite H2 in Hn.
          destruct (r_pc (t_core t)) eqn:Er; try congruence; try discriminate Hr1;
            rewrite E2 in Hn; destruct (r_pc c2); discriminate Hn. }
        destruct (step (sc_cfg sc) (t_core t) REnter) as [c3|] eqn:E3; [|discriminate Hb].
        assert (Hr : r_pc (t_core t) = RHave).
        { cbn [step] in E3. unfold r_enter in E3. rewrite (cfg_F sc Hk Hv) in E3. cbn [k_kind cfF] in E3.
          destruct (lock_free (t_core t)); [|discriminate E3]. destruct (r_pc (t_core t)); try discriminate E3. reflexivity. }
        destruct (k_r sc t K) as [k [cl [H1 [H2 H3]]]]; [rewrite Hr; reflexivity|].
        pose proof (Hcall k cl H1 H3) as Hn. unfold call_moves in Hn. rewrite H2, Hr, E3 in Hn.
        destruct (r_pc c3); discriminate Hn.
  Qed.

  Lemma tinv_init : tinv 0 (t_init sc).
  Proof.
    constructor.
    - exact full_inv_init.
    - constructor; cbn [t_init t_calls t_core].
      + intros _ i cl Hi _ Hin. rewrite nth_error_map, Hi in Hin. discriminate Hin.
      + intros i j ci cj Hi _ _ _ Hin _. rewrite nth_error_map, Hi in Hin. discriminate Hin.
      + intros i cl Hi _ Hin. rewrite nth_error_map, Hi in Hin. discriminate Hin.
    - split; intros j cl H1 H2 H3; cbn [t_init t_calls] in H3; rewrite nth_error_map, H1 in H3; discriminate H3.
    - intros _. reflexivity.
    - intro Hn. cbn [t_init t_calls] in Hn. rewrite nth_error_map, Hi0 in Hn. discriminate Hn.
    - intros Hlt. lia.
  Qed.

  Lemma tinv_finals : forall t, In t (finals sc) -> tinv (sc_end sc + 1) t.
  Proof.
    intros t Ht. unfold finals in Ht.
    pose proof (fold_inv_time (fun ts now => settle sc now ts) tinv (Datatypes.S (N.to_nat (sc_end sc))) 0 [t_init sc]) as H.
    replace (0 + N.of_nat (Datatypes.S (N.to_nat (sc_end sc)))) with (sc_end sc + 1) in H by lia.
    apply H; [ | | exact Ht].
    - intros now ts _ Hts x Hx.
      apply tinv_next; [|exact (settle_stuck sc now ts x Hx)].
      exact (settle_inv sc (tinv now) now ts (tinv_move now) Hts x Hx).
    - intros x [<-|[]]. exact tinv_init.
  Qed.

  (* the theorem *)
  Theorem script_cancelled_before_never_runs : forall t, In t (finals sc) ->
      nth_error (t_calls t) i0 = Some (Ret Nil) -> o_starts (outcome_of t) = [].
  Proof.
    intros t Ht Hnil.
    pose proof (tinv_finals t Ht) as I.
    pose proof (ti_full _ t I) as [Hs K].
    pose proof (core_in_RF sc Hk Hv t Hs) as HR.
    assert (Hr0 : runs (t_core t) = 0).
    { destruct (ti_nil _ t I Hnil) as [Hok [[Hlt Htd] | Hcbd]].
      - pose proof cancelled_F as Hc. rewrite forallb_forall in Hc. specialize (Hc _ HR).
        unfold p_cancelled in Hc. rewrite Hok, Htd in Hc. cbn in Hc.
        apply andb_prop in Hc as [Hr0 _]. apply N.eqb_eq in Hr0. exact Hr0.
      - pose proof R_cbd_norun as Hn. rewrite forallb_forall in Hn. specialize (Hn _ Hcbd).
        apply N.eqb_eq in Hn. exact Hn. }
    unfold outcome_of; cbn [o_starts]. destruct Hs as [_ Hlen]. rewrite Hr0 in Hlen.
    destruct (t_starts t) as [|x l]; [reflexivity|]. exfalso.
    cbn [length] in Hlen. unfold sat2 in Hlen.
    destruct (2 <=? N.of_nat (Datatypes.S (length l))) eqn:E; lia.
  Qed.
End Cancel.
