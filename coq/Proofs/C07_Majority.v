(* C07 lemmas, part 5: the majority strategies on the timed layer (counting nodes). *)
From Verif Require Import Lib.Base Model.C07_Strategies Model.C07_Spec
  Proofs.C07 Proofs.C07_Acc Proofs.C07_Timed Proofs.C07_Outcomes.
From Coq Require Import ZifyBool ZifyN ZifyNat Permutation Sorting.Sorted QArith.
Open Scope N_scope.

(* events that are a response with a given id at an instant satisfying [inb] *)
Definition ev_id (inb : N -> bool) (id : N) (te : N * event value) : bool :=
  match snd te with EResp _ v => (v_id v =? id) && inb (fst te) | _ => false end.
Definition tcount (f : N * event value -> bool) (l : list (N * event value)) : Z := Z.of_nat (length (filter f l)).

Lemma tcount_app : forall f l l', tcount f (l ++ l') = (tcount f l + tcount f l')%Z.
Proof. intros. unfold tcount. rewrite filter_app, app_length. lia. Qed.

Lemma tcount_nonneg : forall f l, (0 <= tcount f l)%Z.
Proof. intros. unfold tcount. lia. Qed.

Lemma tcount_perm : forall f l l', Permutation l l' -> tcount f l = tcount f l'.
Proof.
  intros f l l' H. unfold tcount. f_equal. apply Permutation_length.
  induction H; cbn; try reflexivity.
  - destruct (f x); [constructor|]; exact IHPermutation.
  - destruct (f x), (f y); try reflexivity; try (constructor; reflexivity).
  - etransitivity; eassumption.
Qed.

Lemma tcount_ext_in : forall f g l, (forall x, In x l -> f x = g x) -> tcount f l = tcount g l.
Proof.
  intros f g l H. unfold tcount. f_equal. f_equal. induction l as [|x l IH]; [reflexivity|].
  cbn. rewrite (H x) by (left; reflexivity). rewrite IH; [reflexivity|]. intros y Hy. apply H. right; exact Hy.
Qed.

Lemma tcount_le : forall f g l, (forall x, In x l -> f x = true -> g x = true) -> (tcount f l <= tcount g l)%Z.
Proof.
  intros f g l H. unfold tcount. induction l as [|x l IH]; [cbn; lia|].
  assert (IH' : (Z.of_nat (length (filter f l)) <= Z.of_nat (length (filter g l)))%Z).
  { apply IH. intros y Hy. apply H. right; exact Hy. }
  cbn. destruct (f x) eqn:Ef.
  - rewrite (H x (or_introl eq_refl) Ef). cbn. lia.
  - destruct (g x); cbn; lia.
Qed.

Lemma tcount_zero : forall f l, (forall x, In x l -> f x = false) -> tcount f l = 0%Z.
Proof.
  intros f l H. unfold tcount. induction l as [|x l IH]; [reflexivity|].
  cbn. rewrite (H x) by (left; reflexivity). apply IH. intros y Hy. apply H. right; exact Hy.
Qed.

Lemma votes_tcount : forall (l : list (N * event value)) id,
  votes v_id (resps (map snd l)) id = tcount (ev_id (fun _ => true) id) l.
Proof.
  intros l id. unfold votes, tcount. induction l as [|[t e] l IH]; [reflexivity|].
  destruct e as [p v| | |]; cbn [map snd resps filter ev_id fst]; try exact IH.
  rewrite andb_true_r. destruct (v_id v =? id); cbn [length]; lia.
Qed.

Lemma cnt_tcount : forall st pr ps inb id,
  cnt st pr ps inb id = tcount (ev_id inb id) (flat_map (deliver st pr) ps).
Proof.
  intros st pr ps inb id. unfold cnt. induction ps as [|p0 ps IH]; [reflexivity|].
  cbn [flat_map filter]. rewrite tcount_app, <- IH. clear IH.
  unfold okb, deliver, tcount. destruct (pv_beh p0) as [v| |]; cbn [filter length].
  - destruct ((pv_time p0 <=? p_timeout pr) || pv_deaf p0); cbn [andb].
    + destruct (accepts st pr (v_raw v)); cbn [filter ev_id snd fst].
      * destruct ((v_id v =? id) && inb (pv_time p0)); cbn [length]; lia.
      * cbn. lia.
    + cbn. lia.
  - destruct ((pv_time p0 <=? p_timeout pr) || pv_deaf p0); cbn; lia.
  - cbn. lia.
Qed.

Lemma sch_tcount : forall st pr ps sch inb id, In sch (schedules (timeline st pr ps)) ->
  tcount (ev_id inb id) sch = cnt st pr ps inb id.
Proof.
  intros st pr ps sch inb id H. apply schedules_spec in H as [P _]. unfold timeline in P. rewrite sort_by_perm in P.
  rewrite (tcount_perm _ _ _ P), tcount_app, <- cnt_tcount.
  assert (G : forall l, (l = [(p_timeout pr, @EHard value)] \/ l = [(p_timeout pr / 2, ESoft); (p_timeout pr, EHard)]) ->
                        tcount (ev_id inb id) l = 0%Z).
  { intros l [-> | ->]; reflexivity. }
  rewrite G; [lia|]. destruct (template_of st); auto.
Qed.

Lemma vslot_ids : forall pr v1 v2, v_raw v1 = v_raw v2 -> vslot pr v1 = vslot pr v2.
Proof. intros pr v1 v2 H. unfold vslot. rewrite H. reflexivity. Qed.

Lemma filter_disjoint_length : forall {A} (f g : A -> bool) (l : list A),
  (forall x, In x l -> f x = true -> g x = true -> False) ->
  (length (filter f l) + length (filter g l) <= length l)%nat.
Proof.
  intros A f g l H. induction l as [|x l IH]; [cbn; lia|].
  assert (IH' : (length (filter f l) + length (filter g l) <= length l)%nat).
  { apply IH. intros y Hy. apply H. right; exact Hy. }
  specialize (H x (or_introl eq_refl)). cbn [filter].
  destruct (f x) eqn:Ef, (g x) eqn:Eg; cbn [length]; try lia;
    exfalso; apply H; reflexivity.
Qed.

(* two different ids share no node *)
Lemma cnt_disjoint : forall st pr ps inb1 inb2 id1 id2, id1 <> id2 ->
  (cnt st pr ps inb1 id1 + cnt st pr ps inb2 id2 <= Z.of_nat (length ps))%Z.
Proof.
  intros st pr ps inb1 inb2 id1 id2 Hne. unfold cnt.
  rewrite <- Nat2Z.inj_add. apply Nat2Z.inj_le. apply filter_disjoint_length.
  intros x _ H1 H2. destruct (okb st pr x) as [v|]; [|discriminate].
  apply andb_true_iff in H1 as [H1 _]. apply andb_true_iff in H2 as [H2 _].
  apply N.eqb_eq in H1, H2. congruence.
Qed.

(* ------------------------------------------------------------------------------------------- *)
(* the common part of the two majority strategies *)

Section MajCore.
  Variables (st : strategy) (pr : params) (ps : list prov) (sch pre post : list (N * event value)) (t : N).
  Hypothesis Hs : In sch (schedules (timeline st pr ps)).
  Hypothesis E : sch = pre ++ post.
  Hypothesis Hpre : forall x, In x pre -> fst x <= t.
  Hypothesis Hpost : forall x, In x post -> t <= fst x.
  Hypothesis Hids : ids_ok ps.

  Notation vs := (resps (map snd pre)).
  Notation cnt_lt u id := (cnt st pr ps (fun x => (x <? u)%N) id).
  Notation cnt_le u id := (cnt st pr ps (fun x => (x <=? u)%N) id).

  Lemma votes_le_cnt : forall id, (votes v_id vs id <= cnt_le t id)%Z.
  Proof.
    intro id. rewrite votes_tcount, <- (sch_tcount st pr ps sch _ id Hs), E, tcount_app.
    pose proof (tcount_nonneg (ev_id (fun x => (x <=? t)%N) id) post).
    rewrite (tcount_ext_in (ev_id (fun _ => true) id) (ev_id (fun x => (x <=? t)%N) id) pre); [lia|].
    intros [u e] Hx. apply Hpre in Hx. cbn in Hx. unfold ev_id. cbn [snd fst]. destruct e; try reflexivity.
    replace (u <=? t) with true by lia. reflexivity.
  Qed.

  Lemma cnt_lt_le_votes : forall id, (cnt_lt t id <= votes v_id vs id)%Z.
  Proof.
    intro id. rewrite votes_tcount, <- (sch_tcount st pr ps sch _ id Hs), E, tcount_app.
    rewrite (tcount_zero _ post).
    - pose proof (tcount_le (ev_id (fun x => (x <? t)%N) id) (ev_id (fun _ => true) id) pre) as L.
      assert (G : (tcount (ev_id (fun x => (x <? t)%N) id) pre <= tcount (ev_id (fun _ => true) id) pre)%Z); [|lia].
      apply L. intros [u e] _. unfold ev_id. cbn [snd fst]. destruct e; try discriminate.
      intro H. apply andb_true_iff in H as [H _]. rewrite H. reflexivity.
    - intros [u e] Hx. apply Hpost in Hx. cbn in Hx. unfold ev_id. cbn [snd fst]. destruct e; try reflexivity.
      replace (u <? t) with false by lia. apply andb_false_r.
  Qed.

  (* when everything given before [u] has been consumed *)
  Lemma cnt_lt_le_votes_all : forall u id,
    (forall x, In x post -> is_resp (snd x) = true -> u <= fst x) ->
    (cnt_lt u id <= votes v_id vs id)%Z.
  Proof.
    intros u id Hp. rewrite votes_tcount, <- (sch_tcount st pr ps sch _ id Hs), E, tcount_app.
    rewrite (tcount_zero _ post).
    - assert (G : (tcount (ev_id (fun x => (x <? u)%N) id) pre <= tcount (ev_id (fun _ => true) id) pre)%Z); [|lia].
      apply tcount_le. intros [u' e] _. unfold ev_id. cbn [snd fst]. destruct e; try discriminate.
      intro H. apply andb_true_iff in H as [H _]. rewrite H. reflexivity.
    - intros [u' e] Hx. unfold ev_id. cbn [snd fst]. destruct e as [p v| | |]; try reflexivity.
      specialize (Hp _ Hx eq_refl). cbn in Hp. replace (u' <? u) with false by lia. apply andb_false_r.
  Qed.

  Lemma in_vs_gives : forall v, In v vs -> exists p0, In p0 ps /\ gives_ok st pr p0 v /\ pv_time p0 <= t.
  Proof.
    intros v Hv. apply in_resps_map in Hv as [u [p Hv]].
    assert (Hin : In (u, EResp p v) sch) by (rewrite E; apply in_or_app; left; exact Hv).
    destruct (event_gives_ok _ _ _ _ _ _ _ Hs Hin) as [p0 (Hp0 & Hg & ->)].
    exists p0. split; [exact Hp0|]. split; [exact Hg|]. apply (Hpre _ Hv).
  Qed.

  Lemma vs_key_slot : forall x y, In x vs -> In y vs -> v_id x = v_id y -> vslot pr x = vslot pr y.
  Proof.
    intros x y Hx Hy Hk. destruct (in_vs_gives x Hx) as [p1 (Hp1 & [[Hb1 _] _] & _)].
    destruct (in_vs_gives y Hy) as [p2 (Hp2 & [[Hb2 _] _] & _)].
    apply vslot_ids. apply (Hids p1 p2 x y Hp1 Hp2 Hb1 Hb2 Hk).
  Qed.

  Lemma gives_before_in_vs : forall p1 v1, In p1 ps -> gives_ok st pr p1 v1 -> pv_time p1 < t -> In v1 vs.
  Proof.
    intros p1 v1 Hp1 Hg Hlt. pose proof (gives_ok_event _ _ _ _ _ _ Hs Hp1 Hg) as Hx. rewrite E in Hx.
    apply in_app_or in Hx as [Hx|Hx].
    - apply in_resps. exists (pv_id p1). apply in_map_iff. exists (pv_time p1, EResp (pv_id p1) v1). auto.
    - apply Hpost in Hx. cbn in Hx. lia.
  Qed.

  (* a positive count below [u] has a witness *)
  Lemma cnt_pos_witness : forall inb id, (0 < cnt st pr ps inb id)%Z ->
    exists p2 v2, In p2 ps /\ gives_ok st pr p2 v2 /\ v_id v2 = id /\ inb (pv_time p2) = true.
  Proof.
    intros inb id H. unfold cnt in H.
    destruct (filter _ ps) as [|p2 l] eqn:Ef; [cbn in H; lia|].
    assert (G : In p2 (filter (fun p0 => match okb st pr p0 with
                                          | Some v => (v_id v =? id) && inb (pv_time p0) | None => false end) ps))
      by (rewrite Ef; left; reflexivity).
    apply filter_In in G as [Hp2 G]. unfold okb in G. destruct (pv_beh p2) as [v2| |] eqn:Eb; try discriminate.
    destruct (((pv_time p2 <=? p_timeout pr) || pv_deaf p2) && accepts st pr (v_raw v2)) eqn:Eg; [|discriminate].
    apply andb_true_iff in Eg as [Eg Ea]. apply andb_true_iff in G as [G1 G2]. apply N.eqb_eq in G1.
    exists p2, v2. unfold gives_ok, gives. auto.
  Qed.

  Variables (thr : Z) (order : list (N * (value * Z))).
  Hypothesis Hperm : Permutation order (fold_left (bump v_id) vs []).

  (* a value is used: P_b's clauses *)
  Lemma maj_used : forall v, maj_result (vslot pr) thr order = Some v ->
    exists p0, In p0 ps /\ gives_ok st pr p0 v /\ pv_time p0 <= t
      /\ (1 <= cnt_le t (v_id v))%Z /\ (thr <= cnt_le t (v_id v))%Z
      /\ forall p1 v1, In p1 ps -> gives_ok st pr p1 v1 ->
           (cnt_lt t (v_id v1) <= cnt_le t (v_id v))%Z
           /\ (cnt_lt t (v_id v1) = cnt_le t (v_id v) -> vslot pr v1 <= vslot pr v).
  Proof.
    intros v Hm. pose proof (maj_plurality v_id (vslot pr) vs order thr vs_key_slot Hperm) as P. rewrite Hm in P.
    destruct P as (Hf & Hthr & H1 & Hall).
    assert (Hv : In v vs) by (apply (find_some_votes v_id) in Hf; tauto).
    destruct (in_vs_gives v Hv) as [p0 (Hp0 & Hg & Ht)]. exists p0.
    pose proof (votes_le_cnt (v_id v)) as U.
    split; [exact Hp0|]. split; [exact Hg|]. split; [exact Ht|]. split; [lia|]. split; [lia|].
    intros p1 v1 Hp1 Hg1.
    destruct (Z_lt_le_dec 0 (cnt_lt t (v_id v1))) as [Q|Q].
    - destruct (cnt_pos_witness _ _ Q) as [p2 [v2 (Hp2 & Hg2 & Hid & Hlt)]].
      assert (Hv2 : In v2 vs) by (apply (gives_before_in_vs p2 v2 Hp2 Hg2); lia).
      destruct (Hall v2 Hv2) as [A1 A2]. rewrite Hid in A1, A2.
      pose proof (cnt_lt_le_votes (v_id v1)) as L. split; [lia|].
      intro Eq. assert (Hs2 : vslot pr v2 <= vslot pr v) by (apply A2; lia).
      rewrite <- (vslot_ids pr v2 v1); [exact Hs2|].
      destruct Hg2 as [[Hb2 _] _]. destruct Hg1 as [[Hb1 _] _]. apply (Hids p2 p1 v2 v1 Hp2 Hp1 Hb2 Hb1 Hid).
    - pose proof (tcount_nonneg (ev_id (fun x => (x <? t)%N) (v_id v1)) sch) as NN.
      rewrite (sch_tcount st pr ps sch _ _ Hs) in NN. split; lia.
  Qed.

  (* every node heard of, or the hard timeout consumed: no answer given before the hard timeout
     is outstanding *)
  Lemma post_late :
    ((Z.of_nat (length ps) <= msgs (map snd pre))%Z \/ existsb is_hard (map snd pre) = true) ->
    forall x, In x post -> is_resp (snd x) = true -> p_timeout pr <= fst x.
  Proof.
    intros [Hst|Hst].
    - intros [u e] Hx Hr. exfalso. destruct e as [p v| | |]; try discriminate.
      pose proof (sch_msgs _ _ _ _ Hs) as Hmm. rewrite E, map_app, msgs_app in Hmm.
      assert (G : (1 <= msgs (map snd post))%Z).
      { apply (msgs_in_resp _ p v). apply in_map_iff. exists (u, EResp p v). auto. }
      unfold tevent in *. lia.
    - apply existsb_exists in Hst as [e [He Hh]]. destruct e; try discriminate.
      apply in_map_iff in He as [[th e] [He Hin]]. cbn in He. subst e.
      assert (Hin' : In (th, EHard) sch) by (rewrite E; apply in_or_app; left; exact Hin).
      pose proof (sch_hard_time _ _ _ _ _ Hs Hin') as ->.
      apply Hpre in Hin. cbn in Hin. intros x Hx _. apply Hpost in Hx. lia.
  Qed.

  (* a value is used and the loops stopped because every node was heard of, or the exit count (a
     strict majority of the nodes at least) was reached, or at the hard timeout -- not because the
     soft timeout found something in hand: the choice is FINAL.  No other value is reported by
     more nodes within the whole timeout, and one reported by as many has no higher head slot. *)
  Lemma maj_used_final : forall v exit, maj_result (vslot pr) thr order = Some v ->
    (Z.of_nat (length ps) / 2 + 1 <= exit)%Z ->
    ((Z.of_nat (length ps) <= msgs (map snd pre))%Z
     \/ (exit <= largest (fold_left (bump v_id) vs []))%Z
     \/ existsb is_hard (map snd pre) = true) ->
    forall p1 v1, In p1 ps -> gives_ok st pr p1 v1 -> v_id v1 <> v_id v ->
      (cnt_lt (p_timeout pr) (v_id v1) <= cnt_le t (v_id v))%Z
      /\ (cnt_lt (p_timeout pr) (v_id v1) = cnt_le t (v_id v) -> vslot pr v1 <= vslot pr v).
  Proof.
    intros v exit Hm Hex Hstop p1 v1 Hp1 Hg1 Hne.
    pose proof (maj_plurality v_id (vslot pr) vs order thr vs_key_slot Hperm) as P. rewrite Hm in P.
    destruct P as (Hf & Hthr & H1 & Hall).
    pose proof (votes_le_cnt (v_id v)) as U.
    assert (Hlate : (forall x, In x post -> is_resp (snd x) = true -> p_timeout pr <= fst x) ->
                    (cnt_lt (p_timeout pr) (v_id v1) <= cnt_le t (v_id v))%Z
                    /\ (cnt_lt (p_timeout pr) (v_id v1) = cnt_le t (v_id v) -> vslot pr v1 <= vslot pr v)).
    { intro HallT. pose proof (cnt_lt_le_votes_all (p_timeout pr) (v_id v1) HallT) as L.
      destruct (Z_lt_le_dec 0 (cnt_lt (p_timeout pr) (v_id v1))) as [Q|Q].
      - destruct (find (fun x => v_id x =? v_id v1) vs) as [v0|] eqn:Ef.
        + destruct (find_some_votes v_id _ _ _ Ef) as (_ & Hk & Hin0).
          destruct (Hall v0 Hin0) as [A1 A2]. rewrite Hk in A1, A2. split; [lia|].
          intro Eq. assert (Hs0 : vslot pr v0 <= vslot pr v) by (apply A2; lia).
          rewrite <- (vslot_ids pr v0 v1); [exact Hs0|].
          destruct (in_vs_gives v0 Hin0) as [p2 (Hp2 & [[Hb2 _] _] & _)]. destruct Hg1 as [[Hb1 _] _].
          apply (Hids p2 p1 v0 v1 Hp2 Hp1 Hb2 Hb1 Hk).
        + rewrite (find_none_votes v_id _ _ Ef) in L. lia.
      - split; lia. }
    destruct Hstop as [Hst|[Hst|Hst]].
    - apply Hlate. apply post_late. left. exact Hst.
    - (* the exit count: a strict majority of the nodes reported [v] *)
      assert (Hbig : (exit <= votes v_id vs (v_id v))%Z).
      { destruct (largest_tbl v_id vs) as [_ [H0|[v' [Hin' Hv']]]].
        - pose proof (Z.div_pos (Z.of_nat (length ps)) 2 ltac:(lia) ltac:(lia)). lia.
        - destruct (Hall v' Hin') as [A1 _]. lia. }
      pose proof (cnt_disjoint st pr ps (fun x => (x <? p_timeout pr)%N) (fun x => (x <=? t)%N) (v_id v1) (v_id v) Hne) as D.
      pose proof (Z.div_mod (Z.of_nat (length ps)) 2 ltac:(lia)) as Dm.
      pose proof (Z.mod_pos_bound (Z.of_nat (length ps)) 2 ltac:(lia)) as Db.
      split; lia.
    - apply Hlate. apply post_late. right. exact Hst.
  Qed.

  (* nothing is used, the loops having stopped for one of their reasons *)
  Lemma maj_unused : forall exit,
    maj_result (vslot pr) thr order = None ->
    (thr <= exit)%Z -> (1 <= exit)%Z ->
    ((Z.of_nat (length ps) <= msgs (map snd pre))%Z
     \/ (exit <= largest (fold_left (bump v_id) vs []))%Z
     \/ existsb is_hard (map snd pre) = true
     \/ (thr = 0%Z /\ existsb is_resp (map snd pre) = true)) ->
    forall p1 v1, In p1 ps -> gives_ok st pr p1 v1 ->
                  (cnt_lt (p_timeout pr) (v_id v1) < Z.max 1 thr)%Z.
  Proof.
    intros exit Hm He1 He2 Hstop p1 v1 Hp1 Hg1.
    pose proof (maj_plurality v_id (vslot pr) vs order thr vs_key_slot Hperm) as P. rewrite Hm in P.
    pose proof (proj1 (maj_uses_iff v_id (vslot pr) vs order thr Hperm)) as U.
    assert (Hnone : forall v, In v vs -> (votes v_id vs (v_id v) < thr)%Z) by exact P.
    assert (Hall : (forall x, In x post -> is_resp (snd x) = true -> p_timeout pr <= fst x)).
    { destruct Hstop as [Hst|[Hst|[Hst|[Hst1 Hst2]]]].
      - (* every node heard of: no response is outstanding *)
        intros [u e] Hx Hr. exfalso. destruct e as [p v| | |]; try discriminate.
        pose proof (sch_msgs _ _ _ _ Hs) as Hmm. rewrite E, map_app, msgs_app in Hmm.
        assert (G : (1 <= msgs (map snd post))%Z).
        { apply (msgs_in_resp _ p v). apply in_map_iff. exists (u, EResp p v). auto. }
        unfold tevent in *. lia.
      - exfalso. destruct (largest_tbl v_id vs) as [_ [H0|[v [Hin Hv]]]]; [lia|].
        specialize (Hnone v Hin). lia.
      - apply existsb_exists in Hst as [e [He Hh]]. destruct e; try discriminate.
        apply in_map_iff in He as [[th e] [He Hin]]. cbn in He. subst e.
        assert (Hin' : In (th, EHard) sch) by (rewrite E; apply in_or_app; left; exact Hin).
        pose proof (sch_hard_time _ _ _ _ _ Hs Hin') as ->.
        apply Hpre in Hin. cbn in Hin. intros x Hx _. apply Hpost in Hx. lia.
      - exfalso. subst thr. apply existsb_exists in Hst2 as [e [He Hr]]. destruct e as [p v| | |]; try discriminate.
        assert (Hv : In v vs) by (apply in_resps; exists p; exact He).
        specialize (Hnone v Hv). pose proof (votes_nonneg v_id vs (v_id v)). lia. }
    pose proof (cnt_lt_le_votes_all (p_timeout pr) (v_id v1) Hall) as L.
    destruct (Z_lt_le_dec 0 (cnt_lt (p_timeout pr) (v_id v1))) as [Q|Q]; [|lia].
    assert (Hpos : (0 < votes v_id vs (v_id v1))%Z) by lia.
    destruct (find (fun x => v_id x =? v_id v1) vs) as [v0|] eqn:Ef.
    - destruct (find_some_votes v_id _ _ _ Ef) as (_ & Hk & Hin). specialize (Hnone v0 Hin). rewrite Hk in Hnone. lia.
    - rewrite (find_none_votes v_id _ _ Ef) in Hpos. lia.
  Qed.
End MajCore.

(* ------------------------------------------------------------------------------------------- *)
(* both majority strategies on the timed layer *)

Lemma maj_outcome_spec : forall st pr ps r t,
  (template_of st = TMajAtt \/ template_of st = TMajRoot) -> ids_ok ps ->
  In (r, t) (outcomes st pr ps) ->
  t <= p_timeout pr /\
  ((exists p0 v, r = result_of (Some v) /\ In p0 ps /\ gives_ok st pr p0 v /\ pv_time p0 <= t
      /\ (1 <= cnt st pr ps (fun x => (x <=? t)%N) (v_id v))%Z
      /\ (maj_thr st pr <= cnt st pr ps (fun x => (x <=? t)%N) (v_id v))%Z
      /\ (forall p1 v1, In p1 ps -> gives_ok st pr p1 v1 ->
           (cnt st pr ps (fun x => (x <? t)%N) (v_id v1) <= cnt st pr ps (fun x => (x <=? t)%N) (v_id v))%Z
           /\ (cnt st pr ps (fun x => (x <? t)%N) (v_id v1) = cnt st pr ps (fun x => (x <=? t)%N) (v_id v)
               -> vslot pr v1 <= vslot pr v))
      /\ (maj_final (template_of st) (p_timeout pr) t = true ->
          forall p1 v1, In p1 ps -> gives_ok st pr p1 v1 -> v_id v1 <> v_id v ->
           (cnt st pr ps (fun x => (x <? p_timeout pr)%N) (v_id v1) <= cnt st pr ps (fun x => (x <=? t)%N) (v_id v))%Z
           /\ (cnt st pr ps (fun x => (x <? p_timeout pr)%N) (v_id v1) = cnt st pr ps (fun x => (x <=? t)%N) (v_id v)
               -> vslot pr v1 <= vslot pr v)))
   \/ (r = RErr /\ forall p1 v1, In p1 ps -> gives_ok st pr p1 v1 ->
         (cnt st pr ps (fun x => (x <? p_timeout pr)%N) (v_id v1) < Z.max 1 (maj_thr st pr))%Z)).
Proof.
  intros st pr ps r t Et Hids H. unfold outcomes in H. unfold maj_thr.
  assert (Hreq : (0 <= Z.of_nat (length ps))%Z) by lia.
  pose proof (Z.div_pos (Z.of_nat (length ps)) 2 Hreq ltac:(lia)) as Hdiv.
  destruct Et as [Et|Et]; rewrite Et in *.
  - (* attestation data *)
    apply in_flat_map in H as [sch [Hs H]].
    destruct (m_decision (bump v_id)
                (fun tb : table => (att_exit (Z.of_nat (length ps)) (Z.of_N (p_threshold pr)) <=? largest tb)%Z)
                [] st pr ps sch Hs)
      as [pre [post (E & Hd & Ha & Hst & _ & Hpre & Hpost & HT & _)]].
    destruct (trun _ _ _ sch) as [s t']. cbn [fst snd] in *. rewrite Hd in H.
    apply in_map_iff in H as [order [H Ho]]. injection H as <- <-. split; [exact HT|].
    apply perms_perm in Ho. rewrite Ha in Ho. unfold accf in Ho.
    destruct (maj_result (vslot pr) (Z.of_N (p_threshold pr)) order) as [v|] eqn:Em.
    + left. destruct (maj_used st pr ps sch pre post t' Hs E Hpre Hpost Hids _ order Ho v Em) as [p0 (A1 & A2 & A3 & A4 & A5 & A6)].
      exists p0, v. repeat (split; [first [reflexivity | assumption]|]). intros _.
      apply (maj_used_final st pr ps sch pre post t' Hs E Hpre Hpost Hids _ order Ho v
               (att_exit (Z.of_nat (length ps)) (Z.of_N (p_threshold pr))) Em).
      * unfold att_exit. lia.
      * unfold m_stop in Hst. apply orb_true_iff in Hst as [Hst|Hst]; [apply orb_true_iff in Hst as [Hst|Hst]|].
        -- left. lia.
        -- right; left. unfold accf in Hst. lia.
        -- right; right. exact Hst.
    + right. split; [reflexivity|].
      apply (maj_unused st pr ps sch pre post t' Hs E Hpre Hpost Hids _ order Ho
               (att_exit (Z.of_nat (length ps)) (Z.of_N (p_threshold pr))) Em).
      * unfold att_exit. lia.
      * unfold att_exit. lia.
      * unfold m_stop in Hst. apply orb_true_iff in Hst as [Hst|Hst]; [apply orb_true_iff in Hst as [Hst|Hst]|].
        -- left. lia.
        -- right; left. unfold accf in Hst. lia.
        -- right; right; left. exact Hst.
  - (* block root *)
    apply in_flat_map in H as [sch [Hs H]].
    destruct (b_decision (bump v_id)
                (fun tb : table => (Z.of_nat (length ps) / 2 + 1 <=? largest tb)%Z)
                [] st pr ps sch Hs)
      as [pre [post (E & Hd & Ha & Hst & _ & Hpre & Hpost & HT & _)]].
    destruct (trun _ _ _ sch) as [s t']. cbn [fst snd] in *. rewrite Hd in H.
    apply in_map_iff in H as [order [H Ho]]. injection H as <- <-. split; [exact HT|].
    apply perms_perm in Ho. rewrite Ha in Ho. unfold accf in Ho.
    destruct (maj_result (vslot pr) 0 order) as [v|] eqn:Em.
    + left. destruct (maj_used st pr ps sch pre post t' Hs E Hpre Hpost Hids _ order Ho v Em) as [p0 (A1 & A2 & A3 & A4 & A5 & A6)].
      exists p0, v. repeat (split; [first [reflexivity | assumption]|]). intro Hfin. cbn [maj_final] in Hfin.
      apply (maj_used_final st pr ps sch pre post t' Hs E Hpre Hpost Hids _ order Ho v
               (Z.of_nat (length ps) / 2 + 1)%Z Em); [lia|].
      unfold b_stop in Hst. apply orb_true_iff in Hst as [Hst|Hst]; [apply orb_true_iff in Hst as [Hst|Hst]; [apply orb_true_iff in Hst as [Hst|Hst]|]|].
      * left. lia.
      * right; left. unfold accf in Hst. lia.
      * right; right. exact Hst.
      * (* the soft timeout with something in hand: not before the soft timeout *)
        exfalso. apply soft_resp_spec in Hst as [p1' [p2' (Hp & _ & _)]].
        assert (Hsoft : In ESoft (map snd pre)) by (rewrite Hp; apply in_or_app; right; left; reflexivity).
        apply in_map_iff in Hsoft as [[u e] [He Hin']]. cbn in He. subst e.
        assert (Hin'' : In (u, ESoft) sch) by (rewrite E; apply in_or_app; left; exact Hin').
        pose proof (sch_soft_time st pr ps sch u Hs Hin'') as ->.
        apply Hpre in Hin'. cbn in Hin'. lia.
    + right. split; [reflexivity|].
      apply (maj_unused st pr ps sch pre post t' Hs E Hpre Hpost Hids _ order Ho
               (Z.of_nat (length ps) / 2 + 1)%Z Em); try lia.
      unfold b_stop in Hst. apply orb_true_iff in Hst as [Hst|Hst]; [apply orb_true_iff in Hst as [Hst|Hst]; [apply orb_true_iff in Hst as [Hst|Hst]|]|].
      * left. lia.
      * right; left. unfold accf in Hst. lia.
      * right; right; left. exact Hst.
      * right; right; right. split; [reflexivity|].
        apply soft_resp_spec in Hst as [p1' [p2' (Hp & _ & Hr)]]. rewrite Hp, existsb_app, Hr. reflexivity.
Qed.

(* ------------------------------------------------------------------------------------------- *)
(* every strategy: what is returned is an acceptable answer some node gave, no later than the return *)

Lemma maj_result_in : forall {V} (key slot_of : V -> N) vs order thr v,
  Permutation order (fold_left (bump key) vs []) -> maj_result slot_of thr order = Some v -> In v vs.
Proof.
  intros V key slot_of vs order thr v Hperm Hm.
  assert (Hpos : forall e, In e order -> (0 < snd (snd e))%Z).
  { intros e He. apply (tbl_pos key slot_of vs). apply (Permutation_in _ Hperm). exact He. }
  pose proof (maj_result_spec key slot_of thr order Hpos) as H. rewrite Hm in H.
  destruct H as [k [c (Hin & _)]]. apply (Permutation_in _ Hperm) in Hin. apply tbl_in in Hin as [Hf _].
  apply (find_some_votes key) in Hf. tauto.
Qed.

Lemma outcomes_valid : forall st pr ps r t, In (r, t) (outcomes st pr ps) ->
  r = RErr \/ exists p0 v, r = result_of (Some v) /\ In p0 ps /\ gives_ok st pr p0 v /\ pv_time p0 <= t.
Proof.
  intros st pr ps r t H. destruct (template_of st) eqn:Et.
  - destruct (best_outcome_spec st pr ps r t Et H) as [_ [[p0 [v (A & B & C & D & _)]] | [A _]]]; [right|left; exact A].
    exists p0, v. auto.
  - unfold outcomes in H. rewrite Et in H. apply in_flat_map in H as [sch [Hs H]].
    destruct (m_decision (bump v_id)
                (fun tb : table => (att_exit (Z.of_nat (length ps)) (Z.of_N (p_threshold pr)) <=? largest tb)%Z)
                [] st pr ps sch Hs)
      as [pre [post (E & Hd & Ha & _ & _ & Hpre & Hpost & _ & _)]].
    destruct (trun _ _ _ sch) as [s t']. cbn [fst snd] in *. rewrite Hd in H.
    apply in_map_iff in H as [order [H Ho]]. injection H as <- <-.
    apply perms_perm in Ho. rewrite Ha in Ho. unfold accf in Ho.
    destruct (maj_result (vslot pr) (Z.of_N (p_threshold pr)) order) as [v|] eqn:Em; [right | left; reflexivity].
    pose proof (maj_result_in _ _ _ _ _ _ Ho Em) as Hv.
    destruct (in_vs_gives st pr ps sch pre post t' Hs E Hpre v Hv) as [p0 (A & B & C)]. exists p0, v. auto.
  - unfold outcomes in H. rewrite Et in H. apply in_flat_map in H as [sch [Hs H]].
    destruct (b_decision (bump v_id)
                (fun tb : table => (Z.of_nat (length ps) / 2 + 1 <=? largest tb)%Z)
                [] st pr ps sch Hs)
      as [pre [post (E & Hd & Ha & _ & _ & Hpre & Hpost & _ & _)]].
    destruct (trun _ _ _ sch) as [s t']. cbn [fst snd] in *. rewrite Hd in H.
    apply in_map_iff in H as [order [H Ho]]. injection H as <- <-.
    apply perms_perm in Ho. rewrite Ha in Ho. unfold accf in Ho.
    destruct (maj_result (vslot pr) 0 order) as [v|] eqn:Em; [right | left; reflexivity].
    pose proof (maj_result_in _ _ _ _ _ _ Ho Em) as Hv.
    destruct (in_vs_gives st pr ps sch pre post t' Hs E Hpre v Hv) as [p0 (A & B & C)]. exists p0, v. auto.
  - destruct (first_outcome_spec st pr ps r t Et H) as [_ [[p0 [v (A & B & C & D & _)]] | [A _]]]; [right|left; exact A].
    exists p0, v. split; [exact A|]. split; [exact B|]. split; [|lia]. split; [exact C | apply accepts_first; exact Et].
Qed.

(* the validity rules of the model are the property's *)
Lemma accepts_rules : forall st pr r, accepts st pr r = true ->
  match st, r with
  | (AttBest | AttMajority), RAtt nil_data nil_target _ _ target _ =>
      nil_data = false /\ nil_target = false /\ target = p_slot pr / p_spe pr
  | PropBest, RProp ver fee _ _ => ver = 1 \/ ver = 2 \/ (3 <= ver <= 5 /\ fee = 1)
  | AggBest, RAgg nil_data _ _ => nil_data = false
  | ContribBest, RContrib nil_data _ => nil_data = false
  | _, _ => True
  end.
Proof.
  intros st pr r H. destruct st, r; cbn in *; auto;
    try (apply negb_true_iff in H; exact H).
  - apply andb_true_iff in H as [H H3]. apply andb_true_iff in H as [H1 H2].
    apply negb_true_iff in H1, H2. apply N.eqb_eq in H3. auto.
  - apply andb_true_iff in H as [H H3]. apply andb_true_iff in H as [H1 H2].
    apply negb_true_iff in H1, H2. apply N.eqb_eq in H3. auto.
  - apply orb_true_iff in H as [H|H]; [apply orb_true_iff in H as [H|H]|].
    + left. apply N.eqb_eq in H. exact H.
    + right; left. apply N.eqb_eq in H. exact H.
    + right; right. lia.
Qed.

(* ------------------------------------------------------------------------------------------- *)
(* the soft timeout: answers in hand at the soft timeout end the wait (best, latest, block-root
   majority) *)

Lemma first_soft_split : forall (l : list (N * event value)) u, In (u, ESoft) l ->
  exists a u' b, l = a ++ (u', ESoft) :: b /\ existsb is_soft (map snd a) = false.
Proof.
  induction l as [|[w e] l IH]; intros u H; [destruct H|].
  destruct (is_soft e) eqn:Es.
  - destruct e; try discriminate. exists [], w, l. auto.
  - destruct H as [H|H]; [injection H as _ ->; discriminate|].
    destruct (IH u H) as [a [u' [b [-> Ha]]]]. exists ((w, e) :: a), u', b. cbn. rewrite Es, Ha. auto.
Qed.

Lemma b_soft_rule : forall {A} (acc : A -> value -> A) early a0 st pr ps sch,
  template_of st <> TFirst ->
  In sch (schedules (timeline st pr ps)) ->
  let requests := Z.of_nat (length ps) in
  let r := trun (bstep acc early requests) (fun s => phase_eqb (b_phase s) Done) (b_init early requests a0) sch in
  forall p1 v1, In p1 ps -> gives_ok st pr p1 v1 -> pv_time p1 < p_timeout pr / 2 ->
  snd r <= p_timeout pr / 2.
Proof.
  intros A acc early a0 st pr ps sch Ht Hs requests r p1 v1 Hp1 Hg1 Hlt.
  destruct (b_decision acc early a0 st pr ps sch Hs) as [pre [post (E & _ & _ & _ & Hmin & Hpre & Hpost & _ & Hlast)]].
  fold requests in Hmin. fold requests r in Hpre, Hpost, Hlast.
  destruct (N.le_gt_cases (snd r) (p_timeout pr / 2)) as [Q|Q]; [exact Q|]. exfalso.
  pose proof (proj1 (timeline_schedule _ _ _ _ Hs)) as Hso.
  pose proof (sch_has_soft st pr ps sch Ht Hs) as Hsoft. rewrite E in Hsoft.
  apply in_app_or in Hsoft as [Hsoft|Hsoft]; [|apply Hpost in Hsoft; cbn in Hsoft; lia].
  destruct (first_soft_split pre _ Hsoft) as [a [u [b [Epre Ha]]]].
  assert (Hu : u = p_timeout pr / 2).
  { apply (sch_soft_time st pr ps sch u Hs). rewrite E, Epre. apply in_or_app. left. apply in_or_app. right. left. reflexivity. }
  subst u.
  pose proof (gives_ok_event _ _ _ _ _ _ Hs Hp1 Hg1) as Hx. rewrite E in Hx.
  apply in_app_or in Hx as [Hx|Hx]; [|apply Hpost in Hx; cbn in Hx; lia].
  rewrite E, Epre, <- app_assoc in Hso. cbn [app] in Hso. apply ksorted_split in Hso as [_ Hafter].
  rewrite Forall_forall in Hafter.
  rewrite Epre in Hx. apply in_app_or in Hx as [Hx|[Hx|Hx]].
  - (* the answer precedes the soft timeout in the consumed prefix *)
    assert (Hr : existsb is_resp (map snd a) = true).
    { apply existsb_exists. exists (EResp (pv_id p1) v1). split; [|reflexivity].
      apply in_map_iff. exists (pv_time p1, EResp (pv_id p1) v1). auto. }
    assert (Hstop : b_stop acc early requests a0 (map snd a ++ [ESoft]) = true).
    { unfold b_stop. rewrite (proj2 (soft_resp_spec (map snd a ++ [ESoft]))); [apply orb_true_r|].
      exists (map snd a), []. auto. }
    destruct b as [|y b].
    + destruct Hlast as [[Hn _] | [pre' [te [Hp Ht']]]]; [rewrite Epre in Hn; destruct a; discriminate|].
      rewrite Epre in Hp. apply app_inj_tail in Hp as [_ <-]. cbn in Ht'. lia.
    + specialize (Hmin (map snd a ++ [ESoft]) (map snd (y :: b))).
      rewrite Hmin in Hstop; [discriminate | | discriminate].
      rewrite Epre, map_app. cbn [map snd]. rewrite <- app_assoc. reflexivity.
  - discriminate Hx.
  - assert (G : In (pv_time p1, EResp (pv_id p1) v1) (b ++ post)) by (apply in_or_app; left; exact Hx).
    apply Hafter in G. cbn in G. lia.
Qed.

Lemma outcomes_soft_rule : forall st pr ps r t,
  (template_of st = TBest \/ template_of st = TMajRoot) -> In (r, t) (outcomes st pr ps) ->
  forall p1 v1, In p1 ps -> gives_ok st pr p1 v1 -> pv_time p1 < p_timeout pr / 2 ->
  t <= p_timeout pr / 2.
Proof.
  intros st pr ps r t Et H p1 v1 Hp1 Hg1 Hlt. unfold outcomes in H.
  assert (Hnf : template_of st <> TFirst) by (destruct Et as [Et|Et]; rewrite Et; discriminate).
  destruct Et as [Et|Et]; rewrite Et in H.
  - apply in_map_iff in H as [sch [H Hs]].
    pose proof (b_soft_rule (upd_best (vscore st pr) sgt) no_early None st pr ps sch Hnf Hs p1 v1 Hp1 Hg1 Hlt) as B.
    destruct (trun _ _ _ sch) as [s t']. injection H as _ <-. exact B.
  - apply in_flat_map in H as [sch [Hs H]].
    pose proof (b_soft_rule (bump v_id) (fun tb : table => (Z.of_nat (length ps) / 2 + 1 <=? largest tb)%Z) []
                  st pr ps sch Hnf Hs p1 v1 Hp1 Hg1 Hlt) as B.
    destruct (trun _ _ _ sch) as [s t']. destruct (b_phase s).
    + destruct H as [H|[]]. injection H as _ <-. exact B.
    + destruct H as [H|[]]. injection H as _ <-. exact B.
    + apply in_map_iff in H as [order [H _]]. injection H as _ <-. exact B.
Qed.
