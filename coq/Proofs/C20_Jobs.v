From Verif Require Import Lib.Base Model.C20_Jobs.
From Coq Require Import ZifyBool ZifyN ZifyNat.

(* every entry of the table is a job whose time has not come; names are unique *)
Record jinv (s : jst) : Prop := {
  ji_nodup : NoDup (map fst (j_tab s));
  ji_future : forall id t, In (id, t) (j_tab s) -> j_now s < t
}.

Lemma jmem_false id t : jmem id t = false -> ~ In id (map fst t).
Proof.
  unfold jmem. intros H Hi. apply in_map_iff in Hi as [[i x] [E Hp]]. cbn in E. subst i.
  assert (existsb (fun p => fst p =? id) t = true).
  { apply existsb_exists. exists (id, x). split; [exact Hp | apply N.eqb_refl]. }
  congruence.
Qed.

Lemma nodup_map_filter (f : N * N -> bool) t : NoDup (map fst t) -> NoDup (map fst (filter f t)).
Proof.
  induction t as [|p t IH]; cbn; intro H; [constructor|].
  inversion H as [|? ? Hn Hd]; subst. destruct (f p); cbn; [constructor|]; auto.
  intro Hi. apply Hn. apply in_map_iff in Hi as [q [E Hq]]. apply filter_In in Hq as [Hq _].
  apply in_map_iff. exists q. auto.
Qed.

Lemma jinv_init : jinv jinit.
Proof. constructor; cbn; [constructor | tauto]. Qed.

Lemma jinv_step s o : jinv s -> jinv (jstep s o).
Proof.
  intros [Hn Hf]. destruct o as [id a|id|id|d]; cbn [jstep].
  - destruct (jmem id (j_tab s)) eqn:E; [constructor; assumption|].
    destruct (a =? 0) eqn:Ea; constructor; cbn [j_now j_tab j_runs map fst]; try assumption.
    + constructor; [apply jmem_false, E | exact Hn].
    + intros i t [H|H]; [injection H as <- <-; lia | eauto].
  - constructor; cbn [j_now j_tab]; [apply nodup_map_filter, Hn|].
    intros i t H. apply filter_In in H as [H _]. eauto.
  - destruct (jmem id (j_tab s)); constructor; cbn [j_now j_tab]; try assumption.
    + apply nodup_map_filter, Hn.
    + intros i t H. apply filter_In in H as [H _]. eauto.
  - constructor; cbn [j_now j_tab]; [apply nodup_map_filter, Hn|].
    intros i t H. apply filter_In in H as [H Hlt]. cbn [snd] in Hlt. lia.
Qed.

Lemma jinv_run h : forall s, jinv s -> jinv (jrun h s).
Proof. induction h as [|o h IH]; intros s H; [exact H|]. unfold jrun; cbn [fold_left]. apply IH, jinv_step, H. Qed.

(* a job that ran or was cancelled is not in the table (until it is scheduled again) *)
Lemma jdel_not_in id t : ~ In id (map fst (jdel id t)).
Proof.
  intro Hi. apply in_map_iff in Hi as [[i x] [E Hp]]. cbn in E. subst i.
  unfold jdel in Hp. apply filter_In in Hp as [_ Hp]. cbn in Hp. rewrite N.eqb_refl in Hp. discriminate.
Qed.

Lemma filter_length_le {A} (f : A -> bool) l : (length (filter f l) <= length l)%nat.
Proof. induction l as [|x l IH]; cbn; [lia|]. destruct (f x); cbn; lia. Qed.

Lemma table_bounded_by_schedules h : forall s,
    (length (j_tab (jrun h s)) <= length (j_tab s) + length (filter (fun o => match o with JSchedule _ _ => true | _ => false end) h))%nat.
Proof.
  induction h as [|o h IH]; intro s; [cbn; lia|].
  unfold jrun; cbn [fold_left]. fold (jrun h (jstep s o)). specialize (IH (jstep s o)).
  assert (Hstep : (length (j_tab (jstep s o)) <= length (j_tab s) + match o with JSchedule _ _ => 1 | _ => 0 end)%nat).
  { destruct o as [id a|id|id|d]; cbn [jstep].
    - destruct (jmem id (j_tab s)); [lia|]. destruct (a =? 0); cbn [j_tab length]; lia.
    - cbn [j_tab]. unfold jdel. pose proof (filter_length_le (fun p : N * N => negb (fst p =? id)) (j_tab s)). lia.
    - destruct (jmem id (j_tab s)); cbn [j_tab]; [|lia]. unfold jdel.
      pose proof (filter_length_le (fun p : N * N => negb (fst p =? id)) (j_tab s)). lia.
    - cbn [j_tab]. pose proof (filter_length_le (fun p : N * N => negb (snd p <=? j_now s + d)) (j_tab s)). lia. }
  cbn [filter]. destruct o; cbn [length] in *; lia.
Qed.
