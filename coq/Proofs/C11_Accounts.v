(* C11: lemmas about Model/C11_Accounts.v -- which validators a round and a preparation are about. *)
From Verif Require Import Lib.Base Model.C11_Registrations Model.C11_Delivery Model.C11_Accounts
     Proofs.C11 Proofs.C11_Delivery.
From Coq Require Import ZifyBool ZifyN ZifyNat.

Lemma accounts_for_In : forall e prov v,
  In v (accounts_for e prov) <-> exists w, In (v, w) prov /\ validating_at e w = true.
Proof.
  intros e prov v. unfold accounts_for. rewrite in_map_iff. split.
  - intros [[v' w] [Hv H]]. cbn in Hv. subst v'. apply filter_In in H. cbn in H. exists w. exact H.
  - intros [w [H1 H2]]. exists (v, w). split; [reflexivity|]. apply filter_In. split; assumption.
Qed.

Lemma elaborate_nth : forall xs i x,
  nth_error xs i = Some x -> nth_error (elaborate xs) i = Some (elab x).
Proof. intros xs i x H. unfold elaborate. exact (map_nth_error elab i xs H). Qed.

(* the validators of the job's round are exactly the provider's accounts validating at the NEXT epoch *)
Lemma job_round_vals : forall epoch wins r v,
  r_api r = false ->
  (In v (r_vals (job_round epoch wins r))
   <-> exists w, In (v, w) (with_windows (r_vals r) wins) /\ validating_at (epoch + 1) w = true).
Proof.
  intros epoch wins r v Hapi. unfold job_round. rewrite Hapi. cbn [set_vals r_vals].
  apply accounts_for_In.
Qed.

Lemma prep_call_vals : forall epoch wins p v,
  In v (p_vals (prep_call epoch wins p))
  <-> exists w, In (v, w) (with_windows (p_vals p) wins) /\ validating_at (epoch + 1) w = true.
Proof. intros epoch wins p v. unfold prep_call. cbn [set_pvals p_vals]. apply accounts_for_In. Qed.

(* the API hands over its own accounts *)
Lemma job_round_api : forall epoch wins r, r_api r = true -> job_round epoch wins r = r.
Proof. intros epoch wins r H. unfold job_round. rewrite H. reflexivity. Qed.

(* the job and the preparer, asked at the same epoch of the same provider, are about the same validators *)
Lemma job_and_preparer_agree : forall epoch wins r p,
  r_api r = false -> p_vals p = r_vals r ->
  p_vals (prep_call epoch wins p) = r_vals (job_round epoch wins r).
Proof.
  intros epoch wins r p Hapi Hv. unfold prep_call, job_round. rewrite Hapi, Hv. reflexivity.
Qed.

(* Completeness through the provider: a validator that is validating at the next epoch -- active now
   and still then, or ACTIVATING then -- is served by the job's round at this epoch. *)
Lemma job_serves_next_epoch : forall xs tms i epoch wins r err reqs relays nodes,
  Forall (fun tm => t_ctx tm = None) tms ->
  nth_error xs i = Some (EJob epoch wins r) ->
  nth_error (snd (run_epochs init xs tms)) i = Some (OutRound err reqs relays nodes) ->
  r_api r = false -> r_acct_err r = false -> r_cfg r = true ->
  forall v w, In (v, w) (with_windows (r_vals r) wins) -> validating_at (epoch + 1) w = true ->
    err = false
    /\ forall res rc, v_res v = Some res -> In rc (rs_relays res) ->
         reached (kind_of (r_relays r) (rc_addr rc)) = true ->
         (exists regs sr, In (rc_addr rc, regs) relays /\ In sr regs
                     /\ sr_content sr = {| ct_fee := rc_fee rc; ct_gas := rc_gas rc; ct_pub := v_pub v |})
         \/ (exists q, In q reqs /\ q_ok q = false /\ q_acct q = v_acct v
                       /\ q_content q = {| ct_fee := rc_fee rc; ct_gas := rc_gas rc; ct_pub := v_pub v |}).
Proof.
  intros xs tms i epoch wins r err reqs relays nodes Hctx Hop Hout Hapi Hae Hcfg v w Hin Hw.
  unfold run_epochs in Hout. rewrite (run_timed_alive _ _ _ Hctx) in Hout.
  pose proof (elaborate_nth _ _ _ Hop) as Hop'. cbn [elab] in Hop'.
  assert (Hv : In v (r_vals (job_round epoch wins r))).
  { apply job_round_vals; [exact Hapi|]. exists w. split; assumption. }
  assert (Hact : active (job_round epoch wins r) = true).
  { unfold active. unfold job_round in *. rewrite Hapi in *. cbn [set_vals r_api r_acct_err r_cfg r_vals] in *.
    rewrite Hapi, Hae, Hcfg. destruct (accounts_for (epoch + 1) (with_windows (r_vals r) wins)); [destruct Hv|reflexivity]. }
  destruct (round_complete _ _ _ _ _ _ _ Hop' Hout Hact) as [He H].
  split; [exact He|]. intros res rc Hres Hrc Hreach.
  assert (Hrel : r_relays (job_round epoch wins r) = r_relays r).
  { unfold job_round. rewrite Hapi. reflexivity. }
  rewrite <- Hrel in Hreach.
  destruct (H v res rc Hv Hres Hrc Hreach) as [[sr [[regs [H1 H2]] H3]]|Hq]; [left|right; exact Hq].
  exists regs, sr. auto.
Qed.

(* Soundness through the provider: whatever reaches a relay in the job's round is the registration
   of an account the provider reports validating at the next epoch. *)
Lemma job_serves_only_next_epoch : forall (acct_of : N -> N) xs tms i epoch wins r err reqs relays nodes,
  accts_ok acct_of (elaborate xs) ->
  Forall (fun tm => t_ctx tm = None) tms ->
  nth_error xs i = Some (EJob epoch wins r) ->
  nth_error (snd (run_epochs init xs tms)) i = Some (OutRound err reqs relays nodes) ->
  r_api r = false ->
  forall a regs sr, In (a, regs) relays -> In sr regs ->
    exists v w, In (v, w) (with_windows (r_vals r) wins) /\ validating_at (epoch + 1) w = true
                /\ ct_pub (sr_content sr) = v_pub v
                /\ sg_acct (sr_sig sr) = v_acct v.
Proof.
  intros acct_of xs tms i epoch wins r err reqs relays nodes Hacc Hctx Hop Hout Hapi a regs sr Hin Hsr.
  unfold run_epochs in Hout. rewrite (run_timed_alive _ _ _ Hctx) in Hout.
  pose proof (elaborate_nth _ _ _ Hop) as Hop'. cbn [elab] in Hop'.
  destruct (content_and_signer acct_of _ Hacc i _ err reqs relays nodes Hop' Hout a sr
              (ex_intro _ regs (conj Hin Hsr))) as [_ [v [res [rc [Hv [_ [_ [_ [Hc [Hs _]]]]]]]]]].
  apply job_round_vals in Hv; [|exact Hapi]. destruct Hv as [w [H1 H2]].
  exists v, w. split; [exact H1|]. split; [exact H2|]. rewrite Hc, Hs. cbn. split; reflexivity.
Qed.

(* The preparer: every beacon node gets an entry exactly for the provider's accounts validating at
   the next epoch whose settings resolve. *)
Lemma preparer_prepares_next_epoch : forall xs st i epoch wins p err nodes,
  nth_error xs i = Some (EPrep epoch wins p) ->
  nth_error (snd (run st (elaborate xs))) i = Some (OutPrepare err nodes) ->
  p_acct_err p = false ->
  (exists v w, In (v, w) (with_windows (p_vals p) wins) /\ validating_at (epoch + 1) w = true) ->
  err = false
  /\ exists l, nodes = map (fun _ => Some l) (p_nodes p)
     /\ (forall idx fee, In (idx, fee) l <->
           exists v w, In (v, w) (with_windows (p_vals p) wins) /\ validating_at (epoch + 1) w = true
                       /\ v_index v = idx
                       /\ (if p_cfg p then option_map rs_fee (v_res v) else Some (p_fallback p)) = Some fee).
Proof.
  intros xs st i epoch wins p err nodes Hop Hout Hae [v0 [w0 [Hin0 Hw0]]].
  pose proof (elaborate_nth _ _ _ Hop) as Hop'. cbn [elab] in Hop'.
  assert (Hne : p_vals (prep_call epoch wins p) <> []).
  { intro E. assert (Hv : In v0 (p_vals (prep_call epoch wins p))) by (apply prep_call_vals; exists w0; auto).
    rewrite E in Hv. destruct Hv. }
  destruct (prepare_spec _ st i _ err nodes Hop' Hout Hae Hne) as [He [l [Hl Hspec]]].
  split; [exact He|]. exists l. split; [exact Hl|].
  intros idx fee. rewrite Hspec. cbn [prep_call set_pvals p_cfg p_fallback]. split.
  - intros [v [Hv [Hi Hf]]]. apply prep_call_vals in Hv. destruct Hv as [w [H1 H2]]. exists v, w. auto.
  - intros [v [w [H1 [H2 [Hi Hf]]]]]. exists v. split; [|auto]. apply prep_call_vals. exists w. auto.
Qed.
