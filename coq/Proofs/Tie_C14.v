(* C14: the hand-written model equals the gotrans transcription of the aggregator selection arithmetic
   (coq/Gen/Pure_C14.v, regenerated from the repository's source on every run).  When the Go source
   changes its meaning, a lemma here stops compiling and only C14's tie is affected. *)
From Coq Require Import ZArith NArith Lia Bool List.
From Coq Require Import ZifyBool ZifyN.
From Verif Require Import Lib.Base Lib.GoInt Proofs.TieLib Gen.Pure_C14.
From Verif Require Model.C14_Subscriptions.
Local Open Scope Z_scope.

Lemma tie_is_aggregator (len target : N) (hash : list N) :
  C14_Subscriptions.is_aggregator len target hash =
  aggregator_isAggregator (Z.of_N target) (Z.of_N len) (Z.of_N (C14_Subscriptions.le64 hash)).
Proof.
  unfold C14_Subscriptions.is_aggregator, aggregator_isAggregator.
  rewrite <- N2Z.inj_div, of_N_eqb0.
  destruct (len / target =? 0)%N eqn:E.
  - change 1 with (Z.of_N 1). rewrite of_N_mod_eqb0. reflexivity.
  - rewrite of_N_mod_eqb0. reflexivity.
Qed.
